import Arp.Lemmas.ExpErr
import Mathlib.Data.Int.Log
/-!
# Lemmas for the accuracy of `Float::sigmoid` (property C16)

`sigmoid x = ex / (ex + 1)`: lemmas about `fl(a / fl(a + 1))` for a positive finite `a` of a format
`F`, both operations rounded in `F`'s (nearest) mode (`F` is the working format of `sigmoid`).  The
hypothesis `hno : a.mag + 1 < nearThreshold F` says that `a + 1` does not overflow; it follows from
`p + 1 ≤ emax` (`no_ovf_of_hpe`).

1. **One nearest rounding of a positive rational** (`round_tri`): `+∞` only from `nearThreshold` on,
   `+0` only up to half the smallest subnormal, otherwise a positive canonical number within half
   an ulp *of its own exponent*; `posN_exp_le`, `posN_half_ulp`, `rnd_ge_fin` (monotonicity against a
   representable lower bound without an upper bound).
2. **The two operations** (`add_one_toRes`, `div_toRes`, `sig_add_one`: `fl(a+1)` is finite, `≥ max 1 a`;
   `sig_add_small`: for `a ≤ 1` its absolute error is `≤ 2^-p`; `sig_div`: `fl(a/s)` is `+0` or a
   positive number `≤ 1`, monotone against representable lower bounds).
3. **The error budget over `ℝ`** (`sig_split`, `sig_sharp`, `sig_sharp_const`, `sig_crude`).
4. **Bridges** (`posN_half_ulp_rel`, `spec_rel`: the `WithinUlps` clause of `exp` in relative form,
   `le_one_of_spec`: `exp x ≤ 1` for `x < 0`, `sig_div_val`, `posN_ge_eta`, `sig_div_posN`: the
   quotient is never rounded to zero).
5. **The exact regimes** (`sig_tiny_exact`: `a < 2^-p` gives `fl(a+1) = 1` and the result `a`;
   `sig_huge_exact`: `a ≥ 2^(p+1)` gives `fl(a+1) = a` and the result `1`).
-/

namespace Arp.SigmoidErr
open Arp Arp.SpecRound Arp.Sqrt Arp.RelErr Arp.ExpErr

/-! ## 1. one nearest rounding -/

/-- the three possible outcomes of a nearest rounding of a positive rational -/
theorem round_tri {F : Sem} (hF : F.WF) (hrm : F.rm = .nte ∨ F.rm = .nta) {res : Flt}
    (hsem : res.sem = F) {R : ℚ} (hR : 0 < R) (hres : res.toRes = Spec.round F F.rm false R) :
    (res.cat = .inf ∧ res.sign = false ∧ nearThreshold F ≤ R) ∨
    (res.cat = .zero ∧ res.sign = false ∧ R ≤ F.ulp F.emin / 2) ∨
    (PosN F res ∧ res.mag = rnd F F.rm R ∧ |res.mag - R| ≤ F.ulp res.exp / 2 ∧
      ∃ e m, Spec.round F F.rm false R = .fin false e m) := by
  rcases round_cases hF hR F.rm false with h | h | ⟨e, m, hfin⟩
  · -- zero
    right; left
    rw [h] at hres
    obtain ⟨hcat, hsg⟩ := toRes_zero hres
    refine ⟨hcat, hsg, ?_⟩
    have hrep : IsRep F (F.ulp F.emin) := by
      rw [Sem.ulp_def]
      exact isRep_pow hF _ (le_refl _) (by have := Sem.emin_le_emax hF; have := hF.2; omega)
    have hsp := round_nearest_spec hF hR hrm false (by rw [h]; trivial) _ hrep
    rw [h] at hsp
    simp only [Res.mag, zero_sub, abs_neg, abs_of_pos hR] at hsp
    have hupos := F.ulp_pos F.emin
    rcases abs_cases (F.ulp F.emin - R) with ⟨e, _⟩ | ⟨e, _⟩ <;> rw [e] at hsp <;> linarith
  · -- infinity
    left
    rw [h] at hres
    obtain ⟨hcat, hsg⟩ := toRes_inf_sign hres
    refine ⟨hcat, hsg, ?_⟩
    obtain ⟨_, h'⟩ := (round_eq_inf_iff hF hR F.rm false false).mp h
    rcases h' with ⟨h1, _⟩ | ⟨h1, _⟩ | ⟨_, h1⟩
    · rcases hrm with h2 | h2 <;> rw [h2] at h1 <;> exact absurd h1 (by decide)
    · rcases h1 with ⟨h1, _⟩ | ⟨_, h1⟩
      · rcases hrm with h2 | h2 <;> rw [h2] at h1 <;> exact absurd h1 (by decide)
      · exact absurd h1 (by decide)
    · exact h1
  · right; right
    obtain ⟨hpos, hmag⟩ := posN_of_round hF hsem hR hfin hres
    have hv : rnd F F.rm R = (m:ℚ) * F.ulp e := by unfold rnd; rw [hfin, Res.mag_fin]
    have hhalf := within_half_ulp hF hR hrm false hfin
    rw [← Sem.ulp_def] at hhalf
    rw [← hv, ← hmag] at hhalf
    have hexp : res.exp = e ∧ res.mant = m := by
      rw [hfin] at hres
      obtain ⟨_, _, h3, h4⟩ := toRes_fin hres
      exact ⟨h3, h4⟩
    rw [← hexp.1] at hhalf
    exact ⟨hpos, hmag, hhalf, e, m, hfin⟩

/-- a positive canonical value below `2^(k+1)`, `k ≥ emin`, has an exponent `≤ k` -/
theorem posN_exp_le {F : Sem} (hF : F.WF) {r : Flt} (hr : PosN F r) {k : ℤ} (hk : F.emin ≤ k)
    (hlt : r.mag < (2:ℚ) ^ (k + 1)) : r.exp ≤ k := by
  have hp1 : 1 ≤ F.p := by have := hF.2; omega
  obtain ⟨_, _, _, _, h5⟩ := (Flt.canonical_normal hr.cat).mp hr.can
  rw [hr.sem] at h5
  rcases h5 with hn | hn
  · have h1 : (2:ℚ) ^ r.exp ≤ r.mag := by
      rw [hr.mag_ulp, ← F.half_pow_mul_ulp hp1 r.exp]
      exact mul_le_mul_of_nonneg_right (by exact_mod_cast hn) (le_of_lt (F.ulp_pos _))
    have h3 : (2:ℚ) ^ r.exp < (2:ℚ) ^ (k + 1) := lt_of_le_of_lt h1 hlt
    have := (zpow_lt_zpow_iff_right₀ (by norm_num : (1:ℚ) < 2)).mp h3
    omega
  · omega

/-- half-ulp error in the form of `WithinUlps`: the ulp of any binade `k ≥ emin` bounding the result -/
theorem posN_half_ulp {F : Sem} (hF : F.WF) {r : Flt} (hr : PosN F r) {R : ℚ}
    (h : |r.mag - R| ≤ F.ulp r.exp / 2) {k : ℤ} (hk : F.emin ≤ k) (hlt : r.mag < (2:ℚ) ^ (k + 1)) :
    |r.mag - R| ≤ F.ulp k / 2 := by
  have := F.ulp_mono (posN_exp_le hF hr hk hlt)
  linarith

/-- monotonicity of a finite rounding against a representable lower bound -/
theorem rnd_ge_fin {F : Sem} (hF : F.WF) (rm : RM) {q c : ℚ} (hc0 : 0 < c) (hc : IsRep F c)
    (h : c ≤ q) {e : ℤ} {m : ℕ} (hfin : Spec.round F rm false q = .fin false e m) :
    c ≤ rnd F rm q := by
  have k1 := round_mono hF hc0 h rm false
  rw [isRep_pos_round hF hc hc0, hfin, Res.key_fin] at k1
  unfold rnd; rw [hfin, Res.mag_fin]; exact_mod_cast k1

/-! ## 2. the two operations of `sigmoid` -/

theorem add_one_toRes {F : Sem} (hF : F.WF) {a : Flt} (ha : PosN F a) :
    (a.add (Flt.one F false)).sem = F ∧
    (a.add (Flt.one F false)).toRes = Spec.round F F.rm false (a.mag + 1) := by
  obtain ⟨hb, hb1⟩ := ECf.one_posN hF
  have hFa : a.sem.WF := by rw [ha.sem]; exact hF
  have hs : (Flt.one F false).sem = a.sem := hb.sem.trans ha.sem.symm
  have hc := C01.add_correct a (Flt.one F false) a.sem.rm hFa hs ha.can hb.can
  have hsem := (add_canonical a (Flt.one F false) hFa hs ha.can hb.can).2
  have hq : 0 < a.mag + 1 := by have := ha.mag_pos; linarith
  refine ⟨hsem.trans ha.sem, ?_⟩
  show (addWithRm a (Flt.one F false) a.sem.rm).toRes = _
  rw [hc, ha.sem]
  have hva : a.val = a.mag := by rw [Flt.val_normal ha.cat, ha.sign]; rfl
  have hvb : (Flt.one F false).val = 1 := by rw [Flt.val_normal hb.cat, hb.sign, ← hb1]; rfl
  simp only [Spec.add, Spec.isNan, Spec.isInf, Spec.isZero, ha.cat, hb.cat, hva, hvb]
  simp only [Spec.roundQ, if_neg (ne_of_gt hq), if_pos hq]
  simp

theorem div_toRes {F : Sem} (hF : F.WF) {a b : Flt} (ha : PosN F a) (hb : PosN F b) :
    (a.div b).sem = F ∧ (a.div b).toRes = Spec.round F F.rm false (a.mag / b.mag) := by
  have hFa : a.sem.WF := by rw [ha.sem]; exact hF
  have hc := C01.div_correct a b a.sem.rm hFa (hb.sem.trans ha.sem.symm) ha.can hb.can
  have hsem := (div_canonical a b hFa).2
  refine ⟨hsem.trans ha.sem, ?_⟩
  show (divWithRm a b a.sem.rm).toRes = _
  rw [hc, ha.sem]
  simp [Spec.div, Spec.isNan, Spec.isInf, Spec.isZero, ha.cat, hb.cat, ha.sign, hb.sign]


theorem isRep_one' {F : Sem} (hF : F.WF) : IsRep F 1 := by
  have := isRep_pow hF 0 (by have := Sem.emin_le_zero hF; have := hF.2; omega)
    (by have := Sem.emax_pos hF; omega)
  simpa using this

theorem isRep_two' {F : Sem} (hF : F.WF) : IsRep F 2 := by
  have := isRep_pow hF 1 (by have := Sem.emin_le_zero hF; have := hF.2; omega)
    (by have := Sem.emax_pos hF; omega)
  simpa using this

/-- `p + 1 ≤ emax`: `maxFinite + 1` does not overflow -/
theorem no_ovf_of_hpe {F : Sem} (hpe : (F.p:ℤ) + 1 ≤ F.emax) {a : Flt} (ha : PosN F a) :
    a.mag + 1 < nearThreshold F := by
  have h1 := ha.isRep.le_maxFinite
  have h2 : (2:ℚ) ^ (1:ℤ) ≤ (2:ℚ) ^ (F.emax - (F.p:ℤ)) :=
    zpow_le_zpow_right₀ (by norm_num) (by omega)
  unfold nearThreshold
  norm_num at h2
  linarith

/-- `s = fl(a + 1)` is a positive finite number `≥ max 1 a` within half an ulp (of its exponent) of
    `a + 1`, provided `a + 1` does not overflow (`hno`; automatic when `p + 1 ≤ emax`) -/
theorem sig_add_one {F : Sem} (hF : F.WF) (hrm : F.rm = .nte ∨ F.rm = .nta)
    {a : Flt} (ha : PosN F a)
    (hno : a.mag + 1 < nearThreshold F) :
    PosN F (a.add (Flt.one F false)) ∧
      (a.add (Flt.one F false)).mag = rnd F F.rm (a.mag + 1) ∧
      |(a.add (Flt.one F false)).mag - (a.mag + 1)| ≤ F.ulp (a.add (Flt.one F false)).exp / 2 ∧
      1 ≤ (a.add (Flt.one F false)).mag ∧ a.mag ≤ (a.add (Flt.one F false)).mag := by
  obtain ⟨hsem, hres⟩ := add_one_toRes hF ha
  have hA := ha.mag_pos
  have hq : 0 < a.mag + 1 := by linarith
  rcases round_tri hF hrm hsem hq hres with ⟨_, _, h⟩ | ⟨_, _, h⟩ | ⟨hp, hm, herr, e, m, hfin⟩
  · exfalso; linarith
  · exfalso
    have h1 : F.ulp F.emin ≤ (2:ℚ) ^ (0:ℤ) := by
      rw [Sem.ulp_def]
      exact zpow_le_zpow_right₀ (by norm_num) (by have := Sem.emin_le_zero hF; have := hF.2; omega)
    norm_num at h1
    linarith
  · refine ⟨hp, hm, herr, ?_, ?_⟩
    · rw [hm]; exact rnd_ge_fin hF F.rm (by norm_num) (isRep_one' hF) (by linarith) hfin
    · rw [hm]; exact rnd_ge_fin hF F.rm hA ha.isRep (by linarith) hfin

/-- for `a ≤ 1` the sum stays in `[1, 2]` and its absolute error is at most `2^-p` -/
theorem sig_add_small {F : Sem} (hF : F.WF) (hrm : F.rm = .nte ∨ F.rm = .nta)
    {a : Flt} (ha : PosN F a)
    (hno : a.mag + 1 < nearThreshold F) (ha1 : a.mag ≤ 1) :
    (a.add (Flt.one F false)).mag ≤ 2 ∧
      |(a.add (Flt.one F false)).mag - (a.mag + 1)| ≤ F.ulp 0 / 2 := by
  obtain ⟨hp, hm, herr, h1, _⟩ := sig_add_one hF hrm ha hno
  have hA := ha.mag_pos
  have hq : 0 < a.mag + 1 := by linarith
  have hp1 : 1 ≤ F.p := by have := hF.2; omega
  have hle : (a.add (Flt.one F false)).mag ≤ 2 := by
    rw [hm]; exact rnd_le hF F.rm hq (isRep_two' hF) (by linarith)
  refine ⟨hle, ?_⟩
  rcases lt_or_eq_of_le hle with hlt | heq
  · exact posN_half_ulp hF hp herr (Sem.emin_le_zero hF) (by norm_num; exact hlt)
  · -- the sum was rounded up to 2: compare with the neighbour `2 - ulp 0`
    have hu := F.ulp_pos 0
    have hrep : IsRep F (((2 ^ F.p - 1 : ℕ) : ℚ) * F.ulp 0) :=
      ⟨0, 2 ^ F.p - 1, Sem.emin_le_zero hF, le_of_lt (Sem.emax_pos hF),
        by have := Nat.one_le_two_pow (n := F.p); omega,
        Or.inl (by have := two_pow_pred_sr hp1; have := Nat.one_le_two_pow (n := F.p - 1); omega),
        by rw [Sem.ulp_def]⟩
    have hy : ((2 ^ F.p - 1 : ℕ) : ℚ) * F.ulp 0 = 2 - F.ulp 0 := by
      have h2 := F.pow_mul_ulp 0
      have : ((2 ^ F.p - 1 : ℕ) : ℚ) = (2:ℚ) ^ F.p - 1 := by
        rw [Nat.cast_sub Nat.one_le_two_pow]; push_cast; ring
      rw [this, sub_mul, h2]; norm_num
    rw [hy] at hrep
    obtain ⟨_, _, _, _, e, m, hfin⟩ : True ∧ True ∧ True ∧ True ∧
        ∃ e m, Spec.round F F.rm false (a.mag + 1) = .fin false e m := by
      obtain ⟨hsem, hres⟩ := add_one_toRes hF ha
      rcases round_tri hF hrm hsem hq hres with ⟨hc, _⟩ | ⟨hc, _⟩ | ⟨_, _, _, h⟩
      · rw [hp.cat] at hc; exact absurd hc (by simp)
      · rw [hp.cat] at hc; exact absurd hc (by simp)
      · exact ⟨trivial, trivial, trivial, trivial, h⟩
    have hsp := round_nearest_spec hF hq hrm false (by rw [hfin]; trivial) _ hrep
    have hmag : (Spec.round F F.rm false (a.mag + 1)).mag F = 2 := by
      have : rnd F F.rm (a.mag + 1) = 2 := by rw [← hm, heq]
      exact this
    rw [hmag] at hsp
    rw [heq]
    have h2q : a.mag + 1 ≤ 2 := by linarith
    rw [abs_of_nonneg (by linarith)] at hsp ⊢
    rcases abs_cases (2 - F.ulp 0 - (a.mag + 1)) with ⟨e1, _⟩ | ⟨e1, _⟩ <;> rw [e1] at hsp <;> linarith

/-- `r = fl(a / s)` for `s ≥ max 1 a`: `+0` (only for a quotient up to half the smallest
    subnormal) or a positive finite number `≤ 1` within half an ulp of the quotient -/
theorem sig_div {F : Sem} (hF : F.WF) (hrm : F.rm = .nte ∨ F.rm = .nta) {a s : Flt}
    (ha : PosN F a) (hs : PosN F s) (hs1 : 1 ≤ s.mag) (has : a.mag ≤ s.mag) :
    (a.div s).sem = F ∧ (a.div s).Canonical ∧
    ((( a.div s).cat = .zero ∧ (a.div s).sign = false ∧ a.mag / s.mag ≤ F.ulp F.emin / 2) ∨
     (PosN F (a.div s) ∧ (a.div s).mag ≤ 1 ∧
        |(a.div s).mag - a.mag / s.mag| ≤ F.ulp (a.div s).exp / 2 ∧
        ∀ c, IsRep F c → 0 < c → c ≤ a.mag / s.mag → c ≤ (a.div s).mag)) := by
  obtain ⟨hsem, hres⟩ := div_toRes hF ha hs
  have hFa : a.sem.WF := by rw [ha.sem]; exact hF
  have hcan := (div_canonical a s hFa).1
  have hA := ha.mag_pos
  have hS := hs.mag_pos
  have hq : 0 < a.mag / s.mag := div_pos hA hS
  have hq1 : a.mag / s.mag ≤ 1 := by rw [div_le_one hS]; exact has
  have hqa : a.mag / s.mag ≤ a.mag := by
    rw [div_le_iff₀ hS]; nlinarith
  refine ⟨hsem, hcan, ?_⟩
  rcases round_tri hF hrm hsem hq hres with ⟨_, _, h⟩ | ⟨h1, h2, h⟩ | ⟨hp, hm, herr, e, m, hfin⟩
  · exfalso
    have h1 := ha.isRep.le_maxFinite
    have := maxFinite_lt_nearThreshold F
    linarith
  · exact Or.inl ⟨h1, h2, h⟩
  · refine Or.inr ⟨hp, ?_, herr, fun c hc hc0 hle => ?_⟩
    · rw [hm]; exact rnd_le hF F.rm hq (isRep_one' hF) hq1
    · rw [hm]; exact rnd_ge_fin hF F.rm hc0 hc hle hfin


/-! ## 3. the error budget over `ℝ` -/

theorem sig_split (A S t : ℝ) (hA : 0 < A) (hS : 0 < S) (ht : 0 < t) :
    A / S - t / (1 + t) =
      (A / S) * ((1 + A - S) / (1 + A)) + (A - t) / ((1 + A) * (1 + t)) := by
  have h1 : (1 + A) ≠ 0 := by positivity
  have h2 : (1 + t) ≠ 0 := by positivity
  have h3 : S ≠ 0 := ne_of_gt hS
  field_simp
  ring

/-- **sharp budget** (`a ≤ 1`, the sum `1 + a` has the absolute error `u = 2^-p`): with `U = u·B`
    the ulp of the binade below `B` and the quotient below `B`, the error of the result is
    `(1/2 + 1/(1+A) + c/((1+A)(1+t)))·U` when `|A - t| ≤ c·U` -/
theorem sig_sharp {u B A S R t c : ℝ} (hB : 0 < B) (hA : 0 < A) (ht : 0 < t)
    (hS1 : 1 ≤ S) (hSe : |S - (1 + A)| ≤ u) (hQB : A / S < B)
    (hR : |R - A / S| ≤ u * B / 2) (hAt : |A - t| ≤ c * (u * B)) :
    |R - t / (1 + t)| ≤ (1 / 2 + 1 / (1 + A) + c / ((1 + A) * (1 + t))) * (u * B) := by
  have hS : 0 < S := by linarith
  have hQ : 0 < A / S := div_pos hA hS
  have h1A : 0 < 1 + A := by linarith
  have h1t : 0 < 1 + t := by linarith
  have hsplit := sig_split A S t hA hS ht
  have hd2 : |(A / S) * ((1 + A - S) / (1 + A))| ≤ 1 / (1 + A) * (u * B) := by
    rw [abs_mul, abs_of_pos hQ, abs_div, abs_of_pos h1A]
    have h1 : |1 + A - S| ≤ u := by rw [abs_sub_comm]; exact hSe
    have h2 : |1 + A - S| / (1 + A) ≤ u / (1 + A) := div_le_div_of_nonneg_right h1 (le_of_lt h1A)
    calc A / S * (|1 + A - S| / (1 + A)) ≤ B * (u / (1 + A)) :=
          mul_le_mul (le_of_lt hQB) h2 (by positivity) (le_of_lt hB)
      _ = 1 / (1 + A) * (u * B) := by ring
  have hd1 : |(A - t) / ((1 + A) * (1 + t))| ≤ c / ((1 + A) * (1 + t)) * (u * B) := by
    rw [abs_div, abs_of_pos (mul_pos h1A h1t)]
    calc |A - t| / ((1 + A) * (1 + t)) ≤ c * (u * B) / ((1 + A) * (1 + t)) :=
          div_le_div_of_nonneg_right hAt (le_of_lt (mul_pos h1A h1t))
      _ = c / ((1 + A) * (1 + t)) * (u * B) := by ring
  have e : R - t / (1 + t) = (R - A / S) + (A / S - t / (1 + t)) := by ring
  rw [e, hsplit]
  calc |R - A / S + (A / S * ((1 + A - S) / (1 + A)) + (A - t) / ((1 + A) * (1 + t)))|
      ≤ |R - A / S| + |A / S * ((1 + A - S) / (1 + A)) + (A - t) / ((1 + A) * (1 + t))| :=
        abs_add_le _ _
    _ ≤ |R - A / S| + (|A / S * ((1 + A - S) / (1 + A))| + |(A - t) / ((1 + A) * (1 + t))|) := by
        have := abs_add_le (A / S * ((1 + A - S) / (1 + A))) ((A - t) / ((1 + A) * (1 + t)))
        linarith
    _ ≤ u * B / 2 + (1 / (1 + A) * (u * B) + c / ((1 + A) * (1 + t)) * (u * B)) := by linarith
    _ = (1 / 2 + 1 / (1 + A) + c / ((1 + A) * (1 + t))) * (u * B) := by ring

/-- the sharp budget with `c = 33/32`: at most `81/32` ulps, and at most `2` ulps for
    `t ≥ 1/4`, `A ≥ 49/200` -/
theorem sig_sharp_const {A t : ℝ} (hA : 0 < A) (ht : 0 < t) :
    1 / 2 + 1 / (1 + A) + (33 / 32) / ((1 + A) * (1 + t)) ≤ 81 / 32 ∧
    (49 / 200 ≤ A → 1 / 4 ≤ t → 1 / 2 + 1 / (1 + A) + (33 / 32) / ((1 + A) * (1 + t)) ≤ 2) := by
  have h1A : 0 < 1 + A := by linarith
  have h1t : 0 < 1 + t := by linarith
  constructor
  · have h1 : 1 / (1 + A) ≤ 1 := by rw [div_le_one h1A]; linarith
    have h2 : (33 / 32) / ((1 + A) * (1 + t)) ≤ 33 / 32 := by
      rw [div_le_iff₀ (mul_pos h1A h1t)]; nlinarith
    linarith
  · intro ha hb
    have h1 : 1 / (1 + A) ≤ 200 / 249 := by
      rw [div_le_iff₀ h1A]; linarith
    have h2 : (33 / 32) / ((1 + A) * (1 + t)) ≤ (33 / 32) * (160 / 249) := by
      rw [div_le_iff₀ (mul_pos h1A h1t)]; nlinarith
    linarith

/-- **crude budget** (any size of `a`, relative errors): `u ≤ 1/256`, the sum has the relative error
    `u`, `|A - t| ≤ (33/32)·u·max A t`, and the ulp `U` of the result is at least `u`: `25/16` ulps -/
theorem sig_crude {u U A S R t : ℝ} (hu : 0 < u) (hu8 : u ≤ 1 / 256) (hA : 0 < A) (ht : 0 < t)
    (hS : 0 < S) (hSe : |S - (1 + A)| ≤ u * S) (hR : |R - A / S| ≤ U / 2) (huU : u ≤ U)
    (hAt : |A - t| ≤ 33 / 32 * u * max A t) :
    |R - t / (1 + t)| ≤ 25 / 16 * U := by
  have hQ : 0 < A / S := div_pos hA hS
  have h1A : 0 < 1 + A := by linarith
  have h1t : 0 < 1 + t := by linarith
  -- relative error with respect to `t`
  have hAt' : |A - t| ≤ 17 / 16 * u * t := by
    rcases le_total A t with h | h
    · rw [max_eq_right h] at hAt
      nlinarith
    · rw [max_eq_left h] at hAt
      obtain ⟨g1, g2⟩ := abs_le.mp hAt
      have h3 : A * (1 - 33 / 32 * u) ≤ t := by nlinarith
      have h4 : 33 / 32 * u * A ≤ 17 / 16 * u * t := by nlinarith
      linarith
  have hsplit := sig_split A S t hA hS ht
  have hd2 : |(A / S) * ((1 + A - S) / (1 + A))| ≤ u * (A / (1 + A)) := by
    rw [abs_mul, abs_of_pos hQ, abs_div, abs_of_pos h1A]
    have h1 : |1 + A - S| ≤ u * S := by rw [abs_sub_comm]; exact hSe
    calc A / S * (|1 + A - S| / (1 + A)) ≤ A / S * (u * S / (1 + A)) :=
          mul_le_mul_of_nonneg_left (div_le_div_of_nonneg_right h1 (le_of_lt h1A)) (le_of_lt hQ)
      _ = u * (A / (1 + A)) := by field_simp
  have hd1 : |(A - t) / ((1 + A) * (1 + t))| ≤ 17 / 16 * u * (1 / (1 + A)) := by
    rw [abs_div, abs_of_pos (mul_pos h1A h1t)]
    calc |A - t| / ((1 + A) * (1 + t)) ≤ 17 / 16 * u * t / ((1 + A) * (1 + t)) :=
          div_le_div_of_nonneg_right hAt' (le_of_lt (mul_pos h1A h1t))
      _ = 17 / 16 * u * (1 / (1 + A)) * (t / (1 + t)) := by field_simp
      _ ≤ 17 / 16 * u * (1 / (1 + A)) * 1 := by
          apply mul_le_mul_of_nonneg_left _ (by positivity)
          rw [div_le_one h1t]; linarith
      _ = 17 / 16 * u * (1 / (1 + A)) := by ring
  have hsum : u * (A / (1 + A)) + 17 / 16 * u * (1 / (1 + A)) ≤ 17 / 16 * u := by
    have : u * (A / (1 + A)) + 17 / 16 * u * (1 / (1 + A)) = u * ((A + 17 / 16) / (1 + A)) := by
      field_simp
    rw [this]
    have : (A + 17 / 16) / (1 + A) ≤ 17 / 16 := by
      rw [div_le_iff₀ h1A]; linarith
    nlinarith
  have e : R - t / (1 + t) = (R - A / S) + (A / S - t / (1 + t)) := by ring
  rw [e, hsplit]
  have t1 := abs_add_le (R - A / S)
    (A / S * ((1 + A - S) / (1 + A)) + (A - t) / ((1 + A) * (1 + t)))
  have t2 := abs_add_le (A / S * ((1 + A - S) / (1 + A))) ((A - t) / ((1 + A) * (1 + t)))
  linarith


/-! ## 4. bridges -/

/-- half an ulp of a number `≥ 1` is at most `2^-p` times the number -/
theorem posN_half_ulp_rel {F : Sem} (hF : F.WF) {s : Flt} (hs : PosN F s) (hs1 : 1 ≤ s.mag) :
    F.ulp s.exp / 2 ≤ (2:ℚ) ^ (-(F.p:ℤ)) * s.mag := by
  have hp1 : 1 ≤ F.p := by have := hF.2; omega
  obtain ⟨_, _, _, _, h5⟩ := (Flt.canonical_normal hs.cat).mp hs.can
  rw [hs.sem] at h5
  have hu : F.ulp s.exp / 2 = (2:ℚ) ^ (-(F.p:ℤ)) * (2:ℚ) ^ s.exp := by
    rw [← half_ulp, show s.exp - (F.p:ℤ) = -(F.p:ℤ) + s.exp by ring,
      zpow_add₀ (by norm_num : (2:ℚ) ≠ 0)]
  rw [hu]
  apply mul_le_mul_of_nonneg_left _ (by positivity)
  rcases h5 with hn | hn
  · rw [hs.mag_ulp, ← F.half_pow_mul_ulp hp1 s.exp]
    exact mul_le_mul_of_nonneg_right (by exact_mod_cast hn) (le_of_lt (F.ulp_pos _))
  · rw [hn]
    have : (2:ℚ) ^ F.emin ≤ (2:ℚ) ^ (0:ℤ) :=
      zpow_le_zpow_right₀ (by norm_num) (Sem.emin_le_zero hF)
    rw [zpow_zero] at this; linarith

/-- the `WithinUlps` clause in relative form (normal range) -/
theorem spec_rel {F : Sem} {A t c : ℝ} (hA : 0 < A) (hc : 0 ≤ c)
    (hk : ∀ k : ℤ, F.emin ≤ k → t < (2:ℝ) ^ (k + 1) → A < (2:ℝ) ^ (k + 1) →
      |A - t| ≤ c * (2:ℝ) ^ (k - ((F.p:ℤ) - 1)))
    (hn : (2:ℝ) ^ F.emin ≤ max A t) :
    |A - t| ≤ c * 2 * (2:ℝ) ^ (-(F.p:ℤ)) * max A t := by
  have hM : 0 < max A t := lt_of_lt_of_le hA (le_max_left _ _)
  have hlt := Int.lt_zpow_succ_log_self (b := 2) (by norm_num) (max A t)
  have hle := Int.zpow_log_le_self (b := 2) (by norm_num) hM
  rw [Nat.cast_ofNat] at hlt hle
  set j := Int.log 2 (max A t) with hj
  have hjmin : F.emin ≤ j := by
    have h1 : (2:ℝ) ^ F.emin < (2:ℝ) ^ (j + 1) := lt_of_le_of_lt hn hlt
    have := (zpow_lt_zpow_iff_right₀ (by norm_num : (1:ℝ) < 2)).mp h1
    omega
  have h := hk j hjmin (lt_of_le_of_lt (le_max_right _ _) hlt)
    (lt_of_le_of_lt (le_max_left _ _) hlt)
  have e : (2:ℝ) ^ (j - ((F.p:ℤ) - 1)) = 2 * (2:ℝ) ^ (-(F.p:ℤ)) * (2:ℝ) ^ j := by
    rw [show j - ((F.p:ℤ) - 1) = -(F.p:ℤ) + j + 1 by ring, zpow_add_one₀ (by norm_num),
      zpow_add₀ (by norm_num : (2:ℝ) ≠ 0)]; ring
  rw [e] at h
  have hpp : (0:ℝ) < (2:ℝ) ^ (-(F.p:ℤ)) := by positivity
  have : c * (2 * (2:ℝ) ^ (-(F.p:ℤ)) * (2:ℝ) ^ j) ≤ c * 2 * (2:ℝ) ^ (-(F.p:ℤ)) * max A t := by
    have h1 : c * 2 * (2:ℝ) ^ (-(F.p:ℤ)) * (2:ℝ) ^ j ≤ c * 2 * (2:ℝ) ^ (-(F.p:ℤ)) * max A t :=
      mul_le_mul_of_nonneg_left hle (by positivity)
    linarith
  linarith

/-- a representable number within `33/64` ulp of some `t < 1` is at most `1` -/
theorem le_one_of_spec {F : Sem} (hF : F.WF) (hp : 3 ≤ F.p) {a : Flt} (ha : PosN F a) {t : ℝ}
    (ht : t < 1)
    (hk : ∀ k : ℤ, F.emin ≤ k → t < (2:ℝ) ^ (k + 1) → ((a.mag : ℚ) : ℝ) < (2:ℝ) ^ (k + 1) →
      |((a.mag : ℚ) : ℝ) - t| ≤ 33 / 64 * (2:ℝ) ^ (k - ((F.p:ℤ) - 1))) :
    a.mag ≤ 1 := by
  by_contra hcon
  have hgt : 1 < a.mag := not_le.mp hcon
  have hp1 : 1 ≤ F.p := by omega
  -- the gap above 1
  have hgap := ha.isRep.gap hp1 (e := 0) (m := 2 ^ (F.p - 1)) (Or.inl (le_refl _))
  have h1 : ((2 ^ (F.p - 1) : ℕ) : ℚ) * F.ulp 0 = 1 := by
    have := F.half_pow_mul_ulp hp1 0
    push_cast; rw [this]; norm_num
  rw [h1] at hgap
  have hgap' : 1 + F.ulp 0 ≤ a.mag := by
    rcases hgap with h | h
    · linarith
    · have : ((2 ^ (F.p - 1) : ℕ) : ℚ) * F.ulp 0 + F.ulp 0 ≤ a.mag := by
        have e : (((2 ^ (F.p - 1) : ℕ) : ℚ) + 1) * F.ulp 0 =
            ((2 ^ (F.p - 1) : ℕ) : ℚ) * F.ulp 0 + F.ulp 0 := by ring
        rw [← e]; exact h
      rw [h1] at this; exact this
  set A : ℝ := ((a.mag : ℚ) : ℝ) with hAdef
  have hA1 : 1 < A := by rw [hAdef]; exact_mod_cast hgt
  have hA0 : 0 < A := by linarith
  have hgapR : 1 + (2:ℝ) ^ (0 - ((F.p:ℤ) - 1)) ≤ A := by
    have : ((1 + F.ulp 0 : ℚ) : ℝ) ≤ ((a.mag : ℚ) : ℝ) := by exact_mod_cast hgap'
    rw [Sem.ulp_def] at this; push_cast at this; exact this
  have hlt := Int.lt_zpow_succ_log_self (b := 2) (by norm_num) A
  have hle := Int.zpow_log_le_self (b := 2) (by norm_num) hA0
  rw [Nat.cast_ofNat] at hlt hle
  set j := Int.log 2 A with hj
  have hj0 : 0 ≤ j := by
    have h1 : (2:ℝ) ^ (0:ℤ) < (2:ℝ) ^ (j + 1) := by rw [zpow_zero]; linarith
    have := (zpow_lt_zpow_iff_right₀ (by norm_num : (1:ℝ) < 2)).mp h1
    omega
  have h1j : (1:ℝ) ≤ (2:ℝ) ^ (j + 1) := by
    have : (2:ℝ) ^ (0:ℤ) ≤ (2:ℝ) ^ (j + 1) := zpow_le_zpow_right₀ (by norm_num) (by omega)
    rwa [zpow_zero] at this
  have h := hk j (le_trans (Sem.emin_le_zero hF) hj0) (by linarith) hlt
  -- `A - 1 ≥ 2^(j-(p-1))`
  have hU : (2:ℝ) ^ (j - ((F.p:ℤ) - 1)) ≤ A - 1 := by
    rcases eq_or_lt_of_le hj0 with h0 | h0
    · rw [← h0]; linarith
    · have e1 : (2:ℝ) ^ (j - ((F.p:ℤ) - 1)) ≤ (2:ℝ) ^ (j - 1) :=
        zpow_le_zpow_right₀ (by norm_num) (by omega)
      have e2 : (2:ℝ) ^ j = 2 * (2:ℝ) ^ (j - 1) := by
        rw [show j = (j - 1) + 1 by ring, zpow_add_one₀ (by norm_num)]; ring_nf
      have e3 : (1:ℝ) ≤ (2:ℝ) ^ (j - 1) := by
        have : (2:ℝ) ^ (0:ℤ) ≤ (2:ℝ) ^ (j - 1) := zpow_le_zpow_right₀ (by norm_num) (by omega)
        rwa [zpow_zero] at this
      linarith
  have hUpos : (0:ℝ) < (2:ℝ) ^ (j - ((F.p:ℤ) - 1)) := by positivity
  obtain ⟨_, g2⟩ := abs_le.mp h
  linarith

/-- the value of `r = fl(a / s)`: between `0` and `1`, within half an ulp of the quotient (ulp of any
    binade `k ≥ emin` bounding the value), and the quotient is below every power of two that
    bounds the value -/
theorem sig_div_val {F : Sem} (hF : F.WF) (hrm : F.rm = .nte ∨ F.rm = .nta) {a s : Flt}
    (ha : PosN F a) (hs : PosN F s) (hs1 : 1 ≤ s.mag) (has : a.mag ≤ s.mag) :
    (a.div s).sem = F ∧ (a.div s).Canonical ∧ (a.div s).sign = false ∧
    ((a.div s).cat = .normal ∨ (a.div s).cat = .zero) ∧
    0 ≤ (a.div s).val ∧ (a.div s).val ≤ 1 ∧
    (∀ k : ℤ, F.emin ≤ k → (a.div s).val < (2:ℚ) ^ (k + 1) →
      |(a.div s).val - a.mag / s.mag| ≤ F.ulp k / 2) ∧
    (∀ k : ℤ, F.emin ≤ k → k + 1 ≤ F.emax → (a.div s).val < (2:ℚ) ^ (k + 1) →
      a.mag / s.mag < (2:ℚ) ^ (k + 1)) := by
  obtain ⟨hsem, hcan, hcases⟩ := sig_div hF hrm ha hs hs1 has
  have hq : 0 < a.mag / s.mag := div_pos ha.mag_pos hs.mag_pos
  refine ⟨hsem, hcan, ?_⟩
  rcases hcases with ⟨hz, hsg, hle⟩ | ⟨hp, hle1, herr, hmono⟩
  · have hv : (a.div s).val = 0 := Flt.val_zero hz
    rw [hv]
    refine ⟨hsg, Or.inr hz, le_refl _, by norm_num, fun k hk _ => ?_, fun k hk _ _ => ?_⟩
    · rw [zero_sub, abs_neg, abs_of_pos hq]
      have := F.ulp_mono hk; linarith
    · have h1 : F.ulp F.emin / 2 < (2:ℚ) ^ (k + 1) := by
        have h2 : F.ulp F.emin ≤ (2:ℚ) ^ (k + 1) := by
          rw [Sem.ulp_def]
          exact zpow_le_zpow_right₀ (by norm_num) (by have := hF.2; omega)
        have := F.ulp_pos F.emin
        linarith
      linarith
  · have hv : (a.div s).val = (a.div s).mag := by
      rw [Flt.val_normal hp.cat, hp.sign]; rfl
    rw [hv]
    refine ⟨hp.sign, Or.inl hp.cat, le_of_lt hp.mag_pos, hle1,
      fun k hk hlt => posN_half_ulp hF hp herr hk hlt, fun k hk hke hlt => ?_⟩
    by_contra hcon
    have hge : (2:ℚ) ^ (k + 1) ≤ a.mag / s.mag := not_lt.mp hcon
    have hrep : IsRep F ((2:ℚ) ^ (k + 1)) :=
      isRep_pow hF _ (by have := hF.2; omega) hke
    have := hmono _ hrep (by positivity) hge
    linarith


/-- a positive canonical number is at least the smallest subnormal -/
theorem posN_ge_eta {F : Sem} {a : Flt} (ha : PosN F a) : F.ulp F.emin ≤ a.mag := by
  obtain ⟨h1, _, h3, _, _⟩ := (Flt.canonical_normal ha.cat).mp ha.can
  rw [ha.sem] at h1
  rw [ha.mag_ulp]
  have hm : (1:ℚ) ≤ (a.mant : ℚ) := by exact_mod_cast h3
  have := F.ulp_mono h1
  have hu := F.ulp_pos a.exp
  nlinarith

/-- the quotient `fl(a / fl(a + 1))` of a positive finite `a` is never rounded to zero -/
theorem sig_div_posN {F : Sem} (hF : F.WF) (hp : 3 ≤ F.p) (hrm : F.rm = .nte ∨ F.rm = .nta)
    {a : Flt} (ha : PosN F a)
    (hno : a.mag + 1 < nearThreshold F) :
    PosN F (a.div (a.add (Flt.one F false))) := by
  obtain ⟨hsP, _, hSerr, hS1, hAS⟩ := sig_add_one hF hrm ha hno
  obtain ⟨_, _, hcases⟩ := sig_div hF hrm ha hsP hS1 hAS
  rcases hcases with ⟨_, _, hle⟩ | ⟨h, _⟩
  · exfalso
    set S := (a.add (Flt.one F false)).mag with hS
    set A := a.mag with hA
    have hrel := le_trans hSerr (posN_half_ulp_rel hF hsP hS1)
    have hS0 : 0 < S := by linarith
    have hη := posN_ge_eta ha
    have hη0 := F.ulp_pos F.emin
    have hη4 : F.ulp F.emin ≤ 1 / 4 := by
      rw [Sem.ulp_def]
      calc (2:ℚ) ^ (F.emin - ((F.p:ℤ) - 1)) ≤ (2:ℚ) ^ (-2:ℤ) :=
            zpow_le_zpow_right₀ (by norm_num) (by have := Sem.emin_le_zero hF; omega)
        _ = 1 / 4 := by norm_num
    have hu8 : (2:ℚ) ^ (-(F.p:ℤ)) ≤ 1 / 8 := by
      calc (2:ℚ) ^ (-(F.p:ℤ)) ≤ (2:ℚ) ^ (-3:ℤ) := zpow_le_zpow_right₀ (by norm_num) (by omega)
        _ = 1 / 8 := by norm_num
    have hu0 : (0:ℚ) < (2:ℚ) ^ (-(F.p:ℤ)) := by positivity
    rw [div_le_iff₀ hS0] at hle
    obtain ⟨g1, g2⟩ := abs_le.mp hrel
    -- `S ≥ 2` and `S·(1 - u) ≤ 1 + A ≤ 1 + η·S/2`
    have hS2 : 2 ≤ S := by nlinarith
    nlinarith
  · exact h

/-! ## 5. the two exact regimes -/

/-- a quotient that is representable is delivered exactly -/
theorem sig_div_exact {F : Sem} (hF : F.WF) {a s c : Flt} (ha : PosN F a) (hs : PosN F s)
    (hc : PosN F c) (h : a.mag / s.mag = c.mag) : a.div s = c := by
  obtain ⟨hsem, hres⟩ := div_toRes hF ha hs
  rw [h] at hres
  obtain ⟨e, m, hfin, _⟩ := round_exact hF hc.mag_pos hc.isRep F.rm false
  obtain ⟨hp, hm⟩ := posN_of_round hF hsem hc.mag_pos hfin hres
  exact eq_of_mag_eq hF hp hc (by rw [hm, rnd_rep hF F.rm hc.isRep hc.mag_pos])

/-- **(c)** `a < 2^-p`: `fl(a + 1) = 1` and the result is `a` itself -/
theorem sig_tiny_exact {F : Sem} (hF : F.WF) (hrm : F.rm = .nte ∨ F.rm = .nta)
    {a : Flt} (ha : PosN F a)
    (hno : a.mag + 1 < nearThreshold F) (hlt : a.mag < (2:ℚ) ^ (-(F.p:ℤ))) :
    a.add (Flt.one F false) = Flt.one F false ∧ a.div (a.add (Flt.one F false)) = a := by
  have hp1 : 1 ≤ F.p := by have := hF.2; omega
  obtain ⟨hsP, hm, _, hS1, _⟩ := sig_add_one hF hrm ha hno
  obtain ⟨h1P, h1m⟩ := ECf.one_posN hF
  have hq : 0 < a.mag + 1 := by have := ha.mag_pos; linarith
  have hone : ((2 ^ (F.p - 1) : ℕ) : ℚ) * F.ulp 0 = 1 := by
    have := F.half_pow_mul_ulp hp1 0
    push_cast; rw [this]; norm_num
  have hle : (a.add (Flt.one F false)).mag ≤ 1 := by
    rw [hm]
    have e : (((2 ^ (F.p - 1) : ℕ) : ℚ) + 1 / 2) * F.ulp 0 = 1 + (2:ℚ) ^ (-(F.p:ℤ)) := by
      have h2 := half_ulp F 0
      rw [zero_sub] at h2
      rw [add_mul, hone, h2]; ring
    have := rnd_near_le hF hrm hq (Sem.emin_le_zero hF) (le_of_lt (Sem.emax_pos hF))
      (M := 2 ^ (F.p - 1))
      (by have := two_pow_pred_sr hp1; have := Nat.one_le_two_pow (n := F.p - 1); omega)
      (Or.inl (le_refl _)) (by rw [e]; linarith)
    rw [hone] at this; exact this
  have hs1 : a.add (Flt.one F false) = Flt.one F false :=
    eq_of_mag_eq hF hsP h1P (by rw [h1m]; linarith)
  refine ⟨hs1, ?_⟩
  rw [hs1]
  exact sig_div_exact hF ha h1P ha (by rw [h1m, div_one])

/-- **(b)** `a ≥ 2^(p+1)`: `fl(a + 1) = a` and the result is exactly `1` -/
theorem sig_huge_exact {F : Sem} (hF : F.WF) (hrm : F.rm = .nte ∨ F.rm = .nta)
    {a : Flt} (ha : PosN F a)
    (hno : a.mag + 1 < nearThreshold F)
    (hge : (2:ℚ) ^ ((F.p:ℤ) + 1) ≤ a.mag) :
    a.add (Flt.one F false) = a ∧ a.div (a.add (Flt.one F false)) = Flt.one F false := by
  have hp1 : 1 ≤ F.p := by have := hF.2; omega
  obtain ⟨hsP, hm, _, _, hAS⟩ := sig_add_one hF hrm ha hno
  obtain ⟨h1P, h1m⟩ := ECf.one_posN hF
  have hA := ha.mag_pos
  have hq : 0 < a.mag + 1 := by linarith
  obtain ⟨c1, c2, _, c4, c5⟩ := (Flt.canonical_normal ha.cat).mp ha.can
  rw [ha.sem] at c1 c2 c4 c5
  -- the exponent of `a` is at least `p + 1`
  have he : (F.p:ℤ) + 1 ≤ a.exp := by
    have h1 : (2:ℚ) ^ ((F.p:ℤ) + 1) < (2:ℚ) ^ (a.exp + 1) := lt_of_le_of_lt hge (posN_mag_lt ha)
    have := (zpow_lt_zpow_iff_right₀ (by norm_num : (1:ℚ) < 2)).mp h1
    omega
  have hn : 2 ^ (F.p - 1) ≤ a.mant ∨ a.exp = F.emin := c5
  have hu : (2:ℚ) ≤ F.ulp a.exp / 2 := by
    rw [← half_ulp]
    calc (2:ℚ) = (2:ℚ) ^ (1:ℤ) := by norm_num
      _ ≤ (2:ℚ) ^ (a.exp - (F.p:ℤ)) := zpow_le_zpow_right₀ (by norm_num) (by omega)
  have hle : (a.add (Flt.one F false)).mag ≤ a.mag := by
    rw [hm]
    have hmu := ha.mag_ulp
    rw [hmu]
    refine rnd_near_le hF hrm (by rw [← hmu]; exact hq) c1 c2 c4 hn ?_
    rw [add_mul]; linarith
  have hs : a.add (Flt.one F false) = a := eq_of_mag_eq hF hsP ha (le_antisymm hle hAS)
  refine ⟨hs, ?_⟩
  rw [hs]
  exact sig_div_exact hF ha ha h1P (by rw [h1m, div_self (ne_of_gt hA)])

end Arp.SigmoidErr
