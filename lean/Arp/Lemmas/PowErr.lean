import Arp.Lemmas.ExpErr
/-!
# Lemmas for the accuracy of `Float::pow` (property C18)

`pow(x, y) = exp(y · log x)`, evaluated in the working format `W = (F.growLog 10).increaseExponent 10`
(`p_W = p + 10 + bitlen p ≥ p + 14`), the result being rounded once into `F`.

* `final_round_quarter` — the final rounding of `Arp.ExpErr.final_round_gen` with the weaker
  hypothesis `c ≤ 1/4` on the relative error `c·2^-p` before the rounding.
* `pow_prod_bound`, `pow_arg_budget`, `pow_exp_budget` — the real-number error budget.
* `mul_signed_op` — one multiplication of two signed finite non-zero values in a nearest mode.
-/

namespace Arp.PowErr
open Arp Arp.SpecRound Arp.Sqrt Arp.RelErr Arp.ExpErr

/-- **The final rounding, every case.**  `R` approximates the positive real `t` with relative error
    `c·2^-p`, `c ≤ 1/4`.  The nearest rounding of `R` to `F` is
    * `+∞` only if `t > maxFinite·(1 - 2^-p)` (and certainly if `t ≥ 2^(emax+1)`),
    * `+0` only if `t` is below the smallest subnormal,
    * otherwise a positive finite number within `1/2 + c` ulp of `t` (ulp of any binade
      `[2^k, 2^(k+1))`, `k ≥ emin`, bounding both), normal if `t ≥ 2^emin`. -/
theorem final_round_quarter {F : Sem} (hF : F.WF) (hrm : F.rm = .nte ∨ F.rm = .nta) {res : Flt}
    (hsem : res.sem = F) {R : ℚ} (hres : res.toRes = Spec.round F F.rm false R) {t c : ℝ}
    (ht0 : 0 < t) (hc0 : 0 ≤ c) (hc4 : c ≤ 1 / 4)
    (herr : |((R:ℚ):ℝ) - t| ≤ c * (2:ℝ) ^ (-(F.p:ℤ)) * t) :
    ((res.cat = .inf ∧ res.sign = false ∧
        ((maxFinite F : ℚ) : ℝ) * (1 - (2:ℝ) ^ (-(F.p:ℤ))) < t) ∨
      (res.cat = .zero ∧ res.sign = false ∧ t < (2:ℝ) ^ (F.emin - ((F.p:ℤ) - 1))) ∨
      (PosN F res ∧
        (∀ k : ℤ, F.emin ≤ k → t < (2:ℝ) ^ (k + 1) → ((res.mag : ℚ) : ℝ) < (2:ℝ) ^ (k + 1) →
          |((res.mag : ℚ) : ℝ) - t| ≤ (1 / 2 + c) * (2:ℝ) ^ (k - ((F.p:ℤ) - 1))) ∧
        ((2:ℝ) ^ F.emin ≤ t → 2 ^ (F.p - 1) ≤ res.mant))) ∧
    ((2:ℝ) ^ (F.emax + 1) ≤ t → res.cat = .inf) := by
  have hp1 : 1 ≤ F.p := by have := hF.2; omega
  set a : ℝ := (2:ℝ) ^ (-(F.p:ℤ)) with ha
  have ha0 : 0 < a := by positivity
  have ha1 : a ≤ 1 / 4 := by
    calc a ≤ (2:ℝ) ^ (-2:ℤ) := zpow_le_zpow_right₀ (by norm_num) (by have := hF.2; omega)
      _ = 1 / 4 := by norm_num
  have hca : c * a ≤ 1 / 16 := by nlinarith
  have hca0 : 0 ≤ c * a := by positivity
  obtain ⟨herr1, herr2⟩ := abs_le.mp herr
  have hRpos : (0:ℝ) < ((R:ℚ):ℝ) := by nlinarith
  have hq : 0 < R := by exact_mod_cast hRpos
  have hMF0 : (0:ℝ) ≤ ((maxFinite F : ℚ) : ℝ) := by
    have : (0:ℚ) ≤ maxFinite F := (maxFinite_isRep hF).nonneg
    exact_mod_cast this
  have hnt : ((nearThreshold F : ℚ) : ℝ) = (2:ℝ) ^ (F.emax + 1) * (1 - a / 2) := by
    rw [ExpErr.nearThreshold_eq]; push_cast; rfl
  -- `t ≥ 2^(emax+1)` overflows
  have hbig : (2:ℝ) ^ (F.emax + 1) ≤ t → Spec.round F F.rm false R = .inf false := by
    intro hge
    refine (round_eq_inf_iff hF hq F.rm false false).mpr ⟨rfl, Or.inr (Or.inr ⟨hrm, ?_⟩)⟩
    have hpe : (0:ℝ) < (2:ℝ) ^ (F.emax + 1) := by positivity
    have : ((nearThreshold F : ℚ) : ℝ) ≤ ((R:ℚ):ℝ) := by rw [hnt]; nlinarith
    exact_mod_cast this
  refine ⟨?_, fun hge => ?_⟩
  swap
  · have := hbig hge
    rw [this] at hres
    exact (toRes_inf_sign hres).1
  rcases round_cases hF hq F.rm false with h | h | ⟨e, m, hfin⟩
  · -- zero
    right; left
    rw [h] at hres
    obtain ⟨hcat, hsg⟩ := toRes_zero hres
    refine ⟨hcat, hsg, ?_⟩
    have hrep : IsRep F (F.ulp F.emin) := by
      rw [Sem.ulp_def]
      exact isRep_pow hF _ (le_refl _) (by have := Sem.emin_le_emax hF; have := hF.2; omega)
    have hsp := round_nearest_spec hF hq hrm false (by rw [h]; trivial) _ hrep
    rw [h] at hsp
    simp only [Res.mag, zero_sub, abs_neg, abs_of_pos hq] at hsp
    have hupos := F.ulp_pos F.emin
    have hR2 : R ≤ F.ulp F.emin / 2 := by
      rcases abs_cases (F.ulp F.emin - R) with ⟨e, _⟩ | ⟨e, _⟩ <;> rw [e] at hsp <;> linarith
    have hR2R : ((R:ℚ):ℝ) ≤ (2:ℝ) ^ (F.emin - ((F.p:ℤ) - 1)) / 2 := by
      have : ((R:ℚ):ℝ) ≤ ((F.ulp F.emin / 2 : ℚ) : ℝ) := by exact_mod_cast hR2
      rw [Sem.ulp_def] at this; push_cast at this; exact this
    have hσ : (0:ℝ) < (2:ℝ) ^ (F.emin - ((F.p:ℤ) - 1)) := by positivity
    nlinarith
  · -- infinity
    left
    rw [h] at hres
    obtain ⟨hcat, hsg⟩ := toRes_inf_sign hres
    refine ⟨hcat, hsg, ?_⟩
    obtain ⟨_, h'⟩ := (round_eq_inf_iff hF hq F.rm false false).mp h
    have hth : nearThreshold F ≤ R := by
      rcases h' with ⟨h1, _⟩ | ⟨h1, _⟩ | ⟨_, h1⟩
      · rcases hrm with h2 | h2 <;> rw [h2] at h1 <;> exact absurd h1 (by decide)
      · rcases h1 with ⟨h1, _⟩ | ⟨_, h1⟩
        · rcases hrm with h2 | h2 <;> rw [h2] at h1 <;> exact absurd h1 (by decide)
        · exact absurd h1 (by decide)
      · exact h1
    have hthR : ((maxFinite F : ℚ) : ℝ) ≤ ((R:ℚ):ℝ) := by
      have h1 := maxFinite_lt_nearThreshold F
      have : ((maxFinite F : ℚ) : ℝ) ≤ ((R:ℚ):ℝ) := by exact_mod_cast le_trans (le_of_lt h1) hth
      exact this
    -- MF ≤ R ≤ t(1 + ca) and (1 - a)(1 + ca) < 1
    have h2 : (1 - a) * (1 + c * a) < 1 := by nlinarith
    have h3 : ((maxFinite F : ℚ) : ℝ) ≤ t * (1 + c * a) := by nlinarith
    by_contra hcon
    rw [not_lt] at hcon
    have h4 : t * (1 + c * a) ≤ ((maxFinite F : ℚ) : ℝ) * (1 - a) * (1 + c * a) :=
      mul_le_mul_of_nonneg_right hcon (by positivity)
    have hMFpos : (0:ℝ) < ((maxFinite F : ℚ) : ℝ) := by nlinarith
    nlinarith
  · -- finite
    right; right
    obtain ⟨hpos, hmag⟩ := posN_of_round hF hsem hq hfin hres
    have hv : rnd F F.rm R = (m:ℚ) * F.ulp e := by unfold rnd; rw [hfin, Res.mag_fin]
    obtain ⟨_, e1, _, _, _, hn⟩ := round_mem hF hq F.rm false hfin
    have hhalf := within_half_ulp hF hq hrm false hfin
    rw [← Sem.ulp_def] at hhalf
    rw [← hv, ← hmag] at hhalf
    have hexp : res.exp = e ∧ res.mant = m := by
      rw [hfin] at hres
      obtain ⟨_, _, h3, h4⟩ := toRes_fin hres
      exact ⟨h3, h4⟩
    have hhalfR : |((res.mag : ℚ) : ℝ) - ((R:ℚ):ℝ)| ≤ (2:ℝ) ^ (e - ((F.p:ℤ) - 1)) / 2 := by
      have : ((|res.mag - R| : ℚ) : ℝ) ≤ ((F.ulp e / 2 : ℚ) : ℝ) := by exact_mod_cast hhalf
      rw [Sem.ulp_def] at this
      push_cast at this; exact this
    obtain ⟨g1, g2⟩ := abs_le.mp hhalfR
    refine ⟨hpos, fun k hkmin hkt hkr => ?_, fun hnorm => ?_⟩
    · have hek : e ≤ k := by
        rcases hn with hn | hn
        · have h1 : (2:ℚ) ^ e ≤ res.mag := by
            rw [hmag, hv, ← F.half_pow_mul_ulp hp1 e]
            exact mul_le_mul_of_nonneg_right (by exact_mod_cast hn) (le_of_lt (F.ulp_pos e))
          have h2 : (2:ℝ) ^ e ≤ ((res.mag : ℚ) : ℝ) := by
            have : (((2:ℚ) ^ e : ℚ) : ℝ) ≤ ((res.mag : ℚ) : ℝ) := by exact_mod_cast h1
            push_cast at this; exact this
          have h3 : (2:ℝ) ^ e < (2:ℝ) ^ (k + 1) := lt_of_le_of_lt h2 hkr
          have := (zpow_lt_zpow_iff_right₀ (by norm_num : (1:ℝ) < 2)).mp h3
          omega
        · omega
      have hulp : (2:ℝ) ^ (e - ((F.p:ℤ) - 1)) ≤ (2:ℝ) ^ (k - ((F.p:ℤ) - 1)) :=
        zpow_le_zpow_right₀ (by norm_num) (by omega)
      have h64 : a * (2:ℝ) ^ (k + 1) = (2:ℝ) ^ (k - ((F.p:ℤ) - 1)) := by
        rw [ha, show k - ((F.p:ℤ) - 1) = -(F.p:ℤ) + (k + 1) by ring,
          zpow_add₀ (by norm_num : (2:ℝ) ≠ 0) (-(F.p:ℤ)) (k + 1)]
      have hUk : (0:ℝ) < (2:ℝ) ^ (k - ((F.p:ℤ) - 1)) := by positivity
      have htk : c * a * t ≤ c * (2:ℝ) ^ (k - ((F.p:ℤ) - 1)) := by
        rw [← h64, mul_assoc]
        exact mul_le_mul_of_nonneg_left (mul_le_mul_of_nonneg_left (le_of_lt hkt) (le_of_lt ha0)) hc0
      rw [abs_le]
      constructor <;> linarith
    · rw [hexp.2]
      by_contra hcon
      have hm1 : m + 1 ≤ 2 ^ (F.p - 1) := by omega
      have he : e = F.emin := by
        rcases hn with h | h
        · exact absurd h hcon
        · exact h
      have h1 : res.mag + F.ulp e ≤ (2:ℚ) ^ e := by
        rw [hmag, hv, ← F.half_pow_mul_ulp hp1 e]
        have : ((m + 1 : ℕ) : ℚ) ≤ ((2 ^ (F.p - 1) : ℕ) : ℚ) := Nat.cast_le.mpr hm1
        push_cast at this
        nlinarith [F.ulp_pos e]
      have h2 : ((res.mag : ℚ) : ℝ) + (2:ℝ) ^ (e - ((F.p:ℤ) - 1)) ≤ (2:ℝ) ^ e := by
        have : ((res.mag + F.ulp e : ℚ) : ℝ) ≤ (((2:ℚ) ^ e : ℚ) : ℝ) := by exact_mod_cast h1
        rw [Sem.ulp_def] at this
        push_cast at this; exact this
      have h3 : (2:ℝ) ^ (e - ((F.p:ℤ) - 1)) = 2 * a * (2:ℝ) ^ e := by
        rw [ha, show e - ((F.p:ℤ) - 1) = -(F.p:ℤ) + e + 1 by ring, zpow_add_one₀ (by norm_num),
          zpow_add₀ (by norm_num : (2:ℝ) ≠ 0)]; ring
      rw [he] at h2 h3 g1
      have hpe : (0:ℝ) < (2:ℝ) ^ F.emin := by positivity
      have haP : 0 < a * (2:ℝ) ^ F.emin := by positivity
      have h4 : (2:ℝ) ^ F.emin * (1 - c * a) ≤ ((R:ℚ):ℝ) := by nlinarith
      have h5 : c * (a * (2:ℝ) ^ F.emin) ≤ 1 / 4 * (a * (2:ℝ) ^ F.emin) :=
        mul_le_mul_of_nonneg_right hc4 (le_of_lt haP)
      nlinarith

/-! ### the real-number error budget -/

/-- the size of the product `Y·l` -/
theorem pow_prod_bound {L l Y w : ℝ} (hw0 : 0 ≤ w) (hw : w ≤ 1 / 16384)
    (hl : |l - L| ≤ 4 * w * |L|) (hYL : |Y * L| ≤ 512) :
    |Y * l| ≤ 513 ∧ |L| / 2 ≤ |l| := by
  have hL0 := abs_nonneg L
  have h1 : |L| - |l| ≤ |l - L| := by
    have := abs_sub_abs_le_abs_sub L l
    rwa [abs_sub_comm] at this
  have h2 : |l| - |L| ≤ |l - L| := abs_sub_abs_le_abs_sub l L
  have h3 : 4 * w * |L| ≤ |L| / 2 := by nlinarith
  refine ⟨?_, by linarith⟩
  have h4 : |l| ≤ |L| + 4 * w * |L| := by linarith
  rw [abs_mul]
  rw [abs_mul] at hYL
  have hY0 := abs_nonneg Y
  have h5 : |Y| * |l| ≤ |Y| * (|L| + 4 * w * |L|) := mul_le_mul_of_nonneg_left h4 hY0
  have h6 : |Y| * (|L| + 4 * w * |L|) = |Y| * |L| * (1 + 4 * w) := by ring
  nlinarith

/-- the argument of the exponential: `l = L(1 ± 4w)`, `T = Y·l·(1 ± w)`, `|Y·L| ≤ 512`, `w ≤ 2^-14` -/
theorem pow_arg_budget {L l Y T w : ℝ} (hw0 : 0 ≤ w) (hw : w ≤ 1 / 16384)
    (hl : |l - L| ≤ 4 * w * |L|) (hT : |T - Y * l| ≤ w * |Y * l|) (hYL : |Y * L| ≤ 512) :
    |Y * l| ≤ 513 ∧ |T - Y * L| ≤ 2561 * w ∧ |T| ≤ 1024 := by
  have h0 : 0 ≤ |Y * L| := abs_nonneg _
  have h1 : |Y * l - Y * L| ≤ 2048 * w := by
    rw [← mul_sub, abs_mul]
    have : |Y| * |l - L| ≤ |Y| * (4 * w * |L|) := mul_le_mul_of_nonneg_left hl (abs_nonneg _)
    have e : |Y| * (4 * w * |L|) = 4 * w * |Y * L| := by rw [abs_mul]; ring
    rw [e] at this
    have h2 : 4 * w * |Y * L| ≤ 4 * w * 512 := mul_le_mul_of_nonneg_left hYL (by linarith)
    linarith
  have h2 : |Y * l| ≤ 513 := by
    have : |Y * l| ≤ |Y * l - Y * L| + |Y * L| := by
      have := abs_add_le (Y * l - Y * L) (Y * L)
      rwa [sub_add_cancel] at this
    linarith
  have h3 : |T - Y * l| ≤ 513 * w := by
    have : w * |Y * l| ≤ w * 513 := mul_le_mul_of_nonneg_left h2 hw0
    linarith
  have h4 : |T - Y * L| ≤ 2561 * w := by
    have := abs_add_le (T - Y * l) (Y * l - Y * L)
    rw [sub_add_sub_cancel] at this
    linarith
  refine ⟨h2, h4, ?_⟩
  have := abs_add_le (T - Y * L) (Y * L)
  rw [sub_add_cancel] at this
  linarith

/-- the exponential: `ET = X·e^D` with `|D| ≤ 2561·w`, `w ≤ 2^-14·a`, `a ≤ 2^-8`, and `R` within
    `5/4·w` (relative to the larger) of `ET`: `R` is `X` up to the relative error `3/16·a` -/
theorem pow_exp_budget {D X R a w : ℝ} (hX : 0 < X) (ha0 : 0 < a) (ha : a ≤ 1 / 256) (hw0 : 0 ≤ w)
    (hw : w ≤ a / 16384) (hD : |D| ≤ 2561 * w) (hR0 : 0 < R)
    (hR : |R - X * Real.exp D| ≤ 5 / 4 * w * max (X * Real.exp D) R) :
    |R - X| ≤ 3 / 16 * a * X := by
  have hD1 : |D| ≤ 1 := by nlinarith
  have hsq := Real.abs_exp_sub_one_sub_id_le hD1
  have hDa : |D| ≤ 2561 / 16384 * a := by nlinarith
  have hD2 : D ^ 2 ≤ 1 / 4096 * a := by
    rw [← sq_abs]
    have h0 := abs_nonneg D
    have h1 : |D| ^ 2 ≤ (2561 / 16384 * a) ^ 2 := pow_le_pow_left₀ h0 hDa 2
    nlinarith
  -- `e = e^D - 1`
  have he : |Real.exp D - 1| ≤ 41 / 256 * a := by
    have := abs_add_le (Real.exp D - 1 - D) D
    rw [sub_add_cancel] at this
    linarith
  obtain ⟨e1, e2⟩ := abs_le.mp he
  set ET := X * Real.exp D with hET
  have hET0 : 0 < ET := mul_pos hX (Real.exp_pos D)
  have hETX : |ET - X| ≤ 41 / 256 * a * X := by
    have e : ET - X = X * (Real.exp D - 1) := by rw [hET]; ring
    rw [e, abs_mul, abs_of_pos hX]
    nlinarith
  obtain ⟨f1, f2⟩ := abs_le.mp hETX
  have hETle : ET ≤ 257 / 256 * X := by nlinarith
  -- the relative error of `R`
  have hw2 : 5 / 4 * w ≤ 1 / 2 := by nlinarith
  have hRET : |R - ET| ≤ 5 / 2 * w * ET := by
    rcases le_total ET R with hle | hle
    · rw [max_eq_right hle] at hR
      obtain ⟨g1, g2⟩ := abs_le.mp hR
      have hR2 : R ≤ 2 * ET := by nlinarith
      have : 5 / 4 * w * R ≤ 5 / 4 * w * (2 * ET) := mul_le_mul_of_nonneg_left hR2 (by linarith)
      rw [abs_le]; constructor <;> nlinarith
    · rw [max_eq_left hle] at hR
      have : 5 / 4 * w * ET ≤ 5 / 2 * w * ET := by nlinarith
      linarith
  have hRET' : |R - ET| ≤ 1 / 256 * a * X := by
    have h1 : 5 / 2 * w * ET ≤ 5 / 2 * (a / 16384) * (257 / 256 * X) := by
      apply mul_le_mul _ hETle (le_of_lt hET0) (by positivity)
      nlinarith
    nlinarith
  have := abs_add_le (R - ET) (ET - X)
  rw [sub_add_sub_cancel] at this
  nlinarith

/-! ### one multiplication of signed finite non-zero values, nearest modes -/

theorem signed_sub (sa sb : Bool) (M A B : ℚ) :
    |(if (sa ^^ sb) = true then -M else M) - (if sa = true then -A else A) *
      (if sb = true then -B else B)| = |M - A * B| := by
  cases sa <;> cases sb <;>
    simp only [Bool.xor_false, Bool.xor_true, Bool.not_false, Bool.not_true, if_true, if_false,
      Bool.false_eq_true] <;>
    first
      | rfl
      | (congr 1; ring1)
      | (rw [← abs_neg]; congr 1; ring1)

theorem signed_mul (sa sb : Bool) (A B : ℚ) :
    |(if sa = true then -A else A) * (if sb = true then -B else B)| = |A * B| := by
  cases sa <;> cases sb <;>
    simp only [if_true, if_false, Bool.false_eq_true] <;>
    first
      | rfl
      | (congr 1; ring1)
      | (rw [← abs_neg]; congr 1; ring1)

/-- the product of two canonical finite non-zero values (any signs) whose exact product is in the
    normal range: a finite non-zero value with relative error `u/2` -/
theorem mul_signed_op {W : Sem} (hW : W.WF) (hrm : W.rm = .nte ∨ W.rm = .nta) {a b : Flt}
    (ha : a.sem = W) (hb : b.sem = W) (hac : a.Canonical) (hbc : b.Canonical)
    (han : a.cat = .normal) (hbn : b.cat = .normal) (hr : InRange W (a.mag * b.mag)) :
    (a.mul b).sem = W ∧ (a.mul b).Canonical ∧ (a.mul b).cat = .normal ∧
      |(a.mul b).val - a.val * b.val| ≤ u W / 2 * |a.val * b.val| := by
  have hFa : a.sem.WF := by rw [ha]; exact hW
  have hc := C01.mul_correct a b a.sem.rm hFa (hb.trans ha.symm) hac hbc
  obtain ⟨hcan, hsem⟩ := mul_canonical a b hFa
  have hq := inRange_pos hr
  obtain ⟨e, m, hfin⟩ := round_fin_of_range hW W.rm (a.sign ^^ b.sign) hr.1 hr.2
  have hres : (a.mul b).toRes = .fin (a.sign ^^ b.sign) e m := by
    show (mulWithRm a b a.sem.rm).toRes = _
    rw [hc, ha, ← hfin]
    simp [Spec.mul, Spec.isNan, Spec.isInf, Spec.isZero, han, hbn]
  obtain ⟨hcat, hsg, hexp, hmant⟩ := toRes_fin hres
  have hrel := round_rel_nearest hW hrm (a.sign ^^ b.sign) hq hr.1 hfin
  have hmag : (a.mul b).mag = (m:ℚ) * (2:ℚ) ^ (e - ((W.p:ℤ) - 1)) := by
    rw [Flt.mag_eq, hsem.trans ha, hexp, hmant]
  rw [← hmag] at hrel
  refine ⟨hsem.trans ha, hcan, hcat, ?_⟩
  rw [Flt.val_normal hcat, Flt.val_normal han, Flt.val_normal hbn, hsg, signed_sub, signed_mul,
    abs_of_pos hq]
  exact hrel

end Arp.PowErr
