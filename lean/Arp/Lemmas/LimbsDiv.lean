import Arp.Lemmas.LimbsShift
/-! # Limb model: shift-subtract long division -/
namespace Arp.Limbs

/-! ### long division -/

theorem cmp_not_lt {a b : List Nat} (ha : WF a) (hb : WF b) :
    (cmp a b != .lt) = true ↔ val b ≤ val a := by
  rw [cmp_val ha hb]
  by_cases h : val a < val b
  · rw [compare_lt' h]; simp; omega
  · have : compare (val a) (val b) ≠ .lt := by
      intro hc; exact h (Nat.compare_eq_lt.mp hc)
    simp [this]; omega

theorem divLoop_spec (D A : Nat) (n : Nat) {dv ds q : List Nat}
    (hdv : WF dv) (hds : WF ds) (hq : WF q)
    (h1 : 1 ≤ n → val ds = D * 2 ^ (n - 1))
    (h2 : val dv < D * 2 ^ n)
    (h3 : 2 ^ n ∣ val q)
    (h4 : val dv + val q * D = A) :
    val (divLoop n dv ds q).1 * D + val (divLoop n dv ds q).2 = A
    ∧ val (divLoop n dv ds q).2 < D
    ∧ WF (divLoop n dv ds q).1 ∧ WF (divLoop n dv ds q).2 := by
  induction n generalizing dv ds q with
  | zero =>
    simp only [divLoop]
    refine ⟨by omega, by simpa using h2, hq, hdv⟩
  | succ i ih =>
    have hds' : val ds = D * 2 ^ i := by simpa using h1 (by omega)
    obtain ⟨s1, s2⟩ := shiftRight_val hds 1
    have hs : 1 ≤ i → val (shiftRight ds 1) = D * 2 ^ (i - 1) := by
      intro hi
      rw [s1, hds']
      obtain ⟨j, rfl⟩ : ∃ j, i = j + 1 := ⟨i - 1, by omega⟩
      rw [Nat.pow_succ, ← Nat.mul_assoc, Nat.pow_one, Nat.mul_div_cancel _ (by omega)]
      simp
    have hpow : D * 2 ^ (i + 1) = 2 * (D * 2 ^ i) := by rw [Nat.pow_succ]; ring
    simp only [divLoop]
    split
    · rename_i hc
      rw [cmp_not_lt hdv hds] at hc
      -- the low `i/64` words of the shifted divisor are zero
      have hz : val (ds.take (i / 64)) = 0 := by
        rw [val_take hds, hds', B_pow_eq]
        have : 2 ^ (64 * (i / 64)) ∣ 2 ^ i := Nat.pow_dvd_pow 2 (by omega)
        exact Nat.mod_eq_zero_of_dvd (Nat.dvd_trans this (Nat.dvd_mul_left _ _))
      obtain ⟨t1, t2, t3, _⟩ := subSlice_val_z hdv hds (i / 64) hz
      have hb : (subSlice dv ds (i / 64)).2 = false := by
        rw [t2, decide_eq_false_iff_not]; omega
      have t3 := t3 hb
      -- quotient bit `i` is clear
      obtain ⟨c, hc2⟩ := h3
      have hbit : val q / 2 ^ i % 2 = 0 := by
        rw [hc2, Nat.pow_succ, Nat.mul_assoc, Nat.mul_div_cancel_left _ (Nat.two_pow_pos i)]
        omega
      obtain ⟨f1, f2⟩ := flipBit_val hq i
      rw [if_neg (by omega)] at f1
      apply ih t1 s2 f2 hs
      · rw [t3]; omega
      · rw [f1, hc2, Nat.pow_succ, Nat.mul_assoc]
        exact Nat.dvd_add (Nat.dvd_mul_right _ _) (Nat.dvd_refl _)
      · rw [t3, f1, Nat.add_mul, ← h4, Nat.mul_comm (2 ^ i) D]
        omega
    · rename_i hc
      rw [cmp_not_lt hdv hds] at hc
      apply ih hdv s2 hq hs
      · omega
      · exact Nat.dvd_trans (Nat.pow_dvd_pow 2 (by omega)) h3
      · exact h4

/-- `inplace_div` computes quotient and remainder (both paths) -/
theorem divRem_val {a d : List Nat} (ha : WF a) (hd : WF d) (hnz : val d ≠ 0) :
    val (divRem a d).1 = val a / val d ∧ val (divRem a d).2 = val a % val d
    ∧ WF (divRem a d).1 ∧ WF (divRem a d).2 := by
  unfold divRem
  split
  · rename_i h
    simp only [Bool.and_eq_true, beq_iff_eq] at h
    obtain ⟨a0, rfl⟩ := List.length_eq_one_iff.mp h.1
    obtain ⟨d0, rfl⟩ := List.length_eq_one_iff.mp h.2
    simp only [WF_cons, WF_nil, and_true] at ha hd
    simp only [val_cons, val_nil, Nat.mul_zero, Nat.add_zero] at hnz
    simp only [List.headD_cons, fromU64, val_cons, val_nil, Nat.mul_zero, Nat.add_zero, WF_cons,
      WF_nil, and_true, true_and]
    exact ⟨Nat.lt_of_le_of_lt (Nat.div_le_self _ _) ha,
      Nat.lt_of_le_of_lt (Nat.mod_le _ _) ha⟩
  · rw [msbIndex_val ha, msbIndex_val hd]
    have hA := Arp.lt_msb (val a)
    have hDle := Arp.msb_le hnz
    have hDpos := Arp.msb_pos hnz
    dsimp only
    split
    · rename_i hgt
      have : 2 ^ msb (val a) ≤ 2 ^ (msb (val d) - 1) := Nat.pow_le_pow_right (by omega) (by omega)
      have hlt : val a < val d := by omega
      simp only [zero, val_cons, val_nil, Nat.mul_zero, Nat.add_zero]
      refine ⟨(Nat.div_eq_of_lt hlt).symm, (Nat.mod_eq_of_lt hlt).symm, by simp [B_pos], ha⟩
    · rename_i hle
      obtain ⟨l1, l2⟩ := shiftLeft_val hd (msb (val a) - msb (val d))
      have hz : WF zero := by simp [zero, B_pos]
      have hbound : val a < val d * 2 ^ (msb (val a) - msb (val d) + 1) := by
        have e : 2 ^ (msb (val d) - 1) * 2 ^ (msb (val a) - msb (val d) + 1) = 2 ^ msb (val a) := by
          rw [← Nat.pow_add]; congr 1; omega
        have : 2 ^ (msb (val d) - 1) * 2 ^ (msb (val a) - msb (val d) + 1)
            ≤ val d * 2 ^ (msb (val a) - msb (val d) + 1) := Nat.mul_le_mul_right _ hDle
        omega
      obtain ⟨r1, r2, r3, r4⟩ := divLoop_spec (val d) (val a) (msb (val a) - msb (val d) + 1)
        ha l2 hz (fun _ => by simpa using l1) hbound (by simp [zero]) (by simp [zero])
      simp only [val_shrink]
      rw [Nat.mul_comm, Nat.add_comm] at r1
      have := (Nat.div_mod_unique (Nat.pos_of_ne_zero hnz)).mpr (And.intro r1 r2)
      exact ⟨this.1.symm, this.2.symm, shrink_WF r3, r4⟩

end Arp.Limbs
