import Arp.Props.SpecRound
import Mathlib.Tactic.Linarith
import Mathlib.Tactic.Positivity
import Mathlib.Tactic.FieldSimp
import Mathlib.Tactic.Ring
/-!
# A small "standard model" of floating-point arithmetic on top of `Spec.round`

* `u F = 2^(1-p)`: the relative size of one ulp at the bottom of a binade;
  `unit F rm` is `u F / 2` for the two nearest modes and `u F` otherwise.
* `round_rel`, `round_rel_nearest`: in the normal range (and outside the saturated overflow)
  every rounding has relative error at most `u` (`u/2` for the nearest modes).
* elementary error-propagation lemmas over `ℚ` (`rel_mul`, `rel_div`, `rel_add`);
* the calculus `Near v k a â` (`(1-v)^k·a ≤ â` and `(1-v)^k·â ≤ a`: "`â` is `a` after `k`
  relative perturbations of size `≤ v`"), closed under `*`, `/`, `+` (non-negative operands) and
  rounding, with the conversion `Near.abs_le` / `near_six` to a bound on `|â - a|`.
-/
namespace Arp.RelErr
open Arp Arp.SpecRound

variable {F : Sem} {q : ℚ}

/-! ## 1. the unit `u` -/

/-- relative size of one ulp at the bottom of a binade: `2^(1-p)` -/
def u (F : Sem) : ℚ := (2:ℚ) ^ (1 - (F.p:Int))

/-- per-rounding relative error unit of a mode: `u/2` for the nearest modes, `u` otherwise -/
def unit (F : Sem) (rm : RM) : ℚ := if rm = .nte ∨ rm = .nta then u F / 2 else u F

theorem u_pos (F : Sem) : 0 < u F := by unfold u; positivity

theorem ulp_eq_u (F : Sem) (e : Int) : F.ulp e = u F * (2:ℚ) ^ e := by
  unfold Sem.ulp u
  rw [← zpow_add₀ (by norm_num : (2:ℚ) ≠ 0)]; congr 1; ring

/-- `u ≤ 2^(1-k)` when `p ≥ k` -/
theorem u_le_of_le_p {F : Sem} {k : Nat} (h : k ≤ F.p) : u F ≤ (2:ℚ) ^ (1 - (k:Int)) := by
  unfold u
  exact zpow_le_zpow_right₀ (by norm_num) (by omega)

theorem u_le_half (hF : F.WF) : u F ≤ 1/2 := by
  have := u_le_of_le_p (F := F) (k := 2) hF.2
  norm_num at this; linarith

theorem unit_pos (F : Sem) (rm : RM) : 0 < unit F rm := by
  have := u_pos F; unfold unit; split <;> linarith

theorem unit_le_u (F : Sem) (rm : RM) : unit F rm ≤ u F := by
  have := u_pos F; unfold unit; split <;> linarith

theorem unit_nearest {rm : RM} (h : rm = .nte ∨ rm = .nta) : unit F rm = u F / 2 := by
  unfold unit; rw [if_pos h]

/-! ## 2. one rounding -/

/-- in the normal range the exponent of the decomposition is a lower bound of `q` -/
theorem decomp_pow_le {e : Int} {m : Nat} {f : ℚ} (d : Decomp F q e m f) (hp : 1 ≤ F.p)
    (hnorm : (2:ℚ) ^ F.emin ≤ q) : (2:ℚ) ^ e ≤ q ∧ 2 ^ (F.p - 1) ≤ m := by
  have hu := F.ulp_pos e
  by_cases hm : 2 ^ (F.p - 1) ≤ m
  · refine ⟨?_, hm⟩
    have hmq : (2:ℚ) ^ (F.p - 1) ≤ (m:ℚ) := by exact_mod_cast hm
    calc (2:ℚ) ^ e = (2:ℚ) ^ (F.p - 1) * F.ulp e := (F.half_pow_mul_ulp hp e).symm
      _ ≤ (m:ℚ) * F.ulp e := mul_le_mul_of_nonneg_right hmq (le_of_lt hu)
      _ ≤ q := d.lo
  · exfalso
    have he : e = F.emin := by
      rcases d.hn with h | h
      · exact absurd h hm
      · exact h
    have hm1 : (m:ℚ) + 1 ≤ (2:ℚ) ^ (F.p - 1) := by
      have : m + 1 ≤ 2 ^ (F.p - 1) := by omega
      exact_mod_cast this
    have hlt : q < (2:ℚ) ^ e :=
      calc q < ((m:ℚ) + 1) * F.ulp e := d.hi
        _ ≤ (2:ℚ) ^ (F.p - 1) * F.ulp e := mul_le_mul_of_nonneg_right hm1 (le_of_lt hu)
        _ = _ := F.half_pow_mul_ulp hp e
    rw [he] at hlt; linarith

/-- the signed error of a finite, non-saturated result, in terms of the decomposition of `q` -/
theorem round_err_core (hF : F.WF) (hq : 0 < q) (rm : RM) (neg : Bool)
    (hsat : rm.truncFor neg → q < (2:ℚ) ^ (F.emax + 1)) {s : Bool} {e : Int} {m : Nat}
    (h : Spec.round F rm neg q = .fin s e m) :
    ∃ (e0 : Int) (m0 : Nat) (f : ℚ), Decomp F q e0 m0 f ∧
      (m:ℚ) * F.ulp e - q = (if Spec.up rm neg m0 f then 1 - f else -f) * F.ulp e0 := by
  have hp : 1 ≤ F.p := by have := hF.2; omega
  obtain ⟨e0, m0, f, d⟩ := exists_decomp (F := F) hp hq
  have ho : ¬ Ovf F e0 m0 (Spec.up rm neg m0 f) := by
    intro ho
    rcases (d.ovf_iff hF rm neg).mp ho with ⟨ht, hge⟩ | h' | h'
    · exact absurd hge (not_le.mpr (hsat ht))
    · have := (round_eq_inf_iff hF hq rm neg neg).mpr ⟨rfl, Or.inr (Or.inl h')⟩
      rw [this] at h; exact absurd h (by simp)
    · have := (round_eq_inf_iff hF hq rm neg neg).mpr ⟨rfl, Or.inr (Or.inr h')⟩
      rw [this] at h; exact absurd h (by simp)
  rcases d.round_not_ovf hF hq rm neg ho _ rfl with ⟨_, hr⟩ | ⟨e'', m'', hr, _, _, _, _, _, hv, _, _⟩
  · rw [hr] at h; exact absurd h (by simp)
  · rw [hr] at h; injection h with h1 h2 h3; subst h1 h2 h3
    refine ⟨e0, m0, f, d, ?_⟩
    have herr := d.err (Spec.up rm neg m0 f) _ rfl
    rw [← hv] at herr
    exact herr

/-- **Standard model, every mode.**  In the normal range (`2^emin ≤ q`) a finite result that is
    not the saturated overflow value has relative error at most `u = 2^(1-p)`. -/
theorem round_rel (hF : F.WF) (rm : RM) (neg : Bool) (hq : 0 < q)
    (hnorm : (2:ℚ) ^ F.emin ≤ q)
    (hsat : rm.truncFor neg → q < (2:ℚ) ^ (F.emax + 1)) {s : Bool} {e : Int} {m : Nat}
    (h : Spec.round F rm neg q = .fin s e m) :
    |(m:ℚ) * (2:ℚ) ^ (e - ((F.p:Int) - 1)) - q| ≤ u F * q := by
  have hp : 1 ≤ F.p := by have := hF.2; omega
  obtain ⟨e0, m0, f, d, herr⟩ := round_err_core hF hq rm neg hsat h
  have hle := (decomp_pow_le d hp hnorm).1
  have hu := F.ulp_pos e0
  have hf0 := d.hf0
  have hf1 := d.hf1
  have hbound : F.ulp e0 ≤ u F * q := by
    rw [ulp_eq_u]; exact mul_le_mul_of_nonneg_left hle (le_of_lt (u_pos F))
  rw [← Sem.ulp_def, herr, abs_le]
  cases hup : Spec.up rm neg m0 f
  · simp only [Bool.false_eq_true, if_false]
    constructor <;> nlinarith
  · simp only [if_true]
    constructor <;> nlinarith

/-- **Standard model, nearest modes**: relative error at most `u/2`. -/
theorem round_rel_nearest (hF : F.WF) {rm : RM} (hrm : rm = .nte ∨ rm = .nta) (neg : Bool)
    (hq : 0 < q) (hnorm : (2:ℚ) ^ F.emin ≤ q) {s : Bool} {e : Int} {m : Nat}
    (h : Spec.round F rm neg q = .fin s e m) :
    |(m:ℚ) * (2:ℚ) ^ (e - ((F.p:Int) - 1)) - q| ≤ u F / 2 * q := by
  have hp : 1 ≤ F.p := by have := hF.2; omega
  have hsat : rm.truncFor neg → q < (2:ℚ) ^ (F.emax + 1) :=
    fun ht => absurd hrm (RM.truncFor_not_nearest ht)
  obtain ⟨e0, m0, f, d, herr⟩ := round_err_core hF hq rm neg hsat h
  have hle := (decomp_pow_le d hp hnorm).1
  have hu := F.ulp_pos e0
  have hf0 := d.hf0
  have hf1 := d.hf1
  have hbound : F.ulp e0 ≤ u F * q := by
    rw [ulp_eq_u]; exact mul_le_mul_of_nonneg_left hle (le_of_lt (u_pos F))
  rw [← Sem.ulp_def, herr, abs_le]
  cases hup : Spec.up rm neg m0 f
  · simp only [Bool.false_eq_true, if_false]
    have := up_nearest_false hrm hup
    constructor <;> nlinarith
  · simp only [if_true]
    have := up_nearest_true hrm hup
    constructor <;> nlinarith

/-- both at once, with the unit of the mode -/
theorem round_rel_unit (hF : F.WF) (rm : RM) (neg : Bool) (hq : 0 < q)
    (hnorm : (2:ℚ) ^ F.emin ≤ q)
    (hsat : rm.truncFor neg → q < (2:ℚ) ^ (F.emax + 1)) {s : Bool} {e : Int} {m : Nat}
    (h : Spec.round F rm neg q = .fin s e m) :
    |(m:ℚ) * (2:ℚ) ^ (e - ((F.p:Int) - 1)) - q| ≤ unit F rm * q := by
  by_cases hrm : rm = .nte ∨ rm = .nta
  · rw [unit_nearest hrm]; exact round_rel_nearest hF hrm neg hq hnorm h
  · unfold unit; rw [if_neg hrm]; exact round_rel hF rm neg hq hnorm hsat h

/-- a magnitude in `[2^emin, maxFinite]` is rounded to a (non-zero) finite number in every mode -/
theorem round_fin_of_range (hF : F.WF) (rm : RM) (neg : Bool)
    (hnorm : (2:ℚ) ^ F.emin ≤ q) (hle : q ≤ maxFinite F) :
    ∃ e m, Spec.round F rm neg q = .fin neg e m := by
  have hq : 0 < q := lt_of_lt_of_le (by positivity) hnorm
  rcases round_cases hF hq rm neg with h | h | h
  · exfalso
    have hp : 1 ≤ F.p := by have := hF.2; omega
    obtain ⟨e0, m0, f, d⟩ := exists_decomp (F := F) hp hq
    have hm := (decomp_pow_le d hp hnorm).2
    have hpp : 1 ≤ 2 ^ (F.p - 1) := Nat.one_le_two_pow
    by_cases ho : Ovf F e0 m0 (Spec.up rm neg m0 f)
    · have h' := d.round_ovf hF hq rm neg ho
      rw [h, SpecRound.overflow_table] at h'
      split at h' <;> exact absurd h' (by simp)
    · rcases d.round_not_ovf hF hq rm neg ho _ rfl with ⟨h0, _⟩ | ⟨e'', m'', hr, _⟩
      · split at h0 <;> omega
      · rw [hr] at h; exact absurd h (by simp)
  · exfalso
    obtain ⟨_, h'⟩ := (round_eq_inf_iff hF hq rm neg neg).mp h
    have h1 := maxFinite_lt_sr F
    have h2 := maxFinite_lt_nearThreshold F
    rcases h' with ⟨_, h'⟩ | ⟨_, h'⟩ | ⟨_, h'⟩ <;> linarith
  · exact h

/-! ## 3. error propagation over `ℚ` (pure algebra) -/

/-- product: `(1+δ₁)(1+δ₂) - 1`, `|δᵢ| ≤ v`, is at most `2v + v²` -/
theorem rel_mul {a b a' b' v : ℚ} (ha : 0 ≤ a) (hb : 0 ≤ b)
    (h1 : |a' - a| ≤ v * a) (h2 : |b' - b| ≤ v * b) :
    |a' * b' - a * b| ≤ (2 * v + v ^ 2) * (a * b) := by
  rw [abs_le] at h1 h2 ⊢
  obtain ⟨h1l, h1u⟩ := h1
  obtain ⟨h2l, h2u⟩ := h2
  have e : a' * b' - a * b = (a' - a) * b + a * (b' - b) + (a' - a) * (b' - b) := by ring
  have p1 : 0 ≤ (v * a - (a' - a)) * (v * b - (b' - b)) := mul_nonneg (by linarith) (by linarith)
  have p2 : 0 ≤ (v * a + (a' - a)) * (v * b + (b' - b)) := mul_nonneg (by linarith) (by linarith)
  have p3 : 0 ≤ (v * a - (a' - a)) * (v * b + (b' - b)) := mul_nonneg (by linarith) (by linarith)
  have p4 : 0 ≤ (v * a + (a' - a)) * (v * b - (b' - b)) := mul_nonneg (by linarith) (by linarith)
  have q1 : (a' - a) * b ≤ v * a * b := mul_le_mul_of_nonneg_right h1u hb
  have q2 : -(v * a) * b ≤ (a' - a) * b := mul_le_mul_of_nonneg_right h1l hb
  have q3 : a * (b' - b) ≤ a * (v * b) := mul_le_mul_of_nonneg_left h2u ha
  have q4 : a * (-(v * b)) ≤ a * (b' - b) := mul_le_mul_of_nonneg_left h2l ha
  constructor <;> nlinarith

/-- quotient: `(1+δ₁)/(1+δ₂) - 1`, `|δᵢ| ≤ v < 1`, is at most `2v/(1-v)` -/
theorem rel_div {a b a' b' v : ℚ} (ha : 0 ≤ a) (hb : 0 < b) (hv1 : v < 1)
    (h1 : |a' - a| ≤ v * a) (h2 : |b' - b| ≤ v * b) :
    |a' / b' - a / b| ≤ 2 * v / (1 - v) * (a / b) := by
  rw [abs_le] at h1 h2
  obtain ⟨h1l, h1u⟩ := h1
  obtain ⟨h2l, h2u⟩ := h2
  have hb' : 0 < b' := by nlinarith
  have hv' : 0 < 1 - v := by linarith
  have hbb : (1 - v) * b ≤ b' := by linarith
  have e : a' / b' - a / b = ((a' - a) * b - a * (b' - b)) / (b' * b) := by
    field_simp; ring
  have e2 : 2 * v / (1 - v) * (a / b) = (2 * v * a * b) / ((1 - v) * b * b) := by
    field_simp
  have hnum : |(a' - a) * b - a * (b' - b)| ≤ 2 * v * a * b := by
    rw [abs_le]
    have q1 : (a' - a) * b ≤ v * a * b := mul_le_mul_of_nonneg_right h1u (le_of_lt hb)
    have q2 : -(v * a) * b ≤ (a' - a) * b := mul_le_mul_of_nonneg_right h1l (le_of_lt hb)
    have q3 : a * (b' - b) ≤ a * (v * b) := mul_le_mul_of_nonneg_left h2u ha
    have q4 : a * (-(v * b)) ≤ a * (b' - b) := mul_le_mul_of_nonneg_left h2l ha
    constructor <;> nlinarith
  have hnn : 0 ≤ 2 * v * a * b := le_trans (abs_nonneg _) hnum
  rw [e, e2, abs_div, abs_of_pos (mul_pos hb' hb)]
  have hden : (1 - v) * b * b ≤ b' * b := mul_le_mul_of_nonneg_right hbb (le_of_lt hb)
  have hdpos : 0 < (1 - v) * b * b := by positivity
  calc |(a' - a) * b - a * (b' - b)| / (b' * b) ≤ (2 * v * a * b) / (b' * b) :=
        div_le_div_of_nonneg_right hnum (le_of_lt (mul_pos hb' hb))
    _ ≤ (2 * v * a * b) / ((1 - v) * b * b) := div_le_div_of_nonneg_left hnn hdpos hden

/-- sum of non-negative numbers: the relative error is at most the larger one -/
theorem rel_add {a b a' b' v w : ℚ} (ha : 0 ≤ a) (hb : 0 ≤ b)
    (h1 : |a' - a| ≤ v * a) (h2 : |b' - b| ≤ w * b) :
    |a' + b' - (a + b)| ≤ max v w * (a + b) := by
  rw [abs_le] at h1 h2 ⊢
  have hv : v * a ≤ max v w * a := mul_le_mul_of_nonneg_right (le_max_left _ _) ha
  have hw : w * b ≤ max v w * b := mul_le_mul_of_nonneg_right (le_max_right _ _) hb
  constructor <;> nlinarith [h1.1, h1.2, h2.1, h2.2]

/-! ## 4. the calculus `Near` -/

/-- `a'` is `a` after `k` relative perturbations of size at most `v`:
    `(1-v)^k · a ≤ a' ≤ a / (1-v)^k` -/
def Near (v : ℚ) (k : Nat) (a a' : ℚ) : Prop := (1 - v) ^ k * a ≤ a' ∧ (1 - v) ^ k * a' ≤ a

namespace Near
variable {v a b a' b' c : ℚ} {j k : Nat}

theorem refl (v a : ℚ) : Near v 0 a a := by simp [Near]

theorem tpos (hv1 : v < 1) (k : Nat) : 0 < (1 - v) ^ k := pow_pos (by linarith) k

theorem tle (hv : 0 ≤ v) (hv1 : v < 1) (k : Nat) : (1 - v) ^ k ≤ 1 :=
  pow_le_one₀ (by linarith) (by linarith)

/-- one relative perturbation -/
theorem of_abs (hv : 0 ≤ v) (hv1 : v < 1) (ha : 0 ≤ a) (h : |a' - a| ≤ v * a) :
    Near v 1 a a' := by
  rw [_root_.abs_le] at h
  have h0 : 0 ≤ v * v * a := by positivity
  have h1 : 0 ≤ (1 - v) * (v * a - (a' - a)) := mul_nonneg (by linarith) (by linarith [h.2])
  constructor <;> rw [pow_one] <;> nlinarith [h.1, h.2]

theorem pos (hv1 : v < 1) (ha : 0 < a) (h : Near v k a a') : 0 < a' :=
  lt_of_lt_of_le (mul_pos (tpos hv1 k) ha) h.1

theorem symm (h : Near v k a a') : Near v k a' a := ⟨h.2, h.1⟩

theorem mono (hv : 0 ≤ v) (hv1 : v < 1) (ha : 0 ≤ a) (ha' : 0 ≤ a') (hjk : j ≤ k)
    (h : Near v j a a') : Near v k a a' := by
  have hle : (1 - v) ^ k ≤ (1 - v) ^ j :=
    pow_le_pow_of_le_one (by linarith) (by linarith) hjk
  exact ⟨le_trans (mul_le_mul_of_nonneg_right hle ha) h.1,
    le_trans (mul_le_mul_of_nonneg_right hle ha') h.2⟩

theorem trans (hv1 : v < 1) (h1 : Near v j a b) (h2 : Near v k b c) : Near v (j + k) a c := by
  have tj := le_of_lt (tpos hv1 j)
  have tk := le_of_lt (tpos hv1 k)
  constructor
  · calc (1 - v) ^ (j + k) * a = (1 - v) ^ k * ((1 - v) ^ j * a) := by rw [pow_add]; ring
      _ ≤ (1 - v) ^ k * b := mul_le_mul_of_nonneg_left h1.1 tk
      _ ≤ c := h2.1
  · calc (1 - v) ^ (j + k) * c = (1 - v) ^ j * ((1 - v) ^ k * c) := by rw [pow_add]; ring
      _ ≤ (1 - v) ^ j * b := mul_le_mul_of_nonneg_left h2.2 tj
      _ ≤ a := h1.2

theorem mul (hv1 : v < 1) (ha : 0 ≤ a) (hb : 0 ≤ b) (ha' : 0 ≤ a') (hb' : 0 ≤ b')
    (h1 : Near v j a a') (h2 : Near v k b b') : Near v (j + k) (a * b) (a' * b') := by
  have tj := le_of_lt (tpos hv1 j)
  have tk := le_of_lt (tpos hv1 k)
  constructor
  · calc (1 - v) ^ (j + k) * (a * b) = ((1 - v) ^ j * a) * ((1 - v) ^ k * b) := by
          rw [pow_add]; ring
      _ ≤ a' * b' := mul_le_mul h1.1 h2.1 (mul_nonneg tk hb) ha'
  · calc (1 - v) ^ (j + k) * (a' * b') = ((1 - v) ^ j * a') * ((1 - v) ^ k * b') := by
          rw [pow_add]; ring
      _ ≤ a * b := mul_le_mul h1.2 h2.2 (mul_nonneg tk hb') ha

theorem div (hv1 : v < 1) (ha : 0 ≤ a) (hb : 0 < b) (ha' : 0 ≤ a') (hb' : 0 < b')
    (h1 : Near v j a a') (h2 : Near v k b b') : Near v (j + k) (a / b) (a' / b') := by
  have tj := le_of_lt (tpos hv1 j)
  have tk := le_of_lt (tpos hv1 k)
  constructor
  · rw [← mul_div_assoc, div_le_div_iff₀ hb hb']
    calc (1 - v) ^ (j + k) * a * b' = ((1 - v) ^ j * a) * ((1 - v) ^ k * b') := by
          rw [pow_add]; ring
      _ ≤ a' * b := mul_le_mul h1.1 h2.2 (mul_nonneg tk (le_of_lt hb')) ha'
  · rw [← mul_div_assoc, div_le_div_iff₀ hb' hb]
    calc (1 - v) ^ (j + k) * a' * b = ((1 - v) ^ j * a') * ((1 - v) ^ k * b) := by
          rw [pow_add]; ring
      _ ≤ a * b' := mul_le_mul h1.2 h2.1 (mul_nonneg tk (le_of_lt hb)) ha

theorem add (h1 : Near v k a a') (h2 : Near v k b b') : Near v k (a + b) (a' + b') := by
  constructor
  · rw [mul_add]; exact add_le_add h1.1 h2.1
  · rw [mul_add]; exact add_le_add h1.2 h2.2

/-- sum with different counts: the larger count -/
theorem add_max (hv : 0 ≤ v) (hv1 : v < 1) (ha : 0 ≤ a) (hb : 0 ≤ b) (ha' : 0 ≤ a') (hb' : 0 ≤ b')
    (h1 : Near v j a a') (h2 : Near v k b b') : Near v (max j k) (a + b) (a' + b') :=
  add (mono hv hv1 ha ha' (le_max_left _ _) h1) (mono hv hv1 hb hb' (le_max_right _ _) h2)

/-- back to an absolute bound: `|a' - a| ≤ ((1-v)^(-k) - 1)·a`, written without division -/
theorem abs_le (hv : 0 ≤ v) (hv1 : v < 1) (h : Near v k a a') :
    (1 - v) ^ k * |a' - a| ≤ (1 - (1 - v) ^ k) * a := by
  have t0 := tpos hv1 k
  have t1 := tle hv hv1 k
  obtain ⟨h1, h2⟩ := h
  rcases abs_cases (a' - a) with ⟨e, _⟩ | ⟨e, _⟩ <;> rw [e]
  · nlinarith
  · nlinarith

end Near

/-- `(1-v)^(-3) - 1 ≤ 3v + 7v²` for `v ≤ 1/32` -/
theorem near_three {v a a' : ℚ} (hv : 0 ≤ v) (hv32 : v ≤ 1/32) (ha : 0 ≤ a) (h : Near v 3 a a') :
    |a' - a| ≤ (3 * v + 7 * v ^ 2) * a := by
  have hv1 : v < 1 := by linarith
  have hb := h.abs_le hv hv1
  have t0 := Near.tpos hv1 3
  have key : 1 - (1 - v) ^ 3 ≤ (3 * v + 7 * v ^ 2) * (1 - v) ^ 3 := by
    have e : (3 * v + 7 * v ^ 2) * (1 - v) ^ 3 - (1 - (1 - v) ^ 3) =
        v ^ 2 * (1 - 13 * v) + v ^ 4 * (18 - 7 * v) := by ring
    have : 0 ≤ v ^ 2 * (1 - 13 * v) + v ^ 4 * (18 - 7 * v) :=
      add_nonneg (mul_nonneg (by positivity) (by linarith)) (mul_nonneg (by positivity) (by linarith))
    linarith
  have h2 : (1 - v) ^ 3 * |a' - a| ≤ (1 - v) ^ 3 * ((3 * v + 7 * v ^ 2) * a) := by
    calc (1 - v) ^ 3 * |a' - a| ≤ (1 - (1 - v) ^ 3) * a := hb
      _ ≤ ((3 * v + 7 * v ^ 2) * (1 - v) ^ 3) * a := mul_le_mul_of_nonneg_right key ha
      _ = _ := by ring
  exact le_of_mul_le_mul_left h2 t0

/-- `(1-v)^(-4) - 1 ≤ 4v + 11v²` for `v ≤ 1/32` -/
theorem near_four {v a a' : ℚ} (hv : 0 ≤ v) (hv32 : v ≤ 1/32) (ha : 0 ≤ a) (h : Near v 4 a a') :
    |a' - a| ≤ (4 * v + 11 * v ^ 2) * a := by
  have hv1 : v < 1 := by linarith
  have hb := h.abs_le hv hv1
  have t0 := Near.tpos hv1 4
  have key : 1 - (1 - v) ^ 4 ≤ (4 * v + 11 * v ^ 2) * (1 - v) ^ 4 := by
    have e : (4 * v + 11 * v ^ 2) * (1 - v) ^ 4 - (1 - (1 - v) ^ 4) =
        v ^ 2 * (1 - 24 * v) + v ^ 4 * (51 - 40 * v) + 11 * v ^ 6 := by ring
    have : 0 ≤ v ^ 2 * (1 - 24 * v) + v ^ 4 * (51 - 40 * v) + 11 * v ^ 6 :=
      add_nonneg (add_nonneg (mul_nonneg (by positivity) (by linarith))
        (mul_nonneg (by positivity) (by linarith))) (by positivity)
    linarith
  have h2 : (1 - v) ^ 4 * |a' - a| ≤ (1 - v) ^ 4 * ((4 * v + 11 * v ^ 2) * a) := by
    calc (1 - v) ^ 4 * |a' - a| ≤ (1 - (1 - v) ^ 4) * a := hb
      _ ≤ ((4 * v + 11 * v ^ 2) * (1 - v) ^ 4) * a := mul_le_mul_of_nonneg_right key ha
      _ = _ := by ring
  exact le_of_mul_le_mul_left h2 t0

/-- `(1-v)^(-6) - 1 ≤ 6v + 24v²` for `v ≤ 1/32` -/
theorem near_six {v a a' : ℚ} (hv : 0 ≤ v) (hv32 : v ≤ 1/32) (ha : 0 ≤ a) (h : Near v 6 a a') :
    |a' - a| ≤ (6 * v + 24 * v ^ 2) * a := by
  have hv1 : v < 1 := by linarith
  have hb := h.abs_le hv hv1
  have t0 := Near.tpos hv1 6
  have key : 1 - (1 - v) ^ 6 ≤ (6 * v + 24 * v ^ 2) * (1 - v) ^ 6 := by
    have e : (6 * v + 24 * v ^ 2) * (1 - v) ^ 6 - (1 - (1 - v) ^ 6) =
        v ^ 2 * (3 - 74 * v) + v ^ 4 * (255 - 396 * v) + v ^ 6 * (325 - 138 * v) + 24 * v ^ 8 := by
      ring
    have : 0 ≤ v ^ 2 * (3 - 74 * v) + v ^ 4 * (255 - 396 * v) + v ^ 6 * (325 - 138 * v)
        + 24 * v ^ 8 :=
      add_nonneg (add_nonneg (add_nonneg (mul_nonneg (by positivity) (by linarith))
        (mul_nonneg (by positivity) (by linarith))) (mul_nonneg (by positivity) (by linarith)))
        (by positivity)
    linarith
  have h2 : (1 - v) ^ 6 * |a' - a| ≤ (1 - v) ^ 6 * ((6 * v + 24 * v ^ 2) * a) := by
    calc (1 - v) ^ 6 * |a' - a| ≤ (1 - (1 - v) ^ 6) * a := hb
      _ ≤ ((6 * v + 24 * v ^ 2) * (1 - v) ^ 6) * a := mul_le_mul_of_nonneg_right key ha
      _ = _ := by ring
  exact le_of_mul_le_mul_left h2 t0

/-! ## 5. floats as approximations of non-negative rationals -/

/-- the range in which a rounding is finite, normal and not saturated, in every mode -/
def InRange (F : Sem) (q : ℚ) : Prop := (2:ℚ) ^ F.emin ≤ q ∧ q ≤ maxFinite F

/-- `x` is a positive normal float of format `F` whose magnitude is the non-negative rational
    `a` after `k` relative perturbations of size at most `v` -/
structure Appr (F : Sem) (v : ℚ) (k : Nat) (a : ℚ) (x : Flt) : Prop where
  sem : x.sem = F
  cat : x.cat = .normal
  sign : x.sign = false
  rep : IsRep F x.mag
  near : Near v k a x.mag

theorem toRes_fin {x : Flt} {s : Bool} {e : Int} {m : Nat} (h : x.toRes = .fin s e m) :
    x.cat = .normal ∧ x.sign = s ∧ x.exp = e ∧ x.mant = m := by
  cases hc : x.cat <;> simp only [Flt.toRes, hc] at h
  all_goals first
    | (injection h with h1 h2 h3; exact ⟨rfl, h1, h2, h3⟩)
    | exact Res.noConfusion h

theorem toRes_zero {x : Flt} {s : Bool} (h : x.toRes = .zero s) : x.cat = .zero ∧ x.sign = s := by
  cases hc : x.cat <;> simp only [Flt.toRes, hc] at h
  all_goals first
    | (injection h with h1; exact ⟨rfl, h1⟩)
    | exact Res.noConfusion h

theorem unit_lt_one (hF : F.WF) (rm : RM) : unit F rm < 1 := by
  have := unit_le_u F rm; have := u_le_half hF; linarith

theorem inRange_pos {q : ℚ} (h : InRange F q) : 0 < q := lt_of_lt_of_le (by positivity) h.1

/-- a float whose `toRes` is the rounding of an in-range magnitude -/
theorem flt_of_round (hF : F.WF) (rm : RM) {x : Flt} (hx : x.sem = F) {q : ℚ} (hr : InRange F q)
    (h : x.toRes = Spec.round F rm false q) :
    x.cat = .normal ∧ x.sign = false ∧ IsRep F x.mag ∧ Near (unit F rm) 1 q x.mag := by
  have hq := inRange_pos hr
  obtain ⟨e, m, hfin⟩ := round_fin_of_range hF rm false hr.1 hr.2
  rw [hfin] at h
  obtain ⟨hc, hs, he, hm⟩ := toRes_fin h
  obtain ⟨_, h1, h2, _, h4, h5⟩ := round_mem hF hq rm false hfin
  have hmag : x.mag = (m:ℚ) * (2:ℚ) ^ (e - ((F.p:Int) - 1)) := by
    rw [Flt.mag_eq, hx, he, hm]
  have hsat : rm.truncFor false → q < (2:ℚ) ^ (F.emax + 1) :=
    fun _ => lt_of_le_of_lt hr.2 (maxFinite_lt_sr F)
  refine ⟨hc, hs, ⟨e, m, h1, h2, h4, h5, hmag⟩, ?_⟩
  rw [hmag]
  exact Near.of_abs (le_of_lt (unit_pos F rm)) (unit_lt_one hF rm) (le_of_lt hq)
    (round_rel_unit hF rm false hq hr.1 hsat hfin)

namespace Appr
variable {v a b : ℚ} {j k : Nat} {x y z : Flt}

theorem mag_pos (hv1 : v < 1) (ha : 0 < a) (h : Appr F v k a x) : 0 < x.mag :=
  h.near.pos hv1 ha

theorem val_eq (h : Appr F v k a x) : x.val = x.mag := by
  simp [Flt.val, h.cat, h.sign]

/-- loading a positive integer that is at most the largest finite number: one rounding -/
theorem load (hF : F.WF) (rm : RM) {n : Nat} (hn : 0 < n) (hle : (n:ℚ) ≤ maxFinite F)
    (hx : x.sem = F) (h : x.toRes = Spec.fromNat F rm n) : Appr F (unit F rm) 1 (n:ℚ) x := by
  have hnq : (0:ℚ) < (n:ℚ) := by exact_mod_cast hn
  have h1 : (1:ℚ) ≤ (n:ℚ) := by exact_mod_cast hn
  have hr : InRange F (n:ℚ) := by
    refine ⟨le_trans ?_ h1, hle⟩
    have := zpow_le_zpow_right₀ (by norm_num : (1:ℚ) ≤ 2) (Sem.emin_le_zero hF)
    simpa using this
  unfold Spec.fromNat Spec.roundQ at h
  rw [if_neg (ne_of_gt hnq), if_pos hnq] at h
  obtain ⟨hc, hs, hrep, hnear⟩ := flt_of_round hF rm hx hr h
  exact ⟨hx, hc, hs, hrep, hnear⟩

/-- correctly rounded product of two approximations -/
theorem mul (hF : F.WF) (rm : RM) (ha : 0 < a) (hb : 0 < b)
    (hx : Appr F (unit F rm) j a x) (hy : Appr F (unit F rm) k b y) (hz : z.sem = F)
    (hr : InRange F (x.mag * y.mag)) (h : z.toRes = Spec.mul F rm x y) :
    Appr F (unit F rm) (j + k + 1) (a * b) z := by
  have hv1 := unit_lt_one hF rm
  have hxp := hx.mag_pos hv1 ha
  have hyp := hy.mag_pos hv1 hb
  have e : Spec.mul F rm x y = Spec.round F rm false (x.mag * y.mag) := by
    simp [Spec.mul, Spec.isNan, Spec.isInf, Spec.isZero, hx.cat, hy.cat, hx.sign, hy.sign]
  rw [e] at h
  obtain ⟨hc, hs, hrep, hnear⟩ := flt_of_round hF rm hz hr h
  exact ⟨hz, hc, hs, hrep,
    (Near.mul hv1 (le_of_lt ha) (le_of_lt hb) (le_of_lt hxp) (le_of_lt hyp) hx.near hy.near).trans
      hv1 hnear⟩

/-- correctly rounded quotient of two approximations -/
theorem div (hF : F.WF) (rm : RM) (ha : 0 < a) (hb : 0 < b)
    (hx : Appr F (unit F rm) j a x) (hy : Appr F (unit F rm) k b y) (hz : z.sem = F)
    (hr : InRange F (x.mag / y.mag)) (h : z.toRes = Spec.div F rm x y) :
    Appr F (unit F rm) (j + k + 1) (a / b) z := by
  have hv1 := unit_lt_one hF rm
  have hxp := hx.mag_pos hv1 ha
  have hyp := hy.mag_pos hv1 hb
  have e : Spec.div F rm x y = Spec.round F rm false (x.mag / y.mag) := by
    simp [Spec.div, Spec.isNan, Spec.isInf, Spec.isZero, hx.cat, hy.cat, hx.sign, hy.sign]
  rw [e] at h
  obtain ⟨hc, hs, hrep, hnear⟩ := flt_of_round hF rm hz hr h
  exact ⟨hz, hc, hs, hrep,
    (Near.div hv1 (le_of_lt ha) hb (le_of_lt hxp) hyp hx.near hy.near).trans hv1 hnear⟩

/-- correctly rounded sum of two (positive) approximations: no cancellation -/
theorem add (hF : F.WF) (rm : RM) (ha : 0 < a) (hb : 0 < b)
    (hx : Appr F (unit F rm) j a x) (hy : Appr F (unit F rm) k b y) (hz : z.sem = F)
    (hr : InRange F (x.mag + y.mag)) (h : z.toRes = Spec.add F rm x y) :
    Appr F (unit F rm) (max j k + 1) (a + b) z := by
  have hv0 := le_of_lt (unit_pos F rm)
  have hv1 := unit_lt_one hF rm
  have hxp := hx.mag_pos hv1 ha
  have hyp := hy.mag_pos hv1 hb
  have hpos : 0 < x.mag + y.mag := by linarith
  have e : Spec.add F rm x y = Spec.round F rm false (x.mag + y.mag) := by
    simp only [Spec.add, Spec.isNan, Spec.isInf, Spec.isZero, hx.cat, hy.cat, hx.val_eq, hy.val_eq,
      Spec.roundQ]
    simp [ne_of_gt hpos, hpos]
  rw [e] at h
  obtain ⟨hc, hs, hrep, hnear⟩ := flt_of_round hF rm hz hr h
  exact ⟨hz, hc, hs, hrep,
    (Near.add_max hv0 hv1 (le_of_lt ha) (le_of_lt hb) (le_of_lt hxp) (le_of_lt hyp)
      hx.near hy.near).trans hv1 hnear⟩

/-- `0 + y` is `y` exactly (the sum of a zero and a representable number is not rounded) -/
theorem zero_add (hF : F.WF) (rm : RM) (hb : 0 < b) (hx : x.cat = .zero)
    (hy : Appr F v k b y) (hv1 : v < 1) (hz : z.sem = F) (h : z.toRes = Spec.add F rm x y) :
    Appr F v k b z := by
  have hyp := hy.mag_pos hv1 hb
  have hxv : x.val = 0 := by simp [Flt.val, hx]
  have e : Spec.add F rm x y = Spec.round F rm false y.mag := by
    simp only [Spec.add, Spec.isNan, Spec.isInf, Spec.isZero, hx, hy.cat, hxv, hy.val_eq,
      Spec.roundQ]
    simp [ne_of_gt hyp, hyp]
  rw [e] at h
  obtain ⟨e', m', hfin, hval⟩ := round_exact hF hyp hy.rep rm false
  rw [hfin] at h
  obtain ⟨hc, hs, he, hm⟩ := toRes_fin h
  have hmag : z.mag = y.mag := by rw [Flt.mag_eq, hz, he, hm]; exact hval
  exact ⟨hz, hc, hs, by rw [hmag]; exact hy.rep, by rw [hmag]; exact hy.near⟩

/-- `x + 0` is `x` exactly -/
theorem add_zero (hF : F.WF) (rm : RM) (ha : 0 < a) (hx : Appr F v k a x) (hy : y.cat = .zero)
    (hv1 : v < 1) (hz : z.sem = F) (h : z.toRes = Spec.add F rm x y) :
    Appr F v k a z := by
  have hxp := hx.mag_pos hv1 ha
  have hyv : y.val = 0 := by simp [Flt.val, hy]
  have e : Spec.add F rm x y = Spec.round F rm false x.mag := by
    simp only [Spec.add, Spec.isNan, Spec.isInf, Spec.isZero, hx.cat, hy, hyv, hx.val_eq,
      Spec.roundQ]
    simp [ne_of_gt hxp, hxp]
  rw [e] at h
  obtain ⟨e', m', hfin, hval⟩ := round_exact hF hxp hx.rep rm false
  rw [hfin] at h
  obtain ⟨hc, hs, he, hm⟩ := toRes_fin h
  have hmag : z.mag = x.mag := by rw [Flt.mag_eq, hz, he, hm]; exact hval
  exact ⟨hz, hc, hs, by rw [hmag]; exact hx.rep, by rw [hmag]; exact hx.near⟩

/-- more perturbations allowed -/
theorem mono (hv : 0 ≤ v) (hv1 : v < 1) (ha : 0 < a) (hjk : j ≤ k) (h : Appr F v j a x) :
    Appr F v k a x :=
  ⟨h.sem, h.cat, h.sign, h.rep,
    h.near.mono hv hv1 (le_of_lt ha) (le_of_lt (h.mag_pos hv1 ha)) hjk⟩

end Appr

/-! ## 6. from relative error to ulps -/

/-- a relative error `c·u` is at most `2c` ulps of the binade `[2^E, 2^(E+1))` of the exact value -/
theorem ulps_of_rel {X R c : ℚ} {E : Int} (hc : 0 ≤ c) (hhi : X ≤ (2:ℚ) ^ (E + 1))
    (h : |R - X| ≤ c * u F * X) : |R - X| ≤ 2 * c * F.ulp E := by
  rw [ulp_eq_u]
  have e2 : (2:ℚ) ^ (E + 1) = 2 * (2:ℚ) ^ E := by
    rw [zpow_add_one₀ (by norm_num : (2:ℚ) ≠ 0)]; ring
  have hu := u_pos F
  calc |R - X| ≤ c * u F * X := h
    _ ≤ c * u F * (2 * (2:ℚ) ^ E) := mul_le_mul_of_nonneg_left (by linarith) (by positivity)
    _ = 2 * c * (u F * (2:ℚ) ^ E) := by ring

/-- six perturbations of a nearest mode (`p ≥ 5`): relative error `≤ (3 + 6u)·u` -/
theorem near_six_nearest {rm : RM} (hrm : rm = .nte ∨ rm = .nta) (hp : 5 ≤ F.p) {X R : ℚ}
    (hX : 0 ≤ X) (h : Near (unit F rm) 6 X R) : |R - X| ≤ (3 + 6 * u F) * u F * X := by
  rw [unit_nearest hrm] at h
  have hu := u_pos F
  have h2 := u_le_of_le_p (F := F) (k := 5) hp
  norm_num at h2
  have := near_six (by linarith) (by linarith) hX h
  calc |R - X| ≤ (6 * (u F / 2) + 24 * (u F / 2) ^ 2) * X := this
    _ = (3 + 6 * u F) * u F * X := by ring

/-- six perturbations of any mode (`p ≥ 6`): relative error `≤ (6 + 24u)·u` -/
theorem near_six_any (rm : RM) (hp : 6 ≤ F.p) {X R : ℚ}
    (hX : 0 ≤ X) (h : Near (unit F rm) 6 X R) : |R - X| ≤ (6 + 24 * u F) * u F * X := by
  have hv0 := le_of_lt (unit_pos F rm)
  have hvu := unit_le_u F rm
  have h2 := u_le_of_le_p (F := F) (k := 6) hp
  norm_num at h2
  have := near_six hv0 (by linarith) hX h
  have hsq : unit F rm ^ 2 ≤ u F ^ 2 := pow_le_pow_left₀ hv0 hvu 2
  calc |R - X| ≤ (6 * unit F rm + 24 * unit F rm ^ 2) * X := this
    _ ≤ (6 * u F + 24 * u F ^ 2) * X := mul_le_mul_of_nonneg_right (by linarith) hX
    _ = (6 + 24 * u F) * u F * X := by ring

end Arp.RelErr
