import Arp.Lemmas.Ln2
import Mathlib.Analysis.SpecialFunctions.Log.Deriv
import Mathlib.Analysis.SpecificLimits.Basic
/-!
# Lemmas for the accuracy of `Float::log` (property C16) — part 1: the series

`log x = 2·artanh((x-1)/(x+1))`, `artanh t = Σ t^(2i+1)/(2i+1)`.
-/
namespace Arp.LogErr
open Finset

/-- `artanh t = ½·log((1+t)/(1-t))` -/
noncomputable def At (t : ℝ) : ℝ := 1 / 2 * Real.log ((1 + t) / (1 - t))

/-- partial sums of the series of `artanh` -/
noncomputable def Ps (t : ℝ) (n : ℕ) : ℝ := ∑ i ∈ range n, t ^ (2 * i + 1) / (2 * (i:ℝ) + 1)

theorem Ps_le_At {t : ℝ} (h0 : 0 ≤ t) (h1 : t < 1) (n : ℕ) : Ps t n ≤ At t :=
  Real.sum_range_le_log_div h0 h1 n

theorem At_eq_log_sub {t : ℝ} (h0 : -1 < t) (h1 : t < 1) :
    At t = 1 / 2 * (Real.log (1 + t) - Real.log (1 - t)) := by
  unfold At
  rw [Real.log_div (by linarith) (by linarith)]

theorem hasSum_At {t : ℝ} (h : |t| < 1) :
    HasSum (fun k : ℕ => t ^ (2 * k + 1) / (2 * (k:ℝ) + 1)) (At t) := by
  have h' := abs_lt.mp h
  rw [At_eq_log_sub h'.1 h'.2]
  have := (Real.hasSum_log_sub_log_of_abs_lt_one h).mul_left (1/2)
  have e : (fun k : ℕ => t ^ (2 * k + 1) / (2 * (k:ℝ) + 1)) =
      fun i : ℕ => 1 / 2 * (2 * (1 / (2 * (i:ℝ) + 1)) * t ^ (2 * i + 1)) := by
    funext k; ring
  rw [e]; exact this

/-- the tail after `n` terms is dominated by a geometric series -/
theorem At_le_Ps_add {t : ℝ} (h0 : 0 ≤ t) (h1 : t < 1) (n : ℕ) :
    At t ≤ Ps t n + t ^ (2 * n + 1) / (2 * (n:ℝ) + 1) / (1 - t ^ 2) := by
  have habs : |t| < 1 := by rw [abs_of_nonneg h0]; exact h1
  have hs := (hasSum_nat_add_iff' n).mpr (hasSum_At habs)
  have ht2 : t ^ 2 < 1 := by nlinarith
  have ht20 : 0 ≤ t ^ 2 := by positivity
  have hg : HasSum (fun k : ℕ => t ^ (2 * n + 1) / (2 * (n:ℝ) + 1) * (t ^ 2) ^ k)
      (t ^ (2 * n + 1) / (2 * (n:ℝ) + 1) * (1 - t ^ 2)⁻¹) :=
    (hasSum_geometric_of_lt_one ht20 ht2).mul_left _
  have hle := hasSum_le (fun k => ?_) hs hg
  · unfold Ps
    rw [div_eq_mul_inv _ (1 - t ^ 2)]
    linarith
  · have e : t ^ (2 * (k + n) + 1) = t ^ (2 * n + 1) * (t ^ 2) ^ k := by
      rw [← pow_mul, ← pow_add]; congr 1; ring
    rw [e, div_mul_eq_mul_div]
    have hnum : 0 ≤ t ^ (2 * n + 1) * (t ^ 2) ^ k := by positivity
    apply div_le_div_of_nonneg_left hnum (by positivity)
    push_cast; nlinarith [(Nat.cast_nonneg k : (0:ℝ) ≤ k)]

theorem le_At {t : ℝ} (h0 : 0 ≤ t) (h1 : t < 1) : t ≤ At t := by
  have := Ps_le_At h0 h1 1
  simpa [Ps] using this

theorem At_nonneg {t : ℝ} (h0 : 0 ≤ t) (h1 : t < 1) : 0 ≤ At t := le_trans h0 (le_At h0 h1)

/-- `artanh` is increasing and Lipschitz with constant `1/(1-t')` on `[t, t']` -/
theorem At_sub_le {t t' : ℝ} (h0 : 0 ≤ t) (hle : t ≤ t') (h1 : t' < 1) :
    0 ≤ At t' - At t ∧ At t' - At t ≤ (t' - t) / (1 - t') := by
  rw [At_eq_log_sub (by linarith) (by linarith), At_eq_log_sub (by linarith) (by linarith)]
  have e : 1 / 2 * (Real.log (1 + t') - Real.log (1 - t')) - 1 / 2 * (Real.log (1 + t) - Real.log (1 - t))
      = 1 / 2 * (Real.log ((1 + t') / (1 + t)) + Real.log ((1 - t) / (1 - t'))) := by
    rw [Real.log_div (by linarith) (by linarith), Real.log_div (by linarith) (by linarith)]; ring
  rw [e]
  have hA : 0 < (1 + t') / (1 + t) := div_pos (by linarith) (by linarith)
  have hB : 0 < (1 - t) / (1 - t') := div_pos (by linarith) (by linarith)
  have hA1 : 1 ≤ (1 + t') / (1 + t) := by rw [le_div_iff₀ (by linarith)]; linarith
  have hB1 : 1 ≤ (1 - t) / (1 - t') := by rw [le_div_iff₀ (by linarith)]; linarith
  have hlA := Real.log_le_sub_one_of_pos hA
  have hlB := Real.log_le_sub_one_of_pos hB
  have hnA := Real.log_nonneg hA1
  have hnB := Real.log_nonneg hB1
  have eA : (1 + t') / (1 + t) - 1 = (t' - t) / (1 + t) := by field_simp; ring
  have eB : (1 - t) / (1 - t') - 1 = (t' - t) / (1 - t') := by
    have : (1 - t') ≠ 0 := by linarith
    field_simp; ring
  rw [eA] at hlA; rw [eB] at hlB
  have hcmp : (t' - t) / (1 + t) ≤ (t' - t) / (1 - t') :=
    div_le_div_of_nonneg_left (by linarith) (by linarith) (by linarith)
  constructor
  · linarith
  · linarith

/-- `log x = 2·artanh((x-1)/(x+1))` -/
theorem log_eq_At {x : ℝ} (hx : 0 < x) : Real.log x = 2 * At ((x - 1) / (x + 1)) := by
  unfold At
  have h1 : (x + 1) ≠ 0 := by linarith
  have e : (1 + (x - 1) / (x + 1)) / (1 - (x - 1) / (x + 1)) = x := by
    field_simp; ring
  rw [e]; ring


/-- `|log x| = 2·artanh(|x-1|/(x+1))` -/
theorem abs_log_eq_At {x : ℝ} (hx : 0 < x) : |Real.log x| = 2 * At (|x - 1| / (x + 1)) := by
  rcases le_or_gt 1 x with h | h
  · rw [abs_of_nonneg (Real.log_nonneg h), abs_of_nonneg (by linarith), log_eq_At hx]
  · rw [abs_of_neg (Real.log_neg hx h), abs_of_neg (by linarith), ← Real.log_inv,
      log_eq_At (inv_pos.mpr hx)]
    congr 2
    have : x ≠ 0 := ne_of_gt hx
    field_simp
    ring

/-- **relative error of the truncated Taylor sum** (pure real arithmetic): with the comparison
    ratios `tm = (1-3u)·w` and `tp = w/(1-3u)`, a sum `v` with
    `artanh tm - 2(u·v+3δ) - N(u·B+4δ) ≤ v ≤ artanh tp` is within `1.01·(N+7)·u` of `artanh w`,
    relatively. -/
theorem taylor_rel {u w v δ B tm tp : ℝ} {N : ℕ} (hu0 : 0 < u) (hu : u ≤ 1 / 1000000)
    (hw0 : 0 < w) (hw : w ≤ 1 / 300) (htm : tm = (1 - 3 * u) * w) (htp : tp * (1 - 3 * u) = w)
    (hδ : (4 * (N:ℝ) + 6) * δ ≤ u * w) (hB : B ≤ 1001 / 1000 * w)
    (hvB : v ≤ B) (hhi : v ≤ At tp)
    (hlo : At tm - 2 * (u * v + 3 * δ) - (N:ℝ) * (u * B + 4 * δ) ≤ v) :
    |v - At w| ≤ 101 / 100 * ((N:ℝ) + 7) * u * At w := by
  have hN0 : (0:ℝ) ≤ (N:ℝ) := Nat.cast_nonneg N
  have huw : 0 < u * w := mul_pos hu0 hw0
  have hw1 : w < 1 := by linarith
  have hAw : w ≤ At w := le_At (le_of_lt hw0) hw1
  -- `tp`
  have htp0 : 0 < tp := by
    by_contra hc
    have : tp * (1 - 3 * u) ≤ 0 := mul_nonpos_of_nonpos_of_nonneg (not_lt.mp hc) (by linarith)
    linarith
  have h3utp : 3 * u * tp ≤ 3 / 1000000 * tp := by nlinarith
  have htpw : tp ≤ 100001 / 100000 * w := by nlinarith
  have htpge : w ≤ tp := by nlinarith
  have htp1 : tp ≤ 1 / 256 := by linarith
  have hdiff : tp - w = 3 * u * tp := by linarith
  -- `tm`
  have htm0 : 0 ≤ tm := by rw [htm]; apply mul_nonneg (by linarith) (le_of_lt hw0)
  have htmw : tm ≤ w := by rw [htm]; nlinarith
  -- upper side
  obtain ⟨_, hU⟩ := At_sub_le (le_of_lt hw0) htpge (by linarith : tp < 1)
  have hU2 : (tp - w) / (1 - tp) ≤ 4 * (u * w) := by
    rw [div_le_iff₀ (by linarith)]
    have h1 : u * tp ≤ u * (100001 / 100000 * w) := mul_le_mul_of_nonneg_left htpw (le_of_lt hu0)
    have h2 : u * w * tp ≤ u * w * (1 / 256) := mul_le_mul_of_nonneg_left htp1 (le_of_lt huw)
    rw [hdiff]; nlinarith
  -- lower side
  obtain ⟨_, hL⟩ := At_sub_le htm0 htmw hw1
  have hL2 : (w - tm) / (1 - w) ≤ 302 / 100 * (u * w) := by
    rw [div_le_iff₀ (by linarith)]
    have e : w - tm = 3 * (u * w) := by rw [htm]; ring
    have h2 : u * w * w ≤ u * w * (1 / 300) := mul_le_mul_of_nonneg_left hw (le_of_lt huw)
    rw [e]; nlinarith
  have huB : u * B ≤ u * (1001 / 1000 * w) := mul_le_mul_of_nonneg_left hB (le_of_lt hu0)
  have huv : u * v ≤ u * B := mul_le_mul_of_nonneg_left hvB (le_of_lt hu0)
  have hNuB : (N:ℝ) * (u * B) ≤ (N:ℝ) * (u * (1001 / 1000 * w)) :=
    mul_le_mul_of_nonneg_left huB hN0
  have hAuw : u * w ≤ u * At w := mul_le_mul_of_nonneg_left hAw (le_of_lt hu0)
  have hNuw : (N:ℝ) * (u * w) ≤ (N:ℝ) * (u * At w) := mul_le_mul_of_nonneg_left hAuw hN0
  rw [abs_le]
  constructor
  · -- `At w - v ≤ …`
    have : At w - v ≤ 302 / 100 * (u * w) + 2 * (u * (1001 / 1000 * w))
        + (N:ℝ) * (u * (1001 / 1000 * w)) + u * w := by
      nlinarith
    nlinarith
  · have : v - At w ≤ 4 * (u * w) := by linarith
    nlinarith

end Arp.LogErr
