import Arp.Lemmas.Sqrt
import Arp.Props.C20
import Arp.Props.C10TruncRound
import Arp.Props.C08ToI64
import Mathlib.Tactic.Positivity
import Mathlib.Tactic.NormNum
/-!
# Error propagation through the continued-fraction iteration of `as_fraction` (C20)

The iteration `real ↦ 1/(real − trunc real)` is compared with the exact Euclidean expansion in
"`x`-space": with `st = ((p, p'), (q, q'))` the state of the convergent recurrence after the
first `i` exact partial quotients, `mob st t = (p·t + p')/(q·t + q')` maps the `i`-th complete
quotient back to `x`.  A float iterate `ρ` is the exact complete quotient of the perturbed
number `mob st ρ`; one rounded reciprocal moves that number by at most
`2^-p / (q_i (q_i + q_{i-1}))` (`mob_round_step`), and the integer part of `ρ` is the exact
partial quotient as long as the perturbed number stays within `1/(3·q_{i+2}²)` of `x`
(`floor_eq_of_close`).
-/
namespace Arp.C20
open Arp Arp.SpecRound Arp.Sqrt

/-! ## 1. the cylinder of a partial quotient (pure rational arithmetic) -/

theorem cyl_lower {q q1 q2 q3 a' f f' d A B : ℚ} (hq : 0 ≤ q) (hq1 : 1 ≤ q1)
    (hq2 : q2 = a' * q1 + q) (h12 : q1 ≤ q2) (h23 : q2 ≤ q3) (ha' : 1 ≤ a')
    (hf'0 : 0 < f') (hf'1 : f' < 1) (hf : f * (a' + f') = 1) (hd : 0 < d)
    (hB : B = q1 + q * f) (h1 : f * A ≤ d * q1) : A * B < d * (3 * q3 ^ 2) := by
  have hq1pos : 0 < q1 := by linarith
  have hq3pos : 0 < q3 := by linarith
  have h2 : B = f * (q1 * (a' + f') + q) := by
    rw [hB]
    have : f * (q1 * (a' + f') + q) = q1 * (f * (a' + f')) + q * f := by ring
    rw [this, hf]; ring
  have h3 : q1 * (a' + f') + q < q2 + q1 := by
    have := mul_lt_mul_of_pos_left hf'1 hq1pos
    rw [hq2]; linarith
  have hXpos : 0 ≤ q1 * (a' + f') + q := by positivity
  have h4 : A * B ≤ d * q1 * (q1 * (a' + f') + q) := by
    rw [h2]
    calc A * (f * (q1 * (a' + f') + q)) = (f * A) * (q1 * (a' + f') + q) := by ring
      _ ≤ (d * q1) * (q1 * (a' + f') + q) := mul_le_mul_of_nonneg_right h1 hXpos
  have h5 : d * q1 * (q1 * (a' + f') + q) < d * q1 * (q2 + q1) :=
    mul_lt_mul_of_pos_left h3 (by positivity)
  have h6 : q1 * (q2 + q1) ≤ q3 * (2 * q3) :=
    mul_le_mul (by linarith) (by linarith) (by linarith) hq3pos.le
  have h7 : d * (q1 * (q2 + q1)) ≤ d * (q3 * (2 * q3)) := mul_le_mul_of_nonneg_left h6 hd.le
  have h8 : 0 ≤ d * q3 ^ 2 := by positivity
  have e1 : d * q1 * (q2 + q1) = d * (q1 * (q2 + q1)) := by ring
  have e2 : d * (q3 * (2 * q3)) = 2 * (d * q3 ^ 2) := by ring
  have e3 : d * (3 * q3 ^ 2) = 3 * (d * q3 ^ 2) := by ring
  linarith

theorem cyl_upper {q q1 q2 q3 a' a'' f f' r'' d A B : ℚ} (hq : 0 ≤ q) (hq1 : 1 ≤ q1)
    (h12 : q1 + q ≤ q2) (h23 : a'' * q2 + 1 ≤ q3) (ha' : 1 ≤ a') (ha'' : 1 ≤ a'')
    (hf0 : 0 < f) (hf'0 : 0 < f') (hf : f * (a' + f') = 1) (hf' : f' * r'' = 1)
    (hr'' : r'' < a'' + 1) (hd : 0 < d)
    (hA : 0 < A) (hB : B = q1 + q * f) (h1 : (1 - f) * A ≤ d * (q1 + q)) :
    A * B < d * (3 * q3 ^ 2) := by
  have hq2pos : 0 < q2 := by linarith
  have hq23 : q2 ≤ q3 := by
    have := mul_le_mul_of_nonneg_right ha'' hq2pos.le
    linarith
  have hq3pos : 0 < q3 := by linarith
  have hf1 : f < 1 := by
    have h : f * 1 < f * (a' + f') := mul_lt_mul_of_pos_left (by linarith) hf0
    linarith
  have hB2 : B ≤ q1 + q := by
    rw [hB]
    have := mul_le_mul_of_nonneg_left hf1.le hq
    linarith
  set g := 1 - f with hg
  have hgpos : 0 < g := by rw [hg]; linarith
  -- g·(a''+2) > 1
  have hfa : f * (1 + f') ≤ 1 := by
    have : f * (1 + f') ≤ f * (a' + f') := mul_le_mul_of_nonneg_left (by linarith) hf0.le
    linarith
  have hgf : f' ≤ g * (1 + f') := by
    have : g * (1 + f') = (1 + f') - f * (1 + f') := by rw [hg]; ring
    linarith
  have hfr : 1 < f' * (a'' + 1) := by
    have := mul_lt_mul_of_pos_left hr'' hf'0
    linarith
  have hg2 : 1 < g * (a'' + 2) := by
    have h1f : 0 < 1 + f' := by linarith
    have h2 : f' * (a'' + 2) ≤ (g * (1 + f')) * (a'' + 2) :=
      mul_le_mul_of_nonneg_right hgf (by linarith)
    have h3 : (1 + f') * 1 < (1 + f') * (g * (a'' + 2)) := by
      have e : (1 + f') * (g * (a'' + 2)) = (g * (1 + f')) * (a'' + 2) := by ring
      have e2 : f' * (a'' + 2) = f' * (a'' + 1) + f' := by ring
      linarith
    exact lt_of_mul_lt_mul_left h3 h1f.le
  have h3 : A < d * (q1 + q) * (a'' + 2) := by
    have : A * 1 < A * (g * (a'' + 2)) := mul_lt_mul_of_pos_left hg2 hA
    have h4 : A * (g * (a'' + 2)) = (g * A) * (a'' + 2) := by ring
    have h5 : (g * A) * (a'' + 2) ≤ (d * (q1 + q)) * (a'' + 2) :=
      mul_le_mul_of_nonneg_right h1 (by linarith)
    linarith
  have h4 : A * B < d * (q1 + q) * (a'' + 2) * (q1 + q) := by
    calc A * B ≤ A * (q1 + q) := mul_le_mul_of_nonneg_left hB2 hA.le
      _ < d * (q1 + q) * (a'' + 2) * (q1 + q) := mul_lt_mul_of_pos_right h3 (by linarith)
  have h5 : (q1 + q) * (q1 + q) * (a'' + 2) ≤ 3 * q3 ^ 2 := by
    have e1 : (q1 + q) * (q1 + q) ≤ q2 * q2 := mul_le_mul h12 h12 (by linarith) hq2pos.le
    have e2 : a'' + 2 ≤ 3 * a'' := by linarith
    have e3 : q2 * q2 * (a'' + 2) ≤ q2 * q2 * (3 * a'') :=
      mul_le_mul_of_nonneg_left e2 (by positivity)
    have e4 : q2 * (a'' * q2) ≤ q3 * q3 :=
      mul_le_mul hq23 (by linarith) (by positivity) hq3pos.le
    have e5 : (q1 + q) * (q1 + q) * (a'' + 2) ≤ q2 * q2 * (a'' + 2) :=
      mul_le_mul_of_nonneg_right e1 (by linarith)
    have e6 : q2 * q2 * (3 * a'') = 3 * (q2 * (a'' * q2)) := by ring
    have e7 : q3 ^ 2 = q3 * q3 := by ring
    linarith
  have h6 : d * ((q1 + q) * (q1 + q) * (a'' + 2)) ≤ d * (3 * q3 ^ 2) :=
    mul_le_mul_of_nonneg_left h5 hd.le
  have e8 : d * (q1 + q) * (a'' + 2) * (q1 + q) = d * ((q1 + q) * (q1 + q) * (a'' + 2)) := by ring
  linarith

/-- **Key separation lemma.**  `r = a + f` is an exact complete quotient with the next two
    quotients `a'` (`1/f = a' + f'`) and `a''` (`1/f' < a'' + 1`); `(q, q')` are the two last
    denominators, `q3` the denominator three steps later.  If `s ≥ 1` maps (under the Möbius
    map of the state) to a point closer than `1/(3·q3²)` to the image of `r`, then `s` lies
    strictly between `a` and `a + 1`. -/
theorem floor_eq_of_close (q q' a a' a'' f f' r'' s : ℚ)
    (hq : 0 ≤ q) (hqq : 1 ≤ q + q') (ha : 1 ≤ a) (ha' : 1 ≤ a') (ha'' : 1 ≤ a'')
    (hf0 : 0 < f) (hf'0 : 0 < f') (hf'1 : f' < 1) (hf : f * (a' + f') = 1) (hf' : f' * r'' = 1)
    (hr'' : r'' < a'' + 1) (hs : 1 ≤ s)
    (hE : |s - (a + f)| / ((q * s + q') * (q * (a + f) + q'))
        < 1 / (3 * (a'' * (a' * (a * q + q') + q) + (a * q + q')) ^ 2)) :
    a < s ∧ s < a + 1 := by
  have hq1p : 1 ≤ a * q + q' := by
    have := mul_le_mul_of_nonneg_right ha hq
    linarith
  have hq12 : (a * q + q') + q ≤ a' * (a * q + q') + q := by
    have := mul_le_mul_of_nonneg_right ha' (show (0:ℚ) ≤ a * q + q' by linarith)
    linarith
  have hApos : 0 < q * s + q' := by
    have := mul_le_mul_of_nonneg_left hs hq
    linarith
  have hBpos : 0 < q * (a + f) + q' := by
    have := mul_le_mul_of_nonneg_left (show 1 ≤ a + f by linarith) hq
    linarith
  have hq2pos : 0 < a' * (a * q + q') + q := by linarith
  have hq3pos : 0 < a'' * (a' * (a * q + q') + q) + (a * q + q') := by positivity
  have hE' : |s - (a + f)| * (3 * (a'' * (a' * (a * q + q') + q) + (a * q + q')) ^ 2)
      < (q * s + q') * (q * (a + f) + q') := by
    rw [div_lt_div_iff₀ (by positivity) (by positivity)] at hE
    linarith
  have hBq1 : q * (a + f) + q' = (a * q + q') + q * f := by ring
  constructor
  · by_contra hcon
    have hsa : s ≤ a := not_lt.mp hcon
    have habs : |s - (a + f)| = a + f - s := by
      rw [abs_of_nonpos (by linarith)]; ring
    rw [habs] at hE'
    have h1 : f * (q * s + q') ≤ (a + f - s) * (a * q + q') := by
      have e : (a + f - s) * (a * q + q') - f * (q * s + q') = (a - s) * (q * (a + f) + q') := by ring
      have h2 : 0 ≤ (a - s) * (q * (a + f) + q') := mul_nonneg (by linarith) hBpos.le
      linarith
    have := cyl_lower (q3 := a'' * (a' * (a * q + q') + q) + (a * q + q')) hq hq1p rfl
      (by linarith) (by
        have := mul_le_mul_of_nonneg_right ha'' hq2pos.le
        linarith) ha' hf'0 hf'1 hf (show 0 < a + f - s by linarith) hBq1 h1
    linarith
  · by_contra hcon
    have hsa : a + 1 ≤ s := not_lt.mp hcon
    have hf1 : f < 1 := by
      have h : f * 1 < f * (a' + f') := mul_lt_mul_of_pos_left (by linarith) hf0
      linarith
    have habs : |s - (a + f)| = s - a - f := by
      rw [abs_of_nonneg (by linarith)]; ring
    rw [habs] at hE'
    have h1 : (1 - f) * (q * s + q') ≤ (s - a - f) * ((a * q + q') + q) := by
      have e : (s - a - f) * ((a * q + q') + q) - (1 - f) * (q * s + q')
          = (s - (a + 1)) * (q * (a + f) + q') := by ring
      have h2 : 0 ≤ (s - (a + 1)) * (q * (a + f) + q') := mul_nonneg (by linarith) hBpos.le
      linarith
    have := cyl_upper (q3 := a'' * (a' * (a * q + q') + q) + (a * q + q')) hq hq1p hq12
      (by linarith) ha' ha'' hf0 hf'0 hf hf' hr'' (show 0 < s - a - f by linarith) hApos hBq1 h1
    linarith

/-! ## 2. the Möbius map of a state of the convergent recurrence -/

/-- `(p·t + p')/(q·t + q')` for the state `((p, p'), (q, q'))` -/
def mob (st : (Nat × Nat) × (Nat × Nat)) (t : ℚ) : ℚ :=
  ((st.1.1 : ℚ) * t + st.1.2) / ((st.2.1 : ℚ) * t + st.2.2)

/-- `p·q' − p'·q` -/
def detSt (st : (Nat × Nat) × (Nat × Nat)) : Int :=
  (st.1.1 : Int) * st.2.2 - (st.1.2 : Int) * st.2.1

theorem detSt_init : detSt stdInit = 1 := by decide

theorem detSt_step (st : (Nat × Nat) × (Nat × Nat)) (a : Nat) :
    detSt (stdStep st a) = -detSt st := by
  simp only [detSt, stdStep]; push_cast; ring

theorem detSt_sq_step (st : (Nat × Nat) × (Nat × Nat)) (a : Nat) (h : detSt st ^ 2 = 1) :
    detSt (stdStep st a) ^ 2 = 1 := by
  rw [detSt_step, neg_sq, h]

theorem mob_sub (st : (Nat × Nat) × (Nat × Nat)) (s t : ℚ)
    (hs : 0 < (st.2.1 : ℚ) * s + st.2.2) (ht : 0 < (st.2.1 : ℚ) * t + st.2.2) :
    mob st s - mob st t
      = (detSt st : ℚ) * (s - t) / (((st.2.1 : ℚ) * s + st.2.2) * ((st.2.1 : ℚ) * t + st.2.2)) := by
  unfold mob detSt
  rw [div_sub_div _ _ (ne_of_gt hs) (ne_of_gt ht)]
  congr 1
  push_cast; ring

/-- with a unimodular state the distance of two images is `|s − t|/((q s + q')(q t + q'))` -/
theorem mob_dist (st : (Nat × Nat) × (Nat × Nat)) (hdet : detSt st ^ 2 = 1) (s t : ℚ)
    (hs : 0 < (st.2.1 : ℚ) * s + st.2.2) (ht : 0 < (st.2.1 : ℚ) * t + st.2.2) :
    |mob st s - mob st t|
      = |s - t| / (((st.2.1 : ℚ) * s + st.2.2) * ((st.2.1 : ℚ) * t + st.2.2)) := by
  rw [mob_sub st s t hs ht, abs_div, abs_mul, abs_of_pos (mul_pos hs ht)]
  have : |(detSt st : ℚ)| = 1 := by
    have h2 : (detSt st : ℚ) ^ 2 = 1 := by exact_mod_cast hdet
    have h3 : |(detSt st : ℚ)| ^ 2 = 1 := by rw [sq_abs]; exact h2
    exact (pow_eq_one_iff_of_nonneg (abs_nonneg _) (by norm_num)).mp h3
  rw [this, one_mul]

/-- absorbing the partial quotient `a`: the complete quotient `a + φ` of the old state is
    the complete quotient `1/φ` of the new one -/
theorem mob_step (st : (Nat × Nat) × (Nat × Nat)) (a : Nat) (φ : ℚ) (hφ : φ ≠ 0) :
    mob (stdStep st a) (1 / φ) = mob st (a + φ) := by
  unfold mob stdStep
  simp only
  push_cast
  have e1 : ((a : ℚ) * st.1.1 + st.1.2) * (1 / φ) + st.1.1
      = ((st.1.1 : ℚ) * (a + φ) + st.1.2) / φ := by field_simp; ring
  have e2 : ((a : ℚ) * st.2.1 + st.2.2) * (1 / φ) + st.2.1
      = ((st.2.1 : ℚ) * (a + φ) + st.2.2) / φ := by field_simp; ring
  rw [e1, e2, div_div_div_cancel_right₀ hφ]

/-- one correctly rounded reciprocal (`|ρ' − t| ≤ u·ρ'`) moves the image by at most
    `u/(q1·(q1 + q))` -/
theorem mob_round_step (st : (Nat × Nat) × (Nat × Nat)) (hdet : detSt st ^ 2 = 1)
    (hq1 : 1 ≤ st.2.1) (t ρ u : ℚ) (ht : 1 ≤ t) (hρ : 1 ≤ ρ) (hu : 0 ≤ u)
    (herr : |ρ - t| ≤ u * ρ) :
    |mob st ρ - mob st t| ≤ u / ((st.2.1 : ℚ) * ((st.2.1 : ℚ) + st.2.2)) := by
  have h1 : (1:ℚ) ≤ st.2.1 := by exact_mod_cast hq1
  have h0 : (0:ℚ) ≤ st.2.2 := Nat.cast_nonneg _
  set q1 : ℚ := ((st.2.1 : Nat) : ℚ)
  set q : ℚ := ((st.2.2 : Nat) : ℚ)
  have hA : 0 < q1 * ρ + q := by positivity
  have hB : 0 < q1 * t + q := by positivity
  rw [mob_dist st hdet ρ t hA hB, div_le_div_iff₀ (mul_pos hA hB) (by positivity)]
  have e1 : ρ * q1 ≤ q1 * ρ + q := by linarith
  have e2 : q1 + q ≤ q1 * t + q := by
    have := mul_le_mul_of_nonneg_left ht (show (0:ℚ) ≤ q1 by linarith)
    linarith
  have e3 : (ρ * q1) * (q1 + q) ≤ (q1 * ρ + q) * (q1 * t + q) :=
    mul_le_mul e1 e2 (by positivity) hA.le
  calc |ρ - t| * (q1 * (q1 + q)) ≤ (u * ρ) * (q1 * (q1 + q)) :=
        mul_le_mul_of_nonneg_right herr (by positivity)
    _ = u * ((ρ * q1) * (q1 + q)) := by ring
    _ ≤ u * ((q1 * ρ + q) * (q1 * t + q)) := mul_le_mul_of_nonneg_left e3 hu

/-- the budget still needed after the state `(q1, q)`: this step plus all later ones -/
def pot (q1 q : ℚ) : ℚ := 1 / (q1 * (q1 + q)) + 1 / (q1 + q)

theorem pot_step {q q1 q2 : ℚ} (hq : 0 ≤ q) (hq1 : 1 ≤ q1) (hq2 : q1 + q ≤ q2) :
    pot q2 q1 ≤ 1 / (q1 + q) := by
  unfold pot
  have hq2pos : 0 < q2 := by linarith
  have h1 : 1 / (q2 * (q2 + q1)) + 1 / (q2 + q1) = (1 + q2) / (q2 * (q2 + q1)) := by
    field_simp
  rw [h1, div_le_div_iff₀ (by positivity) (by linarith), one_mul]
  have e1 : q2 * q1 ≤ q2 * (q2 - q) := mul_le_mul_of_nonneg_left (by linarith) hq2pos.le
  have e2 : (q1 + q) * q1 ≤ q2 * q1 := mul_le_mul_of_nonneg_right hq2 (by linarith)
  have e3 : (q1 + q) * 1 ≤ (q1 + q) * q1 := mul_le_mul_of_nonneg_left hq1 (by linarith)
  nlinarith

/-! ## 3. one step of the float iteration -/

/-- `y` is a canonical finite non-zero value of the format `W` with the sign `sg` -/
structure SgnN (W : Sem) (sg : Bool) (y : Flt) : Prop where
  sem : y.sem = W
  can : y.Canonical
  cat : y.cat = .normal
  sign : y.sign = sg

theorem SgnN.mag_pos {W : Sem} {sg : Bool} {y : Flt} (h : SgnN W sg y) : 0 < y.mag :=
  Flt.mag_pos y h.cat h.can

theorem SgnN.abs_val {W : Sem} {sg : Bool} {y : Flt} (h : SgnN W sg y) : |y.val| = y.mag := by
  rw [Flt.val_normal h.cat]
  split
  · rw [abs_neg, abs_of_pos h.mag_pos]
  · rw [abs_of_pos h.mag_pos]

theorem sgnN_of_normal {x : Flt} (hx : x.cat = .normal) (hc : x.Canonical) :
    SgnN x.sem x.sign x := ⟨rfl, hc, hx, rfl⟩

/-- the truncation of `y`, as a value: a canonical zero or normal value of magnitude `⌊|y|⌋` -/
theorem trunc_mag {W : Sem} (hW : W.WF) {sg : Bool} {y : Flt} (h : SgnN W sg y) :
    ∃ z : Flt, y.trunc = z ∧ z.sem = W ∧ z.sign = sg ∧ z.Canonical ∧
      (z.cat = .normal ∨ z.cat = .zero) ∧ z.mag = (⌊y.mag⌋₊ : ℚ) ∧
      z.val = (if sg then -1 else 1) * (⌊y.mag⌋₊ : ℚ) := by
  have hF : y.sem.WF := h.sem ▸ hW
  obtain ⟨z, hz, hs, hsg, hzc, hfin, hv⟩ := C10.trunc_form y hF h.cat h.can
  have hfl : ((y.mag.floor : Int) : ℚ) = (⌊y.mag⌋₊ : ℚ) := by
    rw [show y.mag.floor = ⌊y.mag⌋ from rfl]
    exact (natCast_floor_eq_intCast_floor h.mag_pos.le).symm
  rw [hfl, h.sign] at hv
  refine ⟨z, hz, hs.trans h.sem, hsg.trans h.sign, hzc, hfin, ?_, hv⟩
  rcases hfin with hn | hn
  · rw [val_eq_sign_mul z hn, hsg, h.sign] at hv
    cases sg <;> simp at hv <;> exact hv
  · have hm := ((Flt.canonical_special (x := z) (by rw [hn]; simp)).mp hzc).2
    rw [Flt.val_zero hn] at hv
    have h0 : (⌊y.mag⌋₊ : ℚ) = 0 := by
      cases sg <;> simp at hv <;> simp [hv]
    rw [h0]; unfold Flt.mag; rw [hm]; simp

/-- the partial quotient the loop pushes is `⌊|y|⌋` -/
theorem trunc_quot {W : Sem} (hW : W.WF) {sg : Bool} {y : Flt} (h : SgnN W sg y) (rm : RM) :
    (y.trunc).convertNormalToInteger rm = ⌊y.mag⌋₊ := by
  obtain ⟨z, hz, hs, -, -, -, hmag, -⟩ := trunc_mag hW h
  rw [hz, C08.convertNormalToInteger_mag z rm (hs ▸ hW), hmag]
  have e1 : ((⌊y.mag⌋₊ : ℚ)).floor.toNat = ⌊y.mag⌋₊ := by
    rw [show ((⌊y.mag⌋₊ : ℚ)).floor = ⌊((⌊y.mag⌋₊ : Nat) : ℚ)⌋ from rfl, Int.floor_natCast]
    exact Int.toNat_natCast _
  rw [e1, sub_self, up_zero]; simp

/-- the fractional part of a representable magnitude is representable -/
theorem frac_isRep {W : Sem} (hW : W.WF) {sg : Bool} {y : Flt} (h : SgnN W sg y) :
    IsRep W (y.mag - (⌊y.mag⌋₊ : ℚ)) := by
  have hF : y.sem.WF := h.sem ▸ hW
  obtain ⟨he1, he2, hm0, hm1, hn⟩ := (Flt.canonical_normal h.cat).mp h.can
  rw [h.sem] at he1 he2 hm1 hn
  have hp := hW.2
  by_cases hE : 0 ≤ y.exp - ((y.sem.p - 1 : Nat) : Int)
  · obtain ⟨k, hk⟩ : ∃ k : Nat, y.exp - ((y.sem.p - 1 : Nat) : Int) = (k : Int) :=
      ⟨(y.exp - ((y.sem.p - 1 : Nat) : Int)).toNat, by omega⟩
    rw [mag_shiftLeft y hF k hk, Nat.floor_natCast, sub_self]
    exact IsRep.zero hW
  · obtain ⟨k, hk⟩ : ∃ k : Nat, y.exp - ((y.sem.p - 1 : Nat) : Int) = -(k : Int) :=
      ⟨(-(y.exp - ((y.sem.p - 1 : Nat) : Int))).toNat, by omega⟩
    obtain ⟨hfl, hfr⟩ := mag_floor_shiftRight y hF k hk
    have e1 : ⌊y.mag⌋₊ = y.mant >>> k := by
      rw [← hfl, show y.mag.floor = ⌊y.mag⌋ from rfl, Int.floor_toNat]
    rw [e1, hfr]
    have hk' : (k : Int) = ((W.p : Int) - 1) - y.exp := by
      rw [h.sem] at hk; omega
    have e2 : ((y.mant % 2 ^ k : Nat) : ℚ) / 2 ^ k
        = ((y.mant % 2 ^ k : Nat) : ℚ) * (2:ℚ) ^ (-(k:Int)) := by
      rw [zpow_neg, zpow_natCast, div_eq_mul_inv]
    rw [e2]
    have hmod : y.mant % 2 ^ k < 2 ^ k := Nat.mod_lt _ (by positivity)
    apply isRep_of_lt hW _ _ (lt_of_le_of_lt (Nat.mod_le _ _) hm1) (by omega)
    have hlt1 : ((y.mant % 2 ^ k : Nat) : ℚ) * (2:ℚ) ^ (-(k:Int)) < 1 := by
      rw [zpow_neg, zpow_natCast, ← div_eq_mul_inv, div_lt_one (by positivity)]
      exact_mod_cast hmod
    have h1le : (1:ℚ) ≤ (2:ℚ) ^ (W.emax + 1) :=
      one_le_zpow₀ (by norm_num) (by have := Sem.emax_pos hW; omega)
    linarith

theorem neg_sign_val (z : Flt) : ({ z with sign := !z.sign } : Flt).val = -z.val := by
  obtain ⟨s, sg, e, m, c⟩ := z
  cases c <;> cases sg <;> simp [Flt.val, Flt.mag]

/-- **`real − trunc(real)` is exact** (whenever the fraction is not zero) -/
theorem sub_trunc_exact {W : Sem} (hW : W.WF) {sg : Bool} {y : Flt} (h : SgnN W sg y)
    (hfr : (⌊y.mag⌋₊ : ℚ) < y.mag) :
    SgnN W sg (y.sub y.trunc) ∧ (y.sub y.trunc).mag = y.mag - (⌊y.mag⌋₊ : ℚ) := by
  have hF : y.sem.WF := h.sem ▸ hW
  obtain ⟨z, hz, hs, hsg, hzc, hfin, hmag, hval⟩ := trunc_mag hW h
  rw [hz]
  have hsz : z.sem = y.sem := hs.trans h.sem.symm
  have hc := C01.sub_correct y z y.sem.rm hF hsz h.can hzc
  obtain ⟨hcan, hsem⟩ := sub_canonical y z hF hsz h.can hzc
  set D := y.mag - (⌊y.mag⌋₊ : ℚ) with hD
  have hDpos : 0 < D := by rw [hD]; linarith
  have hzn : z.cat ≠ .nan := by rcases hfin with h' | h' <;> rw [h'] <;> simp
  have hzi : z.cat ≠ .inf := by rcases hfin with h' | h' <;> rw [h'] <;> simp
  have hsum : y.val + ({ z with sign := !z.sign } : Flt).val = (if sg then -1 else 1) * D := by
    rw [neg_sign_val, hval, val_eq_sign_mul y h.cat, h.sign, hD]; ring
  have hspec : Spec.sub y.sem y.sem.rm y z = Spec.round W y.sem.rm sg D := by
    unfold Spec.sub Spec.add
    simp only [Spec.isNan, Spec.isInf, Spec.isZero, h.cat]
    have e1 : (z.cat == Cat.nan) = false := by cases hc' : z.cat <;> simp_all
    have e2 : (z.cat == Cat.inf) = false := by cases hc' : z.cat <;> simp_all
    simp only [e1, e2, show (Cat.normal == Cat.nan) = false from rfl,
      show (Cat.normal == Cat.inf) = false from rfl, show (Cat.normal == Cat.zero) = false from rfl,
      Bool.or_self, Bool.false_and, Bool.and_self, Bool.false_eq_true, if_false]
    rw [hsum, h.sem]
    unfold Spec.roundQ
    cases sg
    · simp only [Bool.false_eq_true, if_false, one_mul]
      rw [if_neg (ne_of_gt hDpos), if_pos hDpos]
    · simp only [if_true]
      rw [if_neg (by linarith), if_neg (by linarith)]
      congr 1; ring
  rw [hspec] at hc
  obtain ⟨e, m, hr, hv⟩ := round_exact hW hDpos (frac_isRep hW h) y.sem.rm sg
  rw [hr] at hc
  have hy' := Flt.eq_of_toRes_fin (hsem.trans h.sem) hc
  have hy'' : y.sub z = ⟨W, sg, e, m, .normal⟩ := hy'
  refine ⟨⟨hsem.trans h.sem, hcan, ?_, ?_⟩, ?_⟩
  · rw [hy'']
  · rw [hy'']
  · rw [hy'', Flt.mag_eq]; exact hv

/-- a rounding result between two representable magnitudes is finite and between them -/
theorem round_between_sg {F : Sem} (hF : F.WF) (rm : RM) (neg : Bool) {lo hi q : ℚ}
    (hlo0 : 0 < lo) (hlo : IsRep F lo) (hhi : IsRep F hi) (h1 : lo ≤ q) (h2 : q ≤ hi) :
    ∃ e m, Spec.round F rm neg q = .fin neg e m ∧ lo ≤ (m:ℚ) * F.ulp e ∧ (m:ℚ) * F.ulp e ≤ hi := by
  have hq : 0 < q := lt_of_lt_of_le hlo0 h1
  have hhi0 : 0 < hi := lt_of_lt_of_le hq h2
  have k1 := round_mono hF hlo0 h1 rm neg
  have k2 := round_mono hF hq h2 rm neg
  obtain ⟨e1, m1, hr1, hv1⟩ := round_exact hF hlo0 hlo rm neg
  obtain ⟨e2, m2, hr2, hv2⟩ := round_exact hF hhi0 hhi rm neg
  rw [hr1, Res.key_fin, Sem.ulp_def, hv1] at k1
  rw [hr2, Res.key_fin, Sem.ulp_def, hv2] at k2
  rcases round_cases hF hq rm neg with h | h | ⟨e, m, h⟩
  · rw [h] at k1; simp only [Res.key] at k1
    have : lo ≤ 0 := by exact_mod_cast k1
    linarith
  · rw [h] at k2; simp only [Res.key] at k2
    exact absurd k2 (by simp)
  · refine ⟨e, m, h, ?_, ?_⟩
    · rw [h, Res.key_fin] at k1; exact_mod_cast k1
    · rw [h, Res.key_fin] at k2; exact_mod_cast k2

/-- **one correctly rounded reciprocal** in nearest-even mode: for `|b| ≤ 1` with
    `1/|b| ≤ 2^emax` the quotient `1/b` is a finite value of the sign of `b`, at least one in
    magnitude, with relative error at most `2^-p` (relative to the result). -/
theorem one_div_step {W : Sem} (hW : W.WF) (hrm : W.rm = .nte) {sg : Bool} {b : Flt}
    (h : SgnN W sg b) (h1 : b.mag ≤ 1) (h2 : 1 / b.mag ≤ (2:ℚ) ^ W.emax) :
    SgnN W sg ((Flt.one W false).div b) ∧ 1 ≤ ((Flt.one W false).div b).mag ∧
      ((Flt.one W false).div b).mag ≤ (2:ℚ) ^ W.emax ∧
      |((Flt.one W false).div b).mag - 1 / b.mag|
        ≤ (2:ℚ) ^ (-(W.p:Int)) * ((Flt.one W false).div b).mag := by
  set one := Flt.one W false with hone
  have hos : one.sem = W := rfl
  have hF1 : one.sem.WF := hW
  have hbpos := h.mag_pos
  have ht1 : 1 ≤ 1 / b.mag := by rw [le_div_iff₀ hbpos]; linarith
  have hc := C01.div_correct one b one.sem.rm hF1 (h.sem.trans hos.symm)
    (Flt.one_canonical W false hW) h.can
  obtain ⟨hcan, hsem⟩ := div_canonical one b hF1
  have hspec : Spec.div one.sem one.sem.rm one b = Spec.round W .nte sg (1 / b.mag) := by
    unfold Spec.div
    simp only [Spec.isNan, Spec.isInf, Spec.isZero, h.cat, h.sign, hos, hrm]
    rw [show one.cat = .normal from rfl, show one.sign = false from rfl, one_mag W false hW]
    simp
  rw [hspec] at hc
  have hp := hW.2
  have hemin := Sem.emin_le_zero hW
  have hemax := Sem.emax_pos hW
  have hrep1 : IsRep W 1 := by
    have := isRep_pow hW 0 (by omega) (by omega)
    simpa using this
  have hrepM : IsRep W ((2:ℚ) ^ W.emax) := isRep_pow hW W.emax (by omega) (le_refl _)
  obtain ⟨e, m, hr, hlo, hhi⟩ :=
    round_between_sg hW .nte sg one_pos hrep1 hrepM ht1 h2
  rw [hr] at hc
  have hy' : one.div b = ⟨W, sg, e, m, .normal⟩ := Flt.eq_of_toRes_fin (hsem.trans hos) hc
  have hmag : (one.div b).mag = (m:ℚ) * W.ulp e := by rw [hy', Flt.mag_eq, Sem.ulp_def]
  refine ⟨⟨hsem.trans hos, hcan, by rw [hy'], by rw [hy']⟩, by rw [hmag]; exact hlo,
    by rw [hmag]; exact hhi, ?_⟩
  have hhalf := within_half_ulp hW (lt_of_lt_of_le one_pos ht1) (Or.inl rfl) sg hr
  rw [← Sem.ulp_def] at hhalf
  rw [hmag]
  refine le_trans hhalf ?_
  obtain ⟨-, -, -, -, -, hnorm⟩ := round_mem hW (lt_of_lt_of_le one_pos ht1) .nte sg hr
  rcases hnorm with hm | he
  · -- normal result: m ≥ 2^(p-1)
    have hmq : (2:ℚ) ^ (W.p - 1) ≤ (m:ℚ) := by exact_mod_cast hm
    have e1 : (2:ℚ) ^ (-(W.p:Int)) * (2:ℚ) ^ (W.p - 1) = 1 / 2 := by
      rw [← zpow_natCast, ← zpow_add₀ (by norm_num : (2:ℚ) ≠ 0)]
      rw [show -(W.p:Int) + ((W.p - 1 : Nat) : Int) = -1 by omega]; norm_num
    have hu := W.ulp_pos e
    calc W.ulp e / 2 = ((2:ℚ) ^ (-(W.p:Int)) * (2:ℚ) ^ (W.p - 1)) * W.ulp e := by rw [e1]; ring
      _ ≤ ((2:ℚ) ^ (-(W.p:Int)) * (m:ℚ)) * W.ulp e :=
          mul_le_mul_of_nonneg_right (mul_le_mul_of_nonneg_left hmq (by positivity)) hu.le
      _ = (2:ℚ) ^ (-(W.p:Int)) * ((m:ℚ) * W.ulp e) := by ring
  · -- subnormal exponent: ulp/2 ≤ 2^-p
    have e1 : W.ulp e / 2 ≤ (2:ℚ) ^ (-(W.p:Int)) := by
      rw [← half_ulp, he]
      exact zpow_le_zpow_right₀ (by norm_num) (by omega)
    calc W.ulp e / 2 ≤ (2:ℚ) ^ (-(W.p:Int)) * 1 := by rw [mul_one]; exact e1
      _ ≤ (2:ℚ) ^ (-(W.p:Int)) * ((m:ℚ) * W.ulp e) :=
          mul_le_mul_of_nonneg_left hlo (by positivity)

/-- **one iteration of the loop**, given that the iterate lies strictly inside the unit
    interval `(a, a+1)` and that the reciprocal of its fraction does not overflow -/
theorem frac_step {W : Sem} (hW : W.WF) (hrm : W.rm = .nte) {sg : Bool} {ρ : Flt}
    (h : SgnN W sg ρ) (a : Nat) (h1 : (a:ℚ) < ρ.mag) (h2 : ρ.mag < a + 1)
    (h3 : 1 / (ρ.mag - a) ≤ (2:ℚ) ^ W.emax) :
    ⌊ρ.mag⌋₊ = a ∧
    SgnN W sg ((Flt.one W false).div (ρ.sub ρ.trunc)) ∧
      1 ≤ ((Flt.one W false).div (ρ.sub ρ.trunc)).mag ∧
      |((Flt.one W false).div (ρ.sub ρ.trunc)).mag - 1 / (ρ.mag - a)|
        ≤ (2:ℚ) ^ (-(W.p:Int)) * ((Flt.one W false).div (ρ.sub ρ.trunc)).mag := by
  have hfl : ⌊ρ.mag⌋₊ = a := (Nat.floor_eq_iff h.mag_pos.le).mpr ⟨h1.le, h2⟩
  obtain ⟨hs, hsm⟩ := sub_trunc_exact hW h (by rw [hfl]; exact h1)
  rw [hfl] at hsm
  obtain ⟨hd, hd1, -, hderr⟩ := one_div_step hW hrm hs (by rw [hsm]; linarith) (by rw [hsm]; exact h3)
  rw [hsm] at hderr
  exact ⟨hfl, hd, hd1, hderr⟩

/-! ## 4. the exact expansion: bookkeeping on `cfTerms` -/

theorem cfTerms_length_le (r : ℚ) (n : Nat) : (cfTerms r n).length ≤ n := by
  induction n generalizing r with
  | zero => simp [cfTerms]
  | succ n ih =>
    rw [cfTerms]; split
    · simp
    · simp only [List.length_cons]; have := ih (1 / (r - (⌊r⌋₊ : ℚ))); omega

/-- a full-length expansion: the fraction of `r` does not vanish and the tail is full-length -/
theorem cfTerms_full (r : ℚ) (m : Nat) (h : (cfTerms r (m + 2)).length = m + 2) :
    r - (⌊r⌋₊ : ℚ) ≠ 0 ∧ cfTerms r (m + 2) = ⌊r⌋₊ :: cfTerms (1 / (r - (⌊r⌋₊ : ℚ))) (m + 1) ∧
      (cfTerms (1 / (r - (⌊r⌋₊ : ℚ))) (m + 1)).length = m + 1 := by
  have hf : r - (⌊r⌋₊ : ℚ) ≠ 0 := by
    intro hf
    rw [cfTerms, if_pos hf] at h
    simp at h
  have hc : cfTerms r (m + 2) = ⌊r⌋₊ :: cfTerms (1 / (r - (⌊r⌋₊ : ℚ))) (m + 1) := by
    rw [cfTerms, if_neg hf]
  refine ⟨hf, hc, ?_⟩
  rw [hc] at h; simpa using h

theorem cfTerms_succ (r : ℚ) (n : Nat) (hf : r - (⌊r⌋₊ : ℚ) ≠ 0) :
    cfTerms r (n + 1) = ⌊r⌋₊ :: cfTerms (1 / (r - (⌊r⌋₊ : ℚ))) n := by
  rw [cfTerms, if_neg hf]

/-- every term of the expansion of a number `≥ 1` is positive -/
theorem cfTerms_pos (r : ℚ) (hr : 1 ≤ r) (n : Nat) : ∀ a ∈ cfTerms r n, 1 ≤ a := by
  intro a ha
  cases n with
  | zero => simp [cfTerms] at ha
  | succ n =>
    have htail := cfTerms_tail_pos r (by linarith) (n + 1)
    have hhead : 1 ≤ ⌊r⌋₊ := Nat.floor_pos.mpr hr
    rw [cfTerms] at ha htail
    split at ha
    · simp only [List.mem_singleton] at ha; omega
    · rename_i hf
      rw [if_neg hf] at htail
      rcases List.mem_cons.mp ha with h | h
      · omega
      · exact htail a (by simpa using h)

/-- the fraction of a non-integer and its reciprocal -/
theorem frac_facts (r : ℚ) (hr : 0 ≤ r) (hf : r - (⌊r⌋₊ : ℚ) ≠ 0) :
    0 < r - (⌊r⌋₊ : ℚ) ∧ r - (⌊r⌋₊ : ℚ) < 1 ∧ 1 < 1 / (r - (⌊r⌋₊ : ℚ)) := by
  have h1 : (⌊r⌋₊ : ℚ) ≤ r := Nat.floor_le hr
  have h2 : r < ⌊r⌋₊ + 1 := Nat.lt_floor_add_one r
  have h3 : 0 < r - (⌊r⌋₊ : ℚ) := lt_of_le_of_ne (by linarith) (Ne.symm hf)
  refine ⟨h3, by linarith, ?_⟩
  rw [lt_div_iff₀ h3]; linarith

/-- the denominators do not decrease when further positive quotients are absorbed -/
theorem foldl_den_mono (l : List Nat) (hl : ∀ a ∈ l, 1 ≤ a) (st : (Nat × Nat) × (Nat × Nat)) :
    st.2.1 ≤ (l.foldl stdStep st).2.1 := by
  induction l generalizing st with
  | nil => simp
  | cons a l ih =>
    rw [List.foldl_cons]
    have h1 := ih (fun c hc => hl c (by simp [hc])) (stdStep st a)
    have ha := hl a (by simp)
    have h2 : st.2.1 ≤ (stdStep st a).2.1 := by
      simp only [stdStep]
      calc st.2.1 = 1 * st.2.1 := (Nat.one_mul _).symm
        _ ≤ a * st.2.1 := Nat.mul_le_mul_right _ ha
        _ ≤ a * st.2.1 + st.2.2 := Nat.le_add_right _ _
    omega

/-- with at least two terms and a state whose last denominator is positive, the final
    denominator exceeds the first partial quotient -/
theorem quot_succ_le_den (st : (Nat × Nat) × (Nat × Nat)) (hq1 : 1 ≤ st.2.1) (r : ℚ) (hr : 1 < r)
    (m : Nat) (hlen : (cfTerms r (m + 2)).length = m + 2) :
    ⌊r⌋₊ + 1 ≤ ((cfTerms r (m + 2)).foldl stdStep st).2.1 := by
  obtain ⟨hf, hc, hlen'⟩ := cfTerms_full r m hlen
  obtain ⟨-, -, hr'⟩ := frac_facts r (by linarith) hf
  set r' := 1 / (r - (⌊r⌋₊ : ℚ)) with hr'def
  have hpos := cfTerms_pos r' hr'.le (m + 1)
  obtain ⟨b, l, hbl⟩ : ∃ b l, cfTerms r' (m + 1) = b :: l := by
    cases hc' : cfTerms r' (m + 1) with
    | nil => exact absurd hc' (cfTerms_ne_nil _ _)
    | cons b l => exact ⟨b, l, rfl⟩
  rw [hc, hbl, List.foldl_cons, List.foldl_cons]
  have hb : 1 ≤ b := hpos b (by rw [hbl]; simp)
  have hmono := foldl_den_mono l (fun c hc => hpos c (by rw [hbl]; simp [hc]))
    (stdStep (stdStep st ⌊r⌋₊) b)
  refine le_trans ?_ hmono
  simp only [stdStep]
  have h1 : ⌊r⌋₊ * 1 ≤ ⌊r⌋₊ * st.2.1 := Nat.mul_le_mul_left _ hq1
  have h2 : 1 * (⌊r⌋₊ * st.2.1 + st.2.2) ≤ b * (⌊r⌋₊ * st.2.1 + st.2.2) :=
    Nat.mul_le_mul_right _ hb
  omega

/-- `floor_eq_of_close` along the exact expansion: with at least three more terms, a point
    `s ≥ 1` whose image is within `1/(3Q²)` of `x` (`Q` any later denominator) has the same
    integer part as the exact complete quotient `r`, strictly -/
theorem floor_close_cf (st : (Nat × Nat) × (Nat × Nat)) (hdet : detSt st ^ 2 = 1)
    (hqq : 1 ≤ st.2.1 + st.2.2) (r : ℚ) (hr : 1 < r) (m : Nat)
    (hlen : (cfTerms r (m + 3)).length = m + 3) (s : ℚ) (hs : 1 ≤ s)
    (hE : |mob st s - mob st r|
      < 1 / (3 * (((cfTerms r (m + 3)).foldl stdStep st).2.1 : ℚ) ^ 2)) :
    (⌊r⌋₊ : ℚ) < s ∧ s < ⌊r⌋₊ + 1 := by
  obtain ⟨hf, hc, hlen'⟩ := cfTerms_full r (m + 1) hlen
  obtain ⟨hf0, hf1, hr'⟩ := frac_facts r (by linarith) hf
  set a := ⌊r⌋₊ with ha
  set r' := 1 / (r - (a : ℚ)) with hr'def
  obtain ⟨hf', hc', hlen''⟩ := cfTerms_full r' m hlen'
  obtain ⟨hf'0, hf'1, hr''⟩ := frac_facts r' (by linarith) hf'
  set a' := ⌊r'⌋₊ with ha'
  set r'' := 1 / (r' - (a' : ℚ)) with hr''def
  have hpos := cfTerms_pos r'' hr''.le (m + 1)
  obtain ⟨l, hl⟩ : ∃ l, cfTerms r'' (m + 1) = ⌊r''⌋₊ :: l := by
    rw [cfTerms]; split
    · exact ⟨[], rfl⟩
    · exact ⟨_, rfl⟩
  set a'' := ⌊r''⌋₊ with ha''
  have ha1 : 1 ≤ a := Nat.floor_pos.mpr hr.le
  have ha'1 : 1 ≤ a' := Nat.floor_pos.mpr hr'.le
  have ha''1 : 1 ≤ a'' := Nat.floor_pos.mpr hr''.le
  -- the final denominator dominates q3
  have hQ : (stdStep (stdStep (stdStep st a) a') a'').2.1
      ≤ ((cfTerms r (m + 3)).foldl stdStep st).2.1 := by
    rw [hc, hc', hl, List.foldl_cons, List.foldl_cons, List.foldl_cons]
    exact foldl_den_mono l (fun c hc => hpos c (by rw [hl]; simp [hc])) _
  have hq3 : (((stdStep (stdStep (stdStep st a) a') a'').2.1 : Nat) : ℚ)
      = (a'':ℚ) * ((a':ℚ) * ((a:ℚ) * st.2.1 + st.2.2) + st.2.1) + ((a:ℚ) * st.2.1 + st.2.2) := by
    simp only [stdStep]; push_cast; ring
  have hq3pos : (0:ℚ) < (((stdStep (stdStep (stdStep st a) a') a'').2.1 : Nat) : ℚ) := by
    rw [hq3]
    have h1 : (1:ℚ) ≤ a := by exact_mod_cast ha1
    have h2 : (1:ℚ) ≤ (st.2.1 : ℚ) + st.2.2 := by exact_mod_cast hqq
    have h3 : (0:ℚ) ≤ (st.2.1 : ℚ) := Nat.cast_nonneg _
    have h4 : (0:ℚ) ≤ (st.2.2 : ℚ) := Nat.cast_nonneg _
    have : (1:ℚ) * st.2.1 ≤ (a:ℚ) * st.2.1 := mul_le_mul_of_nonneg_right h1 h3
    have h5 : (0:ℚ) < (a:ℚ) * st.2.1 + st.2.2 := by linarith
    positivity
  have hQq : (((stdStep (stdStep (stdStep st a) a') a'').2.1 : Nat) : ℚ)
      ≤ (((cfTerms r (m + 3)).foldl stdStep st).2.1 : ℚ) := by exact_mod_cast hQ
  have hE2 : |mob st s - mob st r|
      < 1 / (3 * (((stdStep (stdStep (stdStep st a) a') a'').2.1 : Nat) : ℚ) ^ 2) := by
    refine lt_of_lt_of_le hE ?_
    apply one_div_le_one_div_of_le (by positivity)
    have := pow_le_pow_left₀ hq3pos.le hQq 2
    linarith
  have hsden : 0 < (st.2.1 : ℚ) * s + st.2.2 := by
    have h2 : (1:ℚ) ≤ (st.2.1 : ℚ) + st.2.2 := by exact_mod_cast hqq
    have h3 : (0:ℚ) ≤ (st.2.1 : ℚ) := Nat.cast_nonneg _
    have := mul_le_mul_of_nonneg_left hs h3
    linarith
  have hrden : 0 < (st.2.1 : ℚ) * r + st.2.2 := by
    have h2 : (1:ℚ) ≤ (st.2.1 : ℚ) + st.2.2 := by exact_mod_cast hqq
    have h3 : (0:ℚ) ≤ (st.2.1 : ℚ) := Nat.cast_nonneg _
    have := mul_le_mul_of_nonneg_left hr.le h3
    linarith
  rw [mob_dist st hdet s r hsden hrden, hq3] at hE2
  have hra : r = (a:ℚ) + (r - a) := by ring
  rw [hra] at hE2
  have hfr' : (r - (a:ℚ)) * ((a':ℚ) + (r' - a')) = 1 := by
    have : (a':ℚ) + (r' - a') = r' := by ring
    rw [this, hr'def]; field_simp
  have hf'r'' : (r' - (a':ℚ)) * r'' = 1 := by
    rw [hr''def]; field_simp
  exact floor_eq_of_close (st.2.1 : ℚ) (st.2.2 : ℚ) a a' a'' (r - a) (r' - a') r'' s
    (Nat.cast_nonneg _) (by exact_mod_cast hqq) (by exact_mod_cast ha1)
    (by exact_mod_cast ha'1) (by exact_mod_cast ha''1) hf0 hf'0 hf'1 hfr' hf'r''
    (Nat.lt_floor_add_one r'') hs hE2

/-! ## 5. the induction: computed quotients = exact quotients -/

theorem fracQuot_zero (one : Flt) (rm : RM) (x : Flt) :
    fracQuot one rm x 0 = x.trunc.convertNormalToInteger rm := rfl

theorem fracQuot_succ (one : Flt) (rm : RM) (x : Flt) (i : Nat) :
    fracQuot one rm x (i + 1) = fracQuot one rm (one.div (x.sub x.trunc)) i := rfl

theorem map_fracQuot_succ (one : Flt) (rm : RM) (x : Flt) (k : Nat) :
    (List.range (k + 1)).map (fracQuot one rm x)
      = x.trunc.convertNormalToInteger rm
        :: (List.range k).map (fracQuot one rm (one.div (x.sub x.trunc))) := by
  rw [List.range_succ_eq_map, List.map_cons, List.map_map]
  rfl

/-- **Main induction.**  `ρ` is the float iterate, `r > 1` the exact complete quotient, `st`
    the state of the convergent recurrence (so that `mob st r = |x|`); the exact expansion of
    `r` has `k + 2` terms and leads to the denominator `Q ≤ 2^emax`.  If the image of `ρ` is
    within `1/(3Q²)` of `|x|`, with room for the roundings still to come
    (`2^-p · pot …`), then the next `k` computed partial quotients are the exact ones. -/
theorem quot_agree {W : Sem} (hW : W.WF) (hrm : W.rm = .nte) (sg : Bool) (rm' : RM) :
    ∀ (k : Nat) (ρ : Flt) (r : ℚ) (st : (Nat × Nat) × (Nat × Nat)),
      SgnN W sg ρ → 1 ≤ ρ.mag → 1 < r → (cfTerms r (k + 2)).length = k + 2 →
      detSt st ^ 2 = 1 → 1 ≤ st.2.1 + st.2.2 →
      |mob st ρ.mag - mob st r|
          + (2:ℚ) ^ (-(W.p:Int)) * pot ((stdStep st ⌊r⌋₊).2.1 : ℚ) ((stdStep st ⌊r⌋₊).2.2 : ℚ)
        < 1 / (3 * (((cfTerms r (k + 2)).foldl stdStep st).2.1 : ℚ) ^ 2) →
      (((cfTerms r (k + 2)).foldl stdStep st).2.1 : ℚ) ≤ (2:ℚ) ^ W.emax →
      (List.range k).map (fracQuot (Flt.one W false) rm' ρ) = cfTerms r k := by
  intro k
  induction k with
  | zero => intros; rfl
  | succ k ih =>
    intro ρ r st hρ hρ1 hr hlen hdet hqq hE hQ
    obtain ⟨hf, hc, hlen'⟩ := cfTerms_full r (k + 1) hlen
    obtain ⟨hf0, hf1, hr'⟩ := frac_facts r (by linarith) hf
    set a := ⌊r⌋₊ with ha
    set r' := 1 / (r - (a : ℚ)) with hr'def
    set u := (2:ℚ) ^ (-(W.p:Int)) with hu
    have hupos : 0 < u := by rw [hu]; positivity
    have ha1 : 1 ≤ a := Nat.floor_pos.mpr hr.le
    -- the state after absorbing `a`
    set st' := stdStep st a with hst'
    have hq1nat : 1 ≤ st'.2.1 := by
      simp only [hst', stdStep]
      have : 1 * st.2.1 ≤ a * st.2.1 := Nat.mul_le_mul_right _ ha1
      omega
    have hq1 : (1:ℚ) ≤ (st'.2.1 : ℚ) := by exact_mod_cast hq1nat
    have hq0 : (0:ℚ) ≤ (st'.2.2 : ℚ) := Nat.cast_nonneg _
    have hpotnn : 0 ≤ pot (st'.2.1 : ℚ) (st'.2.2 : ℚ) := by unfold pot; positivity
    -- the integer part of the float iterate is `a`
    have hE1 : |mob st ρ.mag - mob st r|
        < 1 / (3 * (((cfTerms r (k + 3)).foldl stdStep st).2.1 : ℚ) ^ 2) := by
      have := mul_nonneg hupos.le hpotnn
      linarith
    obtain ⟨hlo, hhi⟩ := floor_close_cf st hdet hqq r hr k hlen ρ.mag hρ1 hE1
    rw [map_fracQuot_succ, cfTerms_succ r k hf, trunc_quot hW hρ,
      (Nat.floor_eq_iff hρ.mag_pos.le).mpr ⟨hlo.le, hhi⟩]
    congr 1
    cases k with
    | zero => rfl
    | succ k =>
      -- the unrounded reciprocal `t` and its bound
      set φ := ρ.mag - (a:ℚ) with hφ
      have hφ0 : 0 < φ := by rw [hφ]; linarith
      have hφ1 : φ < 1 := by rw [hφ]; linarith
      set t := 1 / φ with ht
      have ht1 : 1 ≤ t := by rw [ht, le_div_iff₀ hφ0]; linarith
      have hc4 : cfTerms r (k + 4) = a :: cfTerms r' (k + 3) := hc
      have hlen3 : (cfTerms r' (k + 3)).length = k + 3 := hlen'
      have hQeq : (cfTerms r (k + 4)).foldl stdStep st
          = (cfTerms r' (k + 3)).foldl stdStep st' := by
        rw [hc4, List.foldl_cons]
      have hmt : mob st' t = mob st ρ.mag := by
        rw [ht, mob_step st a φ (ne_of_gt hφ0), hφ]; congr 1; ring
      have hmr : mob st' r' = mob st r := by
        rw [hr'def, mob_step st a (r - a) hf]; congr 1; ring
      have hdet' : detSt st' ^ 2 = 1 := detSt_sq_step st a hdet
      have hqq' : 1 ≤ st'.2.1 + st'.2.2 := by omega
      have hE4 : |mob st ρ.mag - mob st r| + u * pot (st'.2.1 : ℚ) (st'.2.2 : ℚ)
          < 1 / (3 * (((cfTerms r (k + 4)).foldl stdStep st).2.1 : ℚ) ^ 2) := hE
      have hE14 : |mob st ρ.mag - mob st r|
          < 1 / (3 * (((cfTerms r (k + 4)).foldl stdStep st).2.1 : ℚ) ^ 2) := hE1
      have hQ4 : (((cfTerms r (k + 4)).foldl stdStep st).2.1 : ℚ) ≤ (2:ℚ) ^ W.emax := hQ
      rw [hQeq] at hE4 hE14 hQ4
      have hEt : |mob st' t - mob st' r'|
          < 1 / (3 * (((cfTerms r' (k + 3)).foldl stdStep st').2.1 : ℚ) ^ 2) := by
        rw [hmt, hmr]; exact hE14
      obtain ⟨-, hthi⟩ := floor_close_cf st' hdet' hqq' r' hr' k hlen3 t ht1 hEt
      have hden := quot_succ_le_den st' hq1nat r' hr' (k + 1) hlen3
      have hdenq : ((⌊r'⌋₊ : ℚ)) + 1 ≤ (((cfTerms r' (k + 3)).foldl stdStep st').2.1 : ℚ) := by
        exact_mod_cast hden
      have htmax : t ≤ (2:ℚ) ^ W.emax := by linarith
      -- the float step
      obtain ⟨-, hρ', hρ'1, herr⟩ := frac_step hW hrm hρ a hlo hhi htmax
      set ρ' := (Flt.one W false).div (ρ.sub ρ.trunc) with hρ'def
      -- error propagation
      have hstep := mob_round_step st' hdet' hq1nat t ρ'.mag u ht1 hρ'1 hupos.le herr
      have htri : |mob st' ρ'.mag - mob st' r'|
          ≤ |mob st' ρ'.mag - mob st' t| + |mob st' t - mob st' r'| := abs_sub_le _ _ _
      have hsame : |mob st' t - mob st' r'| = |mob st ρ.mag - mob st r| := by rw [hmt, hmr]
      -- the potential decreases
      set a' := ⌊r'⌋₊ with ha'
      have ha'1 : 1 ≤ a' := Nat.floor_pos.mpr hr'.le
      have hq2 : ((stdStep st' a').2.1 : ℚ) = (a':ℚ) * st'.2.1 + st'.2.2 := by
        simp only [stdStep]; push_cast; ring
      have hq2' : ((stdStep st' a').2.2 : ℚ) = (st'.2.1 : ℚ) := by simp only [stdStep]
      have hpot : pot ((stdStep st' a').2.1 : ℚ) ((stdStep st' a').2.2 : ℚ)
          ≤ 1 / ((st'.2.1 : ℚ) + st'.2.2) := by
        rw [hq2']
        apply pot_step hq0 hq1
        rw [hq2]
        have h1 : (1:ℚ) ≤ a' := by exact_mod_cast ha'1
        have := mul_le_mul_of_nonneg_right h1 (show (0:ℚ) ≤ (st'.2.1 : ℚ) by linarith)
        linarith
      have hpot0 : pot (st'.2.1 : ℚ) (st'.2.2 : ℚ)
          = 1 / ((st'.2.1 : ℚ) * ((st'.2.1 : ℚ) + st'.2.2)) + 1 / ((st'.2.1 : ℚ) + st'.2.2) := rfl
      have hbudget : |mob st' ρ'.mag - mob st' r'|
            + u * pot ((stdStep st' a').2.1 : ℚ) ((stdStep st' a').2.2 : ℚ)
          < 1 / (3 * (((cfTerms r' (k + 3)).foldl stdStep st').2.1 : ℚ) ^ 2) := by
        have h1 : u * pot ((stdStep st' a').2.1 : ℚ) ((stdStep st' a').2.2 : ℚ)
            ≤ u * (1 / ((st'.2.1 : ℚ) + st'.2.2)) := mul_le_mul_of_nonneg_left hpot hupos.le
        have h2 : u * pot (st'.2.1 : ℚ) (st'.2.2 : ℚ)
            = u / ((st'.2.1 : ℚ) * ((st'.2.1 : ℚ) + st'.2.2)) + u * (1 / ((st'.2.1 : ℚ) + st'.2.2)) := by
          rw [hpot0]; ring
        linarith
      exact ih ρ' r' st' hρ' hρ'1 hr' hlen3 hdet' hqq' hbudget hQ4

/-! ## 6. the first step and the numeric budget -/

theorem foldl_den_pos (st : (Nat × Nat) × (Nat × Nat)) (hqq : 1 ≤ st.2.1 + st.2.2) (r : ℚ)
    (hr : 1 ≤ r) (m : Nat) : 1 ≤ ((cfTerms r (m + 1)).foldl stdStep st).2.1 := by
  have hpos := cfTerms_pos r hr (m + 1)
  obtain ⟨b, l, hbl⟩ : ∃ b l, cfTerms r (m + 1) = b :: l := by
    cases hc' : cfTerms r (m + 1) with
    | nil => exact absurd hc' (cfTerms_ne_nil _ _)
    | cons b l => exact ⟨b, l, rfl⟩
  rw [hbl, List.foldl_cons]
  have hb : 1 ≤ b := hpos b (by rw [hbl]; simp)
  have hmono := foldl_den_mono l (fun c hc => hpos c (by rw [hbl]; simp [hc])) (stdStep st b)
  refine le_trans ?_ hmono
  simp only [stdStep]
  have : 1 * st.2.1 ≤ b * st.2.1 := Nat.mul_le_mul_right _ hb
  omega

/-- `Q²·ulp ≤ 2^-8` leaves room for a perturbation of three ulps -/
theorem budget_ok {Q ulp c : ℚ} (hQ : 0 < Q) (h : Q ^ 2 * ulp ≤ (2:ℚ) ^ (-8 : Int))
    (hc : c ≤ 3 * ulp) : c < 1 / (3 * Q ^ 2) := by
  rw [lt_div_iff₀ (by positivity)]
  have h8 : (2:ℚ) ^ (-8 : Int) = 1 / 256 := by norm_num
  rw [h8] at h
  have h1 : c * (3 * Q ^ 2) ≤ (3 * ulp) * (3 * Q ^ 2) :=
    mul_le_mul_of_nonneg_right hc (by positivity)
  have h2 : (3 * ulp) * (3 * Q ^ 2) = 9 * (Q ^ 2 * ulp) := by ring
  linarith

/-- `|x|·2^-p < ulp(x)` -/
theorem mag_mul_u_lt {W : Sem} {sg : Bool} {x : Flt} (h : SgnN W sg x) :
    x.mag * (2:ℚ) ^ (-(W.p:Int)) < W.ulp x.exp := by
  obtain ⟨-, -, -, hm1, -⟩ := (Flt.canonical_normal h.cat).mp h.can
  rw [h.sem] at hm1
  have hmq : (x.mant : ℚ) < (2:ℚ) ^ W.p := by exact_mod_cast hm1
  have hu := W.ulp_pos x.exp
  rw [Flt.mag_eq, h.sem, ← Sem.ulp_def]
  have e1 : (2:ℚ) ^ W.p * (2:ℚ) ^ (-(W.p:Int)) = 1 := by
    rw [← zpow_natCast, ← zpow_add₀ (by norm_num : (2:ℚ) ≠ 0)]; simp
  have hupos : (0:ℚ) < (2:ℚ) ^ (-(W.p:Int)) := by positivity
  calc (x.mant : ℚ) * W.ulp x.exp * (2:ℚ) ^ (-(W.p:Int))
      = ((x.mant : ℚ) * (2:ℚ) ^ (-(W.p:Int))) * W.ulp x.exp := by ring
    _ < ((2:ℚ) ^ W.p * (2:ℚ) ^ (-(W.p:Int))) * W.ulp x.exp :=
        mul_lt_mul_of_pos_right (mul_lt_mul_of_pos_right hmq hupos) hu
    _ = W.ulp x.exp := by rw [e1, one_mul]

/-- for `|x| ≥ 1` two units of relative rounding error are at most one ulp -/
theorem two_u_le_ulp {W : Sem} (hW : W.WF) {sg : Bool} {x : Flt} (h : SgnN W sg x) (h1 : 1 ≤ x.mag) :
    2 * (2:ℚ) ^ (-(W.p:Int)) ≤ W.ulp x.exp := by
  have hlt := mag_mul_u_lt h
  have hupos : (0:ℚ) < (2:ℚ) ^ (-(W.p:Int)) := by positivity
  have h2 : (2:ℚ) ^ (-(W.p:Int)) < W.ulp x.exp := by
    have := mul_le_mul_of_nonneg_right h1 hupos.le
    linarith
  rw [Sem.ulp_def] at h2 ⊢
  have h3 := (zpow_lt_zpow_iff_right₀ (by norm_num : (1:ℚ) < 2)).mp h2
  have hp := hW.2
  calc 2 * (2:ℚ) ^ (-(W.p:Int)) = (2:ℚ) ^ (1 + -(W.p:Int)) := by
        rw [zpow_add₀ (by norm_num : (2:ℚ) ≠ 0)]; norm_num
    _ ≤ _ := zpow_le_zpow_right₀ (by norm_num) (by omega)

/-! ## 7. the working format of `as_fraction` (more exponent bits, operand cast exactly) -/

theorem wideSem_WF {s : Sem} (h : s.WF) : (wideSem s).WF :=
  ⟨by rw [wideSem_e]; have := h.1; omega, by rw [wideSem_p]; exact h.2⟩

/-- the operand in the working format: same sign, same magnitude, canonical and normal -/
theorem cast_wide_sgnN (x : Flt) (hF : x.sem.WF) (hx : x.cat = .normal) (hc : x.Canonical) :
    SgnN (wideSem x.sem) x.sign (x.cast (wideSem x.sem)) ∧
      (x.cast (wideSem x.sem)).mag = x.mag := by
  obtain ⟨a, b, c, d, e⟩ := C06.widen_lossless_normal x (wideSem x.sem) x.sem.rm
    (by rw [wideSem_e]; omega) (le_refl _) hF (wideSem_WF hF) hx hc
  exact ⟨⟨a, c, b, d⟩, e⟩

/-- the exponent range of the working format: `p + emax ≤ emax_wide` -/
theorem wide_emax_bound {s : Sem} (h : s.WF) : (s.p : Int) + s.emax ≤ (wideSem s).emax := by
  have he := h.1
  have hp := h.2
  rw [Sem.emax_eq (by omega), Sem.emax_eq (by rw [wideSem_e]; omega), wideSem_e]
  have hL : s.logPrecision = Nat.log2 s.p + 1 := by
    unfold Sem.logPrecision; rw [if_neg (by omega)]
  have hT : s.p < 2 ^ s.logPrecision := by rw [hL]; exact Nat.lt_log2_self
  have hA : 2 ^ 1 ≤ 2 ^ (s.e - 1) := Nat.pow_le_pow_right (by norm_num) (by omega)
  have hsplit : 2 ^ (s.e + (s.logPrecision + 1) - 1)
      = 2 * (2 ^ (s.e - 1) * 2 ^ s.logPrecision) := by
    rw [show s.e + (s.logPrecision + 1) - 1 = (s.e - 1) + s.logPrecision + 1 by omega,
      Nat.pow_succ, Nat.pow_add]; ring
  rw [hsplit]
  have h1 : 2 ^ (s.e - 1) * (s.p + 1) ≤ 2 ^ (s.e - 1) * 2 ^ s.logPrecision :=
    Nat.mul_le_mul_left _ hT
  have h2 : 2 ^ (s.e - 1) * 1 ≤ 2 ^ (s.e - 1) * (s.p + 1) := Nat.mul_le_mul_left _ (by omega)
  have h3 : 2 * (s.p + 1) ≤ 2 ^ (s.e - 1) * (s.p + 1) := Nat.mul_le_mul_right _ hA
  generalize 2 ^ (s.e - 1) * 2 ^ s.logPrecision = X at *
  generalize 2 ^ (s.e - 1) * (s.p + 1) = Y at *
  generalize 2 ^ (s.e - 1) = A at *
  push_cast
  omega

end Arp.C20
