import Arp.Lemmas.LogSV
import Arp.Lemmas.LogErr
/-!
# Lemmas for the accuracy of `Float::log` — part 3: the Taylor loop over `ℚ`

Pure rational analysis of the loop of `log_taylor`
`top_{i+1} = T(top_i·c)`, `elem_i = T(top_i/(2i+1))`, `sum_{i+1} = T(sum_i + elem_i)`
(`T = trq G`: truncation to the working format), in terms of two comparison ratios
`t₋ ≤ t₊` with `t₋ ≤ (1-u)·z`, `t₋² ≤ (1-u)·c`, `z ≤ t₊`, `c ≤ t₊²`.
-/
namespace Arp.LogErr
open Arp Arp.SpecRound Arp.Ln2 Finset

variable {G : Sem}

/-! ### more facts about the truncation `trq` -/

theorem trq_err_le (hG : G.WF) {x : ℚ} (hx : 0 ≤ x) (hlt : x < (2:ℚ) ^ (G.emax + 1)) :
    x - trq G x ≤ RelErr.u G * x + delta G := by
  rcases eq_or_lt_of_le hx with h | h
  · rw [← h, trq_zero]; have := delta_pos G; simp; exact le_of_lt this
  · exact le_of_lt (trq_err hG h hlt)

theorem trq_mono_rep (hG : G.WF) {s x : ℚ} (hs : IsRep G s) (hsx : s ≤ x)
    (hlt : x < (2:ℚ) ^ (G.emax + 1)) : s ≤ trq G x := by
  rcases eq_or_lt_of_le hs.nonneg with h | h
  · rw [← h]; exact trq_nonneg hG (le_trans hs.nonneg hsx) hlt
  · exact (trq_spec hG (lt_of_lt_of_le h hsx) hlt).2.2 s hs hsx

/-- a normal representable `s` plus at least `u·s` is truncated to something larger than `s` -/
theorem trq_grow (hG : G.WF) {s e : ℚ} (hs : IsRep G s) (hn : (2:ℚ) ^ G.emin ≤ s)
    (he : RelErr.u G * s ≤ e) (hlt : s + e < (2:ℚ) ^ (G.emax + 1)) : s < trq G (s + e) := by
  have hp : 1 ≤ G.p := by have := hG.2; omega
  obtain ⟨E, m, hE, d⟩ := hs.decomp
  have hsm : s = (m:ℚ) * G.ulp E := by have := d.hq; rw [add_zero] at this; exact this
  have hU := G.ulp_pos E
  have hm : 2 ^ (G.p - 1) ≤ m := by
    rcases d.hn with h | h
    · exact h
    · by_contra hc
      have hm1 : (m:ℚ) + 1 ≤ (2:ℚ) ^ (G.p - 1) := by
        have : m + 1 ≤ 2 ^ (G.p - 1) := by omega
        exact_mod_cast this
      have : s < (2:ℚ) ^ E := by
        calc s = (m:ℚ) * G.ulp E := hsm
          _ < ((m:ℚ) + 1) * G.ulp E := by nlinarith
          _ ≤ (2:ℚ) ^ (G.p - 1) * G.ulp E := mul_le_mul_of_nonneg_right hm1 (le_of_lt hU)
          _ = _ := G.half_pow_mul_ulp hp E
      rw [h] at this; linarith
  have hmq : (2:ℚ) ^ (G.p - 1) ≤ (m:ℚ) := by exact_mod_cast hm
  have h2E : (2:ℚ) ^ E ≤ s := by
    calc (2:ℚ) ^ E = (2:ℚ) ^ (G.p - 1) * G.ulp E := (G.half_pow_mul_ulp hp E).symm
      _ ≤ (m:ℚ) * G.ulp E := mul_le_mul_of_nonneg_right hmq (le_of_lt hU)
      _ = s := hsm.symm
  have hule : G.ulp E ≤ RelErr.u G * s := by
    rw [RelErr.ulp_eq_u]; exact mul_le_mul_of_nonneg_left h2E (le_of_lt (RelErr.u_pos G))
  have hspos : 0 < s := lt_of_lt_of_le (by positivity) hn
  -- the successor of `s`
  have hsucc : IsRep G (s + G.ulp E) := by
    by_cases hlt' : m + 1 < 2 ^ G.p
    · refine ⟨E, m + 1, d.he, hE, hlt', Or.inl (by omega), ?_⟩
      rw [hsm, ← Sem.ulp_def]; push_cast; ring
    · have hmp : m + 1 = 2 ^ G.p := by have := d.hm; omega
      have e1 : s + G.ulp E = (2:ℚ) ^ (E + 1) := by
        rw [← G.pow_mul_ulp E, hsm]
        have : ((m + 1 : Nat) : ℚ) = ((2 ^ G.p : Nat) : ℚ) := by rw [hmp]
        push_cast at this
        rw [← this]; ring
      rw [e1]
      have hlt2 : (2:ℚ) ^ (E + 1) < (2:ℚ) ^ (G.emax + 1) := by
        rw [← e1]; linarith
      have := (zpow_lt_zpow_iff_right₀ (by norm_num : (1:ℚ) < 2)).mp hlt2
      exact isRep_pow2 hG (E + 1) (by have := d.he; have := hG.2; omega) (by omega)
  have hge := trq_mono_rep hG hsucc (by linarith : s + G.ulp E ≤ s + e) hlt
  linarith

/-! ### the partial sums over `ℚ` -/

/-- `Σ_{k<n} t^(2k+1)/(2k+1)` -/
def PsQ (t : ℚ) (n : ℕ) : ℚ := ∑ k ∈ range n, t ^ (2 * k + 1) / (2 * (k:ℚ) + 1)

theorem PsQ_zero (t : ℚ) : PsQ t 0 = 0 := by simp [PsQ]

theorem PsQ_succ (t : ℚ) (n : ℕ) : PsQ t (n + 1) = PsQ t n + t ^ (2 * n + 1) / (2 * (n:ℚ) + 1) := by
  unfold PsQ; rw [sum_range_succ]

theorem PsQ_cast (t : ℚ) (n : ℕ) : ((PsQ t n : ℚ) : ℝ) = Ps (t:ℝ) n := by
  unfold PsQ Ps; push_cast; rfl

theorem PsQ_nonneg {t : ℚ} (ht : 0 ≤ t) (n : ℕ) : 0 ≤ PsQ t n := by
  unfold PsQ; apply sum_nonneg; intro k _; positivity

/-- every partial sum is below `t/(1-t²)` -/
theorem PsQ_le {t : ℚ} (h0 : 0 ≤ t) (h1 : t < 1) (n : ℕ) :
    PsQ t n + t ^ (2 * n + 1) / (1 - t ^ 2) ≤ t / (1 - t ^ 2) := by
  have hd : 0 < 1 - t ^ 2 := by nlinarith
  induction n with
  | zero => simp [PsQ_zero]
  | succ n ih =>
    rw [PsQ_succ]
    have h3 : t ^ (2 * n + 1) / (2 * (n:ℚ) + 1) ≤ t ^ (2 * n + 1) := by
      apply div_le_self (by positivity)
      have : (0:ℚ) ≤ n := Nat.cast_nonneg n
      linarith
    have e : t ^ (2 * (n + 1) + 1) / (1 - t ^ 2) + t ^ (2 * n + 1) = t ^ (2 * n + 1) / (1 - t ^ 2) := by
      rw [show 2 * (n + 1) + 1 = (2 * n + 1) + 2 by ring, pow_add]
      field_simp; ring
    linarith

theorem PsQ_le' {t : ℚ} (h0 : 0 ≤ t) (h1 : t < 1) (n : ℕ) : PsQ t n ≤ t / (1 - t ^ 2) := by
  have hd : 0 < 1 - t ^ 2 := by nlinarith
  have := PsQ_le h0 h1 n
  have h2 : 0 ≤ t ^ (2 * n + 1) / (1 - t ^ 2) := by positivity
  linarith


/-! ### the loop data and its invariants -/

/-- the data of the loop: the start value `z`, the multiplier `c ≈ z²`, the comparison ratios
    `tm ≤ tp` and a bound `B` of all partial sums -/
structure LData (G : Sem) (z c tm tp B : ℚ) : Prop where
  wf : G.WF
  tm_pos : 0 < tm
  h1 : tm ≤ (1 - RelErr.u G) * z
  h2 : tm ^ 2 ≤ c * (1 - RelErr.u G)
  h3 : z ≤ tp
  h4 : c ≤ tp ^ 2
  tp_le : tp ≤ 1 / 256
  zrep : IsRep G z
  znorm : (2:ℚ) ^ G.emin ≤ z
  hB : ∀ n, PsQ tp n ≤ B
  B_le : B ≤ 1

namespace LData
variable {z c tm tp B : ℚ}

theorem u_pos (_ : LData G z c tm tp B) : 0 < RelErr.u G := RelErr.u_pos G
theorem u_le (D : LData G z c tm tp B) : RelErr.u G ≤ 1 / 2 := RelErr.u_le_half D.wf
theorem z_pos (D : LData G z c tm tp B) : 0 < z := lt_of_lt_of_le (by positivity) D.znorm
theorem tp_pos (D : LData G z c tm tp B) : 0 < tp := lt_of_lt_of_le D.z_pos D.h3
theorem c_pos (D : LData G z c tm tp B) : 0 < c := by
  have h := D.h2
  have hu := D.u_le
  have : 0 < tm ^ 2 := pow_pos D.tm_pos 2
  by_contra hc
  have : c * (1 - RelErr.u G) ≤ 0 := mul_nonpos_of_nonpos_of_nonneg (not_lt.mp hc) (by linarith)
  linarith
theorem c_le (D : LData G z c tm tp B) : c ≤ 1 / 65536 := by
  have h := D.h4
  have h1 := D.tp_le
  have h0 := D.tp_pos
  have : tp ^ 2 ≤ (1 / 256) ^ 2 := pow_le_pow_left₀ (le_of_lt h0) h1 2
  norm_num at this; linarith
theorem one_lt (D : LData G z c tm tp B) : (1:ℚ) < (2:ℚ) ^ (G.emax + 1) := by
  have := Sem.emax_pos D.wf
  have h5 : (2:ℚ) ^ (1:ℤ) ≤ (2:ℚ) ^ (G.emax + 1) := zpow_le_zpow_right₀ (by norm_num) (by omega)
  norm_num at h5; linarith
theorem tm_le_tp (D : LData G z c tm tp B) : tm ≤ tp := by
  have := D.h1; have := D.h3; have := D.u_pos; have := D.z_pos
  nlinarith
theorem tp_pow_le (D : LData G z c tm tp B) (n : ℕ) : tp ^ n ≤ 1 :=
  pow_le_one₀ (le_of_lt D.tp_pos) (by have := D.tp_le; linarith)

end LData

/-- invariant of `top` after `i` multiplications -/
structure ITop (G : Sem) (tm tp : ℚ) (i : ℕ) (t : ℚ) : Prop where
  nn : 0 ≤ t
  hi : t ≤ tp ^ (2 * i + 1)
  lo : tm ^ (2 * i + 1) ≤ (1 - RelErr.u G) * (t + 2 * delta G)

/-- invariant of `sum` after `i ≥ 1` additions -/
structure ISum (G : Sem) (z tm tp B : ℚ) (i : ℕ) (s : ℚ) : Prop where
  rep : IsRep G s
  ge : z ≤ s
  hi : s ≤ PsQ tp i
  lo : PsQ tm i - (i:ℚ) * (RelErr.u G * B + 4 * delta G) ≤ s

variable {z c tm tp B : ℚ}

theorem itop_zero (D : LData G z c tm tp B) : ITop G tm tp 0 z := by
  refine ⟨le_of_lt D.z_pos, by simpa using D.h3, ?_⟩
  have := D.h1; have := delta_pos G; have := D.u_le
  simp only [Nat.mul_zero, Nat.zero_add, pow_one]
  nlinarith

theorem itop_step (D : LData G z c tm tp B) {i : ℕ} {t : ℚ} (h : ITop G tm tp i t) :
    ITop G tm tp (i + 1) (trq G (t * c)) := by
  have hG := D.wf
  have hc0 := D.c_pos
  have hc1 := D.c_le
  have hu0 := D.u_pos
  have hu1 := D.u_le
  have hd := delta_pos G
  have htc0 : 0 ≤ t * c := mul_nonneg h.nn (le_of_lt hc0)
  have htp := D.tp_pow_le (2 * i + 1)
  have htc1 : t * c < (2:ℚ) ^ (G.emax + 1) := by
    have : t * c ≤ 1 := by nlinarith [h.hi, h.nn]
    linarith [D.one_lt]
  have e3 : 2 * (i + 1) + 1 = (2 * i + 1) + 2 := by ring
  refine ⟨trq_nonneg hG htc0 htc1, ?_, ?_⟩
  · rw [e3, pow_add]
    calc trq G (t * c) ≤ t * c := trq_le hG htc0 htc1
      _ ≤ tp ^ (2 * i + 1) * tp ^ 2 :=
          mul_le_mul h.hi D.h4 (le_of_lt hc0) (pow_nonneg (le_of_lt D.tp_pos) _)
  · have herr := trq_err_le hG htc0 htc1
    rw [e3, pow_add]
    have hX : 0 ≤ 1 - RelErr.u G := by linarith
    have hm : tm ^ (2 * i + 1) * tm ^ 2 ≤
        ((1 - RelErr.u G) * (t + 2 * delta G)) * (c * (1 - RelErr.u G)) :=
      mul_le_mul h.lo D.h2 (by have := D.tm_pos; positivity)
        (mul_nonneg hX (by linarith [h.nn]))
    have h2 : ((1 - RelErr.u G) * (t + 2 * delta G)) * (c * (1 - RelErr.u G)) ≤
        (1 - RelErr.u G) * (trq G (t * c) + 2 * delta G) := by
      have h3 : (t + 2 * delta G) * (c * (1 - RelErr.u G)) ≤ trq G (t * c) + 2 * delta G := by
        have hcu : c * (1 - RelErr.u G) ≤ 1 / 2 := by
          have : c * (1 - RelErr.u G) ≤ c * 1 := mul_le_mul_of_nonneg_left (by linarith) (le_of_lt hc0)
          linarith
        have h4 : 2 * delta G * (c * (1 - RelErr.u G)) ≤ delta G := by nlinarith
        have h5 : t * (c * (1 - RelErr.u G)) = (1 - RelErr.u G) * (t * c) := by ring
        nlinarith
      calc ((1 - RelErr.u G) * (t + 2 * delta G)) * (c * (1 - RelErr.u G))
          = (1 - RelErr.u G) * ((t + 2 * delta G) * (c * (1 - RelErr.u G))) := by ring
        _ ≤ _ := mul_le_mul_of_nonneg_left h3 hX
    linarith

/-- bounds of the `i`-th element `T(top_i/(2i+1))` -/
theorem elem_bounds (D : LData G z c tm tp B) {i : ℕ} {t : ℚ} (h : ITop G tm tp i t) :
    0 ≤ trq G (t / (2 * (i:ℚ) + 1)) ∧
    trq G (t / (2 * (i:ℚ) + 1)) ≤ tp ^ (2 * i + 1) / (2 * (i:ℚ) + 1) ∧
    tm ^ (2 * i + 1) / (2 * (i:ℚ) + 1) - 3 * delta G ≤ trq G (t / (2 * (i:ℚ) + 1)) := by
  have hG := D.wf
  have hu0 := D.u_pos
  have hu1 := D.u_le
  have hd := delta_pos G
  have hk : (1:ℚ) ≤ 2 * (i:ℚ) + 1 := by have : (0:ℚ) ≤ i := Nat.cast_nonneg i; linarith
  have hk0 : (0:ℚ) < 2 * (i:ℚ) + 1 := by linarith
  have hy0 : 0 ≤ t / (2 * (i:ℚ) + 1) := div_nonneg h.nn (le_of_lt hk0)
  have hyt : t / (2 * (i:ℚ) + 1) ≤ t := div_le_self h.nn hk
  have htp := D.tp_pow_le (2 * i + 1)
  have hy1 : t / (2 * (i:ℚ) + 1) < (2:ℚ) ^ (G.emax + 1) := by
    have := D.one_lt; linarith [h.hi]
  refine ⟨trq_nonneg hG hy0 hy1, ?_, ?_⟩
  · calc trq G (t / (2 * (i:ℚ) + 1)) ≤ t / (2 * (i:ℚ) + 1) := trq_le hG hy0 hy1
      _ ≤ _ := div_le_div_of_nonneg_right h.hi (le_of_lt hk0)
  · have herr := trq_err_le hG hy0 hy1
    have h1 : tm ^ (2 * i + 1) / (2 * (i:ℚ) + 1) ≤
        (1 - RelErr.u G) * (t + 2 * delta G) / (2 * (i:ℚ) + 1) :=
      div_le_div_of_nonneg_right h.lo (le_of_lt hk0)
    have h2 : (1 - RelErr.u G) * (t + 2 * delta G) / (2 * (i:ℚ) + 1) =
        (1 - RelErr.u G) * (t / (2 * (i:ℚ) + 1)) +
          (1 - RelErr.u G) * (2 * delta G) / (2 * (i:ℚ) + 1) := by
      field_simp
    have h3 : (1 - RelErr.u G) * (2 * delta G) / (2 * (i:ℚ) + 1) ≤ 2 * delta G := by
      calc (1 - RelErr.u G) * (2 * delta G) / (2 * (i:ℚ) + 1)
          ≤ (1 - RelErr.u G) * (2 * delta G) := div_le_self (by nlinarith) hk
        _ ≤ 2 * delta G := by nlinarith
    linarith

theorem isum_one (D : LData G z c tm tp B) : ISum G z tm tp B 1 z := by
  have hu0 := D.u_pos
  have hu1 := D.u_le
  have hd := delta_pos G
  have hB : 0 ≤ B := le_trans (PsQ_nonneg (le_of_lt D.tp_pos) 0) (D.hB 0)
  refine ⟨D.zrep, le_refl _, ?_, ?_⟩
  · rw [PsQ_succ, PsQ_zero]; simpa using D.h3
  · rw [PsQ_succ, PsQ_zero]
    have := D.h1; have := D.z_pos
    simp only [pow_one, Nat.cast_zero, mul_zero, zero_add, div_one,
      Nat.cast_one, one_mul]
    nlinarith [mul_nonneg (le_of_lt hu0) hB]

/-- one addition preserves the invariant of the sum -/
theorem isum_step (D : LData G z c tm tp B) {i : ℕ} {s e : ℚ} (h : ISum G z tm tp B i s)
    (he0 : 0 ≤ e) (he1 : e ≤ tp ^ (2 * i + 1) / (2 * (i:ℚ) + 1))
    (he2 : tm ^ (2 * i + 1) / (2 * (i:ℚ) + 1) - 3 * delta G ≤ e) :
    ISum G z tm tp B (i + 1) (trq G (s + e)) := by
  have hG := D.wf
  have hu0 := D.u_pos
  have hd := delta_pos G
  have hs0 : 0 ≤ s := le_trans (le_of_lt D.z_pos) h.ge
  have hse0 : 0 ≤ s + e := by linarith
  have hseP : s + e ≤ PsQ tp (i + 1) := by rw [PsQ_succ]; linarith [h.hi]
  have hseB : s + e ≤ B := le_trans hseP (D.hB _)
  have hse1 : s + e < (2:ℚ) ^ (G.emax + 1) := by
    have := D.one_lt; have := D.B_le; linarith
  refine ⟨trq_isRep hG hse0 hse1, ?_, ?_, ?_⟩
  · exact le_trans h.ge (trq_mono_rep hG h.rep (by linarith) hse1)
  · exact le_trans (trq_le hG hse0 hse1) hseP
  · have herr := trq_err_le hG hse0 hse1
    rw [PsQ_succ]
    push_cast
    have : RelErr.u G * (s + e) ≤ RelErr.u G * B := mul_le_mul_of_nonneg_left hseB (le_of_lt hu0)
    nlinarith [h.lo]

/-- when the sum does not change the element was small -/
theorem small_of_stay (D : LData G z c tm tp B) {i : ℕ} {s e : ℚ} (h : ISum G z tm tp B i s)
    (he1 : e ≤ tp ^ (2 * i + 1) / (2 * (i:ℚ) + 1))
    (he2 : tm ^ (2 * i + 1) / (2 * (i:ℚ) + 1) - 3 * delta G ≤ e)
    (hstay : trq G (s + e) = s) :
    tm ^ (2 * i + 1) / (2 * (i:ℚ) + 1) ≤ RelErr.u G * s + 3 * delta G := by
  have hG := D.wf
  have hseP : s + e ≤ PsQ tp (i + 1) := by rw [PsQ_succ]; linarith [h.hi]
  have hseB : s + e ≤ B := le_trans hseP (D.hB _)
  have hse1 : s + e < (2:ℚ) ^ (G.emax + 1) := by
    have := D.one_lt; have := D.B_le; linarith
  by_contra hc
  have hc := not_le.mp hc
  have hes : RelErr.u G * s ≤ e := by linarith
  have := trq_grow hG h.rep (le_trans D.znorm h.ge) hes hse1
  rw [hstay] at this
  exact lt_irrefl _ this

end Arp.LogErr

/-! ### the loop at `Flt` level -/

namespace Arp.LogErr
open Arp Arp.SpecRound Arp.Ln2 Finset

variable {G : Sem} {z c tm tp B : ℚ} {sg : Bool}

/-- the element of index `j` was absorbed by the sum `v` -/
def SmallAt (G : Sem) (tm : ℚ) (j : ℕ) (v : ℚ) : Prop :=
  tm ^ (2 * j + 1) / (2 * (j:ℚ) + 1) ≤ RelErr.u G * v + 3 * delta G

theorem logTaylorLoop_succ (G : Sem) (z2 : Flt) (n i : ℕ) (top sum prev : Flt) :
    logTaylorLoop G z2 (n + 1) i top sum prev =
      if prev.beq sum then sum else
        logTaylorLoop G z2 n (i + 1) (mulWithRm top z2 .none)
          (addWithRm sum (divWithRm top (fromU64 G (i * 2 + 1)) .none) .none) sum := rfl

/-- side conditions for loading the odd numbers `2i+1`, `i < N` -/
def OddOK (G : Sem) (N : ℕ) : Prop :=
  ∀ i, i < N → i * 2 + 1 < 2 ^ 64 ∧ i * 2 + 1 < 2 ^ G.p ∧ (msb (i * 2 + 1) : ℤ) - 1 ≤ G.emax

/-- one iteration -/
theorem iter_spec (D : LData G z c tm tp B) {z2 : Flt} (hz2 : SV G false z2 c) {N i : ℕ}
    (hodd : OddOK G N) (hi : i < N) {top sum : Flt} {t s : ℚ}
    (ht : SV G sg top t) (hs : SV G sg sum s) (hT : ITop G tm tp i t) (hS : ISum G z tm tp B i s) :
    SV G sg (mulWithRm top z2 .none) (trq G (t * c)) ∧
    SV G sg (addWithRm sum (divWithRm top (fromU64 G (i * 2 + 1)) .none) .none)
      (trq G (s + trq G (t / (2 * (i:ℚ) + 1)))) := by
  have hG := D.wf
  obtain ⟨c1, c2, c3⟩ := hodd i hi
  have hk := SV.of_NN (nat_NN hG (i * 2 + 1) (by omega) c1 c2 c3)
  have hkq : (((i * 2 + 1 : ℕ)) : ℚ) = 2 * (i:ℚ) + 1 := by push_cast; ring
  rw [hkq] at hk
  have hk0 : (0:ℚ) < 2 * (i:ℚ) + 1 := by have : (0:ℚ) ≤ i := Nat.cast_nonneg i; linarith
  have hk1 : (1:ℚ) ≤ 2 * (i:ℚ) + 1 := by have : (0:ℚ) ≤ i := Nat.cast_nonneg i; linarith
  have htp := D.tp_pow_le (2 * i + 1)
  have hone := D.one_lt
  obtain ⟨e0, e1, e2⟩ := elem_bounds D hT
  constructor
  · apply SV.mul hG ht hz2 D.c_pos
    have : t * c ≤ 1 := by nlinarith [hT.hi, hT.nn, D.c_le, D.c_pos]
    linarith
  · have hdiv : t / (2 * (i:ℚ) + 1) < (2:ℚ) ^ (G.emax + 1) := by
      have : t / (2 * (i:ℚ) + 1) ≤ t := div_le_self hT.nn hk1
      linarith [hT.hi]
    have hel := SV.div hG ht hk hk0 hdiv
    have hspos : 0 < s := lt_of_lt_of_le D.z_pos hS.ge
    have hseP : s + trq G (t / (2 * (i:ℚ) + 1)) ≤ PsQ tp (i + 1) := by
      rw [PsQ_succ]; linarith [hS.hi]
    have hseB := le_trans hseP (D.hB _)
    exact SV.add hG hs hel (by linarith) (by have := D.B_le; linarith)

/-- **the loop** from iteration `i ≥ 1` on -/
theorem loop_spec (D : LData G z c tm tp B) {z2 : Flt} (hz2 : SV G false z2 c) {N : ℕ}
    (hodd : OddOK G N) :
    ∀ (n i : ℕ) (top sum prev : Flt) (t s pv : ℚ), i + n = N →
      SV G sg top t → SV G sg sum s → SV G sg prev pv →
      ITop G tm tp i t → ISum G z tm tp B i s →
      (pv = s → ∃ j, i = j + 1 ∧ SmallAt G tm j s) →
      ∃ (J : ℕ) (v : ℚ), SV G sg (logTaylorLoop G z2 n i top sum prev) v ∧
        ISum G z tm tp B J v ∧ J ≤ N ∧ ((∃ j, J = j + 1 ∧ SmallAt G tm j v) ∨ J = N) := by
  intro n
  induction n with
  | zero =>
    intro i top sum prev t s pv hiN ht hs _ _ hS _
    exact ⟨i, s, hs, hS, by omega, Or.inr (by omega)⟩
  | succ n ih =>
    intro i top sum prev t s pv hiN ht hs hp hT hS hsm
    rw [logTaylorLoop_succ]
    have hspos : 0 < s := lt_of_lt_of_le D.z_pos hS.ge
    have hbeq := SV.beq_iff hp hs hspos
    by_cases hb : prev.beq sum = true
    · rw [if_pos hb]
      exact ⟨i, s, hs, hS, by omega, Or.inl (hsm (hbeq.mp hb))⟩
    · rw [if_neg hb]
      obtain ⟨h1, h2⟩ := iter_spec D hz2 hodd (show i < N by omega) ht hs hT hS
      obtain ⟨e0, e1, e2⟩ := elem_bounds D hT
      refine ih (i + 1) _ _ _ _ _ s (by omega) h1 h2 hs (itop_step D hT)
        (isum_step D hS e0 e1 e2) ?_
      intro hst
      refine ⟨i, rfl, ?_⟩
      have := small_of_stay D hS e1 e2 hst.symm
      unfold SmallAt
      rw [← hst]; exact this

end Arp.LogErr

/-! ### from the invariant at the exit to bounds against `artanh` -/

namespace Arp.LogErr
open Arp Arp.SpecRound Arp.Ln2 Finset

variable {G : Sem} {z c tm tp B : ℚ}

/-- the tail of the series after the exit is at most `2·(u·v + 3δ)` -/
theorem tail_small (D : LData G z c tm tp B) {N J : ℕ} {v : ℚ} (hS : ISum G z tm tp B J v)
    (hN : (tm ^ 2) ^ N ≤ RelErr.u G)
    (hex : (∃ j, J = j + 1 ∧ SmallAt G tm j v) ∨ J = N) :
    tm ^ (2 * J + 1) / (2 * (J:ℚ) + 1) / (1 - tm ^ 2) ≤ 2 * (RelErr.u G * v + 3 * delta G) := by
  have hu0 := D.u_pos
  have hd := delta_pos G
  have htm0 := D.tm_pos
  have htm1 : tm ≤ 1 / 256 := le_trans D.tm_le_tp D.tp_le
  have htm2 : tm ^ 2 ≤ 1 / 65536 := by
    have : tm ^ 2 ≤ (1 / 256) ^ 2 := pow_le_pow_left₀ (le_of_lt htm0) htm1 2
    norm_num at this; exact this
  have hden : (1:ℚ) / 2 ≤ 1 - tm ^ 2 := by linarith
  have hden0 : (0:ℚ) < 1 - tm ^ 2 := by linarith
  have hv0 : 0 < v := lt_of_lt_of_le D.z_pos hS.ge
  have htmv : tm ≤ v := by
    have := D.h1; have := D.z_pos; have := hS.ge
    nlinarith
  have hJ0 : (0:ℚ) ≤ (J:ℚ) := Nat.cast_nonneg J
  rw [div_le_iff₀ hden0]
  rcases hex with ⟨j, rfl, hsm⟩ | rfl
  · unfold SmallAt at hsm
    have hj0 : (0:ℚ) ≤ (j:ℚ) := Nat.cast_nonneg j
    have e : tm ^ (2 * (j + 1) + 1) = tm ^ 2 * tm ^ (2 * j + 1) := by
      rw [← pow_add]; congr 1; ring
    have hpow : 0 ≤ tm ^ (2 * j + 1) := by positivity
    have h1 : tm ^ (2 * (j + 1) + 1) / (2 * ((j + 1 : ℕ):ℚ) + 1) ≤
        tm ^ 2 * (tm ^ (2 * j + 1) / (2 * (j:ℚ) + 1)) := by
      rw [e, mul_div_assoc]
      apply mul_le_mul_of_nonneg_left _ (by positivity)
      apply div_le_div_of_nonneg_left hpow (by linarith)
      push_cast; linarith
    have h2 : tm ^ 2 * (tm ^ (2 * j + 1) / (2 * (j:ℚ) + 1)) ≤
        1 / 65536 * (RelErr.u G * v + 3 * delta G) :=
      mul_le_mul htm2 hsm (by positivity) (by norm_num)
    have h3 : 0 ≤ RelErr.u G * v + 3 * delta G := by positivity
    have h4 := mul_le_mul_of_nonneg_left hden h3
    nlinarith
  · have e : tm ^ (2 * J + 1) = tm * (tm ^ 2) ^ J := by
      rw [← pow_mul, ← pow_succ']
    have h1 : tm ^ (2 * J + 1) / (2 * (J:ℚ) + 1) ≤ tm ^ (2 * J + 1) :=
      div_le_self (by positivity) (by linarith)
    have h2 : tm ^ (2 * J + 1) ≤ v * RelErr.u G := by
      rw [e]; exact mul_le_mul htmv hN (by positivity) (le_of_lt hv0)
    have h3 : 0 ≤ RelErr.u G * v + 3 * delta G := by positivity
    have h4 := mul_le_mul_of_nonneg_left hden h3
    nlinarith

/-- **bounds of the returned sum against `artanh`** -/
theorem sum_bounds (D : LData G z c tm tp B) {N J : ℕ} {v : ℚ} (hS : ISum G z tm tp B J v)
    (hJN : J ≤ N) (hN : (tm ^ 2) ^ N ≤ RelErr.u G)
    (hex : (∃ j, J = j + 1 ∧ SmallAt G tm j v) ∨ J = N) :
    (v:ℝ) ≤ At (tp:ℝ) ∧
    At (tm:ℝ) - 2 * ((RelErr.u G : ℝ) * v + 3 * (delta G : ℝ))
      - (N:ℝ) * ((RelErr.u G : ℝ) * B + 4 * (delta G : ℝ)) ≤ (v:ℝ) := by
  have hu0 := D.u_pos
  have hd := delta_pos G
  have htp0 : (0:ℝ) ≤ (tp:ℝ) := by exact_mod_cast le_of_lt D.tp_pos
  have htp1 : (tp:ℝ) < 1 := by
    have : tp < 1 := by have := D.tp_le; linarith
    exact_mod_cast this
  have htm0 : (0:ℝ) ≤ (tm:ℝ) := by exact_mod_cast le_of_lt D.tm_pos
  have htm1 : (tm:ℝ) < 1 := by
    have : tm < 1 := by have := D.tm_le_tp; have := D.tp_le; linarith
    exact_mod_cast this
  constructor
  · have h1 : ((v:ℚ):ℝ) ≤ ((PsQ tp J : ℚ) : ℝ) := by exact_mod_cast hS.hi
    rw [PsQ_cast] at h1
    exact le_trans h1 (Ps_le_At htp0 htp1 J)
  · have hA := At_le_Ps_add htm0 htm1 J
    have htail := tail_small D hS hN hex
    have htailR : (tm:ℝ) ^ (2 * J + 1) / (2 * (J:ℝ) + 1) / (1 - (tm:ℝ) ^ 2) ≤
        2 * ((RelErr.u G : ℝ) * v + 3 * (delta G : ℝ)) := by
      have := (Rat.cast_le (K := ℝ)).mpr htail
      push_cast at this; exact this
    have hlo : ((PsQ tm J : ℚ) : ℝ) - (J:ℝ) * ((RelErr.u G : ℝ) * B + 4 * (delta G : ℝ)) ≤ (v:ℝ) := by
      have := (Rat.cast_le (K := ℝ)).mpr hS.lo
      push_cast at this; exact this
    rw [PsQ_cast] at hlo
    have hB0 : 0 ≤ B := le_trans (PsQ_nonneg (le_of_lt D.tp_pos) 0) (D.hB 0)
    have hpos : (0:ℝ) ≤ (RelErr.u G : ℝ) * B + 4 * (delta G : ℝ) := by
      have : (0:ℚ) ≤ RelErr.u G * B + 4 * delta G := by positivity
      exact_mod_cast this
    have hJN' : (J:ℝ) ≤ (N:ℝ) := by exact_mod_cast hJN
    have := mul_le_mul_of_nonneg_right hJN' hpos
    linarith

end Arp.LogErr
