import Arp.Props.C17Small
import Arp.Lemmas.TrigBigCos
import Arp.Props.C12
/-!
# `tan` for `|x| < 1`

`tan x = s/√(1 − s²)` with `s = sin x` computed (by `sinFuel`, nested) in the working format
`tanW F = ((F.increasePrecision p).growLog 12).increaseExponent 4` of precision `> 2p + 12`.

* a small toolkit of relative errors over `ℝ` (`relR_mul`, `relR_trans`, `relR_sqrt`, `relR_div`)
  and the error propagation `tan_chain`: five operations of relative error `≤ u` give `40·u`;
* the format facts of `tanW F`;
* `tanCore_acc`: the working-format value of `tan` on an argument in `(0,1)`.
-/
namespace Arp.TrigErr
open Arp Arp.SpecRound Arp.RelErr Arp.Ln2 Arp.Sqrt

/-! ## relative errors over `ℝ` -/

theorem relR_upper {a b ε : ℝ} (h : |a - b| ≤ ε * b) : a ≤ (1 + ε) * b := by
  have := (abs_le.mp h).2; linarith

theorem relR_lower {a b ε : ℝ} (h : |a - b| ≤ ε * b) : (1 - ε) * b ≤ a := by
  have := (abs_le.mp h).1; linarith

theorem relR_mul {a b a' b' ε ε' : ℝ} (hb : 0 < b) (hb' : 0 < b') (hε : 0 ≤ ε) (hε' : 0 ≤ ε')
    (h : |a - b| ≤ ε * b) (h' : |a' - b'| ≤ ε' * b') :
    |a * a' - b * b'| ≤ (ε + ε' + ε * ε') * (b * b') := by
  have ha' : |a'| ≤ (1 + ε') * b' := by
    calc |a'| = |(a' - b') + b'| := by congr 1; ring
      _ ≤ |a' - b'| + |b'| := abs_add_le _ _
      _ ≤ ε' * b' + b' := by rw [abs_of_pos hb']; linarith
      _ = (1 + ε') * b' := by ring
  calc |a * a' - b * b'| = |(a - b) * a' + b * (a' - b')| := by congr 1; ring
    _ ≤ |(a - b) * a'| + |b * (a' - b')| := abs_add_le _ _
    _ = |a - b| * |a'| + b * |a' - b'| := by rw [abs_mul, abs_mul, abs_of_pos hb]
    _ ≤ (ε * b) * ((1 + ε') * b') + b * (ε' * b') := by
        apply add_le_add
        · exact mul_le_mul h ha' (abs_nonneg _) (by positivity)
        · exact mul_le_mul_of_nonneg_left h' (le_of_lt hb)
    _ = (ε + ε' + ε * ε') * (b * b') := by ring

theorem relR_trans {a b c ε ε' : ℝ} (hc : 0 < c) (hε : 0 ≤ ε)
    (h : |a - b| ≤ ε * b) (h' : |b - c| ≤ ε' * c) : |a - c| ≤ (ε + ε' + ε * ε') * c := by
  have hb := relR_upper h'
  calc |a - c| ≤ |a - b| + |b - c| := abs_sub_le a b c
    _ ≤ ε * b + ε' * c := add_le_add h h'
    _ ≤ ε * ((1 + ε') * c) + ε' * c := by
        have := mul_le_mul_of_nonneg_left hb hε; linarith
    _ = (ε + ε' + ε * ε') * c := by ring

theorem relR_sqrt {a b ε : ℝ} (hb : 0 < b) (hε : 0 ≤ ε) (hε1 : ε ≤ 1) (h : |a - b| ≤ ε * b) :
    |Real.sqrt a - Real.sqrt b| ≤ ε * Real.sqrt b := by
  have ha : 0 ≤ a := by
    have := relR_lower h
    have : 0 ≤ (1 - ε) * b := mul_nonneg (by linarith) (le_of_lt hb)
    linarith
  set r := Real.sqrt a with hr
  set t := Real.sqrt b with ht
  have hr0 : 0 ≤ r := Real.sqrt_nonneg a
  have ht0 : 0 < t := Real.sqrt_pos.mpr hb
  have hra : r * r = a := Real.mul_self_sqrt ha
  have htb : t * t = b := Real.mul_self_sqrt (le_of_lt hb)
  have h1 : |r - t| * (r + t) ≤ ε * (t * t) := by
    have : |r - t| * (r + t) = |a - b| := by
      rw [← hra, ← htb, ← abs_of_nonneg (by linarith : 0 ≤ r + t), ← abs_mul]; congr 1; ring
    rw [this, htb]; exact h
  have h2 : |r - t| * t ≤ |r - t| * (r + t) :=
    mul_le_mul_of_nonneg_left (by linarith) (abs_nonneg _)
  have h3 : |r - t| * t ≤ (ε * t) * t := by linarith
  exact le_of_mul_le_mul_right h3 ht0

theorem relR_div {a b a' b' ε ε' : ℝ} (hb : 0 < b) (hb' : 0 < b') (hε : 0 ≤ ε) (hε' : 0 ≤ ε')
    (hε2 : ε' ≤ 1/2) (h : |a - b| ≤ ε * b) (h' : |a' - b'| ≤ ε' * b') :
    |a / a' - b / b'| ≤ 2 * (ε + ε') * (b / b') := by
  have ha'lo : b' / 2 ≤ a' := by
    have := relR_lower h'
    nlinarith
  have ha'0 : 0 < a' := by linarith
  have hnum : |a * b' - a' * b| ≤ (ε + ε') * (b * b') := by
    calc |a * b' - a' * b| = |(a - b) * b' - b * (a' - b')| := by congr 1; ring
      _ ≤ |(a - b) * b'| + |b * (a' - b')| := abs_sub _ _
      _ = |a - b| * b' + b * |a' - b'| := by
          rw [abs_mul, abs_mul, abs_of_pos hb, abs_of_pos hb']
      _ ≤ (ε * b) * b' + b * (ε' * b') := by
          apply add_le_add
          · exact mul_le_mul_of_nonneg_right h (le_of_lt hb')
          · exact mul_le_mul_of_nonneg_left h' (le_of_lt hb)
      _ = (ε + ε') * (b * b') := by ring
  rw [div_sub_div _ _ (ne_of_gt ha'0) (ne_of_gt hb'), abs_div, abs_of_pos (mul_pos ha'0 hb'),
    div_le_iff₀ (mul_pos ha'0 hb')]
  have e : 2 * (ε + ε') * (b / b') * (a' * b') = 2 * (ε + ε') * b * a' := by
    field_simp
  rw [e]
  have : (ε + ε') * (b * b') ≤ 2 * (ε + ε') * b * a' := by
    have h0 : 0 ≤ (ε + ε') * b := mul_nonneg (by linarith) (le_of_lt hb)
    nlinarith
  linarith

/-- the error propagation of `s/√(1 − s²)` for abstract `s0² + c0² = 1`, `c0 ≥ 1/2` -/
theorem tan_chain_abs {s0 c0 s sq d b q u : ℝ} (hs0pos : 0 < s0) (hc0half : 1/2 ≤ c0)
    (hpyth : s0 * s0 + c0 * c0 = 1) (hu0 : 0 < u) (hu : u ≤ 1/1000)
    (hs : |s - s0| ≤ u * s0) (hsq : |sq - s * s| ≤ u * (s * s))
    (hd : |d - (1 - sq)| ≤ u * (1 - sq)) (hb0 : 0 < b) (hb : |b - Real.sqrt d| ≤ u * b)
    (hq : |q - s / b| ≤ u * (s / b)) :
    |q - s0 / c0| ≤ 40 * u * (s0 / c0) := by
  have hc0pos : 0 < c0 := by linarith
  have hc2 : 1/4 ≤ c0 * c0 := by nlinarith
  have hs2 : s0 * s0 ≤ 3 * (c0 * c0) := by nlinarith
  have hss0 : 0 < s0 * s0 := mul_pos hs0pos hs0pos
  have hcc0 : 0 < c0 * c0 := mul_pos hc0pos hc0pos
  have hu2 : u * u ≤ u / 1000 := by nlinarith
  -- `s·s`
  have h1 := relR_mul hs0pos hs0pos (le_of_lt hu0) (le_of_lt hu0) hs hs
  have h3 := relR_trans hss0 (le_of_lt hu0) hsq h1
  have h3' : |sq - s0 * s0| ≤ 4 * u * (s0 * s0) := by
    refine le_trans h3 (mul_le_mul_of_nonneg_right ?_ (le_of_lt hss0))
    have e : u + (u + u + u * u) + u * (u + u + u * u) = 3 * u + 3 * (u * u) + u * (u * u) := by
      ring
    have h : u * (u * u) ≤ u * (u / 1000) := mul_le_mul_of_nonneg_left hu2 (le_of_lt hu0)
    rw [e]; nlinarith
  -- `1 − sq`
  have h4 : |(1 - sq) - c0 * c0| ≤ 12 * u * (c0 * c0) := by
    have e : (1 - sq) - c0 * c0 = -(sq - s0 * s0) := by linarith
    rw [e, abs_neg]
    refine le_trans h3' ?_
    have : 4 * u * (s0 * s0) ≤ 4 * u * (3 * (c0 * c0)) :=
      mul_le_mul_of_nonneg_left hs2 (by linarith)
    linarith
  have h5 := relR_trans hcc0 (le_of_lt hu0) hd h4
  have h5' : |d - c0 * c0| ≤ 14 * u * (c0 * c0) := by
    refine le_trans h5 (mul_le_mul_of_nonneg_right ?_ (le_of_lt hcc0))
    have e : u + 12 * u + u * (12 * u) = 13 * u + 12 * (u * u) := by ring
    rw [e]; linarith
  have hdpos : 0 < d := by
    have := relR_lower h5'
    have : 0 < (1 - 14 * u) * (c0 * c0) := mul_pos (by linarith) hcc0
    linarith
  have h6 := relR_sqrt hcc0 (by linarith) (by linarith) h5'
  rw [Real.sqrt_mul_self (le_of_lt hc0pos)] at h6
  -- `b`
  have hrd0 : 0 < Real.sqrt d := Real.sqrt_pos.mpr hdpos
  have h7 : |b - Real.sqrt d| ≤ 2 * u * Real.sqrt d := by
    have hb2 : b ≤ 2 * Real.sqrt d := by
      have h1 := (abs_le.mp hb).2
      have h2 : u * b ≤ b / 1000 := by
        have := mul_le_mul_of_nonneg_right hu (le_of_lt hb0); linarith
      linarith
    refine le_trans hb ?_
    have := mul_le_mul_of_nonneg_left hb2 (le_of_lt hu0)
    linarith
  have h8 := relR_trans hc0pos (by linarith) h7 h6
  have h8' : |b - c0| ≤ 17 * u * c0 := by
    refine le_trans h8 (mul_le_mul_of_nonneg_right ?_ (le_of_lt hc0pos))
    have e : 2 * u + 14 * u + 2 * u * (14 * u) = 16 * u + 28 * (u * u) := by ring
    rw [e]; linarith
  -- the quotient
  have h9 := relR_div hs0pos hc0pos (le_of_lt hu0) (by linarith : 0 ≤ 17 * u) (by linarith) hs h8'
  have ht0 : 0 < s0 / c0 := div_pos hs0pos hc0pos
  have h10 := relR_trans ht0 (le_of_lt hu0) hq h9
  refine le_trans h10 (mul_le_mul_of_nonneg_right ?_ (le_of_lt ht0))
  have e : u + 2 * (u + 17 * u) + u * (2 * (u + 17 * u)) = 37 * u + 36 * (u * u) := by ring
  rw [e]; linarith

/-- **error propagation of `tan = s/√(1 − s²)`**: five roundings of relative error `≤ u` -/
theorem tan_chain {X s sq d b q u : ℝ} (hX0 : 0 < X) (hX1 : X ≤ 1) (hu0 : 0 < u) (hu : u ≤ 1/1000)
    (hs : |s - Real.sin X| ≤ u * Real.sin X) (hsq : |sq - s * s| ≤ u * (s * s))
    (hd : |d - (1 - sq)| ≤ u * (1 - sq)) (hb0 : 0 < b) (hb : |b - Real.sqrt d| ≤ u * b)
    (hq : |q - s / b| ≤ u * (s / b)) :
    |q - Real.tan X| ≤ 40 * u * Real.tan X := by
  have hs0pos : 0 < Real.sin X := Real.sin_pos_of_pos_of_le_one hX0 hX1
  have hc0half : 1/2 ≤ Real.cos X := by
    have := cos_lower X
    have : X ^ 2 ≤ 1 := by nlinarith
    linarith
  have hpyth : Real.sin X * Real.sin X + Real.cos X * Real.cos X = 1 := by
    have := Real.sin_sq_add_cos_sq X; nlinarith
  rw [Real.tan_eq_sin_div_cos]
  exact tan_chain_abs hs0pos hc0half hpyth hu0 hu hs hsq hd hb0 hb hq

/-- `s ≤ 7/8` for the computed sine of an argument in `(0,1]` -/
theorem tan_s_bound {X s u : ℝ} (hX0 : 0 < X) (hX1 : X ≤ 1) (hu0 : 0 < u) (hu : u ≤ 1/1000)
    (hs : |s - Real.sin X| ≤ u * Real.sin X) : 0 < s ∧ s ≤ 7/8 := by
  have hs0pos : 0 < Real.sin X := Real.sin_pos_of_pos_of_le_one hX0 hX1
  have hc0half : 1/2 ≤ Real.cos X := by
    have := cos_lower X
    have : X ^ 2 ≤ 1 := by nlinarith
    linarith
  have hpyth := Real.sin_sq_add_cos_sq X
  have hs2 : Real.sin X ^ 2 ≤ 3/4 := by nlinarith
  have hup := relR_upper hs
  have hlo := relR_lower hs
  constructor
  · have : 0 < (1 - u) * Real.sin X := mul_pos (by linarith) hs0pos
    linarith
  · have h2 : Real.sin X ≤ 867/1000 := by
      by_contra h
      have h := not_le.mp h
      nlinarith
    have h3 : u * Real.sin X ≤ 1/1000 * (867/1000) :=
      mul_le_mul hu h2 (le_of_lt hs0pos) (by norm_num)
    linarith

/-! ## the working format of `tan` -/

/-- the working format of `tan` -/
def tanW (F : Sem) : Sem := ((F.increasePrecision F.p).growLog 12).increaseExponent 4

theorem tanW_p (F : Sem) :
    (tanW F).p = F.p + F.p + 12 + (F.increasePrecision F.p).logPrecision := rfl
theorem tanW_e (F : Sem) : (tanW F).e = F.e + 4 := rfl
theorem tanW_rm (F : Sem) : (tanW F).rm = F.rm := rfl

theorem incP_WF {F : Sem} (hF : F.WF) : (F.increasePrecision F.p).WF :=
  ⟨hF.1, by show 2 ≤ F.p + F.p; have := hF.2; omega⟩

theorem tanW_WF {F : Sem} (hF : F.WF) : (tanW F).WF := Sem.wide_WF (incP_WF hF) 12 4

theorem tanW_emin {F : Sem} (hF : F.WF) : (tanW F).emin = 16 * F.emin - 30 :=
  sinW_emin (F := F.increasePrecision F.p) (incP_WF hF)

theorem tanW_emax {F : Sem} (hF : F.WF) : (tanW F).emax = 31 - 16 * F.emin :=
  sinW_emax (F := F.increasePrecision F.p) (incP_WF hF)

theorem tanW_p_bounds {F : Sem} (hp : 8 ≤ F.p) :
    2 * F.p + 16 ≤ (tanW F).p ∧ (tanW F).p ≤ 4 * F.p + 12 := by
  have hp2 : 8 ≤ F.p + F.p := by omega
  obtain ⟨h1, h2, _⟩ := logPrec_bounds hp2
  have hL : (F.increasePrecision F.p).logPrecision = Nat.log2 (F.p + F.p) + 1 :=
    logPrecision_eq (F := F.increasePrecision F.p) hp2
  have h3 : Nat.log2 (F.p + F.p) < 2 ^ Nat.log2 (F.p + F.p) := Nat.lt_two_pow_self
  rw [tanW_p, hL]
  omega

theorem tanW_dom {F : Sem} (hF : F.WF) (hp : 8 ≤ F.p) (hdom : F.p ≤ 2 ^ (F.e - 1) - 2) :
    (tanW F).p ≤ 2 ^ ((tanW F).e - 1) - 2 := by
  obtain ⟨_, h2⟩ := tanW_p_bounds hp
  have he : (tanW F).e - 1 = (F.e - 1) + 4 := by rw [tanW_e]; have := hF.1; omega
  rw [he, Nat.pow_add]
  have : F.p + 2 ≤ 2 ^ (F.e - 1) := by omega
  omega

theorem tanW_ctx (F : Sem) (hF : F.WF) (hp : 8 ≤ F.p) (hdom : F.p ≤ 2 ^ (F.e - 1) - 2)
    (hrm : F.rm = .nte ∨ F.rm = .nta) : SCtx (tanW F) 1 := by
  obtain ⟨hp1, hp2⟩ := tanW_p_bounds hp
  have hemin : F.emin = 2 - ((2 ^ (F.e - 1) : ℕ) : ℤ) := Sem.emin_eq F
  have hWemin := tanW_emin hF
  have hWemax := tanW_emax hF
  have hB : (F.p : ℤ) + 2 ≤ ((2 ^ (F.e - 1) : ℕ) : ℤ) := by
    have : F.p + 2 ≤ 2 ^ (F.e - 1) := by omega
    exact_mod_cast this
  have hp2' : ((tanW F).p : ℤ) ≤ 4 * (F.p:ℤ) + 12 := by exact_mod_cast hp2
  refine ⟨tanW_WF hF, by rw [tanW_rm]; exact hrm, by omega, ?_, by norm_num, ?_, ?_⟩
  · rw [hWemax]; omega
  · rw [one_pow]
    calc (2:ℚ) ^ ((tanW F).emin + 10) ≤ (2:ℚ) ^ (0:ℤ) :=
          zpow_le_zpow_right₀ (by norm_num) (by rw [hWemin]; omega)
      _ = 1 := by norm_num
  · unfold delta Sem.ulp RelErr.u
    rw [mul_one, show (1024:ℚ) = (2:ℚ) ^ (10:ℤ) by norm_num,
      ← zpow_add₀ (by norm_num : (2:ℚ) ≠ 0)]
    apply zpow_le_zpow_right₀ (by norm_num)
    rw [hWemin]
    omega

/-! ## `sin` in the working format, with a relative error -/

/-- the nested `sin` of `tan`: relative error `≤ u` of the working format -/
theorem sin_rel_tanW (F : Sem) (hF : F.WF) (hp : 8 ≤ F.p) (hdom : F.p ≤ 2 ^ (F.e - 1) - 2)
    (hrm : F.rm = .nte ∨ F.rm = .nta) {v : Flt} (hv : PosN (tanW F) v) (hv1 : v.mag < 1)
    (j : ℤ) (hj : 8 * F.emin - 10 ≤ j) (hvlo : (2:ℚ) ^ j ≤ v.mag) (fuel : ℕ) :
    ∃ sx, v.sinFuel fuel = some sx ∧ PosN (tanW F) sx ∧
      |((sx.mag : ℚ) : ℝ) - Real.sin ((v.mag : ℚ) : ℝ)| ≤
        ((u (tanW F) : ℚ) : ℝ) * Real.sin ((v.mag : ℚ) : ℝ) := by
  have hW := tanW_WF hF
  have hWemin := tanW_emin hF
  have hemin : F.emin = 2 - ((2 ^ (F.e - 1) : ℕ) : ℤ) := Sem.emin_eq F
  have hB : (F.p : ℤ) + 2 ≤ ((2 ^ (F.e - 1) : ℕ) : ℤ) := by
    have : F.p + 2 ≤ 2 ^ (F.e - 1) := by omega
    exact_mod_cast this
  obtain ⟨hp1, hp2⟩ := tanW_p_bounds hp
  have hsmall : v.exp < 0 := by
    by_contra h
    have := one_le_mag (x := v) (by rw [hv.sem]; exact hW) (by rw [hv.sem, hWemin]; omega)
      hv.cat hv.can (by omega)
    linarith
  obtain ⟨r, h1, h2, h3, h4, h5, h6, h7⟩ := C17.sin_small_accuracy_binade v
    (by rw [hv.sem]; exact hW) (by rw [hv.sem]; omega) (by rw [hv.sem]; exact tanW_dom hF hp hdom)
    (by rw [hv.sem, tanW_rm]; exact hrm) hv.can hv.cat hsmall fuel
  rw [hv.sem] at h5 h7
  have hX0 := hv.mag_pos
  have hXr0 : (0:ℝ) < ((v.mag : ℚ) : ℝ) := by exact_mod_cast hX0
  have hXr1 : ((v.mag : ℚ) : ℝ) ≤ 1 := by exact_mod_cast le_of_lt hv1
  have hS0 : 0 < Real.sin ((v.mag : ℚ) : ℝ) := Real.sin_pos_of_pos_of_le_one hXr0 hXr1
  have hval : v.val = v.mag := by
    rw [Flt.val_normal hv.cat, hv.sign]; simp
  rw [hval] at h7
  rw [hv.sign] at h3
  have habsS : |Real.sin ((v.mag : ℚ) : ℝ)| = Real.sin ((v.mag : ℚ) : ℝ) := abs_of_pos hS0
  rw [habsS] at h7
  set S := Real.sin ((v.mag : ℚ) : ℝ) with hSdef
  have hE1 : (2:ℝ) ^ (Int.log 2 S) ≤ S := Int.zpow_log_le_self (by norm_num) hS0
  have hE2 : S < (2:ℝ) ^ (Int.log 2 S + 1) := Int.lt_zpow_succ_log_self (by norm_num) S
  set E := Int.log 2 S with hE
  have hElo : (tanW F).emin ≤ E := by
    have h1r : ((((2:ℚ) ^ j : ℚ)) : ℝ) ≤ ((v.mag : ℚ) : ℝ) := by
      exact_mod_cast hvlo
    push_cast at h1r
    have h2 := sin_lower (le_of_lt hXr0) hXr1
    have h3 : (2:ℝ) ^ (j - 1) < (2:ℝ) ^ (E + 1) := by
      have e : (2:ℝ) ^ j = (2:ℝ) ^ (j - 1) * 2 := by
        rw [← zpow_add_one₀ (by norm_num : (2:ℝ) ≠ 0)]; congr 1; ring
      rw [e] at h1r
      have hpos : (0:ℝ) < (2:ℝ) ^ (j - 1) := by positivity
      linarith
    have := (zpow_lt_zpow_iff_right₀ (by norm_num : (1:ℝ) < 2)).mp h3
    rw [hWemin]; omega
  have herr := h7 E hE1 hE2
  rw [max_eq_left hElo] at herr
  have hu0 := RelErr.u_pos (tanW F)
  have hu1 : u (tanW F) ≤ 1/2 := RelErr.u_le_half hW
  have hur : ((u (tanW F) : ℚ) : ℝ) = (2:ℝ) ^ (1 - ((tanW F).p:ℤ)) := by
    unfold RelErr.u; push_cast; rfl
  have hbound : 17/32 * (2:ℝ) ^ (E - (((tanW F).p:ℤ) - 1)) ≤ 17/32 * (((u (tanW F) : ℚ) : ℝ) * S) := by
    apply mul_le_mul_of_nonneg_left _ (by norm_num)
    rw [hur, show E - (((tanW F).p:ℤ) - 1) = (1 - ((tanW F).p:ℤ)) + E by ring,
      zpow_add₀ (by norm_num : (2:ℝ) ≠ 0)]
    exact mul_le_mul_of_nonneg_left hE1 (by positivity)
  have hur0 : (0:ℝ) < ((u (tanW F) : ℚ) : ℝ) := by exact_mod_cast hu0
  have hur1 : ((u (tanW F) : ℚ) : ℝ) ≤ 1/2 := by
    have := (Rat.cast_le (K := ℝ)).mpr hu1; push_cast at this ⊢; linarith
  have huS : 0 < ((u (tanW F) : ℚ) : ℝ) * S := mul_pos hur0 hS0
  have huS1 : ((u (tanW F) : ℚ) : ℝ) * S ≤ 1/2 * S := mul_le_mul_of_nonneg_right hur1 (le_of_lt hS0)
  have hrn : r.cat = .normal := by
    rcases h2 with h | h
    · exact h
    · exfalso
      rw [Flt.val_zero h] at herr
      simp only [Rat.cast_zero, zero_sub, abs_neg, abs_of_pos hS0] at herr
      linarith
  have hrP : PosN (tanW F) r := ⟨h5, h4, hrn, h3⟩
  have hrval : r.val = r.mag := by
    rw [Flt.val_normal hrn, h3]; simp
  rw [hrval] at herr
  exact ⟨r, h1, hrP, by linarith⟩

/-! ## the working-format value of `tan` -/

/-- one ulp of a positive value is at most `u` times the value, unless the value is subnormal -/
theorem posN_ulp_cases {W : Sem} (hW : W.WF) {b : Flt} (hb : PosN W b) :
    W.ulp b.exp ≤ u W * b.mag ∨ (b.mag < (2:ℚ) ^ W.emin ∧ b.exp = W.emin) := by
  by_cases hn : (2:ℚ) ^ W.emin ≤ b.mag
  · left
    rw [RelErr.ulp_eq_u]
    exact mul_le_mul_of_nonneg_left (posN_exp_bounds hW hb hn).1 (le_of_lt (RelErr.u_pos W))
  · right
    have hlt := not_le.mp hn
    refine ⟨hlt, ?_⟩
    have hp : 1 ≤ W.p := by have := hW.2; omega
    obtain ⟨h1, _, _, _, h5⟩ := (Flt.canonical_normal hb.cat).mp hb.can
    rw [hb.sem] at h1 h5
    rcases h5 with h | h
    · exfalso
      have hu := W.ulp_pos b.exp
      have hmq : (2:ℚ) ^ (W.p - 1) ≤ (b.mant:ℚ) := by exact_mod_cast h
      have h2 : (2:ℚ) ^ b.exp ≤ b.mag := by
        rw [hb.mag_ulp, ← W.half_pow_mul_ulp hp b.exp]
        exact mul_le_mul_of_nonneg_right hmq (le_of_lt hu)
      have h3 : (2:ℚ) ^ W.emin ≤ (2:ℚ) ^ b.exp := zpow_le_zpow_right₀ (by norm_num) h1
      linarith
    · exact h

set_option maxHeartbeats 400000 in
/-- **`tanCore` on an argument in `(0,1)`**: relative error `≤ 40·u` of the working format -/
theorem tanCore_acc (F : Sem) (hF : F.WF) (hp : 8 ≤ F.p) (hdom : F.p ≤ 2 ^ (F.e - 1) - 2)
    (hrm : F.rm = .nte ∨ F.rm = .nta) (he17 : F.e ≤ 17) {v : Flt} (hv : PosN (tanW F) v)
    (hv1 : v.mag < 1) (hvlo : (2:ℚ) ^ (F.emin - (F.p:ℤ) + 1) ≤ v.mag) (fuel : ℕ) :
    ∃ res, tanCore fuel (tanW F) v = some res ∧ PosN (tanW F) res ∧ res.mag ≤ 4 ∧
      |((res.mag : ℚ) : ℝ) - Real.tan ((v.mag : ℚ) : ℝ)| ≤
        40 * ((u (tanW F) : ℚ) : ℝ) * Real.tan ((v.mag : ℚ) : ℝ) := by
  have hW := tanW_WF hF
  have S := tanW_ctx F hF hp hdom hrm
  have hWemin := tanW_emin hF
  have hWemax := tanW_emax hF
  have hemin : F.emin = 2 - ((2 ^ (F.e - 1) : ℕ) : ℤ) := Sem.emin_eq F
  have hB : (F.p : ℤ) + 2 ≤ ((2 ^ (F.e - 1) : ℕ) : ℤ) := by
    have : F.p + 2 ≤ 2 ^ (F.e - 1) := by omega
    exact_mod_cast this
  obtain ⟨hp1, hp2⟩ := tanW_p_bounds hp
  have hu0 := RelErr.u_pos (tanW F)
  have hu23 := S.u_le
  have hu : u (tanW F) ≤ 1/1000 := by norm_num at hu23 ⊢; linarith
  have hur0 : (0:ℝ) < ((u (tanW F) : ℚ) : ℝ) := by exact_mod_cast hu0
  have hur : ((u (tanW F) : ℚ) : ℝ) ≤ 1/1000 := by
    have := (Rat.cast_le (K := ℝ)).mpr hu; push_cast at this ⊢; linarith
  have h16 := S.max16
  have hone : IsRep (tanW F) 1 := by
    have := Ln2.isRep_pow2 hW 0 (by have := Sem.emin_le_zero hW; omega)
      (by have := Sem.emax_pos hW; omega)
    simpa using this
  have hX0 := hv.mag_pos
  have hXr0 : (0:ℝ) < ((v.mag : ℚ) : ℝ) := by exact_mod_cast hX0
  have hXr1 : ((v.mag : ℚ) : ℝ) ≤ 1 := by exact_mod_cast le_of_lt hv1
  have hS0 : 0 < Real.sin ((v.mag : ℚ) : ℝ) := Real.sin_pos_of_pos_of_le_one hXr0 hXr1
  have heminpos : (0:ℚ) < (2:ℚ) ^ (tanW F).emin := by positivity
  -- `sin`
  obtain ⟨sx, hsinfuel, hsx, hs⟩ := sin_rel_tanW F hF hp hdom hrm hv hv1
    (F.emin - (F.p:ℤ) + 1) (by omega) hvlo fuel
  obtain ⟨hs0r, hs78r⟩ := tan_s_bound hXr0 hXr1 hur0 hur hs
  have hs0 := hsx.mag_pos
  have hs78 : sx.mag ≤ 7/8 := by
    have : ((sx.mag : ℚ) : ℝ) ≤ (((7/8 : ℚ)) : ℝ) := by push_cast; linarith
    exact (Rat.cast_le (K := ℝ)).mp this
  have hslo : v.mag / 4 ≤ sx.mag := by
    have h1 := relR_lower hs
    have h2 := sin_lower (le_of_lt hXr0) hXr1
    have h3 : (1/2) * Real.sin ((v.mag : ℚ) : ℝ) ≤
        (1 - ((u (tanW F) : ℚ) : ℝ)) * Real.sin ((v.mag : ℚ) : ℝ) :=
      mul_le_mul_of_nonneg_right (by linarith) (le_of_lt hS0)
    have : (((v.mag / 4 : ℚ)) : ℝ) ≤ ((sx.mag : ℚ) : ℝ) := by push_cast; linarith
    exact (Rat.cast_le (K := ℝ)).mp this
  have hslo2 : (2:ℚ) ^ (F.emin - (F.p:ℤ) - 1) ≤ sx.mag := by
    have e : (2:ℚ) ^ (F.emin - (F.p:ℤ) + 1) = (2:ℚ) ^ (F.emin - (F.p:ℤ) - 1) * 4 := by
      rw [show F.emin - (F.p:ℤ) + 1 = (F.emin - (F.p:ℤ) - 1) + 2 by ring,
        zpow_add₀ (by norm_num : (2:ℚ) ≠ 0)]; norm_num
    rw [e] at hvlo; linarith
  -- the square
  have hsqlo : (2:ℚ) ^ ((tanW F).emin + 8) ≤ sx.mag ^ 2 := by
    have h1 : ((2:ℚ) ^ (F.emin - (F.p:ℤ) - 1)) ^ 2 ≤ sx.mag ^ 2 :=
      pow_le_pow_left₀ (by positivity) hslo2 2
    refine le_trans ?_ h1
    rw [← zpow_natCast, ← zpow_mul]
    apply zpow_le_zpow_right₀ (by norm_num)
    rw [hWemin]; push_cast; omega
  obtain ⟨hsqP, hsq1, hsq2⟩ := sqr_posN S hsx (by linarith) hsqlo
  set sqm := sx.sqr.mag with hsqm
  have hs2le : sx.mag ^ 2 ≤ 49/64 := by nlinarith
  have hs2pos : 0 < sx.mag ^ 2 := by positivity
  have hsqm45 : sqm ≤ 4/5 := by nlinarith
  have hsqm0 : 0 < sqm := hsqP.mag_pos
  -- `1 − s²`
  have hd0lo : 1/5 ≤ 1 - sqm := by linarith
  have hd0hi : 1 - sqm ≤ 1 := by linarith
  have hd_nn := nn_sub hW (tanW F).rm (one_nn hW) (nn_of_posN hsqP) (by linarith)
    (by linarith : 1 - sqm ≤ maxFinite (tanW F))
  have hemin5 : (2:ℚ) ^ (tanW F).emin ≤ 1/16 := by
    calc (2:ℚ) ^ (tanW F).emin ≤ (2:ℚ) ^ (-4:ℤ) :=
          zpow_le_zpow_right₀ (by norm_num) (by rw [hWemin]; omega)
      _ = 1/16 := by norm_num
  have hdrel := rq_rel hW (q := 1 - sqm) (by linarith) (by linarith) (tanW F).rm
  set dq := rq (tanW F) (tanW F).rm (1 - sqm) with hdq
  have hdq1 : dq ≤ 1 := rq_le_of_rep hW hone (by linarith) hd0hi _
  have hdq8 : 1/8 ≤ dq := by
    have := (abs_le.mp hdrel).1
    nlinarith
  obtain ⟨hdP, hdmag⟩ := posN_of_nn hd_nn (by linarith)
  set dF := subWithRm (Flt.one (tanW F) false) sx.sqr (tanW F).rm with hdF
  -- the square root
  have hfuelB : (2 * dF.sem.emax - dF.sem.emin).toNat + 2 * dF.sem.p + 20 ≤ innerFuel := by
    rw [hdP.sem, hWemax, hWemin]
    have hpow : 2 ^ (F.e - 1) ≤ 2 ^ 16 := Nat.pow_le_pow_right (by norm_num) (by omega)
    have hpowz : ((2 ^ (F.e - 1) : ℕ) : ℤ) ≤ 65536 := by exact_mod_cast hpow
    unfold innerFuel
    generalize ((2 ^ (F.e - 1) : ℕ) : ℤ) = B at *
    omega
  obtain ⟨b, hsqrt⟩ := sqrt_fuel_linear (x := dF) (by rw [hdP.sem]; exact hW)
    (by rw [hdP.sem]; exact hdP) hfuelB
  have hrmW : dF.sem.rm = .nte ∨ dF.sem.rm = .nta := by rw [hdP.sem, tanW_rm]; exact hrm
  obtain ⟨hbP, hb1, hb3, _⟩ := sqrt_bounds (x := dF) (by rw [hdP.sem]; exact hW)
    (by rw [hdP.sem]; exact hdP) hsqrt
  rw [hdP.sem] at hbP hb1
  rw [hdmag] at hb1
  have hbreal := (C12.sqrt_error_real dF innerFuel (by rw [hdP.sem]; exact hW) hdP.can hdP.cat
    hdP.sign b hsqrt).2.2 hrmW
  rw [hbP.sem, hdmag] at hbreal
  have hbpos := hbP.mag_pos
  have hulpb : (tanW F).ulp b.exp ≤ u (tanW F) * b.mag := by
    rcases posN_ulp_cases hW hbP with h | ⟨h1, h2⟩
    · exact h
    · exfalso
      rw [h2, RelErr.ulp_eq_u] at hb1
      have : b.mag + u (tanW F) * (2:ℚ) ^ (tanW F).emin ≤ 1/8 := by nlinarith
      have h3 : (b.mag + u (tanW F) * (2:ℚ) ^ (tanW F).emin) *
          (b.mag + u (tanW F) * (2:ℚ) ^ (tanW F).emin) ≤ 1/8 * (1/8) :=
        mul_le_mul this this (by positivity) (by norm_num)
      linarith
  have hb13 : 1/3 ≤ b.mag := by
    by_contra hcon
    have hlt := not_le.mp hcon
    have h1 : b.mag + (tanW F).ulp b.exp ≤ 1/3 + 1/1000 := by nlinarith
    have h0 : 0 ≤ b.mag + (tanW F).ulp b.exp := by
      have := (tanW F).ulp_pos b.exp; linarith
    have h3 : (b.mag + (tanW F).ulp b.exp) * (b.mag + (tanW F).ulp b.exp) ≤
        (1/3 + 1/1000) * (1/3 + 1/1000) := mul_le_mul h1 h1 h0 (by norm_num)
    norm_num at h3
    linarith
  have hb2 : b.mag ≤ 2 := by
    have h := hb3 (by rw [hdP.sem, tanW_rm]; exact hrm)
    rw [hdP.sem, hdmag] at h
    by_contra hcon
    have hlt := not_le.mp hcon
    have hge : 1 < b.mag - (tanW F).ulp b.exp := by nlinarith
    rcases h with h | h
    · linarith
    · have : 1 * 1 < (b.mag - (tanW F).ulp b.exp) * (b.mag - (tanW F).ulp b.exp) :=
        mul_lt_mul'' hge hge (by norm_num) (by norm_num)
      linarith
  -- the quotient
  have hq0le : sx.mag / b.mag ≤ 3 := by
    rw [div_le_iff₀ hbpos]; nlinarith
  have hq0lo : (2:ℚ) ^ (tanW F).emin ≤ sx.mag / b.mag := by
    have h1 : sx.mag / 2 ≤ sx.mag / b.mag := by
      apply div_le_div_of_nonneg_left (le_of_lt hs0) hbpos hb2
    have h2 : (2:ℚ) ^ (tanW F).emin ≤ (2:ℚ) ^ (F.emin - (F.p:ℤ) - 1) / 2 := by
      rw [div_eq_mul_inv, ← zpow_sub_one₀ (by norm_num : (2:ℚ) ≠ 0)]
      apply zpow_le_zpow_right₀ (by norm_num)
      rw [hWemin]; omega
    linarith
  have hq_nn := nn_div hW (tanW F).rm (nn_of_posN hsx) (nn_of_posN hbP) hbpos
    (by linarith : sx.mag / b.mag ≤ maxFinite (tanW F))
  have hqrel := rq_rel hW hq0lo (by linarith : sx.mag / b.mag ≤ maxFinite (tanW F)) (tanW F).rm
  set q := rq (tanW F) (tanW F).rm (sx.mag / b.mag) with hq
  have hq3 : q ≤ 4 := by
    have h3 : IsRep (tanW F) 4 := by
      have := Ln2.isRep_pow2 hW 2 (by have := Sem.emin_le_zero hW; omega)
        (by have := S.pemax; have := S.p24; omega)
      norm_num at this; exact this
    exact rq_le_of_rep hW h3 (le_trans (le_of_lt heminpos) hq0lo) (by linarith) _
  have hqpos : 0 < q := by
    have := (abs_le.mp hqrel).1
    have h0 : 0 < sx.mag / b.mag := lt_of_lt_of_le heminpos hq0lo
    nlinarith
  obtain ⟨hresP, hresmag⟩ := posN_of_nn hq_nn hqpos
  -- the model
  have hcore : tanCore fuel (tanW F) v = some (divWithRm sx b (tanW F).rm) := by
    unfold tanCore
    rw [hsinfuel]
    simp only
    have h1 : ((Flt.one (tanW F) false).sub sx.sqr).sqrtM = some b := hsqrt
    rw [h1]
    simp only
    unfold Flt.div
    rw [hsx.sem]
  refine ⟨_, hcore, hresP, by rw [hresmag]; exact hq3, ?_⟩
  rw [hresmag]
  -- the error propagation
  have c1 : |((sqm : ℚ) : ℝ) - ((sx.mag : ℚ) : ℝ) * ((sx.mag : ℚ) : ℝ)| ≤
      ((u (tanW F) : ℚ) : ℝ) * (((sx.mag : ℚ) : ℝ) * ((sx.mag : ℚ) : ℝ)) := by
    have : |sqm - sx.mag * sx.mag| ≤ u (tanW F) * (sx.mag * sx.mag) := by
      rw [abs_le]; constructor <;> nlinarith
    have := (Rat.cast_le (K := ℝ)).mpr this
    rw [Rat.cast_abs] at this
    push_cast at this; exact this
  have c2 : |((dq : ℚ) : ℝ) - (1 - ((sqm : ℚ) : ℝ))| ≤
      ((u (tanW F) : ℚ) : ℝ) * (1 - ((sqm : ℚ) : ℝ)) := by
    have := (Rat.cast_le (K := ℝ)).mpr hdrel
    rw [Rat.cast_abs] at this
    push_cast at this; exact this
  have c3 : |((b.mag : ℚ) : ℝ) - Real.sqrt ((dq : ℚ) : ℝ)| ≤
      ((u (tanW F) : ℚ) : ℝ) * ((b.mag : ℚ) : ℝ) := by
    refine le_trans (le_of_lt hbreal) ?_
    have := (Rat.cast_le (K := ℝ)).mpr hulpb
    push_cast at this; exact this
  have c4 : |((q : ℚ) : ℝ) - ((sx.mag : ℚ) : ℝ) / ((b.mag : ℚ) : ℝ)| ≤
      ((u (tanW F) : ℚ) : ℝ) * (((sx.mag : ℚ) : ℝ) / ((b.mag : ℚ) : ℝ)) := by
    have := (Rat.cast_le (K := ℝ)).mpr hqrel
    rw [Rat.cast_abs] at this
    push_cast at this; exact this
  exact tan_chain hXr0 hXr1 hur0 hur hs c1 c2 (by exact_mod_cast hbpos) c3 c4

/-! ## the final rounding of a value with a tiny relative error -/

/-- rounding to nearest a value of relative error `≤ 2^-(p+6)`: at most `17/32` ulp of the binade
of the exact value -/
theorem rel_round {F : Sem} (hF : F.WF) {rm : RM} (hrm : rm = .nte ∨ rm = .nta) {q : ℚ} {T : ℝ}
    (hq0 : 0 < q) (hle : q ≤ maxFinite F) (hT0 : 0 < T)
    (herr : |((q : ℚ) : ℝ) - T| ≤ (2:ℝ) ^ (-(F.p:ℤ) - 6) * T) (E : ℤ)
    (hE2 : T < (2:ℝ) ^ (E + 1)) (hEmin : F.emin - ((F.p:ℤ) - 1) ≤ E + 1) (hEmax : E + 1 ≤ F.emax) :
    |((rq F rm q : ℚ) : ℝ) - T| ≤ 17/32 * (2:ℝ) ^ (max E F.emin - ((F.p:ℤ) - 1)) := by
  have hcn := cast_near hF hrm hq0 hle E hE2 hEmin hEmax herr
  have hη : 2 * ((2:ℝ) ^ (-(F.p:ℤ) - 6) * T) ≤ ((F.ulp (max E F.emin) : ℚ) : ℝ) / 32 := by
    have hpow : (0:ℝ) < (2:ℝ) ^ (-(F.p:ℤ) - 6) := by positivity
    have h1 : (2:ℝ) ^ (-(F.p:ℤ) - 6) * T ≤ (2:ℝ) ^ (-(F.p:ℤ) - 6) * (2:ℝ) ^ (E + 1) :=
      mul_le_mul_of_nonneg_left (le_of_lt hE2) (le_of_lt hpow)
    have h2 : (2:ℝ) ^ (-(F.p:ℤ) - 6) * (2:ℝ) ^ (E + 1) = (2:ℝ) ^ (E - ((F.p:ℤ) - 1)) / 64 := by
      rw [← zpow_add₀ (by norm_num : (2:ℝ) ≠ 0),
        show -(F.p:ℤ) - 6 + (E + 1) = (E - ((F.p:ℤ) - 1)) + (-6) by ring,
        zpow_add₀ (by norm_num : (2:ℝ) ≠ 0)]
      norm_num; ring
    have h3 : (2:ℝ) ^ (E - ((F.p:ℤ) - 1)) ≤ ((F.ulp (max E F.emin) : ℚ) : ℝ) := by
      unfold Sem.ulp
      push_cast
      exact zpow_le_zpow_right₀ (by norm_num) (by have := le_max_left E F.emin; omega)
    linarith
  have hulp : ((F.ulp (max E F.emin) : ℚ) : ℝ) = (2:ℝ) ^ (max E F.emin - ((F.p:ℤ) - 1)) := by
    unfold Sem.ulp; push_cast; rfl
  rw [← hulp]
  linarith

end Arp.TrigErr
