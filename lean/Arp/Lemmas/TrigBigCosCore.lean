import Arp.Lemmas.TrigBigCos
/-!
# `cosFuel` for `1 ≤ |x| ≤ 128`: budget and assembly

* `cosErrBig F = (4 + 1/256)^k·(JsB + 6)·u_W`: the computable bound of the absolute error of the
  working-format result (`k` double-angle steps, the loop of the Taylor stage has stopped after
  `JsB = ⌊(p_W + 6)/(2(k−1))⌋ + 1` iterations); `cos_budget_big`: it is `≤ 2^-(p+2)` for
  `8 ≤ p ≤ 488`;
* `cos_big_core`: the result of `cosFuel` is the nearest rounding of `|ρ|` with the sign
  `flag xor (ρ < 0)`, where `|ρ − cos θq| ≤ cosErrBig`, `|θq − θ| ≤ 184·2^-p_W` and
  `cos |x| = ± cos θ` (minus iff `flag`).
-/
namespace Arp.TrigErr
open Arp Arp.SpecRound Arp.RelErr Arp.Ln2 Arp.Sqrt

/-- an iteration index by which the Taylor loop has stopped (arguments up to `(4/5)/2^(k-1)`) -/
def cosJsBig (F : Sem) : ℕ := ((cosW F).p + 6) / (2 * (cosSteps F - 1)) + 1

/-- bound of the absolute error of the working-format result of `cos` after the reduction -/
def cosErrBig (F : Sem) : ℚ := Gc ^ cosSteps F * (((cosJsBig F : ℕ) : ℚ) + 6) * u (cosW F)

def cosBudgetBigNat (p : Nat) : Bool :=
  let L := Nat.log2 p + 1
  let pW := p + 14 + L
  let Lw := Nat.log2 pW + 1
  let k := Lw * 8 / 10
  let Js := (pW + 6) / (2 * (k - 1)) + 1
  decide (1025 ^ k * (Js + 6) * 2 ^ (p + 3) ≤ 256 ^ k * 2 ^ pW)

set_option maxRecDepth 100000 in
set_option exponentiation.threshold 4000 in
theorem cosBudgetBig_all : ∀ p, p < 489 → 8 ≤ p → cosBudgetBigNat p = true := by decide

/-- **error budget of `cos` after the reduction**: `cosErrBig F ≤ 2^-(p+2)` for `8 ≤ p ≤ 488` -/
theorem cos_budget_big (F : Sem) (hp : 8 ≤ F.p) (hp488 : F.p ≤ 488) :
    cosErrBig F ≤ (2:ℚ) ^ (-(F.p:ℤ) - 2) := by
  unfold cosErrBig
  have hb := cosBudgetBig_all F.p (by omega) hp
  unfold cosBudgetBigNat at hb
  simp only [decide_eq_true_eq] at hb
  have hLeq := logPrecision_eq hp
  have hk : cosSteps F = (Nat.log2 (F.p + 14 + (Nat.log2 F.p + 1)) + 1) * 8 / 10 := by
    unfold cosSteps; rw [cos_logPrec hp]
  have hpW : (cosW F).p = F.p + 14 + (Nat.log2 F.p + 1) := by rw [cosW_p, hLeq]
  have hJs : cosJsBig F = (F.p + 14 + (Nat.log2 F.p + 1) + 6) /
      (2 * ((Nat.log2 (F.p + 14 + (Nat.log2 F.p + 1)) + 1) * 8 / 10 - 1)) + 1 := by
    unfold cosJsBig; rw [hk, hpW]
  rw [← hk, ← hpW] at hb
  have hJs' : (cosW F).p + 6 = F.p + 14 + (Nat.log2 F.p + 1) + 6 := by rw [hpW]
  rw [← hJs', ← hk] at hJs
  rw [← hJs] at hb
  have hq : ((1025:ℚ) ^ cosSteps F * (((cosJsBig F : ℕ) : ℚ) + 6)) * (2:ℚ) ^ (F.p + 3) ≤
      (256:ℚ) ^ cosSteps F * (2:ℚ) ^ (cosW F).p := by exact_mod_cast hb
  have hG : Gc ^ cosSteps F = (1025:ℚ) ^ cosSteps F / (256:ℚ) ^ cosSteps F := by
    unfold Gc; rw [← div_pow]; norm_num
  have h256 : (0:ℚ) < (256:ℚ) ^ cosSteps F := by positivity
  have hu : u (cosW F) = 2 / (2:ℚ) ^ (cosW F).p := by
    unfold RelErr.u
    rw [zpow_sub₀ (by norm_num : (2:ℚ) ≠ 0), zpow_one, zpow_natCast]
  have hr : (2:ℚ) ^ (-(F.p:ℤ) - 2) = 2 / (2:ℚ) ^ (F.p + 3) := by
    rw [show (-(F.p:ℤ) - 2) = 1 - ((F.p + 3 : ℕ) : ℤ) by push_cast; ring,
      zpow_sub₀ (by norm_num : (2:ℚ) ≠ 0), zpow_one, zpow_natCast]
  rw [hG, hu, hr]
  have h2p : (0:ℚ) < (2:ℚ) ^ (cosW F).p := by positivity
  have h2q : (0:ℚ) < (2:ℚ) ^ (F.p + 3) := by positivity
  rw [div_mul_eq_mul_div, div_mul_div_comm, div_le_div_iff₀ (by positivity) h2q]
  nlinarith

/-- lower bound of a non-zero reduced argument of `cos`, divided by `4^k` -/
def cosLoBig (F : Sem) : ℚ :=
  (2:ℚ) ^ (-(((cosW F).p - 1 : ℕ) : ℤ) - 2 * (cosSteps F : ℤ))

theorem cosLoBig_mul (F : Sem) :
    cosLoBig F * 4 ^ (cosSteps F) = 1 / 2 ^ ((cosW F).p - 1) := by
  unfold cosLoBig
  have : (4:ℚ) ^ (cosSteps F) = (2:ℚ) ^ ((2 * cosSteps F : ℕ) : ℤ) := by
    rw [zpow_natCast, show (4:ℚ) = 2 ^ 2 by norm_num, ← pow_mul]
  rw [this, ← zpow_add₀ (by norm_num : (2:ℚ) ≠ 0), one_div, ← zpow_natCast, ← zpow_neg]
  congr 1; push_cast; ring

/-- the working format of `cos` with the lower bound `2^(1-p_W)/4^k` -/
theorem cosW_ctx_big (F : Sem) (hF : F.WF) (hp : 8 ≤ F.p) (hdom : F.p ≤ 2 ^ (F.e - 1) - 2)
    (hrm : F.rm = .nte ∨ F.rm = .nta) : SCtx (cosW F) (cosLoBig F) := by
  obtain ⟨hL4, hL1, hL2⟩ := logPrec_bounds hp
  have hLeq := logPrecision_eq hp
  have hBL := pow_e_ge hp hdom
  obtain ⟨hk4, hkL⟩ := cosSteps_bounds hp
  set k := cosSteps F with hk
  set L := F.logPrecision with hLdef
  have hL4' : 4 ≤ L := by omega
  have h27 := num_27L L hL4'
  have hpL : F.p < 2 ^ L := by rw [hLeq]; exact hL2
  have hemin : F.emin = 2 - ((2 ^ (F.e - 1) : ℕ) : ℤ) := Sem.emin_eq F
  have hWemin := cosW_emin hF
  have hWemax := cosW_emax hF
  have hB : (F.p : ℤ) + 2 ≤ ((2 ^ (F.e - 1) : ℕ) : ℤ) := by
    have : F.p + 2 ≤ 2 ^ (F.e - 1) := by omega
    exact_mod_cast this
  have hBL' : ((2 ^ L : ℕ) : ℤ) ≤ ((2 ^ (F.e - 1) : ℕ) : ℤ) := by exact_mod_cast hBL
  have hpL' : (F.p:ℤ) < ((2 ^ L : ℕ) : ℤ) := by exact_mod_cast hpL
  have h27' : 27 * (L:ℤ) + 42 ≤ 13 * ((2 ^ L : ℕ) : ℤ) := by exact_mod_cast h27
  have hkL' : (k:ℤ) ≤ (L:ℤ) + 2 := by exact_mod_cast hkL
  have hLle : (L:ℤ) ≤ (F.p:ℤ) := by
    have : L ≤ F.p := by
      have h1 : L - 1 < 2 ^ (L - 1) := Nat.lt_two_pow_self
      have h2 : 2 ^ (L - 1) ≤ F.p := by rw [hLeq]; simpa using hL1
      omega
    exact_mod_cast this
  have hWp : ((cosW F).p : ℤ) = (F.p:ℤ) + 14 + (L:ℤ) := by rw [cosW_p]; push_cast; rfl
  have hWp1 : (((cosW F).p - 1 : ℕ) : ℤ) = (F.p:ℤ) + 13 + (L:ℤ) := by
    have : 1 ≤ (cosW F).p := by rw [cosW_p]; omega
    omega
  refine ⟨Sem.wide_WF hF 14 4, by rw [cosW_rm]; exact hrm, ?_, ?_, ?_, ?_, ?_⟩
  · rw [cosW_p]; omega
  · rw [hWp, hWemax]; omega
  · unfold cosLoBig; positivity
  · unfold cosLoBig
    rw [← zpow_natCast, ← zpow_mul]
    apply zpow_le_zpow_right₀ (by norm_num)
    rw [hWemin, hWp1]
    generalize ((2 ^ (F.e - 1) : ℕ) : ℤ) = B at *
    generalize ((2 ^ L : ℕ) : ℤ) = T at *
    push_cast; omega
  · unfold cosLoBig delta Sem.ulp RelErr.u
    rw [show (1024:ℚ) = (2:ℚ) ^ (10:ℤ) by norm_num, ← zpow_add₀ (by norm_num : (2:ℚ) ≠ 0),
      ← zpow_add₀ (by norm_num : (2:ℚ) ≠ 0)]
    apply zpow_le_zpow_right₀ (by norm_num)
    rw [hWemin, hWp, hWp1]
    generalize ((2 ^ (F.e - 1) : ℕ) : ℤ) = B at *
    generalize ((2 ^ L : ℕ) : ℤ) = T at *
    omega

theorem cos_big_arith {f u : ℚ} (hu : 0 < u) (hf3 : 3 * u ≤ f) (hf : f ≤ 1/1024) :
    4 * (f - 3 * u) + 2 * (f - 3 * u) ^ 2 + 8 * u ≤ Gc * f := by
  unfold Gc
  have h0 : 0 ≤ f - 3 * u := by linarith
  have h1 : f - 3 * u ≤ 1/1024 := by linarith
  have : (f - 3 * u) * (f - 3 * u) ≤ (1/1024) * (f - 3 * u) :=
    mul_le_mul_of_nonneg_right h1 h0
  nlinarith

/-- the working-format stage of `cos` after the reduction: a signed `ρ` close to `cos θq` -/
theorem cos_work_big (F : Sem) (hF : F.WF) (hp : 8 ≤ F.p) (hp488 : F.p ≤ 488)
    (hdom : F.p ≤ 2 ^ (F.e - 1) - 2) (hrm : F.rm = .nte ∨ F.rm = .nta) {v4 : Flt} {θq : ℚ}
    (hv4 : NN (cosW F) v4 θq) (hfix : Fix ((cosW F).p - 1) θq) (hθ0 : 0 ≤ θq) (hθ85 : θq ≤ 8/5) :
    ∃ ρ : ℚ, (cosStep4 (cosSteps F) v4).Canonical ∧ (cosStep4 (cosSteps F) v4).sem = cosW F ∧
      (((cosStep4 (cosSteps F) v4).cat = .zero ∧ ρ = 0) ∨
        ((cosStep4 (cosSteps F) v4).cat = .normal ∧ (cosStep4 (cosSteps F) v4).mag = |ρ| ∧
          (cosStep4 (cosSteps F) v4).sign = decide (ρ < 0))) ∧
      |((ρ : ℚ) : ℝ) - Real.cos ((θq : ℚ) : ℝ)| ≤ ((cosErrBig F : ℚ) : ℝ) := by
  have hW : (cosW F).WF := Sem.wide_WF hF 14 4
  have S := cosW_ctx_big F hF hp hdom hrm
  have hu0 := RelErr.u_pos (cosW F)
  obtain ⟨hk4, _⟩ := cosSteps_bounds hp
  have hbud := cos_budget_big F hp hp488
  have hG1 : (1:ℚ) ≤ Gc := by unfold Gc; norm_num
  have hG0 : (0:ℚ) ≤ Gc := by linarith
  have hb10 : cosErrBig F ≤ 1/1024 := by
    refine le_trans hbud ?_
    calc (2:ℚ) ^ (-(F.p:ℤ) - 2) ≤ (2:ℚ) ^ (-10:ℤ) := zpow_le_zpow_right₀ (by norm_num) (by omega)
      _ = 1/1024 := by norm_num
  set k := cosSteps F with hk
  set Js := cosJsBig F with hJs
  have hJ0 : (0:ℚ) ≤ (Js:ℚ) := by positivity
  have hGk1 : (1:ℚ) ≤ Gc ^ k := one_le_pow₀ hG1
  have hbigdef : cosErrBig F = Gc ^ k * (((Js:ℚ) + 6) * u (cosW F)) := by
    unfold cosErrBig; ring
  rcases eq_or_lt_of_le hθ0 with hz | hpos
  · -- a zero reduced argument
    have hv4z : v4.cat = .zero := by
      rcases hv4.fin with h | h
      · have := nn_val_pos_normal hv4 h; linarith
      · exact h
    have hKz : Gc ^ k * (3 * u (cosW F)) ≤ 1/512 := by
      have : Gc ^ k * (3 * u (cosW F)) ≤ Gc ^ k * (((Js:ℚ) + 6) * u (cosW F)) :=
        mul_le_mul_of_nonneg_left (by nlinarith) (by linarith)
      rw [← hbigdef] at this; linarith
    obtain ⟨hP, herr⟩ := cosStep4_zero S k hKz k v4 (le_refl _) hv4.sem hv4.can hv4z
    have hm0 := hP.mag_pos
    refine ⟨(cosStep4 k v4).mag, hP.can, hP.sem, Or.inr ⟨hP.cat, (abs_of_pos hm0).symm, ?_⟩, ?_⟩
    · rw [hP.sign]; symm; simp only [decide_eq_false_iff_not, not_lt]; exact le_of_lt hm0
    · rw [← hz]
      simp only [Rat.cast_zero, Real.cos_zero]
      have h1 : |(cosStep4 k v4).mag - 1| ≤ cosErrBig F := by
        rw [hbigdef]
        have : Gc ^ k * (3 * u (cosW F)) ≤ Gc ^ k * (((Js:ℚ) + 6) * u (cosW F)) :=
          mul_le_mul_of_nonneg_left (by nlinarith) (by linarith)
        linarith
      have := (Rat.cast_le (K := ℝ)).mpr h1
      rw [Rat.cast_abs] at this
      push_cast at this ⊢
      exact this
  · -- a positive reduced argument
    obtain ⟨hv4P, hv4mag⟩ := posN_of_nn hv4 hpos
    obtain ⟨s, hs⟩ : ∃ s, k = s + 1 := ⟨k - 1, by omega⟩
    have hs3 : 3 ≤ s := by omega
    have hJsdef : Js = ((cosW F).p + 6) / (2 * s) + 1 := by
      rw [hJs]; unfold cosJsBig; rw [← hk, hs]; rfl
    have hlo1 : cosLoBig F * 4 ^ k ≤ θq := by
      rw [hk, cosLoBig_mul]; exact hfix.pos_ge hpos
    have hlo_le : cosLoBig F ≤ θq := by
      have h4 : (1:ℚ) ≤ 4 ^ k := one_le_pow₀ (by norm_num)
      have := S.lo_pos
      nlinarith
    have hlo_le1 : cosLoBig F ≤ 2 := by linarith
    have hXlo : 256 * (2:ℚ) ^ (cosW F).emin ≤ v4.mag := by
      rw [hv4mag]
      have h10 := S.lo10
      have e : (2:ℚ) ^ ((cosW F).emin + 10) = 1024 * (2:ℚ) ^ (cosW F).emin := by
        rw [zpow_add₀ (by norm_num : (2:ℚ) ≠ 0)]; norm_num; ring
      rw [e] at h10
      have hl0 := S.lo_pos
      have hE0 : (0:ℚ) < (2:ℚ) ^ (cosW F).emin := by positivity
      have h2 : cosLoBig F * cosLoBig F ≤ 2 * 2 :=
        mul_le_mul hlo_le1 hlo_le1 (le_of_lt hl0) (by norm_num)
      have h3 : cosLoBig F ^ 3 ≤ 4 * cosLoBig F := by
        have := mul_le_mul_of_nonneg_right h2 (le_of_lt hl0)
        nlinarith
      linarith
    obtain ⟨hxhP, hxh1, hxh2⟩ := cos_half_big S hv4P (by rw [hv4mag]; exact hθ85) hXlo
    rw [hv4mag] at hxh1 hxh2
    set xh := v4.scale (-1) .none with hxh
    -- the parameters of the inner chain
    set τ : ℚ := (4/5) / 2 ^ s with hτ
    have h2s : (0:ℚ) < 2 ^ s := by positivity
    have hτle : τ ≤ 1 / 2 ^ s := by rw [hτ]; apply div_le_div_of_nonneg_right (by norm_num) (le_of_lt h2s)
    have hτ8 : τ ≤ 1/8 := by
      refine le_trans hτle ?_
      have : (2:ℚ) ^ 3 ≤ 2 ^ s := pow_le_pow_right₀ (by norm_num) hs3
      rw [div_le_div_iff₀ h2s (by norm_num)]
      norm_num at this ⊢; linarith
    have hτ0 : 0 < τ := by rw [hτ]; positivity
    have hE0 : (0:ℚ) ≤ ((Js:ℚ) + 3) * u (cosW F) := by positivity
    have hJs1 : 1 ≤ Js := by rw [hJsdef]; exact Nat.le_add_left 1 _
    have hJsk : (cosW F).p + 6 < 2 * s * Js := by
      rw [hJsdef]
      exact Nat.lt_mul_div_succ _ (by omega)
    have hsmallterm : (τ ^ 2) ^ Js < u (cosW F) / 64 := by
      have e0 : (τ ^ 2) ^ Js ≤ ((1 / 2 ^ s : ℚ) ^ 2) ^ Js :=
        pow_le_pow_left₀ (by positivity) (pow_le_pow_left₀ (le_of_lt hτ0) hτle 2) Js
      have e1 : ((1 / 2 ^ s : ℚ) ^ 2) ^ Js = 1 / (2:ℚ) ^ (2 * s * Js) := by
        rw [div_pow, div_pow, one_pow, one_pow, ← pow_mul, ← pow_mul]; congr 2; ring
      have e2 : u (cosW F) / 64 = 1 / (2:ℚ) ^ ((cosW F).p + 5) := by
        unfold RelErr.u
        rw [zpow_sub₀ (by norm_num : (2:ℚ) ≠ 0), zpow_one, zpow_natCast, pow_add]
        field_simp; norm_num
      rw [e1] at e0
      refine lt_of_le_of_lt e0 ?_
      rw [e2]
      apply one_div_lt_one_div_of_lt (by positivity)
      exact pow_lt_pow_right₀ (by norm_num) (by omega)
    have hT : ∀ z : Flt, PosN (cosW F) z → cosLoBig F ≤ z.mag → z.mag ≤ τ →
        PosN (cosW F) (cosTaylor z) ∧
          |(((cosTaylor z).mag : ℚ) : ℝ) - Real.cos ((z.mag : ℚ) : ℝ)| ≤
            ((((Js:ℚ) + 3) * u (cosW F) : ℚ) : ℝ) := by
      intro z hz hzlo hzτ
      obtain ⟨hP, _, h2⟩ := cosTaylor_acc2 S hz hzlo (le_trans hzτ hτ8)
      refine ⟨hP, h2 Js hJs1 ?_⟩
      have hz0 := hz.mag_pos
      have : (z.mag ^ 2) ^ Js ≤ (τ ^ 2) ^ Js :=
        pow_le_pow_left₀ (by positivity) (pow_le_pow_left₀ (le_of_lt hz0) hzτ 2) Js
      linarith
    set f : ℚ := Gc ^ s * (((Js:ℚ) + 3) * u (cosW F) + 3 * u (cosW F)) with hf
    have hGs1 : (1:ℚ) ≤ Gc ^ s := one_le_pow₀ hG1
    have hf3 : 3 * u (cosW F) ≤ f := by
      rw [hf]; nlinarith
    have hGf : Gc * f = cosErrBig F := by
      rw [hbigdef, hf, hs, pow_succ]; ring
    have hf512 : f ≤ 1/1024 := by
      have : f ≤ Gc * f := by nlinarith
      linarith
    have hK : Gc ^ s * (((Js:ℚ) + 3) * u (cosW F) + 3 * u (cosW F)) ≤ 1/512 := by
      rw [← hf]; linarith
    have hu1 : u (cosW F) ≤ 1/2 := by nlinarith
    have hloxh : cosLoBig F * 4 ^ s ≤ xh.mag := by
      have e : cosLoBig F * 4 ^ k = 4 * (cosLoBig F * 4 ^ s) := by rw [hs, pow_succ]; ring
      rw [e] at hlo1
      have : θq / 4 ≤ (1 - u (cosW F)) * (θq / 2) := by nlinarith
      linarith
    have h2sτ : (2:ℚ) ^ s * τ = 4/5 := by rw [hτ]; field_simp
    obtain ⟨hsxP, hsxerr⟩ := cosStep4_acc S s _ τ hE0 hT hK s xh (le_refl _) hxhP
      (by linarith) (by rw [h2sτ]; linarith) hloxh
    rw [← hf] at hsxerr
    set sx := cosStep4 s xh with hsx
    set e : ℚ := f - 3 * u (cosW F) with he
    have he0 : 0 ≤ e := by rw [he]; linarith
    have he512 : e ≤ 1/512 := by rw [he]; linarith
    have hsxerr' : |((sx.mag : ℚ) : ℝ) - Real.cos ((xh.mag : ℚ) : ℝ)| ≤ ((e : ℚ) : ℝ) := by
      rw [he]; push_cast at hsxerr ⊢; linarith
    obtain ⟨ρ, hρv, hρc, hρs, hρcases, hρerr⟩ := cos_level_big S hv4P
      (by rw [hv4mag]; exact hθ85) hXlo he0 he512 hsxP hsxerr'
    have hstep : cosStep4 k v4 = subWithRm ((sx.sqr).scale 1 .none) (Flt.one (cosW F) false) .none := by
      rw [hs]
      show subWithRm (((cosStep4 s (v4.scale (-1) .none)).sqr).scale 1 .none)
        (Flt.one v4.sem false) .none = _
      rw [hv4.sem]
    rw [hstep]
    rw [hv4mag] at hρerr
    refine ⟨ρ, hρc, hρs, hρcases, le_trans hρerr ((Rat.cast_le (K := ℝ)).mpr ?_)⟩
    rw [← hGf, he]
    exact cos_big_arith hu0 hf3 hf512

/-- **`cosFuel` for `1 ≤ |x| ≤ 128`** (given the accuracy of `π`): the result is the rounding of
`|ρ|` with the sign `flag xor (ρ < 0)`. -/
theorem cos_big_core (x : Flt) (hF : x.sem.WF) (hp : 8 ≤ x.sem.p) (hp488 : x.sem.p ≤ 488)
    (hdom : x.sem.p ≤ 2 ^ (x.sem.e - 1) - 2) (hrm : x.sem.rm = .nte ∨ x.sem.rm = .nta)
    (hc : x.Canonical) (hn : x.cat = .normal) (hbig : 0 ≤ x.exp) (h128 : x.mag ≤ 128)
    {fuel0 : ℕ} (hpi : PiOKAt (cosW x.sem) fuel0) (fuel : ℕ) (hfuel : fuel0 ≤ fuel) :
    ∃ (r : Flt) (ρ : ℚ) (flag : Bool) (θq : ℚ) (θ : ℝ), x.cosFuel fuel = some r ∧
      (r.cat = .normal ∨ r.cat = .zero) ∧ r.Canonical ∧ r.sem = x.sem ∧
      r.val = (if xor flag (decide (ρ < 0)) then -1 else 1) * rq x.sem x.sem.rm |ρ| ∧
      |((ρ : ℚ) : ℝ) - Real.cos ((θq : ℚ) : ℝ)| ≤ ((cosErrBig x.sem : ℚ) : ℝ) ∧
      |((θq : ℚ) : ℝ) - θ| ≤ 184 * (2:ℝ) ^ (-((cosW x.sem).p:ℤ)) ∧
      Real.cos ((x.mag : ℚ) : ℝ) = (if flag then -1 else 1) * Real.cos θ := by
  have hW : (cosW x.sem).WF := Sem.wide_WF hF 14 4
  have S' := cosW_ctx_big x.sem hF hp hdom hrm
  obtain ⟨hL4, hL1, hL2⟩ := logPrec_bounds hp
  have hLeq := logPrecision_eq hp
  have hLle : x.sem.logPrecision ≤ x.sem.p := by
    have h1 : Nat.log2 x.sem.p < 2 ^ Nat.log2 x.sem.p := Nat.lt_two_pow_self
    omega
  obtain ⟨pi, hpiH, hpifuel⟩ := hpi.piHat hW
  obtain ⟨a1, a2, a3, a4, a5⟩ := C06.widen_lossless_normal x (cosW x.sem) .none
    (by rw [cosW_e]; omega) (by rw [cosW_p]; omega) hF hW hn hc
  set v0 := x.castWithRm (cosW x.sem) .none with hv0
  obtain ⟨hPos, hmag⟩ := absOf_posN a1 a2 a3
  rw [a5] at hmag
  have hemin8 : x.sem.emin ≤ -8 := by
    have := Sem.emin_eq x.sem
    have h2 : 10 ≤ 2 ^ (x.sem.e - 1) := by omega
    have : (10:ℤ) ≤ ((2 ^ (x.sem.e - 1) : ℕ) : ℤ) := by exact_mod_cast h2
    omega
  have hX1 : 1 ≤ x.mag := one_le_mag hF (by omega) hn hc hbig
  have hfuelrem : (cosW x.sem).p + 10 ≤ innerFuel := by
    rw [cosW_p]; unfold innerFuel; omega
  obtain ⟨v4, flag, θq, hred, hv4, hθfix, hθ0, hθ85, θ, hθerr, hcos⟩ :=
    cos_reduce hW S'.p24 S'.pemax hfuelrem hpiH hPos (by rw [hmag]; exact hX1)
      (by rw [hmag]; exact h128)
  rw [hmag] at hcos
  set k := cosSteps x.sem with hk
  have hfuelEq : x.cosFuel fuel =
      some ((if flag then (cosStep4 k v4).neg else cosStep4 k v4).cast x.sem) := by
    rw [cosFuel_normal fuel x hn]
    have hd : decide (x.exp < 0) = false := by simp; omega
    rw [hd]
    unfold cosTail
    have hpf : piFuel fuel ((x.sem.growLog 14).increaseExponent 4) = some pi := hpifuel fuel hfuel
    have hred' : cosRedCore pi (absOf (x.castWithRm ((x.sem.growLog 14).increaseExponent 4) .none))
        = some (v4, flag) := hred
    dsimp only
    rw [cosRed_big, hpf]
    simp only
    rw [hred']
    rfl
  obtain ⟨ρ, hrc, hrs, hrcases, hρerr⟩ :=
    cos_work_big x.sem hF hp hp488 hdom hrm hv4 hθfix hθ0 hθ85
  rw [← hk] at hrc hrs hrcases
  set res := cosStep4 k v4 with hres
  set y := (if flag then res.neg else res) with hy
  have hy_sem : y.sem = cosW x.sem := by
    rw [hy]; split
    · exact hrs
    · exact hrs
  have hycast : y.cast x.sem = y.castWithRm x.sem x.sem.rm := by
    unfold Flt.cast; rw [hy_sem, cosW_rm]
  have hcast : ((y.castWithRm x.sem x.sem.rm).cat = .normal ∨
        (y.castWithRm x.sem x.sem.rm).cat = .zero) ∧ (y.castWithRm x.sem x.sem.rm).Canonical ∧
      (y.castWithRm x.sem x.sem.rm).sem = x.sem ∧
      (y.castWithRm x.sem x.sem.rm).val =
        (if xor flag (decide (ρ < 0)) then -1 else 1) * rq x.sem x.sem.rm |ρ| := by
    rcases hrcases with ⟨hz, hρ0⟩ | ⟨hnor, hmg, hsg⟩
    · have hycat : y.cat = .zero := by
        rw [hy]; split <;> exact hz
      have hyz : y.cat ≠ .normal := by rw [hycat]; decide
      obtain ⟨c1, c2, c3, c4⟩ := C06.cast_special_canonical y x.sem x.sem.rm hyz
      have hrcat : (y.castWithRm x.sem x.sem.rm).cat = .zero := by rw [c2, hycat]
      refine ⟨Or.inr hrcat, c1, c4, ?_⟩
      rw [Flt.val_zero hrcat, hρ0, abs_zero, rq_zero, mul_zero]
    · have hbud := cos_budget_big x.sem hp hp488
      have hb10 : cosErrBig x.sem ≤ 1/1024 := by
        refine le_trans hbud ?_
        calc (2:ℚ) ^ (-(x.sem.p:ℤ) - 2) ≤ (2:ℚ) ^ (-10:ℤ) :=
              zpow_le_zpow_right₀ (by norm_num) (by omega)
          _ = 1/1024 := by norm_num
      have hρ2 : |ρ| ≤ 2 := by
        have h1 : ((cosErrBig x.sem : ℚ) : ℝ) ≤ 1/1024 := by
          have := (Rat.cast_le (K := ℝ)).mpr hb10; push_cast at this ⊢; linarith
        have h2 := Real.abs_cos_le_one ((θq : ℚ) : ℝ)
        have h3 : |((ρ : ℚ) : ℝ)| ≤ 2 := by
          have := abs_sub_abs_le_abs_sub ((ρ : ℚ) : ℝ) (Real.cos ((θq : ℚ) : ℝ))
          linarith
        rw [← Rat.cast_abs] at h3
        exact_mod_cast h3
      have hy_cat : y.cat = .normal := by
        rw [hy]; split <;> exact hnor
      have hy_can : y.Canonical := by
        rw [hy]; split
        · exact C01.canonical_neg hrc
        · exact hrc
      have hy_mag : y.mag = |ρ| := by
        rw [hy]; split <;> exact hmg
      have hy_sign : y.sign = xor flag (decide (ρ < 0)) := by
        rw [hy, ← hsg]
        cases flag
        · simp
        · simp only [if_true]
          show (!res.sign) = _
          simp
      have hmaxF : (2:ℚ) ≤ maxFinite x.sem := by
        have hp1 : 1 ≤ x.sem.p := by omega
        have h1 := pow_emax_le_maxFinite (F := x.sem) hp1
        have h2 : (2:ℚ) ^ (1:ℤ) ≤ (2:ℚ) ^ x.sem.emax :=
          zpow_le_zpow_right₀ (by norm_num) (Sem.emax_pos hF)
        rw [zpow_one] at h2; linarith
      obtain ⟨c1, c2, c3, c4, c5⟩ := cast_signed hF hrm (by rw [hy_sem]; exact hW) hy_can hy_cat
        (by rw [hy_mag]; linarith)
      rw [hy_sign, hy_mag] at c5
      exact ⟨c1, c3, c4, c5⟩
  rw [← hycast] at hcast
  exact ⟨y.cast x.sem, ρ, flag, θq, θ, hfuelEq, hcast.1, hcast.2.1, hcast.2.2.1, hcast.2.2.2,
    hρerr, hθerr, hcos⟩

/-! ## the tolerance of the final clause -/

/-- twice the absolute error of the working-format result (including the error of the reduced
argument): the absolute tolerance of the final clause near the zeros of `cos` -/
def cosTolBig (F : Sem) : ℚ := 2 * cosErrBig F + 368 * (2:ℚ) ^ (-((cosW F).p:ℤ))

def cosTolNat (p t : Nat) : Bool :=
  let L := Nat.log2 p + 1
  let pW := p + 14 + L
  let Lw := Nat.log2 pW + 1
  let k := Lw * 8 / 10
  let Js := (pW + 6) / (2 * (k - 1)) + 1
  decide ((4 * (1025 ^ k * (Js + 6)) + 368 * 256 ^ k) * 2 ^ (p + t) ≤ 256 ^ k * 2 ^ pW)

set_option maxRecDepth 100000 in
set_option exponentiation.threshold 4000 in
theorem cosTol_all : ∀ p, p < 489 → 8 ≤ p → cosTolNat p 1 = true := by decide

theorem cos_tol_big (F : Sem) (hp : 8 ≤ F.p) (t : ℕ) (ht : cosTolNat F.p t = true) :
    cosTolBig F ≤ (2:ℚ) ^ (-(F.p:ℤ) - (t:ℤ)) := by
  unfold cosTolBig cosErrBig
  have hb := ht
  unfold cosTolNat at hb
  simp only [decide_eq_true_eq] at hb
  have hLeq := logPrecision_eq hp
  have hk : cosSteps F = (Nat.log2 (F.p + 14 + (Nat.log2 F.p + 1)) + 1) * 8 / 10 := by
    unfold cosSteps; rw [cos_logPrec hp]
  have hpW : (cosW F).p = F.p + 14 + (Nat.log2 F.p + 1) := by rw [cosW_p, hLeq]
  have hJs : cosJsBig F = (F.p + 14 + (Nat.log2 F.p + 1) + 6) /
      (2 * ((Nat.log2 (F.p + 14 + (Nat.log2 F.p + 1)) + 1) * 8 / 10 - 1)) + 1 := by
    unfold cosJsBig; rw [hk, hpW]
  rw [← hk, ← hpW] at hb
  have hJs' : (cosW F).p + 6 = F.p + 14 + (Nat.log2 F.p + 1) + 6 := by rw [hpW]
  rw [← hJs', ← hk] at hJs
  rw [← hJs] at hb
  have hq : (4 * ((1025:ℚ) ^ cosSteps F * (((cosJsBig F : ℕ) : ℚ) + 6)) + 368 * (256:ℚ) ^ cosSteps F) *
      (2:ℚ) ^ (F.p + t) ≤ (256:ℚ) ^ cosSteps F * (2:ℚ) ^ (cosW F).p := by exact_mod_cast hb
  have hG : Gc ^ cosSteps F = (1025:ℚ) ^ cosSteps F / (256:ℚ) ^ cosSteps F := by
    unfold Gc; rw [← div_pow]; norm_num
  have h256 : (0:ℚ) < (256:ℚ) ^ cosSteps F := by positivity
  have hu : u (cosW F) = 2 / (2:ℚ) ^ (cosW F).p := by
    unfold RelErr.u
    rw [zpow_sub₀ (by norm_num : (2:ℚ) ≠ 0), zpow_one, zpow_natCast]
  have hr : (2:ℚ) ^ (-(F.p:ℤ) - (t:ℤ)) = 1 / (2:ℚ) ^ (F.p + t) := by
    rw [show (-(F.p:ℤ) - (t:ℤ)) = -((F.p + t : ℕ) : ℤ) by push_cast; ring, zpow_neg, zpow_natCast,
      one_div]
  have hw : (2:ℚ) ^ (-((cosW F).p:ℤ)) = 1 / (2:ℚ) ^ (cosW F).p := by
    rw [zpow_neg, zpow_natCast, one_div]
  rw [hG, hu, hr, hw]
  have h2p : (0:ℚ) < (2:ℚ) ^ (cosW F).p := by positivity
  have h2q : (0:ℚ) < (2:ℚ) ^ (F.p + t) := by positivity
  have e : 2 * ((1025:ℚ) ^ cosSteps F / 256 ^ cosSteps F * (((cosJsBig F : ℕ) : ℚ) + 6) *
        (2 / 2 ^ (cosW F).p)) + 368 * (1 / 2 ^ (cosW F).p) =
      (4 * ((1025:ℚ) ^ cosSteps F * (((cosJsBig F : ℕ) : ℚ) + 6)) + 368 * 256 ^ cosSteps F) /
        (256 ^ cosSteps F * 2 ^ (cosW F).p) := by
    field_simp; ring
  rw [e, div_le_div_iff₀ (by positivity) h2q]
  linarith

/-- the final rounding with an absolute error bound `η` of the working-format value -/
theorem final_round_abs {F : Sem} (hF : F.WF) {rm : RM} (hrm : rm = .nte ∨ rm = .nta) {q : ℚ}
    {S η : ℝ} (hq0 : 0 ≤ q) (hq2 : q ≤ 2) (hS1 : |S| ≤ 1) (herr : |((q : ℚ) : ℝ) - S| ≤ η)
    (Eb : ℤ) (hEb : |S| < (2:ℝ) ^ (Eb + 1)) :
    |((rq F rm q : ℚ) : ℝ) - S| ≤ max ((2:ℝ) ^ (max Eb F.emin - ((F.p:ℤ) - 1))) (2 * η) := by
  have hp1 : 1 ≤ F.p := by have := hF.2; omega
  have hη0 : 0 ≤ η := le_trans (abs_nonneg _) herr
  have hemin0 := Sem.emin_le_zero hF
  rcases eq_or_lt_of_le hq0 with hq00 | hqpos
  · subst hq00
    rw [rq_zero]
    refine le_trans ?_ (le_max_right _ _)
    linarith
  set Es : ℤ := min (max Eb (F.emin - (F.p:ℤ))) 0 with hEs
  have hEs0 : Es ≤ 0 := min_le_right _ _
  have hEslo : F.emin - (F.p:ℤ) ≤ Es := le_min (le_max_right _ _) (by omega)
  have hSlt : |S| < (2:ℝ) ^ (Es + 1) := by
    by_cases h0 : max Eb (F.emin - (F.p:ℤ)) ≤ 0
    · rw [hEs, min_eq_left h0]
      exact lt_of_lt_of_le hEb (zpow_le_zpow_right₀ (by norm_num)
        (by have := le_max_left Eb (F.emin - (F.p:ℤ)); omega))
    · rw [hEs, min_eq_right (by omega)]
      norm_num; linarith
  have hmaxle : max Es F.emin ≤ max Eb F.emin := by
    rcases le_total Eb F.emin with h | h
    · rw [max_eq_right h]
      apply max_le _ (le_refl _)
      calc Es ≤ max Eb (F.emin - (F.p:ℤ)) := min_le_left _ _
        _ ≤ F.emin := max_le h (by omega)
    · rw [max_eq_left h]
      apply max_le _ h
      calc Es ≤ max Eb (F.emin - (F.p:ℤ)) := min_le_left _ _
        _ ≤ Eb := max_le (le_refl _) (by omega)
  set U : ℝ := (2:ℝ) ^ (max Es F.emin - ((F.p:ℤ) - 1)) with hU
  have hU0 : 0 < U := by rw [hU]; positivity
  have hUle : U ≤ (2:ℝ) ^ (max Eb F.emin - ((F.p:ℤ) - 1)) :=
    zpow_le_zpow_right₀ (by norm_num) (by omega)
  have hmaxF : q ≤ maxFinite F := by
    have h1 := pow_emax_le_maxFinite (F := F) hp1
    have h2 : (2:ℚ) ^ (1:ℤ) ≤ (2:ℚ) ^ F.emax :=
      zpow_le_zpow_right₀ (by norm_num) (Sem.emax_pos hF)
    rw [zpow_one] at h2; linarith
  have hS' : S < (2:ℝ) ^ (Es + 1) := lt_of_le_of_lt (le_abs_self S) hSlt
  have hcn := cast_near2 hF hrm hqpos hmaxF Es hS' (by omega)
    (by have := Sem.emax_pos hF; omega) herr
  have hulp : ((F.ulp (max Es F.emin) : ℚ) : ℝ) = U := by
    unfold Sem.ulp; push_cast; rfl
  rw [hulp] at hcn
  refine le_trans hcn ?_
  by_cases hUT : η ≤ U / 2
  · refine le_trans ?_ (le_trans hUle (le_max_left _ _))
    apply max_le <;> linarith
  · refine le_trans ?_ (le_max_right _ _)
    have : U / 2 < η := not_le.mp hUT
    apply max_le <;> linarith

end Arp.TrigErr
