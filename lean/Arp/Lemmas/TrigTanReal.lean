import Arp.Lemmas.TrigTan
/-!
# Real-number lemmas for `tan` with `|cos x| ≥ 1/65`

* `tan_chain_gen`: the error propagation of `s/√(1 − s²)` when `sin² ≤ K·cos²`;
* `tan_sq_bound_gen`: `s² (rounded) ≤ 1 − 1/5000`;
* `tan_angle`: from `|cos θ| ≥ 1/65`, `θ ∈ [−δ, π/2 + δ]`, `|θq − θ| ≤ δ`: `cos θq ≥ 1/66`,
  `cos θ ≥ 1/65` and `|tan θq − tan θ| ≤ 4290·δ`.
-/
namespace Arp.TrigErr
open Arp

/-- the error propagation of `s/√(1 − s²)` for `s0² + c0² = 1`, `s0² ≤ K·c0²`, with a sine of
relative error `2u` and four roundings of relative error `u` -/
theorem tan_chain_gen {s0 c0 s sq d b q u K : ℝ} (hs0pos : 0 < s0) (hc0pos : 0 < c0)
    (hpyth : s0 * s0 + c0 * c0 = 1) (hK1 : 1 ≤ K) (hK : s0 * s0 ≤ K * (c0 * c0))
    (hu0 : 0 < u) (hKu : K * u ≤ 1/1000)
    (hs : |s - s0| ≤ 2 * u * s0) (hsq : |sq - s * s| ≤ u * (s * s))
    (hd : |d - (1 - sq)| ≤ u * (1 - sq)) (hb0 : 0 < b) (hb : |b - Real.sqrt d| ≤ u * b)
    (hq : |q - s / b| ≤ u * (s / b)) :
    |q - s0 / c0| ≤ (12 * K + 16) * u * (s0 / c0) := by
  have hss0 : 0 < s0 * s0 := mul_pos hs0pos hs0pos
  have hcc0 : 0 < c0 * c0 := mul_pos hc0pos hc0pos
  have hua : u ≤ K * u := by nlinarith
  have hu : u ≤ 1/1000 := by linarith
  have hu2 : u * u ≤ u / 1000 := by nlinarith
  have hau : K * u * u ≤ u / 1000 := by
    have := mul_le_mul_of_nonneg_right hKu (le_of_lt hu0); linarith
  have hu3 : u * (u * u) ≤ u / 1000000 := by
    have := mul_le_mul_of_nonneg_left hu2 (le_of_lt hu0); nlinarith
  have h2u0 : 0 ≤ 2 * u := by linarith
  -- `s·s`
  have h1 := relR_mul hs0pos hs0pos h2u0 h2u0 hs hs
  have h3 := relR_trans hss0 (le_of_lt hu0) hsq h1
  have h3' : |sq - s0 * s0| ≤ 6 * u * (s0 * s0) := by
    refine le_trans h3 (mul_le_mul_of_nonneg_right ?_ (le_of_lt hss0))
    have e : u + (2 * u + 2 * u + 2 * u * (2 * u)) + u * (2 * u + 2 * u + 2 * u * (2 * u)) =
        5 * u + 8 * (u * u) + 4 * (u * (u * u)) := by ring
    rw [e]; linarith
  -- `1 − sq`
  have h4 : |(1 - sq) - c0 * c0| ≤ 6 * (K * u) * (c0 * c0) := by
    have e : (1 - sq) - c0 * c0 = -(sq - s0 * s0) := by linarith
    rw [e, abs_neg]
    refine le_trans h3' ?_
    have : 6 * u * (s0 * s0) ≤ 6 * u * (K * (c0 * c0)) :=
      mul_le_mul_of_nonneg_left hK (by linarith)
    have e2 : 6 * u * (K * (c0 * c0)) = 6 * (K * u) * (c0 * c0) := by ring
    linarith
  have h5 := relR_trans hcc0 (le_of_lt hu0) hd h4
  have h5' : |d - c0 * c0| ≤ (6 * (K * u) + 2 * u) * (c0 * c0) := by
    refine le_trans h5 (mul_le_mul_of_nonneg_right ?_ (le_of_lt hcc0))
    have e : u + 6 * (K * u) + u * (6 * (K * u)) = u + 6 * (K * u) + 6 * (K * u * u) := by ring
    rw [e]; linarith
  have hdpos : 0 < d := by
    have := relR_lower h5'
    have : 0 < (1 - (6 * (K * u) + 2 * u)) * (c0 * c0) := mul_pos (by linarith) hcc0
    linarith
  have h6 := relR_sqrt hcc0 (by linarith) (by linarith) h5'
  rw [Real.sqrt_mul_self (le_of_lt hc0pos)] at h6
  -- `b`
  have hrd0 : 0 < Real.sqrt d := Real.sqrt_pos.mpr hdpos
  have h7 : |b - Real.sqrt d| ≤ 2 * u * Real.sqrt d := by
    have hb2 : b ≤ 2 * Real.sqrt d := by
      have h1 := (abs_le.mp hb).2
      have h2 : u * b ≤ b / 1000 := by
        have := mul_le_mul_of_nonneg_right hu (le_of_lt hb0); linarith
      linarith
    refine le_trans hb ?_
    have := mul_le_mul_of_nonneg_left hb2 (le_of_lt hu0)
    linarith
  have h8 := relR_trans hc0pos (by linarith) h7 h6
  have h8' : |b - c0| ≤ (6 * (K * u) + 5 * u) * c0 := by
    refine le_trans h8 (mul_le_mul_of_nonneg_right ?_ (le_of_lt hc0pos))
    have e : 2 * u + (6 * (K * u) + 2 * u) + 2 * u * (6 * (K * u) + 2 * u) =
        4 * u + 6 * (K * u) + 12 * (K * u * u) + 4 * (u * u) := by ring
    rw [e]; linarith
  -- the quotient
  have h9 := relR_div hs0pos hc0pos h2u0 (by linarith : 0 ≤ 6 * (K * u) + 5 * u) (by linarith)
    hs h8'
  have ht0 : 0 < s0 / c0 := div_pos hs0pos hc0pos
  have h10 := relR_trans ht0 (le_of_lt hu0) hq h9
  refine le_trans h10 (mul_le_mul_of_nonneg_right ?_ (le_of_lt ht0))
  have e : u + 2 * (2 * u + (6 * (K * u) + 5 * u)) + u * (2 * (2 * u + (6 * (K * u) + 5 * u))) =
      15 * u + 12 * (K * u) + 14 * (u * u) + 12 * (K * u * u) := by ring
  have e2 : (12 * K + 16) * u = 12 * (K * u) + 16 * u := by ring
  rw [e, e2]; linarith

/-- bounds of the computed sine and of its rounded square when `cos ≥ 1/66` -/
theorem tan_sq_bound_gen {s0 c0 s sq u : ℝ} (hs0pos : 0 < s0) (hc : 1/66 ≤ c0)
    (hpyth : s0 * s0 + c0 * c0 = 1) (hu0 : 0 < u) (hu : u ≤ 1/1000000)
    (hs : |s - s0| ≤ 2 * u * s0) (hsq : |sq - s * s| ≤ u * (s * s)) :
    0 < s ∧ s ≤ 1 ∧ sq ≤ 1 - 1/5000 := by
  have hcc : 1/4356 ≤ c0 * c0 := by nlinarith
  have hss : s0 * s0 ≤ 1 - 1/4356 := by linarith
  have hs01 : s0 ≤ 1 := by nlinarith
  have hup := relR_upper hs
  have hlo := relR_lower hs
  have hspos : 0 < s := by
    have : 0 < (1 - 2 * u) * s0 := mul_pos (by linarith) hs0pos
    linarith
  have hs2 : s * s ≤ (1 + 2 * u) * s0 * ((1 + 2 * u) * s0) :=
    mul_le_mul hup hup (le_of_lt hspos) (by nlinarith)
  have hs2' : s * s ≤ (1 + 5 * u) * (s0 * s0) := by
    have e : (1 + 2 * u) * s0 * ((1 + 2 * u) * s0) = (1 + 4 * u + 4 * (u * u)) * (s0 * s0) := by
      ring
    rw [e] at hs2
    have huu : u * u ≤ u / 1000000 := by nlinarith
    have hss0 : 0 ≤ s0 * s0 := by positivity
    have : (1 + 4 * u + 4 * (u * u)) * (s0 * s0) ≤ (1 + 5 * u) * (s0 * s0) :=
      mul_le_mul_of_nonneg_right (by linarith) hss0
    linarith
  have hs2'' : s * s ≤ 1 - 1/4356 + 5 * u := by
    have h1 : (1 + 5 * u) * (s0 * s0) ≤ (1 + 5 * u) * (1 - 1/4356) :=
      mul_le_mul_of_nonneg_left hss (by linarith)
    nlinarith
  refine ⟨hspos, ?_, ?_⟩
  · by_contra h
    have h := not_le.mp h
    have : 1 * 1 < s * s := mul_lt_mul'' h h (by norm_num) (by norm_num)
    linarith
  · have h1 := relR_upper hsq
    have hss1 : s * s ≤ 1 := by linarith
    have h2 : (1 + u) * (s * s) ≤ s * s + u := by nlinarith
    linarith

/-- the geometry of the reduced angle of `tan` when `|cos θ| ≥ 1/65` -/
theorem tan_angle {θq θ δ : ℝ} (hδ0 : 0 ≤ δ) (hδ : δ ≤ 1/100000) (herr : |θq - θ| ≤ δ)
    (hlo : -δ ≤ θ) (hhi : θ ≤ Real.pi / 2 + δ) (hcos : 1/65 ≤ |Real.cos θ|) :
    1/65 ≤ Real.cos θ ∧ 1/66 ≤ Real.cos θq ∧ |Real.tan θq - Real.tan θ| ≤ 4290 * δ := by
  have hpi3 := Real.pi_gt_three
  have h1 : |Real.cos θ| ≤ |Real.pi / 2 - θ| := by
    rw [← Real.sin_pi_div_two_sub]; exact Real.abs_sin_le_abs
  have h2 : 1/65 ≤ Real.pi / 2 - θ := by
    have h3 : 1/65 ≤ |Real.pi / 2 - θ| := le_trans hcos h1
    rcases le_abs'.mp h3 with h | h
    · linarith
    · exact h
  have hcpos : 0 < Real.cos θ :=
    Real.cos_pos_of_mem_Ioo ⟨by linarith, by linarith⟩
  have hc65 : 1/65 ≤ Real.cos θ := by rwa [abs_of_pos hcpos] at hcos
  have hlip := Real.abs_cos_sub_cos_le θq θ
  have hc66 : 1/66 ≤ Real.cos θq := by
    have := (abs_le.mp (le_trans hlip herr)).1
    linarith
  refine ⟨hc65, hc66, ?_⟩
  have hcq0 : 0 < Real.cos θq := by linarith
  rw [Real.tan_eq_sin_div_cos, Real.tan_eq_sin_div_cos,
    div_sub_div _ _ (ne_of_gt hcq0) (ne_of_gt hcpos), abs_div,
    abs_of_pos (mul_pos hcq0 hcpos), div_le_iff₀ (mul_pos hcq0 hcpos)]
  have hnum : Real.sin θq * Real.cos θ - Real.cos θq * Real.sin θ = Real.sin (θq - θ) := by
    rw [Real.sin_sub]
  rw [hnum]
  have hsin : |Real.sin (θq - θ)| ≤ δ := le_trans Real.abs_sin_le_abs herr
  have hden : 1/66 * (1/65) ≤ Real.cos θq * Real.cos θ :=
    mul_le_mul hc66 hc65 (by norm_num) (le_of_lt hcq0)
  nlinarith

/-- `|tan θ| ≤ 2δ` for a tiny angle -/
theorem tan_tiny {θ δ : ℝ} (hδ : δ ≤ 1/10) (h : |θ| ≤ δ) : |Real.tan θ| ≤ 2 * δ := by
  have hδ0 : 0 ≤ δ := le_trans (abs_nonneg _) h
  have hc : 1/2 ≤ Real.cos θ := by
    have := cos_lower θ
    have h2 : θ ^ 2 ≤ 1/100 := by
      have : θ ^ 2 = |θ| ^ 2 := (sq_abs θ).symm
      rw [this]; nlinarith [abs_nonneg θ]
    linarith
  have hs : |Real.sin θ| ≤ δ := le_trans Real.abs_sin_le_abs h
  rw [Real.tan_eq_sin_div_cos, abs_div, abs_of_pos (by linarith : 0 < Real.cos θ),
    div_le_iff₀ (by linarith)]
  nlinarith

end Arp.TrigErr
