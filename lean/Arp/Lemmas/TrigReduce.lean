import Arp.Lemmas.TrigErr
import Arp.Lemmas.Rem
import Arp.Props.C11
import Arp.Props.C15
import Mathlib.Analysis.Real.Pi.Bounds
/-!
# `sin` / `cos` for `1 ≤ |x| ≤ 128`: the argument reduction with a computed `π`

The reduction subtracts multiples of the computed `π̂` (`rem`, exact; `sub_with_rm None`).  All
quantities are fixed-point numbers with `p_W − 1` fractional bits (`Fix`), so that a non-zero
reduced argument is at least `2^(1-p_W)` and the truncating subtractions keep the grid.

* `Fix`, `rq_fix`: the fixed-point grid and its stability under one rounding;
* `PiHat W pi`: `pi` is a positive value of `W` within one ulp `2^(2-p_W)` of `π`;
* `sin_reduce`, `cos_reduce`: the reduced argument and the real angle it approximates.
-/
namespace Arp.TrigErr
open Arp Arp.SpecRound Arp.RelErr Arp.Ln2 Arp.Sqrt

/-! ## fixed-point numbers -/

/-- `q` is an integer multiple of `2^-f` -/
def Fix (f : ℕ) (q : ℚ) : Prop := ∃ N : ℤ, q = (N : ℚ) / 2 ^ f

theorem Fix.zero (f : ℕ) : Fix f 0 := ⟨0, by simp⟩

theorem Fix.sub {f : ℕ} {a b : ℚ} (ha : Fix f a) (hb : Fix f b) : Fix f (a - b) := by
  obtain ⟨A, rfl⟩ := ha; obtain ⟨B, rfl⟩ := hb
  exact ⟨A - B, by push_cast; ring⟩

theorem Fix.nat_mul {f : ℕ} {a : ℚ} (n : ℕ) (ha : Fix f a) : Fix f ((n : ℚ) * a) := by
  obtain ⟨A, rfl⟩ := ha
  exact ⟨n * A, by push_cast; ring⟩

/-- a positive fixed-point number is at least one unit -/
theorem Fix.pos_ge {f : ℕ} {q : ℚ} (h : Fix f q) (hq : 0 < q) : 1 / 2 ^ f ≤ q := by
  obtain ⟨N, rfl⟩ := h
  have h2 : (0:ℚ) < 2 ^ f := by positivity
  have hN : (0:ℚ) < (N:ℚ) := by
    by_contra hc
    have : (N:ℚ) / 2 ^ f ≤ 0 := div_nonpos_of_nonpos_of_nonneg (not_lt.mp hc) (le_of_lt h2)
    linarith
  have hN1 : (1:ℚ) ≤ (N:ℚ) := by
    have : (0:ℤ) < N := by exact_mod_cast hN
    exact_mod_cast this
  exact div_le_div_of_nonneg_right hN1 (le_of_lt h2)

/-- a representable magnitude `≥ 2^j` (`j ≥ emin`) is a multiple of `2^(j-(p-1))` -/
theorem isRep_grid {W : Sem} (hW : W.WF) {c : ℚ} (hc : IsRep W c) {j : ℤ} (hj : (2:ℚ) ^ j ≤ c)
    (hjmin : W.emin ≤ j) : ∃ N : ℕ, c = (N : ℚ) * (2:ℚ) ^ (j - ((W.p:ℤ) - 1)) := by
  have hp : 1 ≤ W.p := by have := hW.2; omega
  obtain ⟨e, m, he1, _, hm, hn, rfl⟩ := hc
  rw [← Sem.ulp_def] at hj ⊢
  have hu := W.ulp_pos e
  have hej : j ≤ e := by
    by_contra hc
    have hlt : e < j := not_le.mp hc
    -- then `m·ulp e < 2^(e+1) ≤ 2^j`
    have hmlt : (m:ℚ) < (2:ℚ) ^ W.p := by exact_mod_cast hm
    have h1 : (m:ℚ) * W.ulp e < (2:ℚ) ^ W.p * W.ulp e := mul_lt_mul_of_pos_right hmlt hu
    rw [W.pow_mul_ulp e] at h1
    have h2 : (2:ℚ) ^ (e + 1) ≤ (2:ℚ) ^ j := zpow_le_zpow_right₀ (by norm_num) (by omega)
    linarith
  obtain ⟨k, rfl⟩ : ∃ k : ℕ, e = j + k := ⟨(e - j).toNat, by omega⟩
  refine ⟨m * 2 ^ k, ?_⟩
  rw [W.ulp_add j k, Sem.ulp_def]
  push_cast; ring

theorem fix_of_isRep {W : Sem} (hW : W.WF) {c : ℚ} (hc : IsRep W c) (h1 : 1 ≤ c) :
    Fix (W.p - 1) c := by
  obtain ⟨N, hN⟩ := isRep_grid hW hc (j := 0) (by simpa using h1) (Sem.emin_le_zero hW)
  refine ⟨N, ?_⟩
  rw [hN, zero_sub, zpow_neg, show ((W.p:ℤ) - 1) = ((W.p - 1 : ℕ) : ℤ) by have := hW.2; omega,
    zpow_natCast]
  push_cast; ring

/-- half of a representable magnitude `≥ 2` is on the grid -/
theorem fix_half_of_isRep {W : Sem} (hW : W.WF) {c : ℚ} (hc : IsRep W c) (h2 : 2 ≤ c) :
    Fix (W.p - 1) (c / 2) := by
  have hemin := Sem.emin_le_zero hW
  obtain ⟨N, hN⟩ := isRep_grid hW hc (j := 1) (by simpa using h2) (by omega)
  refine ⟨N, ?_⟩
  rw [hN, show (1:ℤ) - ((W.p:ℤ) - 1) = -((W.p - 1 : ℕ) : ℤ) + 1 by have := hW.2; omega,
    zpow_add₀ (by norm_num : (2:ℚ) ≠ 0), zpow_neg, zpow_natCast]
  push_cast; ring

/-- **one rounding keeps the grid**: the rounding (any mode, no overflow) of a positive
    fixed-point number with `p − 1` fractional bits is such a number again, and at least one unit -/
theorem rq_fix {W : Sem} (hW : W.WF) (rm : RM) {q : ℚ} (hq : 0 < q) (hle : q ≤ maxFinite W)
    (hfix : Fix (W.p - 1) q) :
    Fix (W.p - 1) (rq W rm q) ∧ 1 / 2 ^ (W.p - 1) ≤ rq W rm q := by
  have hp : 1 ≤ W.p := by have := hW.2; omega
  have hemin := Sem.emin_le_zero hW
  have hpc : ((W.p - 1 : ℕ) : ℤ) = (W.p:ℤ) - 1 := by omega
  constructor
  · obtain ⟨e, m, f, d, _, hv⟩ := rq_core hW hq hle rm
    by_cases he : 0 ≤ e
    · -- the ulp of the result is a multiple of the unit
      obtain ⟨k, rfl⟩ : ∃ k : ℕ, e = (k : ℤ) := ⟨e.toNat, by omega⟩
      have hu : W.ulp (k:ℤ) = (2:ℚ) ^ k / 2 ^ (W.p - 1) := by
        rw [Sem.ulp_def, zpow_sub₀ (by norm_num : (2:ℚ) ≠ 0), zpow_natCast, ← hpc, zpow_natCast]
      rcases hv with hv | hv
      · exact ⟨m * 2 ^ k, by rw [hv, hu]; push_cast; ring⟩
      · exact ⟨(m + 1) * 2 ^ k, by rw [hv, hu]; push_cast; ring⟩
    · -- finer grid: `q` itself is representable
      have he' : e < 0 := not_le.mp he
      obtain ⟨N, hN⟩ := hfix
      obtain ⟨k, hk⟩ : ∃ k : ℕ, -e = (k : ℤ) := ⟨(-e).toNat, by omega⟩
      have hu : W.ulp e = 1 / ((2:ℚ) ^ k * 2 ^ (W.p - 1)) := by
        rw [Sem.ulp_def, show e - ((W.p:ℤ) - 1) = -(((k + (W.p - 1) : ℕ)) : ℤ) by push_cast; omega,
          zpow_neg, zpow_natCast, pow_add, one_div]
      have hupos := W.ulp_pos e
      -- `m + f = N·2^k`
      have hmf : (m:ℚ) + f = (N:ℚ) * 2 ^ k := by
        have h1 := d.hq
        rw [hN, hu] at h1
        have h2k : (0:ℚ) < (2:ℚ) ^ k := by positivity
        have h2p : (0:ℚ) < (2:ℚ) ^ (W.p - 1) := by positivity
        field_simp at h1
        linarith
      have hf : f = ((N * 2 ^ k - m : ℤ) : ℚ) := by push_cast; linarith
      have hf0 := d.hf0
      have hf1 := d.hf1
      have hz : (N * 2 ^ k - m : ℤ) = 0 := by
        rw [hf] at hf0 hf1
        have a1 : (0:ℤ) ≤ N * 2 ^ k - m := by exact_mod_cast hf0
        have a2 : (N * 2 ^ k - m : ℤ) < 1 := by exact_mod_cast hf1
        omega
      have hf0' : f = 0 := by rw [hf, hz]; simp
      have hqm : q = (m:ℚ) * (2:ℚ) ^ (e - ((W.p:ℤ) - 1)) := by
        rw [d.hq, hf0', add_zero, Sem.ulp_def]
      have hrep : IsRep W q := by
        rw [hqm]
        apply isRep_of_lt hW m _ d.hm (by have := d.he; omega)
        rw [← hqm]
        exact lt_of_le_of_lt hle (maxFinite_lt_sr W)
      rw [rq_rep hW hrep]
      exact ⟨N, hN⟩
  · have hunit : IsRep W (1 / 2 ^ (W.p - 1)) := by
      have := isRep_pow2 hW (-((W.p:ℤ) - 1)) (by omega) (by have := Sem.emax_pos hW; omega)
      rwa [zpow_neg, ← hpc, zpow_natCast, ← one_div] at this
    exact rq_ge_of_rep hW hunit (hfix.pos_ge hq) hle rm

/-! ## comparisons of non-negative values -/

theorem nn_remSt {W : Sem} {x : Flt} {v : ℚ} (h : NN W x v) : RemSt W x := by
  refine ⟨h.sem, h.can, ?_⟩
  rcases h.fin with hc | hc
  · exact Or.inr ⟨hc, h.sign hc⟩
  · exact Or.inl hc

theorem nn_gt_iff {W : Sem} (hW : W.WF) {a b : Flt} {va vb : ℚ} (ha : NN W a va)
    (hb : NN W b vb) : a.gt b = true ↔ vb < va := by
  rw [gt_iff_val_rem hW (nn_remSt ha) (nn_remSt hb), ha.val, hb.val]

theorem nn_of_remSt {W : Sem} {x : Flt} (h : RemSt W x) : NN W x x.val := by
  refine ⟨h.sem, h.can, ?_, ?_, rfl⟩
  · rcases h.cat with hz | ⟨hn, _⟩
    · exact Or.inr hz
    · exact Or.inl hn
  · intro hn
    rcases h.cat with hz | ⟨_, hs⟩
    · rw [hz] at hn; cases hn
    · exact hs

/-- difference of non-negative values with a non-negative result (zero included), every mode -/
theorem nn_sub_ge {W : Sem} (hW : W.WF) {a b : Flt} {va vb : ℚ} (rm : RM) (ha : NN W a va)
    (hb : NN W b vb) (hge : vb ≤ va) (hle : va - vb ≤ maxFinite W) :
    NN W (subWithRm a b rm) (rq W rm (va - vb)) := by
  rcases eq_or_lt_of_le hge with heq | hlt
  · -- exact cancellation: a zero
    have hGa : a.sem.WF := by rw [ha.sem]; exact hW
    have hsab : b.sem = a.sem := by rw [ha.sem, hb.sem]
    have hcan := subWithRm_canonical a b rm hGa hsab ha.can hb.can
    have hcor := C01.sub_correct a b rm hGa hsab ha.can hb.can
    rw [ha.sem] at hcor
    rw [← heq, sub_self, rq_zero]
    set b' : Flt := { b with sign := !b.sign } with hb'
    have hb'cat : b'.cat = b.cat := rfl
    have hbv : b'.val = -vb := by rw [hb', C01.val_neg, hb.val]
    have hfb' : b'.cat = .normal ∨ b'.cat = .zero := by rw [hb'cat]; exact hb.fin
    have hz : ∃ s, Spec.sub W rm a b = .zero s := by
      show ∃ s, Spec.add W rm a b' = .zero s
      rcases ha.fin with hca | hca
      · have hzz : ¬ (a.cat = .zero ∧ b'.cat = .zero) := by
          rintro ⟨h1, _⟩; rw [hca] at h1; exact absurd h1 (by decide)
        rw [spec_add_fin W rm a b' ha.fin hfb' hzz, ha.val, hbv, ← heq, add_neg_cancel]
        exact ⟨rm == .neg, by simp [Spec.roundQ]⟩
      · have hva : va = 0 := nn_zero_val ha hca
        have hcb : b.cat = .zero := by
          rcases hb.fin with h | h
          · have := nn_val_pos_normal hb h; linarith
          · exact h
        have hcb' : b'.cat = .zero := hcb
        have hbv0 : b'.val = 0 := Flt.val_zero hcb'
        have hav0 : a.val = 0 := Flt.val_zero hca
        unfold Spec.add
        have e1 : (Cat.zero == Cat.nan) = false := rfl
        have e2 : (Cat.zero == Cat.inf) = false := rfl
        have e3 : (Cat.zero == Cat.zero) = true := rfl
        simp only [Spec.isNan, Spec.isInf, Spec.isZero, hca, hcb', hav0, hbv0, e1, e2, e3,
          Bool.or_self, Bool.and_self, Bool.false_eq_true, if_false, Bool.true_and, add_zero,
          Spec.roundQ, if_true]
        split
        · exact ⟨_, rfl⟩
        · exact ⟨_, rfl⟩
    obtain ⟨s, hs⟩ := hz
    rw [hs] at hcor
    exact nn_of_zero (hcan.2.trans ha.sem) hcan.1 hcor
  · exact nn_sub hW rm ha hb (by linarith) hle

/-! ## the computed `π` -/

/-- `pi` is a positive value of `W` within one ulp `2^(2-p_W)` of `π` -/
structure PiHat (W : Sem) (pi : Flt) : Prop where
  pos : PosN W pi
  err : |((pi.mag : ℚ) : ℝ) - Real.pi| ≤ (2:ℝ) ^ (2 - (W.p:ℤ))

/-- the accuracy hypothesis on `Float::pi` in the working format -/
def PiOK (W : Sem) : Prop :=
  ∃ fuel r, piFuel fuel W = some r ∧ r.cat = .normal ∧ r.sign = false ∧
    |((r.val : ℚ) : ℝ) - Real.pi| ≤ (2:ℝ) ^ (2 - (W.p:ℤ))

theorem PiOK.piHat {W : Sem} (hW : W.WF) (h : PiOK W) :
    ∃ fuel0 pi, PiHat W pi ∧ ∀ fuel, fuel0 ≤ fuel → piFuel fuel W = some pi := by
  obtain ⟨fuel0, r, h1, h2, h3, h4⟩ := h
  have hsem := C15.piFuel_sem fuel0 W r h1
  have hcan := (C15.piFuel_canonical fuel0 W hW r h1).1
  refine ⟨fuel0, r, ⟨⟨hsem, hcan, h2, h3⟩, ?_⟩, fun fuel hf => C15.piFuel_stable W fuel0 fuel hf r h1⟩
  have : r.val = r.mag := by rw [Flt.val_normal h2, h3]; simp
  rw [← this]; exact h4

theorem PiHat.bounds {W : Sem} {pi : Flt} (h : PiHat W pi) (hp : 24 ≤ W.p) :
    313/100 ≤ pi.mag ∧ pi.mag ≤ 316/100 := by
  have h1 := Real.pi_gt_d2
  have h2 := Real.pi_lt_d2
  have he : (2:ℝ) ^ (2 - (W.p:ℤ)) ≤ 1/100 := by
    calc (2:ℝ) ^ (2 - (W.p:ℤ)) ≤ (2:ℝ) ^ (-22:ℤ) := zpow_le_zpow_right₀ (by norm_num) (by omega)
      _ ≤ 1/100 := by norm_num
  obtain ⟨a1, a2⟩ := abs_le.mp h.err
  constructor
  · have : (((313/100 : ℚ)) : ℝ) ≤ ((pi.mag : ℚ) : ℝ) := by push_cast; linarith
    exact (Rat.cast_le (K := ℝ)).mp this
  · have : ((pi.mag : ℚ) : ℝ) ≤ (((316/100 : ℚ)) : ℝ) := by push_cast; linarith
    exact (Rat.cast_le (K := ℝ)).mp this

/-! ## the reduction modulo `2π̂` -/

/-- exponent field of a positive value in the normal range: `2^exp ≤ mag < 2^(exp+1)` -/
theorem posN_exp_bounds {W : Sem} (hW : W.WF) {x : Flt} (hx : PosN W x)
    (hn : (2:ℚ) ^ W.emin ≤ x.mag) : (2:ℚ) ^ x.exp ≤ x.mag ∧ x.mag < (2:ℚ) ^ (x.exp + 1) := by
  have hp : 1 ≤ W.p := by have := hW.2; omega
  obtain ⟨h1, _, _, h4, h5⟩ := (Flt.canonical_normal hx.cat).mp hx.can
  rw [hx.sem] at h1 h4 h5
  have hu := W.ulp_pos x.exp
  have hmag := hx.mag_ulp
  have hmlt : (x.mant:ℚ) < (2:ℚ) ^ W.p := by exact_mod_cast h4
  have hhi : x.mag < (2:ℚ) ^ (x.exp + 1) := by
    rw [hmag, ← W.pow_mul_ulp x.exp]; exact mul_lt_mul_of_pos_right hmlt hu
  refine ⟨?_, hhi⟩
  rcases h5 with h | h
  · have hmq : (2:ℚ) ^ (W.p - 1) ≤ (x.mant:ℚ) := by exact_mod_cast h
    rw [hmag, ← W.half_pow_mul_ulp hp x.exp]
    exact mul_le_mul_of_nonneg_right hmq (le_of_lt hu)
  · rw [h]; exact hn

/-- the reduced argument after the `rem` stage: `V2 = X − n·2π̂ ∈ [0, 2π̂]`, `n ≤ 20`, on the grid -/
theorem red_stage1 {W : Sem} (hW : W.WF) (hp24 : 24 ≤ W.p) (hpemax : (W.p:ℤ) + 2 ≤ W.emax)
    (hfuel : W.p + 10 ≤ innerFuel) {pi v1 : Flt} (hpi : PiHat W pi) (hv1 : PosN W v1)
    (hX1 : 1 ≤ v1.mag) (hX128 : v1.mag ≤ 128) :
    RemPos W (pi.scale 1 .none) ∧ (pi.scale 1 .none).mag = 2 * pi.mag ∧
    ∃ (v2 : Flt) (V2 : ℚ) (n : ℕ),
      (if v1.gt (pi.scale 1 .none) then v1.remM (pi.scale 1 .none) else some v1) = some v2 ∧
      NN W v2 V2 ∧ Fix (W.p - 1) V2 ∧ 0 ≤ V2 ∧ V2 ≤ 2 * pi.mag ∧ n ≤ 20 ∧
      V2 = v1.mag - (n:ℚ) * (2 * pi.mag) := by
  obtain ⟨hP1, hP2⟩ := hpi.bounds hp24
  have hpiR : RemPos W pi := ⟨hpi.pos.sem, hpi.pos.can, hpi.pos.cat, hpi.pos.sign⟩
  have hemin : (2:ℚ) ^ W.emin ≤ 1 := by
    have : (2:ℚ) ^ W.emin ≤ (2:ℚ) ^ (0:ℤ) :=
      zpow_le_zpow_right₀ (by norm_num) (Sem.emin_le_zero hW)
    simpa using this
  -- `2π̂`, exact
  have htop : pi.remTop < 2 + (W.p:ℤ) := by
    have := Flt.remTop_lt_of_mag_lt (a := pi) hpiR.mant_ne (2 + (W.p:ℤ))
      (by rw [hpi.pos.sem]; norm_num; linarith)
    exact this
  obtain ⟨hpi2R, hpi2mag⟩ := scale_exact_rem W hW pi 1 .none hpiR (by norm_num)
    (by have := hp24; omega)
  rw [zpow_one] at hpi2mag
  have hpi2mag' : (pi.scale 1 .none).mag = 2 * pi.mag := by rw [hpi2mag]; ring
  refine ⟨hpi2R, hpi2mag', ?_⟩
  set pi2 := pi.scale 1 .none with hpi2
  have hpi2P : PosN W pi2 := ⟨hpi2R.sem, hpi2R.can, hpi2R.cat, hpi2R.sign⟩
  have hpi2nn : NN W pi2 (2 * pi.mag) := by rw [← hpi2mag']; exact nn_of_posN hpi2P
  have hv1nn := nn_of_posN hv1
  have hXfix : Fix (W.p - 1) v1.mag := fix_of_isRep hW hv1.isRep hX1
  have h2Pfix : Fix (W.p - 1) (2 * pi.mag) := by
    rw [← hpi2mag']; exact fix_of_isRep hW hpi2P.isRep (by rw [hpi2mag']; linarith)
  by_cases hgt : v1.gt pi2 = true
  · -- a genuine remainder
    rw [if_pos hgt]
    have hXY : 2 * pi.mag < v1.mag := (nn_gt_iff hW hv1nn hpi2nn).mp hgt
    have hFv : v1.sem.WF := by rw [hv1.sem]; exact hW
    have hsem : pi2.sem = v1.sem := by rw [hpi2P.sem, hv1.sem]
    -- fuel
    obtain ⟨e1, e2⟩ := posN_exp_bounds hW hv1 (by linarith)
    obtain ⟨f1, f2⟩ := posN_exp_bounds hW hpi2P (by rw [hpi2mag']; linarith)
    have hve : v1.exp ≤ 7 := by
      have : (2:ℚ) ^ v1.exp < (2:ℚ) ^ (8:ℤ) := by norm_num; linarith
      have := (zpow_lt_zpow_iff_right₀ (by norm_num : (1:ℚ) < 2)).mp this
      omega
    have hpe : 2 ≤ pi2.exp := by
      have : (2:ℚ) ^ (2:ℤ) < (2:ℚ) ^ (pi2.exp + 1) := by
        rw [hpi2mag'] at f2; norm_num; linarith
      have := (zpow_lt_zpow_iff_right₀ (by norm_num : (1:ℚ) < 2)).mp this
      omega
    have hfb : C11.fuelBound v1 pi2 ≤ innerFuel := by
      unfold C11.fuelBound; rw [hv1.sem]; omega
    obtain ⟨r, hr⟩ := C11.rem_fuel_ge v1 pi2 hFv hsem hv1.can hpi2P.can innerFuel hfb
    obtain ⟨hres, hval, hlt, hsign⟩ := C11.rem_spec_normal v1 pi2 innerFuel hFv hsem hv1.can
      hpi2P.can hv1.cat hpi2P.cat r hr
    obtain ⟨hrcan, hrsem⟩ := remFuel_canonical innerFuel v1 pi2 r hFv hsem hv1.can hpi2P.can hr
    -- the quotient
    have hY0 : 0 < pi2.mag := hpi2P.mag_pos
    set fl := ⌊v1.mag / pi2.mag⌋ with hfl
    have hfl1 : (fl:ℚ) ≤ v1.mag / pi2.mag := Int.floor_le _
    have hfl2 : v1.mag / pi2.mag < (fl:ℚ) + 1 := Int.lt_floor_add_one _
    have hq1 : 1 < v1.mag / pi2.mag := by rw [lt_div_iff₀ hY0, hpi2mag']; linarith
    have hfl0 : 0 ≤ fl := by
      have : (0:ℚ) < (fl:ℚ) + 1 := by linarith
      have : (0:ℤ) < fl + 1 := by exact_mod_cast this
      omega
    obtain ⟨n, hn⟩ : ∃ n : ℕ, fl = (n:ℤ) := ⟨fl.toNat, by omega⟩
    have hnq : ((n:ℕ):ℚ) = (fl:ℚ) := by rw [hn]; simp
    have h0 : 0 ≤ v1.mag - (n:ℚ) * pi2.mag := by
      rw [hnq]; rw [le_div_iff₀ hY0] at hfl1; linarith
    have h1 : v1.mag - (n:ℚ) * pi2.mag < pi2.mag := by
      rw [hnq]; rw [div_lt_iff₀ hY0] at hfl2; linarith
    have hrv := C11.remVal_normal v1 pi2 hv1.cat hpi2P.cat n hv1.mag_pos hY0 h0 h1
    rw [hv1.sign] at hrv
    simp only [Bool.false_eq_true, if_false, one_mul] at hrv
    have hrval : r.val = v1.mag - (n:ℚ) * (2 * pi.mag) := by rw [hval, hrv, hpi2mag']
    -- `n ≤ 20`
    have hn20 : n ≤ 20 := by
      have : (n:ℚ) * pi2.mag ≤ v1.mag := by linarith
      rw [hpi2mag'] at this
      have h3 : (n:ℚ) * (62/10) ≤ 128 := by nlinarith
      have h4 : (n:ℚ) < 21 := by linarith
      have : n < 21 := by exact_mod_cast h4
      omega
    -- category
    have hrcat : r.cat = .normal ∨ r.cat = .zero := by
      rw [C11.spec_rem_normal v1 pi2 hv1.cat hpi2P.cat, ← hval, hv1.sem] at hres
      rcases eq_or_lt_of_le (show 0 ≤ r.val by rw [hrval, ← hpi2mag']; exact h0) with hz | hpos
      · rw [← hz] at hres
        simp only [Spec.roundQ, if_true] at hres
        exact Or.inr (toRes_zero hres).1
      · simp only [Spec.roundQ, if_neg (ne_of_gt hpos), if_pos hpos] at hres
        have hle : r.val ≤ maxFinite W := by
          rw [hrval, ← hpi2mag']
          exact le_trans (le_of_lt h1) hpi2P.isRep.le_maxFinite
        rcases (rq_finite hW hpos hle .zero).cases with ⟨s, hz⟩ | ⟨s, e, m, hf⟩
        · rw [hz] at hres; exact Or.inr (toRes_zero hres).1
        · rw [hf] at hres; exact Or.inl (toRes_fin hres).1
    have hrnn : NN W r r.val :=
      ⟨hrsem.trans hv1.sem, hrcan, hrcat, fun _ => by rw [hsign, hv1.sign], rfl⟩
    refine ⟨r, r.val, n, hr, hrnn, ?_, ?_, ?_, hn20, hrval⟩
    · rw [hrval]; exact hXfix.sub (Fix.nat_mul n h2Pfix)
    · rw [hrval, ← hpi2mag']; exact h0
    · rw [hrval, ← hpi2mag']; rw [hpi2mag'] at h1 ⊢; linarith
  · rw [if_neg hgt]
    have hXY : ¬ (2 * pi.mag < v1.mag) := fun h => hgt ((nn_gt_iff hW hv1nn hpi2nn).mpr h)
    refine ⟨v1, v1.mag, 0, rfl, hv1nn, hXfix, by linarith, not_lt.mp hXY, by norm_num, by simp⟩

/-! ## truncating subtraction on the grid -/

theorem unit_ge_emin {W : Sem} (hW : W.WF) (hpemax : (W.p:ℤ) + 2 ≤ W.emax) :
    (2:ℚ) ^ W.emin ≤ 1 / 2 ^ (W.p - 1) := by
  have h1 : W.emin + W.emax = 1 := Sqrt.emin_add_emax hW
  have : (2:ℚ) ^ W.emin ≤ (2:ℚ) ^ (-((W.p - 1 : ℕ) : ℤ)) :=
    zpow_le_zpow_right₀ (by norm_num) (by have := hW.2; omega)
  rwa [zpow_neg, zpow_natCast, ← one_div] at this

/-- `a − b` truncated, for grid values `b ≤ a`: on the grid, below the exact difference, relative
    error at most `u` -/
theorem nn_sub_fix {W : Sem} (hW : W.WF) (hpemax : (W.p:ℤ) + 2 ≤ W.emax) {a b : Flt} {A B : ℚ}
    (ha : NN W a A) (hb : NN W b B) (hfa : Fix (W.p - 1) A) (hfb : Fix (W.p - 1) B) (hge : B ≤ A)
    (hle : A - B ≤ maxFinite W) :
    ∃ R : ℚ, NN W (subWithRm a b .none) R ∧ Fix (W.p - 1) R ∧ (1 - u W) * (A - B) ≤ R ∧
      R ≤ A - B := by
  refine ⟨rq W .none (A - B), nn_sub_ge hW .none ha hb hge hle, ?_, ?_⟩
  · rcases eq_or_lt_of_le hge with h | h
    · rw [h, sub_self, rq_zero]; exact Fix.zero _
    · exact (rq_fix hW .none (by linarith) hle (hfa.sub hfb)).1
  · rcases eq_or_lt_of_le hge with h | h
    · rw [h, sub_self, rq_zero]; simp
    · have hq : 0 < A - B := by linarith
      have hunit := (hfa.sub hfb).pos_ge hq
      exact rq_none_spec hW (le_trans (unit_ge_emin hW hpemax) hunit) hle

/-! ## the reduction of `sin` -/

/-- the reduction of `sin` once `π̂` is known (the body of the `red` block) -/
def sinRedCore (pi v1 : Flt) (neg0 : Bool) : Option (Flt × Bool) :=
  let pi2 := pi.scale 1 .none
  let piHalf := pi.scale (-1) .none
  match (if v1.gt pi2 then v1.remM pi2 else some v1) with
  | none => none
  | some v2 =>
    let r3 := if v2.gt pi then (subWithRm v2 pi .none, !neg0) else (v2, neg0)
    let v4 := if r3.1.gt piHalf then subWithRm pi r3.1 .none else r3.1
    some (v4, r3.2)

theorem sinRed_big (fuel : Nat) (W : Sem) (v1 : Flt) (neg0 : Bool) :
    sinRed fuel W false v1 neg0 =
      match piFuel fuel W with
      | none => none
      | some pi => sinRedCore pi v1 neg0 := by
  unfold sinRed sinRedCore
  simp only [Bool.not_false, if_true]
  cases piFuel fuel W <;> rfl

/-- `π̂/2` (truncated): a grid value in `[(1-u)·π̂/2, π̂/2]` -/
theorem piHalf_spec {W : Sem} (hW : W.WF) (hp24 : 24 ≤ W.p) (hpemax : (W.p:ℤ) + 2 ≤ W.emax)
    {pi : Flt} (hpi : PiHat W pi) :
    ∃ H : ℚ, NN W (pi.scale (-1) .none) H ∧ (1 - u W) * (pi.mag / 2) ≤ H ∧ H ≤ pi.mag / 2 := by
  obtain ⟨hP1, hP2⟩ := hpi.bounds hp24
  have e : pi.mag * (2:ℚ) ^ (-1:ℤ) = pi.mag / 2 := by rw [zpow_neg_one]; ring
  have h1 : (2:ℚ) ^ W.emin ≤ 1 := by
    have : (2:ℚ) ^ W.emin ≤ (2:ℚ) ^ (0:ℤ) :=
      zpow_le_zpow_right₀ (by norm_num) (Sem.emin_le_zero hW)
    simpa using this
  have hmax : (4:ℚ) ≤ maxFinite W := by
    have hp : 1 ≤ W.p := by omega
    have h1 := pow_emax_le_maxFinite (F := W) hp
    have h2 : (2:ℚ) ^ (2:ℤ) ≤ (2:ℚ) ^ W.emax := zpow_le_zpow_right₀ (by norm_num) (by omega)
    norm_num at h2; linarith
  have hlo : (2:ℚ) ^ W.emin ≤ pi.mag * (2:ℚ) ^ (-1:ℤ) := by rw [e]; linarith
  have hle : pi.mag * (2:ℚ) ^ (-1:ℤ) ≤ maxFinite W := by rw [e]; linarith
  have hnn := scale_nn hW hpi.pos (-1) hlo hle
  obtain ⟨a1, a2⟩ := rq_none_spec hW hlo hle
  rw [e] at hnn a1 a2
  exact ⟨_, hnn, a1, a2⟩

set_option maxHeartbeats 400000 in
/-- **the reduced argument of `sin`**: a non-negative grid value `θq ≤ 8/5` within `180·2^-p_W` of
    a real angle `θ` with `sin X = ± sin θ` (the sign as returned) -/
theorem sin_reduce {W : Sem} (hW : W.WF) (hp24 : 24 ≤ W.p) (hpemax : (W.p:ℤ) + 2 ≤ W.emax)
    (hfuel : W.p + 10 ≤ innerFuel) {pi v1 : Flt} (hpi : PiHat W pi) (hv1 : PosN W v1)
    (hX1 : 1 ≤ v1.mag) (hX128 : v1.mag ≤ 128) (neg0 : Bool) :
    ∃ (v4 : Flt) (neg : Bool) (θq : ℚ), sinRedCore pi v1 neg0 = some (v4, neg) ∧ NN W v4 θq ∧
      Fix (W.p - 1) θq ∧ 0 ≤ θq ∧ θq ≤ 8/5 ∧
      ∃ θ : ℝ, |((θq : ℚ) : ℝ) - θ| ≤ 180 * (2:ℝ) ^ (-(W.p:ℤ)) ∧
        Real.sin ((v1.mag : ℚ) : ℝ) = (if neg = neg0 then 1 else -1) * Real.sin θ := by
  obtain ⟨hP1, hP2⟩ := hpi.bounds hp24
  obtain ⟨hpi2R, hpi2mag, v2, V2, n, hv2eq, hv2, hV2fix, hV20, hV2le, hn20, hV2⟩ :=
    red_stage1 hW hp24 hpemax hfuel hpi hv1 hX1 hX128
  obtain ⟨H, hH, hH1, hH2⟩ := piHalf_spec hW hp24 hpemax hpi
  have hpinn := nn_of_posN hpi.pos
  have hPfix : Fix (W.p - 1) pi.mag := fix_of_isRep hW hpi.pos.isRep (by linarith)
  have hu0 := RelErr.u_pos W
  have hu23 : u W ≤ 1 / 2 ^ 23 := by
    have := u_le_of_le_p (F := W) (k := 24) hp24
    norm_num at this ⊢; linarith
  have hmax : (8:ℚ) ≤ maxFinite W := by
    have hp : 1 ≤ W.p := by omega
    have h1 := pow_emax_le_maxFinite (F := W) hp
    have h2 : (2:ℚ) ^ (3:ℤ) ≤ (2:ℚ) ^ W.emax := zpow_le_zpow_right₀ (by norm_num) (by omega)
    norm_num at h2; linarith
  -- real quantities
  set Pr : ℝ := ((pi.mag : ℚ) : ℝ) with hPr
  set Xr : ℝ := ((v1.mag : ℚ) : ℝ) with hXr
  set ε : ℝ := (2:ℝ) ^ (-(W.p:ℤ)) with hε
  have hε0 : 0 < ε := by rw [hε]; positivity
  have herrP : |Pr - Real.pi| ≤ 4 * ε := by
    have := hpi.err
    rw [show (2:ℤ) - (W.p:ℤ) = -(W.p:ℤ) + 2 by ring, zpow_add₀ (by norm_num : (2:ℝ) ≠ 0)] at this
    have e4 : (2:ℝ) ^ (2:ℤ) = 4 := by norm_num
    rw [e4] at this
    rw [hε]; linarith
  have hur : ((u W : ℚ) : ℝ) = 2 * ε := by
    unfold RelErr.u
    push_cast
    rw [hε, show (1:ℤ) - (W.p:ℤ) = -(W.p:ℤ) + 1 by ring, zpow_add_one₀ (by norm_num : (2:ℝ) ≠ 0)]
    ring
  set t : ℝ := Xr - (n:ℝ) * (2 * Real.pi) with ht
  have hsint : Real.sin Xr = Real.sin t := by
    rw [ht, Real.sin_sub_nat_mul_two_pi]
  have hV2r : ((V2 : ℚ) : ℝ) = Xr - (n:ℝ) * (2 * Pr) := by rw [hV2]; push_cast; rfl
  have hnr : (n:ℝ) ≤ 20 := by exact_mod_cast hn20
  have hn0 : (0:ℝ) ≤ (n:ℝ) := Nat.cast_nonneg n
  obtain ⟨pe1, pe2⟩ := abs_le.mp herrP
  have hV2t : |((V2 : ℚ) : ℝ) - t| ≤ 160 * ε := by
    rw [hV2r, ht, abs_le]
    constructor <;> nlinarith
  -- stage 2
  unfold sinRedCore
  simp only [hv2eq]
  have hstage2 : ∃ (r3 : Flt) (R3 : ℚ) (θ3 : ℝ) (flag : Bool),
      (if v2.gt pi then (subWithRm v2 pi .none, !neg0) else (v2, neg0)) = (r3, flag) ∧
      NN W r3 R3 ∧ Fix (W.p - 1) R3 ∧ 0 ≤ R3 ∧ R3 ≤ pi.mag ∧
      |((R3 : ℚ) : ℝ) - θ3| ≤ 172 * ε ∧
      Real.sin Xr = (if flag = neg0 then 1 else -1) * Real.sin θ3 := by
    by_cases hgt : v2.gt pi = true
    · rw [if_pos hgt]
      have hlt : pi.mag < V2 := (nn_gt_iff hW hv2 hpinn).mp hgt
      obtain ⟨R3, hR3, hR3fix, hR31, hR32⟩ := nn_sub_fix hW hpemax hv2 hpinn hV2fix hPfix
        (le_of_lt hlt) (by linarith)
      refine ⟨_, R3, t - Real.pi, !neg0, rfl, hR3, hR3fix, ?_, by linarith, ?_, ?_⟩
      · have : 0 ≤ (1 - u W) * (V2 - pi.mag) := mul_nonneg (by linarith) (by linarith)
        linarith
      · -- error
        have h1 : ((R3 : ℚ) : ℝ) ≤ ((V2 : ℚ) : ℝ) - Pr := by
          have := (Rat.cast_le (K := ℝ)).mpr hR32; push_cast at this; exact this
        have h2 : (1 - 2 * ε) * (((V2 : ℚ) : ℝ) - Pr) ≤ ((R3 : ℚ) : ℝ) := by
          have := (Rat.cast_le (K := ℝ)).mpr hR31; push_cast at this; rw [hur] at this; exact this
        have h3 : ((V2 : ℚ) : ℝ) - Pr ≤ 32/10 := by
          have : V2 - pi.mag ≤ 32/10 := by linarith
          have := (Rat.cast_le (K := ℝ)).mpr this; push_cast at this; exact this
        have h4 : 0 ≤ ((V2 : ℚ) : ℝ) - Pr := by
          have : 0 ≤ V2 - pi.mag := by linarith
          have := (Rat.cast_le (K := ℝ)).mpr this; push_cast at this; exact this
        obtain ⟨v1', v2'⟩ := abs_le.mp hV2t
        rw [abs_le]
        constructor <;> nlinarith
      · rw [hsint]
        have : (!neg0) ≠ neg0 := by cases neg0 <;> simp
        rw [if_neg this, Real.sin_sub_pi]; ring
    · rw [if_neg hgt]
      have hle : ¬ pi.mag < V2 := fun h => hgt ((nn_gt_iff hW hv2 hpinn).mpr h)
      refine ⟨v2, V2, t, neg0, rfl, hv2, hV2fix, hV20, not_lt.mp hle, by linarith, ?_⟩
      rw [hsint]; simp
  obtain ⟨r3, R3, θ3, flag, hr3eq, hr3, hR3fix, hR30, hR3le, hR3err, hsin3⟩ := hstage2
  rw [hr3eq]
  simp only
  -- stage 3
  by_cases hgt : r3.gt (pi.scale (-1) .none) = true
  · rw [if_pos hgt]
    have hlt : H < R3 := (nn_gt_iff hW hr3 hH).mp hgt
    obtain ⟨R4, hR4, hR4fix, hR41, hR42⟩ := nn_sub_fix hW hpemax hpinn hr3 hPfix hR3fix hR3le
      (by linarith)
    have hR40 : 0 ≤ R4 := by
      have : 0 ≤ (1 - u W) * (pi.mag - R3) := mul_nonneg (by linarith) (by linarith)
      linarith
    refine ⟨_, flag, R4, rfl, hR4, hR4fix, hR40, ?_, Real.pi - θ3, ?_, ?_⟩
    · -- `R4 ≤ P − H ≤ P/2·(1+u)`
      have huP : u W * (pi.mag / 2) ≤ 1/2^23 * (pi.mag / 2) :=
        mul_le_mul_of_nonneg_right hu23 (by linarith)
      norm_num at huP
      linarith
    · have h1 : ((R4 : ℚ) : ℝ) ≤ Pr - ((R3 : ℚ) : ℝ) := by
        have := (Rat.cast_le (K := ℝ)).mpr hR42; push_cast at this; exact this
      have h2 : (1 - 2 * ε) * (Pr - ((R3 : ℚ) : ℝ)) ≤ ((R4 : ℚ) : ℝ) := by
        have := (Rat.cast_le (K := ℝ)).mpr hR41; push_cast at this; rw [hur] at this; exact this
      have h3 : Pr - ((R3 : ℚ) : ℝ) ≤ 16/10 := by
        have : pi.mag - R3 ≤ 16/10 := by
          have huP : u W * (pi.mag / 2) ≤ 1/2^23 * (pi.mag / 2) :=
            mul_le_mul_of_nonneg_right hu23 (by linarith)
          norm_num at huP
          linarith
        have := (Rat.cast_le (K := ℝ)).mpr this; push_cast at this; exact this
      have h4 : 0 ≤ Pr - ((R3 : ℚ) : ℝ) := by
        have : 0 ≤ pi.mag - R3 := by linarith
        have := (Rat.cast_le (K := ℝ)).mpr this; push_cast at this; exact this
      obtain ⟨v1', v2'⟩ := abs_le.mp hR3err
      rw [abs_le]
      constructor <;> nlinarith
    · rw [hsin3, Real.sin_pi_sub]
  · rw [if_neg hgt]
    have hle : ¬ H < R3 := fun h => hgt ((nn_gt_iff hW hr3 hH).mpr h)
    refine ⟨r3, flag, R3, rfl, hr3, hR3fix, hR30, by linarith [not_lt.mp hle], θ3, by linarith, hsin3⟩

end Arp.TrigErr
