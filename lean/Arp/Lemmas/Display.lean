import Arp.Lemmas.Defs
import Arp.Model.Str
import Mathlib.Data.List.Induction
/-!
# Display (C13): helper lemmas

The reading of a printed string as an exact decimal (`digitsVal`, `decimalValue`,
`IsPlainDecimal`) is defined here, independently of the model, in namespace `Arp.C13`;
`Arp/Props/C13.lean` states the property theorems with it.
-/
namespace Arp.C13

/-- value of a digit string -/
def digitsVal (ds : List Nat) : Nat := ds.foldl (fun a d => a * 10 + (d - 48)) 0

/-- `int '.' frac` read as an exact decimal -/
def decimalValue (intPart fracPart : List Nat) : ℚ :=
  (digitsVal intPart : ℚ) + (digitsVal fracPart : ℚ) / 10 ^ fracPart.length

/-- s is `['-'] ++ int ++ '.' ++ frac` with all-digit int and frac -/
def IsPlainDecimal (s : List Nat) (neg : Bool) (intPart fracPart : List Nat) : Prop :=
  s = (if neg then [45] else []) ++ intPart ++ [46] ++ fracPart ∧
    (∀ b ∈ intPart, 48 ≤ b ∧ b ≤ 57) ∧ (∀ b ∈ fracPart, 48 ≤ b ∧ b ≤ 57)

/-! ### digit strings -/

/-- all bytes are ASCII digits -/
def AllDigits (l : List Nat) : Prop := ∀ b ∈ l, 48 ≤ b ∧ b ≤ 57

theorem AllDigits.append {a b : List Nat} (ha : AllDigits a) (hb : AllDigits b) :
    AllDigits (a ++ b) := by
  intro c hc
  rcases List.mem_append.mp hc with h | h
  · exact ha c h
  · exact hb c h

theorem allDigits_replicate (k : Nat) : AllDigits (List.replicate k 48) := by
  intro c hc
  rw [List.mem_replicate] at hc
  omega

theorem foldl_digits (ds : List Nat) (a : Nat) :
    ds.foldl (fun a d => a * 10 + (d - 48)) a = a * 10 ^ ds.length + digitsVal ds := by
  unfold digitsVal
  induction ds generalizing a with
  | nil => simp
  | cons d ds ih =>
    simp only [List.foldl_cons, List.length_cons]
    rw [ih (a * 10 + (d - 48)), ih (0 * 10 + (d - 48))]
    ring

theorem digitsVal_nil : digitsVal [] = 0 := rfl

theorem digitsVal_append (a b : List Nat) :
    digitsVal (a ++ b) = digitsVal a * 10 ^ b.length + digitsVal b := by
  conv_lhs => unfold digitsVal
  rw [List.foldl_append, foldl_digits]
  rfl

theorem digitsVal_replicate_zero (k : Nat) : digitsVal (List.replicate k 48) = 0 := by
  induction k with
  | zero => rfl
  | succ k ih =>
    rw [List.replicate_succ', digitsVal_append, ih]
    rfl

/-- the bytes of `Nat.toDigits 10 n`, as decoded and re-encoded by the model, read back as `n` -/
theorem foldl_chars (cs : List Char) (h : ∀ c ∈ cs, c.isDigit = true) (a : Nat) :
    ((cs.map (fun c => c.toNat - '0'.toNat)).map (· + 48)).foldl
        (fun a d => a * 10 + (d - 48)) a = Nat.ofDigitChars 10 cs a := by
  induction cs generalizing a with
  | nil => simp [Nat.ofDigitChars]
  | cons c cs ih =>
    rw [Nat.ofDigitChars_cons, ← ih (fun c hc => h c (List.mem_cons_of_mem _ hc))]
    simp only [List.map_cons, List.foldl_cons]
    congr 1
    omega

theorem chars_allDigits (cs : List Char) (h : ∀ c ∈ cs, c.isDigit = true) :
    AllDigits ((cs.map (fun c => c.toNat - '0'.toNat)).map (· + 48)) := by
  intro b hb
  simp only [List.map_map, List.mem_map, Function.comp] at hb
  obtain ⟨c, hc, rfl⟩ := hb
  have := h c hc
  simp only [Char.isDigit, Bool.and_eq_true, decide_eq_true_eq, ge_iff_le,
    UInt32.le_iff_toNat_le] at this
  have e0 : '0'.toNat = 48 := rfl
  have e1 : ('0'.val).toNat = 48 := rfl
  have e2 : ('9'.val).toNat = 57 := rfl
  have e3 : c.toNat = c.val.toNat := rfl
  omega

theorem decDigits_val (n : Nat) : digitsVal ((decDigits n).map (· + 48)) = n := by
  unfold decDigits
  split
  · subst_vars; rfl
  · unfold digitsVal
    rw [foldl_chars _ (fun c hc => Nat.isDigit_of_mem_toDigits (by decide) (by decide) hc)]
    exact Nat.ofDigitChars_ten_toDigits

theorem decDigits_allDigits (n : Nat) : AllDigits ((decDigits n).map (· + 48)) := by
  unfold decDigits
  split
  · intro b hb; simp at hb
  · exact chars_allDigits _ (fun c hc => Nat.isDigit_of_mem_toDigits (by decide) (by decide) hc)

/-! ### `strip0` -/

theorem strip0_nil : strip0 [] = [] := by rw [strip0]

theorem strip0_concat_zero (l : List Nat) : strip0 (l ++ [48]) = strip0 l := by
  rw [strip0]
  · simp
  · simp

theorem strip0_concat_ne (l : List Nat) (c : Nat) (h : c ≠ 48) : strip0 (l ++ [c]) = l ++ [c] := by
  rw [strip0]
  · simp [h]
  · simp

/-- kernel-reducible form of `strip0` (lets `decide` evaluate concrete examples) -/
theorem strip0_eq (l : List Nat) : strip0 l = (l.reverse.dropWhile (· == 48)).reverse := by
  induction l using List.reverseRecOn with
  | nil => rw [strip0_nil]; rfl
  | append_singleton l c ih =>
    by_cases hc : c = 48
    · subst hc; rw [strip0_concat_zero, ih]; simp
    · rw [strip0_concat_ne _ _ hc]; simp [hc]

theorem decimalValue_concat_zero (i f : List Nat) :
    decimalValue i (f ++ [48]) = decimalValue i f := by
  unfold decimalValue
  rw [digitsVal_append]
  have : digitsVal [48] = 0 := rfl
  rw [this, List.length_append, List.length_singleton, pow_one, Nat.add_zero, pow_succ]
  push_cast
  rw [mul_div_mul_right _ _ (by norm_num : (10 : ℚ) ≠ 0)]

/-- stripping trailing zeros after the point never crosses the point, keeps the fraction all-digit
    and keeps the decimal value -/
theorem strip0_point (a f : List Nat) (hf : AllDigits f) :
    ∃ f', strip0 (a ++ [46] ++ f) = a ++ [46] ++ f' ∧ AllDigits f' ∧
      ∀ i, decimalValue i f' = decimalValue i f := by
  induction f using List.reverseRecOn with
  | nil =>
    refine ⟨[], ?_, hf, fun _ => rfl⟩
    rw [List.append_nil, strip0_concat_ne _ _ (by decide)]
  | append_singleton f c ih =>
    have hf' : AllDigits f := fun b hb => hf b (List.mem_append_left _ hb)
    by_cases hc : c = 48
    · subst hc
      obtain ⟨f', h1, h2, h3⟩ := ih hf'
      refine ⟨f', ?_, h2, fun i => ?_⟩
      · rw [← List.append_assoc, strip0_concat_zero, h1]
      · rw [h3 i, decimalValue_concat_zero]
    · refine ⟨f ++ [c], ?_, hf, fun _ => rfl⟩
      rw [← List.append_assoc, strip0_concat_ne _ _ hc]

/-! ### the printed body -/

/-- left-padding the digits of `n` to at least `e` places and splitting `e` places from the right
    reads as `n / 10^e` -/
theorem padded_split (n e : Nat) (padded : List Nat)
    (hp : padded = List.replicate (e - ((decDigits n).map (· + 48)).length) 48
            ++ (decDigits n).map (· + 48)) :
    AllDigits (padded.take (padded.length - e)) ∧ AllDigits (padded.drop (padded.length - e)) ∧
      decimalValue (padded.take (padded.length - e)) (padded.drop (padded.length - e))
        = (n : ℚ) / 10 ^ e := by
  have hall : AllDigits padded := by
    rw [hp]; exact (allDigits_replicate _).append (decDigits_allDigits n)
  have hval : digitsVal padded = n := by
    rw [hp, digitsVal_append, digitsVal_replicate_zero, decDigits_val]; simp
  have hlen : e ≤ padded.length := by
    rw [hp, List.length_append, List.length_replicate]; omega
  refine ⟨fun b hb => hall b (List.mem_of_mem_take hb), fun b hb => hall b (List.mem_of_mem_drop hb), ?_⟩
  have hdl : (padded.drop (padded.length - e)).length = e := by
    rw [List.length_drop]; omega
  have hsplit := digitsVal_append (padded.take (padded.length - e)) (padded.drop (padded.length - e))
  rw [List.take_append_drop, hval, hdl] at hsplit
  unfold decimalValue
  rw [hdl, hsplit]
  push_cast
  have : (10 : ℚ) ^ e ≠ 0 := by positivity
  field_simp

/-- the printed body of a normal value: digits, one point, digits; its exact decimal reading is the
    reduced integer over the reduced power of ten -/
theorem convertNormalToString_spec (x : Flt) :
    ∃ i f, x.convertNormalToString = i ++ [46] ++ f ∧ AllDigits i ∧ AllDigits f ∧
      decimalValue i f =
        ((reducePrinted x.sem.p x.convertToInteger.1 x.convertToInteger.2).1 : ℚ)
          / 10 ^ (reducePrinted x.sem.p x.convertToInteger.1 x.convertToInteger.2).2.toNat := by
  unfold Flt.convertNormalToString
  simp only
  generalize reducePrinted x.sem.p x.convertToInteger.1 x.convertToInteger.2 = r
  obtain ⟨h1, h2, h3⟩ := padded_split r.1 r.2.toNat _ rfl
  obtain ⟨f', e1, e2, e3⟩ := strip0_point _ _ h2
  exact ⟨_, f', e1, h1, e2, by rw [e3, h3]⟩

theorem display_normal (x : Flt) (hx : x.cat = .normal) :
    ∃ i f, IsPlainDecimal x.display x.sign i f ∧
      decimalValue i f =
        ((reducePrinted x.sem.p x.convertToInteger.1 x.convertToInteger.2).1 : ℚ)
          / 10 ^ (reducePrinted x.sem.p x.convertToInteger.1 x.convertToInteger.2).2.toNat := by
  obtain ⟨i, f, h1, h2, h3, h4⟩ := convertNormalToString_spec x
  refine ⟨i, f, ⟨?_, h2, h3⟩, h4⟩
  unfold Flt.display
  rw [hx]
  simp only [h1, List.append_assoc]

/-! ### arithmetic of the digit reduction -/

/-- `59/196` under-approximates `log₁₀ 2`: the digits removed never exceed the spare bits -/
theorem ten_pow_le_two_pow (n : Nat) : 10 ^ (n * 59 / 196) ≤ 2 ^ n := by
  have h1 : 196 * (n * 59 / 196) ≤ n * 59 := Nat.mul_div_le _ _
  have h2 : (10 : Nat) ^ 59 ≤ 2 ^ 196 := by norm_num
  have h3 : (10 ^ (n * 59 / 196)) ^ 196 ≤ (2 ^ n) ^ 196 := by
    calc (10 ^ (n * 59 / 196)) ^ 196 = 10 ^ (196 * (n * 59 / 196)) := by rw [← pow_mul, mul_comm]
      _ ≤ 10 ^ (n * 59) := Nat.pow_le_pow_right (by norm_num) h1
      _ = (10 ^ 59) ^ n := by rw [← pow_mul, mul_comm]
      _ ≤ (2 ^ 196) ^ n := Nat.pow_le_pow_left h2 n
      _ = (2 ^ n) ^ 196 := by rw [← pow_mul, ← pow_mul, mul_comm]
  exact (Nat.pow_le_pow_iff_left (by norm_num)).mp h3

/-- `reduce_printed_integer_length` divides by `10^d` with `d ≤ k`, and `10^d` is below the
    precision threshold `N·2^(2-p)` (or nothing is removed) -/
theorem reducePrinted_spec (p N k : Nat) (hp : 2 ≤ p) (hN : N ≠ 0) :
    ∃ d : Nat, d ≤ k ∧ reducePrinted p N (k : Int) = (N / 10 ^ d, ((k - d : Nat) : Int)) ∧
      (d = 0 ∨ ((10 : ℚ) ^ d ≤ (N : ℚ) * (2 : ℚ) ^ (2 - (p : Int)))) := by
  unfold reducePrinted
  simp only
  by_cases hb : msb N ≤ p - 1
  · refine ⟨0, Nat.zero_le _, ?_, Or.inl rfl⟩
    rw [if_pos hb]; simp
  · rw [if_neg hb]
    set needed := msb N - (p - 1) with hneeded
    set d0 := needed * 59 / 196 with hd0
    have h10 : 10 ^ d0 ≤ 2 ^ needed := ten_pow_le_two_pow needed
    have hmsb : 2 ^ (msb N - 1) ≤ N := msb_le hN
    -- the threshold
    have hthr : ((2 : ℚ) ^ needed) ≤ (N : ℚ) * (2 : ℚ) ^ (2 - (p : Int)) := by
      have e1 : msb N - 1 = needed + (p - 2) := by omega
      rw [e1, pow_add] at hmsb
      have hc : ((2 : ℚ) ^ needed) * (2 : ℚ) ^ (p - 2) ≤ (N : ℚ) := by exact_mod_cast hmsb
      have e2 : (2 : ℚ) ^ (2 - (p : Int)) = ((2 : ℚ) ^ (p - 2))⁻¹ := by
        rw [← zpow_natCast, ← zpow_neg]; congr 1; omega
      rw [e2, ← div_eq_mul_inv, le_div_iff₀ (by positivity)]
      exact hc
    refine ⟨min d0 k, Nat.min_le_right _ _, ?_, Or.inr ?_⟩
    · by_cases hk : (d0 : Int) > (k : Int)
      · rw [if_pos hk]
        have : min d0 k = k := by omega
        rw [this]; simp
      · rw [if_neg hk]
        have : min d0 k = d0 := by omega
        rw [this, Int.toNat_natCast]
        congr 1; omega
    · calc (10 : ℚ) ^ (min d0 k) ≤ (10 : ℚ) ^ d0 := pow_le_pow_right₀ (by norm_num) (Nat.min_le_left _ _)
        _ ≤ (2 : ℚ) ^ needed := by exact_mod_cast h10
        _ ≤ _ := hthr

/-! ### exact value of the printed string -/

/-- `convert_to_integer`: `|x| = N / 10^k` exactly -/
theorem convertToInteger_spec (x : Flt) (hp : 1 ≤ x.sem.p) :
    ∃ N k : Nat, x.convertToInteger = (N, (k : Int)) ∧ x.mag = (N : ℚ) / 10 ^ k ∧
      (N = x.mant * 5 ^ k ∧ (x.mant : ℚ) = x.mag * 2 ^ k ∨ k = 0) := by
  unfold Flt.convertToInteger
  simp only
  have hcast : ((x.sem.p - 1 : Nat) : Int) = (x.sem.p : Int) - 1 := by omega
  rw [hcast, Flt.mag_eq]
  by_cases h : x.exp - ((x.sem.p : Int) - 1) < 0
  · rw [if_pos h]
    obtain ⟨k, hk⟩ : ∃ k : Nat, x.exp - ((x.sem.p : Int) - 1) = -(k : Int) :=
      ⟨(-(x.exp - ((x.sem.p : Int) - 1))).toNat, by omega⟩
    rw [hk]
    have h2 : (2 : ℚ) ^ (-(k : Int)) = ((2 : ℚ) ^ k)⁻¹ := by rw [zpow_neg, zpow_natCast]
    have h2' : ((2 : ℚ) ^ k) ≠ 0 := by positivity
    refine ⟨x.mant * 5 ^ k, k, by simp, ?_, Or.inl ⟨rfl, ?_⟩⟩
    · rw [h2]
      have : (10 : ℚ) ^ k = 2 ^ k * 5 ^ k := by rw [← mul_pow]; norm_num
      rw [this]
      push_cast
      field_simp
    · rw [h2]; field_simp
  · rw [if_neg h]
    obtain ⟨k, hk⟩ : ∃ k : Nat, x.exp - ((x.sem.p : Int) - 1) = (k : Int) :=
      ⟨(x.exp - ((x.sem.p : Int) - 1)).toNat, by omega⟩
    rw [hk]
    refine ⟨x.mant <<< k, 0, by simp, ?_, Or.inr rfl⟩
    rw [Nat.shiftLeft_eq, zpow_natCast]
    push_cast
    simp

/-- dividing the integer by `10^d` while lowering the decimal exponent by `d` -/
theorem reduce_value (N d k : Nat) (hd : d ≤ k) :
    ((N / 10 ^ d : Nat) : ℚ) / 10 ^ (k - d)
      = (N : ℚ) / 10 ^ k - ((N % 10 ^ d : Nat) : ℚ) / 10 ^ k := by
  have hN : (N : ℚ) = (10 : ℚ) ^ d * ((N / 10 ^ d : Nat) : ℚ) + ((N % 10 ^ d : Nat) : ℚ) := by
    exact_mod_cast (Nat.div_add_mod N (10 ^ d)).symm
  have hk : (10 : ℚ) ^ k = 10 ^ d * 10 ^ (k - d) := by
    rw [← pow_add]; congr 1; omega
  have h1 : (10 : ℚ) ^ d ≠ 0 := by positivity
  have h2 : (10 : ℚ) ^ (k - d) ≠ 0 := by positivity
  rw [← sub_div, hk]
  conv_rhs => rw [hN]
  rw [add_sub_cancel_right, mul_div_mul_left _ _ h1]

/-- everything about the printed normal value in one statement: the reading of the string is
    `|x|` minus the dropped residue `(N mod 10^d) / 10^k` -/
theorem display_core (x : Flt) (hF : x.sem.WF) (hc : x.Canonical) (hx : x.cat = .normal) :
    ∃ (i f : List Nat) (N k d : Nat), IsPlainDecimal x.display x.sign i f ∧
      decimalValue i f = x.mag - ((N % 10 ^ d : Nat) : ℚ) / 10 ^ k ∧
      x.mag = (N : ℚ) / 10 ^ k ∧ N ≠ 0 ∧ d ≤ k ∧
      (d = 0 ∨ ((10 : ℚ) ^ d ≤ (N : ℚ) * (2 : ℚ) ^ (2 - (x.sem.p : Int)))) ∧
      (N = x.mant * 5 ^ k ∧ (x.mant : ℚ) = x.mag * 2 ^ k ∨ k = 0) := by
  obtain ⟨i, f, h1, h2⟩ := display_normal x hx
  obtain ⟨N, k, e1, e2, e3⟩ := convertToInteger_spec x (by have := hF.2; omega)
  have hm : 0 < x.mant := ((Flt.canonical_normal hx).mp hc).2.2.1
  have hN : N ≠ 0 := by
    intro h0
    rw [h0, Flt.mag_eq] at e2
    have : (0 : ℚ) < (x.mant : ℚ) * (2 : ℚ) ^ (x.exp - ((x.sem.p : Int) - 1)) := by
      have : (0 : ℚ) < (x.mant : ℚ) := by exact_mod_cast hm
      positivity
    rw [Nat.cast_zero, zero_div] at e2
    linarith
  obtain ⟨d, d1, d2, d3⟩ := reducePrinted_spec x.sem.p N k hF.2 hN
  rw [e1] at h2
  simp only at h2
  rw [d2] at h2
  simp only [Int.toNat_natCast] at h2
  rw [reduce_value N d k d1, ← e2] at h2
  exact ⟨i, f, N, k, d, h1, h2, e2, hN, d1, d3, e3⟩

end Arp.C13
