import Arp.Lemmas.Ln2
import Arp.Lemmas.Sqrt
import Mathlib.Analysis.Complex.ExponentialBounds
/-!
# Lemmas for the accuracy of `Float::e` (property C15): Euler's continued fraction

`Float::e` evaluates `e = 2 + 1/t₁`, `t_k = k + k / t_{k+1}`, bottom-up from level
`N - 1 = iterations - 1` with the innermost tail replaced by `1`, every `+` and `/` rounded in
the working format `G` (`p + 1` bits, the format's own mode), and casts the result to `p` bits.

1. **The exact tails** (`rho`, `t`, `t_rec`, `t_gt`, `t_lt`, `t_lower`, `e_eq`): with
   `ρ n = (-1)^n (e⁻¹ - Σ_{m<n} (-1)^m/m!)` (positive by `Real.exp_bound`, `ρ n + ρ (n+1) = 1/n!`)
   the real numbers `t k = k/(k+1) · ρ(k+1)/ρ(k+2)` satisfy the recurrence, `k < t k < k + 1`,
   `t k > k(k+3)/(k+2)` and `2 + 1/t 1 = exp 1`.
2. **Contraction and budget** (`contract`, `bnd`, `bnd_step`): one level damps an error of the
   deeper tail by `c_k = k(k+3)/((k+1)²(k+4)) < 1/k`; the budget
   `bnd K w k = w·(k + 3/2) + K·φ(k)/φ(K)`, `φ(k) = k·k!·(k+3)`, absorbs the two roundings of a
   level (`≤ w·(k + 1/2)`, `w` = `unit` of the working format) and the damped starting error
   (`c_k·φ(k+1) = φ(k)`).  At level 1: `bnd K w 1 ≤ 5w/2 + 4/(K+1)!`.
3. **One rounding** (`rnd_abs_err`): `|rnd q - q| ≤ unit·2^E` for `q ≤ 2^(E+1)`.
4.-6. **One level and the loop** (`ECtx`, `counter`, `step_q`, `Lvl`, `lvl_top`, `lvl_step`,
   `eLoop_lvl`): while the level counters are exact, the computed tail at level `k` is a positive
   value of `[k, 2k]` within `bnd K w k` of `t k`; any value of `[K, 2K]` can start the analysis
   at level `K` (error `≤ K`).
7.-8. **The end** (`final_q`, `cast_q`, `e_core`): `1/term` (error `≤ w/2`), `+ 2` (`≤ 2w`), the
   cast (`≤ 4w`) and the propagated `|1/x - 1/t₁| ≤ 3w/2` add up to `8w = 4·unit F`: one ulp of
   `[2, 4)` in the nearest modes, two ulps otherwise.
9. **Deep levels** (`DCtx`, `cnt`, `Deep`, `deep_first`, `deep_step`, `eLoop_deep`): level counters
   beyond `2^(p+1)` are rounded by `from_i64`; there only `term ∈ [v̂, 2v̂]` is kept, which is all
   `lvl_top` needs at the first level whose counter is exact.
-/

namespace Arp.ECf
open Finset

/-! ## 1. the tails of the continued fraction as real numbers -/

/-- `ρ n = (-1)^n (e⁻¹ - Σ_{m<n} (-1)^m/m!) = Σ_{i≥0} (-1)^i/(n+i)!` -/
noncomputable def rho (n : ℕ) : ℝ :=
  (-1) ^ n * (Real.exp (-1) - ∑ m ∈ range n, (-1:ℝ) ^ m / (m.factorial : ℝ))

theorem rho_add (n : ℕ) : rho n + rho (n + 1) = 1 / (n.factorial : ℝ) := by
  unfold rho
  rw [sum_range_succ, pow_succ]
  have h : ((-1:ℝ) ^ n) * ((-1) ^ n) = 1 := by rw [← mul_pow]; simp
  linear_combination (1 / (n.factorial : ℝ)) * h

theorem rho_abs_le (n : ℕ) (hn : 0 < n) :
    |rho n| ≤ ((n:ℝ) + 1) / ((n.factorial : ℝ) * n) := by
  have h := Real.exp_bound (x := -1) (by simp) hn
  unfold rho
  rw [abs_mul, abs_pow, abs_neg, abs_one, one_pow, one_mul]
  simpa using h

theorem rho_pos (n : ℕ) (hn : 1 ≤ n) : 0 < rho n := by
  have h1 := rho_add n
  have h2 := rho_abs_le (n + 1) (by omega)
  have h3 : rho (n + 1) ≤ |rho (n + 1)| := le_abs_self _
  have hf : (0:ℝ) < (n.factorial : ℝ) := by exact_mod_cast n.factorial_pos
  have hn' : (1:ℝ) ≤ (n:ℝ) := by exact_mod_cast hn
  have hlt : (((n + 1 : ℕ):ℝ) + 1) / (((n + 1).factorial : ℝ) * ((n + 1 : ℕ):ℝ)) <
      1 / (n.factorial : ℝ) := by
    rw [Nat.factorial_succ]
    push_cast
    rw [div_lt_div_iff₀ (by positivity) hf]
    have : 0 < (n.factorial : ℝ) * ((n:ℝ) ^ 2 + (n:ℝ) - 1) := mul_pos hf (by nlinarith)
    nlinarith
  linarith

/-- the `k`-th tail `t_k = k + k/(k+1 + (k+1)/(k+2 + …))` of Euler's continued fraction -/
noncomputable def t (k : ℕ) : ℝ := (k:ℝ) / ((k:ℝ) + 1) * (rho (k + 1) / rho (k + 2))

theorem t_pos (k : ℕ) (hk : 1 ≤ k) : 0 < t k := by
  have h1 := rho_pos (k + 1) (by omega)
  have h2 := rho_pos (k + 2) (by omega)
  have hk' : (1:ℝ) ≤ (k:ℝ) := by exact_mod_cast hk
  unfold t
  positivity

theorem t_rec (k : ℕ) (hk : 1 ≤ k) : t k = (k:ℝ) + (k:ℝ) / t (k + 1) := by
  have ha := rho_pos (k + 1) (by omega)
  have hb := rho_pos (k + 2) (by omega)
  have hc := rho_pos (k + 3) (by omega)
  have h1 := rho_add (k + 1)
  have h2 := rho_add (k + 2)
  have hk' : (1:ℝ) ≤ (k:ℝ) := by exact_mod_cast hk
  have hf : (0:ℝ) < ((k + 1).factorial : ℝ) := by exact_mod_cast (k + 1).factorial_pos
  rw [show k + 2 = (k + 1) + 1 from rfl, Nat.factorial_succ] at h2
  push_cast at h2
  unfold t
  rw [show k + 1 + 1 = k + 2 from rfl, show k + 1 + 2 = k + 3 from rfl]
  push_cast
  set a := rho (k + 1)
  set b := rho (k + 2)
  set c := rho (k + 3)
  set f := ((k + 1).factorial : ℝ)
  have e1 : a = 1 / f - b := by linarith
  have e2 : c = 1 / (((k:ℝ) + 1 + 1) * f) - b := by linarith
  have hkk : (k:ℝ) + 1 + 1 ≠ 0 := by positivity
  rw [e1] at *
  field_simp
  rw [e2]
  field_simp
  ring

theorem t_gt (k : ℕ) (hk : 1 ≤ k) : (k:ℝ) < t k := by
  rw [t_rec k hk]
  have := t_pos (k + 1) (by omega)
  have hk' : (1:ℝ) ≤ (k:ℝ) := by exact_mod_cast hk
  have : 0 < (k:ℝ) / t (k + 1) := by positivity
  linarith

theorem t_lt (k : ℕ) (hk : 1 ≤ k) : t k < (k:ℝ) + 1 := by
  rw [t_rec k hk]
  have h := t_gt (k + 1) (by omega)
  push_cast at h
  have hk' : (1:ℝ) ≤ (k:ℝ) := by exact_mod_cast hk
  have : (k:ℝ) / t (k + 1) < 1 := by
    rw [div_lt_one (by linarith)]; linarith
  linarith

/-- sharper lower bound: `t_k > k + k/(k+2)` -/
theorem t_lower (k : ℕ) (hk : 1 ≤ k) : (k:ℝ) * ((k:ℝ) + 3) / ((k:ℝ) + 2) < t k := by
  rw [t_rec k hk]
  have h := t_lt (k + 1) (by omega)
  have hp := t_pos (k + 1) (by omega)
  push_cast at h
  have hk' : (1:ℝ) ≤ (k:ℝ) := by exact_mod_cast hk
  have : (k:ℝ) / ((k:ℝ) + 2) < (k:ℝ) / t (k + 1) :=
    div_lt_div_of_pos_left (by linarith) hp (by linarith)
  have e : (k:ℝ) * ((k:ℝ) + 3) / ((k:ℝ) + 2) = (k:ℝ) + (k:ℝ) / ((k:ℝ) + 2) := by
    field_simp; ring
  rw [e]; linarith

/-- the continued fraction represents `e` -/
theorem e_eq : 2 + 1 / t 1 = Real.exp 1 := by
  have h2 : rho 2 = Real.exp (-1) := by
    unfold rho; norm_num [sum_range_succ]
  have h3 : rho 3 = 1 / 2 - Real.exp (-1) := by
    unfold rho; norm_num [sum_range_succ]
  have he : Real.exp 1 * Real.exp (-1) = 1 := by rw [← Real.exp_add]; simp
  have hpos : 0 < Real.exp (-1) := Real.exp_pos _
  have hpos3 := rho_pos 3 (by omega)
  unfold t
  rw [show 1 + 1 = 2 from rfl, show 1 + 2 = 3 from rfl, h2]
  rw [h3] at hpos3 ⊢
  push_cast
  field_simp
  nlinarith

end Arp.ECf

namespace Arp.ECf
open Arp Arp.SpecRound Arp.Sqrt Arp.RelErr

/-! ## 2. contraction of the backward recurrence, and the error budget -/

/-- one level of the recurrence damps an error of the deeper tail by
    `k(k+3)/((k+1)²(k+4)) < 1/k` -/
theorem contract (k : ℕ) (hk : 1 ≤ k) {x : ℝ} (hx : (k:ℝ) + 1 ≤ x) :
    |(k:ℝ) / x - (k:ℝ) / t (k + 1)| ≤
      (k:ℝ) * ((k:ℝ) + 3) / (((k:ℝ) + 1) ^ 2 * ((k:ℝ) + 4)) * |x - t (k + 1)| := by
  have hk' : (1:ℝ) ≤ (k:ℝ) := by exact_mod_cast hk
  have hT := t_lower (k + 1) (by omega)
  push_cast at hT
  rw [show (k:ℝ) + 1 + 3 = (k:ℝ) + 4 by ring, show (k:ℝ) + 1 + 2 = (k:ℝ) + 3 by ring] at hT
  set T := t (k + 1)
  have hTpos : 0 < T := lt_trans (by positivity) hT
  have hxpos : 0 < x := by linarith
  have e : (k:ℝ) / x - (k:ℝ) / T = (k:ℝ) * (T - x) / (x * T) := by field_simp
  have h1 : ((k:ℝ) + 1) * (((k:ℝ) + 1) * ((k:ℝ) + 4)) ≤ x * (T * ((k:ℝ) + 3)) := by
    have h2 : ((k:ℝ) + 1) * ((k:ℝ) + 4) ≤ T * ((k:ℝ) + 3) := by
      rw [div_lt_iff₀ (by positivity)] at hT; linarith
    exact mul_le_mul hx h2 (by positivity) (le_of_lt hxpos)
  have key : (k:ℝ) / (x * T) ≤ (k:ℝ) * ((k:ℝ) + 3) / (((k:ℝ) + 1) ^ 2 * ((k:ℝ) + 4)) := by
    rw [div_le_div_iff₀ (mul_pos hxpos hTpos) (by positivity)]
    nlinarith
  rw [e, abs_div, abs_mul, abs_of_pos (mul_pos hxpos hTpos), abs_of_nonneg (by linarith : (0:ℝ) ≤ k),
    abs_sub_comm T x]
  calc (k:ℝ) * |x - T| / (x * T) = (k:ℝ) / (x * T) * |x - T| := by ring
    _ ≤ _ := mul_le_mul_of_nonneg_right key (abs_nonneg _)

/-- the error budget at level `k` when the evaluation starts at level `K` with an error `≤ K`:
    `w·(k + 3/2)` from the roundings, plus the damped starting error -/
noncomputable def bnd (K : ℕ) (w : ℝ) (k : ℕ) : ℝ :=
  w * ((k:ℝ) + 3/2) +
    (K:ℝ) * ((k:ℝ) * (k.factorial:ℝ) * ((k:ℝ) + 3)) / ((K:ℝ) * (K.factorial:ℝ) * ((K:ℝ) + 3))

theorem bnd_top (K : ℕ) (hK : 1 ≤ K) {w : ℝ} (hw : 0 ≤ w) : (K:ℝ) ≤ bnd K w K := by
  unfold bnd
  have hK' : (1:ℝ) ≤ (K:ℝ) := by exact_mod_cast hK
  have hf : (0:ℝ) < (K.factorial : ℝ) := by exact_mod_cast K.factorial_pos
  rw [mul_div_assoc, div_self (by positivity), mul_one]
  have : 0 ≤ w * ((K:ℝ) + 3/2) := by positivity
  linarith

theorem bnd_step (K : ℕ) (hK : 1 ≤ K) {w : ℝ} (hw : 0 ≤ w) (k : ℕ) (hk : 1 ≤ k) :
    (k:ℝ) * ((k:ℝ) + 3) / (((k:ℝ) + 1) ^ 2 * ((k:ℝ) + 4)) * bnd K w (k + 1) + w * ((k:ℝ) + 1/2)
      ≤ bnd K w k := by
  have hk' : (1:ℝ) ≤ (k:ℝ) := by exact_mod_cast hk
  have hK' : (1:ℝ) ≤ (K:ℝ) := by exact_mod_cast hK
  have hf : (0:ℝ) < (K.factorial : ℝ) := by exact_mod_cast K.factorial_pos
  have hg : (0:ℝ) < (k.factorial : ℝ) := by exact_mod_cast k.factorial_pos
  unfold bnd
  rw [Nat.factorial_succ]
  push_cast
  set c := (k:ℝ) * ((k:ℝ) + 3) / (((k:ℝ) + 1) ^ 2 * ((k:ℝ) + 4)) with hc
  have hc0 : 0 ≤ c := by positivity
  have h1 : c * ((k:ℝ) + 1 + 3/2) ≤ 1 := by
    rw [hc, div_mul_eq_mul_div, div_le_one (by positivity)]
    nlinarith
  have h2 : c * ((K:ℝ) * (((k:ℝ) + 1) * (((k:ℝ) + 1) * (k.factorial:ℝ)) * ((k:ℝ) + 1 + 3)) /
      ((K:ℝ) * (K.factorial:ℝ) * ((K:ℝ) + 3))) =
      (K:ℝ) * ((k:ℝ) * (k.factorial:ℝ) * ((k:ℝ) + 3)) / ((K:ℝ) * (K.factorial:ℝ) * ((K:ℝ) + 3)) := by
    rw [hc]; field_simp; ring
  rw [mul_add, h2]
  have h3 : c * (w * ((k:ℝ) + 1 + 3/2)) ≤ w := by
    calc c * (w * ((k:ℝ) + 1 + 3/2)) = w * (c * ((k:ℝ) + 1 + 3/2)) := by ring
      _ ≤ w * 1 := mul_le_mul_of_nonneg_left h1 hw
      _ = w := mul_one w
  linarith

end Arp.ECf

namespace Arp.ECf
open Arp Arp.SpecRound Arp.Sqrt Arp.RelErr

/-! ## 3. one rounding: absolute error in terms of the binade -/

/-- a rounding of `q ≤ 2^(E+1)` (in range) is off by at most `unit·2^E`: half an ulp of the binade
    `[2^E, 2^(E+1))` in the nearest modes, one ulp otherwise -/
theorem rnd_abs_err {F : Sem} (hF : F.WF) (rm : RM) {q : ℚ} (hr : InRange F q) {E : ℤ}
    (hE : q ≤ (2:ℚ) ^ (E + 1)) : |rnd F rm q - q| ≤ unit F rm * (2:ℚ) ^ E := by
  have hq := inRange_pos hr
  have hp : 1 ≤ F.p := by have := hF.2; omega
  have two : (1:ℚ) < 2 := by norm_num
  rcases eq_or_lt_of_le hE with heq | hlt
  · have hrep : IsRep F q := by
      rw [heq]
      apply isRep_pow hF
      · have h1 : (2:ℚ) ^ F.emin ≤ (2:ℚ) ^ (E + 1) := by rw [← heq]; exact hr.1
        have := (zpow_le_zpow_iff_right₀ two).mp h1
        omega
      · have h1 : (2:ℚ) ^ (E + 1) < (2:ℚ) ^ (F.emax + 1) := by
          rw [← heq]; exact lt_of_le_of_lt hr.2 (maxFinite_lt_sr F)
        have := (zpow_lt_zpow_iff_right₀ two).mp h1
        omega
    rw [rnd_rep hF rm hrep hq, sub_self, abs_zero]
    have := unit_pos F rm
    positivity
  · obtain ⟨e, m, hfin⟩ := round_fin_of_range hF rm false hr.1 hr.2
    have hsat : rm.truncFor false → q < (2:ℚ) ^ (F.emax + 1) :=
      fun _ => lt_of_le_of_lt hr.2 (maxFinite_lt_sr F)
    obtain ⟨e0, m0, f, d, herr⟩ := round_err_core hF hq rm false hsat hfin
    have hle := (decomp_pow_le d hp hr.1).1
    have he0 : e0 ≤ E := by
      have h1 : (2:ℚ) ^ e0 < (2:ℚ) ^ (E + 1) := lt_of_le_of_lt hle hlt
      have := (zpow_lt_zpow_iff_right₀ two).mp h1
      omega
    have hu := F.ulp_pos e0
    have hf0 := d.hf0
    have hf1 := d.hf1
    have hbound : F.ulp e0 ≤ u F * (2:ℚ) ^ E := by
      rw [ulp_eq_u]
      exact mul_le_mul_of_nonneg_left (zpow_le_zpow_right₀ (by norm_num) he0) (le_of_lt (u_pos F))
    unfold rnd
    rw [hfin, Res.mag_fin, herr]
    by_cases hrm : rm = .nte ∨ rm = .nta
    · rw [unit_nearest hrm, abs_le]
      cases hup : Spec.up rm false m0 f
      · simp only [Bool.false_eq_true, if_false]
        have := up_nearest_false hrm hup
        constructor <;> nlinarith
      · simp only [if_true]
        have := up_nearest_true hrm hup
        constructor <;> nlinarith
    · unfold unit
      rw [if_neg hrm, abs_le]
      cases hup : Spec.up rm false m0 f
      · simp only [Bool.false_eq_true, if_false]
        constructor <;> nlinarith
      · simp only [if_true]
        constructor <;> nlinarith

/-! ## 4. the working format and its level counters -/

/-- side conditions on the working format `G` and the level `K` at which the analysis starts -/
structure ECtx (G : Sem) (K : ℕ) : Prop where
  wf : G.WF
  emin : G.emin ≤ -2
  emax : (G.p : ℤ) ≤ G.emax
  Klt : K < 2 ^ G.p
  K63 : (K : ℤ) < 2 ^ 63

variable {G : Sem} {K : ℕ}

theorem pow_p_le_maxFinite (C : ECtx G K) : (2:ℚ) ^ G.p ≤ maxFinite G := by
  have hp : 1 ≤ G.p := by have := C.wf.2; omega
  have h1 := pow_emax_le_maxFinite (F := G) hp
  have h2 : (2:ℚ) ^ (G.p : ℤ) ≤ (2:ℚ) ^ G.emax := zpow_le_zpow_right₀ (by norm_num) C.emax
  rw [zpow_natCast] at h2
  linarith

/-- natural numbers below `2^p` are representable -/
theorem nat_isRep (C : ECtx G K) (n : ℕ) (hn : n < 2 ^ G.p) : IsRep G (n:ℚ) := by
  have h := isRep_of_lt C.wf n 0 hn (by have := C.emin; omega) (by
    rw [zpow_zero, mul_one]
    have h1 : (n:ℚ) < (2:ℚ) ^ G.p := by exact_mod_cast hn
    have h2 : (2:ℚ) ^ (G.p : ℤ) ≤ (2:ℚ) ^ (G.emax + 1) :=
      zpow_le_zpow_right₀ (by norm_num) (by have := C.emax; omega)
    rw [zpow_natCast] at h2
    linarith)
  rwa [zpow_zero, mul_one] at h

theorem nat_inRange (C : ECtx G K) {q : ℚ} (h1 : 1/4 ≤ q) (h2 : q ≤ (2:ℚ) ^ G.p) : InRange G q := by
  refine ⟨?_, le_trans h2 (pow_p_le_maxFinite C)⟩
  have : (2:ℚ) ^ G.emin ≤ (2:ℚ) ^ (-2:ℤ) := zpow_le_zpow_right₀ (by norm_num) C.emin
  have e : (2:ℚ) ^ (-2:ℤ) = 1/4 := by norm_num
  rw [e] at this
  linarith

/-- the level counter `from_i64(k)` is exact -/
theorem counter (C : ECtx G K) (i : ℕ) (hi : i + 1 ≤ K) :
    PosN G (fromI64 G ((i:ℤ) + 1)) ∧ (fromI64 G ((i:ℤ) + 1)).mag = (i:ℚ) + 1 := by
  have hG := C.wf
  have h63 := C.K63
  have hcor := C08.fromI64_correct G ((i:ℤ) + 1) hG ⟨by omega, by omega⟩
  have hsem := (fromI64_canonical G ((i:ℤ) + 1) hG).2
  have hrep : IsRep G ((i + 1 : ℕ) : ℚ) := nat_isRep C (i + 1) (lt_of_le_of_lt hi C.Klt)
  have hq : (0:ℚ) < ((i + 1 : ℕ) : ℚ) := by positivity
  have hspec : Spec.fromInt G ((i:ℤ) + 1) = Spec.round G .nte false ((i + 1 : ℕ) : ℚ) := by
    unfold Spec.fromInt
    rw [if_neg (by omega), if_neg (by omega)]
    congr 2
  rw [hspec] at hcor
  obtain ⟨e, m, hr, _⟩ := round_exact hG hq hrep .nte false
  obtain ⟨h1, h2⟩ := posN_of_round hG hsem hq hr hcor
  refine ⟨h1, ?_⟩
  rw [h2, rnd_rep hG .nte hrep hq]
  push_cast; ring

end Arp.ECf

namespace Arp.ECf
open Arp Arp.SpecRound Arp.Sqrt Arp.RelErr

variable {G : Sem} {K : ℕ}

/-! ## 5. one level of the loop -/

theorem quarter_isRep (C : ECtx G K) : IsRep G (1/4) := by
  have := isRep_pow C.wf (-2) (by have := C.emin; have := C.wf.2; omega)
    (by have := C.emax; omega)
  norm_num at this
  exact this

theorem one_isRep (C : ECtx G K) : IsRep G 1 := by
  have := nat_isRep C 1 (Nat.one_lt_two_pow (by have := C.wf.2; omega))
  simpa using this

/-- one level `term ← v + v/term` (`v = i + 1`) over `ℚ`: the quotient is rounded to `d ≤ 1` with
    error `≤ unit/2`, the sum to a value in `[v, v + 1]` with error `≤ unit·v` -/
theorem step_q (C : ECtx G K) (i : ℕ) (hi : i + 2 ≤ K) {x : Flt} (hx : PosN G x)
    (hlo : (i:ℚ) + 2 ≤ x.mag) (hhi : x.mag ≤ 2 * ((i:ℚ) + 2)) :
    PosN G ((fromI64 G ((i:ℤ) + 1)).add ((fromI64 G ((i:ℤ) + 1)).div x)) ∧
    (i:ℚ) + 1 ≤ ((fromI64 G ((i:ℤ) + 1)).add ((fromI64 G ((i:ℤ) + 1)).div x)).mag ∧
    ((fromI64 G ((i:ℤ) + 1)).add ((fromI64 G ((i:ℤ) + 1)).div x)).mag ≤ (i:ℚ) + 2 ∧
      ∃ d : ℚ, |d - ((i:ℚ) + 1) / x.mag| ≤ unit G G.rm / 2 ∧
        |((fromI64 G ((i:ℤ) + 1)).add ((fromI64 G ((i:ℤ) + 1)).div x)).mag - ((i:ℚ) + 1 + d)|
          ≤ unit G G.rm * ((i:ℚ) + 1) := by
  have hG := C.wf
  obtain ⟨hv, hvm⟩ := counter C i (by omega)
  set v := fromI64 G ((i:ℤ) + 1) with hvdef
  have hi0 : (0:ℚ) ≤ (i:ℚ) := Nat.cast_nonneg i
  have hxpos : 0 < x.mag := by linarith
  have hw := unit_pos G G.rm
  -- the quotient
  have hb1 : v.mag / x.mag ≤ 1 := by rw [hvm, div_le_one hxpos]; linarith
  have hb0 : 1/4 ≤ v.mag / x.mag := by
    rw [hvm, div_le_div_iff₀ (by norm_num) hxpos]; linarith
  have h1rep := one_isRep C
  have h4rep := quarter_isRep C
  obtain ⟨hd, hdm⟩ := div_posN hG hv hx (by norm_num) h4rep h1rep hb0 hb1
  have hbpos : 0 < v.mag / x.mag := by linarith
  have hd1 : (v.div x).mag ≤ 1 := by rw [hdm]; exact rnd_le hG _ hbpos h1rep hb1
  have hd0 : 1/4 ≤ (v.div x).mag := by
    rw [hdm]; exact rnd_ge hG _ (by norm_num) h4rep hb0 h1rep hb1
  have hbr : InRange G (v.mag / x.mag) :=
    nat_inRange C hb0 (le_trans hb1 (one_le_pow₀ (by norm_num)))
  have hderr := rnd_abs_err hG G.rm hbr (E := -1) (by norm_num; linarith)
  -- the sum
  have hkrep : IsRep G ((i + 1 : ℕ) : ℚ) := nat_isRep C (i + 1) (by have := C.Klt; omega)
  have hk1rep : IsRep G ((i + 2 : ℕ) : ℚ) := nat_isRep C (i + 2) (by have := C.Klt; omega)
  push_cast at hkrep hk1rep
  have ha0 : (i:ℚ) + 1 ≤ v.mag + (v.div x).mag := by rw [hvm]; linarith
  have ha1 : v.mag + (v.div x).mag ≤ (i:ℚ) + 2 := by rw [hvm]; linarith
  obtain ⟨hy, hym⟩ := add_posN hG hv hd (by linarith) hkrep hk1rep ha0 ha1
  have hapos : 0 < v.mag + (v.div x).mag := by linarith
  have hKq : ((i:ℚ) + 2) ≤ (2:ℚ) ^ G.p := by
    have : i + 2 ≤ 2 ^ G.p := by have := C.Klt; omega
    exact_mod_cast this
  have har : InRange G (v.mag + (v.div x).mag) := nat_inRange C (by linarith) (by linarith)
  have hl1 : 2 ^ Nat.log2 (i + 1) ≤ i + 1 := Nat.log2_self_le (by omega)
  have hl2 : i + 1 < 2 ^ (Nat.log2 (i + 1) + 1) := Nat.lt_log2_self
  have hE : v.mag + (v.div x).mag ≤ (2:ℚ) ^ (((Nat.log2 (i + 1) : ℕ) : ℤ) + 1) := by
    have : ((i + 2 : ℕ) : ℚ) ≤ ((2 ^ (Nat.log2 (i + 1) + 1) : ℕ) : ℚ) := Nat.cast_le.mpr (by omega)
    push_cast at this
    rw [show ((Nat.log2 (i + 1) : ℕ) : ℤ) + 1 = ((Nat.log2 (i + 1) + 1 : ℕ) : ℤ) by push_cast; ring,
      zpow_natCast]
    linarith
  have haerr := rnd_abs_err hG G.rm har hE
  have hpw : (2:ℚ) ^ ((Nat.log2 (i + 1) : ℕ) : ℤ) ≤ (i:ℚ) + 1 := by
    rw [zpow_natCast]
    have : ((2 ^ Nat.log2 (i + 1) : ℕ) : ℚ) ≤ ((i + 1 : ℕ) : ℚ) := Nat.cast_le.mpr hl1
    push_cast at this; exact this
  refine ⟨hy, ?_, ?_, (v.div x).mag, ?_, ?_⟩
  · rw [hym]; exact rnd_ge hG _ (by linarith) hkrep ha0 hk1rep ha1
  · rw [hym]; exact rnd_le hG _ hapos hk1rep ha1
  · rw [hdm, ← hvm]
    have e : unit G G.rm * (2:ℚ) ^ (-1:ℤ) = unit G G.rm / 2 := by norm_num; ring
    rw [← e]; exact hderr
  · rw [hym, hvm]
    rw [hvm] at haerr
    exact le_trans haerr (mul_le_mul_of_nonneg_left hpw (le_of_lt hw))

end Arp.ECf

namespace Arp.ECf
open Arp Arp.SpecRound Arp.Sqrt Arp.RelErr

variable {G : Sem} {K : ℕ}

/-! ## 6. the invariant of the loop -/

/-- `x` is the computed tail at level `k`: a positive value of `[k, 2k]` within the budget `bnd`
    of the exact tail `t k` -/
structure Lvl (G : Sem) (K : ℕ) (k : ℕ) (x : Flt) : Prop where
  pos : PosN G x
  lo : (k:ℚ) ≤ x.mag
  hi : x.mag ≤ 2 * (k:ℚ)
  err : |((x.mag : ℚ) : ℝ) - t k| ≤ bnd K ((unit G G.rm : ℚ) : ℝ) k

theorem unitR_pos (G : Sem) : (0:ℝ) < ((unit G G.rm : ℚ) : ℝ) := by
  exact_mod_cast unit_pos G G.rm

/-- any positive value of `[K, 2K]` can start the analysis at level `K` -/
theorem lvl_top (hK : 1 ≤ K) {x : Flt} (hx : PosN G x) (hlo : (K:ℚ) ≤ x.mag)
    (hhi : x.mag ≤ 2 * (K:ℚ)) : Lvl G K K x := by
  refine ⟨hx, hlo, hhi, ?_⟩
  have h1 := t_gt K hK
  have h2 := t_lt K hK
  have hlo' : (K:ℝ) ≤ ((x.mag : ℚ) : ℝ) := by exact_mod_cast hlo
  have hhi' : ((x.mag : ℚ) : ℝ) ≤ 2 * (K:ℝ) := by exact_mod_cast hhi
  have hb := bnd_top K hK (le_of_lt (unitR_pos G))
  have hK' : (1:ℝ) ≤ (K:ℝ) := by exact_mod_cast hK
  rw [abs_le]
  constructor <;> linarith

theorem lvl_step (C : ECtx G K) (i : ℕ) (hi : i + 2 ≤ K) {x : Flt} (h : Lvl G K (i + 2) x) :
    Lvl G K (i + 1) ((fromI64 G ((i:ℤ) + 1)).add ((fromI64 G ((i:ℤ) + 1)).div x)) := by
  have hlo := h.lo
  have hhi := h.hi
  push_cast at hlo hhi
  obtain ⟨hy, hylo, hyhi, d, hd, hyerr⟩ := step_q C i hi h.pos hlo hhi
  set y := (fromI64 G ((i:ℤ) + 1)).add ((fromI64 G ((i:ℤ) + 1)).div x)
  have hi0 : (0:ℚ) ≤ (i:ℚ) := Nat.cast_nonneg i
  refine ⟨hy, by push_cast; exact hylo, by push_cast; linarith, ?_⟩
  set w : ℝ := ((unit G G.rm : ℚ) : ℝ) with hwdef
  have hw := unitR_pos G
  -- the two roundings, in ℝ
  have hd' : |((d:ℚ):ℝ) - ((i:ℝ) + 1) / ((x.mag : ℚ) : ℝ)| ≤ w / 2 := by
    have : ((|d - ((i:ℚ) + 1) / x.mag| : ℚ) : ℝ) ≤ ((unit G G.rm / 2 : ℚ) : ℝ) := by
      exact_mod_cast hd
    push_cast at this
    exact this
  have hy' : |((y.mag : ℚ) : ℝ) - ((i:ℝ) + 1 + ((d:ℚ):ℝ))| ≤ w * ((i:ℝ) + 1) := by
    have : ((|y.mag - ((i:ℚ) + 1 + d)| : ℚ) : ℝ) ≤ ((unit G G.rm * ((i:ℚ) + 1) : ℚ) : ℝ) := by
      exact_mod_cast hyerr
    push_cast at this
    exact this
  -- the propagated error of the deeper tail
  have hX : (((i + 1 : ℕ):ℝ)) + 1 ≤ ((x.mag : ℚ) : ℝ) := by
    have : ((((i:ℚ) + 2 : ℚ)) : ℝ) ≤ ((x.mag : ℚ) : ℝ) := by exact_mod_cast hlo
    push_cast at this ⊢
    linarith
  have hc := contract (i + 1) (by omega) hX
  have hrec := t_rec (i + 1) (by omega)
  have hbs := bnd_step K (by omega) (le_of_lt hw) (i + 1) (by omega)
  have herr := h.err
  rw [show i + 2 = i + 1 + 1 from rfl] at herr
  rw [← hwdef] at herr hbs
  set c := (((i + 1 : ℕ):ℝ)) * ((((i + 1 : ℕ):ℝ)) + 3) /
    (((((i + 1 : ℕ):ℝ)) + 1) ^ 2 * ((((i + 1 : ℕ):ℝ)) + 4)) with hcdef
  have hc0 : 0 ≤ c := by rw [hcdef]; positivity
  have hprop : |(((i + 1 : ℕ):ℝ)) / ((x.mag : ℚ) : ℝ) - (((i + 1 : ℕ):ℝ)) / t (i + 1 + 1)| ≤
      c * bnd K w (i + 1 + 1) := le_trans hc (mul_le_mul_of_nonneg_left herr hc0)
  push_cast at hprop hrec hbs
  rw [hrec]
  rw [abs_le] at hd' hy' hprop ⊢
  constructor <;> linarith [hd'.1, hd'.2, hy'.1, hy'.2, hprop.1, hprop.2]

/-- the loop from level `i + 1` down to level `1` -/
theorem eLoop_lvl (C : ECtx G K) : ∀ (i : ℕ) (x : Flt), i + 1 ≤ K → Lvl G K (i + 1) x →
    Lvl G K 1 (eLoop G i x) := by
  intro i
  induction i with
  | zero => intro x _ h; exact h
  | succ i ih =>
    intro x hi h
    rw [eLoop]
    exact ih _ (by omega) (lvl_step C i hi h)

end Arp.ECf

namespace Arp.ECf
open Arp Arp.SpecRound Arp.Sqrt Arp.RelErr

variable {G : Sem} {K : ℕ}

/-! ## 7. the last two operations and the final cast -/

theorem one_posN (hG : G.WF) : PosN G (Flt.one G false) ∧ (Flt.one G false).mag = 1 :=
  ⟨⟨rfl, Flt.one_canonical G false hG, rfl, rfl⟩, Ln2.ln2_one_mag hG⟩

theorem two_posN (C : ECtx G K) : PosN G (fromU64 G 2) ∧ (fromU64 G 2).mag = 2 := by
  have hG := C.wf
  have hcor := C08.fromU64_correct G 2 hG (by norm_num)
  have hsem := (fromU64_canonical G 2 hG).2
  have hrep : IsRep G ((2 : ℕ) : ℚ) := nat_isRep C 2 (by
    have : 2 ^ 2 ≤ 2 ^ G.p := Nat.pow_le_pow_right (by norm_num) hG.2
    omega)
  have hq : (0:ℚ) < ((2 : ℕ) : ℚ) := by norm_num
  unfold Spec.fromNat Spec.roundQ at hcor
  rw [if_neg (ne_of_gt hq), if_pos hq] at hcor
  obtain ⟨e, m, hr, _⟩ := round_exact hG hq hrep .nte false
  obtain ⟨h1, h2⟩ := posN_of_round hG hsem hq hr hcor
  refine ⟨h1, ?_⟩
  rw [h2, rnd_rep hG .nte hrep hq]
  norm_num

theorem half_isRep (C : ECtx G K) : IsRep G (1/2) := by
  have := isRep_pow C.wf (-1) (by have := C.emin; have := C.wf.2; omega)
    (by have := C.emax; omega)
  norm_num at this
  exact this

/-- `1/term + 2` over `ℚ` for a term in `[1, 2]` -/
theorem final_q (C : ECtx G K) {x : Flt} (hx : PosN G x) (hlo : 1 ≤ x.mag) (hhi : x.mag ≤ 2) :
    PosN G (((Flt.one G false).div x).add (fromU64 G 2)) ∧
    2 ≤ (((Flt.one G false).div x).add (fromU64 G 2)).mag ∧
    (((Flt.one G false).div x).add (fromU64 G 2)).mag ≤ 3 ∧
      ∃ d : ℚ, |d - 1 / x.mag| ≤ unit G G.rm / 2 ∧
        |(((Flt.one G false).div x).add (fromU64 G 2)).mag - (d + 2)| ≤ unit G G.rm * 2 := by
  have hG := C.wf
  obtain ⟨h1, h1m⟩ := one_posN hG
  obtain ⟨h2, h2m⟩ := two_posN C
  have hxpos : 0 < x.mag := by linarith
  have hw := unit_pos G G.rm
  have hp2 : 2 ^ 2 ≤ 2 ^ G.p := Nat.pow_le_pow_right (by norm_num) hG.2
  have hb1 : (Flt.one G false).mag / x.mag ≤ 1 := by rw [h1m, div_le_one hxpos]; exact hlo
  have hb0 : 1/2 ≤ (Flt.one G false).mag / x.mag := by
    rw [h1m, div_le_div_iff₀ (by norm_num) hxpos]; linarith
  have h1rep := one_isRep C
  have hhrep := half_isRep C
  obtain ⟨hd, hdm⟩ := div_posN hG h1 hx (by norm_num) hhrep h1rep hb0 hb1
  have hbpos : 0 < (Flt.one G false).mag / x.mag := by linarith
  have hd1 : ((Flt.one G false).div x).mag ≤ 1 := by rw [hdm]; exact rnd_le hG _ hbpos h1rep hb1
  have hd0 : 1/2 ≤ ((Flt.one G false).div x).mag := by
    rw [hdm]; exact rnd_ge hG _ (by norm_num) hhrep hb0 h1rep hb1
  have hbr : InRange G ((Flt.one G false).mag / x.mag) :=
    nat_inRange C (by linarith) (le_trans hb1 (one_le_pow₀ (by norm_num)))
  have hderr := rnd_abs_err hG G.rm hbr (E := -1) (by norm_num; linarith)
  have h2rep : IsRep G ((2 : ℕ) : ℚ) := nat_isRep C 2 (by omega)
  have h3rep : IsRep G ((3 : ℕ) : ℚ) := nat_isRep C 3 (by omega)
  push_cast at h2rep h3rep
  have ha0 : 2 ≤ ((Flt.one G false).div x).mag + (fromU64 G 2).mag := by rw [h2m]; linarith
  have ha1 : ((Flt.one G false).div x).mag + (fromU64 G 2).mag ≤ 3 := by rw [h2m]; linarith
  obtain ⟨hy, hym⟩ := add_posN hG hd h2 (by norm_num) h2rep h3rep ha0 ha1
  have h4 : (4:ℚ) ≤ (2:ℚ) ^ G.p := by exact_mod_cast hp2
  have har : InRange G (((Flt.one G false).div x).mag + (fromU64 G 2).mag) :=
    nat_inRange C (by linarith) (by linarith)
  have haerr := rnd_abs_err hG G.rm har (E := 1) (by norm_num; linarith)
  refine ⟨hy, ?_, ?_, ((Flt.one G false).div x).mag, ?_, ?_⟩
  · rw [hym]; exact rnd_ge hG _ (by norm_num) h2rep ha0 h3rep ha1
  · rw [hym]; exact rnd_le hG _ (by linarith) h3rep ha1
  · rw [hdm]
    rw [h1m] at hderr ⊢
    have e : unit G G.rm * (2:ℚ) ^ (-1:ℤ) = unit G G.rm / 2 := by norm_num; ring
    rw [← e]; exact hderr
  · rw [hym]
    rw [h2m] at haerr ⊢
    have e : unit G G.rm * (2:ℚ) ^ (1:ℤ) = unit G G.rm * 2 := by norm_num
    rw [← e]; exact haerr

/-- the final cast of a value in `[2, 3]` to the target format -/
theorem cast_q {F : Sem} (hF : F.WF) (hG : G.WF) (hrm : G.rm = F.rm) (hemin : F.emin ≤ 1)
    (hemax : 2 ≤ F.emax) {s : Flt} (hs : PosN G s) (hlo : 2 ≤ s.mag) (hhi : s.mag ≤ 3) :
    PosN F (s.cast F) ∧ |(s.cast F).mag - s.mag| ≤ unit F F.rm * 2 := by
  have hp : 1 ≤ F.p := by have := hF.2; omega
  have hcor := C06.cast_correct s F F.rm (by rw [hs.sem]; exact hG) hF hs.can
  have hsem := (cast_canonical s F hF hs.can).2
  have hcast : s.cast F = s.castWithRm F F.rm := by unfold Flt.cast; rw [hs.sem, hrm]
  have hspec : Spec.cast F F.rm s = Spec.round F F.rm false s.mag := by
    simp only [Spec.cast, hs.cat, hs.sign]
  rw [hspec, ← hcast] at hcor
  have hq : 0 < s.mag := by linarith
  have hr : InRange F s.mag := by
    constructor
    · have : (2:ℚ) ^ F.emin ≤ (2:ℚ) ^ (1:ℤ) := zpow_le_zpow_right₀ (by norm_num) hemin
      norm_num at this; linarith
    · have h1 := pow_emax_le_maxFinite (F := F) hp
      have : (2:ℚ) ^ (2:ℤ) ≤ (2:ℚ) ^ F.emax := zpow_le_zpow_right₀ (by norm_num) hemax
      norm_num at this; linarith
  obtain ⟨e, m, hfin⟩ := round_fin_of_range hF F.rm false hr.1 hr.2
  obtain ⟨h1, h2⟩ := posN_of_round hF hsem hq hfin hcor
  refine ⟨h1, ?_⟩
  rw [h2]
  have := rnd_abs_err hF F.rm hr (E := 1) (by norm_num; linarith)
  norm_num at this
  exact this

end Arp.ECf

namespace Arp.ECf
open Arp Arp.SpecRound Arp.Sqrt Arp.RelErr

variable {K : ℕ}

/-! ## 8. assembly -/

theorem t1_bounds : 1.392 < t 1 ∧ t 1 < 2 := by
  have h1 := e_eq
  have h2 := Real.exp_one_lt_d9
  have hpos := t_pos 1 (le_refl _)
  have hlt := t_lt 1 (le_refl _)
  refine ⟨?_, by push_cast at hlt; linarith⟩
  have h3 : 1 / t 1 < 0.7182818286 := by linarith
  rw [div_lt_iff₀ hpos] at h3
  linarith

theorem unit_inc (F : Sem) : unit (F.increasePrecision 1) F.rm = unit F F.rm / 2 := by
  have hu : u (F.increasePrecision 1) = u F / 2 := by
    unfold u
    show (2:ℚ) ^ (1 - ((F.p + 1 : ℕ) : ℤ)) = _
    push_cast
    rw [show (1:ℤ) - ((F.p:ℤ) + 1) = (1 - (F.p:ℤ)) - 1 by ring, zpow_sub_one₀ (by norm_num)]
    ring
  unfold unit
  rw [hu]
  split <;> ring

theorem unit_ge (F : Sem) (rm : RM) : u F / 2 ≤ unit F rm := by
  have := u_pos F
  unfold unit; split <;> linarith

theorem bnd_one_le (hK : 1 ≤ K) (w : ℝ) :
    bnd K w 1 ≤ 5/2 * w + 4 / (((K + 1).factorial : ℕ) : ℝ) := by
  have hK' : (1:ℝ) ≤ (K:ℝ) := by exact_mod_cast hK
  have hf : (0:ℝ) < (K.factorial : ℝ) := by exact_mod_cast K.factorial_pos
  unfold bnd
  rw [Nat.factorial_succ K, Nat.factorial_one]
  push_cast
  have e : (K:ℝ) * (1 * 1 * (1 + 3)) / ((K:ℝ) * (K.factorial:ℝ) * ((K:ℝ) + 3)) =
      4 / ((K.factorial:ℝ) * ((K:ℝ) + 3)) := by field_simp; ring
  have h : 4 / ((K.factorial:ℝ) * ((K:ℝ) + 3)) ≤ 4 / (((K:ℝ) + 1) * (K.factorial:ℝ)) := by
    apply div_le_div_of_nonneg_left (by norm_num) (by positivity)
    nlinarith
  rw [e]
  linarith

/-- **the accuracy of `e`, given the invariant at level 1.**  `4·unit` is one ulp of `[2, 4)` in
    the nearest modes and two ulps otherwise. -/
theorem e_core {F : Sem} (hF : F.WF) (hp : 8 ≤ F.p) (hemin : F.emin ≤ 1) (hemax : 2 ≤ F.emax)
    (C : ECtx (F.increasePrecision 1) K) (hK : 1 ≤ K)
    (hfact : 2 ^ (F.p + 9) ≤ (K + 1).factorial) {x : Flt}
    (hx : Lvl (F.increasePrecision 1) K 1 x) :
    ((((Flt.one (F.increasePrecision 1) false).div x).add
        (fromU64 (F.increasePrecision 1) 2)).cast F).cat = .normal ∧
    ((((Flt.one (F.increasePrecision 1) false).div x).add
        (fromU64 (F.increasePrecision 1) 2)).cast F).sign = false ∧
    |((((((Flt.one (F.increasePrecision 1) false).div x).add
        (fromU64 (F.increasePrecision 1) 2)).cast F).val : ℚ) : ℝ) - Real.exp 1| ≤
      4 * ((unit F F.rm : ℚ) : ℝ) := by
  set G := F.increasePrecision 1 with hGdef
  have hG := C.wf
  have hGrm : G.rm = F.rm := rfl
  have hlo := hx.lo
  have hhi := hx.hi
  push_cast at hlo hhi
  obtain ⟨hs, hslo, hshi, d, hd, hserr⟩ := final_q C hx.pos hlo (by linarith)
  set s := ((Flt.one G false).div x).add (fromU64 G 2)
  obtain ⟨hr, hrerr⟩ := cast_q hF hG hGrm hemin hemax hs hslo hshi
  set r := s.cast F
  refine ⟨hr.cat, hr.sign, ?_⟩
  have hval : r.val = r.mag := by rw [Flt.val_normal hr.cat, hr.sign]; simp
  rw [hval]
  -- units
  have hwq : unit G G.rm = unit F F.rm / 2 := by rw [hGrm]; exact unit_inc F
  set w : ℝ := ((unit G G.rm : ℚ) : ℝ) with hwdef
  have hwF : ((unit F F.rm : ℚ) : ℝ) = 2 * w := by
    rw [hwdef, hwq]; push_cast; ring
  have hw := unitR_pos G
  rw [← hwdef] at hw
  -- size of the unit
  have hwlo : 1 / (2:ℝ) ^ (F.p + 1) ≤ w := by
    have h1 := unit_ge G G.rm
    have h2 : u G / 2 = 1 / (2:ℚ) ^ (F.p + 1) := by
      unfold u
      show (2:ℚ) ^ (1 - ((F.p + 1 : ℕ) : ℤ)) / 2 = _
      push_cast
      rw [show (1:ℤ) - ((F.p:ℤ) + 1) = -(F.p:ℤ) by ring, zpow_neg, zpow_natCast, pow_succ]
      field_simp
    rw [h2] at h1
    have : ((1 / (2:ℚ) ^ (F.p + 1) : ℚ) : ℝ) ≤ ((unit G G.rm : ℚ) : ℝ) := by exact_mod_cast h1
    push_cast at this
    exact this
  have hwhi : w ≤ 1 / 256 := by
    have h1 := unit_le_u G G.rm
    have h2 : u G ≤ (2:ℚ) ^ (1 - ((9:ℕ):ℤ)) := u_le_of_le_p (F := G) (k := 9) (by
      show 9 ≤ F.p + 1; omega)
    have h3 : unit G G.rm ≤ 1 / 256 := by
      have : (2:ℚ) ^ (1 - ((9:ℕ):ℤ)) = 1 / 256 := by norm_num
      rw [this] at h2; linarith
    have : ((unit G G.rm : ℚ) : ℝ) ≤ ((1 / 256 : ℚ) : ℝ) := by exact_mod_cast h3
    push_cast at this
    exact this
  -- the term
  have hq : (0:ℝ) < (2:ℝ) ^ (F.p + 1) := by positivity
  have hbeta : 4 / (((K + 1).factorial : ℕ) : ℝ) ≤ w / 64 := by
    have h1 : ((2 ^ (F.p + 9) : ℕ) : ℝ) ≤ (((K + 1).factorial : ℕ) : ℝ) := Nat.cast_le.mpr hfact
    push_cast at h1
    have h2 : (2:ℝ) ^ (F.p + 9) = (2:ℝ) ^ (F.p + 1) * 256 := by
      rw [show F.p + 9 = F.p + 1 + 8 by ring, pow_add]; norm_num
    rw [h2] at h1
    calc 4 / (((K + 1).factorial : ℕ) : ℝ) ≤ 4 / ((2:ℝ) ^ (F.p + 1) * 256) :=
          div_le_div_of_nonneg_left (by norm_num) (by positivity) h1
      _ = 1 / (2:ℝ) ^ (F.p + 1) / 64 := by field_simp; norm_num
      _ ≤ w / 64 := by linarith
  have hE1 : |((x.mag : ℚ) : ℝ) - t 1| ≤ (5/2 + 1/64) * w := by
    have := hx.err
    rw [← hwdef] at this
    have h2 := bnd_one_le hK w
    linarith
  obtain ⟨ht1, ht2⟩ := t1_bounds
  set X : ℝ := ((x.mag : ℚ) : ℝ) with hXdef
  have hXlo : 1.382 ≤ X := by
    rw [abs_le] at hE1; nlinarith [hE1.1]
  have hXpos : 0 < X := by linarith
  have htpos : 0 < t 1 := by linarith
  have hXt : 1.92 ≤ X * t 1 := by nlinarith
  have hinv : |1 / X - 1 / t 1| ≤ 3/2 * w := by
    have e : 1 / X - 1 / t 1 = (t 1 - X) / (X * t 1) := by field_simp
    rw [e, abs_div, abs_of_pos (mul_pos hXpos htpos), abs_sub_comm, div_le_iff₀ (by positivity)]
    calc |X - t 1| ≤ (5/2 + 1/64) * w := hE1
      _ ≤ 3/2 * w * 1.92 := by nlinarith
      _ ≤ 3/2 * w * (X * t 1) := mul_le_mul_of_nonneg_left hXt (by positivity)
  -- the roundings, in ℝ
  have hd' : |((d:ℚ):ℝ) - 1 / X| ≤ w / 2 := by
    have : ((|d - 1 / x.mag| : ℚ) : ℝ) ≤ ((unit G G.rm / 2 : ℚ) : ℝ) := by exact_mod_cast hd
    push_cast at this
    exact this
  have hs' : |((s.mag : ℚ) : ℝ) - (((d:ℚ):ℝ) + 2)| ≤ w * 2 := by
    have : ((|s.mag - (d + 2)| : ℚ) : ℝ) ≤ ((unit G G.rm * 2 : ℚ) : ℝ) := by exact_mod_cast hserr
    push_cast at this
    exact this
  have hr' : |((r.mag : ℚ) : ℝ) - ((s.mag : ℚ) : ℝ)| ≤ 2 * w * 2 := by
    have : ((|r.mag - s.mag| : ℚ) : ℝ) ≤ ((unit F F.rm * 2 : ℚ) : ℝ) := by exact_mod_cast hrerr
    push_cast at this
    rw [hwF] at this
    exact this
  rw [← e_eq, hwF]
  rw [abs_le] at hd' hs' hr' hinv ⊢
  constructor <;> linarith [hd'.1, hd'.2, hs'.1, hs'.2, hr'.1, hr'.2, hinv.1, hinv.2]

end Arp.ECf

namespace Arp.ECf
open Arp Arp.SpecRound Arp.Sqrt Arp.RelErr

variable {G : Sem} {K : ℕ}

/-- the first iteration `v + v/1` (`v = K`) lands in `[K, 2K]`: the start of the analysis -/
theorem first_step (C : ECtx G K) (i : ℕ) (hi : i + 1 = K) :
    Lvl G K K ((fromI64 G ((i:ℤ) + 1)).add ((fromI64 G ((i:ℤ) + 1)).div (Flt.one G false))) := by
  have hG := C.wf
  obtain ⟨hv, hvm⟩ := counter C i (by omega)
  obtain ⟨h1, h1m⟩ := one_posN hG
  set v := fromI64 G ((i:ℤ) + 1)
  have hKq : (K:ℚ) = (i:ℚ) + 1 := by rw [← hi]; push_cast; ring
  have hi0 : (0:ℚ) ≤ (i:ℚ) := Nat.cast_nonneg i
  have hKrep : IsRep G (K:ℚ) := nat_isRep C K C.Klt
  have hKpos : (0:ℚ) < (K:ℚ) := by rw [hKq]; linarith
  have hb : v.mag / (Flt.one G false).mag = (K:ℚ) := by rw [hvm, h1m, hKq]; simp
  obtain ⟨hd, hdm⟩ := div_posN hG hv h1 hKpos hKrep hKrep (le_of_eq hb.symm) (le_of_eq hb)
  have hdK : (v.div (Flt.one G false)).mag = (K:ℚ) := by
    rw [hdm, hb, rnd_rep hG _ hKrep hKpos]
  have h2rep : IsRep G (2 * (K:ℚ)) := by
    have := isRep_of_lt hG K 1 C.Klt (by have := C.emin; have := hG.2; omega) (by
      have h1 : (K:ℚ) < (2:ℚ) ^ G.p := by exact_mod_cast C.Klt
      have h2 : (2:ℚ) ^ (G.p : ℤ) ≤ (2:ℚ) ^ G.emax := zpow_le_zpow_right₀ (by norm_num) C.emax
      rw [zpow_natCast] at h2
      rw [zpow_add_one₀ (by norm_num)]
      norm_num
      linarith)
    norm_num at this
    rwa [mul_comm] at this
  have ha : v.mag + (v.div (Flt.one G false)).mag = 2 * (K:ℚ) := by rw [hvm, hdK, hKq]; ring
  obtain ⟨hy, hym⟩ := add_posN hG hv hd hKpos hKrep h2rep (by rw [ha]; linarith) (le_of_eq ha)
  have hmag : (v.add (v.div (Flt.one G false))).mag = 2 * (K:ℚ) := by
    rw [hym, ha, rnd_rep hG _ h2rep (by linarith)]
  exact lvl_top (by omega) hy (by rw [hmag]; linarith) (le_of_eq hmag)

end Arp.ECf

namespace Arp.ECf
open Arp Arp.SpecRound Arp.Sqrt Arp.RelErr

/-! ## 9. deep levels: counters that are not representable

When `2·E > 2^(p+1)` the deepest level counters are rounded by `from_i64`.  At those levels
only a crude invariant is kept (`term ∈ [v̂, 2v̂]` for the rounded counter `v̂`); the first level
whose counter is exact restarts the analysis (`lvl_top`), and the contraction wipes out
whatever happened below. -/

variable {G : Sem} {N : ℕ}

theorem rnd_mono {F : Sem} (hF : F.WF) (rm : RM) {q1 q2 : ℚ} (h1 : InRange F q1)
    (h2 : InRange F q2) (hle : q1 ≤ q2) : rnd F rm q1 ≤ rnd F rm q2 := by
  obtain ⟨e1, m1, hf1⟩ := round_fin_of_range hF rm false h1.1 h1.2
  obtain ⟨e2, m2, hf2⟩ := round_fin_of_range hF rm false h2.1 h2.2
  have := round_mono hF (inRange_pos h1) hle rm false
  rw [hf1, hf2, Res.key_fin, Res.key_fin] at this
  unfold rnd
  rw [hf1, hf2, Res.mag_fin, Res.mag_fin]
  exact_mod_cast this

/-- side conditions for the deep levels: `N` is the number of levels -/
structure DCtx (G : Sem) (N : ℕ) : Prop where
  wf : G.WF
  p4 : 4 ≤ G.p
  emin : G.emin ≤ -3
  big : 4 * (N:ℚ) ≤ (2:ℚ) ^ G.emax
  N63 : (N : ℤ) ≤ 2 ^ 63

/-- the level counter as loaded by `from_i64` -/
def cnt (G : Sem) (k : ℕ) : ℚ := rnd G .nte (k:ℚ)

theorem DCtx.le_max (D : DCtx G N) {q : ℚ} (h : q ≤ 4 * (N:ℚ)) : q ≤ maxFinite G := by
  have hp : 1 ≤ G.p := by have := D.wf.2; omega
  have h1 := pow_emax_le_maxFinite (F := G) hp
  have := D.big
  linarith

theorem DCtx.inRange (D : DCtx G N) {q : ℚ} (h1 : 1/8 ≤ q) (h2 : q ≤ 4 * (N:ℚ)) : InRange G q := by
  refine ⟨?_, D.le_max h2⟩
  have : (2:ℚ) ^ G.emin ≤ (2:ℚ) ^ (-3:ℤ) := zpow_le_zpow_right₀ (by norm_num) D.emin
  have e : (2:ℚ) ^ (-3:ℤ) = 1/8 := by norm_num
  rw [e] at this
  linarith

theorem DCtx.emax_pos (D : DCtx G N) : 0 ≤ G.emax := by have := Sem.emax_pos D.wf; omega

theorem DCtx.one_isRep (D : DCtx G N) : IsRep G 1 := by
  have := isRep_pow D.wf 0 (by have := D.emin; have := D.wf.2; omega) D.emax_pos
  simpa using this

theorem DCtx.eighth_isRep (D : DCtx G N) : IsRep G (1/8) := by
  have := isRep_pow D.wf (-3) (by have := D.emin; have := D.wf.2; omega)
    (by have := D.emax_pos; omega)
  norm_num at this
  exact this

theorem DCtx.top_isRep (D : DCtx G N) : IsRep G ((2:ℚ) ^ G.emax) :=
  isRep_pow D.wf G.emax (by have := D.emin; have := D.wf.2; have := D.emax_pos; omega) (le_refl _)

theorem unit_le_eighth (D : DCtx G N) (rm : RM) : unit G rm ≤ 1/8 := by
  have h1 := unit_le_u G rm
  have h2 : u G ≤ (2:ℚ) ^ (1 - ((4:ℕ):ℤ)) := u_le_of_le_p (F := G) (k := 4) D.p4
  have : (2:ℚ) ^ (1 - ((4:ℕ):ℤ)) = 1 / 8 := by norm_num
  rw [this] at h2; linarith

/-- the loaded counter: a positive value within `k/8` of `k`, at least 1, `2·cnt` representable -/
theorem cnt_spec (D : DCtx G N) (k : ℕ) (hk1 : 1 ≤ k) (hkN : k ≤ N) :
    IsRep G (cnt G k) ∧ 1 ≤ cnt G k ∧ |cnt G k - (k:ℚ)| ≤ (k:ℚ) / 8 ∧ IsRep G (2 * cnt G k) := by
  have hG := D.wf
  have hk1q : (1:ℚ) ≤ (k:ℚ) := by exact_mod_cast hk1
  have hkNq : (k:ℚ) ≤ (N:ℚ) := by exact_mod_cast hkN
  have hr : InRange G (k:ℚ) := D.inRange (by linarith) (by linarith)
  have hrep : IsRep G (cnt G k) := rnd_isRep hG .nte (by linarith)
  have hge : 1 ≤ cnt G k :=
    rnd_ge hG .nte (by norm_num) D.one_isRep hk1q D.top_isRep (by have := D.big; linarith)
  have hl1 : 2 ^ Nat.log2 k ≤ k := Nat.log2_self_le (by omega)
  have hl2 : k < 2 ^ (Nat.log2 k + 1) := Nat.lt_log2_self
  have hE : (k:ℚ) ≤ (2:ℚ) ^ (((Nat.log2 k : ℕ) : ℤ) + 1) := by
    have : ((k : ℕ) : ℚ) ≤ ((2 ^ (Nat.log2 k + 1) : ℕ) : ℚ) := Nat.cast_le.mpr (by omega)
    push_cast at this
    rw [show ((Nat.log2 k : ℕ) : ℤ) + 1 = ((Nat.log2 k + 1 : ℕ) : ℤ) by push_cast; ring,
      zpow_natCast]
    exact this
  have herr := rnd_abs_err hG .nte hr hE
  have hpw : (2:ℚ) ^ ((Nat.log2 k : ℕ) : ℤ) ≤ (k:ℚ) := by
    rw [zpow_natCast]
    have : ((2 ^ Nat.log2 k : ℕ) : ℚ) ≤ ((k : ℕ) : ℚ) := Nat.cast_le.mpr hl1
    push_cast at this; exact this
  have hu := unit_le_eighth D .nte
  have hu0 := unit_pos G .nte
  have herr' : |cnt G k - (k:ℚ)| ≤ (k:ℚ) / 8 := by
    unfold cnt
    calc |rnd G .nte (k:ℚ) - (k:ℚ)| ≤ unit G .nte * (2:ℚ) ^ ((Nat.log2 k : ℕ) : ℤ) := herr
      _ ≤ 1/8 * (k:ℚ) := mul_le_mul hu hpw (by positivity) (by norm_num)
      _ = (k:ℚ) / 8 := by ring
  refine ⟨hrep, hge, herr', ?_⟩
  apply isRep_two_mul hG hrep
  rw [abs_le] at herr'
  have := D.big
  have h2 : (2:ℚ) ^ G.emax < (2:ℚ) ^ (G.emax + 1) := zpow_lt_zpow_right₀ (by norm_num) (by omega)
  linarith [herr'.2]

theorem cnt_mono (D : DCtx G N) (k : ℕ) (hk1 : 1 ≤ k) (hkN : k + 1 ≤ N) :
    cnt G k ≤ cnt G (k + 1) := by
  have hk1q : (1:ℚ) ≤ (k:ℚ) := by exact_mod_cast hk1
  have hkNq : ((k + 1 : ℕ):ℚ) ≤ (N:ℚ) := by exact_mod_cast hkN
  push_cast at hkNq
  apply rnd_mono D.wf .nte (D.inRange (by linarith) (by linarith))
    (D.inRange (by push_cast; linarith) (by push_cast; linarith))
  push_cast; linarith

/-- exactly representable counters are loaded exactly -/
theorem cnt_exact (D : DCtx G N) (k : ℕ) (hk1 : 1 ≤ k) (hrep : IsRep G (k:ℚ)) : cnt G k = (k:ℚ) := by
  have hk1q : (1:ℚ) ≤ (k:ℚ) := by exact_mod_cast hk1
  exact rnd_rep D.wf .nte hrep (by linarith)

/-- the counter as a float -/
theorem counter_deep (D : DCtx G N) (i : ℕ) (hi : i + 1 < N) :
    PosN G (fromI64 G ((i:ℤ) + 1)) ∧ (fromI64 G ((i:ℤ) + 1)).mag = cnt G (i + 1) := by
  have hG := D.wf
  have h63 := D.N63
  have hcor := C08.fromI64_correct G ((i:ℤ) + 1) hG ⟨by omega, by omega⟩
  have hsem := (fromI64_canonical G ((i:ℤ) + 1) hG).2
  have hq : (0:ℚ) < ((i + 1 : ℕ) : ℚ) := by positivity
  have hkNq : ((i + 1 : ℕ):ℚ) ≤ (N:ℚ) := by exact_mod_cast (by omega : i + 1 ≤ N)
  have h1q : (1:ℚ) ≤ ((i + 1 : ℕ):ℚ) := by exact_mod_cast (by omega : 1 ≤ i + 1)
  have hr : InRange G ((i + 1 : ℕ) : ℚ) := D.inRange (by linarith) (by linarith)
  have hspec : Spec.fromInt G ((i:ℤ) + 1) = Spec.round G .nte false ((i + 1 : ℕ) : ℚ) := by
    unfold Spec.fromInt
    rw [if_neg (by omega), if_neg (by omega)]
    congr 2
  rw [hspec] at hcor
  obtain ⟨e, m, hr'⟩ := round_fin_of_range hG .nte false hr.1 hr.2
  exact posN_of_round hG hsem hq hr' hcor

/-- crude invariant of the deep levels -/
structure Deep (G : Sem) (k : ℕ) (x : Flt) : Prop where
  pos : PosN G x
  lo : cnt G k ≤ x.mag
  hi : x.mag ≤ 2 * cnt G k

theorem deep_step (D : DCtx G N) (i : ℕ) (hi : i + 2 < N) {x : Flt} (h : Deep G (i + 2) x) :
    Deep G (i + 1) ((fromI64 G ((i:ℤ) + 1)).add ((fromI64 G ((i:ℤ) + 1)).div x)) := by
  have hG := D.wf
  obtain ⟨hv, hvm⟩ := counter_deep D i (by omega)
  set v := fromI64 G ((i:ℤ) + 1)
  obtain ⟨c1, c2, c3, c4⟩ := cnt_spec D (i + 1) (by omega) (by omega)
  obtain ⟨d1, d2, d3, d4⟩ := cnt_spec D (i + 2) (by omega) (by omega)
  have hmono := cnt_mono D (i + 1) (by omega) (by omega)
  rw [show i + 1 + 1 = i + 2 from rfl] at hmono
  set c := cnt G (i + 1)
  set c' := cnt G (i + 2)
  have hi0 : (0:ℚ) ≤ (i:ℚ) := Nat.cast_nonneg i
  rw [abs_le] at c3 d3
  push_cast at c3 d3
  have hxlo := h.lo
  have hxhi := h.hi
  have hxpos : 0 < x.mag := by linarith
  have hNq : ((i:ℚ) + 2) ≤ (N:ℚ) := by exact_mod_cast (by omega : i + 2 ≤ N)
  -- the quotient
  have hb1 : v.mag / x.mag ≤ 1 := by rw [hvm, div_le_one hxpos]; linarith
  have hb0 : 1/8 ≤ v.mag / x.mag := by
    rw [hvm, div_le_div_iff₀ (by norm_num) hxpos]; linarith [c3.1, d3.2]
  obtain ⟨hd, hdm⟩ := div_posN hG hv h.pos (by norm_num) D.eighth_isRep D.one_isRep hb0 hb1
  have hbpos : 0 < v.mag / x.mag := by linarith
  have hd1 : (v.div x).mag ≤ 1 := by rw [hdm]; exact rnd_le hG _ hbpos D.one_isRep hb1
  have hd0 : 0 < (v.div x).mag := hd.mag_pos
  -- the sum
  have ha0 : c ≤ v.mag + (v.div x).mag := by rw [hvm]; linarith
  have ha1 : v.mag + (v.div x).mag ≤ 2 * c := by rw [hvm]; linarith
  obtain ⟨hy, hym⟩ := add_posN hG hv hd (by linarith) c1 c4 ha0 ha1
  refine ⟨hy, ?_, ?_⟩
  · rw [hym]; exact rnd_ge hG _ (by linarith) c1 ha0 c4 ha1
  · rw [hym]; exact rnd_le hG _ (by linarith) c4 ha1

/-- the first iteration `v + v/1` -/
theorem deep_first (D : DCtx G N) (i : ℕ) (hi : i + 1 < N) :
    Deep G (i + 1) ((fromI64 G ((i:ℤ) + 1)).add ((fromI64 G ((i:ℤ) + 1)).div (Flt.one G false))) := by
  have hG := D.wf
  obtain ⟨hv, hvm⟩ := counter_deep D i hi
  obtain ⟨h1, h1m⟩ := one_posN hG
  set v := fromI64 G ((i:ℤ) + 1)
  obtain ⟨c1, c2, c3, c4⟩ := cnt_spec D (i + 1) (by omega) (by omega)
  set c := cnt G (i + 1)
  have hb : v.mag / (Flt.one G false).mag = c := by rw [hvm, h1m]; simp
  have hcpos : 0 < c := by linarith
  obtain ⟨hd, hdm⟩ := div_posN hG hv h1 hcpos c1 c1 (le_of_eq hb.symm) (le_of_eq hb)
  have hdK : (v.div (Flt.one G false)).mag = c := by rw [hdm, hb, rnd_rep hG _ c1 hcpos]
  have ha : v.mag + (v.div (Flt.one G false)).mag = 2 * c := by rw [hvm, hdK]; ring
  obtain ⟨hy, hym⟩ := add_posN hG hv hd hcpos c1 c4 (by rw [ha]; linarith) (le_of_eq ha)
  have hmag : (v.add (v.div (Flt.one G false))).mag = 2 * c := by
    rw [hym, ha, rnd_rep hG _ c4 (by linarith)]
  exact ⟨hy, by rw [hmag]; linarith, le_of_eq hmag⟩

/-- the deep part of the loop: from level `i + 1` down to level `j + 1` -/
theorem eLoop_deep (D : DCtx G N) (j : ℕ) : ∀ (n : ℕ) (x : Flt), j + n + 1 < N →
    Deep G (j + n + 1) x → ∃ y, eLoop G (j + n) x = eLoop G j y ∧ Deep G (j + 1) y := by
  intro n
  induction n with
  | zero => intro x _ h; exact ⟨x, rfl, h⟩
  | succ n ih =>
    intro x hn h
    rw [show j + (n + 1) = (j + n) + 1 from rfl, eLoop]
    exact ih _ (by omega) (deep_step D (j + n) (by omega) h)

end Arp.ECf
