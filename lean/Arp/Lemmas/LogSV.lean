import Arp.Lemmas.Ln2
/-!
# Lemmas for the accuracy of `Float::log` — part 2: truncating operations on signed values

`SV G sg x v`: `x` is a canonical finite value of format `G`, of magnitude `v ≥ 0`, with sign `sg`
when it is not a zero.  The truncating (`RoundingMode::None`) sum, product and quotient of such
values have the magnitudes `trq G (va + vb)`, `trq G (va * vb)`, `trq G (va / vb)`.
-/
namespace Arp.LogErr
open Arp Arp.SpecRound Arp.Ln2

variable {G : Sem} {x : Flt} {v : ℚ} {sg : Bool}

structure SV (G : Sem) (sg : Bool) (x : Flt) (v : ℚ) : Prop where
  sem : x.sem = G
  can : x.Canonical
  fin : x.cat = .normal ∨ x.cat = .zero
  sign : x.cat = .normal → x.sign = sg
  nn : 0 ≤ v
  val : x.val = if sg then -v else v

theorem SV.mag (h : SV G sg x v) (hc : x.cat = .normal) : x.mag = v := by
  have := h.val
  rw [Flt.val_normal hc, h.sign hc] at this
  cases sg <;> simp at this <;> exact this

theorem SV.zero_val (h : SV G sg x v) (hc : x.cat = .zero) : v = 0 := by
  have := h.val
  rw [Flt.val_zero hc] at this
  cases sg <;> simp at this <;> linarith

theorem SV.normal_of_pos (h : SV G sg x v) (hv : 0 < v) : x.cat = .normal := by
  rcases h.fin with hc | hc
  · exact hc
  · have := h.zero_val hc; linarith

theorem SV.zero_of_eq (h : SV G sg x v) (hv : v = 0) : x.cat = .zero := by
  rcases h.fin with hc | hc
  · have := Flt.mag_pos x hc h.can
    rw [h.mag hc] at this; linarith
  · exact hc

theorem SV.isRep (h : SV G sg x v) (hG : G.WF) : IsRep G v := by
  rcases h.fin with hc | hc
  · obtain ⟨h1, h2, _, h4, h5⟩ := (Flt.canonical_normal hc).mp h.can
    rw [h.sem] at h1 h2 h4 h5
    exact ⟨x.exp, x.mant, h1, h2, h4, h5, by rw [← h.mag hc, Flt.mag_eq, h.sem]⟩
  · rw [h.zero_val hc]; exact IsRep.zero hG

theorem SV.of_NN (h : NN G x v) : SV G false x v :=
  ⟨h.sem, h.can, h.fin, h.sign, h.nonneg, by simpa using h.val⟩

theorem SV.to_NN (h : SV G false x v) : NN G x v :=
  ⟨h.sem, h.can, h.fin, h.sign, by simpa using h.val⟩

theorem SV.zero (G : Sem) (s sg : Bool) : SV G sg (Flt.zero G s) 0 :=
  ⟨rfl, Flt.zero_canonical _ _, Or.inr rfl, fun h => by simp [Flt.zero] at h, le_refl _,
    by rw [Flt.val_zero rfl]; simp⟩

theorem SV.of_canonical {y : Flt} (hs : y.sem = G) (hc : y.cat = .normal) (hcan : y.Canonical)
    (hsg : y.sign = sg) (hm : y.mag = v) : SV G sg y v :=
  ⟨hs, hcan, Or.inl hc, fun _ => hsg, by rw [← hm]; exact Flt.mag_nonneg y,
    by rw [Flt.val_normal hc, hsg, hm]⟩

/-- negation flips the sign flag -/
theorem SV.neg (h : SV G sg x v) : SV G (!sg) x.neg v := by
  refine ⟨h.sem, ?_, h.fin, ?_, h.nn, ?_⟩
  · exact (neg_canonical x h.can).1
  · intro hc
    show (!x.sign) = !sg
    rw [h.sign hc]
  · rcases h.fin with hc | hc
    · have hc' : x.neg.cat = .normal := hc
      rw [Flt.val_normal hc']
      show (if (!x.sign) = true then -x.neg.mag else x.neg.mag) = _
      have hm : x.neg.mag = v := by
        have : x.neg.mag = x.mag := rfl
        rw [this, h.mag hc]
      rw [hm, h.sign hc]
    · have hc' : x.neg.cat = .zero := hc
      rw [Flt.val_zero hc', h.zero_val hc]; simp

/-- the magnitude of a truncation does not depend on the sign -/
theorem round_none_mag (hG : G.WF) (hv : 0 < v) (hlt : v < (2:ℚ) ^ (G.emax + 1)) (s : Bool) :
    (Spec.round G .none s v).mag G = trq G v := by
  have ht : RM.truncFor .none s := Or.inr (Or.inl rfl)
  obtain ⟨_, a1, a2, a3⟩ := round_trunc_spec hG hv ht hlt
  obtain ⟨b1, b2, b3⟩ := trq_spec hG hv hlt
  exact le_antisymm (b3 _ a2 a1) (a3 _ b2 b1)

/-- a value whose `toRes` is the in-range truncation of `v > 0` with sign `sg` -/
theorem SV.of_round (hG : G.WF) (hs : x.sem = G) (hc : x.Canonical) (hv : 0 < v)
    (hlt : v < (2:ℚ) ^ (G.emax + 1)) (h : x.toRes = Spec.round G .none sg v) :
    SV G sg x (trq G v) := by
  have ht : RM.truncFor .none sg := Or.inr (Or.inl rfl)
  have hmag := round_none_mag hG hv hlt sg
  have hnn := trq_nonneg hG (le_of_lt hv) hlt
  rcases (round_trunc_spec hG hv ht hlt).1 with hz | ⟨e, m, hf⟩
  · rw [hz] at h hmag
    obtain ⟨h1, _⟩ := RelErr.toRes_zero h
    have h0 : trq G v = 0 := by rw [← hmag]; rfl
    exact ⟨hs, hc, Or.inr h1, fun h' => by rw [h1] at h'; exact absurd h' (by decide), hnn,
      by rw [Flt.val_zero h1, h0]; simp⟩
  · rw [hf] at h hmag
    obtain ⟨h1, h2, h3, h4⟩ := RelErr.toRes_fin h
    refine ⟨hs, hc, Or.inl h1, fun _ => h2, hnn, ?_⟩
    have hm : x.mag = trq G v := by
      rw [← hmag, Flt.mag_eq, hs, h3, h4]; rfl
    rw [Flt.val_normal h1, h2, hm]

/-- equality test: the second value positive -/
theorem SV.beq_iff {a b : Flt} {va vb : ℚ} (ha : SV G sg a va) (hb : SV G sg b vb)
    (hpb : 0 < vb) : a.beq b = true ↔ va = vb := by
  have hcb := hb.normal_of_pos hpb
  rcases ha.fin with hca | hca
  · constructor
    · intro h
      unfold Flt.beq at h
      rw [hca] at h
      simp only [Bool.and_eq_true, beq_iff_eq] at h
      obtain ⟨⟨⟨_, h2⟩, h3⟩, _⟩ := h
      rw [← ha.mag hca, ← hb.mag hcb, Flt.mag_eq, Flt.mag_eq, ha.sem, hb.sem, h2, h3]
    · intro h
      have hv : a.val = b.val := by rw [ha.val, hb.val, h]
      obtain ⟨h1, h2, h3⟩ := val_inj a b (by rw [ha.sem, hb.sem]) ha.can hb.can hca hcb hv
      unfold Flt.beq
      rw [hca]
      simp [h1, h2, h3, hcb]
  · have h0 := ha.zero_val hca
    constructor
    · intro h
      unfold Flt.beq at h
      rw [hca] at h
      simp [hcb] at h
    · intro h; rw [h0] at h; linarith

/-- `prev = -1` differs from every value with the other sign or smaller magnitude; we only need:
    a value of category normal and a zero are different -/
theorem beq_normal_zero {a b : Flt} (ha : a.cat = .normal) (hb : b.cat = .zero) :
    a.beq b = false := by
  unfold Flt.beq
  rw [ha]; simp [hb]

theorem spec_add_fin' (F : Sem) (rm : RM) (a b : Flt) (hfa : a.cat = .normal ∨ a.cat = .zero)
    (hfb : b.cat = .normal ∨ b.cat = .zero) (hnz : ¬ (a.cat = .zero ∧ b.cat = .zero)) :
    Spec.add F rm a b = Spec.roundQ F rm (a.val + b.val) (rm == .neg) :=
  spec_add_fin F rm a b hfa hfb hnz

/-- truncated sum of two values of the same sign (not both zero) -/
theorem SV.add (hG : G.WF) {a b : Flt} {va vb : ℚ} (ha : SV G sg a va) (hb : SV G sg b vb)
    (hpos : 0 < va + vb) (hlt : va + vb < (2:ℚ) ^ (G.emax + 1)) :
    SV G sg (addWithRm a b .none) (trq G (va + vb)) := by
  have hGa : a.sem.WF := by rw [ha.sem]; exact hG
  have hsab : b.sem = a.sem := by rw [ha.sem, hb.sem]
  have hcan := addWithRm_canonical a b .none hGa hsab ha.can hb.can
  have hcor := C01.add_correct a b .none hGa hsab ha.can hb.can
  rw [ha.sem] at hcor
  refine SV.of_round hG (hcan.2.trans ha.sem) hcan.1 hpos hlt ?_
  have hzz : ¬ (a.cat = .zero ∧ b.cat = .zero) := by
    rintro ⟨h1, h2⟩
    have h3 := ha.zero_val h1; have h4 := hb.zero_val h2
    rw [h3, h4] at hpos; norm_num at hpos
  rw [hcor, spec_add_fin G .none a b ha.fin hb.fin hzz, ha.val, hb.val]
  unfold Spec.roundQ
  cases sg
  · simp only [Bool.false_eq_true, if_false]
    rw [if_neg (ne_of_gt hpos), if_pos hpos]
  · simp only [if_true]
    have hneg : -va + -vb < 0 := by linarith
    rw [if_neg (ne_of_lt hneg), if_neg (not_lt.mpr (le_of_lt hneg))]
    congr 1; ring

/-- truncated product with a positive value -/
theorem SV.mul (hG : G.WF) {a b : Flt} {va vb : ℚ} (ha : SV G sg a va) (hb : SV G false b vb)
    (hvb : 0 < vb) (hlt : va * vb < (2:ℚ) ^ (G.emax + 1)) :
    SV G sg (mulWithRm a b .none) (trq G (va * vb)) := by
  have hGa : a.sem.WF := by rw [ha.sem]; exact hG
  have hsab : b.sem = a.sem := by rw [ha.sem, hb.sem]
  have hcan := mulWithRm_canonical a b .none hGa
  have hcor := C01.mul_correct a b .none hGa hsab ha.can hb.can
  rw [ha.sem] at hcor hcan
  have hbn := hb.normal_of_pos hvb
  rcases ha.fin with hca | hca
  · have hva : 0 < va := by rw [← ha.mag hca]; exact Flt.mag_pos a hca ha.can
    refine SV.of_round hG hcan.2 hcan.1 (mul_pos hva hvb) hlt ?_
    rw [hcor]
    simp [Spec.mul, Spec.isNan, Spec.isInf, Spec.isZero, hca, hbn, ha.sign hca, hb.sign hbn,
      ha.mag hca, hb.mag hbn]
  · have h0 := ha.zero_val hca
    have : Spec.mul G .none a b = .zero (a.sign ^^ b.sign) := by
      simp [Spec.mul, Spec.isNan, Spec.isInf, Spec.isZero, hca, hbn]
    rw [this] at hcor
    obtain ⟨hz, _⟩ := RelErr.toRes_zero hcor
    rw [h0, zero_mul, trq_zero]
    exact ⟨hcan.2, hcan.1, Or.inr hz, fun h => by rw [hz] at h; exact absurd h (by decide),
      le_refl _, by rw [Flt.val_zero hz]; simp⟩

/-- truncated quotient by a positive value -/
theorem SV.div (hG : G.WF) {a b : Flt} {va vb : ℚ} (ha : SV G sg a va) (hb : SV G false b vb)
    (hvb : 0 < vb) (hlt : va / vb < (2:ℚ) ^ (G.emax + 1)) :
    SV G sg (divWithRm a b .none) (trq G (va / vb)) := by
  have hGa : a.sem.WF := by rw [ha.sem]; exact hG
  have hsab : b.sem = a.sem := by rw [ha.sem, hb.sem]
  have hcan := divWithRm_canonical a b .none hGa
  have hcor := C01.div_correct a b .none hGa hsab ha.can hb.can
  rw [ha.sem] at hcor hcan
  have hbn := hb.normal_of_pos hvb
  rcases ha.fin with hca | hca
  · have hva : 0 < va := by rw [← ha.mag hca]; exact Flt.mag_pos a hca ha.can
    refine SV.of_round hG hcan.2 hcan.1 (div_pos hva hvb) hlt ?_
    rw [hcor]
    simp [Spec.div, Spec.isNan, Spec.isInf, Spec.isZero, hca, hbn, ha.sign hca, hb.sign hbn,
      ha.mag hca, hb.mag hbn]
  · have h0 := ha.zero_val hca
    have : Spec.div G .none a b = .zero (a.sign ^^ b.sign) := by
      simp [Spec.div, Spec.isNan, Spec.isInf, Spec.isZero, hca, hbn]
    rw [this] at hcor
    obtain ⟨hz, _⟩ := RelErr.toRes_zero hcor
    rw [h0, zero_div, trq_zero]
    exact ⟨hcan.2, hcan.1, Or.inr hz, fun h => by rw [hz] at h; exact absurd h (by decide),
      le_refl _, by rw [Flt.val_zero hz]; simp⟩

end Arp.LogErr
