import Arp.Props.C16Exp
/-!
# `exp` in formats slightly beyond its domain: `16 ≤ p ≤ 2^(E-1) + 6`

`Float::sigmoid` evaluates `exp` in the format `W` = the caller's format with 8 more bits of
precision; for a caller's format within 8 bits of the edge of the domain `p ≤ 2^(E-1) - 2` the
format `W` is outside the domain of `C16.exp_all`.  The proof of `exp_all` uses the domain condition
only for the exponent range of the working formats of `exp` (`rctx_wfmt`, `wfmt_dom`), where there
is ample room: the statements below are the originals (`Arp.ExpErr.rctx_wfmt`, `Arp.C16.ExpAcc.rr_wfmt`,
`e_ge_five`, `wfmt_dom`, `Arp.C16.exp_pos_core`, `exp_neg_core`, `exp_all`) with the hypothesis
`p ≤ 2^(E-1) - 2` replaced by `p ≤ 2^(E-1) + 6` and `16 ≤ p`; the proofs are the same up to the
arithmetic side goals.
-/

namespace Arp.C16.ExpWide
open Arp Arp.SpecRound Arp.Sqrt Arp.RelErr Arp.ExpErr Arp.C16 Arp.C16.ExpAcc

theorem rctx_wfmt_wide {F : Sem} (hF : F.WF) (hp : 8 ≤ F.p) (hdom : F.p ≤ 2 ^ (F.e - 1) + 6) (hp16 : 16 ≤ F.p)
    (hrm : F.rm = .nte ∨ F.rm = .nta) {h H : ℕ} (hh : h ≤ 13) (hH13 : H ≤ 13)
    (hHg : 3 * (H / 3) ≤ h + 4)
    {z : Flt} (hz : PosN (wfmt F h) z)
    (hzlo : (2:ℚ) ^ (-((2 ^ (F.e - 1) + F.p : ℕ) : ℤ)) ≤ z.mag)
    (hzH : z.mag ≤ 1 ∨ z.mag < (2:ℚ) ^ ((H:ℤ) - 2)) :
    RCtx (wfmt F h) z H (2 ^ (F.e - 1) + F.p) := by
  obtain ⟨l1, l2, l3, l4⟩ := logPrecision_facts hp
  have he : 2 ≤ F.e := hF.1
  set t := 2 ^ (F.e - 1) with ht
  have ht10 : 10 ≤ t := by omega
  have hWe : (wfmt F h).e - 1 = (F.e - 1) + 10 := by rw [wfmt_e]; omega
  have hpw : 2 ^ ((wfmt F h).e - 1) = t * 1024 := by rw [hWe, pow_add, ← ht]; norm_num
  have hemax : (wfmt F h).emax = ((t * 1024 : ℕ) : ℤ) - 1 := by
    rw [Sem.emax_eq (by rw [wfmt_e]; omega), hpw]
  have hemin : (wfmt F h).emin = 2 - ((t * 1024 : ℕ) : ℤ) := by
    rw [Sem.emin_eq, hpw]
  have hpowH : 2 ^ (3 * (H / 3)) * 2 + 2 ≤ t * 1024 - 1 := by
    have h1 : 2 ^ (3 * (H / 3)) ≤ 2 ^ 12 := Nat.pow_le_pow_right (by norm_num) (by omega)
    have h2 : (2:ℕ) ^ 12 = 4096 := by norm_num
    omega
  refine ⟨wfmt_WF hF h, hrm, by rw [wfmt_p]; omega, hz, hzlo, by omega, hzH, ?_, ?_, ?_, ?_⟩
  · rw [hemin, wfmt_p]; push_cast; omega
  · rw [hemax, wfmt_p]; push_cast; omega
  · rw [hemax]; omega
  · refine le_trans (guard_bound hp hh hHg) ?_
    calc (2:ℚ) ^ (((4:ℕ):ℤ) - (F.p:ℤ) - 7) ≤ (2:ℚ) ^ (-2:ℤ) :=
          zpow_le_zpow_right₀ (by norm_num) (by push_cast; omega)
      _ = 1 / 4 := by norm_num

theorem rr_wfmt_wide {F : Sem} (hF : F.WF) (hp : 8 ≤ F.p) (hdom : F.p ≤ 2 ^ (F.e - 1) + 6) (hp16 : 16 ≤ F.p)
    (hrm : F.rm = .nte ∨ F.rm = .nta) {h H g : ℕ} (hh : h ≤ 13) (hH13 : H ≤ 13)
    (hHg : 3 * (H / 3) ≤ h + g) (hg : g ≤ 4) {z : Flt}
    (hz : PosN (wfmt F h) z) (hzlo : (2:ℚ) ^ (-((2 ^ (F.e - 1) + F.p : ℕ) : ℤ)) ≤ z.mag)
    (hzH : z.mag ≤ 1 ∨ z.mag < (2:ℚ) ^ ((H:ℤ) - 2)) (fuel : ℕ)
    (hfuel : C19.redBound z.exp + 1 ≤ fuel) :
    ∃ r : Flt, expRangeReduce fuel z = some r ∧ PosN (wfmt F h) r ∧
      |((r.mag : ℚ) : ℝ) - Real.exp (z.mag : ℝ)| ≤
        (2:ℝ) ^ ((g:ℤ) - (F.p:ℤ) - 7) * Real.exp (z.mag : ℝ) := by
  have C := rctx_wfmt_wide hF hp hdom hp16 hrm hh hH13 (by omega) hz hzlo hzH
  obtain ⟨r, h1, h2, h3⟩ := rr_accuracy C fuel hfuel
  refine ⟨r, h1, h2, le_trans h3 ?_⟩
  have hgb := guard_bound (F := F) hp hh hHg
  have : ((((2 ^ (3 * (H / 3)) * (tN (wfmt F h) + 7) : ℕ) : ℚ) * u (wfmt F h) : ℚ) : ℝ) ≤
      (((2:ℚ) ^ ((g:ℤ) - (F.p:ℤ) - 7) : ℚ) : ℝ) := by exact_mod_cast hgb
  push_cast at this ⊢
  exact mul_le_mul_of_nonneg_right this (le_of_lt (Real.exp_pos _))

theorem e_ge_five_wide {F : Sem} (_hp : 8 ≤ F.p) (hdom : F.p ≤ 2 ^ (F.e - 1) + 6)
    (hp16 : 16 ≤ F.p) : 5 ≤ F.e := by
  by_contra hc
  have : F.e - 1 ≤ 3 := by omega
  have : 2 ^ (F.e - 1) ≤ 2 ^ 3 := Nat.pow_le_pow_right (by norm_num) this
  omega

theorem exp_pos_core_wide (x : Flt) (hF : x.sem.WF) (hp : 8 ≤ x.sem.p)
    (hdom : x.sem.p ≤ 2 ^ (x.sem.e - 1) + 6) (hp16 : 16 ≤ x.sem.p) (hrm : x.sem.rm = .nte ∨ x.sem.rm = .nta)
    (hc : x.Canonical) (hn : x.cat = .normal) (hs : x.sign = false) (hx : x.mag ≤ 1024)
    (fuel : ℕ) (hfuel : C19.redBound x.exp + 1 ≤ fuel) :
    ∃ r, x.expFuel fuel = some (r.cast x.sem) ∧ PosN x.expSem r ∧
      |((r.mag : ℚ) : ℝ) - Real.exp ((x.mag : ℚ) : ℝ)| ≤
        (2:ℝ) ^ (-(x.sem.p:ℤ) - 3) * Real.exp ((x.mag : ℚ) : ℝ) ∧
      (x.exp ≤ x.sem.e → |((r.mag : ℚ) : ℝ) - Real.exp ((x.mag : ℚ) : ℝ)| ≤
        (2:ℝ) ^ (-(x.sem.p:ℤ) - 7) * Real.exp ((x.mag : ℚ) : ℝ)) := by
  have hxp : PosN x.sem x := ⟨rfl, hc, hn, hs⟩
  have h10 := exp_le_ten hF hc hn hx
  have hh := halvings_le h10
  have he5 := e_ge_five_wide hp hdom hp16
  set W := wfmt x.sem x.expHalvings with hWdef
  have hW : W.WF := wfmt_WF hF _
  obtain ⟨hz, hzm⟩ := widen_op hF hW hxp x.sem.rm (by rw [hWdef, wfmt_e]; omega)
    (by rw [hWdef, wfmt_p]; omega)
  have hzexp := C19.widen_exp_le x W x.sem.rm (by rw [hWdef, wfmt_e]; omega)
    (by rw [hWdef, wfmt_p]; omega) hF hW hn hc
  have hcast : x.cast W = x.castWithRm W x.sem.rm := rfl
  have hfuel' : C19.redBound (x.castWithRm W x.sem.rm).exp + 1 ≤ fuel :=
    le_trans (Nat.add_le_add_right (C19.redBound_mono hzexp) 1) hfuel
  have hexpA := Real.exp_pos ((x.mag : ℚ) : ℝ)
  by_cases hcov : x.exp ≤ x.sem.e
  · -- every squaring is covered
    obtain ⟨r, hr1, hr2, hr3⟩ := rr_wfmt_wide (g := 0) hF hp hdom hp16 hrm hh (coverH_le h10)
      (by rw [halvings_eq hcov]; omega) (by omega) hz
      (by rw [hzm]; exact mag_lower hc hn)
      (by rw [hzm]; exact coverH_cover (posN_mag_lt hxp)) fuel hfuel'
    rw [hzm] at hr3
    have hr3' : |((r.mag : ℚ) : ℝ) - Real.exp ((x.mag : ℚ) : ℝ)| ≤
        (2:ℝ) ^ (-(x.sem.p:ℤ) - 7) * Real.exp ((x.mag : ℚ) : ℝ) := by
      have e : ((0:ℕ):ℤ) - (x.sem.p:ℤ) - 7 = -(x.sem.p:ℤ) - 7 := by push_cast; ring
      rw [e] at hr3; exact hr3
    refine ⟨r, ?_, hr2, le_trans hr3' ?_, fun _ => hr3'⟩
    · rw [expFuel_pos x fuel hn hs, expSem_eq, hcast, hr1]; rfl
    · exact mul_le_mul_of_nonneg_right (zpow_le_zpow_right₀ (by norm_num) (by omega))
        (le_of_lt hexpA)
  · obtain ⟨r, hr1, hr2, hr3⟩ := rr_wfmt_wide (g := 4) hF hp hdom hp16 hrm hh (coverH_le h10)
      (halvings_gap h10 he5) (le_refl _) hz
      (by rw [hzm]; exact mag_lower hc hn)
      (by rw [hzm]; exact coverH_cover (posN_mag_lt hxp)) fuel hfuel'
    rw [hzm] at hr3
    have e : ((4:ℕ):ℤ) - (x.sem.p:ℤ) - 7 = -(x.sem.p:ℤ) - 3 := by push_cast; ring
    rw [e] at hr3
    refine ⟨r, ?_, hr2, hr3, fun h => absurd h hcov⟩
    rw [expFuel_pos x fuel hn hs, expSem_eq, hcast, hr1]; rfl

theorem wfmt_dom_wide {F : Sem} (hF : F.WF) (hp : 8 ≤ F.p) (hdom : F.p ≤ 2 ^ (F.e - 1) + 6) (hp16 : 16 ≤ F.p) {h : ℕ}
    (hh : h ≤ 13) : (wfmt F h).p ≤ 2 ^ ((wfmt F h).e - 1) - 2 := by
  obtain ⟨_, _, _, l4⟩ := logPrecision_facts hp
  have he : 2 ≤ F.e := hF.1
  have hWe : (wfmt F h).e - 1 = (F.e - 1) + 10 := by rw [wfmt_e]; omega
  rw [hWe, pow_add, wfmt_p]
  have : (2:ℕ) ^ 10 = 1024 := by norm_num
  rw [this]
  generalize 2 ^ (F.e - 1) = t at *
  omega

theorem exp_neg_core_wide (x : Flt) (hF : x.sem.WF) (hp : 8 ≤ x.sem.p)
    (hdom : x.sem.p ≤ 2 ^ (x.sem.e - 1) + 6) (hp16 : 16 ≤ x.sem.p) (hrm : x.sem.rm = .nte ∨ x.sem.rm = .nta)
    (hc : x.Canonical) (hn : x.cat = .normal) (hs : x.sign = true) (hx : x.mag ≤ 1024)
    (fuel : ℕ) (hfuel : C19.redBound x.exp + 1 ≤ fuel) :
    ∃ d, x.expFuel fuel = some (d.cast x.sem) ∧ PosN x.expSem d ∧
      |((d.mag : ℚ) : ℝ) - 1 / Real.exp ((x.mag : ℚ) : ℝ)| ≤
        (2:ℝ) ^ (-(x.sem.p:ℤ) - 6) * (1 / Real.exp ((x.mag : ℚ) : ℝ)) := by
  have h10 := exp_le_ten hF hc hn hx
  have hh := halvings_le h10
  have he2 : 2 ≤ x.sem.e := hF.1
  -- the first working format and `y = |x|`
  set W := wfmt x.sem x.expHalvings with hWdef
  have hW : W.WF := wfmt_WF hF _
  have hWrm : W.rm = .nte ∨ W.rm = .nta := hrm
  have hWp : W.p = x.sem.p + (10 + x.expHalvings) + x.sem.logPrecision := rfl
  have hWe : W.e = x.sem.e + 10 := rfl
  obtain ⟨_, _, l3, _⟩ := logPrecision_facts hp
  obtain ⟨a1, a2, a3, a4, a5⟩ := C06.widen_lossless_normal x W x.sem.rm (by rw [hWe]; omega)
    (by rw [hWp]; omega) hF hW hn hc
  have hxexp := C19.widen_exp_le x W x.sem.rm (by rw [hWe]; omega) (by rw [hWp]; omega) hF hW hn hc
  have hcast : x.cast W = x.castWithRm W x.sem.rm := rfl
  set y := (x.cast W).neg with hydef
  have hy : PosN W y := ⟨a1, a3, a2, by rw [hydef, hcast]; show (!_) = false; rw [a4, hs]; rfl⟩
  have hym : y.mag = x.mag := a5
  have hyexp : y.exp ≤ x.exp := hxexp
  -- the second working format
  have hh2 : y.expHalvings ≤ 13 := halvings_le (le_trans hyexp h10)
  have hW2eq : y.expSem = wfmt W y.expHalvings := by rw [expSem_eq, hy.sem]
  set W2 := wfmt W y.expHalvings with hW2def
  have hW2 : W2.WF := wfmt_WF hW _
  have hW2p : W2.p = W.p + (10 + y.expHalvings) + W.logPrecision := rfl
  have hW2e : W2.e = W.e + 10 := rfl
  obtain ⟨hz, hzm⟩ := widen_op hW hW2 hy W.rm (by rw [hW2e]; omega) (by rw [hW2p]; omega)
  have hzexp := C19.widen_exp_le y W2 W.rm (by rw [hy.sem, hW2e]; omega)
    (by rw [hy.sem, hW2p]; omega) (by rw [hy.sem]; exact hW) hW2 hy.cat hy.can
  have hcast2 : y.cast y.expSem = y.castWithRm W2 W.rm := by
    unfold Flt.cast; rw [hW2eq, hy.sem]
  have hpW : 8 ≤ W.p := by rw [hWp]; omega
  have hzlo : (2:ℚ) ^ (-((2 ^ (W.e - 1) + W.p : ℕ) : ℤ)) ≤ (y.castWithRm W2 W.rm).mag := by
    rw [hzm]
    have := mag_lower (x := y) hy.can hy.cat
    rwa [hy.sem] at this
  have hycov : y.exp + 1 ≤ y.sem.e := by rw [hy.sem, hWe]; omega
  have hzH : (y.castWithRm W2 W.rm).mag ≤ 1 ∨
      (y.castWithRm W2 W.rm).mag < (2:ℚ) ^ ((y.expHalvings : ℤ) - 2) := by
    rw [hzm]
    exact halvings_cover (posN_mag_lt hy) hycov
  obtain ⟨r2, hr1, hr2, hr3⟩ := rr_wfmt (g := 0) hW hpW (wfmt_dom_wide hF hp hdom hp16 hh) hWrm hh2 hh2
    (by omega) (by omega) hz hzlo hzH fuel (by
      have := C19.redBound_mono (le_trans hzexp hyexp); omega)
  rw [hzm, hym] at hr3
  have e0 : ((0:ℕ):ℤ) - (W.p:ℤ) - 7 = -(W.p:ℤ) - 7 := by push_cast; ring
  rw [e0] at hr3
  -- real bounds of `e^|x|`
  set A : ℝ := Real.exp ((x.mag : ℚ) : ℝ) with hA
  have hA1 : 1 ≤ A := by
    have := Real.add_one_le_exp ((x.mag : ℚ) : ℝ)
    have h0 : (0:ℝ) ≤ ((x.mag : ℚ) : ℝ) := by exact_mod_cast Flt.mag_nonneg x
    linarith
  have hAhi : A ≤ (2:ℝ) ^ (2048:ℤ) :=
    exp_le_two_pow (by have : ((x.mag : ℚ) : ℝ) ≤ ((1024 : ℚ) : ℝ) := by exact_mod_cast hx
                       push_cast at this; exact this)
  -- the size of `r2`
  set ε : ℝ := (2:ℝ) ^ (-(W.p:ℤ) - 7) with hε
  have hε0 : 0 < ε := by positivity
  have hεhalf : ε ≤ 1 / 2 := by
    calc ε ≤ (2:ℝ) ^ (-1:ℤ) := zpow_le_zpow_right₀ (by norm_num) (by omega)
      _ = 1 / 2 := by norm_num
  obtain ⟨k1, k2⟩ := abs_le.mp hr3
  have hr2lo : (1:ℚ) / 2 ≤ r2.mag := by
    have : ((1 / 2 : ℚ) : ℝ) ≤ ((r2.mag : ℚ) : ℝ) := by push_cast; nlinarith
    exact_mod_cast this
  have hr2hi : r2.mag ≤ (2:ℚ) ^ (2049:ℤ) := by
    have h1 : ((r2.mag : ℚ) : ℝ) ≤ (2:ℝ) ^ (2049:ℤ) := by
      rw [show (2049:ℤ) = 2048 + 1 by norm_num, zpow_add_one₀ (by norm_num)]
      have : ε * A ≤ 1 / 2 * A := mul_le_mul_of_nonneg_right hεhalf (by linarith)
      have hT : (0:ℝ) < (2:ℝ) ^ (2048:ℤ) := by positivity
      generalize (2:ℝ) ^ (2048:ℤ) = T at hAhi hT ⊢
      linarith
    have : ((r2.mag : ℚ) : ℝ) ≤ (((2:ℚ) ^ (2049:ℤ) : ℚ) : ℝ) := by
      rw [Rat.cast_zpow, Rat.cast_ofNat]; exact h1
    exact Rat.cast_le.mp this
  -- exponent range of `W`
  set t := 2 ^ (x.sem.e - 1) with ht
  have ht1 : 10 ≤ t := by omega
  have hpwW : 2 ^ (W.e - 1) = t * 1024 := by
    rw [show W.e - 1 = (x.sem.e - 1) + 10 by rw [hWe]; omega, pow_add, ← ht]; norm_num
  have hWemax : W.emax = ((t * 1024 : ℕ) : ℤ) - 1 := by
    rw [Sem.emax_eq (by rw [hWe]; omega), hpwW]
  have hWemin : W.emin = 2 - ((t * 1024 : ℕ) : ℤ) := by rw [Sem.emin_eq, hpwW]
  have hWp1 : 1 ≤ W.p := by omega
  have hmaxW := pow_emax_le_maxFinite (F := W) hWp1
  have hrW : InRange W r2.mag := by
    constructor
    · have : (2:ℚ) ^ W.emin ≤ (2:ℚ) ^ (-1:ℤ) :=
        zpow_le_zpow_right₀ (by norm_num) (by rw [hWemin]; push_cast; omega)
      have e : (2:ℚ) ^ (-1:ℤ) = 1 / 2 := by norm_num
      rw [e] at this; linarith
    · have : (2:ℚ) ^ (2049:ℤ) ≤ (2:ℚ) ^ W.emax :=
        zpow_le_zpow_right₀ (by norm_num) (by rw [hWemax]; push_cast; omega)
      linarith
  -- the cast to `W`
  obtain ⟨hcP, _, hcN⟩ := cast_op hW2 hW hr2 hrW
  have hrc : r2.cast W = r2.castWithRm W W.rm := by unfold Flt.cast; rw [hr2.sem]; rfl
  set c := r2.castWithRm W W.rm with hcdef
  have hv0 := unit_pos W W.rm
  have hvhalf : unit W W.rm ≤ 1 / 2 := by
    have := unit_le_u W W.rm; have := u_le_half hW; linarith
  have hc0 := hcP.mag_pos
  obtain ⟨n1, n2⟩ := hcN
  rw [pow_one] at n1 n2
  have hr2pos : 0 < r2.mag := by linarith
  have hclo : (1:ℚ) / 4 ≤ c.mag := by
    have : (1 / 2) * r2.mag ≤ (1 - unit W W.rm) * r2.mag :=
      mul_le_mul_of_nonneg_right (by linarith) (le_of_lt hr2pos)
    linarith
  have hchi : c.mag ≤ (2:ℚ) ^ (2050:ℤ) := by
    have h1 : c.mag ≤ 2 * r2.mag := by
      have : (1 / 2) * c.mag ≤ (1 - unit W W.rm) * c.mag :=
        mul_le_mul_of_nonneg_right (by linarith) (le_of_lt hc0)
      linarith
    rw [show (2050:ℤ) = 2049 + 1 by norm_num, zpow_add_one₀ (by norm_num)]
    linarith
  -- the reciprocal
  obtain ⟨h1P, h1m⟩ := ECf.one_posN hW
  have hq : (Flt.one W false).mag / c.mag = 1 / c.mag := by rw [h1m]
  have hrD : InRange W ((Flt.one W false).mag / c.mag) := by
    rw [hq]
    constructor
    · have h1 : (2:ℚ) ^ W.emin ≤ (2:ℚ) ^ (-2050:ℤ) :=
        zpow_le_zpow_right₀ (by norm_num) (by rw [hWemin]; push_cast; omega)
      have h2 : (2:ℚ) ^ (-2050:ℤ) = 1 / (2:ℚ) ^ (2050:ℤ) := by
        rw [zpow_neg, one_div]
      have h3 : 1 / (2:ℚ) ^ (2050:ℤ) ≤ 1 / c.mag :=
        div_le_div_of_nonneg_left (by norm_num) hc0 hchi
      linarith
    · have h1 : 1 / c.mag ≤ 4 := by
        rw [div_le_iff₀ hc0]; linarith
      have h2 : (2:ℚ) ^ (2:ℤ) ≤ (2:ℚ) ^ W.emax :=
        zpow_le_zpow_right₀ (by norm_num) (by rw [hWemax]; push_cast; omega)
      norm_num at h2
      linarith
  obtain ⟨hdP, _, hdN⟩ := div_op hW h1P hcP hrD
  rw [hq] at hdN
  set d := (Flt.one W false).div c with hddef
  refine ⟨d, ?_, hdP, ?_⟩
  · rw [expFuel_neg x fuel hn hs, expSem_eq, ← hWdef, ← hydef, hcast2, hr1]
    simp only [Option.map_some]
    rw [hrc]
  -- the error budget
  set b : ℝ := (2:ℝ) ^ (-(x.sem.p:ℤ) - 6) with hb
  have hb0 : 0 < b := by positivity
  have hb1 : b ≤ 1 := zpow_le_one_of_nonpos₀ (by norm_num) (by omega)
  have hb256 : b / 256 = (2:ℝ) ^ (-(x.sem.p:ℤ) - 14) := by
    rw [hb, show -(x.sem.p:ℤ) - 14 = (-(x.sem.p:ℤ) - 6) - 8 by ring,
      zpow_sub₀ (by norm_num : (2:ℝ) ≠ 0) (-(x.sem.p:ℤ) - 6) 8]; norm_num
  have hvb : ((unit W W.rm : ℚ) : ℝ) ≤ b / 256 := by
    rw [unit_nearest_eq hWrm, hb256]
    push_cast
    exact zpow_le_zpow_right₀ (by norm_num) (by rw [hWp]; push_cast; omega)
  have hεb : ε ≤ b / 256 := by
    rw [hb256]
    exact zpow_le_zpow_right₀ (by norm_num) (by rw [hWp]; push_cast; omega)
  exact recip_err (a := A) (b := b) (ε := ε) (by linarith) hb0 hb1 (le_of_lt hv0) hvb
    hεb hr3 (by linarith) hc0 ⟨by rw [pow_one]; exact n1,
      by rw [pow_one]; exact n2⟩ hdN

theorem exp_all_wide (x : Flt) (hF : x.sem.WF) (hp : 8 ≤ x.sem.p)
    (hdom : x.sem.p ≤ 2 ^ (x.sem.e - 1) + 6) (hp16 : 16 ≤ x.sem.p) (hrm : x.sem.rm = .nte ∨ x.sem.rm = .nta)
    (hc : x.Canonical) (hn : x.cat = .normal) (hx : |x.val| ≤ 1024)
    (fuel : ℕ) (hfuel : C19.redBound x.exp + 1 ≤ fuel) :
    ∃ r, x.expFuel fuel = some r ∧ r.Canonical ∧ r.sem = x.sem ∧
      RoundSpec x.sem r (Real.exp ((x.val : ℚ) : ℝ)) (1 / 8) ∧
      ((x.sign = true ∨ x.exp ≤ x.sem.e) →
        RoundSpec x.sem r (Real.exp ((x.val : ℚ) : ℝ)) (1 / 64)) := by
  have hW : x.expSem.WF := wfmt_WF hF _
  have hWrm : x.expSem.rm = x.sem.rm := rfl
  have h3 := exp_two_pow_m3 x.sem.p
  have h6 := exp_two_pow_m6 x.sem.p
  have h7 := exp_two_pow_m7 x.sem.p
  have hapos : (0:ℝ) < (2:ℝ) ^ (-(x.sem.p:ℤ)) := by positivity
  cases hs : x.sign
  · have hxp : PosN x.sem x := ⟨rfl, hc, hn, hs⟩
    have hval : x.val = x.mag := posN_val hxp
    rw [hval] at hx ⊢
    rw [abs_of_nonneg (Flt.mag_nonneg x)] at hx
    obtain ⟨r, hr1, hr2, e3, e7⟩ := exp_pos_core_wide x hF hp hdom hp16 hrm hc hn hs hx fuel hfuel
    have ht0 := Real.exp_pos ((x.mag : ℚ) : ℝ)
    obtain ⟨hcan, hsem⟩ := expFuel_canonical fuel x _ hF hc hr1
    refine ⟨r.cast x.sem, hr1, hcan, hsem, ?_, fun hcov => ?_⟩
    · exact roundSpec_cast hF hrm hW hWrm hr2 ht0 (by norm_num) (le_refl _)
        (by rw [h3] at e3; linarith)
    · have hcov' : x.exp ≤ x.sem.e := by
        rcases hcov with h | h
        · exact absurd h (by simp)
        · exact h
      have e7' := e7 hcov'
      rw [h7] at e7'
      refine roundSpec_cast hF hrm hW hWrm hr2 ht0 (by norm_num) (by norm_num) ?_
      have : 1 / 128 * (2:ℝ) ^ (-(x.sem.p:ℤ)) * Real.exp ((x.mag : ℚ) : ℝ) ≤
          1 / 64 * (2:ℝ) ^ (-(x.sem.p:ℤ)) * Real.exp ((x.mag : ℚ) : ℝ) := by
        apply mul_le_mul_of_nonneg_right _ (le_of_lt ht0)
        nlinarith
      linarith
  · have hval : x.val = -x.mag := by rw [Flt.val_normal hn, hs]; rfl
    rw [hval] at hx ⊢
    rw [abs_neg, abs_of_nonneg (Flt.mag_nonneg x)] at hx
    obtain ⟨d, hd1, hd2, e6⟩ := exp_neg_core_wide x hF hp hdom hp16 hrm hc hn hs hx fuel hfuel
    have hexpneg : Real.exp (((-x.mag : ℚ)) : ℝ) = 1 / Real.exp ((x.mag : ℚ) : ℝ) := by
      rw [one_div, ← Real.exp_neg]; push_cast; rfl
    rw [hexpneg]
    have ht0 : 0 < 1 / Real.exp ((x.mag : ℚ) : ℝ) := one_div_pos.mpr (Real.exp_pos _)
    obtain ⟨hcan, hsem⟩ := expFuel_canonical fuel x _ hF hc hd1
    rw [h6] at e6
    have h64 := roundSpec_cast hF hrm hW hWrm hd2 ht0 (by norm_num) (by norm_num) e6
    refine ⟨d.cast x.sem, hd1, hcan, hsem, ?_, fun _ => h64⟩
    refine roundSpec_cast hF hrm hW hWrm hd2 ht0 (by norm_num) (le_refl _) ?_
    have : 1 / 64 * (2:ℝ) ^ (-(x.sem.p:ℤ)) * (1 / Real.exp ((x.mag : ℚ) : ℝ)) ≤
        1 / 8 * (2:ℝ) ^ (-(x.sem.p:ℤ)) * (1 / Real.exp ((x.mag : ℚ) : ℝ)) := by
      apply mul_le_mul_of_nonneg_right _ (le_of_lt ht0)
      nlinarith
    linarith

end Arp.C16.ExpWide
