import Arp.Lemmas.TrigReduce
/-!
# `sin` / `cos` on reduced arguments up to `π̂/2` and the final rounding near zeros

The chains `sinStep4`, `cosStep4` were analysed for arguments `≤ 1` (`TrigSin`, `TrigCos`); after
the reduction the argument is `≤ π̂/2 < 8/5`.  Only the OUTERMOST step sees an argument above one:

* `triple_prop_big`, `sin_level_big`, `sinStep4_big`: the outermost triple-angle step for
  `x ≤ 8/5` (`sin(x/3) ≤ 11/20`), relative error `E ↦ E + 15u`;
* `cast_near2`, `final_round`: the final nearest rounding of `q ≈ S` with a relative-plus-absolute
  error: within `max(ulp of the binade of S, 2^-(p+6))`.
-/
namespace Arp.TrigErr
open Arp Arp.SpecRound Arp.RelErr Arp.Ln2 Arp.Sqrt

/-! ## real analysis for arguments up to `8/5` -/

/-- `s ↦ 3s − 4s³` does not amplify relative errors for `S ≤ 11/20` either -/
theorem cube_map_rel_big {S s E : ℝ} (hS0 : 0 < S) (hS : S ≤ 11/20) (hE0 : 0 ≤ E) (hE : E ≤ 1/64)
    (hs : |s - S| ≤ E * S) :
    |(3 * s - 4 * s ^ 3) - (3 * S - 4 * S ^ 3)| ≤ E * (3 * S - 4 * S ^ 3) := by
  obtain ⟨hs1, hs2⟩ := abs_le.mp hs
  have hs0 : 0 < s := by nlinarith
  have hsle : s ≤ 56/100 := by nlinarith
  have e : (3 * s - 4 * s ^ 3) - (3 * S - 4 * S ^ 3) = (s - S) * (3 - 4 * (s ^ 2 + s * S + S ^ 2)) := by
    ring
  have hS2 : S ^ 2 ≤ 121/400 := by nlinarith
  have hs2 : s ^ 2 ≤ 3136/10000 := by nlinarith
  have hsS : s * S ≤ 56/100 * (11/20) := mul_le_mul hsle hS (le_of_lt hS0) (by norm_num)
  have hg : |3 - 4 * (s ^ 2 + s * S + S ^ 2)| ≤ 3 - 4 * S ^ 2 := by
    rw [abs_le]
    constructor
    · linarith
    · nlinarith [mul_pos hs0 hS0, sq_nonneg s]
  have hpos : 0 ≤ 3 - 4 * S ^ 2 := by linarith
  rw [e, abs_mul]
  calc |s - S| * |3 - 4 * (s ^ 2 + s * S + S ^ 2)| ≤ (E * S) * (3 - 4 * S ^ 2) :=
        mul_le_mul hs hg (abs_nonneg _) (by positivity)
    _ = E * (3 * S - 4 * S ^ 3) := by ring

/-- one triple-angle step with three rounded operations, `S = sin(x/3) ≤ 11/20` -/
theorem triple_prop_big {S s a b r d E : ℝ} (hS0 : 0 < S) (hS : S ≤ 11/20) (hE0 : 0 ≤ E)
    (hE : E ≤ 1/64) (hd0 : 0 ≤ d) (hd : d ≤ 1/64) (hs : |s - S| ≤ E * S)
    (ha : |a - 3 * s| ≤ d * (3 * s)) (hb : |b - 4 * s ^ 3| ≤ d * (4 * s ^ 3))
    (hr : |r - (a - b)| ≤ d * (a - b)) :
    |r - (3 * S - 4 * S ^ 3)| ≤ (E + 4 * d) * (3 * S - 4 * S ^ 3) := by
  obtain ⟨hs1, hs2⟩ := abs_le.mp hs
  have hs0 : 0 < s := by nlinarith
  have hsle : s ≤ 56/100 := by nlinarith
  have hs2le : s ^ 2 ≤ 3136/10000 := by nlinarith
  have hS2 : S ^ 2 ≤ 121/400 := by nlinarith
  set fS := 3 * S - 4 * S ^ 3 with hfS
  set fs := 3 * s - 4 * s ^ 3 with hfs
  have hfSpos : 0 < fS := by
    have : fS = S * (3 - 4 * S ^ 2) := by rw [hfS]; ring
    rw [this]; apply mul_pos hS0; linarith
  have hfspos : 0 < fs := by
    have : fs = s * (3 - 4 * s ^ 2) := by rw [hfs]; ring
    rw [this]; apply mul_pos hs0; linarith
  have h1 : |fs - fS| ≤ E * fS := cube_map_rel_big hS0 hS hE0 hE hs
  have h2 : |(a - b) - fs| ≤ (5/2 * d) * fs := by
    have e : (a - b) - fs = (a - 3 * s) - (b - 4 * s ^ 3) := by rw [hfs]; ring
    have hk : 3 * s + 4 * s ^ 3 ≤ 5/2 * fs := by
      have : 5/2 * fs - (3 * s + 4 * s ^ 3) = s * (9/2 - 14 * s ^ 2) := by rw [hfs]; ring
      have : 0 ≤ s * (9/2 - 14 * s ^ 2) := mul_nonneg (le_of_lt hs0) (by linarith)
      linarith
    calc |(a - b) - fs| = |(a - 3 * s) - (b - 4 * s ^ 3)| := by rw [e]
      _ ≤ |a - 3 * s| + |b - 4 * s ^ 3| := abs_sub _ _
      _ ≤ d * (3 * s) + d * (4 * s ^ 3) := add_le_add ha hb
      _ = d * (3 * s + 4 * s ^ 3) := by ring
      _ ≤ d * (5/2 * fs) := mul_le_mul_of_nonneg_left hk hd0
      _ = (5/2 * d) * fs := by ring
  have h3 := rel_trans (le_of_lt hfspos) hd0 h2 hr
  have h4 : |r - fs| ≤ (18/5 * d) * fs := by
    refine le_trans h3 (mul_le_mul_of_nonneg_right ?_ (le_of_lt hfspos))
    nlinarith
  have h5 := rel_trans (le_of_lt hfSpos) (by positivity : (0:ℝ) ≤ 18/5 * d) h1 h4
  refine le_trans h5 (mul_le_mul_of_nonneg_right ?_ (le_of_lt hfSpos))
  nlinarith

/-- on `[0, 8/5]`: `x/2 ≤ sin x` -/
theorem sin_lower_big {x : ℝ} (hx0 : 0 ≤ x) (hx1 : x ≤ 8/5) : x / 2 ≤ Real.sin x := by
  have := Real.sin_ge_sub_cube hx0
  have h2 : x ^ 3 ≤ 64/25 * x := by
    have : x ^ 2 ≤ 64/25 := by nlinarith
    nlinarith
  linarith

theorem sin_pos_big {x : ℝ} (hx0 : 0 < x) (hx1 : x ≤ 8/5) : 0 < Real.sin x := by
  have := sin_lower_big (le_of_lt hx0) hx1
  linarith

/-! ## the outermost triple-angle step, `x ≤ 8/5` -/

/-- bounds of `st ≈ sin q₃`, `q₃ ≈ X/3 ≤ 8/15` -/
theorem sin_level_st_big {X q3 st E u : ℚ} (hu0 : 0 < u) (hu : u ≤ 1/1024) (hX0 : 0 < X)
    (hX1 : X ≤ 8/5) (hE0 : 0 ≤ E) (hE : E ≤ 1/64) (hq1 : (1 - u) * (X / 3) ≤ q3) (hq2 : q3 ≤ X / 3)
    (herr : |((st : ℚ) : ℝ) - Real.sin ((q3 : ℚ) : ℝ)| ≤ ((E : ℚ) : ℝ) * Real.sin ((q3 : ℚ) : ℝ)) :
    3/16 * X ≤ st ∧ st ≤ 11/20 ∧ 0 < q3 ∧ q3 ≤ 8/15 := by
  have huX : u * X ≤ 1/1024 * X := mul_le_mul_of_nonneg_right hu (le_of_lt hX0)
  have hq30 : 0 < q3 := by nlinarith
  have hq3le : q3 ≤ 8/15 := by linarith
  have hq3X : X / 4 ≤ q3 := by nlinarith
  have hq3r0 : (0:ℝ) < ((q3 : ℚ) : ℝ) := by exact_mod_cast hq30
  have hq3r1 : ((q3 : ℚ) : ℝ) ≤ 1 := by
    have : q3 ≤ 1 := by linarith
    exact_mod_cast this
  have hEr0 : (0:ℝ) ≤ ((E : ℚ) : ℝ) := by exact_mod_cast hE0
  have hEr : ((E : ℚ) : ℝ) ≤ 1/64 := by
    have := (Rat.cast_le (K := ℝ)).mpr hE
    push_cast at this; linarith
  obtain ⟨b1, b2⟩ := sin_bounds_of_err hq3r0 hq3r1 hEr0 hEr herr
  have hst1 : 3/4 * q3 ≤ st := by
    have : (((3/4 * q3 : ℚ)) : ℝ) ≤ ((st : ℚ) : ℝ) := by push_cast; linarith
    exact (Rat.cast_le (K := ℝ)).mp this
  have hst2 : st ≤ 65/64 * q3 := by
    have : ((st : ℚ) : ℝ) ≤ (((65/64 * q3 : ℚ)) : ℝ) := by push_cast; linarith
    exact (Rat.cast_le (K := ℝ)).mp this
  exact ⟨by linarith, by linarith, hq30, hq3le⟩

/-- the real-number core of the outermost triple-angle step -/
theorem sin_level_num_big {X q3 st a c bq r E u : ℚ} (hu0 : 0 < u) (hu : u ≤ 1/1024) (hX0 : 0 < X)
    (hX1 : X ≤ 8/5) (hE0 : 0 ≤ E) (hE : E + 15 * u ≤ 1/64)
    (hq1 : (1 - u) * (X / 3) ≤ q3) (hq2 : q3 ≤ X / 3)
    (herr : |((st : ℚ) : ℝ) - Real.sin ((q3 : ℚ) : ℝ)| ≤ ((E : ℚ) : ℝ) * Real.sin ((q3 : ℚ) : ℝ))
    (ha1 : (1 - u) * (st * 3) ≤ a) (ha2 : a ≤ st * 3)
    (hc1 : (1 - u) * st ^ 3 ≤ c) (hc2 : c ≤ (1 + u) * st ^ 3)
    (hb1 : (1 - u) * (c * 4) ≤ bq) (hb2 : bq ≤ c * 4)
    (hr1 : (1 - u) * (a - bq) ≤ r) (hr2 : r ≤ a - bq) :
    |((r : ℚ) : ℝ) - Real.sin ((X : ℚ) : ℝ)| ≤ ((E + 15 * u : ℚ) : ℝ) * Real.sin ((X : ℚ) : ℝ) := by
  have hE64 : E ≤ 1/64 := by linarith
  obtain ⟨hstlo, hstle, hq30, hq3le⟩ := sin_level_st_big hu0 hu hX0 hX1 hE0 hE64 hq1 hq2 herr
  have hst0 : 0 < st := by linarith
  have ht30 : 0 < st ^ 3 := by positivity
  have hut3 : u * st ^ 3 ≤ 1/1024 * st ^ 3 := mul_le_mul_of_nonneg_right hu (le_of_lt ht30)
  have hut30 : 0 ≤ u * st ^ 3 := mul_nonneg (le_of_lt hu0) (le_of_lt ht30)
  have hc0 : 0 ≤ c := by linarith
  have huc : u * c ≤ u * ((1 + u) * st ^ 3) := mul_le_mul_of_nonneg_left hc2 (le_of_lt hu0)
  have huc0 : 0 ≤ u * c := mul_nonneg (le_of_lt hu0) hc0
  have huut3 : u * (u * st ^ 3) ≤ 1/1024 * (u * st ^ 3) := mul_le_mul_of_nonneg_right hu hut30
  have hust : 0 ≤ u * st := mul_nonneg (le_of_lt hu0) (le_of_lt hst0)
  have hust' : u * st ≤ 1/1024 * st := mul_le_mul_of_nonneg_right hu (le_of_lt hst0)
  have hst2le : st ^ 2 ≤ 121/400 := by
    have : st ^ 2 ≤ (11/20 : ℚ) ^ 2 := pow_le_pow_left₀ (le_of_lt hst0) hstle 2
    norm_num at this; linarith
  have hst3le : st ^ 3 ≤ 121/400 * st := by
    have e : st ^ 3 = st * st ^ 2 := by ring
    rw [e]
    calc st * st ^ 2 ≤ st * (121/400) := mul_le_mul_of_nonneg_left hst2le (le_of_lt hst0)
      _ = 121/400 * st := by ring
  have hab0 : 0 ≤ a - bq := by linarith
  have hud : 0 ≤ u * (a - bq) := mul_nonneg (le_of_lt hu0) hab0
  have hA : |((a : ℚ) : ℝ) - 3 * ((st : ℚ) : ℝ)| ≤ 3 * ((u : ℚ) : ℝ) * (3 * ((st : ℚ) : ℝ)) := by
    have : |a - 3 * st| ≤ 3 * u * (3 * st) := by
      rw [abs_le]; constructor <;> linarith
    exact_mod_cast this
  have hB : |((bq : ℚ) : ℝ) - 4 * ((st : ℚ) : ℝ) ^ 3| ≤
      3 * ((u : ℚ) : ℝ) * (4 * ((st : ℚ) : ℝ) ^ 3) := by
    have : |bq - 4 * st ^ 3| ≤ 3 * u * (4 * st ^ 3) := by
      rw [abs_le]; constructor <;> linarith
    exact_mod_cast this
  have hR : |((r : ℚ) : ℝ) - (((a : ℚ) : ℝ) - ((bq : ℚ) : ℝ))| ≤
      3 * ((u : ℚ) : ℝ) * (((a : ℚ) : ℝ) - ((bq : ℚ) : ℝ)) := by
    have : |r - (a - bq)| ≤ 3 * u * (a - bq) := by
      rw [abs_le]; constructor <;> linarith
    exact_mod_cast this
  have hq3r0 : (0:ℝ) < ((q3 : ℚ) : ℝ) := by exact_mod_cast hq30
  have hq3r1 : ((q3 : ℚ) : ℝ) ≤ 8/15 := by
    have := (Rat.cast_le (K := ℝ)).mpr hq3le
    push_cast at this; linarith
  have hEr0 : (0:ℝ) ≤ ((E : ℚ) : ℝ) := by exact_mod_cast hE0
  have hEr : ((E : ℚ) : ℝ) ≤ 1/64 := by
    have := (Rat.cast_le (K := ℝ)).mpr hE64
    push_cast at this; linarith
  have hur0 : (0:ℝ) < ((u : ℚ) : ℝ) := by exact_mod_cast hu0
  have hur : ((u : ℚ) : ℝ) ≤ 1/1024 := by
    have := (Rat.cast_le (K := ℝ)).mpr hu
    push_cast at this; linarith
  have hd0 : (0:ℝ) ≤ 3 * ((u : ℚ) : ℝ) := by linarith
  have hd : 3 * ((u : ℚ) : ℝ) ≤ 1/64 := by linarith
  have hS0 : 0 < Real.sin ((q3 : ℚ) : ℝ) := sin_pos_big hq3r0 (by linarith)
  have hS13 : Real.sin ((q3 : ℚ) : ℝ) ≤ 11/20 := by
    have h1 := Real.sin_le (le_of_lt hq3r0)
    linarith
  have hT := triple_prop_big hS0 hS13 hEr0 hEr hd0 hd herr hA hB hR
  rw [← Real.sin_three_mul] at hT
  -- the argument perturbation
  have hXr0 : (0:ℝ) < ((X : ℚ) : ℝ) := by exact_mod_cast hX0
  have hXr1 : ((X : ℚ) : ℝ) ≤ 8/5 := by
    have := (Rat.cast_le (K := ℝ)).mpr hX1
    push_cast at this; linarith
  have hrel : |3 * ((q3 : ℚ) : ℝ) - ((X : ℚ) : ℝ)| ≤ ((u : ℚ) : ℝ) * ((X : ℚ) : ℝ) := by
    have : |3 * q3 - X| ≤ u * X := by rw [abs_le]; constructor <;> linarith
    exact_mod_cast this
  have hlip := Real.abs_sin_sub_sin_le (3 * ((q3 : ℚ) : ℝ)) ((X : ℚ) : ℝ)
  have hsX := sin_lower_big (le_of_lt hXr0) hXr1
  have hsX0 : 0 < Real.sin ((X : ℚ) : ℝ) := sin_pos_big hXr0 hXr1
  have huX : ((u : ℚ) : ℝ) * ((X : ℚ) : ℝ) ≤ 2 * (((u : ℚ) : ℝ) * Real.sin ((X : ℚ) : ℝ)) := by
    have := mul_le_mul_of_nonneg_left hsX (le_of_lt hur0)
    linarith
  have hpert : |Real.sin (3 * ((q3 : ℚ) : ℝ)) - Real.sin ((X : ℚ) : ℝ)| ≤
      2 * (((u : ℚ) : ℝ) * Real.sin ((X : ℚ) : ℝ)) := le_trans hlip (le_trans hrel huX)
  have hs3 : Real.sin (3 * ((q3 : ℚ) : ℝ)) ≤
      Real.sin ((X : ℚ) : ℝ) + 2 * (((u : ℚ) : ℝ) * Real.sin ((X : ℚ) : ℝ)) := by
    have := (abs_le.mp hpert).2; linarith
  have hcoef : (0:ℝ) ≤ ((E : ℚ) : ℝ) + 4 * (3 * ((u : ℚ) : ℝ)) := by linarith
  have hcoef1 : ((E : ℚ) : ℝ) + 4 * (3 * ((u : ℚ) : ℝ)) ≤ 1/32 := by linarith
  have hus : 0 ≤ ((u : ℚ) : ℝ) * Real.sin ((X : ℚ) : ℝ) :=
    mul_nonneg (le_of_lt hur0) (le_of_lt hsX0)
  have hT' : |((r : ℚ) : ℝ) - Real.sin (3 * ((q3 : ℚ) : ℝ))| ≤
      (((E : ℚ) : ℝ) + 4 * (3 * ((u : ℚ) : ℝ))) * Real.sin ((X : ℚ) : ℝ) +
        1/16 * (((u : ℚ) : ℝ) * Real.sin ((X : ℚ) : ℝ)) := by
    have h1 := mul_le_mul_of_nonneg_left hs3 hcoef
    have h2 : (((E : ℚ) : ℝ) + 4 * (3 * ((u : ℚ) : ℝ))) *
        (2 * (((u : ℚ) : ℝ) * Real.sin ((X : ℚ) : ℝ))) ≤
        1/32 * (2 * (((u : ℚ) : ℝ) * Real.sin ((X : ℚ) : ℝ))) :=
      mul_le_mul_of_nonneg_right hcoef1 (by linarith)
    linarith
  push_cast
  calc |((r : ℚ) : ℝ) - Real.sin ((X : ℚ) : ℝ)|
      = |(((r : ℚ) : ℝ) - Real.sin (3 * ((q3 : ℚ) : ℝ))) +
          (Real.sin (3 * ((q3 : ℚ) : ℝ)) - Real.sin ((X : ℚ) : ℝ))| := by ring_nf
    _ ≤ |((r : ℚ) : ℝ) - Real.sin (3 * ((q3 : ℚ) : ℝ))| +
          |Real.sin (3 * ((q3 : ℚ) : ℝ)) - Real.sin ((X : ℚ) : ℝ)| := abs_add_le _ _
    _ ≤ ((((E : ℚ) : ℝ) + 4 * (3 * ((u : ℚ) : ℝ))) * Real.sin ((X : ℚ) : ℝ) +
          1/16 * (((u : ℚ) : ℝ) * Real.sin ((X : ℚ) : ℝ))) +
          2 * (((u : ℚ) : ℝ) * Real.sin ((X : ℚ) : ℝ)) := add_le_add hT' hpert
    _ ≤ (((E : ℚ) : ℝ) + 15 * ((u : ℚ) : ℝ)) * Real.sin ((X : ℚ) : ℝ) := by linarith

variable {W : Sem}

/-- the argument of the next level for `x ≤ 8/5` -/
theorem sin_arg3_big {lo : ℚ} (S : SCtx W lo) {x : Flt} (hx : PosN W x) (hX1 : x.mag ≤ 8/5)
    (hXlo : 256 * (2:ℚ) ^ W.emin ≤ x.mag) :
    PosN W (divWithRm x (fromU64 W 3) .none) ∧
      (1 - u W) * (x.mag / 3) ≤ (divWithRm x (fromU64 W 3) .none).mag ∧
      (divWithRm x (fromU64 W 3) .none).mag ≤ x.mag / 3 := by
  have hW := S.wf
  have hX0 := hx.mag_pos
  have h6 := S.six_le_max
  have hu23 := S.u_le
  have hu0 := RelErr.u_pos W
  have hpe : (0:ℚ) < (2:ℚ) ^ W.emin := by positivity
  have hlo : (2:ℚ) ^ W.emin ≤ x.mag / 3 := by linarith
  have hle : x.mag / 3 ≤ maxFinite W := by linarith
  have hnn := nn_div hW .none (nn_of_posN hx) (three_nn S) (by norm_num) hle
  obtain ⟨h1, h2⟩ := rq_none_spec hW hlo hle
  have hpos : 0 < rq W .none (x.mag / 3) := by
    have : 0 < (1 - u W) * (x.mag / 3) := mul_pos (by norm_num at hu23; linarith) (by linarith)
    linarith
  obtain ⟨hP, hm⟩ := posN_of_nn hnn hpos
  exact ⟨hP, by rw [hm]; exact h1, by rw [hm]; exact h2⟩

/-- **the outermost triple-angle step** for `x ≤ 8/5`: relative error `E ↦ E + 15u` -/
theorem sin_level_big {lo : ℚ} (S : SCtx W lo) {x sx : Flt} {E : ℚ} (hx : PosN W x)
    (hX1 : x.mag ≤ 8/5) (hXlo : 256 * (2:ℚ) ^ (W.emin + 8) ≤ x.mag ^ 3) (hE0 : 0 ≤ E)
    (hE : E + 15 * u W ≤ 1/64) (hsx : PosN W sx)
    (herr : |((sx.mag : ℚ) : ℝ) - Real.sin (((divWithRm x (fromU64 W 3) .none).mag : ℚ) : ℝ)| ≤
      ((E : ℚ) : ℝ) * Real.sin (((divWithRm x (fromU64 W 3) .none).mag : ℚ) : ℝ)) :
    PosN W (subWithRm (mulWithRm sx (fromU64 W 3) .none) ((sx.powi 3).scale 2 .none) .none) ∧
      |(((subWithRm (mulWithRm sx (fromU64 W 3) .none) ((sx.powi 3).scale 2 .none) .none).mag : ℚ) : ℝ)
          - Real.sin ((x.mag : ℚ) : ℝ)| ≤
        ((E + 15 * u W : ℚ) : ℝ) * Real.sin ((x.mag : ℚ) : ℝ) := by
  have hW := S.wf
  have hX0 := hx.mag_pos
  have h6 := S.six_le_max
  have hu23 := S.u_le
  have hu0 := RelErr.u_pos W
  have hu8 : u W ≤ 1/1024 := by norm_num at hu23 ⊢; linarith
  have hpe : (0:ℚ) < (2:ℚ) ^ W.emin := by positivity
  have hemin8 := zpow_emin8 W
  have hp8 : (0:ℚ) < (2:ℚ) ^ (W.emin + 8) := by positivity
  have hE64 : E ≤ 1/64 := by linarith
  -- `x ≥ 256·2^emin`
  have hXlo1 : 256 * (2:ℚ) ^ W.emin ≤ x.mag := by
    have h3 : x.mag ^ 3 = x.mag * x.mag ^ 2 := by ring
    have h2 : x.mag ^ 2 ≤ (8/5 : ℚ) ^ 2 := pow_le_pow_left₀ (le_of_lt hX0) hX1 2
    have h4 : x.mag ^ 3 ≤ x.mag * (64/25) := by
      rw [h3]; norm_num at h2; exact mul_le_mul_of_nonneg_left h2 (le_of_lt hX0)
    rw [hemin8] at hXlo
    nlinarith
  obtain ⟨hx3, hq1, hq2⟩ := sin_arg3_big S hx hX1 hXlo1
  obtain ⟨hstlo, hstle, hq30, hq3le⟩ := sin_level_st_big hu0 hu8 hX0 hX1 hE0 hE64 hq1 hq2 herr
  have hst0 : 0 < sx.mag := by linarith
  have hst1' : sx.mag ≤ 1 := by linarith
  have ht30 : 0 < sx.mag ^ 3 := by positivity
  have hst3 : (2:ℚ) ^ (W.emin + 8) ≤ sx.mag ^ 3 := by
    have h5 : (3/16 * x.mag) ^ 3 ≤ sx.mag ^ 3 := pow_le_pow_left₀ (by linarith) hstlo 3
    have h6' : (3/16 * x.mag) ^ 3 = 27/4096 * x.mag ^ 3 := by ring
    rw [h6'] at h5
    linarith
  obtain ⟨_, hste⟩ := pow_emin_le_of_cube S hst0 hst1' hst3
  have hst3e := hst3
  rw [hemin8] at hste hst3e
  have hst2le : sx.mag ^ 2 ≤ 121/400 := by
    have : sx.mag ^ 2 ≤ (11/20 : ℚ) ^ 2 := pow_le_pow_left₀ (le_of_lt hst0) hstle 2
    norm_num at this; linarith
  have hst3le : sx.mag ^ 3 ≤ 121/400 * sx.mag := by
    have e : sx.mag ^ 3 = sx.mag * sx.mag ^ 2 := by ring
    rw [e]
    calc sx.mag * sx.mag ^ 2 ≤ sx.mag * (121/400) :=
          mul_le_mul_of_nonneg_left hst2le (le_of_lt hst0)
      _ = 121/400 * sx.mag := by ring
  have hut3 : u W * sx.mag ^ 3 ≤ 1/1024 * sx.mag ^ 3 :=
    mul_le_mul_of_nonneg_right hu8 (le_of_lt ht30)
  have hut30 : 0 ≤ u W * sx.mag ^ 3 := mul_nonneg (le_of_lt hu0) (le_of_lt ht30)
  have hust' : u W * sx.mag ≤ 1/1024 * sx.mag := mul_le_mul_of_nonneg_right hu8 (le_of_lt hst0)
  have h3nn := three_nn S
  have ha_le : sx.mag * 3 ≤ maxFinite W := by linarith
  have ha_lo : (2:ℚ) ^ W.emin ≤ sx.mag * 3 := by linarith
  have hann := nn_mul hW .none (nn_of_posN hsx) h3nn ha_le
  obtain ⟨ha1, ha2⟩ := rq_none_spec hW ha_lo ha_le
  obtain ⟨hcP, hc1, hc2⟩ := powi_posN S hsx (by norm_num : 2 ≤ 3) (le_refl 3) hst1' hst3
  have hc0 : 0 < (sx.powi 3).mag := hcP.mag_pos
  have hFc : (sx.powi 3).sem.WF := by rw [hcP.sem]; exact hW
  have hsc_can := scale_canonical (sx.powi 3) 2 .none hFc hcP.can
  have hsc_cor := C10.scale_correct (sx.powi 3) 2 .none hFc hcP.can
  have hsc_spec : Spec.scaleExact .none 2 (sx.powi 3) =
      Spec.round W .none false ((sx.powi 3).mag * 4) := by
    simp only [Spec.scaleExact, hcP.cat, hcP.sign, hcP.sem]
    norm_num
  rw [hsc_spec] at hsc_cor
  have hb_le : (sx.powi 3).mag * 4 ≤ maxFinite W := by linarith
  have hb_lo : (2:ℚ) ^ W.emin ≤ (sx.powi 3).mag * 4 := by linarith
  have hbnn := nn_of_rq hW (hsc_can.2.trans hcP.sem) hsc_can.1 .none (by linarith) hb_le hsc_cor
  obtain ⟨hb1, hb2⟩ := rq_none_spec hW hb_lo hb_le
  have hbq0 : 0 ≤ rq W .none ((sx.powi 3).mag * 4) := rq_nonneg hW (by linarith) .none
  have hab_lo : sx.mag ≤ rq W .none (sx.mag * 3) - rq W .none ((sx.powi 3).mag * 4) := by
    linarith
  have hab_le : rq W .none (sx.mag * 3) - rq W .none ((sx.powi 3).mag * 4) ≤ maxFinite W := by
    linarith
  have hab_lo' : (2:ℚ) ^ W.emin ≤
      rq W .none (sx.mag * 3) - rq W .none ((sx.powi 3).mag * 4) := by linarith
  have hrnn := nn_sub hW .none hann hbnn (by linarith) hab_le
  obtain ⟨hr1, hr2⟩ := rq_none_spec hW hab_lo' hab_le
  have hrpos : 0 < rq W .none (rq W .none (sx.mag * 3) - rq W .none ((sx.powi 3).mag * 4)) := by
    have : 0 < (1 - u W) *
        (rq W .none (sx.mag * 3) - rq W .none ((sx.powi 3).mag * 4)) :=
      mul_pos (by linarith) (by linarith)
    linarith
  obtain ⟨hP, hm⟩ := posN_of_nn hrnn hrpos
  refine ⟨hP, ?_⟩
  rw [hm]
  exact sin_level_num_big hu0 hu8 hX0 hX1 hE0 hE hq1 hq2 herr ha1 ha2 hc1 hc2 hb1 hb2 hr1 hr2

/-- **`sinStep4` on a reduced argument `x ≤ 8/5`** (`k ≥ 1` steps; the inner `k − 1` steps see
    arguments `≤ 8/15`): relative error `(3·max(50,p) + 12·k + 3)·u` -/
theorem sinStep4_big {lo : ℚ} (S : SCtx W lo) (k : ℕ) (hk1 : 1 ≤ k)
    (hK : ((3 * Nat.max 50 W.p + 12 * k + 3 : ℕ) : ℚ) * u W ≤ 1/64) {x : Flt} (hx : PosN W x)
    (hX1 : x.mag ≤ 8/5) (h16 : x.mag * 16 ≤ 3 ^ k) (hlo : lo * 4 ^ k ≤ x.mag) :
    PosN W (sinStep4 k x) ∧
      |(((sinStep4 k x).mag : ℚ) : ℝ) - Real.sin ((x.mag : ℚ) : ℝ)| ≤
        ((((3 * Nat.max 50 W.p + 12 * k + 3 : ℕ) : ℚ) * u W : ℚ) : ℝ) *
          Real.sin ((x.mag : ℚ) : ℝ) := by
  obtain ⟨s, rfl⟩ : ∃ s, k = s + 1 := ⟨k - 1, by omega⟩
  have hu0 := RelErr.u_pos W
  have hX0 := hx.mag_pos
  have hlopos := S.lo_pos
  have h4 : (1:ℚ) ≤ 4 ^ s := one_le_pow₀ (by norm_num)
  have hlo4 : 4 * lo ≤ x.mag := by rw [pow_succ] at hlo; nlinarith
  have hXlo : 256 * (2:ℚ) ^ (W.emin + 8) ≤ x.mag ^ 3 := by
    have h1 : (4 * lo) ^ 3 ≤ x.mag ^ 3 := pow_le_pow_left₀ (by linarith) hlo4 3
    have h2 : (4 * lo) ^ 3 = 64 * lo ^ 3 := by ring
    have h3 := S.lo10
    have e : (2:ℚ) ^ (W.emin + 10) = 4 * (2:ℚ) ^ (W.emin + 8) := by
      rw [show W.emin + 10 = (W.emin + 8) + 2 by ring, zpow_add₀ (by norm_num : (2:ℚ) ≠ 0)]
      norm_num; ring
    rw [e] at h3
    rw [h2] at h1
    linarith
  have hXlo1 : 256 * (2:ℚ) ^ W.emin ≤ x.mag := by
    have h3 : x.mag ^ 3 = x.mag * x.mag ^ 2 := by ring
    have h2 : x.mag ^ 2 ≤ (8/5 : ℚ) ^ 2 := pow_le_pow_left₀ (le_of_lt hX0) hX1 2
    have h4' : x.mag ^ 3 ≤ x.mag * (64/25) := by
      rw [h3]; norm_num at h2; exact mul_le_mul_of_nonneg_left h2 (le_of_lt hX0)
    have hpe : (0:ℚ) < (2:ℚ) ^ W.emin := by positivity
    rw [zpow_emin8] at hXlo
    nlinarith
  obtain ⟨hx3, hq1, hq2⟩ := sin_arg3_big S hx hX1 hXlo1
  have hu23 := S.u_le
  have hu8 : u W ≤ 1/1024 := by norm_num at hu23 ⊢; linarith
  have huX : u W * x.mag ≤ 1/1024 * x.mag := mul_le_mul_of_nonneg_right hu8 (le_of_lt hX0)
  have hq3_1 : (divWithRm x (fromU64 W 3) .none).mag ≤ 1 := by linarith
  have hq3_16 : (divWithRm x (fromU64 W 3) .none).mag * 16 ≤ 3 ^ s := by
    rw [pow_succ] at h16; linarith
  have hq3_lo : lo * 4 ^ s ≤ (divWithRm x (fromU64 W 3) .none).mag := by
    rw [pow_succ] at hlo
    have : x.mag / 4 ≤ (divWithRm x (fromU64 W 3) .none).mag := by linarith
    linarith
  have hK' : ((3 * Nat.max 50 W.p + 12 * s : ℕ) : ℚ) * u W ≤ 1/64 := by
    have h1 : ((3 * Nat.max 50 W.p + 12 * s : ℕ) : ℚ) ≤
        ((3 * Nat.max 50 W.p + 12 * (s + 1) + 3 : ℕ) : ℚ) := by
      exact_mod_cast (by omega : 3 * Nat.max 50 W.p + 12 * s ≤ 3 * Nat.max 50 W.p + 12 * (s + 1) + 3)
    exact le_trans (mul_le_mul_of_nonneg_right h1 (le_of_lt hu0)) hK
  obtain ⟨hsx, herr⟩ := sinStep4_acc S s hK' s _ (le_refl _) hx3 hq3_1 hq3_16 hq3_lo
  have hcast : (((3 * Nat.max 50 W.p + 12 * (s + 1) + 3 : ℕ) : ℚ)) * u W =
      (((3 * Nat.max 50 W.p + 12 * s : ℕ) : ℚ)) * u W + 15 * u W := by push_cast; ring
  have hE0 : (0:ℚ) ≤ (((3 * Nat.max 50 W.p + 12 * s : ℕ) : ℚ)) * u W :=
    mul_nonneg (by positivity) (le_of_lt hu0)
  have := sin_level_big S hx hX1 hXlo hE0 (by rw [← hcast]; exact hK) hsx herr
  rw [sinStep4_succ, hx.sem, hcast]
  exact this

/-! ## the final rounding -/

/-- sharper form of `cast_near`: `ulp/2 + η` in the binade of `S`, `2η` across a binade boundary -/
theorem cast_near2 {F : Sem} (hF : F.WF) {rm : RM} (hrm : rm = .nte ∨ rm = .nta) {q : ℚ} {S η : ℝ}
    (hq : 0 < q) (hle : q ≤ maxFinite F) (E : ℤ) (hS2 : S < (2:ℝ) ^ (E + 1))
    (hE1 : F.emin - ((F.p:ℤ) - 1) ≤ E + 1) (hE2 : E + 1 ≤ F.emax) (herr : |((q : ℚ) : ℝ) - S| ≤ η) :
    |((rq F rm q : ℚ) : ℝ) - S| ≤ max (((F.ulp (max E F.emin) : ℚ) : ℝ) / 2 + η) (2 * η) := by
  have hp : 1 ≤ F.p := by have := hF.2; omega
  have hη0 : 0 ≤ η := le_trans (abs_nonneg _) herr
  have hc : IsRep F ((2:ℚ) ^ (E + 1)) := isRep_pow2 hF (E + 1) hE1 hE2
  by_cases hqc : q < (2:ℚ) ^ (E + 1)
  · refine le_trans ?_ (le_max_left _ _)
    obtain ⟨e, m, f, d, hhalf⟩ := rq_near_core hF hrm hq hle
    have he : e ≤ max E F.emin := by
      rcases d.hn with h | h
      · have hmq : (2:ℚ) ^ (F.p - 1) ≤ (m:ℚ) := by exact_mod_cast h
        have h2e : (2:ℚ) ^ e ≤ q :=
          calc (2:ℚ) ^ e = (2:ℚ) ^ (F.p - 1) * F.ulp e := (F.half_pow_mul_ulp hp e).symm
            _ ≤ (m:ℚ) * F.ulp e := mul_le_mul_of_nonneg_right hmq (le_of_lt (F.ulp_pos e))
            _ ≤ q := d.lo
        have : (2:ℚ) ^ e < (2:ℚ) ^ (E + 1) := lt_of_le_of_lt h2e hqc
        have := (zpow_lt_zpow_iff_right₀ (by norm_num : (1:ℚ) < 2)).mp this
        have := le_max_left E F.emin
        omega
      · rw [h]; exact le_max_right _ _
    have hmono := F.ulp_mono he
    have h1 : |((rq F rm q : ℚ) : ℝ) - ((q : ℚ) : ℝ)| ≤ ((F.ulp (max E F.emin) : ℚ) : ℝ) / 2 := by
      have : |rq F rm q - q| ≤ F.ulp (max E F.emin) / 2 := by linarith
      exact_mod_cast this
    calc |((rq F rm q : ℚ) : ℝ) - S|
        = |(((rq F rm q : ℚ) : ℝ) - ((q : ℚ) : ℝ)) + (((q : ℚ) : ℝ) - S)| := by ring_nf
      _ ≤ |((rq F rm q : ℚ) : ℝ) - ((q : ℚ) : ℝ)| + |((q : ℚ) : ℝ) - S| := abs_add_le _ _
      _ ≤ ((F.ulp (max E F.emin) : ℚ) : ℝ) / 2 + η := by linarith
  · refine le_trans ?_ (le_max_right _ _)
    have hcq : (2:ℚ) ^ (E + 1) ≤ q := not_lt.mp hqc
    have hfin := rq_finite hF hq hle rm
    have hnear := round_nearest_spec hF hq hrm false hfin _ hc
    rw [← rq_pos_eq rm hq] at hnear
    have h2 : |(2:ℚ) ^ (E + 1) - q| = q - (2:ℚ) ^ (E + 1) := by
      rw [abs_sub_comm, abs_of_nonneg (by linarith)]
    rw [h2] at hnear
    have h1 : |((rq F rm q : ℚ) : ℝ) - ((q : ℚ) : ℝ)| ≤ ((q : ℚ) : ℝ) - (2:ℝ) ^ (E + 1) := by
      have : |((rq F rm q : ℚ) : ℝ) - ((q : ℚ) : ℝ)| ≤ (((q - (2:ℚ) ^ (E + 1) : ℚ)) : ℝ) := by
        exact_mod_cast hnear
      push_cast at this; exact this
    obtain ⟨e1, e2⟩ := abs_le.mp herr
    calc |((rq F rm q : ℚ) : ℝ) - S|
        = |(((rq F rm q : ℚ) : ℝ) - ((q : ℚ) : ℝ)) + (((q : ℚ) : ℝ) - S)| := by ring_nf
      _ ≤ |((rq F rm q : ℚ) : ℝ) - ((q : ℚ) : ℝ)| + |((q : ℚ) : ℝ) - S| := abs_add_le _ _
      _ ≤ (((q : ℚ) : ℝ) - (2:ℝ) ^ (E + 1)) + η := add_le_add h1 herr
      _ ≤ 2 * η := by linarith

/-- a nearest rounding of `q ≤ 1 + 2^-(p+2)` does not exceed one -/
theorem rq_le_one {F : Sem} (hF : F.WF) {rm : RM} (hrm : rm = .nte ∨ rm = .nta) {q : ℚ}
    (hq0 : 0 ≤ q) (hq : q ≤ 1 + (2:ℚ) ^ (-(F.p:ℤ) - 2)) : rq F rm q ≤ 1 := by
  have hp1 : 1 ≤ F.p := by have := hF.2; omega
  have hone : IsRep F 1 := by
    have := isRep_pow2 hF 0 (by have := Sem.emin_le_zero hF; omega)
      (by have := Sem.emax_pos hF; omega)
    simpa using this
  by_cases h1 : q ≤ 1
  · exact rq_le_of_rep hF hone hq0 h1 rm
  · have hq1 : 1 < q := not_le.mp h1
    have hqpos : 0 < q := by linarith
    have hsmall : (2:ℚ) ^ (-(F.p:ℤ) - 2) ≤ 1/4 := by
      calc (2:ℚ) ^ (-(F.p:ℤ) - 2) ≤ (2:ℚ) ^ (-2:ℤ) := zpow_le_zpow_right₀ (by norm_num) (by omega)
        _ = 1/4 := by norm_num
    have hmaxF : q ≤ maxFinite F := by
      have h1 := pow_emax_le_maxFinite (F := F) hp1
      have h2 : (2:ℚ) ^ (1:ℤ) ≤ (2:ℚ) ^ F.emax :=
        zpow_le_zpow_right₀ (by norm_num) (Sem.emax_pos hF)
      rw [zpow_one] at h2; linarith
    have hfin := rq_finite hF hqpos hmaxF rm
    have hnear := round_nearest_spec hF hqpos hrm false hfin 1 hone
    rw [← rq_pos_eq rm hqpos] at hnear
    rw [abs_sub_comm (1:ℚ) q, abs_of_pos (by linarith : 0 < q - 1)] at hnear
    have hub : rq F rm q ≤ 1 + 2 * (2:ℚ) ^ (-(F.p:ℤ) - 2) := by
      have := (abs_le.mp hnear).2; linarith
    have hrep := rq_isRep hF hq0 rm (W := F)
    have hgap := hrep.gap hp1 (e := 0) (m := 2 ^ (F.p - 1)) (Or.inl (le_refl _))
    have h1' := F.half_pow_mul_ulp hp1 0
    rw [zpow_zero] at h1'
    push_cast at hgap
    rcases hgap with h | h
    · rw [h1'] at h; exact h
    · exfalso
      have hu0 : F.ulp 0 = 8 * (2:ℚ) ^ (-(F.p:ℤ) - 2) := by
        unfold Sem.ulp
        rw [show (0:ℤ) - ((F.p:ℤ) - 1) = (-(F.p:ℤ) - 2) + 3 by ring,
          zpow_add₀ (by norm_num : (2:ℚ) ≠ 0)]
        norm_num; ring
      have : ((2:ℚ) ^ (F.p - 1) + 1) * F.ulp 0 = 1 + F.ulp 0 := by rw [add_mul, h1', one_mul]
      rw [this, hu0] at h
      have hpos : (0:ℚ) < (2:ℚ) ^ (-(F.p:ℤ) - 2) := by positivity
      linarith

/-- **the final rounding** of a value `q` that approximates `S` (`|S| ≤ 1`) with relative error
    `Erel ≤ 2^-(p+6)` and absolute error `a ≤ 180·2^-(p+16)`: within one ulp of every binade that
    contains `S` (clamped at the subnormal spacing) or within `2^-(p+6)` -/
theorem final_round {F : Sem} (hF : F.WF) {rm : RM} (hrm : rm = .nte ∨ rm = .nta) (hp8 : 8 ≤ F.p)
    (hemin8 : F.emin ≤ -8) {q : ℚ} {S a Erel : ℝ} (hq0 : 0 ≤ q) (hq2 : q ≤ 2) (hS1 : |S| ≤ 1)
    (hE0 : 0 ≤ Erel) (hE : Erel ≤ (2:ℝ) ^ (-(F.p:ℤ) - 6)) (ha0 : 0 ≤ a)
    (ha : a ≤ 180 * (2:ℝ) ^ (-(F.p:ℤ) - 16))
    (herr : |((q : ℚ) : ℝ) - S| ≤ Erel * (|S| + a) + a) (Eb : ℤ) (hEb : |S| < (2:ℝ) ^ (Eb + 1)) :
    |((rq F rm q : ℚ) : ℝ) - S| ≤
      max ((2:ℝ) ^ (max Eb F.emin - ((F.p:ℤ) - 1))) ((2:ℝ) ^ (-(F.p:ℤ) - 6)) := by
  have hp1 : 1 ≤ F.p := by omega
  set T : ℝ := (2:ℝ) ^ (-(F.p:ℤ) - 6) with hT
  have hT0 : 0 < T := by rw [hT]; positivity
  have haT : a ≤ 45/256 * T := by
    have e : (2:ℝ) ^ (-(F.p:ℤ) - 16) = T / 1024 := by
      rw [hT, show (-(F.p:ℤ) - 16) = (-(F.p:ℤ) - 6) + (-10) by ring,
        zpow_add₀ (by norm_num : (2:ℝ) ≠ 0)]
      norm_num; ring
    rw [e] at ha; linarith
  have hT14 : T ≤ 1/16384 := by
    calc T ≤ (2:ℝ) ^ (-14:ℤ) := zpow_le_zpow_right₀ (by norm_num) (by omega)
      _ = 1/16384 := by norm_num
  have hA : (1 + Erel) * a ≤ 46/256 * T := by
    have : Erel * a ≤ 1/16384 * a := mul_le_mul_of_nonneg_right (by linarith) ha0
    nlinarith
  rcases eq_or_lt_of_le hq0 with hq00 | hqpos
  · -- `q = 0`
    subst hq00
    rw [rq_zero]
    refine le_trans ?_ (le_max_right _ _)
    simp only [Rat.cast_zero, zero_sub, abs_neg] at herr ⊢
    have h1 : Erel * |S| ≤ 1/16384 * |S| := mul_le_mul_of_nonneg_right (by linarith) (abs_nonneg _)
    have h2 : Erel * (|S| + a) + a = Erel * |S| + (1 + Erel) * a := by ring
    have h3 := abs_nonneg S
    rw [h2] at herr
    linarith
  -- the effective binade
  set Es : ℤ := min (max Eb (F.emin - (F.p:ℤ))) 0 with hEs
  have hEs0 : Es ≤ 0 := min_le_right _ _
  have hEslo : F.emin - (F.p:ℤ) ≤ Es := le_min (le_max_right _ _) (by omega)
  have hSlt : |S| < (2:ℝ) ^ (Es + 1) := by
    by_cases h0 : max Eb (F.emin - (F.p:ℤ)) ≤ 0
    · rw [hEs, min_eq_left h0]
      exact lt_of_lt_of_le hEb (zpow_le_zpow_right₀ (by norm_num) (by have := le_max_left Eb (F.emin - (F.p:ℤ)); omega))
    · rw [hEs, min_eq_right (by omega)]
      norm_num; linarith
  have hmaxle : max Es F.emin ≤ max Eb F.emin := by
    rcases le_total Eb F.emin with h | h
    · rw [max_eq_right h]
      apply max_le _ (le_refl _)
      calc Es ≤ max Eb (F.emin - (F.p:ℤ)) := min_le_left _ _
        _ ≤ F.emin := max_le h (by omega)
    · rw [max_eq_left h]
      apply max_le _ h
      calc Es ≤ max Eb (F.emin - (F.p:ℤ)) := min_le_left _ _
        _ ≤ Eb := max_le (le_refl _) (by omega)
  set U : ℝ := (2:ℝ) ^ (max Es F.emin - ((F.p:ℤ) - 1)) with hU
  have hU0 : 0 < U := by rw [hU]; positivity
  have hUle : U ≤ (2:ℝ) ^ (max Eb F.emin - ((F.p:ℤ) - 1)) :=
    zpow_le_zpow_right₀ (by norm_num) (by omega)
  -- `η ≤ U/64 + (46/256)·T`
  have hη : Erel * (|S| + a) + a ≤ U / 64 + 46/256 * T := by
    have h1 : Erel * |S| ≤ T * (2:ℝ) ^ (Es + 1) :=
      mul_le_mul hE (le_of_lt hSlt) (abs_nonneg _) (le_of_lt hT0)
    have h2 : T * (2:ℝ) ^ (Es + 1) = (2:ℝ) ^ (Es - ((F.p:ℤ) - 1)) / 64 := by
      rw [hT, ← zpow_add₀ (by norm_num : (2:ℝ) ≠ 0),
        show (-(F.p:ℤ) - 6) + (Es + 1) = (Es - ((F.p:ℤ) - 1)) + (-6) by ring,
        zpow_add₀ (by norm_num : (2:ℝ) ≠ 0)]
      norm_num; ring
    have h3 : (2:ℝ) ^ (Es - ((F.p:ℤ) - 1)) ≤ U :=
      zpow_le_zpow_right₀ (by norm_num) (by have := le_max_left Es F.emin; omega)
    have e : Erel * (|S| + a) + a = Erel * |S| + (1 + Erel) * a := by ring
    rw [e]; linarith
  have hmaxF : q ≤ maxFinite F := by
    have h1 := pow_emax_le_maxFinite (F := F) hp1
    have h2 : (2:ℚ) ^ (1:ℤ) ≤ (2:ℚ) ^ F.emax :=
      zpow_le_zpow_right₀ (by norm_num) (Sem.emax_pos hF)
    rw [zpow_one] at h2; linarith
  have hS' : S < (2:ℝ) ^ (Es + 1) := lt_of_le_of_lt (le_abs_self S) hSlt
  have hcn := cast_near2 hF hrm hqpos hmaxF Es hS' (by omega)
    (by have := Sem.emax_pos hF; omega) herr
  have hulp : ((F.ulp (max Es F.emin) : ℚ) : ℝ) = U := by
    unfold Sem.ulp; push_cast; rfl
  rw [hulp] at hcn
  have hη0 : 0 ≤ Erel * (|S| + a) + a := le_trans (abs_nonneg _) herr
  refine le_trans hcn ?_
  by_cases hUT : T / 2 ≤ U
  · refine le_trans ?_ (le_trans hUle (le_max_left _ _))
    apply max_le <;> linarith
  · refine le_trans ?_ (le_max_right _ _)
    have : U < T / 2 := not_le.mp hUT
    apply max_le <;> linarith

/-! ## a zero reduced argument -/

theorem divWithRm_zero_cat {a b : Flt} (rm : RM) (ha : a.cat = .zero) (hb : b.cat = .normal) :
    (divWithRm a b rm).cat = .zero := by simp [divWithRm, ha, hb, Flt.zero]

theorem mulWithRm_zero_cat {a b : Flt} (rm : RM) (ha : a.cat = .zero)
    (hb : b.cat = .normal ∨ b.cat = .zero) : (mulWithRm a b rm).cat = .zero := by
  rcases hb with hb | hb <;> simp [mulWithRm, ha, hb, Flt.zero]

theorem mulWithRm_zero_cat' {a b : Flt} (rm : RM) (ha : a.cat = .normal) (hb : b.cat = .zero) :
    (mulWithRm a b rm).cat = .zero := by simp [mulWithRm, ha, hb, Flt.zero]

theorem powi3_zero_cat {a : Flt} (ha : a.cat = .zero) : (a.powi 3).cat = .zero := by
  rw [C18.powi_def]
  have hc : (a.cast (C18.powiSem a.sem)).cat = .zero := by
    simp [Flt.cast, Flt.castWithRm, ha, Flt.zero]
  set z := a.cast (C18.powiSem a.sem) with hz
  have h1 : powiLoop 64 3 (Flt.one (C18.powiSem a.sem) false) z
      = ((Flt.one (C18.powiSem a.sem) false).mul z).mul (z.mul z) := by
    simp [powiLoop]
  rw [h1]
  have h2 : (((Flt.one (C18.powiSem a.sem) false).mul z).mul (z.mul z)).cat = .zero := by
    apply mulWithRm_zero_cat
    · exact mulWithRm_zero_cat' _ rfl hc
    · right; exact mulWithRm_zero_cat _ hc (Or.inr hc)
  simp [Flt.castWithRm, h2, Flt.zero]

theorem powi2_zero_cat {a : Flt} (ha : a.cat = .zero) : (a.powi 2).cat = .zero := by
  rw [C18.powi_def]
  have hc : (a.cast (C18.powiSem a.sem)).cat = .zero := by
    simp [Flt.cast, Flt.castWithRm, ha, Flt.zero]
  set z := a.cast (C18.powiSem a.sem) with hz
  rw [C18.powiLoop_two]
  have h2 : ((Flt.one (C18.powiSem a.sem) false).mul (z.mul z)).cat = .zero :=
    mulWithRm_zero_cat' _ rfl (mulWithRm_zero_cat _ hc (Or.inr hc))
  simp [Flt.castWithRm, h2, Flt.zero]

theorem subWithRm_zero_cat {a b : Flt} (rm : RM) (ha : a.cat = .zero) (hb : b.cat = .zero) :
    (subWithRm a b rm).cat = .zero := by
  simp only [subWithRm, addSub, ha, hb]
  split <;> rfl

theorem addWithRm_zero_cat {a b : Flt} (rm : RM) (ha : a.cat = .zero) (hb : b.cat = .zero) :
    (addWithRm a b rm).cat = .zero := by
  simp only [addWithRm, addSub, ha, hb]
  split <;> rfl

variable {W : Sem}

theorem fromBigint_one_cat (hW : W.WF) (hrm : W.rm = .nte ∨ W.rm = .nta) :
    (fromBigint W 1).cat = .normal := by
  rcases bot_spec hW hrm (le_refl 1) with ⟨_, h⟩ | ⟨vB, hB, h1, _⟩
  · exfalso
    have hp : 1 ≤ W.p := by have := hW.2; omega
    have h1 := pow_emax_le_maxFinite (F := W) hp
    have h2 : (2:ℚ) ^ (1:ℤ) ≤ (2:ℚ) ^ W.emax :=
      zpow_le_zpow_right₀ (by norm_num) (Sem.emax_pos hW)
    rw [zpow_one] at h2
    push_cast at h; linarith
  · have hu := u_le_half hW
    exact hB.normal_of_pos (by push_cast at h1; linarith)

/-- `sin_taylor(±0)` is a zero -/
theorem sinTaylor_zero_cat (hW : W.WF) (hrm : W.rm = .nte ∨ W.rm = .nta) {z : Flt}
    (hs : z.sem = W) (hz : z.cat = .zero) : (sinTaylor z).cat = .zero := by
  unfold sinTaylor
  rw [hs]
  obtain ⟨n, hn⟩ : ∃ n, Nat.max 50 W.p - 1 = n + 2 := by
    have : 50 ≤ Nat.max 50 W.p := Nat.le_max_left _ _
    exact ⟨Nat.max 50 W.p - 3, by omega⟩
  show (sinTaylorLoop W z.sqr (Nat.max 50 W.p - 1) 1 false z 1 (Flt.zero W false)
    (Flt.one W true)).cat = Cat.zero
  rw [hn, sinTaylorLoop_eq, tayLoop_succ, one_true_beq_zero]
  simp only [Bool.false_eq_true, if_false]
  have hdiv : (z.div (fromBigint W 1)).cat = .zero := by
    unfold Flt.div
    exact divWithRm_zero_cat _ hz (fromBigint_one_cat hW hrm)
  have hsum : ((Flt.zero W false).add (z.div (fromBigint W 1))).cat = .zero := by
    unfold Flt.add
    exact addWithRm_zero_cat _ rfl hdiv
  rw [tayLoop_succ]
  have hbeq : (Flt.zero W false).beq ((Flt.zero W false).add (z.div (fromBigint W 1))) = true := by
    unfold Flt.beq
    have : (Flt.zero W false).cat = .zero := rfl
    rw [this]
    simp only [hsum]
    rfl
  rw [if_pos hbeq]
  exact hsum

/-- `sinStep4` of a zero is a zero -/
theorem sinStep4_zero_cat {lo : ℚ} (S : SCtx W lo) :
    ∀ (k : ℕ) (z : Flt), z.sem = W → z.cat = .zero → (sinStep4 k z).cat = .zero := by
  intro k
  induction k with
  | zero => intro z hs hz; exact sinTaylor_zero_cat S.wf S.rm hs hz
  | succ s ih =>
    intro z hs hz
    rw [sinStep4_succ, hs]
    have h3 := (three_nn S).normal_of_pos (by norm_num)
    have hx3 : (divWithRm z (fromU64 W 3) .none).cat = .zero := divWithRm_zero_cat _ hz h3
    have hx3s : (divWithRm z (fromU64 W 3) .none).sem = W := by rw [divWithRm_sem_tr, hs]
    have hsx := ih _ hx3s hx3
    have h1 := mulWithRm_zero_cat (b := fromU64 W 3) .none hsx (Or.inl h3)
    have h2 := powi3_zero_cat hsx
    have h2' : (((sinStep4 s (divWithRm z (fromU64 W 3) .none)).powi 3).scale 2 .none).cat = .zero := by
      rw [C10.scale_special _ _ _ (by rw [h2]; decide)]; exact h2
    exact subWithRm_zero_cat _ h1 h2'

end Arp.TrigErr
