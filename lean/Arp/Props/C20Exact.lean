import Arp.Lemmas.FracErr
/-!
# C20 — `as_fraction` computes the TRUE partial quotients

`asFraction_exact`: for a canonical finite non-zero `x` of a well-formed format in
nearest-even mode and `n ≥ 1`, if the exact continued fraction of `|x|` has at least `n + 2`
terms and the denominator `Q` of its `(n+2)`-term convergent satisfies `Q²·ulp(x) ≤ 2^-8`,
then `as_fraction(n)` returns the exact convergent `[a0; …, a(n−1)]` — in EVERY format.

The loop runs in the working format `wideSem x.sem` (`log2(p) + 2` more exponent bits), into
which the operand is cast exactly; there `Q ≤ 2^emax_wide` follows from the bound on `Q²·ulp`
(`den_le_pow_emax`), so no iterate overflows.  Before that repair the loop ran in the
operand's own format and the statement failed in formats with a tiny exponent range
(`(e, p) = (2, 16)`, `x = 59753·2^-15`, `n = 3`: the third iterate `4.66…` overflowed and the
result was `1/1` instead of `9/5`); the `example` at the end of this file records that the
repaired model returns `9/5` there.
-/
namespace Arp.C20
open Arp Arp.SpecRound

/-- the first computed partial quotient is always exact: `a0 = ⌊|x|⌋` -/
theorem asFraction_first_quotient_exact (x : Flt) (hF : x.sem.WF) (hx : x.cat = .normal)
    (hc : x.Canonical) (rm : RM) :
    fracQuot (Flt.one (wideSem x.sem) false) rm (x.cast (wideSem x.sem)) 0 = ⌊|x.val|⌋₊ := by
  have h := sgnN_of_normal hx hc
  obtain ⟨hy, hym⟩ := cast_wide_sgnN x hF hx hc
  rw [fracQuot_zero, trunc_quot (wideSem_WF hF) hy, hym, h.abs_val]

/-- hence `as_fraction(1)` (and `as_fraction(0)`) is always `(⌊|x|⌋, 1)` -/
theorem asFraction_one_exact (x : Flt) (hF : x.sem.WF) (hx : x.cat = .normal) (hc : x.Canonical) :
    x.asFraction 1 = (⌊|x.val|⌋₊, 1) := by
  rw [asFraction_convergent x 1 hx (le_refl _), fracLoop_eq]
  have : (List.range (max 1 2)).map
        (fracQuot (Flt.one (wideSem x.sem) false) x.sem.rm (x.cast (wideSem x.sem)))
      = fracQuot (Flt.one (wideSem x.sem) false) x.sem.rm (x.cast (wideSem x.sem)) 0
        :: (List.range 1).map (fracQuot (Flt.one (wideSem x.sem) false) x.sem.rm
            ((Flt.one (wideSem x.sem) false).div
              ((x.cast (wideSem x.sem)).sub (x.cast (wideSem x.sem)).trunc))) :=
    map_fracQuot_succ _ _ _ 1
  rw [this, asFraction_first_quotient_exact x hF hx hc]
  simp [stdConv, stdStep, stdInit]

/-- conditional one-step lemma: an iterate closer to the exact complete quotient `r` than `r`
    is to the two neighbouring integers yields the exact partial quotient `⌊r⌋` -/
theorem step_floor_eq {W : Sem} (hW : W.WF) {sg : Bool} {ρ : Flt} (h : SgnN W sg ρ) (r : ℚ)
    (hlo : |ρ.mag - r| ≤ r - (⌊r⌋₊ : ℚ)) (hhi : |ρ.mag - r| < (⌊r⌋₊ : ℚ) + 1 - r)
    (rm : RM) : fracQuot (Flt.one W false) rm ρ 0 = ⌊r⌋₊ := by
  rw [fracQuot_zero, trunc_quot hW h, Nat.floor_eq_iff h.mag_pos.le]
  have h1 := abs_le.mp hlo
  have h2 := abs_lt.mp hhi
  exact ⟨by linarith [h1.1], by linarith [h2.2]⟩

/-- … and then the next iterate is `1/(ρ − ⌊r⌋)` rounded once, with relative error `≤ 2^-p`
    (exact subtraction, one correctly rounded division), provided it does not overflow -/
theorem step_next_iterate {W : Sem} (hW : W.WF) (hrm : W.rm = .nte) {sg : Bool} {ρ : Flt}
    (h : SgnN W sg ρ) (a : Nat) (h1 : (a:ℚ) < ρ.mag) (h2 : ρ.mag < a + 1)
    (h3 : 1 / (ρ.mag - a) ≤ (2:ℚ) ^ W.emax) :
    SgnN W sg (fracReal (Flt.one W false) 1 ρ) ∧
      |(fracReal (Flt.one W false) 1 ρ).mag - 1 / (ρ.mag - a)|
        ≤ (2:ℚ) ^ (-(W.p:Int)) * (fracReal (Flt.one W false) 1 ρ).mag := by
  obtain ⟨-, hs, -, he⟩ := frac_step hW hrm h a h1 h2 h3
  exact ⟨hs, he⟩

/-- **the stated bound forces the true partial quotients**, provided no iterate overflows in
    the working format (`Q ≤ 2^emax_wide`; always true, see `den_le_pow_emax`) -/
theorem quotients_exact (x : Flt) (n : Nat) (hF : x.sem.WF) (hx : x.cat = .normal)
    (hc : x.Canonical) (hrm : x.sem.rm = .nte) (hn : 1 ≤ n)
    (hterms : (cfTerms |x.val| (n + 2)).length = n + 2)
    (hQ : ((stdConv (cfTerms |x.val| (n + 2))).2 : ℚ) ^ 2 * x.sem.ulp x.exp ≤ (2:ℚ) ^ (-8 : Int))
    (hrange : ((stdConv (cfTerms |x.val| (n + 2))).2 : ℚ) ≤ (2:ℚ) ^ (wideSem x.sem).emax) :
    (fracLoop (Flt.one (wideSem x.sem) false) x.sem.rm (max n 2) (x.cast (wideSem x.sem)) []).take n
      = cfTerms |x.val| n := by
  have h := sgnN_of_normal hx hc
  obtain ⟨hy, hym⟩ := cast_wide_sgnN x hF hx hc
  have hWw : (wideSem x.sem).WF := wideSem_WF hF
  have hrmw : (wideSem x.sem).rm = .nte := hrm
  rw [fracLoop_eq, List.reverse_nil, List.nil_append, ← List.map_take, List.take_range,
    Nat.min_eq_left (le_max_left n 2)]
  rw [h.abs_val, ← hym] at hterms hQ hrange ⊢
  simp only [stdConv] at hQ hrange
  set Ww := wideSem x.sem with hWwdef
  set y := x.cast Ww with hydef
  set u := (2:ℚ) ^ (-(Ww.p:Int)) with hu
  have hupos : 0 < u := by rw [hu]; positivity
  have hxu : y.mag * u < x.sem.ulp x.exp := by
    have := mag_mul_u_lt (W := x.sem) h
    rw [hym]; exact this
  have h2u : 1 ≤ y.mag → 2 * u ≤ x.sem.ulp x.exp := fun hb => by
    have := two_u_le_ulp (W := x.sem) hF h (hym ▸ hb)
    exact this
  obtain ⟨hf, hcons, hlen'⟩ := cfTerms_full y.mag n hterms
  obtain ⟨hf0, hf1, hr1⟩ := frac_facts y.mag hy.mag_pos.le hf
  by_cases hbig : 1 ≤ y.mag
  · -- |x| > 1 : the induction starts at the initial state
    have hgt : 1 < y.mag := by
      rcases lt_or_eq_of_le hbig with h' | h'
      · exact h'
      · exfalso; apply hf; rw [← h']; simp
    have hQpos : 1 ≤ ((cfTerms y.mag (n + 2)).foldl stdStep stdInit).2.1 :=
      foldl_den_pos stdInit (by decide) y.mag hbig (n + 1)
    have hQposq : (0:ℚ) < (((cfTerms y.mag (n + 2)).foldl stdStep stdInit).2.1 : ℚ) := by
      exact_mod_cast hQpos
    refine quot_agree hWw hrmw x.sign x.sem.rm n y y.mag stdInit hy hbig hgt hterms
      (by rw [detSt_init]; norm_num) (by decide) ?_ hrange
    rw [sub_self, abs_zero, zero_add]
    apply budget_ok hQposq hQ
    have hpot : pot ((stdStep stdInit ⌊y.mag⌋₊).2.1 : ℚ) ((stdStep stdInit ⌊y.mag⌋₊).2.2 : ℚ) = 2 := by
      simp only [stdStep, stdInit, pot]; norm_num
    rw [hpot]
    have := h2u hbig
    linarith
  · -- |x| < 1 : a0 = 0, one manual step, then the induction from the state after `0`
    have hlt : y.mag < 1 := not_le.mp hbig
    have hfl : ⌊y.mag⌋₊ = 0 := Nat.floor_eq_zero.mpr hlt
    rw [hfl] at hf hcons hlen' hr1
    simp only [Nat.cast_zero, sub_zero] at hf hcons hlen' hr1
    obtain ⟨m, rfl⟩ : ∃ m, n = m + 1 := ⟨n - 1, by omega⟩
    rw [map_fracQuot_succ, trunc_quot hWw hy, hfl, cfTerms_succ y.mag m (by rw [hfl]; simpa using hf), hfl]
    simp only [Nat.cast_zero, sub_zero]
    congr 1
    cases m with
    | zero => rfl
    | succ k =>
      set r1 := 1 / y.mag with hr1def
      set st1 := stdStep stdInit 0 with hst1
      have hst1v : st1 = ((0, 1), (1, 0)) := by decide
      have hlen3 : (cfTerms r1 (k + 3)).length = k + 3 := hlen'
      have hcons4 : cfTerms y.mag (k + 4) = 0 :: cfTerms r1 (k + 3) := hcons
      have hQeq : (cfTerms y.mag (k + 4)).foldl stdStep stdInit
          = (cfTerms r1 (k + 3)).foldl stdStep st1 := by
        rw [hcons4, List.foldl_cons]
      have hQ4 : (((cfTerms y.mag (k + 4)).foldl stdStep stdInit).2.1 : ℚ) ^ 2 * x.sem.ulp x.exp
          ≤ (2:ℚ) ^ (-8 : Int) := hQ
      have hrange4 : (((cfTerms y.mag (k + 4)).foldl stdStep stdInit).2.1 : ℚ)
          ≤ (2:ℚ) ^ Ww.emax := hrange
      rw [hQeq] at hQ4 hrange4
      have hq1nat : 1 ≤ st1.2.1 := by rw [hst1v]
      have hden := quot_succ_le_den st1 hq1nat r1 hr1 (k + 1) hlen3
      have hdenq : ((⌊r1⌋₊ : ℚ)) + 1 ≤ (((cfTerms r1 (k + 3)).foldl stdStep st1).2.1 : ℚ) := by
        exact_mod_cast hden
      have hQposq : (0:ℚ) < (((cfTerms r1 (k + 3)).foldl stdStep st1).2.1 : ℚ) := by
        have : (0:ℚ) ≤ (⌊r1⌋₊ : ℚ) := Nat.cast_nonneg _
        linarith
      have hr1hi : r1 < ⌊r1⌋₊ + 1 := Nat.lt_floor_add_one r1
      -- the float step
      obtain ⟨-, hρ', hρ'1, herr⟩ := frac_step hWw hrmw hy 0 (by simpa using hy.mag_pos)
        (by simpa using hlt) (by simp only [Nat.cast_zero, sub_zero]; rw [← hr1def]; linarith)
      simp only [Nat.cast_zero, sub_zero] at herr
      rw [← hr1def] at herr
      set ρ' := (Flt.one Ww false).div (y.sub y.trunc) with hρ'def
      have hdet1 : detSt st1 ^ 2 = 1 := by rw [hst1v]; decide
      refine quot_agree hWw hrmw x.sign x.sem.rm (k + 1) ρ' r1 st1 hρ' hρ'1 hr1 hlen3 hdet1
        (by rw [hst1v]; decide) ?_ hrange4
      apply budget_ok hQposq hQ4
      -- the perturbation caused by the first reciprocal: |1/ρ' − x| ≤ u·x
      have hρ'pos : 0 < ρ'.mag := by linarith
      have hr1pos : 0 < r1 := by linarith
      have hE1 : |mob st1 ρ'.mag - mob st1 r1| ≤ u * y.mag := by
        rw [mob_dist st1 hdet1 ρ'.mag r1 (by rw [hst1v]; simpa using hρ'pos)
          (by rw [hst1v]; simpa using hr1pos), hst1v]
        simp only [Nat.cast_one, Nat.cast_zero, one_mul, add_zero]
        rw [div_le_iff₀ (mul_pos hρ'pos hr1pos)]
        have e : u * y.mag * (ρ'.mag * r1) = u * ρ'.mag * (y.mag * r1) := by ring
        have e2 : y.mag * r1 = 1 := by rw [hr1def]; field_simp [ne_of_gt hy.mag_pos]
        rw [e, e2, mul_one]; exact herr
      -- the remaining budget: pot(a1, 1) ≤ 2·x
      have ha1 : 1 ≤ ⌊r1⌋₊ := Nat.floor_pos.mpr hr1.le
      have ha1q : (1:ℚ) ≤ (⌊r1⌋₊ : ℚ) := by exact_mod_cast ha1
      have hpot : pot ((stdStep st1 ⌊r1⌋₊).2.1 : ℚ) ((stdStep st1 ⌊r1⌋₊).2.2 : ℚ) ≤ 2 * y.mag := by
        rw [hst1v]
        simp only [stdStep, pot]
        push_cast
        simp only [mul_one, add_zero]
        have hx1 : 1 / ((⌊r1⌋₊ : ℚ) + 1) ≤ y.mag := by
          rw [div_le_iff₀ (by linarith)]
          have : y.mag * r1 = 1 := by rw [hr1def]; field_simp [ne_of_gt hy.mag_pos]
          have := mul_lt_mul_of_pos_left hr1hi hy.mag_pos
          linarith
        have hx2 : 1 / ((⌊r1⌋₊ : ℚ) * ((⌊r1⌋₊ : ℚ) + 1)) ≤ 1 / ((⌊r1⌋₊ : ℚ) + 1) := by
          apply one_div_le_one_div_of_le (by linarith)
          have := mul_le_mul_of_nonneg_right ha1q (show (0:ℚ) ≤ (⌊r1⌋₊ : ℚ) + 1 by linarith)
          linarith
        linarith
      have h3 : u * pot ((stdStep st1 ⌊r1⌋₊).2.1 : ℚ) ((stdStep st1 ⌊r1⌋₊).2.2 : ℚ)
          ≤ u * (2 * y.mag) := mul_le_mul_of_nonneg_left hpot hupos.le
      have e3 : u * y.mag = y.mag * u := mul_comm _ _
      have e4 : u * (2 * y.mag) = 2 * (y.mag * u) := by ring
      linarith

/-- **C20, exactness of the convergents, with the no-overflow condition explicit**: with the
    stated bound on `Q²·ulp(x)` and `Q ≤ 2^emax` in the working format, `as_fraction(n)`
    returns the exact convergent `[a0; a1, …, a(n−1)]` of `|x|`, in lowest terms.
    (`hrange` is redundant: `asFraction_exact`.) -/
theorem asFraction_exact_partial (x : Flt) (n : Nat) (hF : x.sem.WF) (hx : x.cat = .normal)
    (hc : x.Canonical) (hrm : x.sem.rm = .nte) (hn : 1 ≤ n)
    (hterms : (cfTerms |x.val| (n + 2)).length = n + 2)
    (hQ : ((stdConv (cfTerms |x.val| (n + 2))).2 : ℚ) ^ 2 * x.sem.ulp x.exp ≤ (2:ℚ) ^ (-8 : Int))
    (hrange : ((stdConv (cfTerms |x.val| (n + 2))).2 : ℚ) ≤ (2:ℚ) ^ (wideSem x.sem).emax) :
    x.asFraction n = stdConv (cfTerms |x.val| n) ∧
    Nat.Coprime (x.asFraction n).1 (x.asFraction n).2 ∧
    ((x.asFraction n).1 : ℚ) / ((x.asFraction n).2 : ℚ) = cfEval (cfTerms |x.val| n) :=
  asFraction_exact_of_quotients x n hx hn (quotients_exact x n hF hx hc hrm hn hterms hQ hrange)

/-- the bound on `Q²·ulp(x)` (ulp in the operand's own format) excludes overflow in the working
    format, whose exponent range satisfies `p + emax ≤ emax_wide` (`wide_emax_bound`) -/
theorem den_le_pow_emax (x : Flt) (hF : x.sem.WF) (hx : x.cat = .normal) (hc : x.Canonical)
    (Q : Nat) (hQ : (Q : ℚ) ^ 2 * x.sem.ulp x.exp ≤ (2:ℚ) ^ (-8 : Int)) :
    (Q : ℚ) ≤ (2:ℚ) ^ (wideSem x.sem).emax := by
  obtain ⟨he1, -, -, -, -⟩ := (Flt.canonical_normal hx).mp hc
  have hmono := x.sem.ulp_mono he1
  have hQ0 : (0:ℚ) ≤ (Q:ℚ) := Nat.cast_nonneg _
  have hupos := x.sem.ulp_pos x.sem.emin
  have h1 : (Q:ℚ) ^ 2 * x.sem.ulp x.sem.emin ≤ (2:ℚ) ^ (-8 : Int) :=
    le_trans (mul_le_mul_of_nonneg_left hmono (by positivity)) hQ
  have hemin : x.sem.emin = 1 - x.sem.emax := by
    rw [Sem.emax_eq (by have := hF.1; omega), Sem.emin_eq]; ring
  have hwide := wide_emax_bound hF
  have hemax := Sem.emax_pos hF
  have h2 : (Q:ℚ) ^ 2 ≤ (2:ℚ) ^ (-8 : Int) / x.sem.ulp x.sem.emin := by
    rw [le_div_iff₀ hupos]; exact h1
  have h3 : (2:ℚ) ^ (-8 : Int) / x.sem.ulp x.sem.emin ≤ ((2:ℚ) ^ (wideSem x.sem).emax) ^ 2 := by
    rw [Sem.ulp_def, ← zpow_sub₀ (by norm_num : (2:ℚ) ≠ 0), ← zpow_natCast, ← zpow_mul]
    apply zpow_le_zpow_right₀ (by norm_num)
    rw [hemin]; push_cast; omega
  have h4 : (Q:ℚ) ^ 2 ≤ ((2:ℚ) ^ (wideSem x.sem).emax) ^ 2 := le_trans h2 h3
  exact (pow_le_pow_iff_left₀ hQ0 (by positivity) (by norm_num)).mp h4

/-- **C20: `as_fraction(n)` returns the exact convergent** whenever the expansion of `|x|` has
    `n + 2` terms and `Q²·ulp(x) ≤ 2^-8` — for every well-formed format, normal and subnormal
    operands of either sign, nearest-even mode. -/
theorem asFraction_exact (x : Flt) (n : Nat) (hF : x.sem.WF) (hx : x.cat = .normal)
    (hc : x.Canonical) (hrm : x.sem.rm = .nte) (hn : 1 ≤ n)
    (hterms : (cfTerms |x.val| (n + 2)).length = n + 2)
    (hQ : ((stdConv (cfTerms |x.val| (n + 2))).2 : ℚ) ^ 2 * x.sem.ulp x.exp ≤ (2:ℚ) ^ (-8 : Int)) :
    x.asFraction n = stdConv (cfTerms |x.val| n) ∧
    Nat.Coprime (x.asFraction n).1 (x.asFraction n).2 ∧
    ((x.asFraction n).1 : ℚ) / ((x.asFraction n).2 : ℚ) = cfEval (cfTerms |x.val| n) :=
  asFraction_exact_partial x n hF hx hc hrm hn hterms hQ
    (den_le_pow_emax x hF hx hc _ hQ)

/-- `n = 0` behaves as `n = 1` -/
theorem asFraction_exact_zero (x : Flt) (hF : x.sem.WF) (hx : x.cat = .normal) (hc : x.Canonical) :
    x.asFraction 0 = (⌊|x.val|⌋₊, 1) := by
  rw [asFraction_n0, asFraction_one_exact x hF hx hc]

/-! ### the case that failed before the repair -/

/-- the format with 2 exponent bits and 16 significand bits (`emin = 0`, `emax = 1`, largest
    finite value just below 4) -/
def F2x16 : Sem := ⟨2, 16, .nte⟩

/-- `x = 59753/32768 = 1.82351…  = [1; 1, 4, 1, 1, …]` -/
def xCE : Flt := ⟨F2x16, false, 0, 59753, .normal⟩

/-- Remark about the OLD code (loop in the operand's own format): here the expansion
    `[1; 1, 4, 1, 1]` has `n + 2 = 5` terms, `Q = 11`, `Q²·ulp = 121/32768 ≤ 1/256`, yet the
    third iterate `1/0.2142… = 4.66…` overflowed (`emax = 1`) and the result was `1/1`.  The
    repaired model iterates in `wideSem F2x16` (7 exponent bits) and returns the exact
    convergent `9/5`: by evaluation … -/
example : xCE.asFraction 3 = (9, 5) := by decide +kernel

/-- The former counter-example, kept under its name (it is listed as an obligation) with its
    new content: the input lies in the stated domain (5 terms, `Q = 11`,
    `Q²·ulp = 121/32768 ≤ 2^-8`), `Q` exceeds `2^emax` of the operand's OWN format (which is
    why the old loop overflowed) — and the repaired model returns the exact convergent `9/5`. -/
theorem asFraction_exact_counterexample :
    xCE.sem.WF ∧ xCE.cat = .normal ∧ xCE.Canonical ∧ xCE.sem.rm = .nte ∧
    (cfTerms |xCE.val| (3 + 2)).length = 3 + 2 ∧
    ((stdConv (cfTerms |xCE.val| (3 + 2))).2 : ℚ) ^ 2 * xCE.sem.ulp xCE.exp ≤ (2:ℚ) ^ (-8 : Int) ∧
    ¬ ((stdConv (cfTerms |xCE.val| (3 + 2))).2 : ℚ) ≤ (2:ℚ) ^ xCE.sem.emax ∧
    stdConv (cfTerms |xCE.val| 3) = (9, 5) ∧ xCE.asFraction 3 = (9, 5) := by
  have hterms : cfTerms |xCE.val| (3 + 2) = [1, 1, 4, 1, 1] := by decide +kernel
  have h3 : cfTerms |xCE.val| 3 = [1, 1, 4] := by decide +kernel
  refine ⟨by decide, rfl, by decide, rfl, by rw [hterms]; rfl, ?_, ?_, by rw [h3]; decide,
    by decide +kernel⟩
  · rw [hterms, show stdConv [1, 1, 4, 1, 1] = (20, 11) by decide, Sem.ulp_def]
    norm_num [xCE, F2x16]
  · rw [hterms, show stdConv [1, 1, 4, 1, 1] = (20, 11) by decide]
    norm_num [xCE, F2x16, Sem.emax, Sem.bias]

/-- … and as an instance of `asFraction_exact` -/
example : xCE.asFraction 3 = (9, 5) := by
  have hterms : cfTerms |xCE.val| (3 + 2) = [1, 1, 4, 1, 1] := by decide +kernel
  have h3 : cfTerms |xCE.val| 3 = [1, 1, 4] := by decide +kernel
  have h := asFraction_exact xCE 3 (by decide) rfl (by decide) rfl (by decide)
    (by rw [hterms]; rfl)
    (by rw [hterms, show stdConv [1, 1, 4, 1, 1] = (20, 11) by decide, Sem.ulp_def]
        norm_num [xCE, F2x16])
  rw [h3, show stdConv [1, 1, 4] = (9, 5) by decide] at h
  exact h.1

/-! ### a concrete instance: `π` in FP32, `n = 2` -/

/-- FP32 `π = 13176795·2^-22 = [3; 7, 15, 1, …]` -/
def piF32 : Flt := ⟨FP32, false, 1, 13176795, .normal⟩

example : piF32.asFraction 2 = (22, 7) ∧ Nat.Coprime 22 7 := by
  have hterms : cfTerms |piF32.val| (2 + 2) = [3, 7, 15, 1] := by decide +kernel
  have h2 : cfTerms |piF32.val| 2 = [3, 7] := by decide +kernel
  have h := asFraction_exact piF32 2 (by decide) rfl (by decide) rfl (by decide)
    (by rw [hterms]; rfl)
    (by rw [hterms, show stdConv [3, 7, 15, 1] = (355, 113) by decide, Sem.ulp_def]
        norm_num [piF32, FP32])
  rw [h2, show stdConv [3, 7] = (22, 7) by decide] at h
  exact ⟨h.1, by decide⟩

/-- the same by evaluation of the model; the sign is discarded -/
example : piF32.asFraction 2 = (22, 7) := by decide +kernel
example : piF32.neg.asFraction 2 = (22, 7) := by decide +kernel
example : piF32.asFraction 3 = (333, 106) := by decide +kernel

/-- a negative operand, through the theorem: `−π` in FP32, `n = 2` -/
example : piF32.neg.asFraction 2 = (22, 7) := by
  have hterms : cfTerms |piF32.neg.val| (2 + 2) = [3, 7, 15, 1] := by decide +kernel
  have h2 : cfTerms |piF32.neg.val| 2 = [3, 7] := by decide +kernel
  have h := asFraction_exact piF32.neg 2 (by decide) rfl (by decide) rfl (by decide)
    (by rw [hterms]; rfl)
    (by rw [hterms, show stdConv [3, 7, 15, 1] = (355, 113) by decide, Sem.ulp_def]
        norm_num [piF32, Flt.neg, FP32])
  rw [h2, show stdConv [3, 7] = (22, 7) by decide] at h
  exact h.1

-- Nothing of C20 is left unproved for nearest-even mode: the stated implication holds for
-- every well-formed format since `as_fraction` iterates in the working format `wideSem`.

end Arp.C20
