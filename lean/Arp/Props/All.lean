import Arp.Props.C01
import Arp.Props.C04
import Arp.Props.C05
import Arp.Props.C06
import Arp.Props.C08Load
import Arp.Props.C10Scale
