import Arp.Lemmas.PowErr
import Arp.Props.C16Exp
import Arp.Props.C16Log
import Arp.Props.C18
import Mathlib.Analysis.SpecialFunctions.Pow.Real
/-!
# C18 — accuracy of `Float::pow` against `x^y`

Property clause: *"For finite x > 0 and finite y with |y ln x| ≤ 512, in nearest modes and formats
whose precision does not exceed their exponent range, pow(x, y) is within one ulp of x^y (infinity or
zero only at or beyond the finite range); pow(x, ±0) = +1, pow(1, y) = 1"* (the identities:
`Arp.C18.pow_zero_exp`, `pow_one_base` in `Arp/Props/C18.lean`).

`Flt.powFuel` (functions.rs): `W = (F.growLog 10).increaseExponent 10` (`p_W = p + 10 + bitlen p ≥ p + 14`,
`E_W = E + 10`); `l = log(x cast to W)`, `t = (y cast to W)·l`, `r = exp t`, result `r cast to F`.

Main results (all for `x.sem.rm ∈ {nte, nta}`, `8 ≤ p ≤ 2^(E-1) - 2`, `p < 2^31`, canonical finite
`x > 0`, canonical finite `y`, `|y·ln x| ≤ 512`, fuel `≥ E + 23`, and the side condition `hinner` of
`log_accuracy` for `W`, i.e. `2^(E+9) + 3·p_W + 32 ≤ innerFuel`, true for `E ≤ 12`):

* `pow_accuracy` — the complete clause for `x ≠ 1`, `y ≠ 0`: `+∞` only if `x^y > maxFinite·(1 - 2^-p)`
  (always if `x^y ≥ 2^(emax+1)`), `+0` only if `x^y < 2^(emin-p+1)`, otherwise finite, non-zero and
  within `11/16` ulp (hence one ulp) of `x^y = Real.rpow x y` (`WithinUlps`).
* `pow_accuracy_normal` — for `2^emin ≤ x^y ≤ maxFinite·(1 - 2^-p)`: a positive normal number with
  `|r - x^y| ≤ 11/16·ulpAt (max x^y r) ≤ ulpAt (max x^y r)`.
* `pow_all` (`RoundSpec` with the constant `3/16`, `x^y` written `exp (y·ln x)`), `pow_finite_all`
  (`x = 1` and `y = ±0` included), `PowAcc.pow_core` (the value before the final cast).

Error budget.  `l = ln x·(1 ± 4w)`, `w = 2^-p_W` (`log_accuracy` at `W`: two ulps of the binade of
`ln x`); `t = y·l·(1 ± w)` (one nearest rounding in `W`), so `|t - y ln x| ≤ 512·(4 + 1 + 4w)·w ≤ 2561·w
≤ 0.1564·2^-p`; hence `e^t = x^y·(1 ± 41/256·2^-p)`; `exp t` in `W` (`exp_accuracy_binade`: 33/64 ulp_W)
adds a relative `5/2·w ≤ 2^-p/256`: `r = x^y·(1 ± 3/16·2^-p)`, and the final nearest rounding adds half
an ulp: `1/2 + 3/16 = 11/16` ulp.  (`Arp.ExpErr.final_round_gen` asks for a relative error `≤ 2^-p/8`
before the rounding; `Arp.PowErr.final_round_quarter` is the same statement for `≤ 2^-p/4`.)
Numerics (compiled model against mpmath, `E ∈ {5,6,8,11,12}`, `p ∈ 8..33`, both nearest modes, 8·10^4
operand pairs, half of them with `|y ln x|` within `2^-12..2^-1` relative of `512`): worst error
`0.5503` ulp, no counter-example.
-/

namespace Arp.C18.PowAcc
open Arp Arp.SpecRound Arp.Sqrt Arp.RelErr Arp.ExpErr Arp.LogErr Arp.PowErr Arp.C16 Arp.C16.ExpAcc

/-! ### the main branch of `pow` -/

theorem beq_one_false {x : Flt} (hF : x.sem.WF) (hx1 : x.val ≠ 1) :
    x.beq (Flt.one x.sem false) = false := by
  rw [← Bool.not_eq_true, C18.beq_one_iff]
  intro h
  apply hx1
  rw [h, Flt.val_normal rfl]
  simp only [Flt.one, Bool.false_eq_true, if_false]
  have := C16.one_mag x.sem false (by have := hF.2; omega)
  simp only [Flt.one] at this
  exact this

theorem powFuel_main (x y : Flt) (fuel : ℕ) (hxn : x.cat = .normal) (hxs : x.sign = false)
    (hyn : y.cat = .normal) (hb : x.beq (Flt.one x.sem false) = false) {l : Flt}
    (hl : (x.cast (logW x.sem)).logFuel fuel = some l) :
    x.powFuel fuel y = (((y.cast (logW x.sem)).mul l).expFuel fuel).map (·.cast x.sem) := by
  unfold Flt.powFuel
  simp only [hb, Flt.isInf, Flt.isNan, Flt.isZero, hyn, hxn, hxs]
  have hl' : (x.cast ((x.sem.growLog 10).increaseExponent 10)).logFuel fuel = some l := hl
  simp [hl']
  rfl

/-! ### step 1: the logarithm in the working format -/

/-- the working format `W` of `pow` inherits the side conditions of `log_accuracy` -/
theorem logW_side {F : Sem} (hF : F.WF) (hp : 8 ≤ F.p) (hdom : F.p ≤ 2 ^ (F.e - 1) - 2)
    (hp64 : F.p < 2 ^ 31) :
    8 ≤ (logW F).p ∧ (logW F).p ≤ 2 ^ ((logW F).e - 1) - 2 ∧ (logW F).p < 2 ^ 32 ∧
      F.p + 14 ≤ (logW F).p := by
  obtain ⟨l1, l2, l3, l4⟩ := ExpErr.logPrecision_facts hp
  have he : 2 ≤ F.e := hF.1
  have hl31 : F.logPrecision ≤ 31 := by
    have hp0 : F.p ≠ 0 := by omega
    have hL : F.logPrecision = F.p.log2 + 1 := by unfold Sem.logPrecision; rw [if_neg hp0]
    have := (Nat.log2_lt hp0).mpr hp64
    omega
  have hWe : (logW F).e - 1 = (F.e - 1) + 10 := by rw [logW_e]; omega
  rw [hWe, pow_add, logW_p]
  have : (2:ℕ) ^ 10 = 1024 := by norm_num
  rw [this]
  generalize 2 ^ (F.e - 1) = t at *
  omega

theorem pow_log_step (x : Flt) (hF : x.sem.WF) (hp : 8 ≤ x.sem.p)
    (hdom : x.sem.p ≤ 2 ^ (x.sem.e - 1) - 2) (hp64 : x.sem.p < 2 ^ 31)
    (hinner : 2 ^ (x.sem.e + 9) + 3 * (x.sem.p + 10 + x.sem.logPrecision) + 32 ≤ innerFuel)
    (hxc : x.Canonical) (hxn : x.cat = .normal) (hxs : x.sign = false) (hx1 : x.val ≠ 1)
    (fuel : ℕ) (hfuel : x.sem.e + 23 ≤ fuel) :
    ∃ l, (x.cast (logW x.sem)).logFuel fuel = some l ∧ l.cat = .normal ∧ l.Canonical ∧
      l.sem = logW x.sem ∧
      |((l.val : ℚ) : ℝ) - Real.log ((x.val : ℚ) : ℝ)| ≤
        4 * (2:ℝ) ^ (-((logW x.sem).p : ℤ)) * |Real.log ((x.val : ℚ) : ℝ)| ∧
      (2:ℝ) ^ (-(x.sem.p : ℤ) - 1) ≤ |Real.log ((x.val : ℚ) : ℝ)| := by
  obtain ⟨s1, s2, s3, s4⟩ := logW_side hF hp hdom hp64
  set W := logW x.sem with hWdef
  have hW : W.WF := logW_WF hF
  obtain ⟨a1, a2, a3, a4, a5⟩ := C06.widen_lossless_normal x W x.sem.rm
    (by rw [hWdef, logW_e]; omega) (by omega) hF hW hxn hxc
  have hcast : x.cast W = x.castWithRm W x.sem.rm := rfl
  set xW := x.cast W with hxW
  rw [← hcast] at a1 a2 a3 a4 a5
  have hxv : x.val = x.mag := by rw [Flt.val_normal hxn, hxs]; simp
  have hval : xW.val = x.val := by
    rw [Flt.val_normal a2, a4, hxs, hxv, a5]; simp
  have hWe1 : W.e - 1 = x.sem.e + 9 := by rw [hWdef, logW_e]; omega
  obtain ⟨l, h1, h2, h3, h4, _, h6⟩ := log_accuracy xW (by rw [a1]; exact hW) (by rw [a1]; exact s1)
    (by rw [a1]; exact s2) (by rw [a1]; exact s3)
    (by rw [a1, hWe1]; exact hinner) a3 a2 (by rw [a4, hxs]) (by rw [hval]; exact hx1) fuel
    (by rw [a1, hWdef, logW_e]; omega)
  rw [hval, a1] at h6
  rw [a1] at h4
  -- the size of `ln x`
  have hemin : x.sem.emin ≤ -1 := by
    rw [Sem.emin_eq]
    have : 10 ≤ 2 ^ (x.sem.e - 1) := by omega
    omega
  have hX0 : 0 < x.mag := Flt.mag_pos x hxn hxc
  have hlo := log_lower hF hemin (SV.of_canonical rfl hxn hxc hxs rfl) hX0 (by rw [← hxv]; exact hx1)
  rw [← hxv] at hlo
  push_cast at hlo
  set L := Real.log ((x.val : ℚ) : ℝ) with hL
  have hL0 : 0 < |L| := lt_of_lt_of_le (by positivity) hlo
  refine ⟨l, h1, h2, h3, h4, ?_, hlo⟩
  -- the binade of `ln x`
  set k := Int.log 2 |L| with hk
  have hk1 : (2:ℝ) ^ k ≤ |L| := by
    have := Int.zpow_log_le_self (b := 2) (by norm_num) hL0
    rwa [Nat.cast_ofNat] at this
  have hk2 : |L| < (2:ℝ) ^ (k + 1) := by
    have := Int.lt_zpow_succ_log_self (b := 2) (by norm_num) |L|
    rwa [Nat.cast_ofNat] at this
  have hWemin : W.emin ≤ -(x.sem.p : ℤ) - 1 := by
    rw [Sem.emin_eq, hWe1]
    have h1 : x.sem.e + 9 = (x.sem.e - 1) + 10 := by have := hF.1; omega
    rw [h1, pow_add]
    have : (2:ℕ) ^ 10 = 1024 := by norm_num
    rw [this]
    push_cast
    have : x.sem.p + 2 ≤ 2 ^ (x.sem.e - 1) := by omega
    have h2 : ((x.sem.p + 2 : ℕ) : ℤ) ≤ ((2 ^ (x.sem.e - 1) : ℕ) : ℤ) := Nat.cast_le.mpr this
    push_cast at h2
    linarith
  have hkW : W.emin ≤ k := by
    have h1 : (2:ℝ) ^ W.emin < (2:ℝ) ^ (k + 1) := by
      have : (2:ℝ) ^ W.emin ≤ (2:ℝ) ^ (-(x.sem.p : ℤ) - 1) :=
        zpow_le_zpow_right₀ (by norm_num) hWemin
      linarith
    have := (zpow_lt_zpow_iff_right₀ (by norm_num : (1:ℝ) < 2)).mp h1
    omega
  have h := h6 k hk2
  rw [ulpAt_normal _ hkW] at h
  push_cast at h
  have e : (2:ℝ) * (2:ℝ) ^ (k - ((W.p : ℤ) - 1)) = 4 * (2:ℝ) ^ (-(W.p : ℤ)) * (2:ℝ) ^ k := by
    rw [show k - ((W.p : ℤ) - 1) = -(W.p : ℤ) + k + 1 by ring, zpow_add_one₀ (by norm_num),
      zpow_add₀ (by norm_num : (2:ℝ) ≠ 0)]
    ring
  rw [e] at h
  have : 4 * (2:ℝ) ^ (-(W.p : ℤ)) * (2:ℝ) ^ k ≤ 4 * (2:ℝ) ^ (-(W.p : ℤ)) * |L| :=
    mul_le_mul_of_nonneg_left hk1 (by positivity)
  linarith

theorem abs_val_eq_mag {a : Flt} (han : a.cat = .normal) : |a.val| = a.mag := by
  rw [Flt.val_normal han]
  have := Flt.mag_nonneg a
  cases a.sign
  · simp only [Bool.false_eq_true, if_false]; exact abs_of_nonneg this
  · simp only [if_true]; rw [abs_neg]; exact abs_of_nonneg this

/-! ### step 2: the product `y · log x` in the working format -/

theorem pow_mul_step {F : Sem} (hF : F.WF) (hp : 8 ≤ F.p) (hdom : F.p ≤ 2 ^ (F.e - 1) - 2)
    (hp64 : F.p < 2 ^ 31) (hrm : F.rm = .nte ∨ F.rm = .nta) (y l : Flt) (hy : y.sem = F)
    (hyc : y.Canonical) (hyn : y.cat = .normal) (hls : l.sem = logW F) (hlc : l.Canonical)
    (hln : l.cat = .normal) {L : ℝ}
    (hl : |((l.val : ℚ) : ℝ) - L| ≤ 4 * (2:ℝ) ^ (-((logW F).p : ℤ)) * |L|)
    (hLlo : (2:ℝ) ^ (-(F.p : ℤ) - 1) ≤ |L|) (hYL : |((y.val : ℚ) : ℝ) * L| ≤ 512) :
    ((y.cast (logW F)).mul l).sem = logW F ∧ ((y.cast (logW F)).mul l).Canonical ∧
      ((y.cast (logW F)).mul l).cat = .normal ∧
      |((((y.cast (logW F)).mul l).val : ℚ) : ℝ) - ((y.val : ℚ) : ℝ) * L| ≤
        2561 * (2:ℝ) ^ (-((logW F).p : ℤ)) ∧
      |((y.cast (logW F)).mul l).val| ≤ 1024 := by
  obtain ⟨s1, s2, s3, s4⟩ := logW_side hF hp hdom hp64
  set W := logW F with hWdef
  have hW : W.WF := logW_WF hF
  have hWrm : W.rm = .nte ∨ W.rm = .nta := hrm
  have he2 : 2 ≤ F.e := hF.1
  obtain ⟨b1, b2, b3, b4, b5⟩ := C06.widen_lossless_normal y W y.sem.rm
    (by rw [hy, hWdef, logW_e]; omega) (by rw [hy]; omega) (by rw [hy]; exact hF) hW hyn hyc
  have hcast : y.cast W = y.castWithRm W y.sem.rm := rfl
  rw [← hcast] at b1 b2 b3 b4 b5
  set yW := y.cast W with hyW
  have hyval : yW.val = y.val := by
    rw [Flt.val_normal b2, Flt.val_normal hyn, b4, b5]
  -- the real quantities
  set w : ℝ := (2:ℝ) ^ (-(W.p : ℤ)) with hw
  have hw0 : 0 < w := by positivity
  have hw1 : w ≤ 1 / 16384 := by
    calc w ≤ (2:ℝ) ^ (-14:ℤ) := zpow_le_zpow_right₀ (by norm_num) (by omega)
      _ = 1 / 16384 := by norm_num
  set Y : ℝ := ((y.val : ℚ) : ℝ) with hY
  set ℓ : ℝ := ((l.val : ℚ) : ℝ) with hℓ
  obtain ⟨p1, p2⟩ := pow_prod_bound (le_of_lt hw0) hw1 hl hYL
  -- the exact product is in the range of `W`
  have hq : ((yW.mag * l.mag : ℚ) : ℝ) = |Y| * |ℓ| := by
    rw [b5, ← abs_val_eq_mag hyn, ← abs_val_eq_mag hln]; push_cast; rfl
  have hpowt : 10 ≤ 2 ^ (F.e - 1) := by omega
  have hpwW : 2 ^ (W.e - 1) = 2 ^ (F.e - 1) * 1024 := by
    rw [show W.e - 1 = (F.e - 1) + 10 by rw [hWdef, logW_e]; omega, pow_add]; norm_num
  have hWemax : W.emax = ((2 ^ (F.e - 1) * 1024 : ℕ) : ℤ) - 1 := by
    rw [Sem.emax_eq (by rw [hWdef, logW_e]; omega), hpwW]
  have hWemin : W.emin = 2 - ((2 ^ (F.e - 1) * 1024 : ℕ) : ℤ) := by rw [Sem.emin_eq, hpwW]
  have hr : InRange W (yW.mag * l.mag) := by
    constructor
    · -- lower end
      have hYlo : (2:ℝ) ^ (-((2 ^ (F.e - 1) + F.p : ℕ) : ℤ)) ≤ |Y| := by
        have h1 := mag_lower hyc hyn
        rw [hy, ← abs_val_eq_mag hyn] at h1
        have h2 : (((2:ℚ) ^ (-((2 ^ (F.e - 1) + F.p : ℕ) : ℤ)) : ℚ) : ℝ) ≤ ((|y.val| : ℚ) : ℝ) :=
          Rat.cast_le.mpr h1
        push_cast at h2 ⊢; exact h2
      have hℓlo : (2:ℝ) ^ (-(F.p : ℤ) - 2) ≤ |ℓ| := by
        have e : (2:ℝ) ^ (-(F.p : ℤ) - 1) = 2 * (2:ℝ) ^ (-(F.p : ℤ) - 2) := by
          rw [show -(F.p:ℤ) - 1 = (-(F.p:ℤ) - 2) + 1 by ring, zpow_add_one₀ (by norm_num)]; ring
        rw [e] at hLlo
        linarith
      have h1 : (2:ℝ) ^ W.emin ≤
          (2:ℝ) ^ (-((2 ^ (F.e - 1) + F.p : ℕ) : ℤ)) * (2:ℝ) ^ (-(F.p : ℤ) - 2) := by
        rw [← zpow_add₀ (by norm_num : (2:ℝ) ≠ 0)]
        apply zpow_le_zpow_right₀ (by norm_num)
        rw [hWemin]; push_cast
        have : ((F.p + 2 : ℕ) : ℤ) ≤ ((2 ^ (F.e - 1) : ℕ) : ℤ) := Nat.cast_le.mpr (by omega)
        push_cast at this
        linarith
      have h2 : (2:ℝ) ^ (-((2 ^ (F.e - 1) + F.p : ℕ) : ℤ)) * (2:ℝ) ^ (-(F.p : ℤ) - 2) ≤ |Y| * |ℓ| :=
        mul_le_mul hYlo hℓlo (by positivity) (abs_nonneg _)
      have h3 : (((2:ℚ) ^ W.emin : ℚ) : ℝ) ≤ ((yW.mag * l.mag : ℚ) : ℝ) := by
        rw [hq]; push_cast; linarith
      exact Rat.cast_le.mp h3
    · have h1 : ((yW.mag * l.mag : ℚ) : ℝ) ≤ 513 := by rw [hq, ← abs_mul]; exact p1
      have h2 : yW.mag * l.mag ≤ 513 := by
        have : ((yW.mag * l.mag : ℚ) : ℝ) ≤ ((513 : ℚ) : ℝ) := by
          rw [show ((513 : ℚ) : ℝ) = 513 by norm_num]; exact h1
        exact Rat.cast_le.mp this
      have h3 := pow_emax_le_maxFinite (F := W) (by omega)
      have h4 : (2:ℚ) ^ (10:ℤ) ≤ (2:ℚ) ^ W.emax :=
        zpow_le_zpow_right₀ (by norm_num) (by
          rw [hWemax]
          have : ((10 : ℕ) : ℤ) ≤ ((2 ^ (F.e - 1) : ℕ) : ℤ) := Nat.cast_le.mpr hpowt
          push_cast at this ⊢
          linarith)
      norm_num at h4
      linarith
  obtain ⟨m1, m2, m3, m4⟩ := mul_signed_op hW hWrm b1 hls b3 hlc b2 hln hr
  rw [hyval] at m4
  have hT : |((((yW.mul l).val : ℚ)) : ℝ) - Y * ℓ| ≤ w * |Y * ℓ| := by
    have : ((|(yW.mul l).val - y.val * l.val| : ℚ) : ℝ) ≤ ((u W / 2 * |y.val * l.val| : ℚ) : ℝ) :=
      Rat.cast_le.mpr m4
    have hu : ((u W / 2 : ℚ) : ℝ) = w := by
      unfold u
      rw [hw, show (1:ℤ) - (W.p:ℤ) = -(W.p:ℤ) + 1 by ring, zpow_add_one₀ (by norm_num)]
      push_cast; ring
    rw [Rat.cast_mul, hu] at this
    push_cast at this
    exact this
  obtain ⟨_, q2, q3⟩ := pow_arg_budget (le_of_lt hw0) hw1 hl hT hYL
  refine ⟨m1, m2, m3, q2, ?_⟩
  have : ((|(yW.mul l).val| : ℚ) : ℝ) ≤ ((1024 : ℚ) : ℝ) := by push_cast; exact q3
  exact Rat.cast_le.mp this

/-! ### step 3: the exponential in the working format -/

/-- `exp` of a finite non-zero `|t| ≤ 1024` in a format with at least 15 exponent bits: a positive
    normal number within `5/4·2^-p` (relative to the larger of the two) of `e^t` -/
theorem pow_exp_step (t : Flt) (hW : t.sem.WF) (hp : 8 ≤ t.sem.p)
    (hdom : t.sem.p ≤ 2 ^ (t.sem.e - 1) - 2) (hrm : t.sem.rm = .nte ∨ t.sem.rm = .nta)
    (he : 15 ≤ t.sem.e) (hc : t.Canonical) (hn : t.cat = .normal) (hx : |t.val| ≤ 1024)
    (fuel : ℕ) (hfuel : 5 ≤ fuel) :
    ∃ r, t.expFuel fuel = some r ∧ PosN t.sem r ∧
      |((r.mag : ℚ) : ℝ) - Real.exp ((t.val : ℚ) : ℝ)| ≤
        5 / 4 * (2:ℝ) ^ (-(t.sem.p : ℤ)) * max (Real.exp ((t.val : ℚ) : ℝ)) ((r.mag : ℚ) : ℝ) := by
  set W := t.sem with hWdef
  have hxm : t.mag ≤ 1024 := by rw [← abs_val_eq_mag hn]; exact hx
  have h10 := exp_le_ten hW hc hn hxm
  have hfuel' : C19.redBound t.exp + 1 ≤ fuel := by
    have := C19.redBound_mono h10
    have e : C19.redBound 10 = 4 := by decide
    omega
  -- the exponent range of `W`
  have hpow : 2 ^ 14 ≤ 2 ^ (W.e - 1) := Nat.pow_le_pow_right (by norm_num) (by omega)
  have hemax : (16383:ℤ) ≤ W.emax := by
    rw [Sem.emax_eq (by omega)]
    have : ((2 ^ 14 : ℕ) : ℤ) ≤ ((2 ^ (W.e - 1) : ℕ) : ℤ) := Nat.cast_le.mpr hpow
    push_cast at this ⊢
    linarith
  have hemin : W.emin ≤ -16382 := by
    rw [Sem.emin_eq]
    have : ((2 ^ 14 : ℕ) : ℤ) ≤ ((2 ^ (W.e - 1) : ℕ) : ℤ) := Nat.cast_le.mpr hpow
    push_cast at this ⊢
    linarith
  -- the size of `e^t`
  set T : ℝ := ((t.val : ℚ) : ℝ) with hT
  have hTabs : |T| ≤ 1024 := by
    have : ((|t.val| : ℚ) : ℝ) ≤ ((1024 : ℚ) : ℝ) := Rat.cast_le.mpr hx
    push_cast at this; exact this
  obtain ⟨hT1, hT2⟩ := abs_le.mp hTabs
  have hEhi : Real.exp T ≤ (2:ℝ) ^ (2048:ℤ) := exp_le_two_pow hT2
  have hElo : (2:ℝ) ^ (-2048:ℤ) ≤ Real.exp T := by
    have h1 : Real.exp (-T) ≤ (2:ℝ) ^ (2048:ℤ) := exp_le_two_pow (by linarith)
    rw [Real.exp_neg] at h1
    have hpos := Real.exp_pos T
    rw [zpow_neg, inv_le_comm₀ (by positivity) hpos]
    exact h1
  have hEmin : (2:ℝ) ^ W.emin ≤ Real.exp T :=
    le_trans (zpow_le_zpow_right₀ (by norm_num) (by omega)) hElo
  have hrange : (2:ℝ) ^ (W.emin - ((W.p:ℤ) - 1)) ≤ Real.exp T ∧
      Real.exp T ≤ ((maxFinite W : ℚ) : ℝ) * (1 - (2:ℝ) ^ (-(W.p:ℤ))) := by
    refine ⟨le_trans (exp_smallest_subnormal_le W hW) hEmin, ?_⟩
    have h1 : (2:ℝ) ^ W.emax ≤ ((maxFinite W : ℚ) : ℝ) := by
      have := pow_emax_le_maxFinite (F := W) (by omega)
      have h2 : (((2:ℚ) ^ W.emax : ℚ) : ℝ) ≤ ((maxFinite W : ℚ) : ℝ) := Rat.cast_le.mpr this
      push_cast at h2; exact h2
    have h2 : (2:ℝ) ^ (-(W.p:ℤ)) ≤ 1 / 2 := by
      calc (2:ℝ) ^ (-(W.p:ℤ)) ≤ (2:ℝ) ^ (-1:ℤ) := zpow_le_zpow_right₀ (by norm_num) (by omega)
        _ = 1 / 2 := by norm_num
    have h3 : (2:ℝ) ^ (2048:ℤ) ≤ (2:ℝ) ^ (W.emax - 1) :=
      zpow_le_zpow_right₀ (by norm_num) (by omega)
    have h4 : (2:ℝ) ^ (W.emax - 1) = (2:ℝ) ^ W.emax * (1 / 2) := by
      rw [zpow_sub_one₀ (by norm_num)]; ring
    have h5 : (2:ℝ) ^ W.emax * (1 / 2) ≤ ((maxFinite W : ℚ) : ℝ) * (1 - (2:ℝ) ^ (-(W.p:ℤ))) :=
      mul_le_mul h1 (by linarith) (by norm_num) (le_trans (by positivity) h1)
    linarith
  obtain ⟨r, h1, h2, h3, _⟩ := exp_accuracy_binade t hW hp hdom hrm hc hn hx hrange fuel hfuel'
  refine ⟨r, h1, h2, ?_⟩
  have h4 := h3.at_max (by rw [h2.sem]; exact hEmin)
  rw [h2.sem, posN_val h2] at h4
  set M := max (Real.exp T) ((r.mag : ℚ) : ℝ) with hM
  have hM0 : 0 < M := lt_of_lt_of_le (Real.exp_pos T) (le_max_left _ _)
  have hlog : (2:ℝ) ^ (Int.log 2 M) ≤ M := by
    have := Int.zpow_log_le_self (b := 2) (by norm_num) hM0
    rwa [Nat.cast_ofNat] at this
  have e : C16.ulpAt W M = 2 * (2:ℝ) ^ (-(W.p:ℤ)) * (2:ℝ) ^ (Int.log 2 M) := by
    unfold C16.ulpAt
    rw [show Int.log 2 M - ((W.p:ℤ) - 1) = -(W.p:ℤ) + Int.log 2 M + 1 by ring,
      zpow_add_one₀ (by norm_num), zpow_add₀ (by norm_num : (2:ℝ) ≠ 0)]
    ring
  rw [e] at h4
  have hwpos : (0:ℝ) < (2:ℝ) ^ (-(W.p:ℤ)) := by positivity
  have : 2 * (2:ℝ) ^ (-(W.p:ℤ)) * (2:ℝ) ^ (Int.log 2 M) ≤ 2 * (2:ℝ) ^ (-(W.p:ℤ)) * M :=
    mul_le_mul_of_nonneg_left hlog (by positivity)
  nlinarith

/-! ### the three steps together -/

/-- **`pow` before the final cast**: `pow(x, y) = r.cast F` for a positive normal value `r` of the
    working format with `|r - x^y| ≤ 3/16·2^-p·x^y` -/
theorem pow_core (x y : Flt) (hF : x.sem.WF) (hy : y.sem = x.sem) (hp : 8 ≤ x.sem.p)
    (hdom : x.sem.p ≤ 2 ^ (x.sem.e - 1) - 2) (hp64 : x.sem.p < 2 ^ 31)
    (hrm : x.sem.rm = .nte ∨ x.sem.rm = .nta) (hxc : x.Canonical) (hyc : y.Canonical)
    (hxn : x.cat = .normal) (hxs : x.sign = false) (hyn : y.cat = .normal) (hx1 : x.val ≠ 1)
    (hdomain : |((y.val : ℚ) : ℝ) * Real.log ((x.val : ℚ) : ℝ)| ≤ 512)
    (hinner : 2 ^ (x.sem.e + 9) + 3 * (x.sem.p + 10 + x.sem.logPrecision) + 32 ≤ innerFuel)
    (fuel : ℕ) (hfuel : x.sem.e + 23 ≤ fuel) :
    ∃ r, x.powFuel fuel y = some (r.cast x.sem) ∧ PosN (logW x.sem) r ∧
      |((r.mag : ℚ) : ℝ) - Real.exp (((y.val : ℚ) : ℝ) * Real.log ((x.val : ℚ) : ℝ))| ≤
        3 / 16 * (2:ℝ) ^ (-(x.sem.p : ℤ)) *
          Real.exp (((y.val : ℚ) : ℝ) * Real.log ((x.val : ℚ) : ℝ)) := by
  obtain ⟨l, hl1, hl2, hl3, hl4, hl5, hl6⟩ := pow_log_step x hF hp hdom hp64 hinner hxc hxn hxs hx1
    fuel hfuel
  obtain ⟨m1, m2, m3, m4, m5⟩ := pow_mul_step hF hp hdom hp64 hrm y l hy hyc hyn hl4 hl3 hl2 hl5
    hl6 hdomain
  obtain ⟨s1, s2, s3, s4⟩ := logW_side hF hp hdom hp64
  have he5 := e_ge_five hp hdom
  set W := logW x.sem with hWdef
  have hW : W.WF := logW_WF hF
  set t := (y.cast W).mul l with ht
  obtain ⟨r, e1, e2, e3⟩ := pow_exp_step t (by rw [m1]; exact hW) (by rw [m1]; exact s1)
    (by rw [m1]; exact s2) (by rw [m1]; exact hrm) (by rw [m1, hWdef, logW_e]; omega) m2 m3 m5
    fuel (by omega)
  rw [m1] at e2 e3
  refine ⟨r, ?_, e2, ?_⟩
  · rw [powFuel_main x y fuel hxn hxs hyn (beq_one_false hF hx1) hl1, ← hWdef, ← ht, e1]; rfl
  · set Y : ℝ := ((y.val : ℚ) : ℝ)
    set L : ℝ := Real.log ((x.val : ℚ) : ℝ)
    set T : ℝ := ((t.val : ℚ) : ℝ)
    have ha0 : (0:ℝ) < (2:ℝ) ^ (-(x.sem.p : ℤ)) := by positivity
    have ha : (2:ℝ) ^ (-(x.sem.p : ℤ)) ≤ 1 / 256 := by
      calc (2:ℝ) ^ (-(x.sem.p : ℤ)) ≤ (2:ℝ) ^ (-8:ℤ) := zpow_le_zpow_right₀ (by norm_num) (by omega)
        _ = 1 / 256 := by norm_num
    have hw : (2:ℝ) ^ (-(W.p : ℤ)) ≤ (2:ℝ) ^ (-(x.sem.p : ℤ)) / 16384 := by
      calc (2:ℝ) ^ (-(W.p : ℤ)) ≤ (2:ℝ) ^ (-(x.sem.p : ℤ) - 14) :=
            zpow_le_zpow_right₀ (by norm_num) (by omega)
        _ = (2:ℝ) ^ (-(x.sem.p : ℤ)) / 16384 := by
            rw [zpow_sub₀ (by norm_num : (2:ℝ) ≠ 0)]; norm_num
    have hET : Real.exp (Y * L) * Real.exp (T - Y * L) = Real.exp T := by
      rw [← Real.exp_add]; congr 1; ring
    refine pow_exp_budget (D := T - Y * L) (Real.exp_pos _) ha0 ha (by positivity) hw m4
      (by exact_mod_cast e2.mag_pos) ?_
    rw [hET]
    exact e3

end Arp.C18.PowAcc

namespace Arp.C18
open Arp Arp.SpecRound Arp.Sqrt Arp.RelErr Arp.ExpErr Arp.LogErr Arp.PowErr Arp.C16 Arp.C16.ExpAcc
  Arp.C18.PowAcc

/-- the final cast of a working-format value with relative error `c·2^-p`, `c ≤ 1/4`
    (`Arp.C16.roundSpec_cast` asks for `c ≤ 1/8`) -/
theorem roundSpec_cast_quarter {F G : Sem} (hF : F.WF) (hrm : F.rm = .nte ∨ F.rm = .nta) (hG : G.WF)
    (hGrm : G.rm = F.rm) {r : Flt} (hr : PosN G r) {t c : ℝ} (ht0 : 0 < t) (hc0 : 0 ≤ c)
    (hc4 : c ≤ 1 / 4)
    (herr : |((r.mag : ℚ) : ℝ) - t| ≤ c * (2:ℝ) ^ (-(F.p:ℤ)) * t) :
    RoundSpec F (r.cast F) t c := by
  obtain ⟨hsem, hres⟩ := cast_toRes hF hG hGrm hr
  exact final_round_quarter hF hrm hsem hres ht0 hc0 hc4 herr

theorem withinUlps_mono {res : Flt} {t c c' : ℝ} (h : WithinUlps res t c) (hc : c ≤ c') :
    WithinUlps res t c' := by
  intro k h0 h1 h2
  refine le_trans (h k h0 h1 h2) (mul_le_mul_of_nonneg_right hc (by positivity))

/-- **C18, `pow` on finite operands, common source**: for finite `x > 0`, `x ≠ 1`, finite non-zero
    `y` with `|y·ln x| ≤ 512`, nearest modes, `8 ≤ p ≤ 2^(E-1) - 2`: the result satisfies
    `RoundSpec` (see `Arp.C16.RoundSpec`) for the exact value `exp (y·ln x)` with the constant
    `3/16`, i.e. it is the correct rounding up to `1/2 + 3/16 = 11/16` ulp. -/
theorem pow_all (x y : Flt) (hF : x.sem.WF) (hy : y.sem = x.sem) (hp : 8 ≤ x.sem.p)
    (hdom : x.sem.p ≤ 2 ^ (x.sem.e - 1) - 2) (hp64 : x.sem.p < 2 ^ 31)
    (hrm : x.sem.rm = .nte ∨ x.sem.rm = .nta) (hxc : x.Canonical) (hyc : y.Canonical)
    (hxn : x.cat = .normal) (hxs : x.sign = false) (hyn : y.cat = .normal) (hx1 : x.val ≠ 1)
    (hdomain : |((y.val : ℚ) : ℝ) * Real.log ((x.val : ℚ) : ℝ)| ≤ 512)
    (hinner : 2 ^ (x.sem.e + 9) + 3 * (x.sem.p + 10 + x.sem.logPrecision) + 32 ≤ innerFuel)
    (fuel : ℕ) (hfuel : x.sem.e + 23 ≤ fuel) :
    ∃ r, x.powFuel fuel y = some r ∧ r.Canonical ∧ r.sem = x.sem ∧
      RoundSpec x.sem r (Real.exp (((y.val : ℚ) : ℝ) * Real.log ((x.val : ℚ) : ℝ))) (3 / 16) := by
  obtain ⟨r, h1, h2, h3⟩ := pow_core x y hF hy hp hdom hp64 hrm hxc hyc hxn hxs hyn hx1 hdomain
    hinner fuel hfuel
  have hW : (logW x.sem).WF := logW_WF hF
  obtain ⟨hcan, hsem⟩ := cast_canonical r x.sem hF h2.can
  exact ⟨r.cast x.sem, h1, hcan, hsem,
    roundSpec_cast_quarter hF hrm hW rfl h2 (Real.exp_pos _) (by norm_num) (by norm_num) h3⟩

/-- `x^y` (real power) is `exp (y · ln x)` for a positive finite `x` -/
theorem rpow_eq_exp {x : Flt} (hxc : x.Canonical) (hxn : x.cat = .normal) (hxs : x.sign = false)
    (Y : ℝ) : ((x.val : ℚ) : ℝ) ^ Y = Real.exp (Y * Real.log ((x.val : ℚ) : ℝ)) := by
  have hxv : x.val = x.mag := by rw [Flt.val_normal hxn, hxs]; simp
  have hX0 : (0:ℝ) < ((x.val : ℚ) : ℝ) := by
    rw [hxv]; exact_mod_cast Flt.mag_pos x hxn hxc
  rw [Real.rpow_def_of_pos hX0, mul_comm]

/-- **C18 — accuracy of `pow`, the complete clause.**  In the two nearest modes, for a format with
    `8 ≤ p ≤ 2^(E-1) - 2` (`p < 2^31`), a canonical finite `x > 0` (normal or subnormal), `x ≠ 1`,
    and a canonical finite non-zero `y` with `|y·ln x| ≤ 512`, `pow(x, y)` is (with `E + 23` units
    of fuel) a canonical value of the same format with a clear sign bit, and it is
    * `+∞` only if `x^y > maxFinite·(1 - 2^-p)` (within one ulp of, or beyond, the largest finite
      number) — and always if `x^y ≥ 2^(emax+1)`;
    * `+0` only if `x^y` is below the smallest subnormal `2^(emin-p+1)`;
    * otherwise a finite non-zero number within `11/16` ulp — in particular within ONE ulp — of
      `x^y` (`WithinUlps`: the ulp of any binade `[2^k, 2^(k+1))`, `k ≥ emin`, that bounds both
      numbers, e.g. the binade of the larger of the two).
    `x^y` is the real power `Real.rpow`, equal to `exp (y·ln x)`.  (`hinner`: the side condition of
    `log_accuracy` for the working format: the inner `sqrt` of the model has enough fuel; it holds
    for `E ≤ 12`.) -/
theorem pow_accuracy (x y : Flt) (hF : x.sem.WF) (hy : y.sem = x.sem) (hp : 8 ≤ x.sem.p)
    (hdom : x.sem.p ≤ 2 ^ (x.sem.e - 1) - 2) (hp64 : x.sem.p < 2 ^ 31)
    (hrm : x.sem.rm = .nte ∨ x.sem.rm = .nta) (hxc : x.Canonical) (hyc : y.Canonical)
    (hxn : x.cat = .normal) (hxs : x.sign = false) (hyn : y.cat = .normal) (hx1 : x.val ≠ 1)
    (hdomain : |((y.val : ℚ) : ℝ) * Real.log ((x.val : ℚ) : ℝ)| ≤ 512)
    (hinner : 2 ^ (x.sem.e + 9) + 3 * (x.sem.p + 10 + x.sem.logPrecision) + 32 ≤ innerFuel)
    (fuel : ℕ) (hfuel : x.sem.e + 23 ≤ fuel) :
    ∃ r, x.powFuel fuel y = some r ∧ r.Canonical ∧ r.sem = x.sem ∧ r.sign = false ∧
      ((r.cat = .inf ∧ ((maxFinite x.sem : ℚ) : ℝ) * (1 - (2:ℝ) ^ (-(x.sem.p:ℤ))) <
          ((x.val : ℚ) : ℝ) ^ ((y.val : ℚ) : ℝ)) ∨
        (r.cat = .zero ∧
          ((x.val : ℚ) : ℝ) ^ ((y.val : ℚ) : ℝ) < (2:ℝ) ^ (x.sem.emin - ((x.sem.p:ℤ) - 1))) ∨
        (r.cat = .normal ∧ WithinUlps r (((x.val : ℚ) : ℝ) ^ ((y.val : ℚ) : ℝ)) (11 / 16) ∧
          WithinUlps r (((x.val : ℚ) : ℝ) ^ ((y.val : ℚ) : ℝ)) 1)) ∧
      ((2:ℝ) ^ (x.sem.emax + 1) ≤ ((x.val : ℚ) : ℝ) ^ ((y.val : ℚ) : ℝ) → r.cat = .inf) := by
  obtain ⟨r, h1, hcan, hsem, ⟨hcases, hbig⟩⟩ := pow_all x y hF hy hp hdom hp64 hrm hxc hyc hxn hxs
    hyn hx1 hdomain hinner fuel hfuel
  rw [rpow_eq_exp hxc hxn hxs]
  refine ⟨r, h1, hcan, hsem, ?_, ?_, hbig⟩
  · rcases hcases with ⟨_, h, _⟩ | ⟨_, h, _⟩ | ⟨h, _, _⟩
    · exact h
    · exact h
    · exact h.sign
  · rcases hcases with ⟨h, _, hgt⟩ | ⟨h, _, hlt⟩ | ⟨hpos, hk, _⟩
    · exact Or.inl ⟨h, hgt⟩
    · exact Or.inr (Or.inl ⟨h, hlt⟩)
    · have hw : WithinUlps r
          (Real.exp (((y.val : ℚ) : ℝ) * Real.log ((x.val : ℚ) : ℝ))) (11 / 16) := by
        intro k h0 h1' h2
        rw [posN_val hpos] at h2 ⊢
        rw [hsem] at h0 ⊢
        have := hk k h0 h1' h2
        norm_num at this ⊢
        exact this
      exact Or.inr (Or.inr ⟨hpos.cat, hw, withinUlps_mono hw (by norm_num)⟩)

/-- **C18 — accuracy of `pow` inside the normal range**: if `2^emin ≤ x^y ≤ maxFinite·(1 - 2^-p)`
    the result is a positive NORMAL number (finite, non-zero, not subnormal) within one ulp —
    indeed `11/16` ulp — of `x^y`, one ulp being that of the binade of the larger of `x^y` and the
    result (`Arp.C16.ulpAt`). -/
theorem pow_accuracy_normal (x y : Flt) (hF : x.sem.WF) (hy : y.sem = x.sem) (hp : 8 ≤ x.sem.p)
    (hdom : x.sem.p ≤ 2 ^ (x.sem.e - 1) - 2) (hp64 : x.sem.p < 2 ^ 31)
    (hrm : x.sem.rm = .nte ∨ x.sem.rm = .nta) (hxc : x.Canonical) (hyc : y.Canonical)
    (hxn : x.cat = .normal) (hxs : x.sign = false) (hyn : y.cat = .normal) (hx1 : x.val ≠ 1)
    (hdomain : |((y.val : ℚ) : ℝ) * Real.log ((x.val : ℚ) : ℝ)| ≤ 512)
    (hinner : 2 ^ (x.sem.e + 9) + 3 * (x.sem.p + 10 + x.sem.logPrecision) + 32 ≤ innerFuel)
    (hrange : (2:ℝ) ^ x.sem.emin ≤ ((x.val : ℚ) : ℝ) ^ ((y.val : ℚ) : ℝ) ∧
      ((x.val : ℚ) : ℝ) ^ ((y.val : ℚ) : ℝ) ≤
        ((maxFinite x.sem : ℚ) : ℝ) * (1 - (2:ℝ) ^ (-(x.sem.p:ℤ))))
    (fuel : ℕ) (hfuel : x.sem.e + 23 ≤ fuel) :
    ∃ r, x.powFuel fuel y = some r ∧ r.cat = .normal ∧ r.sign = false ∧ r.Canonical ∧
      r.sem = x.sem ∧ 2 ^ (x.sem.p - 1) ≤ r.mant ∧
      |((r.val : ℚ) : ℝ) - ((x.val : ℚ) : ℝ) ^ ((y.val : ℚ) : ℝ)| ≤
        11 / 16 * ulpAt x.sem (max (((x.val : ℚ) : ℝ) ^ ((y.val : ℚ) : ℝ)) ((r.val : ℚ) : ℝ)) ∧
      |((r.val : ℚ) : ℝ) - ((x.val : ℚ) : ℝ) ^ ((y.val : ℚ) : ℝ)| ≤
        ulpAt x.sem (max (((x.val : ℚ) : ℝ) ^ ((y.val : ℚ) : ℝ)) ((r.val : ℚ) : ℝ)) := by
  obtain ⟨r, h1, hcan, hsem, ⟨hcases, _⟩⟩ := pow_all x y hF hy hp hdom hp64 hrm hxc hyc hxn hxs
    hyn hx1 hdomain hinner fuel hfuel
  rw [rpow_eq_exp hxc hxn hxs] at hrange ⊢
  rcases hcases with ⟨_, _, hgt⟩ | ⟨_, _, hlt⟩ | ⟨hpos, hk, hnorm⟩
  · exact absurd hrange.2 (not_le.mpr hgt)
  · exact absurd (le_trans (exp_smallest_subnormal_le x.sem hF) hrange.1) (not_le.mpr hlt)
  · have hw : WithinUlps r
        (Real.exp (((y.val : ℚ) : ℝ) * Real.log ((x.val : ℚ) : ℝ))) (11 / 16) := by
      intro k h0 h1' h2
      rw [posN_val hpos] at h2 ⊢
      rw [hsem] at h0 ⊢
      have := hk k h0 h1' h2
      norm_num at this ⊢
      exact this
    have h4 := hw.at_max (by rw [hsem]; exact hrange.1)
    rw [hsem] at h4
    refine ⟨r, h1, hpos.cat, hpos.sign, hcan, hsem, hnorm hrange.1, h4, le_trans h4 ?_⟩
    have : (0:ℝ) < ulpAt x.sem
        (max (Real.exp (((y.val : ℚ) : ℝ) * Real.log ((x.val : ℚ) : ℝ))) ((r.val : ℚ) : ℝ)) := by
      unfold C16.ulpAt; positivity
    linarith

/-! ### every finite operand pair with `x > 0`: the exact cases `x = 1` and `y = ±0` included -/

/-- `1.0` satisfies `RoundSpec` for the exact value `1` (no error at all) -/
theorem roundSpec_one {F : Sem} (hF : F.WF) {c : ℝ} (hc : 0 ≤ c) :
    RoundSpec F (Flt.one F false) 1 c := by
  have hp1 : 1 ≤ F.p := by have := hF.2; omega
  have hpos : PosN F (Flt.one F false) := ⟨rfl, Flt.one_canonical F false hF, rfl, rfl⟩
  have hmag : (Flt.one F false).mag = 1 := C16.one_mag F false hp1
  refine ⟨Or.inr (Or.inr ⟨hpos, fun k _ _ _ => ?_, fun _ => ?_⟩), fun h => ?_⟩
  · rw [hmag]; norm_num; positivity
  · show 2 ^ (F.p - 1) ≤ 1 <<< (F.p - 1)
    rw [Nat.shiftLeft_eq, Nat.one_mul]
  · exfalso
    have : (1:ℝ) < (2:ℝ) ^ (F.emax + 1) :=
      one_lt_zpow₀ (by norm_num) (by have := Sem.emax_pos hF; omega)
    linarith

/-- a canonical finite value equal to one is `1.0` -/
theorem eq_one_of_val {x : Flt} (hF : x.sem.WF) (hc : x.Canonical) (hn : x.cat = .normal)
    (h1 : x.val = 1) : x = Flt.one x.sem false := by
  have hv : x.val = (Flt.one x.sem false).val := by
    rw [h1, Flt.val_normal rfl]
    simp only [Flt.one, Bool.false_eq_true, if_false]
    have := C16.one_mag x.sem false (by have := hF.2; omega)
    simp only [Flt.one] at this
    rw [this]
  obtain ⟨a, b, c⟩ := val_inj x (Flt.one x.sem false) rfl hc (Flt.one_canonical _ _ hF) hn rfl hv
  obtain ⟨s, sg, ex, m, ct⟩ := x
  simp only [Flt.one] at a b c hn ⊢
  subst a b c hn
  rfl

/-- **C18 — `pow` on every pair of finite operands with `x > 0`** (`x = 1` and `y = ±0`, where the
    result is exactly `1.0`, included): the result satisfies `RoundSpec` for `x^y` with the
    constant `3/16` — it is `+∞`/`+0` only at or beyond the finite range and otherwise within
    `11/16` ulp of `x^y`. -/
theorem pow_finite_all (x y : Flt) (hF : x.sem.WF) (hy : y.sem = x.sem) (hp : 8 ≤ x.sem.p)
    (hdom : x.sem.p ≤ 2 ^ (x.sem.e - 1) - 2) (hp64 : x.sem.p < 2 ^ 31)
    (hrm : x.sem.rm = .nte ∨ x.sem.rm = .nta) (hxc : x.Canonical) (hyc : y.Canonical)
    (hxn : x.cat = .normal) (hxs : x.sign = false) (hyn : y.cat = .normal ∨ y.cat = .zero)
    (hdomain : |((y.val : ℚ) : ℝ) * Real.log ((x.val : ℚ) : ℝ)| ≤ 512)
    (hinner : 2 ^ (x.sem.e + 9) + 3 * (x.sem.p + 10 + x.sem.logPrecision) + 32 ≤ innerFuel)
    (fuel : ℕ) (hfuel : x.sem.e + 23 ≤ fuel) :
    ∃ r, x.powFuel fuel y = some r ∧ r.Canonical ∧ r.sem = x.sem ∧
      RoundSpec x.sem r (((x.val : ℚ) : ℝ) ^ ((y.val : ℚ) : ℝ)) (3 / 16) := by
  rcases hyn with hyn | hyz
  · by_cases h1 : x.val = 1
    · have hone := eq_one_of_val hF hxc hxn h1
      have hpow := pow_one_base fuel x.sem y
      rw [← hone] at hpow
      refine ⟨x, hpow, hxc, rfl, ?_⟩
      rw [h1]
      simp only [Rat.cast_one, Real.one_rpow]
      have := roundSpec_one hF (c := 3 / 16) (by norm_num)
      rwa [← hone] at this
    · rw [rpow_eq_exp hxc hxn hxs]
      exact pow_all x y hF hy hp hdom hp64 hrm hxc hyc hxn hxs hyn h1 hdomain hinner fuel hfuel
  · refine ⟨Flt.one x.sem false, pow_zero_exp fuel x y hyz, Flt.one_canonical _ _ hF, rfl, ?_⟩
    rw [Flt.val_zero hyz]
    simp only [Rat.cast_zero, Real.rpow_zero]
    exact roundSpec_one hF (by norm_num)

/-! ### the hypotheses are satisfiable -/

/-- the side conditions hold for `FP16`, `FP32`, `FP64` (and every format with `E ≤ 12`); for
    `FP128`/`FP256` the model's fixed budget `innerFuel` for the inner `sqrt` of `log` in the
    working format (`E + 10 + 10` exponent bits) is not known to suffice -/
theorem pow_presets_ok (F : Sem) (h : (F.e, F.p) ∈ [(5, 11), (8, 24), (11, 53)]) :
    F.WF ∧ 8 ≤ F.p ∧ F.p ≤ 2 ^ (F.e - 1) - 2 ∧ F.p < 2 ^ 31 ∧
      2 ^ (F.e + 9) + 3 * (F.p + 10 + F.logPrecision) + 32 ≤ innerFuel := by
  simp only [List.mem_cons, List.mem_nil_iff, or_false, Prod.mk.injEq] at h
  unfold Sem.WF innerFuel Sem.logPrecision
  rcases h with ⟨he, hp⟩ | ⟨he, hp⟩ | ⟨he, hp⟩ <;> rw [he, hp] <;> simp [Nat.log2] <;> decide

/-- `pow(3.0, 5.0)` in binary16 (fuel `28`): a normal number within one ulp of `3^5 = 243` -/
example : ∃ r, (⟨FP16, false, 1, 0x600, .normal⟩ : Flt).powFuel 28 ⟨FP16, false, 2, 0x500, .normal⟩
      = some r ∧ r.cat = .normal ∧ r.sign = false ∧ 2 ^ (FP16.p - 1) ≤ r.mant ∧
    |((r.val : ℚ) : ℝ) - 243| ≤ ulpAt FP16 (max 243 ((r.val : ℚ) : ℝ)) := by
  have hx : (⟨FP16, false, 1, 0x600, .normal⟩ : Flt).val = 3 := by
    rw [Flt.val_normal rfl]; norm_num [Flt.mag_eq, FP16]
  have hy : (⟨FP16, false, 2, 0x500, .normal⟩ : Flt).val = 5 := by
    rw [Flt.val_normal rfl]; norm_num [Flt.mag_eq, FP16]
  have hpow : (((3:ℚ) : ℝ)) ^ (((5:ℚ) : ℝ)) = 243 := by
    rw [show ((5:ℚ) : ℝ) = ((5:ℕ) : ℝ) by norm_num, Real.rpow_natCast]; norm_num
  have hMF : maxFinite FP16 = 65504 := by
    unfold maxFinite Sem.emax Sem.bias FP16; norm_num
  have hlog0 : 0 ≤ Real.log 3 := Real.log_nonneg (by norm_num)
  have hlog2 : Real.log 3 ≤ 2 := by
    have := Real.log_le_sub_one_of_pos (show (0:ℝ) < 3 by norm_num); linarith
  obtain ⟨r, h1, h2, h3, _, _, h6, _, h8⟩ := pow_accuracy_normal ⟨FP16, false, 1, 0x600, .normal⟩
    ⟨FP16, false, 2, 0x500, .normal⟩ (by decide) rfl (by decide) (by decide) (by decide)
    (Or.inl rfl) (by decide) (by decide) rfl rfl rfl (by rw [hx]; norm_num)
    (by rw [hx, hy]; push_cast; rw [abs_of_nonneg (by positivity)]; linarith)
    (by decide)
    (by
      rw [hx, hy, hpow]
      have hs : (⟨FP16, false, 1, 0x600, .normal⟩ : Flt).sem = FP16 := rfl
      rw [hs, hMF]
      have hmin : FP16.emin = -14 := by decide
      have hp : (FP16.p : ℤ) = 11 := by decide
      rw [hmin, hp]
      constructor
      · have : (2:ℝ) ^ (-14:ℤ) ≤ 1 := zpow_le_one_of_nonpos₀ (by norm_num) (by norm_num)
        linarith
      · norm_num) 28 (by decide)
  rw [hx, hy, hpow] at h8
  exact ⟨r, h1, h2, h3, h6, h8⟩

end Arp.C18
