import Arp.Lemmas.CastScale
/-!
# C08 (loads) — `from_bigint`, `from_u64`, `from_i64` are exact when representable and
otherwise correctly rounded
-/
namespace Arp.C08
open Arp

theorem fromNat_zero (F : Sem) (rm : RM) : Spec.fromNat F rm 0 = .zero false := by
  simp [Spec.fromNat, Spec.roundQ]

theorem fromNat_pos (F : Sem) (rm : RM) (n : Nat) (hn : n ≠ 0) :
    Spec.fromNat F rm n = Spec.round F rm false (n : ℚ) := by
  have hq : (n : ℚ) ≠ 0 := by exact_mod_cast hn
  have hpos : (0 : ℚ) < n := by exact_mod_cast Nat.pos_of_ne_zero hn
  unfold Spec.fromNat Spec.roundQ
  rw [if_neg hq, if_pos hpos]

theorem fromBigint_sem (F : Sem) (n : Nat) : (fromBigint F n).sem = F := by
  unfold fromBigint Flt.new
  rw [normalize_sem_cs]; split <;> rfl

/-- `from_bigint` rounds the integer once under the format's own mode. -/
theorem fromBigint_correct (F : Sem) (n : Nat) (hF : F.WF) :
    (fromBigint F n).toRes = Spec.fromNat F F.rm n := by
  by_cases hn : n = 0
  · subst hn; rw [fromNat_zero]
    simp [fromBigint, Flt.new, Flt.normalize, Flt.zero, Flt.toRes]
  · rw [fromNat_pos F F.rm n hn]
    unfold fromBigint Flt.new
    rw [if_neg hn]
    have hp := hF.2
    exact normalize_exact ⟨F, false, ((F.p - 1 : Nat) : Int), n, .normal⟩ F.rm n hF rfl hn
      (by simp only
          rw [show ((F.p - 1 : Nat) : Int) - ((F.p : Int) - 1) = 0 by omega]; simp)

example : (fromBigint FP16 65519).toRes = Spec.fromNat FP16 FP16.rm 65519 :=
  fromBigint_correct FP16 65519 (by decide)

/-- If `n` is representable, the load returns exactly its canonical representation. -/
theorem from_exact (F : Sem) (n : Nat) (hF : F.WF) (y : Flt) (hyF : y.sem = F)
    (hy : y.cat = .normal) (hyc : y.Canonical) (hs : y.sign = false) (hm : y.mag = (n : ℚ)) :
    fromBigint F n = y := by
  subst hyF
  obtain ⟨_, _, h3, _, _⟩ := (Flt.canonical_normal hy).mp hyc
  have hn : n ≠ 0 := by
    rintro rfl
    rw [Flt.mag_eq] at hm
    have : (0 : ℚ) < (y.mant : ℚ) * (2 : ℚ) ^ (y.exp - ((y.sem.p : Int) - 1)) := by
      have : (0 : ℚ) < y.mant := by exact_mod_cast h3
      positivity
    rw [hm] at this; simp at this
  apply Flt.eq_of_toRes_eq (fromBigint_sem _ _) hy
  rw [fromBigint_correct y.sem n hF, fromNat_pos _ _ _ hn, ← hm, ← hs,
    round_canonical_exact_cs y _ hF hy hyc]
  simp [Flt.toRes, hy]

/-- FP16 holds 2047 exactly (exp 10, mant 2047). -/
example : fromBigint FP16 2047 = ⟨FP16, false, 10, 2047, .normal⟩ :=
  from_exact FP16 2047 (by decide) _ rfl rfl (by decide) rfl
    (by rw [Flt.mag_eq]; norm_num [FP16])

theorem FP128_WF : FP128.WF := by decide
theorem FP128_emin : FP128.emin = -16382 := by decide
theorem FP128_emax : FP128.emax = 16383 := by decide

/-- FP128 holds every `u64` exactly: the intermediate load is the canonical value `n`. -/
theorem fromBigint_FP128 (n : Nat) (h0 : n ≠ 0) (hn : n < 2 ^ 64) :
    ∃ y : Flt, fromBigint FP128 n = y ∧ y.sem = FP128 ∧ y.cat = .normal ∧ y.Canonical
      ∧ y.sign = false ∧ y.mag = (n : ℚ) := by
  have hmsb : msb n ≤ 64 := msb_le_of_lt_cs hn
  obtain ⟨y, a, b, c, d, e⟩ := exists_canonical FP128 FP128_WF false n 0 h0
    (lt_trans hn (by norm_num [FP128])) (by rw [FP128_emin]; norm_num [FP128])
    (by rw [FP128_emax]; omega)
  rw [zpow_zero, mul_one] at e
  exact ⟨y, from_exact FP128 n FP128_WF y a b c d e, a, b, c, d, e⟩

/-- `from_u64` rounds once, to nearest-even (no double rounding through FP128). -/
theorem fromU64_correct (F : Sem) (n : Nat) (hF : F.WF) (hn : n < 2 ^ 64) :
    (fromU64 F n).toRes = Spec.fromNat F .nte n := by
  unfold fromU64 Flt.cast
  by_cases h0 : n = 0
  · subst h0
    have : fromBigint FP128 0 = Flt.zero FP128 false := by
      simp [fromBigint, Flt.new, Flt.normalize, Flt.zero]
    rw [this, fromNat_zero]
    simp [Flt.castWithRm, Flt.zero, Flt.toRes]
  · obtain ⟨y, hy, a, b, c, d, e⟩ := fromBigint_FP128 n h0 hn
    rw [hy, cast_normal y F _ (by rw [a]; exact FP128_WF) hF b c, d, e, a, fromNat_pos _ _ _ h0]
    rfl

example : (fromU64 FP16 18446744073709551615).toRes = Spec.fromNat FP16 .nte 18446744073709551615 :=
  fromU64_correct FP16 _ (by decide) (by decide)

theorem fromU64_sem (F : Sem) (n : Nat) : (fromU64 F n).sem = F := castWithRm_sem _ _ _

/-- representable `u64`s are loaded exactly -/
theorem fromU64_exact (F : Sem) (n : Nat) (hF : F.WF) (hn : n < 2 ^ 64) (y : Flt) (hyF : y.sem = F)
    (hy : y.cat = .normal) (hyc : y.Canonical) (hs : y.sign = false) (hm : y.mag = (n : ℚ)) :
    fromU64 F n = y := by
  have h := from_exact F n hF y hyF hy hyc hs hm
  apply Flt.eq_of_toRes_eq (by rw [fromU64_sem, hyF]) hy
  rw [fromU64_correct F n hF hn, ← h, fromBigint_correct F n hF]
  subst hyF
  have hn0 : n ≠ 0 := by
    rintro rfl
    have : fromBigint y.sem 0 = Flt.zero y.sem false := by
      simp [fromBigint, Flt.new, Flt.normalize, Flt.zero]
    rw [this] at h; rw [← h] at hy; simp [Flt.zero] at hy
  rw [fromNat_pos _ _ _ hn0, fromNat_pos _ _ _ hn0, ← hm, ← hs,
    round_canonical_exact_cs y _ hF hy hyc, round_canonical_exact_cs y _ hF hy hyc]

/-- `from_i64` rounds the magnitude to nearest-even and keeps the sign, for every `i64`
    including `i64::MIN`. -/
theorem fromI64_correct (F : Sem) (v : Int) (hF : F.WF) (hv : -(2 ^ 63) ≤ v ∧ v < 2 ^ 63) :
    (fromI64 F v).toRes = Spec.fromInt F v := by
  obtain ⟨hv1, hv2⟩ := hv
  unfold fromI64 Spec.fromInt
  by_cases hneg : v < 0
  · rw [if_pos hneg, if_neg (by omega), if_pos hneg, toRes_setSign,
      fromU64_correct F _ hF (by omega), fromNat_pos _ _ _ (by omega), ← round_nte_sign]
  · rw [if_neg hneg, if_neg hneg]
    by_cases h0 : v = 0
    · subst h0
      rw [if_pos rfl, fromU64_correct F _ hF (by simp)]
      exact fromNat_zero _ _
    · rw [if_neg h0, fromU64_correct F _ hF (by omega), fromNat_pos _ _ _ (by omega),
        show v.toNat = v.natAbs by omega]

example : (fromI64 FP16 (-9223372036854775808)).toRes = Spec.fromInt FP16 (-9223372036854775808) :=
  fromI64_correct FP16 _ (by decide) (by decide)

/-- representable `i64`s are loaded exactly (sign included) -/
theorem fromI64_exact (F : Sem) (v : Int) (hF : F.WF) (hv : -(2 ^ 63) ≤ v ∧ v < 2 ^ 63) (y : Flt)
    (hyF : y.sem = F) (hy : y.cat = .normal) (hyc : y.Canonical) (hs : y.sign = decide (v < 0))
    (hm : y.mag = (v.natAbs : ℚ)) : fromI64 F v = y := by
  obtain ⟨hv1, hv2⟩ := hv
  unfold fromI64
  by_cases hneg : v < 0
  · rw [if_pos hneg]
    rw [decide_eq_true hneg] at hs
    rw [fromU64_exact F v.natAbs hF (by omega) (y.setSign false) hyF hy hyc rfl hm]
    obtain ⟨ys, ysg, ye, ym, yc⟩ := y
    simp only at hs; subst hs; rfl
  · rw [if_neg hneg]
    rw [decide_eq_false hneg] at hs
    exact fromU64_exact F v.toNat hF (by omega) y hyF hy hyc hs
      (by rw [hm, show v.toNat = v.natAbs by omega])

end Arp.C08
