import Arp.Props.C17Big
import Arp.Props.C17Pi
/-!
# C17 — `sin` at the standard formats, unconditionally, for every `|x| ≤ 128`

`sin_accuracy_all`: the clause for a domain format given `PiOKAt` of its working format, for every
canonical normal operand with `|x| ≤ 128` (both branches: `|x| < 1` without `π`, `|x| ≥ 1` with the
reduction).  `sin_accuracy_<F>`: the instances at FP16, bf16, FP32, FP64, x87, FP128 and `⟨10,120⟩`
in both nearest modes, where the hypothesis on `π` is discharged by kernel evaluation
(`Arp/Props/C17Pi.lean`); any fuel `≥ 8` suffices.
-/
namespace Arp.C17
open Arp Arp.TrigErr

/-- **`sin` for every `|x| ≤ 128`**, given the accuracy of `π` in the working format -/
theorem sin_accuracy_all (x : Flt) (hF : x.sem.WF) (hp : 8 ≤ x.sem.p) (hpmax : x.sem.p ≤ 1000000)
    (hdom : x.sem.p ≤ 2 ^ (x.sem.e - 1) - 2) (hrm : x.sem.rm = .nte ∨ x.sem.rm = .nta)
    (hc : x.Canonical) (hn : x.cat = .normal) (h128 : |x.val| ≤ 128) {fuel0 : ℕ}
    (hpi : PiOKAt ((x.sem.growLog 12).increaseExponent 4) fuel0) (fuel : ℕ) (hfuel : fuel0 ≤ fuel) :
    ∃ r, x.sinFuel fuel = some r ∧ (r.cat = .normal ∨ r.cat = .zero) ∧ r.Canonical ∧
      r.sem = x.sem ∧ |r.val| ≤ 1 ∧
      |((r.val : ℚ) : ℝ) - Real.sin ((x.val : ℚ) : ℝ)| ≤
        max (ulpR x.sem |Real.sin ((x.val : ℚ) : ℝ)|) ((2:ℝ) ^ (-(x.sem.p:ℤ) - 6)) := by
  by_cases hsmall : x.exp < 0
  · obtain ⟨r, h1, h2, _, h4, h5, h6, h7, _⟩ :=
      sin_small_accuracy x hF hp hdom hrm hc hn hsmall fuel
    refine ⟨r, h1, h2, h4, h5, h6, le_trans h7 (le_trans ?_ (le_max_left _ _))⟩
    have := ulpR_pos x.sem |Real.sin ((x.val : ℚ) : ℝ)|
    linarith
  · exact sin_accuracy_of_pi x hF hp hpmax hdom hrm hc hn (by omega) h128 hpi fuel hfuel

/-- **`sin` at FP16**, both nearest modes, every canonical normal `|x| ≤ 128`, every fuel `≥ 8` -/
theorem sin_accuracy_FP16 (x : Flt) (rm : RM) (hrm : rm = .nte ∨ rm = .nta)
    (hsem : x.sem = { FP16 with rm := rm }) (hc : x.Canonical) (hn : x.cat = .normal)
    (h128 : |x.val| ≤ 128) (fuel : ℕ) (hfuel : 8 ≤ fuel) :
    ∃ r, x.sinFuel fuel = some r ∧ (r.cat = .normal ∨ r.cat = .zero) ∧ r.Canonical ∧
      r.sem = x.sem ∧ |r.val| ≤ 1 ∧
      |((r.val : ℚ) : ℝ) - Real.sin ((x.val : ℚ) : ℝ)| ≤
        max (ulpR x.sem |Real.sin ((x.val : ℚ) : ℝ)|) ((2:ℝ) ^ (-(x.sem.p:ℤ) - 6)) := by
  have hpi : PiOKAt ((x.sem.growLog 12).increaseExponent 4) 8 := by
    rw [hsem]
    rcases hrm with h | h <;> subst h
    · exact piOK_sin_FP16_nte
    · exact piOK_sin_FP16_nta
  apply sin_accuracy_all x _ _ _ _ _ hc hn h128 hpi fuel hfuel
  all_goals rw [hsem]
  · show 2 ≤ FP16.e ∧ 2 ≤ FP16.p; decide
  · show 8 ≤ FP16.p; decide
  · show FP16.p ≤ 1000000; decide
  · show FP16.p ≤ 2 ^ (FP16.e - 1) - 2; decide
  · rcases hrm with h | h <;> subst h
    · exact Or.inl rfl
    · exact Or.inr rfl

/-- **`sin` at BF16**, both nearest modes, every canonical normal `|x| ≤ 128`, every fuel `≥ 8` -/
theorem sin_accuracy_BF16 (x : Flt) (rm : RM) (hrm : rm = .nte ∨ rm = .nta)
    (hsem : x.sem = { C15.BF16 with rm := rm }) (hc : x.Canonical) (hn : x.cat = .normal)
    (h128 : |x.val| ≤ 128) (fuel : ℕ) (hfuel : 8 ≤ fuel) :
    ∃ r, x.sinFuel fuel = some r ∧ (r.cat = .normal ∨ r.cat = .zero) ∧ r.Canonical ∧
      r.sem = x.sem ∧ |r.val| ≤ 1 ∧
      |((r.val : ℚ) : ℝ) - Real.sin ((x.val : ℚ) : ℝ)| ≤
        max (ulpR x.sem |Real.sin ((x.val : ℚ) : ℝ)|) ((2:ℝ) ^ (-(x.sem.p:ℤ) - 6)) := by
  have hpi : PiOKAt ((x.sem.growLog 12).increaseExponent 4) 8 := by
    rw [hsem]
    rcases hrm with h | h <;> subst h
    · exact piOK_sin_BF16_nte
    · exact piOK_sin_BF16_nta
  apply sin_accuracy_all x _ _ _ _ _ hc hn h128 hpi fuel hfuel
  all_goals rw [hsem]
  · show 2 ≤ C15.BF16.e ∧ 2 ≤ C15.BF16.p; decide
  · show 8 ≤ C15.BF16.p; decide
  · show C15.BF16.p ≤ 1000000; decide
  · show C15.BF16.p ≤ 2 ^ (C15.BF16.e - 1) - 2; decide
  · rcases hrm with h | h <;> subst h
    · exact Or.inl rfl
    · exact Or.inr rfl

/-- **`sin` at FP32**, both nearest modes, every canonical normal `|x| ≤ 128`, every fuel `≥ 8` -/
theorem sin_accuracy_FP32 (x : Flt) (rm : RM) (hrm : rm = .nte ∨ rm = .nta)
    (hsem : x.sem = { FP32 with rm := rm }) (hc : x.Canonical) (hn : x.cat = .normal)
    (h128 : |x.val| ≤ 128) (fuel : ℕ) (hfuel : 8 ≤ fuel) :
    ∃ r, x.sinFuel fuel = some r ∧ (r.cat = .normal ∨ r.cat = .zero) ∧ r.Canonical ∧
      r.sem = x.sem ∧ |r.val| ≤ 1 ∧
      |((r.val : ℚ) : ℝ) - Real.sin ((x.val : ℚ) : ℝ)| ≤
        max (ulpR x.sem |Real.sin ((x.val : ℚ) : ℝ)|) ((2:ℝ) ^ (-(x.sem.p:ℤ) - 6)) := by
  have hpi : PiOKAt ((x.sem.growLog 12).increaseExponent 4) 8 := by
    rw [hsem]
    rcases hrm with h | h <;> subst h
    · exact piOK_sin_FP32_nte
    · exact piOK_sin_FP32_nta
  apply sin_accuracy_all x _ _ _ _ _ hc hn h128 hpi fuel hfuel
  all_goals rw [hsem]
  · show 2 ≤ FP32.e ∧ 2 ≤ FP32.p; decide
  · show 8 ≤ FP32.p; decide
  · show FP32.p ≤ 1000000; decide
  · show FP32.p ≤ 2 ^ (FP32.e - 1) - 2; decide
  · rcases hrm with h | h <;> subst h
    · exact Or.inl rfl
    · exact Or.inr rfl

/-- **`sin` at FP64**, both nearest modes, every canonical normal `|x| ≤ 128`, every fuel `≥ 8` -/
theorem sin_accuracy_FP64 (x : Flt) (rm : RM) (hrm : rm = .nte ∨ rm = .nta)
    (hsem : x.sem = { FP64 with rm := rm }) (hc : x.Canonical) (hn : x.cat = .normal)
    (h128 : |x.val| ≤ 128) (fuel : ℕ) (hfuel : 8 ≤ fuel) :
    ∃ r, x.sinFuel fuel = some r ∧ (r.cat = .normal ∨ r.cat = .zero) ∧ r.Canonical ∧
      r.sem = x.sem ∧ |r.val| ≤ 1 ∧
      |((r.val : ℚ) : ℝ) - Real.sin ((x.val : ℚ) : ℝ)| ≤
        max (ulpR x.sem |Real.sin ((x.val : ℚ) : ℝ)|) ((2:ℝ) ^ (-(x.sem.p:ℤ) - 6)) := by
  have hpi : PiOKAt ((x.sem.growLog 12).increaseExponent 4) 8 := by
    rw [hsem]
    rcases hrm with h | h <;> subst h
    · exact piOK_sin_FP64_nte
    · exact piOK_sin_FP64_nta
  apply sin_accuracy_all x _ _ _ _ _ hc hn h128 hpi fuel hfuel
  all_goals rw [hsem]
  · show 2 ≤ FP64.e ∧ 2 ≤ FP64.p; decide
  · show 8 ≤ FP64.p; decide
  · show FP64.p ≤ 1000000; decide
  · show FP64.p ≤ 2 ^ (FP64.e - 1) - 2; decide
  · rcases hrm with h | h <;> subst h
    · exact Or.inl rfl
    · exact Or.inr rfl

/-- **`sin` at X87**, both nearest modes, every canonical normal `|x| ≤ 128`, every fuel `≥ 8` -/
theorem sin_accuracy_X87 (x : Flt) (rm : RM) (hrm : rm = .nte ∨ rm = .nta)
    (hsem : x.sem = { C15.X87 with rm := rm }) (hc : x.Canonical) (hn : x.cat = .normal)
    (h128 : |x.val| ≤ 128) (fuel : ℕ) (hfuel : 8 ≤ fuel) :
    ∃ r, x.sinFuel fuel = some r ∧ (r.cat = .normal ∨ r.cat = .zero) ∧ r.Canonical ∧
      r.sem = x.sem ∧ |r.val| ≤ 1 ∧
      |((r.val : ℚ) : ℝ) - Real.sin ((x.val : ℚ) : ℝ)| ≤
        max (ulpR x.sem |Real.sin ((x.val : ℚ) : ℝ)|) ((2:ℝ) ^ (-(x.sem.p:ℤ) - 6)) := by
  have hpi : PiOKAt ((x.sem.growLog 12).increaseExponent 4) 8 := by
    rw [hsem]
    rcases hrm with h | h <;> subst h
    · exact piOK_sin_X87_nte
    · exact piOK_sin_X87_nta
  apply sin_accuracy_all x _ _ _ _ _ hc hn h128 hpi fuel hfuel
  all_goals rw [hsem]
  · show 2 ≤ C15.X87.e ∧ 2 ≤ C15.X87.p; decide
  · show 8 ≤ C15.X87.p; decide
  · show C15.X87.p ≤ 1000000; decide
  · show C15.X87.p ≤ 2 ^ (C15.X87.e - 1) - 2; decide
  · rcases hrm with h | h <;> subst h
    · exact Or.inl rfl
    · exact Or.inr rfl

/-- **`sin` at FP128**, both nearest modes, every canonical normal `|x| ≤ 128`, every fuel `≥ 8` -/
theorem sin_accuracy_FP128 (x : Flt) (rm : RM) (hrm : rm = .nte ∨ rm = .nta)
    (hsem : x.sem = { FP128 with rm := rm }) (hc : x.Canonical) (hn : x.cat = .normal)
    (h128 : |x.val| ≤ 128) (fuel : ℕ) (hfuel : 8 ≤ fuel) :
    ∃ r, x.sinFuel fuel = some r ∧ (r.cat = .normal ∨ r.cat = .zero) ∧ r.Canonical ∧
      r.sem = x.sem ∧ |r.val| ≤ 1 ∧
      |((r.val : ℚ) : ℝ) - Real.sin ((x.val : ℚ) : ℝ)| ≤
        max (ulpR x.sem |Real.sin ((x.val : ℚ) : ℝ)|) ((2:ℝ) ^ (-(x.sem.p:ℤ) - 6)) := by
  have hpi : PiOKAt ((x.sem.growLog 12).increaseExponent 4) 8 := by
    rw [hsem]
    rcases hrm with h | h <;> subst h
    · exact piOK_sin_FP128_nte
    · exact piOK_sin_FP128_nta
  apply sin_accuracy_all x _ _ _ _ _ hc hn h128 hpi fuel hfuel
  all_goals rw [hsem]
  · show 2 ≤ FP128.e ∧ 2 ≤ FP128.p; decide
  · show 8 ≤ FP128.p; decide
  · show FP128.p ≤ 1000000; decide
  · show FP128.p ≤ 2 ^ (FP128.e - 1) - 2; decide
  · rcases hrm with h | h <;> subst h
    · exact Or.inl rfl
    · exact Or.inr rfl

/-- **`sin` at F120**, both nearest modes, every canonical normal `|x| ≤ 128`, every fuel `≥ 8` -/
theorem sin_accuracy_F120 (x : Flt) (rm : RM) (hrm : rm = .nte ∨ rm = .nta)
    (hsem : x.sem = { C15.F120 with rm := rm }) (hc : x.Canonical) (hn : x.cat = .normal)
    (h128 : |x.val| ≤ 128) (fuel : ℕ) (hfuel : 8 ≤ fuel) :
    ∃ r, x.sinFuel fuel = some r ∧ (r.cat = .normal ∨ r.cat = .zero) ∧ r.Canonical ∧
      r.sem = x.sem ∧ |r.val| ≤ 1 ∧
      |((r.val : ℚ) : ℝ) - Real.sin ((x.val : ℚ) : ℝ)| ≤
        max (ulpR x.sem |Real.sin ((x.val : ℚ) : ℝ)|) ((2:ℝ) ^ (-(x.sem.p:ℤ) - 6)) := by
  have hpi : PiOKAt ((x.sem.growLog 12).increaseExponent 4) 8 := by
    rw [hsem]
    rcases hrm with h | h <;> subst h
    · exact piOK_sin_F120_nte
    · exact piOK_sin_F120_nta
  apply sin_accuracy_all x _ _ _ _ _ hc hn h128 hpi fuel hfuel
  all_goals rw [hsem]
  · show 2 ≤ C15.F120.e ∧ 2 ≤ C15.F120.p; decide
  · show 8 ≤ C15.F120.p; decide
  · show C15.F120.p ≤ 1000000; decide
  · show C15.F120.p ≤ 2 ^ (C15.F120.e - 1) - 2; decide
  · rcases hrm with h | h <;> subst h
    · exact Or.inl rfl
    · exact Or.inr rfl

end Arp.C17
