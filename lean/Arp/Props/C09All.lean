import Arp.Props.C09
import Arp.Props.C09Wide
/-! umbrella module of property C09 -/
