import Arp.Lemmas.ToInt
/-!
# C08 — `to_i64`: round to an integer under the format's rounding mode, saturate
-/
namespace Arp.C08

/-- `convert_normal_to_integer` returns the magnitude of `x` rounded to an integer
    under `rm` (sign-magnitude): re-attaching the sign gives `Spec.roundInt rm x.val`. -/
theorem convertNormalToInteger_spec (x : Flt) (rm : RM) (hF : x.sem.WF) (hx : x.cat = .normal)
    (hc : x.Canonical) :
    (if x.sign then -((x.convertNormalToInteger rm : Nat) : Int)
      else ((x.convertNormalToInteger rm : Nat) : Int)) = Spec.roundInt rm x.val := by
  obtain ⟨_, _, hm0, _, _⟩ := (Flt.canonical_normal hx).mp hc
  rw [roundInt_val x rm hx hm0, convertNormalToInteger_eq x rm hF]
  cases x.sign <;> simp

/-- the natural number itself: `⌊|x|⌋`, plus one iff `Spec.up` on the integer part and fraction -/
theorem convertNormalToInteger_mag (x : Flt) (rm : RM) (hF : x.sem.WF) :
    x.convertNormalToInteger rm =
      x.mag.floor.toNat +
        (if Spec.up rm x.sign x.mag.floor.toNat (x.mag - (x.mag.floor.toNat : ℚ)) then 1 else 0) :=
  convertNormalToInteger_eq x rm hF

/-- magnitude form: the number returned is `|roundInt rm x|` -/
theorem convertNormalToInteger_abs (x : Flt) (rm : RM) (hF : x.sem.WF) (hx : x.cat = .normal)
    (hc : x.Canonical) :
    ((x.convertNormalToInteger rm : Nat) : Int) = |Spec.roundInt rm x.val| := by
  rw [← convertNormalToInteger_spec x rm hF hx hc]
  cases x.sign <;> simp

example : (Flt.mk FP16 false 1 0b10100000000 .normal).convertNormalToInteger .nte = 2 := by decide
example : (Flt.mk FP16 true 1 0b10100000000 .normal).convertNormalToInteger .nta = 3 := by decide

/-- a normal canonical value whose exponent is at least 64 has magnitude at least `2^64` -/
theorem big_exp (x : Flt) (rm : RM) (hF : x.sem.WF) (hx : x.cat = .normal) (hc : x.Canonical)
    (he : x.exp ≥ 64) : 2 ^ 64 ≤ x.convertNormalToInteger rm := by
  obtain ⟨_, _, _, _, hn⟩ := (Flt.canonical_normal hx).mp hc
  have hemin := Sem.emin_le_zero hF
  have hn' : 2 ^ (x.sem.p - 1) ≤ x.mant := by
    rcases hn with h | h
    · exact h
    · omega
  rw [convertNormalToInteger_eq x rm hF]
  have hmag : ((2 ^ 64 : Nat) : ℚ) ≤ x.mag := by
    rw [Flt.mag_eq]
    have h1 : ((2 ^ (x.sem.p - 1) : Nat) : ℚ) ≤ (x.mant : ℚ) := Nat.cast_le.mpr hn'
    push_cast at h1 ⊢
    have h2 : (2:ℚ) ^ (64:Int) ≤ (2:ℚ) ^ x.exp := zpow_le_zpow_right₀ (by norm_num) he
    have h3 : (2:ℚ) ^ x.exp = 2 ^ (x.sem.p - 1) * (2:ℚ) ^ (x.exp - ((x.sem.p:Int) - 1)) := by
      rw [← zpow_natCast, ← zpow_add₀ (by norm_num : (2:ℚ) ≠ 0), Sem.pcast hF]; congr 1; ring
    have h4 : (2:ℚ) ^ (64:Int) = 2 ^ 64 := by norm_num
    calc (2:ℚ) ^ 64 = (2:ℚ) ^ (64:Int) := h4.symm
      _ ≤ (2:ℚ) ^ x.exp := h2
      _ = 2 ^ (x.sem.p - 1) * (2:ℚ) ^ (x.exp - ((x.sem.p:Int) - 1)) := h3
      _ ≤ (x.mant:ℚ) * (2:ℚ) ^ (x.exp - ((x.sem.p:Int) - 1)) :=
          mul_le_mul_of_nonneg_right h1 (by positivity)
  have hfl : ((2 ^ 64 : Nat) : Int) ≤ ⌊x.mag⌋ := Int.le_floor.mpr (by exact_mod_cast hmag)
  have : 2 ^ 64 ≤ x.mag.floor.toNat := by
    rw [show x.mag.floor = ⌊x.mag⌋ from rfl]; omega
  omega

theorem clamp_neg (v : Nat) :
    Spec.clampI64 (-(v : Int)) = if v > 2 ^ 63 then i64Min else -(v : Int) := by
  unfold Spec.clampI64 i64Min
  split <;> split <;> omega

theorem clamp_pos (v : Nat) :
    Spec.clampI64 (v : Int) = if v ≥ 2 ^ 63 then i64Max else (v : Int) := by
  unfold Spec.clampI64 i64Max
  split <;> split <;> omega

/-- **C08** `to_i64`: NaN and zeros give 0, infinities saturate, a finite value is rounded
    to an integer under the format's rounding mode and clamped to the `i64` range. -/
theorem toI64_spec (x : Flt) (hF : x.sem.WF) (hc : x.Canonical) : x.toI64 = Spec.toI64 x := by
  unfold Flt.toI64 Spec.toI64 Flt.isNan Flt.isZero Flt.isInf
  cases hx : x.cat
  · -- inf
    cases x.sign <;> simp [i64Min, i64Max]
  · simp
  · -- normal
    simp only [show (Cat.normal == Cat.nan) = false from rfl, show (Cat.normal == Cat.zero) = false from rfl,
      show (Cat.normal == Cat.inf) = false from rfl, Bool.or_self, Bool.false_eq_true, if_false, Bool.false_or,
      decide_eq_true_eq]
    rw [← convertNormalToInteger_spec x x.sem.rm hF hx hc]
    by_cases he : x.exp ≥ 64
    · rw [if_pos he]
      have hb := big_exp x x.sem.rm hF hx hc he
      cases x.sign
      · simp only [Bool.false_eq_true, if_false]
        rw [clamp_pos, if_pos (by omega)]
      · simp only [if_true]
        rw [clamp_neg, if_pos (by omega)]
    · rw [if_neg he]
      cases x.sign
      · simp only [Bool.false_eq_true, if_false]
        rw [clamp_pos]
      · simp only [if_true]
        rw [clamp_neg]
  · simp

/-- 2.5 under nearest-even gives 2; -2.5 under nearest-away gives -3 (FP16 layout). -/
example : (Flt.mk FP16 false 1 0b10100000000 .normal).toI64 = 2 := by decide
example : (Flt.mk ⟨5, 11, .nta⟩ true 1 0b10100000000 .normal).toI64 = -3 := by decide
example : Spec.toI64 (Flt.mk FP16 false 1 0b10100000000 .normal) = 2 := by decide +kernel
example : Spec.toI64 (Flt.mk ⟨5, 11, .nta⟩ true 1 0b10100000000 .normal) = -3 := by decide +kernel
example : (Flt.mk FP16 false 1 0b10100000000 .normal).Canonical ∧ FP16.WF := by
  unfold Flt.Canonical Sem.WF; decide

/-- the result always fits an `i64` -/
theorem toI64_range (x : Flt) : -(2 ^ 63 : Int) ≤ x.toI64 ∧ x.toI64 ≤ 2 ^ 63 - 1 := by
  unfold Flt.toI64 i64Min i64Max
  simp only
  split
  · omega
  · split
    · split <;> omega
    · split <;> split <;> omega

/-- rounding an integer to an integer changes nothing -/
theorem roundInt_intCast (rm : RM) (k : Int) : Spec.roundInt rm (k : ℚ) = k := by
  unfold Spec.roundInt
  simp only
  by_cases hk : k < 0
  · have h1 : ((k:ℚ) < 0) := by exact_mod_cast hk
    rw [decide_eq_true h1]
    simp only [if_true]
    obtain ⟨n, rfl⟩ : ∃ n : Nat, k = -(n : Int) := ⟨k.natAbs, by omega⟩
    have e : -(((-(n:Int) : Int)) : ℚ) = (n : ℚ) := by push_cast; ring
    rw [e, floor_toNat_natCast, sub_self, up_zero]
    simp
  · have h1 : ¬ ((k:ℚ) < 0) := by exact_mod_cast hk
    rw [decide_eq_false h1]
    simp only [Bool.false_eq_true, if_false]
    obtain ⟨n, rfl⟩ : ∃ n : Nat, k = (n : Int) := ⟨k.toNat, by omega⟩
    have e : (((n:Int) : Int) : ℚ) = (n : ℚ) := by push_cast; ring
    rw [e, floor_toNat_natCast, sub_self, up_zero]
    simp

/-- an integer value inside the `i64` range is returned unchanged, in every rounding mode -/
theorem toI64_exact_int (x : Flt) (hF : x.sem.WF) (hc : x.Canonical)
    (hfin : x.cat = .normal ∨ x.cat = .zero) (k : Int) (hk : x.val = (k : ℚ))
    (hlo : -(2 ^ 63 : Int) ≤ k) (hhi : k ≤ 2 ^ 63 - 1) : x.toI64 = k := by
  rw [toI64_spec x hF hc]
  unfold Spec.toI64
  rcases hfin with h | h
  · rw [h]; simp only
    rw [hk, roundInt_intCast]
    unfold Spec.clampI64
    split
    · omega
    · split <;> omega
  · rw [h]; simp only
    have : x.val = 0 := by unfold Flt.val; rw [h]
    rw [this] at hk
    exact_mod_cast hk

end Arp.C08
