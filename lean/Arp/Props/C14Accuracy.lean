import Arp.Props.C14
import Arp.Lemmas.RelErr
/-!
# C14 — accuracy of parsing (the "6 ulps" clause)

The parser computes `R = (I ⊕ (N ⊘ D)) ⊗ P` (or `⊘ P` for a negative exponent), where
`I, N, D, P` are the correctly rounded loads of `decVal ds`, `decVal fs`, `10^|fs|`, `10^|e|`
and `⊕ ⊘ ⊗` are correctly rounded (`parse_accuracy_partial`).  All quantities are non-negative,
so there is no cancellation, and in the normal range every rounding is a relative perturbation
of size at most `v = unit F F.rm` (`u = 2^(1-p)`, or `u/2` in the nearest modes): the result is
the exact decimal value `X` after at most six such perturbations (`Near v 6 X R`), hence
`|R - X| ≤ (6v + 24v²)·X` for `p ≥ 6`.
-/
namespace Arp.C14
open Arp Arp.RelErr Arp.SpecRound

variable {F : Sem}

/-! ## 1. the pipeline on natural numbers -/

theorem load_appr (hF : F.WF) {n : Nat} (hn : 0 < n) (hle : (n:ℚ) ≤ maxFinite F) :
    Appr F (unit F F.rm) 1 (n:ℚ) (fromBigint F n) :=
  Appr.load hF F.rm hn hle (C08.fromBigint_sem F n) (C08.fromBigint_correct F n hF)

theorem load_zero_cat (F : Sem) : (fromBigint F 0).cat = .zero := by
  rw [fromBigint_zero]; rfl

/-- `0 / D` is a zero -/
theorem zero_div_cat (hF : F.WF) {d : Nat} (hd : 0 < d) (hD : (d:ℚ) ≤ maxFinite F) :
    ((fromBigint F 0).div (fromBigint F d)).cat = .zero := by
  have aD := load_appr hF hd hD
  have h := div_toRes (fromBigint F 0) (fromBigint F d) F hF (fromBigint_canonical F 0 hF)
    (fromBigint_canonical F d hF)
  have e : Spec.div F F.rm (fromBigint F 0) (fromBigint F d) = .zero false := by
    simp [Spec.div, Spec.isNan, Spec.isInf, Spec.isZero, aD.cat, aD.sign, fromBigint_zero, Flt.zero]
  rw [e] at h
  exact (toRes_zero h).1

theorem zero_div_sign (hF : F.WF) {d : Nat} (hd : 0 < d) (hD : (d:ℚ) ≤ maxFinite F) :
    ((fromBigint F 0).div (fromBigint F d)).sign = false := by
  have aD := load_appr hF hd hD
  have h := div_toRes (fromBigint F 0) (fromBigint F d) F hF (fromBigint_canonical F 0 hF)
    (fromBigint_canonical F d hF)
  have e : Spec.div F F.rm (fromBigint F 0) (fromBigint F d) = .zero false := by
    simp [Spec.div, Spec.isNan, Spec.isInf, Spec.isZero, aD.cat, aD.sign, fromBigint_zero, Flt.zero]
  rw [e] at h
  exact (toRes_zero h).2

/-- `S = I ⊕ (N ⊘ D)`: at most four perturbations (one for `I`; three for `N ⊘ D`; one for `⊕`).
    A zero integer part or a zero numerator is exact. -/
theorem fracSum_appr (hF : F.WF) (i n d : Nat) (hin : 0 < i ∨ 0 < n) (hd : 0 < d)
    (hI : (i:ℚ) ≤ maxFinite F) (hN : (n:ℚ) ≤ maxFinite F) (hD : (d:ℚ) ≤ maxFinite F)
    (hQ : 0 < n → InRange F ((fromBigint F n).mag / (fromBigint F d).mag))
    (hS : 0 < i → 0 < n →
      InRange F ((fromBigint F i).mag + ((fromBigint F n).div (fromBigint F d)).mag)) :
    Appr F (unit F F.rm) 4 ((i:ℚ) + (n:ℚ) / (d:ℚ))
      ((fromBigint F i).add ((fromBigint F n).div (fromBigint F d))) := by
  have hv0 := le_of_lt (unit_pos F F.rm)
  have hv1 := unit_lt_one hF F.rm
  have cI := fromBigint_canonical F i hF
  have cN := fromBigint_canonical F n hF
  have cD := fromBigint_canonical F d hF
  have cQ : ((fromBigint F n).div (fromBigint F d)).Canonical ∧
      ((fromBigint F n).div (fromBigint F d)).sem = F := by
    have := div_canonical (fromBigint F n) (fromBigint F d) (by rw [cN.2]; exact hF)
    exact ⟨this.1, this.2.trans cN.2⟩
  have hQres := div_toRes (fromBigint F n) (fromBigint F d) F hF cN cD
  have hSres := add_toRes (fromBigint F i) ((fromBigint F n).div (fromBigint F d)) F hF cI cQ
  have semS := (fracSum_canon F hF i n d).2
  have aD := load_appr hF hd hD
  have hdq : (0:ℚ) < (d:ℚ) := by exact_mod_cast hd
  rcases Nat.eq_zero_or_pos n with hn | hn
  · -- zero numerator: `S = I` exactly
    subst hn
    have hi : 0 < i := by omega
    have hiq : (0:ℚ) < (i:ℚ) := by exact_mod_cast hi
    have aI := load_appr hF hi hI
    have := Appr.add_zero hF F.rm hiq aI (zero_div_cat hF hd hD) hv1 semS hSres
    have := this.mono hv0 hv1 hiq (show 1 ≤ 4 by norm_num)
    simpa using this
  · have hnq : (0:ℚ) < (n:ℚ) := by exact_mod_cast hn
    have aN := load_appr hF hn hN
    have aQ := Appr.div hF F.rm hnq hdq aN aD cQ.2 (hQ hn) hQres
    have hqpos : (0:ℚ) < (n:ℚ) / (d:ℚ) := div_pos hnq hdq
    rcases Nat.eq_zero_or_pos i with hi | hi
    · -- zero integer part: `S = Q` exactly
      subst hi
      have := Appr.zero_add hF F.rm hqpos (load_zero_cat F) aQ hv1 semS hSres
      have := this.mono hv0 hv1 hqpos (show 1 + 1 + 1 ≤ 4 by norm_num)
      simpa using this
    · have hiq : (0:ℚ) < (i:ℚ) := by exact_mod_cast hi
      have aI := load_appr hF hi hI
      exact Appr.add hF F.rm hiq hqpos aI aQ semS (hS hi hn) hSres

/-- `applyExp`: two more perturbations (the load of `10^|e|` and the final `⊗`/`⊘`) -/
theorem applyExp_appr (hF : F.WF) {a : ℚ} {k : Nat} {S : Flt} (ha : 0 < a)
    (hS : Appr F (unit F F.rm) k a S) (cS : S.Canonical) (e : Int)
    (hP : ((10 ^ e.natAbs : Nat) : ℚ) ≤ maxFinite F)
    (hR : InRange F (if 0 ≤ e then S.mag * (fromBigint F (10 ^ e.natAbs)).mag
      else S.mag / (fromBigint F (10 ^ e.natAbs)).mag)) :
    Appr F (unit F F.rm) (k + 2) (a * (10:ℚ) ^ e) (applyExp F S (some e)) := by
  have hres := applyExp_toRes F hF S e ⟨cS, hS.sem⟩
  have hsem := applyExp_sem F S (some e) hS.sem
  have hppos : 0 < 10 ^ e.natAbs := Nat.pos_of_ne_zero (by positivity)
  have aP := load_appr hF hppos hP
  have hpq : (0:ℚ) < ((10 ^ e.natAbs : Nat) : ℚ) := by exact_mod_cast hppos
  by_cases he : 0 ≤ e
  · rw [if_pos he] at hres hR
    have := Appr.mul hF F.rm ha hpq hS aP hsem hR hres
    have e10 : (10:ℚ) ^ e = ((10 ^ e.natAbs : Nat) : ℚ) := by
      obtain ⟨n, rfl⟩ := Int.eq_ofNat_of_zero_le he
      push_cast; simp
    rw [e10]; exact this
  · rw [if_neg he] at hres hR
    have := Appr.div hF F.rm ha hpq hS aP hsem hR hres
    have e10 : a * (10:ℚ) ^ e = a / ((10 ^ e.natAbs : Nat) : ℚ) := by
      obtain ⟨n, rfl⟩ : ∃ n : Nat, e = -(n:Int) := ⟨e.natAbs, by omega⟩
      rw [zpow_neg, div_eq_mul_inv]; push_cast; simp
    rw [e10]; exact this

/-! ## 2. the same with hypotheses on the *exact* intermediate values only

`Safe F x`: `2^(emin+1) ≤ x ≤ 2^emax` — the normal range with a factor two to spare at both ends,
so that the (at most five times perturbed) computed operand values stay inside
`[2^emin, maxFinite]`. -/

/-- the normal range with one binade to spare at both ends -/
def Safe (F : Sem) (x : ℚ) : Prop := (2:ℚ) ^ (F.emin + 1) ≤ x ∧ x ≤ (2:ℚ) ^ F.emax

theorem unit_le_of_p6 (hp : 6 ≤ F.p) (rm : RM) : unit F rm ≤ 1/32 := by
  have h1 := unit_le_u F rm
  have h2 := u_le_of_le_p (F := F) (k := 6) hp
  norm_num at h2; linarith

/-- in the nearest modes `p ≥ 5` suffices -/
theorem unit_le_of_p5_nearest (hp : 5 ≤ F.p) {rm : RM} (hrm : rm = .nte ∨ rm = .nta) :
    unit F rm ≤ 1/32 := by
  rw [unit_nearest hrm]
  have h2 := u_le_of_le_p (F := F) (k := 5) hp
  norm_num at h2; linarith

theorem maxFinite_ge (hF : F.WF) : 3 / 2 * (2:ℚ) ^ F.emax ≤ maxFinite F := by
  have h1 : maxFinite F = (2:ℚ) ^ (F.emax + 1) - F.ulp F.emax := by
    rw [maxFinite_eq, ← F.pow_mul_ulp]; ring
  have h2 : (2:ℚ) ^ (F.emax + 1) = 2 * (2:ℚ) ^ F.emax := by
    rw [zpow_add_one₀ (by norm_num : (2:ℚ) ≠ 0)]; ring
  have h3 := ulp_eq_u F F.emax
  have h4 := u_le_half hF
  have h5 : (0:ℚ) < (2:ℚ) ^ F.emax := by positivity
  rw [h1, h2, h3]; nlinarith

/-- a safe exact value perturbed at most five times (`v ≤ 1/32`) is in range -/
theorem inRange_of_near (hF : F.WF) {v x x' : ℚ} {k : Nat} (hv0 : 0 ≤ v) (hv : v ≤ 1/32)
    (hk : k ≤ 5) (hs : Safe F x) (h : Near v k x x') : InRange F x' := by
  have hv1 : v < 1 := by linarith
  have hx : 0 < x := lt_of_lt_of_le (by positivity) hs.1
  have hx' := h.pos hv1 hx
  have h5 := h.mono hv0 hv1 (le_of_lt hx) (le_of_lt hx') hk
  have ht : (27:ℚ)/32 ≤ (1 - v) ^ 5 := by
    have : ((31:ℚ)/32) ^ 5 ≤ (1 - v) ^ 5 := pow_le_pow_left₀ (by norm_num) (by linarith) 5
    have : (27:ℚ)/32 ≤ ((31:ℚ)/32) ^ 5 := by norm_num
    linarith
  obtain ⟨l, r⟩ := h5
  have e2 : (2:ℚ) ^ (F.emin + 1) = 2 * (2:ℚ) ^ F.emin := by
    rw [zpow_add_one₀ (by norm_num : (2:ℚ) ≠ 0)]; ring
  have hmax := maxFinite_ge hF
  have hpe : (0:ℚ) < (2:ℚ) ^ F.emin := by positivity
  constructor
  · have := hs.1; rw [e2] at this; nlinarith
  · have := hs.2; nlinarith

/-- `fracSum_appr` from the exact values: `n/d` and `i + n/d` safe -/
theorem fracSum_appr_exact (hF : F.WF) (hv : unit F F.rm ≤ 1/32) (i n d : Nat)
    (hin : 0 < i ∨ 0 < n) (hd : 0 < d)
    (hI : (i:ℚ) ≤ maxFinite F) (hN : (n:ℚ) ≤ maxFinite F) (hD : (d:ℚ) ≤ maxFinite F)
    (hQ : 0 < n → Safe F ((n:ℚ) / (d:ℚ)))
    (hS : 0 < i → 0 < n → Safe F ((i:ℚ) + (n:ℚ) / (d:ℚ))) :
    Appr F (unit F F.rm) 4 ((i:ℚ) + (n:ℚ) / (d:ℚ))
      ((fromBigint F i).add ((fromBigint F n).div (fromBigint F d))) := by
  have hv0 := le_of_lt (unit_pos F F.rm)
  have hv1 := unit_lt_one hF F.rm
  have aD := load_appr hF hd hD
  have hdq : (0:ℚ) < (d:ℚ) := by exact_mod_cast hd
  have hDp := aD.mag_pos hv1 hdq
  have hQ' : 0 < n → InRange F ((fromBigint F n).mag / (fromBigint F d).mag) := by
    intro hn
    have hnq : (0:ℚ) < (n:ℚ) := by exact_mod_cast hn
    have aN := load_appr hF hn hN
    exact inRange_of_near hF hv0 hv (by norm_num) (hQ hn)
      (Near.div hv1 (le_of_lt hnq) hdq (le_of_lt (aN.mag_pos hv1 hnq)) hDp aN.near aD.near)
  refine fracSum_appr hF i n d hin hd hI hN hD hQ' ?_
  intro hi hn
  have hnq : (0:ℚ) < (n:ℚ) := by exact_mod_cast hn
  have hiq : (0:ℚ) < (i:ℚ) := by exact_mod_cast hi
  have aN := load_appr hF hn hN
  have aI := load_appr hF hi hI
  have cN := fromBigint_canonical F n hF
  have cD := fromBigint_canonical F d hF
  have semQ : ((fromBigint F n).div (fromBigint F d)).sem = F :=
    (div_canonical (fromBigint F n) (fromBigint F d) (by rw [cN.2]; exact hF)).2.trans cN.2
  have aQ := Appr.div hF F.rm hnq hdq aN aD semQ (hQ' hn)
    (div_toRes (fromBigint F n) (fromBigint F d) F hF cN cD)
  have hqpos : (0:ℚ) < (n:ℚ) / (d:ℚ) := div_pos hnq hdq
  exact inRange_of_near hF hv0 hv (show max 1 (1 + 1 + 1) ≤ 5 by norm_num) (hS hi hn)
    (Near.add_max hv0 hv1 (le_of_lt hiq) (le_of_lt hqpos) (le_of_lt (aI.mag_pos hv1 hiq))
      (le_of_lt (aQ.mag_pos hv1 hqpos)) aI.near aQ.near)

/-- `applyExp_appr` from the exact value: `a·10^e` safe -/
theorem applyExp_appr_exact (hF : F.WF) (hv : unit F F.rm ≤ 1/32) {a : ℚ} {k : Nat} {S : Flt}
    (ha : 0 < a) (hk : k ≤ 4) (hS : Appr F (unit F F.rm) k a S) (cS : S.Canonical) (e : Int)
    (hP : ((10 ^ e.natAbs : Nat) : ℚ) ≤ maxFinite F) (hR : Safe F (a * (10:ℚ) ^ e)) :
    Appr F (unit F F.rm) (k + 2) (a * (10:ℚ) ^ e) (applyExp F S (some e)) := by
  have hv0 := le_of_lt (unit_pos F F.rm)
  have hv1 := unit_lt_one hF F.rm
  have hppos : 0 < 10 ^ e.natAbs := Nat.pos_of_ne_zero (by positivity)
  have aP := load_appr hF hppos hP
  have hpq : (0:ℚ) < ((10 ^ e.natAbs : Nat) : ℚ) := by exact_mod_cast hppos
  have hSp := hS.mag_pos hv1 ha
  have hPp := aP.mag_pos hv1 hpq
  refine applyExp_appr hF ha hS cS e hP ?_
  by_cases he : 0 ≤ e
  · rw [if_pos he]
    have e10 : (10:ℚ) ^ e = ((10 ^ e.natAbs : Nat) : ℚ) := by
      obtain ⟨n, rfl⟩ := Int.eq_ofNat_of_zero_le he
      push_cast; simp
    rw [e10] at hR
    exact inRange_of_near hF hv0 hv (by omega) hR
      (Near.mul hv1 (le_of_lt ha) (le_of_lt hpq) (le_of_lt hSp) (le_of_lt hPp) hS.near aP.near)
  · rw [if_neg he]
    have e10 : a * (10:ℚ) ^ e = a / ((10 ^ e.natAbs : Nat) : ℚ) := by
      obtain ⟨n, rfl⟩ : ∃ n : Nat, e = -(n:Int) := ⟨e.natAbs, by omega⟩
      rw [zpow_neg, div_eq_mul_inv]; push_cast; simp
    rw [e10] at hR
    exact inRange_of_near hF hv0 hv (by omega) hR
      (Near.div hv1 (le_of_lt ha) hpq (le_of_lt hSp) hPp hS.near aP.near)

/-! ## 3. the parser: `Near` form -/

/-- exact decimal value of `ds . fs e` -/
def decValue (ds fs : List Nat) (e : Int) : ℚ :=
  ((decVal ds : ℚ) + (decVal fs : ℚ) / (10:ℚ) ^ fs.length) * (10:ℚ) ^ e

theorem cast_ten_pow (k : Nat) : ((10 ^ k : Nat) : ℚ) = (10:ℚ) ^ k := by push_cast; rfl

theorem decVal_lt {fs : List Nat} (h : allDigits fs = true) : decVal fs < 10 ^ fs.length := by
  induction fs with
  | nil => simp [decVal]
  | cons d t ih =>
    rw [allDigits_cons, Bool.and_eq_true] at h
    have := ih h.2
    have hd : d ≤ 57 := by
      have := h.1; simp only [isDigit, Bool.and_eq_true, decide_eq_true_eq] at this; exact this.2
    rw [decVal_cons, List.length_cons, Nat.pow_succ]
    have : (d - 48) * 10 ^ t.length ≤ 9 * 10 ^ t.length := Nat.mul_le_mul_right _ (by omega)
    omega

theorem decVal_pos {fs : List Nat} (h : allDigits fs = true) (hz : fs.all (· == 48) = false) :
    0 < decVal fs := by
  induction fs with
  | nil => simp at hz
  | cons d t ih =>
    rw [allDigits_cons, Bool.and_eq_true] at h
    rw [decVal_cons]
    by_cases hd : d = 48
    · subst hd
      have : t.all (· == 48) = false := by simpa using hz
      have := ih h.2 this
      omega
    · have h48 : 48 ≤ d := by
        have := h.1; simp only [isDigit, Bool.and_eq_true, decide_eq_true_eq] at this; exact this.1
      have : 1 * 10 ^ t.length ≤ (d - 48) * 10 ^ t.length := Nat.mul_le_mul_right _ (by omega)
      have : 0 < 10 ^ t.length := Nat.pos_of_ne_zero (by positivity)
      omega

/-- the parser's result from an approximation statement about the pipeline (general form) -/
theorem parse_fracExp_of_appr (hF : F.WF) (sg ds fs ex : List Nat) (m : Nat) (e : Int)
    (hsg : OptSign sg) (hd : allDigits ds = true) (hf : allDigits fs = true)
    (hm : isExpMark m = true) (he : parseI64 ex = some e) {v X : ℚ} {k : Nat}
    (h : Appr F v k X (applyExp F ((fromBigint F (decVal ds)).add
      ((fromBigint F (decVal fs)).div (fromBigint F (10 ^ fs.length)))) (some e))) :
    ∃ x, tryFromStr (sg ++ (ds ++ 46 :: (fs ++ m :: ex))) F = .ok x ∧ x.sem = F ∧
      x.cat = .normal ∧ x.sign = signNeg sg ∧ Near v k X x.mag := by
  have hp := (parse_accuracy_partial F hF sg ds fs ex m e hsg hd hf hm he).1
  exact ⟨_, hp, h.sem, h.cat, rfl, h.near⟩

theorem parse_frac_of_appr (hF : F.WF) (sg ds fs : List Nat)
    (hsg : OptSign sg) (hd : allDigits ds = true) (hf : allDigits fs = true)
    (hz : fs.all (· == 48) = false) {v X : ℚ} {k : Nat}
    (h : Appr F v k X ((fromBigint F (decVal ds)).add
      ((fromBigint F (decVal fs)).div (fromBigint F (10 ^ fs.length))))) :
    ∃ x, tryFromStr (sg ++ (ds ++ 46 :: fs)) F = .ok x ∧ x.sem = F ∧
      x.cat = .normal ∧ x.sign = signNeg sg ∧ Near v k X x.mag := by
  have hp := (parse_accuracy_frac F hF sg ds fs hsg hd hf hz).1
  exact ⟨_, hp, h.sem, h.cat, rfl, h.near⟩

theorem parse_intExp_of_appr (hF : F.WF) (sg ds ex : List Nat) (m : Nat) (e : Int)
    (hsg : OptSign sg) (hd : allDigits ds = true) (hm : isExpMark m = true)
    (he : parseI64 ex = some e) {v X : ℚ} {k : Nat}
    (h : Appr F v k X (applyExp F (fromBigint F (decVal ds)) (some e))) :
    ∃ x, tryFromStr (sg ++ (ds ++ m :: ex)) F = .ok x ∧ x.sem = F ∧
      x.cat = .normal ∧ x.sign = signNeg sg ∧ Near v k X x.mag := by
  have hp := (parse_accuracy_intExp F hF sg ds ex m e hsg hd hm he).1
  exact ⟨_, hp, h.sem, h.cat, rfl, h.near⟩

/-- **General form, hypotheses on the computed operands.**  `[sign] ds . fs (e|E) ex`:
    if the four loaded integers are at most the largest finite number and the three rounded
    quantities (the operand values actually fed to `⊘`, `⊕`, `⊗/⊘`) lie in
    `[2^emin, maxFinite]`, the result is a normal number with the sign of the string whose
    magnitude is the exact decimal value after at most six relative perturbations of size
    `unit F F.rm`.  No lower bound on `p`. -/
theorem parse_near_fracExp (hF : F.WF) (sg ds fs ex : List Nat) (m : Nat) (e : Int)
    (hsg : OptSign sg) (hd : allDigits ds = true) (hf : allDigits fs = true)
    (hm : isExpMark m = true) (he : parseI64 ex = some e)
    (hpos : 0 < decVal ds ∨ 0 < decVal fs)
    (hI : (decVal ds : ℚ) ≤ maxFinite F) (hD : (10:ℚ) ^ fs.length ≤ maxFinite F)
    (hP : (10:ℚ) ^ e.natAbs ≤ maxFinite F)
    (hQ : 0 < decVal fs →
      InRange F ((fromBigint F (decVal fs)).mag / (fromBigint F (10 ^ fs.length)).mag))
    (hS : 0 < decVal ds → 0 < decVal fs → InRange F ((fromBigint F (decVal ds)).mag +
      ((fromBigint F (decVal fs)).div (fromBigint F (10 ^ fs.length))).mag))
    (hR : InRange F (if 0 ≤ e then
        ((fromBigint F (decVal ds)).add ((fromBigint F (decVal fs)).div
          (fromBigint F (10 ^ fs.length)))).mag * (fromBigint F (10 ^ e.natAbs)).mag
      else ((fromBigint F (decVal ds)).add ((fromBigint F (decVal fs)).div
          (fromBigint F (10 ^ fs.length)))).mag / (fromBigint F (10 ^ e.natAbs)).mag)) :
    ∃ x, tryFromStr (sg ++ (ds ++ 46 :: (fs ++ m :: ex))) F = .ok x ∧ x.sem = F ∧
      x.cat = .normal ∧ x.sign = signNeg sg ∧
      Near (unit F F.rm) 6 (decValue ds fs e) x.mag := by
  have hD' : ((10 ^ fs.length : Nat) : ℚ) ≤ maxFinite F := by rw [cast_ten_pow]; exact hD
  have hP' : ((10 ^ e.natAbs : Nat) : ℚ) ≤ maxFinite F := by rw [cast_ten_pow]; exact hP
  have hN : (decVal fs : ℚ) ≤ maxFinite F := by
    have : (decVal fs : ℚ) ≤ ((10 ^ fs.length : Nat) : ℚ) := by
      exact_mod_cast le_of_lt (decVal_lt hf)
    linarith
  have h10 : 0 < 10 ^ fs.length := Nat.pos_of_ne_zero (by positivity)
  have aS := fracSum_appr hF (decVal ds) (decVal fs) (10 ^ fs.length) hpos h10 hI hN hD' hQ hS
  have hXpos : (0:ℚ) < (decVal ds : ℚ) + (decVal fs : ℚ) / ((10 ^ fs.length : Nat) : ℚ) := by
    have h10q : (0:ℚ) < ((10 ^ fs.length : Nat) : ℚ) := by exact_mod_cast h10
    have h1 : (0:ℚ) ≤ (decVal ds : ℚ) := Nat.cast_nonneg _
    have h2 : (0:ℚ) ≤ (decVal fs : ℚ) / ((10 ^ fs.length : Nat) : ℚ) := by positivity
    rcases hpos with h | h
    · have : (0:ℚ) < (decVal ds : ℚ) := by exact_mod_cast h
      linarith
    · have : (0:ℚ) < (decVal fs : ℚ) / ((10 ^ fs.length : Nat) : ℚ) :=
        div_pos (by exact_mod_cast h) h10q
      linarith
  have aR := applyExp_appr hF hXpos aS (fracSum_canon F hF _ _ _).1 e hP' hR
  rw [cast_ten_pow] at aR
  exact parse_fracExp_of_appr hF sg ds fs ex m e hsg hd hf hm he aR

/-- **General form, hypotheses on the exact values only** (`p ≥ 6`, or `p ≥ 5` in a nearest
    mode, through `hv`): the integer part, `10^|fs|` and `10^|e|` are at most the largest finite
    number, and the exact fraction `0.fs`, the exact sum `ds.fs` and the exact decimal value are
    `Safe` (normal range with one binade to spare). -/
theorem parse_near_fracExp_exact (hF : F.WF) (hv : unit F F.rm ≤ 1/32)
    (sg ds fs ex : List Nat) (m : Nat) (e : Int)
    (hsg : OptSign sg) (hd : allDigits ds = true) (hf : allDigits fs = true)
    (hm : isExpMark m = true) (he : parseI64 ex = some e)
    (hpos : 0 < decVal ds ∨ 0 < decVal fs)
    (hI : (decVal ds : ℚ) ≤ maxFinite F) (hD : (10:ℚ) ^ fs.length ≤ maxFinite F)
    (hP : (10:ℚ) ^ e.natAbs ≤ maxFinite F)
    (hQ : 0 < decVal fs → Safe F ((decVal fs : ℚ) / (10:ℚ) ^ fs.length))
    (hS : 0 < decVal ds → 0 < decVal fs →
      Safe F ((decVal ds : ℚ) + (decVal fs : ℚ) / (10:ℚ) ^ fs.length))
    (hR : Safe F (decValue ds fs e)) :
    ∃ x, tryFromStr (sg ++ (ds ++ 46 :: (fs ++ m :: ex))) F = .ok x ∧ x.sem = F ∧
      x.cat = .normal ∧ x.sign = signNeg sg ∧
      Near (unit F F.rm) 6 (decValue ds fs e) x.mag := by
  have hD' : ((10 ^ fs.length : Nat) : ℚ) ≤ maxFinite F := by rw [cast_ten_pow]; exact hD
  have hP' : ((10 ^ e.natAbs : Nat) : ℚ) ≤ maxFinite F := by rw [cast_ten_pow]; exact hP
  have hN : (decVal fs : ℚ) ≤ maxFinite F := by
    have : (decVal fs : ℚ) ≤ ((10 ^ fs.length : Nat) : ℚ) := by
      exact_mod_cast le_of_lt (decVal_lt hf)
    linarith
  have h10 : 0 < 10 ^ fs.length := Nat.pos_of_ne_zero (by positivity)
  have aS := fracSum_appr_exact hF hv (decVal ds) (decVal fs) (10 ^ fs.length) hpos h10 hI hN hD'
    (by rw [cast_ten_pow]; exact hQ) (by rw [cast_ten_pow]; exact hS)
  have hXpos : (0:ℚ) < (decVal ds : ℚ) + (decVal fs : ℚ) / ((10 ^ fs.length : Nat) : ℚ) := by
    have h10q : (0:ℚ) < ((10 ^ fs.length : Nat) : ℚ) := by exact_mod_cast h10
    have h1 : (0:ℚ) ≤ (decVal ds : ℚ) := Nat.cast_nonneg _
    have h2 : (0:ℚ) ≤ (decVal fs : ℚ) / ((10 ^ fs.length : Nat) : ℚ) := by positivity
    rcases hpos with h | h
    · have : (0:ℚ) < (decVal ds : ℚ) := by exact_mod_cast h
      linarith
    · have : (0:ℚ) < (decVal fs : ℚ) / ((10 ^ fs.length : Nat) : ℚ) :=
        div_pos (by exact_mod_cast h) h10q
      linarith
  have aR := applyExp_appr_exact hF hv hXpos (le_refl 4) aS (fracSum_canon F hF _ _ _).1 e hP'
    (by rw [cast_ten_pow]; exact hR)
  rw [cast_ten_pow] at aR
  exact parse_fracExp_of_appr hF sg ds fs ex m e hsg hd hf hm he aR

/-- **No exponent**, `[sign] ds . fs` with a non-zero fraction digit: four perturbations. -/
theorem parse_near_frac_exact (hF : F.WF) (hv : unit F F.rm ≤ 1/32) (sg ds fs : List Nat)
    (hsg : OptSign sg) (hd : allDigits ds = true) (hf : allDigits fs = true)
    (hz : fs.all (· == 48) = false)
    (hI : (decVal ds : ℚ) ≤ maxFinite F) (hD : (10:ℚ) ^ fs.length ≤ maxFinite F)
    (hQ : Safe F ((decVal fs : ℚ) / (10:ℚ) ^ fs.length))
    (hS : 0 < decVal ds → Safe F ((decVal ds : ℚ) + (decVal fs : ℚ) / (10:ℚ) ^ fs.length)) :
    ∃ x, tryFromStr (sg ++ (ds ++ 46 :: fs)) F = .ok x ∧ x.sem = F ∧
      x.cat = .normal ∧ x.sign = signNeg sg ∧
      Near (unit F F.rm) 4 ((decVal ds : ℚ) + (decVal fs : ℚ) / (10:ℚ) ^ fs.length) x.mag := by
  have hD' : ((10 ^ fs.length : Nat) : ℚ) ≤ maxFinite F := by rw [cast_ten_pow]; exact hD
  have hN : (decVal fs : ℚ) ≤ maxFinite F := by
    have : (decVal fs : ℚ) ≤ ((10 ^ fs.length : Nat) : ℚ) := by
      exact_mod_cast le_of_lt (decVal_lt hf)
    linarith
  have h10 : 0 < 10 ^ fs.length := Nat.pos_of_ne_zero (by positivity)
  have aS := fracSum_appr_exact hF hv (decVal ds) (decVal fs) (10 ^ fs.length)
    (Or.inr (decVal_pos hf hz)) h10 hI hN hD'
    (by rw [cast_ten_pow]; exact fun _ => hQ) (by rw [cast_ten_pow]; exact fun h _ => hS h)
  rw [cast_ten_pow] at aS
  exact parse_frac_of_appr hF sg ds fs hsg hd hf hz aS

/-- **Integer with exponent**, `[sign] ds (e|E) ex`: three perturbations. -/
theorem parse_near_intExp_exact (hF : F.WF) (hv : unit F F.rm ≤ 1/32)
    (sg ds ex : List Nat) (m : Nat) (e : Int)
    (hsg : OptSign sg) (hd : allDigits ds = true) (hm : isExpMark m = true)
    (he : parseI64 ex = some e) (hpos : 0 < decVal ds)
    (hI : (decVal ds : ℚ) ≤ maxFinite F) (hP : (10:ℚ) ^ e.natAbs ≤ maxFinite F)
    (hR : Safe F ((decVal ds : ℚ) * (10:ℚ) ^ e)) :
    ∃ x, tryFromStr (sg ++ (ds ++ m :: ex)) F = .ok x ∧ x.sem = F ∧
      x.cat = .normal ∧ x.sign = signNeg sg ∧
      Near (unit F F.rm) 3 ((decVal ds : ℚ) * (10:ℚ) ^ e) x.mag := by
  have hP' : ((10 ^ e.natAbs : Nat) : ℚ) ≤ maxFinite F := by rw [cast_ten_pow]; exact hP
  have aI := load_appr hF hpos hI
  have aR := applyExp_appr_exact hF hv (by exact_mod_cast hpos) (by norm_num) aI
    (fromBigint_canonical F _ hF).1 e hP' hR
  exact parse_intExp_of_appr hF sg ds ex m e hsg hd hm he aR

/-! ## 4. the main theorem: relative form and ulps -/

/-- The domain of the accuracy clause for `[sign] ds . fs (e|E) ex`: the integer part,
    `10^|fs|` and `10^|e|` are finite in `F` (at most the largest finite number), the value is not
    zero, and the exact fraction, the exact sum and the exact decimal value lie in the normal
    range with one binade to spare (`Safe`). -/
structure FracExpDomain (F : Sem) (sg ds fs ex : List Nat) (m : Nat) (e : Int) : Prop where
  hsg : OptSign sg
  hd : allDigits ds = true
  hf : allDigits fs = true
  hm : isExpMark m = true
  he : parseI64 ex = some e
  hpos : 0 < decVal ds ∨ 0 < decVal fs
  hI : (decVal ds : ℚ) ≤ maxFinite F
  hD : (10:ℚ) ^ fs.length ≤ maxFinite F
  hP : (10:ℚ) ^ e.natAbs ≤ maxFinite F
  hQ : 0 < decVal fs → Safe F ((decVal fs : ℚ) / (10:ℚ) ^ fs.length)
  hS : 0 < decVal ds → 0 < decVal fs →
    Safe F ((decVal ds : ℚ) + (decVal fs : ℚ) / (10:ℚ) ^ fs.length)
  hR : Safe F (decValue ds fs e)

theorem decValue_pos {ds fs : List Nat} {e : Int} (h : 0 < decVal ds ∨ 0 < decVal fs) :
    0 < decValue ds fs e := by
  unfold decValue
  have h1 : (0:ℚ) ≤ (decVal ds : ℚ) := Nat.cast_nonneg _
  have h2 : (0:ℚ) ≤ (decVal fs : ℚ) / (10:ℚ) ^ fs.length := by positivity
  have h3 : (0:ℚ) < (10:ℚ) ^ e := by positivity
  apply mul_pos _ h3
  rcases h with h | h
  · have : (0:ℚ) < (decVal ds : ℚ) := by exact_mod_cast h
    linarith
  · have : (0:ℚ) < (decVal fs : ℚ) / (10:ℚ) ^ fs.length := div_pos (by exact_mod_cast h) (by positivity)
    linarith

/-- **C14 accuracy, relative form (every rounding mode, `p ≥ 6`).**  On `FracExpDomain` the parser
    returns a normal number with the sign of the string and
    `|x - X| ≤ (6v + 24v²)·X`, `v = unit F F.rm` (`u = 2^(1-p)`; `u/2` in the nearest modes),
    `X` the exact decimal value. -/
theorem parse_accuracy_rel (hF : F.WF) (hp : 6 ≤ F.p) {sg ds fs ex : List Nat} {m : Nat} {e : Int}
    (h : FracExpDomain F sg ds fs ex m e) :
    ∃ x, tryFromStr (sg ++ (ds ++ 46 :: (fs ++ m :: ex))) F = .ok x ∧ x.sem = F ∧
      x.cat = .normal ∧ x.sign = signNeg sg ∧
      |x.mag - decValue ds fs e| ≤
        (6 * unit F F.rm + 24 * unit F F.rm ^ 2) * decValue ds fs e := by
  obtain ⟨x, h1, h2, h3, h4, h5⟩ := parse_near_fracExp_exact hF (unit_le_of_p6 hp F.rm) sg ds fs ex
    m e h.hsg h.hd h.hf h.hm h.he h.hpos h.hI h.hD h.hP h.hQ h.hS h.hR
  exact ⟨x, h1, h2, h3, h4, near_six (le_of_lt (unit_pos F F.rm)) (unit_le_of_p6 hp F.rm)
    (le_of_lt (decValue_pos h.hpos)) h5⟩

/-- **C14 accuracy in ulps, nearest modes (`p ≥ 5`).**  With `E` the binade of the exact value
    (`2^E ≤ X < 2^(E+1)`; only the upper bound is used) and `ulp = 2^(E-(p-1))`:
    `|x - X| ≤ (6 + 12u)·ulp`, and `|x - X| ≤ 6·ulp` unless `X` lies in the top `2u` fraction of
    its binade. -/
theorem parse_accuracy_ulps_nearest (hF : F.WF) (hp : 5 ≤ F.p) (hrm : F.rm = .nte ∨ F.rm = .nta)
    {sg ds fs ex : List Nat} {m : Nat} {e : Int} (h : FracExpDomain F sg ds fs ex m e)
    (E : Int) (hE : decValue ds fs e ≤ (2:ℚ) ^ (E + 1)) :
    ∃ x, tryFromStr (sg ++ (ds ++ 46 :: (fs ++ m :: ex))) F = .ok x ∧ x.sem = F ∧
      x.cat = .normal ∧ x.sign = signNeg sg ∧
      |x.mag - decValue ds fs e| ≤ (6 + 12 * u F) * F.ulp E ∧
      ((1 + 2 * u F) * decValue ds fs e ≤ (2:ℚ) ^ (E + 1) →
        |x.mag - decValue ds fs e| ≤ 6 * F.ulp E) := by
  obtain ⟨x, h1, h2, h3, h4, h5⟩ := parse_near_fracExp_exact hF (unit_le_of_p5_nearest hp hrm)
    sg ds fs ex m e h.hsg h.hd h.hf h.hm h.he h.hpos h.hI h.hD h.hP h.hQ h.hS h.hR
  have hX := decValue_pos (e := e) h.hpos
  have hrel := near_six_nearest hrm hp (le_of_lt hX) h5
  have hu := u_pos F
  refine ⟨x, h1, h2, h3, h4, ?_, ?_⟩
  · have := ulps_of_rel (F := F) (c := 3 + 6 * u F) (by linarith) hE hrel
    calc |x.mag - decValue ds fs e| ≤ 2 * (3 + 6 * u F) * F.ulp E := this
      _ = (6 + 12 * u F) * F.ulp E := by ring
  · intro htop
    have e2 : (2:ℚ) ^ (E + 1) = 2 * (2:ℚ) ^ E := by
      rw [zpow_add_one₀ (by norm_num : (2:ℚ) ≠ 0)]; ring
    calc |x.mag - decValue ds fs e| ≤ (3 + 6 * u F) * u F * decValue ds fs e := hrel
      _ = 3 * u F * ((1 + 2 * u F) * decValue ds fs e) := by ring
      _ ≤ 3 * u F * (2:ℚ) ^ (E + 1) := mul_le_mul_of_nonneg_left htop (by positivity)
      _ = 6 * F.ulp E := by rw [e2, ulp_eq_u]; ring

/-- **C14 accuracy in ulps, every mode (`p ≥ 6`).**  `|x - X| ≤ (12 + 48u)·ulp`, and
    `≤ 12·ulp` unless `X` lies in the top `4u` fraction of its binade.  The constant `6` is NOT
    attainable here for the directed modes: see `counterexample_pos_fp32` below. -/
theorem parse_accuracy_ulps_any (hF : F.WF) (hp : 6 ≤ F.p)
    {sg ds fs ex : List Nat} {m : Nat} {e : Int} (h : FracExpDomain F sg ds fs ex m e)
    (E : Int) (hE : decValue ds fs e ≤ (2:ℚ) ^ (E + 1)) :
    ∃ x, tryFromStr (sg ++ (ds ++ 46 :: (fs ++ m :: ex))) F = .ok x ∧ x.sem = F ∧
      x.cat = .normal ∧ x.sign = signNeg sg ∧
      |x.mag - decValue ds fs e| ≤ (12 + 48 * u F) * F.ulp E ∧
      ((1 + 4 * u F) * decValue ds fs e ≤ (2:ℚ) ^ (E + 1) →
        |x.mag - decValue ds fs e| ≤ 12 * F.ulp E) := by
  obtain ⟨x, h1, h2, h3, h4, h5⟩ := parse_near_fracExp_exact hF (unit_le_of_p6 hp F.rm)
    sg ds fs ex m e h.hsg h.hd h.hf h.hm h.he h.hpos h.hI h.hD h.hP h.hQ h.hS h.hR
  have hX := decValue_pos (e := e) h.hpos
  have hrel := near_six_any F.rm hp (le_of_lt hX) h5
  have hu := u_pos F
  refine ⟨x, h1, h2, h3, h4, ?_, ?_⟩
  · have := ulps_of_rel (F := F) (c := 6 + 24 * u F) (by linarith) hE hrel
    calc |x.mag - decValue ds fs e| ≤ 2 * (6 + 24 * u F) * F.ulp E := this
      _ = (12 + 48 * u F) * F.ulp E := by ring
  · intro htop
    have e2 : (2:ℚ) ^ (E + 1) = 2 * (2:ℚ) ^ E := by
      rw [zpow_add_one₀ (by norm_num : (2:ℚ) ≠ 0)]; ring
    calc |x.mag - decValue ds fs e| ≤ (6 + 24 * u F) * u F * decValue ds fs e := hrel
      _ = 6 * u F * ((1 + 4 * u F) * decValue ds fs e) := by ring
      _ ≤ 6 * u F * (2:ℚ) ^ (E + 1) := mul_le_mul_of_nonneg_left htop (by positivity)
      _ = 12 * F.ulp E := by rw [e2, ulp_eq_u]; ring

/-- no exponent (`[sign] ds . fs`): four roundings, `|x - X| ≤ (4v + 11v²)·X` -/
theorem parse_accuracy_rel_frac (hF : F.WF) (hp : 6 ≤ F.p) (sg ds fs : List Nat)
    (hsg : OptSign sg) (hd : allDigits ds = true) (hf : allDigits fs = true)
    (hz : fs.all (· == 48) = false)
    (hI : (decVal ds : ℚ) ≤ maxFinite F) (hD : (10:ℚ) ^ fs.length ≤ maxFinite F)
    (hQ : Safe F ((decVal fs : ℚ) / (10:ℚ) ^ fs.length))
    (hS : 0 < decVal ds → Safe F ((decVal ds : ℚ) + (decVal fs : ℚ) / (10:ℚ) ^ fs.length)) :
    ∃ x, tryFromStr (sg ++ (ds ++ 46 :: fs)) F = .ok x ∧ x.sem = F ∧
      x.cat = .normal ∧ x.sign = signNeg sg ∧
      |x.mag - ((decVal ds : ℚ) + (decVal fs : ℚ) / (10:ℚ) ^ fs.length)| ≤
        (4 * unit F F.rm + 11 * unit F F.rm ^ 2) *
          ((decVal ds : ℚ) + (decVal fs : ℚ) / (10:ℚ) ^ fs.length) := by
  obtain ⟨x, h1, h2, h3, h4, h5⟩ := parse_near_frac_exact hF (unit_le_of_p6 hp F.rm) sg ds fs
    hsg hd hf hz hI hD hQ hS
  have hX : (0:ℚ) ≤ (decVal ds : ℚ) + (decVal fs : ℚ) / (10:ℚ) ^ fs.length := by positivity
  exact ⟨x, h1, h2, h3, h4, near_four (le_of_lt (unit_pos F F.rm)) (unit_le_of_p6 hp F.rm) hX h5⟩

/-- integer with exponent (`[sign] ds (e|E) ex`): three roundings, `|x - X| ≤ (3v + 7v²)·X` -/
theorem parse_accuracy_rel_intExp (hF : F.WF) (hp : 6 ≤ F.p) (sg ds ex : List Nat) (m : Nat)
    (e : Int) (hsg : OptSign sg) (hd : allDigits ds = true) (hm : isExpMark m = true)
    (he : parseI64 ex = some e) (hpos : 0 < decVal ds)
    (hI : (decVal ds : ℚ) ≤ maxFinite F) (hP : (10:ℚ) ^ e.natAbs ≤ maxFinite F)
    (hR : Safe F ((decVal ds : ℚ) * (10:ℚ) ^ e)) :
    ∃ x, tryFromStr (sg ++ (ds ++ m :: ex)) F = .ok x ∧ x.sem = F ∧
      x.cat = .normal ∧ x.sign = signNeg sg ∧
      |x.mag - (decVal ds : ℚ) * (10:ℚ) ^ e| ≤
        (3 * unit F F.rm + 7 * unit F F.rm ^ 2) * ((decVal ds : ℚ) * (10:ℚ) ^ e) := by
  obtain ⟨x, h1, h2, h3, h4, h5⟩ := parse_near_intExp_exact hF (unit_le_of_p6 hp F.rm) sg ds ex m e
    hsg hd hm he hpos hI hP hR
  have hX : (0:ℚ) ≤ (decVal ds : ℚ) * (10:ℚ) ^ e := by positivity
  exact ⟨x, h1, h2, h3, h4, near_three (le_of_lt (unit_pos F F.rm)) (unit_le_of_p6 hp F.rm) hX h5⟩

/-! ## 5. the value zero is exact -/

/-- `[sign] ds . fs (e|E) ex` with `decVal ds = decVal fs = 0` (and `10^|fs|`, `10^|e|` finite):
    the result is a zero with the sign of the string. -/
theorem parse_zero_fracExp (hF : F.WF) (sg ds fs ex : List Nat) (m : Nat) (e : Int)
    (hsg : OptSign sg) (hd : allDigits ds = true) (hf : allDigits fs = true)
    (hm : isExpMark m = true) (he : parseI64 ex = some e)
    (h0 : decVal ds = 0) (h1 : decVal fs = 0)
    (hD : (10:ℚ) ^ fs.length ≤ maxFinite F) (hP : (10:ℚ) ^ e.natAbs ≤ maxFinite F) :
    ∃ x, tryFromStr (sg ++ (ds ++ 46 :: (fs ++ m :: ex))) F = .ok x ∧
      x.cat = .zero ∧ x.sign = signNeg sg := by
  obtain ⟨hp, _, _, _, _, _, hS, hR, _⟩ := parse_accuracy_partial F hF sg ds fs ex m e hsg hd hf hm he
  simp only [h0, h1] at hp hS hR
  refine ⟨_, hp, ?_, rfl⟩
  have hD' : ((10 ^ fs.length : Nat) : ℚ) ≤ maxFinite F := by rw [cast_ten_pow]; exact hD
  have hP' : ((10 ^ e.natAbs : Nat) : ℚ) ≤ maxFinite F := by rw [cast_ten_pow]; exact hP
  have h10 : 0 < 10 ^ fs.length := Nat.pos_of_ne_zero (by positivity)
  have hppos : 0 < 10 ^ e.natAbs := Nat.pos_of_ne_zero (by positivity)
  have aP := load_appr hF hppos hP'
  have hQc := zero_div_cat hF h10 hD'
  have hQs := zero_div_sign hF h10 hD'
  have hIs : (fromBigint F 0).sign = false := by rw [fromBigint_zero]; rfl
  have hSz : ((fromBigint F 0).add ((fromBigint F 0).div (fromBigint F (10 ^ fs.length)))).cat
      = .zero := by
    have e1 : Spec.add F F.rm (fromBigint F 0)
        ((fromBigint F 0).div (fromBigint F (10 ^ fs.length))) = .zero false := by
      simp [Spec.add, Spec.isNan, Spec.isInf, Spec.isZero, load_zero_cat, hQc, hQs, hIs]
    rw [e1] at hS; exact (toRes_zero hS).1
  have : ∃ s, (applyExp F ((fromBigint F 0).add
      ((fromBigint F 0).div (fromBigint F (10 ^ fs.length)))) (some e)).toRes = .zero s := by
    rw [hR]
    split
    · refine ⟨((fromBigint F 0).add ((fromBigint F 0).div (fromBigint F (10 ^ fs.length)))).sign ^^
        (fromBigint F (10 ^ e.natAbs)).sign, ?_⟩
      simp [Spec.mul, Spec.isNan, Spec.isInf, Spec.isZero, hSz, aP.cat]
    · refine ⟨((fromBigint F 0).add ((fromBigint F 0).div (fromBigint F (10 ^ fs.length)))).sign ^^
        (fromBigint F (10 ^ e.natAbs)).sign, ?_⟩
      simp [Spec.div, Spec.isNan, Spec.isInf, Spec.isZero, hSz, aP.cat]
  obtain ⟨s, hs⟩ := this
  exact (toRes_zero hs).1

/-! ## 6. examples: the hypotheses are satisfiable -/

section Examples

/-- "12.5e1" in binary16 (`X = 125`, binade `E = 6`) -/
theorem dom_fp16 : FracExpDomain FP16 [] [49, 50] [53] [49] 101 1 := by
  have hds : decVal [49, 50] = 12 := by decide
  have hfs : decVal [53] = 5 := by decide
  refine ⟨Or.inl rfl, by decide, by decide, by decide, by decide, Or.inl (by decide),
    ?_, ?_, ?_, ?_, ?_, ?_⟩
  all_goals
    norm_num [decValue, Safe, maxFinite, FP16, Sem.emin, Sem.emax, Sem.bias, hds, hfs]

example : strBytes "12.5e1" = [] ++ ([49, 50] ++ 46 :: ([53] ++ 101 :: [49])) := by decide

theorem val_fp16 : decValue [49, 50] [53] 1 = 125 := by
  have hds : decVal [49, 50] = 12 := by decide
  have hfs : decVal [53] = 5 := by decide
  norm_num [decValue, hds, hfs]

/-- the main theorem instantiated: within `6 + 12u` ulps, and within 6 ulps because `125` is not
    in the top `2u` fraction of `[64, 128)` -/
example : ∃ x, tryFromStr (strBytes "12.5e1") FP16 = .ok x ∧ x.sem = FP16 ∧ x.cat = .normal ∧
    x.sign = false ∧ |x.mag - 125| ≤ 6 * FP16.ulp 6 := by
  obtain ⟨x, h1, h2, h3, h4, _, h6⟩ := parse_accuracy_ulps_nearest (F := FP16) (by decide)
    (by decide) (Or.inl rfl) dom_fp16 6 (by rw [val_fp16]; norm_num)
  rw [val_fp16] at h6
  exact ⟨x, h1, h2, h3, h4, h6 (by norm_num [u, FP16])⟩

/-- (the actual result is exact: `125 = 2000·2^(6-10)`) -/
example : tryFromStr (strBytes "12.5e1") FP16 = .ok ⟨FP16, false, 6, 2000, .normal⟩ := by decide

/-- "3.14159e-2" in binary32 (`X = 0.0314159`, binade `E = -5`) -/
theorem dom_fp32 : FracExpDomain FP32 [] [51] [49, 52, 49, 53, 57] [45, 50] 101 (-2) := by
  have hds : decVal [51] = 3 := by decide
  have hfs : decVal [49, 52, 49, 53, 57] = 14159 := by decide
  refine ⟨Or.inl rfl, by decide, by decide, by decide, by decide, Or.inl (by decide),
    ?_, ?_, ?_, ?_, ?_, ?_⟩
  all_goals
    norm_num [decValue, Safe, maxFinite, FP32, Sem.emin, Sem.emax, Sem.bias, hds, hfs]

theorem val_fp32 : decValue [51] [49, 52, 49, 53, 57] (-2) = 314159 / 10000000 := by
  have hds : decVal [51] = 3 := by decide
  have hfs : decVal [49, 52, 49, 53, 57] = 14159 := by decide
  norm_num [decValue, hds, hfs]

example := parse_accuracy_ulps_nearest (F := FP32) (by decide) (by decide) (Or.inl rfl) dom_fp32 (-5)
  (by rw [val_fp32]; norm_num)

example := parse_accuracy_rel (F := FP32) (by decide) (by decide) dom_fp32

/-! ### A directed mode exceeds 6 ulps of the exact value's binade

binary32 with `RoundingMode::Positive`, the string `295147905.01e12`.  The exact value
`X = 2.9514790501·10^20` lies just below `2^68` (binade `E = 67`, `ulp = 2^44`); the integer part is
rounded up by almost one ulp (`295147905 → 295147936`), the sum again (`→ 295147968`), `10^12` is
rounded up, and the product is rounded up across the binade boundary to `(2^23+3)·2^45`.
The error is `6.0096…` ulps of the binade of `X` (`3.0048` ulps of the result's binade).
The string is inside `FracExpDomain`, so `parse_accuracy_ulps_any` applies (bound `12 + 48u`). -/

def FP32pos : Sem := ⟨8, 24, .pos⟩

theorem dom_fp32pos : FracExpDomain FP32pos [] [50, 57, 53, 49, 52, 55, 57, 48, 53] [48, 49] [49, 50]
    101 12 := by
  have hds : decVal [50, 57, 53, 49, 52, 55, 57, 48, 53] = 295147905 := by decide
  have hfs : decVal [48, 49] = 1 := by decide
  refine ⟨Or.inl rfl, by decide, by decide, by decide, by decide, Or.inl (by decide),
    ?_, ?_, ?_, ?_, ?_, ?_⟩
  all_goals
    norm_num [decValue, Safe, maxFinite, FP32pos, Sem.emin, Sem.emax, Sem.bias, hds, hfs]

theorem val_fp32pos : decValue [50, 57, 53, 49, 52, 55, 57, 48, 53] [48, 49] 12 =
    295147905010000000000 := by
  have hds : decVal [50, 57, 53, 49, 52, 55, 57, 48, 53] = 295147905 := by decide
  have hfs : decVal [48, 49] = 1 := by decide
  norm_num [decValue, hds, hfs]

theorem counterexample_pos_fp32 :
    ∃ x, tryFromStr (strBytes "295147905.01e12") FP32pos = .ok x ∧ x.cat = .normal ∧
      (2:ℚ) ^ (67:Int) ≤ decValue [50, 57, 53, 49, 52, 55, 57, 48, 53] [48, 49] 12 ∧
      decValue [50, 57, 53, 49, 52, 55, 57, 48, 53] [48, 49] 12 < (2:ℚ) ^ (68:Int) ∧
      6 * FP32pos.ulp 67 <
        |x.mag - decValue [50, 57, 53, 49, 52, 55, 57, 48, 53] [48, 49] 12| := by
  have hx : tryFromStr (strBytes "295147905.01e12") FP32pos =
      .ok ⟨FP32pos, false, 68, 8388611, .normal⟩ := by decide
  have hX := val_fp32pos
  refine ⟨_, hx, rfl, ?_, ?_, ?_⟩
  · rw [hX]; norm_num
  · rw [hX]; norm_num
  · rw [hX, Flt.mag_eq]
    norm_num [Sem.ulp, FP32pos, abs_of_nonneg]

/-- a second instance, format `(e, p) = (7, 6)` / Positive, "1121.01e12": `6.278…` ulps -/
example : tryFromStr (strBytes "1121.01e12") ⟨7, 6, .pos⟩ = .ok ⟨⟨7, 6, .pos⟩, false, 50, 35, .normal⟩ ∧
    (2:ℚ) ^ (49:Int) ≤ 112101 * 10 ^ 10 ∧ (112101 * 10 ^ 10 : ℚ) < (2:ℚ) ^ (50:Int) ∧
    6 * (2:ℚ) ^ ((49:Int) - (6 - 1)) < |(35:ℚ) * (2:ℚ) ^ ((50:Int) - (6 - 1)) - 112101 * 10 ^ 10| := by
  refine ⟨by decide, by norm_num, by norm_num, ?_⟩
  norm_num [abs_of_nonneg]

/-- the binary32 / Positive string is in the domain of the theorems of section 4 -/
example := parse_accuracy_ulps_any (F := FP32pos) (by decide) (by decide) dom_fp32pos 67
  (by rw [val_fp32pos]; norm_num)

end Examples

/-
-- NOT PROVED

1. The literal "within 6 ulps" for the DIRECTED modes (`zero`, `pos`, `neg`, `none`), with the ulp
   of the binade of the exact value: it is FALSE (`counterexample_pos_fp32`: binary32 / Positive,
   "295147905.01e12", 6.0096 ulps; in the format (e,p) = (7,6) / Positive, "1121.01e12" gives
   6.28 ulps).  Proved instead: `parse_accuracy_ulps_any` (`(12 + 48u)` ulps; `12` ulps outside the
   top `4u` fraction of a binade).  With the ulp of the larger of the two binades (exact value,
   result) no string above 5.4 ulps was found by a (non-exhaustive) search of the model.

2. Nearest modes: `parse_accuracy_ulps_nearest` gives `(6 + 12u)` ulps, and exactly `6` ulps
   whenever `(1+2u)·X ≤ 2^(E+1)`.  The clean "6 ulps" for `X` in the top `2u` fraction of its
   binade (where the result may be `2^(E+1)`) is not derivable from the standard model
   (`(1-u/2)^(-6) - 1 > 3u`); the worst error found by search in a nearest mode is 3 ulps.

3. Range hypotheses.  The theorems assume the exact fraction `0.fs`, the exact sum `ds.fs` and the
   exact decimal value to be `Safe` (`2^(emin+1) ≤ · ≤ 2^emax`): results in the lowest normal
   binade, in the top binade, and subnormal intermediate results (e.g. a fraction `0.fs < 2^(emin+1)`
   next to a large integer part, where the absolute error would still be harmless) are not covered.
   Near the overflow threshold the claim is false in the upward mode
   (`C14.lean`: "6.547e4" in binary16/Positive parses to `+inf`).
   `parse_near_fracExp` has the sharper hypotheses `InRange` on the computed operands and no
   condition on `p`.

4. Strings without a fraction and without an exponent are `parse_integer_exact` in `C14.lean`;
   `[sign] ds . fs` and `[sign] ds e ex` are `parse_accuracy_rel_frac` / `_intExp` (relative form
   only; the conversion to ulps is `RelErr.ulps_of_rel`).
-/

end Arp.C14
