import Arp.Props.C16
/-!
# C19 (part) — iteration counts of the bounded loops of `powi` and `exp`

The loops of the model are structural recursions (on a syntactic bound or on fuel), so
termination holds by construction; the theorems here state how much fuel is enough.
-/
namespace Arp.C19
open Arp

theorem powiLoop_fuel (fuel k n : Nat) (e v : Flt) (h : n < 2 ^ fuel) :
    powiLoop fuel n e v = powiLoop (fuel + k) n e v := by
  induction fuel generalizing n e v with
  | zero =>
    have : n = 0 := by simpa using h
    subst this
    cases k <;> simp [powiLoop]
  | succ fuel ih =>
    rw [show fuel + 1 + k = (fuel + k) + 1 by omega]
    simp only [powiLoop]
    split
    · rfl
    · exact ih _ _ _ (by rw [Nat.pow_succ] at h; omega)

/-- the loop of `powi` never runs out of its 64 iterations for a `u64` exponent -/
theorem powiLoop_64 (k n : Nat) (e v : Flt) (h : n < 2 ^ 64) :
    powiLoop 64 n e v = powiLoop (64 + k) n e v := powiLoop_fuel 64 k n e v h

/-- `y > 1.0` for a canonical non-negative number, in terms of the fields -/
theorem gt_one_iff (G : Sem) (y : Flt) (hs : y.sem = G) (hc : y.cat = .normal) (hsg : y.sign = false) :
    y.gt (Flt.one G false) = true ↔ (0 < y.exp ∨ (y.exp = 0 ∧ 2 ^ (G.p - 1) < y.mant)) := by
  obtain ⟨s, sg, e, m, c⟩ := y
  simp only at hs hc hsg
  subst hs hc hsg
  simp only [Flt.gt, Flt.partialCmp, Flt.one, bne_self_eq_false, Bool.false_eq_true, if_false,
    Nat.shiftLeft_eq, one_mul]
  by_cases h1 : e < 0
  · simp [h1, boolToOrd]; omega
  · by_cases h2 : e > 0
    · simp [h1, h2, boolToOrd]
    · have : e = 0 := by omega
      subst this
      simp only [lt_self_iff_false, if_false]
      rcases Nat.lt_trichotomy m (2 ^ (s.p - 1)) with h | h | h
      · simp [Nat.compare_eq_lt.mpr h, boolToOrd]; omega
      · simp [Nat.compare_eq_eq.mpr h]; omega
      · simp [Nat.compare_eq_gt.mpr h, boolToOrd, h]

/-- explicit result of `scale(-3, Zero)` when the exponent falls below `emin` -/
theorem scale_m3_underflow (G : Sem) (hG : G.WF) (e : Int) (m : Nat) (hm1 : 2 ^ (G.p - 1) ≤ m)
    (hm2 : m < 2 ^ G.p) (he : e - 3 < G.emin) (he2 : e ≤ G.emax) :
    (⟨G, false, e, m, .normal⟩ : Flt).scale (-3) .zero = Flt.zero G false ∨
    ∃ m', m' < 2 ^ (G.p - 1) ∧
      (⟨G, false, e, m, .normal⟩ : Flt).scale (-3) .zero = ⟨G, false, G.emin, m', .normal⟩ := by
  have hp := hG.2
  have hm0 : m ≠ 0 := by have := Nat.one_le_two_pow (n := G.p - 1); omega
  have hmsb : msb m = G.p := by
    have := msb_unique (n := m) (k := G.p - 1) hm1 (by rw [show G.p - 1 + 1 = G.p by omega]; exact hm2)
    omega
  have hmm := Sem.emin_le_emax hG
  obtain ⟨k, hk⟩ : ∃ k : Nat, (k : Int) = G.emin - (e + -3) := ⟨(G.emin - (e + -3)).toNat, by omega⟩
  have hk1 : 1 ≤ k := by omega
  have hlt : m >>> k < 2 ^ (G.p - 1) := by
    rw [Nat.shiftRight_eq_div_pow, Nat.div_lt_iff_lt_mul (by positivity)]
    calc m < 2 ^ G.p := hm2
      _ = 2 ^ (G.p - 1) * 2 ^ 1 := by rw [← Nat.pow_add]; congr 1; omega
      _ ≤ 2 ^ (G.p - 1) * 2 ^ k := Nat.mul_le_mul_left _ (Nat.pow_le_pow_right (by norm_num) hk1)
  rw [scale_small _ _ _ (by exact hG) (by norm_num) (by norm_num)]
  unfold Flt.scaleCore Flt.new
  simp only [Flt.isNormal, beq_self_eq_true, Bool.not_true, Bool.false_eq_true, if_false, hm0]
  unfold Flt.normalize
  simp only [ne_eq, not_true_eq_false, if_false, hmsb, sub_self, add_zero]
  have hec : (if e + -3 < G.emin then G.emin - (e + -3) else 0) = (k : Int) := by
    rw [if_pos (by omega), hk]
  rw [hec, if_pos (by omega), if_neg (by omega), if_neg (by omega), if_pos (by omega)]
  simp only [Int.toNat_natCast, Flt.normalize.stepII, needRoundAway, Bool.false_eq_true, if_false]
  by_cases hz : m >>> k = 0
  · left; simp [hz, Flt.zero]
  · right
    refine ⟨m >>> k, hlt, ?_⟩
    have : e + -3 + (k : Int) = G.emin := by omega
    simp [hz, this]

/-- one iteration of the `while x > one` loop of `exp_range_reduce` -/
theorem scale_m3 (G : Sem) (hG : G.WF) (y : Flt) (hs : y.sem = G) (hcan : y.Canonical)
    (hc : y.cat = .normal) (hsg : y.sign = false) (hgt : y.gt (Flt.one G false) = true) :
    (y.scale (-3) .zero).Canonical ∧ (y.scale (-3) .zero).sem = G ∧
    (y.scale (-3) .zero).sign = false ∧
    ((y.scale (-3) .zero).cat = .normal ∨ (y.scale (-3) .zero).cat = .zero) ∧
    ((y.scale (-3) .zero).cat = .normal → (y.scale (-3) .zero).gt (Flt.one G false) = true →
      (y.scale (-3) .zero).exp = y.exp - 3) := by
  have hsc := scale_canonical y (-3) .zero (by rw [hs]; exact hG) hcan
  refine ⟨hsc.1, hsc.2.trans hs, ?_⟩
  obtain ⟨h1, h2, h3, h4, h5⟩ := (Flt.canonical_normal hc).mp hcan
  have hgt' := (gt_one_iff G y hs hc hsg).mp hgt
  obtain ⟨s, sg, e, m, c⟩ := y
  simp only at hs hc hsg h1 h2 h3 h4 h5 hgt'
  subst hs hc hsg
  have hmin := Sem.emin_le_zero hG
  have hm1 : 2 ^ (s.p - 1) ≤ m := by
    rcases hgt' with h | ⟨_, h⟩
    · rcases h5 with h5 | h5
      · exact h5
      · omega
    · omega
  by_cases he : s.emin ≤ e - 3
  · -- stays in the normal range: exact
    have hcan' : (⟨s, false, e - 3, m, .normal⟩ : Flt).Canonical := by
      rw [Flt.canonical_normal rfl]; exact ⟨he, by simp only; omega, h3, h4, Or.inl hm1⟩
    have : (⟨s, false, e, m, .normal⟩ : Flt).scale (-3) .zero = ⟨s, false, e - 3, m, .normal⟩ := by
      rw [scale_small _ _ _ (by exact hG) (by norm_num) (by norm_num)]
      unfold Flt.scaleCore Flt.new
      have hm0 : m ≠ 0 := by omega
      simp only [Flt.isNormal, beq_self_eq_true, Bool.not_true, Bool.false_eq_true, if_false, hm0]
      rw [show e + -3 = e - 3 by ring]
      exact normalize_id_of_canonical _ _ rfl hcan'
    rw [this]
    exact ⟨rfl, Or.inl rfl, fun _ _ => rfl⟩
  · rcases scale_m3_underflow s hG e m hm1 h4 (by omega) h2 with h | ⟨m', hm', h⟩
    · rw [h]; exact ⟨rfl, Or.inr rfl, fun hn => by simp [Flt.zero] at hn⟩
    · rw [h]
      refine ⟨rfl, Or.inl rfl, fun _ hg => ?_⟩
      have := (gt_one_iff s _ rfl rfl rfl).mp hg
      simp only at this
      omega

/-- number of `scale(-3)` steps needed from exponent `e`: `⌈(e+1)/3⌉` -/
def redBound (e : Int) : Nat := ((e + 3) / 3).toNat

theorem zero_not_gt_one (G : Sem) (y : Flt) (hc : y.cat = .zero) : y.gt (Flt.one G false) = false := by
  simp [Flt.gt, Flt.partialCmp, hc, Flt.one, boolToOrd]

theorem expReduceLoop_terminates (G : Sem) (hG : G.WF) (fuel : Nat) (y : Flt) (steps : Nat)
    (hs : y.sem = G) (hcan : y.Canonical) (hsg : y.sign = false)
    (hcat : y.cat = .normal ∨ y.cat = .zero)
    (hfuel : y.gt (Flt.one G false) = true → redBound y.exp + 1 ≤ fuel) (h1 : 1 ≤ fuel) :
    ∃ z s, expReduceLoop fuel y (Flt.one G false) steps = some (z, s) ∧
      z.gt (Flt.one G false) = false ∧ steps ≤ s ∧
      s ≤ steps + (if y.gt (Flt.one G false) = true then redBound y.exp else 0) := by
  induction fuel generalizing y steps with
  | zero => omega
  | succ fuel ih =>
    rw [expReduceLoop]
    by_cases hgt : y.gt (Flt.one G false) = true
    · rw [if_pos hgt, if_pos hgt]
      have hc : y.cat = .normal := by
        rcases hcat with h | h
        · exact h
        · rw [zero_not_gt_one G y h] at hgt; cases hgt
      have hexp : 0 ≤ y.exp := by
        rcases (gt_one_iff G y hs hc hsg).mp hgt with h | ⟨h, _⟩ <;> omega
      have hb1 : 1 ≤ redBound y.exp := by unfold redBound; omega
      have hf := hfuel hgt
      obtain ⟨a, b, c, d, e⟩ := scale_m3 G hG y hs hcan hc hsg hgt
      have hstep : (y.scale (-3) .zero).gt (Flt.one G false) = true →
          redBound (y.scale (-3) .zero).exp + 1 = redBound y.exp := by
        intro hg
        have hn : (y.scale (-3) .zero).cat = .normal := by
          rcases d with h | h
          · exact h
          · rw [zero_not_gt_one G _ h] at hg; cases hg
        rw [e hn hg]; unfold redBound; omega
      obtain ⟨z, s, hz1, hz2, hz3, hz4⟩ := ih (y.scale (-3) .zero) (steps + 1) b a c d
        (fun hg => by have := hstep hg; omega) (by omega)
      refine ⟨z, s, hz1, hz2, by omega, ?_⟩
      split at hz4
      · rename_i hg; have := hstep hg; omega
      · omega
    · rw [if_neg hgt, if_neg hgt]
      exact ⟨y, steps, rfl, by simpa using hgt, le_refl _, le_refl _⟩

/-- **`exp_range_reduce`: the `while x > one` loop terminates after at most `⌈(x.exp+1)/3⌉`
    iterations** (one more unit of fuel for the final test) — every `scale(-3, Zero)` lowers the
    exponent by exactly 3 while the value stays above one. -/
theorem exp_reduce_fuel (x : Flt) (hF : x.sem.WF) (hc : x.Canonical) (hn : x.cat = .normal)
    (hs : x.sign = false) (fuel : Nat) (hfuel : redBound x.exp + 1 ≤ fuel) :
    ∃ y steps, expReduceLoop fuel x (fromU64 x.sem 1) 0 = some (y, steps) ∧
      steps ≤ redBound x.exp ∧ y.gt (fromU64 x.sem 1) = false := by
  rw [C16.fromU64_one x.sem hF]
  obtain ⟨z, s, h1, h2, _, h4⟩ := expReduceLoop_terminates x.sem hF fuel x 0 rfl hc hs (Or.inl hn)
    (fun _ => hfuel) (by omega)
  refine ⟨z, s, h1, ?_, h2⟩
  split at h4 <;> omega

/-- hence `exp_range_reduce` returns a value -/
theorem expRangeReduce_isSome (x : Flt) (hF : x.sem.WF) (hc : x.Canonical) (hn : x.cat = .normal)
    (hs : x.sign = false) (fuel : Nat) (hfuel : redBound x.exp + 1 ≤ fuel) :
    (expRangeReduce fuel x).isSome = true := by
  obtain ⟨y, steps, h, _, _⟩ := exp_reduce_fuel x hF hc hn hs fuel hfuel
  unfold expRangeReduce
  simp only [h]; rfl

example : expReduceLoop 7 ⟨FP16, false, 15, 2047, .normal⟩ (fromU64 FP16 1) 0
    = some (⟨FP16, false, -3, 2047, .normal⟩, 6) := by decide

/-- upper bound of the magnitude by the exponent -/
theorem mag_lt_pow (x : Flt) (h : x.mant < 2 ^ x.sem.p) : x.mag < (2:ℚ) ^ (x.exp + 1) := by
  rw [Flt.mag_eq]
  have hm2 : (x.mant : ℚ) < 2 ^ x.sem.p := by exact_mod_cast h
  calc (x.mant : ℚ) * (2 : ℚ) ^ (x.exp - ((x.sem.p : Int) - 1))
      < 2 ^ x.sem.p * (2 : ℚ) ^ (x.exp - ((x.sem.p : Int) - 1)) :=
        mul_lt_mul_of_pos_right hm2 (by positivity)
    _ = (2 : ℚ) ^ (x.exp + 1) := by
        rw [← zpow_natCast, ← zpow_add₀ (by norm_num : (2 : ℚ) ≠ 0)]; congr 1; ring

theorem pow_le_mag (x : Flt) (hp : 1 ≤ x.sem.p) (h : 2 ^ (x.sem.p - 1) ≤ x.mant) : (2:ℚ) ^ x.exp ≤ x.mag := by
  rw [Flt.mag_eq]
  have hm2 : (2:ℚ) ^ (x.sem.p - 1) ≤ (x.mant : ℚ) := by exact_mod_cast h
  calc (2:ℚ) ^ x.exp = 2 ^ (x.sem.p - 1) * (2 : ℚ) ^ (x.exp - ((x.sem.p : Int) - 1)) := by
        rw [← zpow_natCast, ← zpow_add₀ (by norm_num : (2 : ℚ) ≠ 0)]; congr 1
        have : ((x.sem.p - 1 : Nat) : Int) = (x.sem.p : Int) - 1 := by omega
        rw [this]; ring
    _ ≤ (x.mant : ℚ) * (2 : ℚ) ^ (x.exp - ((x.sem.p : Int) - 1)) :=
        mul_le_mul_of_nonneg_right hm2 (by positivity)

/-- widening never raises the exponent -/
theorem widen_exp_le (x : Flt) (G : Sem) (rm : RM) (hge : x.sem.e ≤ G.e) (hgp : x.sem.p ≤ G.p)
    (hF : x.sem.WF) (hG : G.WF) (hx : x.cat = .normal) (hc : x.Canonical) :
    (x.castWithRm G rm).exp ≤ x.exp := by
  obtain ⟨a, b, c, d, e⟩ := C06.widen_lossless_normal x G rm hge hgp hF hG hx hc
  obtain ⟨h1, h2, h3, h4, h5⟩ := (Flt.canonical_normal hx).mp hc
  obtain ⟨g1, g2, g3, g4, g5⟩ := (Flt.canonical_normal b).mp c
  rcases g5 with g5 | g5
  · have hlo := pow_le_mag (x.castWithRm G rm) (by rw [a]; have := hG.2; omega) g5
    have hhi := mag_lt_pow x h4
    rw [e] at hlo
    have : (2:ℚ) ^ (x.castWithRm G rm).exp < (2:ℚ) ^ (x.exp + 1) := lt_of_le_of_lt hlo hhi
    have := (zpow_lt_zpow_iff_right₀ (by norm_num : (1:ℚ) < 2)).mp this
    omega
  · rw [g5, a]
    have := Sem.emin_anti hge
    omega

theorem redBound_mono {a b : Int} (h : a ≤ b) : redBound a ≤ redBound b := by
  unfold redBound; omega

/-- **`exp` terminates**: for every canonical operand, `⌈(x.exp+1)/3⌉ + 1` units of fuel are
    enough (in particular `⌈(emax+1)/3⌉ + 1` for the whole format). -/
theorem exp_terminates (x : Flt) (hF : x.sem.WF) (hc : x.Canonical) (fuel : Nat)
    (hfuel : redBound x.exp + 1 ≤ fuel) : (x.expFuel fuel).isSome = true := by
  unfold Flt.expFuel
  cases hx : x.cat
  · simp [Flt.isZero, Flt.isInf, hx]
  · simp [Flt.isZero, Flt.isInf, Flt.isNormal, hx]
  · have hG : x.expSem.WF := Sem.increaseExponent_WF (Sem.growLog_WF hF _) 10
    simp only [Flt.isZero, Flt.isInf, Flt.isNormal, hx, show (Cat.normal == Cat.zero) = false from rfl,
      show (Cat.normal == Cat.inf) = false from rfl, beq_self_eq_true, Bool.not_true,
      Bool.false_eq_true, if_false]
    obtain ⟨a, b, c, d, e⟩ := C06.widen_lossless_normal x x.expSem
      x.sem.rm (by simp [Flt.expSem, Sem.increaseExponent, Sem.growLog])
      (by simp [Flt.expSem, Sem.increaseExponent, Sem.growLog]; omega)
      hF hG hx hc
    have hexp := widen_exp_le x x.expSem x.sem.rm
      (by simp [Flt.expSem, Sem.increaseExponent, Sem.growLog])
      (by simp [Flt.expSem, Sem.increaseExponent, Sem.growLog]; omega)
      hF hG hx hc
    cases hs : x.sign
    · simp only [Bool.false_eq_true, if_false, Option.isSome_map]
      exact expRangeReduce_isSome _ (by rw [a]; exact hG) c b (by rw [d, hs])
        fuel (le_trans (Nat.add_le_add_right (redBound_mono hexp) 1) hfuel)
    · simp only [if_true, Option.isSome_map]
      set y := (x.cast x.expSem).neg with hy
      have hys : y.sem = x.expSem := a
      have hyc : y.Canonical := c
      have hyn : y.cat = .normal := b
      have hysg : y.sign = false := by rw [hy]; show (!(x.castWithRm _ _).sign) = false; rw [d, hs]; rfl
      have hye : y.exp ≤ x.exp := hexp
      have hyF : y.sem.WF := by rw [hys]; exact hG
      have hG2 : y.expSem.WF := Sem.increaseExponent_WF (Sem.growLog_WF hyF _) 10
      obtain ⟨a', b', c', d', e'⟩ := C06.widen_lossless_normal y y.expSem y.sem.rm
        (by simp [Flt.expSem, Sem.increaseExponent, Sem.growLog])
        (by simp [Flt.expSem, Sem.increaseExponent, Sem.growLog]; omega)
        hyF hG2 hyn hyc
      have hexp' := widen_exp_le y y.expSem y.sem.rm
        (by simp [Flt.expSem, Sem.increaseExponent, Sem.growLog])
        (by simp [Flt.expSem, Sem.increaseExponent, Sem.growLog]; omega)
        hyF hG2 hyn hyc
      exact expRangeReduce_isSome _ (by rw [a']; exact hG2) c' b'
        (by rw [d', hysg]) fuel
        (le_trans (Nat.add_le_add_right (redBound_mono (le_trans hexp' hye)) 1) hfuel)
  · simp [Flt.isZero, hx]

/-- one fuel bound for the whole format: `⌈(emax+1)/3⌉ + 1` -/
theorem exp_terminates_format (x : Flt) (hF : x.sem.WF) (hc : x.Canonical) (fuel : Nat)
    (hfuel : redBound x.sem.emax + 1 ≤ fuel) : (x.expFuel fuel).isSome = true := by
  apply exp_terminates x hF hc fuel
  have : x.exp ≤ x.sem.emax := by
    by_cases hx : x.cat = .normal
    · exact ((Flt.canonical_normal hx).mp hc).2.1
    · rw [((Flt.canonical_special hx).mp hc).1]; have := Sem.emax_pos hF; omega
  have := redBound_mono this
  omega

/-- FP16: seven units of fuel suffice for every operand (`emax = 15`) -/
example : redBound FP16.emax + 1 = 7 := by decide

end Arp.C19
