import Arp.Lemmas.Parse
import Arp.Props.C01
import Arp.Props.C04
import Arp.Props.C08Load
/-!
# C14 — parsing decimal strings (`Float::try_from_str`, string.rs:185-367)

Strings are byte lists.  The grammar below is written from the property text and does not
mention the model except for `GoodExp` (the text accepted by Rust's `str::parse::<i64>`,
characterised independently by `goodExp_iff`).
-/
namespace Arp.C14
open Arp

/-! ## The grammar -/

/-- exponent text accepted by Rust's `str::parse::<i64>`: optional sign, ≥ 1 digit, value within i64 -/
def GoodExp (l : List Nat) : Prop := (parseI64 l).isSome = true

instance (l : List Nat) : Decidable (GoodExp l) := by unfold GoodExp; infer_instance

/-- the letters of "inf" / "nan" in either case: `i n f a I N F A` -/
def isLetterOfInfNan (b : Nat) : Bool :=
  b == 105 || b == 110 || b == 102 || b == 97 || b == 73 || b == 78 || b == 70 || b == 65

/-- optional sign: nothing, `+` or `-` -/
def OptSign (sg : List Nat) : Prop := sg = [] ∨ sg = [43] ∨ sg = [45]

/-- optional fraction: nothing, or `.` followed by digits (possibly none) -/
inductive FracPart : List Nat → Prop
  | none : FracPart []
  | some (fs : List Nat) : allDigits fs = true → FracPart (46 :: fs)

/-- optional exponent: nothing, or `e`/`E` followed by a `GoodExp` -/
inductive ExpPart : List Nat → Prop
  | none : ExpPart []
  | some (m : Nat) (ex : List Nat) : isExpMark m = true → GoodExp ex → ExpPart (m :: ex)

/-- body (after the optional sign): `digits* [ '.' digits* ] [ (e|E) exponent ]`,
    or inf/nan in any letter case -/
inductive Body : List Nat → Prop
  | nan (a b c : Nat) : (a = 110 ∨ a = 78) → (b = 97 ∨ b = 65) → (c = 110 ∨ c = 78) → Body [a, b, c]
  | inf (a b c : Nat) : (a = 105 ∨ a = 73) → (b = 110 ∨ b = 78) → (c = 102 ∨ c = 70) → Body [a, b, c]
  | number (ds fr ex : List Nat) : allDigits ds = true → FracPart fr → ExpPart ex →
      Body (ds ++ fr ++ ex)

/-- the accepted language: a non-empty string consisting of an optional sign and a body -/
def Grammar (s : List Nat) : Prop := s ≠ [] ∧ ∃ sg v, s = sg ++ v ∧ OptSign sg ∧ Body v

/-- `GoodExp` without reference to the model -/
theorem goodExp_iff (l : List Nat) :
    GoodExp l ↔ ∃ sg ds, l = sg ++ ds ∧ OptSign sg ∧ ds ≠ [] ∧ allDigits ds = true ∧
      -(2 ^ 63 : Int) ≤ (if sg = [45] then -(decVal ds : Int) else (decVal ds : Int)) ∧
      (if sg = [45] then -(decVal ds : Int) else (decVal ds : Int)) ≤ 2 ^ 63 - 1 := by
  constructor
  · intro h
    obtain ⟨e, he⟩ := Option.isSome_iff_exists.mp h
    obtain ⟨sg, ds, rfl, hsg, hne, hd, rfl, h1, h2⟩ := parseI64_some he
    exact ⟨sg, ds, rfl, hsg, hne, hd, h1, h2⟩
  · rintro ⟨sg, ds, rfl, hsg, hne, hd, h1, h2⟩
    unfold GoodExp
    rw [parseI64_of_shape hsg hne hd ⟨h1, h2⟩]; rfl

/-- `decVal` is the usual positional value -/
theorem decVal_cons (d : Nat) (ds : List Nat) :
    decVal (d :: ds) = (d - 48) * 10 ^ ds.length + decVal ds := by
  induction ds using List.reverseRecOn with
  | nil => simp [decVal]
  | append_singleton t b ih =>
    rw [← List.cons_append, decVal_append_single, ih, decVal_append_single]
    simp [pow_succ]; ring

/-! ## 1a. the empty string -/

theorem parse_empty (F : Sem) : tryFromStr [] F = .error .empty := rfl

/-! ## case-insensitive words -/

theorem lowerByte_eq_iff (a t : Nat) (ht : 97 ≤ t ∧ t ≤ 122) :
    lowerByte a = t ↔ a = t ∨ a + 32 = t := by
  unfold lowerByte
  split
  · rename_i h
    simp only [Bool.and_eq_true, decide_eq_true_eq] at h
    omega
  · rename_i h
    simp only [Bool.and_eq_true, decide_eq_true_eq, not_and, not_le] at h
    omega

theorem map_lower_eq3 (v : List Nat) (x y z : Nat) :
    v.map lowerByte = [x, y, z] ↔
      ∃ a b c, v = [a, b, c] ∧ lowerByte a = x ∧ lowerByte b = y ∧ lowerByte c = z := by
  match v with
  | [] => simp
  | [_] => simp
  | [_, _] => simp
  | [a, b, c] => simp
  | _ :: _ :: _ :: _ :: _ => simp

theorem eqIgnoreCase_nan_iff (v : List Nat) :
    eqIgnoreCase v "nan" = true ↔
      ∃ a b c, v = [a, b, c] ∧ (a = 110 ∨ a = 78) ∧ (b = 97 ∨ b = 65) ∧ (c = 110 ∨ c = 78) := by
  unfold eqIgnoreCase
  rw [show (strBytes "nan").map lowerByte = [110, 97, 110] by rfl, beq_iff_eq, map_lower_eq3]
  simp only [lowerByte_eq_iff _ 110 (by omega), lowerByte_eq_iff _ 97 (by omega)]
  constructor
  · rintro ⟨a, b, c, rfl, ha, hb, hc⟩; exact ⟨a, b, c, rfl, by omega, by omega, by omega⟩
  · rintro ⟨a, b, c, rfl, ha, hb, hc⟩; exact ⟨a, b, c, rfl, by omega, by omega, by omega⟩

theorem eqIgnoreCase_inf_iff (v : List Nat) :
    eqIgnoreCase v "inf" = true ↔
      ∃ a b c, v = [a, b, c] ∧ (a = 105 ∨ a = 73) ∧ (b = 110 ∨ b = 78) ∧ (c = 102 ∨ c = 70) := by
  unfold eqIgnoreCase
  rw [show (strBytes "inf").map lowerByte = [105, 110, 102] by rfl, beq_iff_eq, map_lower_eq3]
  simp only [lowerByte_eq_iff _ 105 (by omega), lowerByte_eq_iff _ 110 (by omega),
    lowerByte_eq_iff _ 102 (by omega)]
  constructor
  · rintro ⟨a, b, c, rfl, ha, hb, hc⟩; exact ⟨a, b, c, rfl, by omega, by omega, by omega⟩
  · rintro ⟨a, b, c, rfl, ha, hb, hc⟩; exact ⟨a, b, c, rfl, by omega, by omega, by omega⟩

/-- a body that contains a byte which is not one of `i n f a I N F A` is not inf/nan -/
theorem not_special_of_mem {v : List Nat} {b : Nat} (hb : b ∈ v) (hl : isLetterOfInfNan b = false) :
    eqIgnoreCase v "nan" = false ∧ eqIgnoreCase v "inf" = false := by
  simp only [isLetterOfInfNan, Bool.or_eq_false_iff, beq_eq_false_iff_ne] at hl
  constructor
  · cases h : eqIgnoreCase v "nan"
    · rfl
    · obtain ⟨a, b', c, rfl, ha, hb', hc⟩ := (eqIgnoreCase_nan_iff v).mp h
      simp only [List.mem_cons, List.not_mem_nil, or_false] at hb
      omega
  · cases h : eqIgnoreCase v "inf"
    · rfl
    · obtain ⟨a, b', c, rfl, ha, hb', hc⟩ := (eqIgnoreCase_inf_iff v).mp h
      simp only [List.mem_cons, List.not_mem_nil, or_false] at hb
      omega

theorem not_special_nil : eqIgnoreCase [] "nan" = false ∧ eqIgnoreCase [] "inf" = false := by
  constructor <;> rfl

theorem digit_not_letter {b : Nat} (h : isDigit b = true) : isLetterOfInfNan b = false := by
  have := (isDigit_iff b).mp h
  simp only [isLetterOfInfNan, Bool.or_eq_false_iff, beq_eq_false_iff_ne]; omega

theorem dot_not_letter : isLetterOfInfNan 46 = false := by decide

theorem expMark_not_letter {b : Nat} (h : isExpMark b = true) : isLetterOfInfNan b = false := by
  have := (isExpMark_iff b).mp h
  simp only [isLetterOfInfNan, Bool.or_eq_false_iff, beq_eq_false_iff_ne]; omega

/-! ## the body, branch by branch -/

theorem parseBody_not_special {v : List Nat} (sg : Bool) (F : Sem)
    (h : eqIgnoreCase v "nan" = false ∧ eqIgnoreCase v "inf" = false) :
    parseBody v sg F =
      match splitOnce (· == 46) v with
      | none => parseNoDot v sg F
      | some (left, right) =>
        if right.all (· == 48) then parseWhole left sg F else parseFrac left right sg F := by
  unfold parseBody
  rw [h.1, h.2]; rfl

/-- no period at all -/
theorem parseBody_nodot {v : List Nat} (sg : Bool) (F : Sem)
    (hs : eqIgnoreCase v "nan" = false ∧ eqIgnoreCase v "inf" = false)
    (hd : ∀ b ∈ v, (b == 46) = false) : parseBody v sg F = parseNoDot v sg F := by
  rw [parseBody_not_special sg F hs, splitOnce_none hd]

/-- first period after `l` -/
theorem parseBody_dot {l r : List Nat} (sg : Bool) (F : Sem)
    (hl : ∀ b ∈ l, (b == 46) = false) :
    parseBody (l ++ 46 :: r) sg F =
      if r.all (· == 48) then parseWhole l sg F else parseFrac l r sg F := by
  rw [parseBody_not_special sg F (not_special_of_mem (b := 46) (by simp) dot_not_letter),
    splitOnce_append r hl (by rfl)]

theorem fromBigint_zero (F : Sem) : fromBigint F 0 = Flt.zero F false := by
  simp [fromBigint, Flt.new, Flt.normalize, Flt.zero]

theorem parseWhole_digits {l : List Nat} (sg : Bool) (F : Sem) (h : allDigits l = true) :
    parseWhole l sg F = .ok ((fromBigint F (decVal l)).setSign sg) := by
  unfold parseWhole
  split
  · rename_i h48
    rw [beq_iff_eq] at h48
    subst h48
    rw [show decVal [48] = 0 by rfl, fromBigint_zero]; rfl
  · rw [parseBigInt_val h]

theorem digits_no_dot {l : List Nat} (h : allDigits l = true) : ∀ b ∈ l, (b == 46) = false :=
  fun _ hb => digit_not_dot (allDigits_mem h hb)

theorem digits_not_special {l : List Nat} (h : allDigits l = true) :
    eqIgnoreCase l "nan" = false ∧ eqIgnoreCase l "inf" = false := by
  cases l with
  | nil => exact not_special_nil
  | cons a t => exact not_special_of_mem (b := a) (by simp) (digit_not_letter (allDigits_mem h (by simp)))

/-- `GoodExp` texts contain neither a period nor an exponent marker -/
theorem goodExp_no_dot {ex : List Nat} (h : GoodExp ex) : ∀ b ∈ ex, (b == 46) = false := by
  intro b hb
  rcases parseI64_bytes h b hb with h | h | h
  · exact digit_not_dot h
  · subst h; rfl
  · subst h; rfl

/-- N1: `digits` -/
theorem parseBody_int {ds : List Nat} (sg : Bool) (F : Sem) (hd : allDigits ds = true) :
    parseBody ds sg F = .ok ((fromBigint F (decVal ds)).setSign sg) := by
  rw [parseBody_nodot sg F (digits_not_special hd) (digits_no_dot hd)]
  unfold parseNoDot
  rw [parseWithExp_digits hd]; rfl

/-- N2: `digits (e|E) exponent` -/
theorem parseBody_intExp {ds ex : List Nat} {m : Nat} {e : Int} (sg : Bool) (F : Sem)
    (hd : allDigits ds = true) (hm : isExpMark m = true) (he : parseI64 ex = some e) :
    parseBody (ds ++ m :: ex) sg F =
      .ok ((applyExp F (fromBigint F (decVal ds)) (some e)).setSign sg) := by
  have hge : GoodExp ex := by unfold GoodExp; rw [he]; rfl
  rw [parseBody_nodot sg F (not_special_of_mem (b := m) (by simp) (expMark_not_letter hm))]
  · unfold parseNoDot
    rw [parseWithExp_exp hd hm, he]
  · intro b hb
    rcases List.mem_append.mp hb with hb | hb
    · exact digits_no_dot hd b hb
    · rcases List.mem_cons.mp hb with rfl | hb
      · rcases (isExpMark_iff b).mp hm with rfl | rfl <;> rfl
      · exact goodExp_no_dot hge b hb

/-- N3: `digits . zeros` -/
theorem parseBody_whole {ds zs : List Nat} (sg : Bool) (F : Sem)
    (hd : allDigits ds = true) (hz : zs.all (· == 48) = true) :
    parseBody (ds ++ 46 :: zs) sg F = .ok ((fromBigint F (decVal ds)).setSign sg) := by
  rw [parseBody_dot sg F (digits_no_dot hd), if_pos hz, parseWhole_digits sg F hd]

/-- N4: `digits . digits` with a non-zero fraction digit -/
theorem parseBody_frac {ds fs : List Nat} (sg : Bool) (F : Sem)
    (hd : allDigits ds = true) (hf : allDigits fs = true) (hz : fs.all (· == 48) = false) :
    parseBody (ds ++ 46 :: fs) sg F =
      .ok (((fromBigint F (decVal ds)).add
        ((fromBigint F (decVal fs)).div (fromBigint F (10 ^ fs.length)))).setSign sg) := by
  rw [parseBody_dot sg F (digits_no_dot hd), hz]
  simp only [Bool.false_eq_true, if_false]
  unfold parseFrac
  rw [parseBigInt_val hd, parseWithExp_digits hf]; rfl

/-- N5: `digits . digits (e|E) exponent` -/
theorem parseBody_fracExp {ds fs ex : List Nat} {m : Nat} {e : Int} (sg : Bool) (F : Sem)
    (hd : allDigits ds = true) (hf : allDigits fs = true) (hm : isExpMark m = true)
    (he : parseI64 ex = some e) :
    parseBody (ds ++ 46 :: (fs ++ m :: ex)) sg F =
      .ok ((applyExp F ((fromBigint F (decVal ds)).add
        ((fromBigint F (decVal fs)).div (fromBigint F (10 ^ fs.length)))) (some e)).setSign sg) := by
  have hz : (fs ++ m :: ex).all (· == 48) = false := by
    rw [Bool.eq_false_iff]
    intro h
    simp only [List.all_eq_true, beq_iff_eq] at h
    have := h m (by simp)
    rcases (isExpMark_iff m).mp hm with h | h <;> omega
  rw [parseBody_dot sg F (digits_no_dot hd), hz]
  simp only [Bool.false_eq_true, if_false]
  unfold parseFrac
  rw [parseBigInt_val hd, parseWithExp_exp hf hm, he]

/-! ## the optional sign -/

/-- the sign denoted by an optional-sign prefix -/
def signNeg (sg : List Nat) : Bool := sg == [45]

/-- `try_from_str` strips an optional sign and parses the body -/
theorem tryFromStr_sign_body {sg v : List Nat} (F : Sem) (hsg : OptSign sg) (hne : sg ++ v ≠ [])
    (hv : sg = [] → ∀ a t, v = a :: t → isSign a = false) :
    tryFromStr (sg ++ v) F = parseBody v (signNeg sg) F := by
  rcases hsg with rfl | rfl | rfl
  · cases v with
    | nil => exact absurd rfl hne
    | cons a t =>
      have ha := hv rfl a t rfl
      simp only [isSign, Bool.or_eq_false_iff, beq_eq_false_iff_ne] at ha
      rw [List.nil_append, tryFromStr_cons]
      have h1 : (a == 45 || a == 43) = false := by simp [ha.1, ha.2]
      have h2 : (a == 45) = false := by simp [ha.2]
      rw [h1, h2]; rfl
  · exact tryFromStr_cons 43 v F
  · exact tryFromStr_cons 45 v F

/-- every non-empty string is (uniquely, as the code does it) an optional sign and a body -/
theorem tryFromStr_decomp (s : List Nat) (F : Sem) (hs : s ≠ []) :
    ∃ sg v, s = sg ++ v ∧ OptSign sg ∧ tryFromStr s F = parseBody v (signNeg sg) F ∧
      (s.head? == some 45) = signNeg sg := by
  cases s with
  | nil => exact absurd rfl hs
  | cons a t =>
    by_cases h45 : a = 45
    · subst h45; exact ⟨[45], t, rfl, Or.inr (Or.inr rfl), tryFromStr_cons 45 t F, rfl⟩
    · by_cases h43 : a = 43
      · subst h43; exact ⟨[43], t, rfl, Or.inr (Or.inl rfl), tryFromStr_cons 43 t F, rfl⟩
      · refine ⟨[], a :: t, rfl, Or.inl rfl, ?_, ?_⟩
        · exact tryFromStr_sign_body (sg := []) F (Or.inl rfl) (by simp)
            (fun _ a' t' h => by
              injection h with h1 _; subst h1
              simp [isSign, h43, h45])
        · simp [signNeg, h45]

/-! ## 2. inf / nan -/

theorem parseBody_nan (a b c : Nat) (sg : Bool) (F : Sem) (ha : a = 110 ∨ a = 78) (hb : b = 97 ∨ b = 65)
    (hc : c = 110 ∨ c = 78) : parseBody [a, b, c] sg F = .ok (Flt.nan F sg) := by
  unfold parseBody
  rw [(eqIgnoreCase_nan_iff _).mpr ⟨a, b, c, rfl, ha, hb, hc⟩]; rfl

theorem parseBody_inf (a b c : Nat) (sg : Bool) (F : Sem) (ha : a = 105 ∨ a = 73) (hb : b = 110 ∨ b = 78)
    (hc : c = 102 ∨ c = 70) : parseBody [a, b, c] sg F = .ok (Flt.inf F sg) := by
  unfold parseBody
  have hn : eqIgnoreCase [a, b, c] "nan" = false := by
    rw [Bool.eq_false_iff]; intro h
    obtain ⟨a', b', c', h0, ha', -, -⟩ := (eqIgnoreCase_nan_iff _).mp h
    injection h0 with h1 _; omega
  rw [hn, (eqIgnoreCase_inf_iff _).mpr ⟨a, b, c, rfl, ha, hb, hc⟩]; rfl

/-- `[+|-] n a n` in any letter case is a NaN with the given sign -/
theorem parse_special_nan (F : Sem) (sg : List Nat) (hsg : OptSign sg) (a b c : Nat)
    (ha : a = 110 ∨ a = 78) (hb : b = 97 ∨ b = 65) (hc : c = 110 ∨ c = 78) :
    tryFromStr (sg ++ [a, b, c]) F = .ok (Flt.nan F (signNeg sg)) := by
  rw [tryFromStr_sign_body F hsg (by simp) (fun _ a' t' h => by
    injection h with h1 _; subst h1; simp only [isSign, Bool.or_eq_false_iff, beq_eq_false_iff_ne]; omega)]
  exact parseBody_nan a b c _ F ha hb hc

/-- `[+|-] i n f` in any letter case is an infinity with the given sign -/
theorem parse_special_inf (F : Sem) (sg : List Nat) (hsg : OptSign sg) (a b c : Nat)
    (ha : a = 105 ∨ a = 73) (hb : b = 110 ∨ b = 78) (hc : c = 102 ∨ c = 70) :
    tryFromStr (sg ++ [a, b, c]) F = .ok (Flt.inf F (signNeg sg)) := by
  rw [tryFromStr_sign_body F hsg (by simp) (fun _ a' t' h => by
    injection h with h1 _; subst h1; simp only [isSign, Bool.or_eq_false_iff, beq_eq_false_iff_ne]; omega)]
  exact parseBody_inf a b c _ F ha hb hc

/-- both clauses of item 2 in one statement -/
theorem parse_special (F : Sem) (sg : List Nat) (hsg : OptSign sg) :
    (∀ a b c, (a = 105 ∨ a = 73) → (b = 110 ∨ b = 78) → (c = 102 ∨ c = 70) →
      tryFromStr (sg ++ [a, b, c]) F = .ok (Flt.inf F (signNeg sg))) ∧
    (∀ a b c, (a = 110 ∨ a = 78) → (b = 97 ∨ b = 65) → (c = 110 ∨ c = 78) →
      tryFromStr (sg ++ [a, b, c]) F = .ok (Flt.nan F (signNeg sg))) :=
  ⟨fun a b c => parse_special_inf F sg hsg a b c, fun a b c => parse_special_nan F sg hsg a b c⟩

example (F : Sem) : tryFromStr (strBytes "+INF") F = .ok (Flt.inf F false) := by rfl
example (F : Sem) : tryFromStr (strBytes "-inF") F = .ok (Flt.inf F true) := by rfl
example (F : Sem) : tryFromStr (strBytes "nAn") F = .ok (Flt.nan F false) := by rfl
example (F : Sem) : tryFromStr (strBytes "-NaN") F = .ok (Flt.nan F true) := by rfl
/-- longer spellings are not accepted -/
example : tryFromStr (strBytes "infinity") FP64 = .error .number := by decide

/-! ## 3. integer literals are loaded exactly -/

theorem digits_head_not_sign {ds : List Nat} (h : allDigits ds = true) :
    ∀ a t, ds = a :: t → isSign a = false := by
  intro a t hd
  have := (isDigit_iff a).mp (allDigits_mem h (by rw [hd]; simp))
  simp only [isSign, Bool.or_eq_false_iff, beq_eq_false_iff_ne]; omega

/-- `[sign] digits` and `[sign] digits . zeros` are both `from_bigint` of the decimal value of the
    digits, with the sign set -/
theorem parse_integer_exact (F : Sem) (sg ds zs : List Nat) (hsg : OptSign sg)
    (hds : allDigits ds = true) (hne : ds ≠ []) (hz : zs.all (· == 48) = true) :
    parseBigInt ds = some (decVal ds) ∧
    tryFromStr (sg ++ ds) F = .ok ((fromBigint F (decVal ds)).setSign (signNeg sg)) ∧
    tryFromStr (sg ++ ds ++ [46] ++ zs) F = .ok ((fromBigint F (decVal ds)).setSign (signNeg sg)) := by
  refine ⟨parseBigInt_val hds, ?_, ?_⟩
  · rw [tryFromStr_sign_body F hsg (by simp [hne]) (fun _ => digits_head_not_sign hds)]
    exact parseBody_int _ F hds
  · rw [List.append_assoc, List.append_assoc,
      tryFromStr_sign_body F hsg (by simp [hne]) (fun _ a t h => by
        cases ds with
        | nil => exact absurd rfl hne
        | cons d ds' =>
          injection h with h1 _; subst h1
          exact digits_head_not_sign hds _ _ rfl)]
    exact parseBody_whole _ F hds hz

/-- … hence a representable integer parses to exactly its canonical representation -/
theorem parse_integer_representable (F : Sem) (hF : F.WF) (sg ds zs : List Nat) (hsg : OptSign sg)
    (hds : allDigits ds = true) (hne : ds ≠ []) (hz : zs.all (· == 48) = true)
    (y : Flt) (hyF : y.sem = F) (hy : y.cat = .normal) (hyc : y.Canonical) (hs : y.sign = false)
    (hm : y.mag = (decVal ds : ℚ)) :
    tryFromStr (sg ++ ds) F = .ok (y.setSign (signNeg sg)) ∧
    tryFromStr (sg ++ ds ++ [46] ++ zs) F = .ok (y.setSign (signNeg sg)) := by
  obtain ⟨-, h1, h2⟩ := parse_integer_exact F sg ds zs hsg hds hne hz
  rw [C08.from_exact F (decVal ds) hF y hyF hy hyc hs hm] at h1 h2
  exact ⟨h1, h2⟩

/-- … and a zero literal gives the zero of the given sign (both code paths: `from_bigint 0`
    followed by `set_sign` for "000", `parse_whole_num`'s special case for "0.0") -/
theorem parse_integer_zero (F : Sem) (sg ds zs : List Nat) (hsg : OptSign sg)
    (hds : allDigits ds = true) (hne : ds ≠ []) (hz : zs.all (· == 48) = true)
    (h0 : decVal ds = 0) :
    tryFromStr (sg ++ ds) F = .ok (Flt.zero F (signNeg sg)) ∧
    tryFromStr (sg ++ ds ++ [46] ++ zs) F = .ok (Flt.zero F (signNeg sg)) := by
  obtain ⟨-, h1, h2⟩ := parse_integer_exact F sg ds zs hsg hds hne hz
  rw [h0, fromBigint_zero] at h1 h2
  exact ⟨h1, h2⟩

/-- "-3.00" is −3 in FP16 -/
example : tryFromStr (strBytes "-3.00") FP16 = .ok ⟨FP16, true, 1, 1536, .normal⟩ := by decide
/-- the same through the theorem: 3 = 1536 · 2^(1-10) -/
example : tryFromStr (strBytes "-3.00") FP16 = .ok ⟨FP16, true, 1, 1536, .normal⟩ :=
  (parse_integer_representable FP16 (by decide) [45] [51] [48, 48] (Or.inr (Or.inr rfl)) rfl
    (by simp) rfl ⟨FP16, false, 1, 1536, .normal⟩ rfl rfl (by decide) rfl
    (by rw [Flt.mag_eq]; norm_num [FP16, decVal])).2
example : tryFromStr (strBytes "2047") FP16 = .ok ⟨FP16, false, 10, 2047, .normal⟩ := by decide
example : tryFromStr (strBytes "-0") FP32 = .ok (Flt.zero FP32 true) := by decide
example : tryFromStr (strBytes "-0.0") FP32 = .ok (Flt.zero FP32 true) := by decide
example : tryFromStr (strBytes "+000.") FP32 = .ok (Flt.zero FP32 false) := by decide

/-! ## 4. results are canonical values of the requested format -/

theorem setSign_canon {x : Flt} {F : Sem} (sg : Bool) (h : x.Canonical ∧ x.sem = F) :
    (x.setSign sg).Canonical ∧ (x.setSign sg).sem = F :=
  ⟨(Flt.setSign_canonical x sg).mpr h.1, h.2⟩

theorem applyExp_canon (F : Sem) (hF : F.WF) (num : Flt) (oe : Option Int)
    (h : num.Canonical ∧ num.sem = F) :
    (applyExp F num oe).Canonical ∧ (applyExp F num oe).sem = F := by
  obtain ⟨hc, hs⟩ := h
  subst hs
  cases oe with
  | none => exact ⟨hc, rfl⟩
  | some e =>
    unfold applyExp
    simp only
    split
    · exact mul_canonical _ _ hF
    · exact div_canonical _ _ hF

theorem fracSum_canon (F : Sem) (hF : F.WF) (l r d : Nat) :
    ((fromBigint F l).add ((fromBigint F r).div (fromBigint F d))).Canonical ∧
    ((fromBigint F l).add ((fromBigint F r).div (fromBigint F d))).sem = F := by
  have hl := fromBigint_canonical F l hF
  have hr := fromBigint_canonical F r hF
  have hq := div_canonical (fromBigint F r) (fromBigint F d) (by rw [hr.2]; exact hF)
  have := add_canonical (fromBigint F l) ((fromBigint F r).div (fromBigint F d))
    (by rw [hl.2]; exact hF) (by rw [hq.2, hr.2, hl.2]) hl.1 hq.1
  exact ⟨this.1, by rw [this.2, hl.2]⟩

theorem parseBody_canonical (v : List Nat) (sg : Bool) (F : Sem) (hF : F.WF) (x : Flt)
    (h : parseBody v sg F = .ok x) : x.Canonical ∧ x.sem = F := by
  unfold parseBody at h
  split at h
  · injection h with h; subst h; exact ⟨Flt.nan_canonical _ _, rfl⟩
  split at h
  · injection h with h; subst h; exact ⟨Flt.inf_canonical _ _, rfl⟩
  split at h
  · -- no period
    unfold parseNoDot at h
    split at h
    · cases h
    · injection h with h; subst h
      exact setSign_canon _ (applyExp_canon F hF _ _ (fromBigint_canonical F _ hF))
  · split at h
    · unfold parseWhole at h
      split at h
      · injection h with h; subst h; exact ⟨Flt.zero_canonical _ _, rfl⟩
      · split at h
        · cases h
        · injection h with h; subst h
          exact setSign_canon _ (fromBigint_canonical F _ hF)
    · unfold parseFrac at h
      split at h
      · cases h
      · split at h
        · cases h
        · injection h with h; subst h
          exact setSign_canon _ (applyExp_canon F hF _ _ (fracSum_canon F hF _ _ _))

/-- every accepted string yields a canonical value of format `F` -/
theorem parse_result_canonical (s : List Nat) (F : Sem) (hF : F.WF) (x : Flt)
    (h : tryFromStr s F = .ok x) : x.Canonical ∧ x.sem = F := by
  cases s with
  | nil => cases h
  | cons a t =>
    rw [tryFromStr_cons] at h
    exact parseBody_canonical _ _ F hF x h

/-! ## 5. the sign of the result is the sign that was written -/

theorem parseBody_sign (v : List Nat) (sg : Bool) (F : Sem) (x : Flt)
    (h : parseBody v sg F = .ok x) : x.sign = sg := by
  unfold parseBody at h
  split at h
  · injection h with h; subst h; rfl
  split at h
  · injection h with h; subst h; rfl
  split at h
  · unfold parseNoDot at h
    split at h
    · cases h
    · injection h with h; subst h; rfl
  · split at h
    · unfold parseWhole at h
      split at h
      · injection h with h; subst h; rfl
      · split at h
        · cases h
        · injection h with h; subst h; rfl
    · unfold parseFrac at h
      split at h
      · cases h
      · split at h
        · cases h
        · injection h with h; subst h; rfl

/-- for every accepted string (zero, inf and NaN results included) the result is negative
    iff the string starts with `-` -/
theorem parse_sign (s : List Nat) (F : Sem) (x : Flt) (h : tryFromStr s F = .ok x) :
    x.sign = (s.head? == some 45) := by
  cases s with
  | nil => cases h
  | cons a t =>
    rw [tryFromStr_cons] at h
    rw [parseBody_sign _ _ F x h]
    simp

example : (tryFromStr (strBytes "-0e5") FP16).toOption.map (·.sign) = some true := by decide

/-! ## 1b. the accepted language is exactly the grammar -/

/-- a body never starts with a sign -/
theorem body_head_not_sign {v : List Nat} (h : Body v) : ∀ a t, v = a :: t → isSign a = false := by
  intro a t hv
  simp only [isSign, Bool.or_eq_false_iff, beq_eq_false_iff_ne]
  cases h with
  | nan a' b c ha hb hc => injection hv with h1 _; omega
  | inf a' b c ha hb hc => injection hv with h1 _; omega
  | number ds fr ex hd hfr hex =>
    cases ds with
    | cons d ds' =>
      injection hv with h1 _
      have := (isDigit_iff d).mp (allDigits_mem hd (by simp)); omega
    | nil =>
      cases hfr with
      | some fs hf => injection hv with h1 _; omega
      | none =>
        cases hex with
        | none => cases hv
        | some m ex' hm hg =>
          injection hv with h1 _
          have := (isExpMark_iff m).mp hm; omega

/-- bodies are accepted -/
theorem parseBody_accepts {v : List Nat} (sg : Bool) (F : Sem) (h : Body v) :
    ∃ x, parseBody v sg F = .ok x := by
  cases h with
  | nan a b c ha hb hc => exact ⟨_, parseBody_nan a b c sg F ha hb hc⟩
  | inf a b c ha hb hc => exact ⟨_, parseBody_inf a b c sg F ha hb hc⟩
  | number ds fr ex hd hfr hex =>
    cases hfr with
    | none =>
      cases hex with
      | none => exact ⟨_, by simpa using parseBody_int sg F hd⟩
      | some m ex' hm hg =>
        obtain ⟨e, he⟩ := Option.isSome_iff_exists.mp hg
        exact ⟨_, by simpa using parseBody_intExp sg F hd hm he⟩
    | some fs hf =>
      cases hex with
      | none =>
        cases hz : fs.all (· == 48)
        · exact ⟨_, by simpa using parseBody_frac sg F hd hf hz⟩
        · exact ⟨_, by simpa using parseBody_whole sg F hd hz⟩
      | some m ex' hm hg =>
        obtain ⟨e, he⟩ := Option.isSome_iff_exists.mp hg
        exact ⟨_, by simpa using parseBody_fracExp sg F hd hf hm he⟩

/-- digits followed by an optional exponent, from a successful `parse_with_exp` -/
theorem numExp_of_parseWithExp {w : List Nat} {r : (Nat × Nat) × Option Int}
    (h : parseWithExp w = .ok r) : ∃ ds ex, w = ds ++ ex ∧ allDigits ds = true ∧ ExpPart ex := by
  obtain ⟨⟨n, d⟩, oe⟩ := r
  rcases parseWithExp_ok h with ⟨hd, -⟩ | ⟨ds, m, ex, e, rfl, hd, hm, he, -⟩
  · exact ⟨w, [], by simp, hd, .none⟩
  · exact ⟨ds, m :: ex, rfl, hd, .some m ex hm (by unfold GoodExp; rw [he]; rfl)⟩

/-- only bodies are accepted -/
theorem parseBody_ok_body {v : List Nat} {sg : Bool} {F : Sem} {x : Flt}
    (h : parseBody v sg F = .ok x) : Body v := by
  unfold parseBody at h
  split at h
  · rename_i hn
    obtain ⟨a, b, c, rfl, ha, hb, hc⟩ := (eqIgnoreCase_nan_iff v).mp hn
    exact .nan a b c ha hb hc
  split at h
  · rename_i _ hi
    obtain ⟨a, b, c, rfl, ha, hb, hc⟩ := (eqIgnoreCase_inf_iff v).mp hi
    exact .inf a b c ha hb hc
  split at h
  · unfold parseNoDot at h
    split at h
    · cases h
    · rename_i hp
      obtain ⟨ds, ex, rfl, hd, hex⟩ := numExp_of_parseWithExp hp
      simpa using Body.number ds [] ex hd .none hex
  · rename_i left right hs
    obtain ⟨m, rfl, hm, -⟩ := splitOnce_some_spec hs
    rw [beq_iff_eq] at hm; subst hm
    split at h
    · rename_i hz
      have hl : allDigits left = true := by
        unfold parseWhole at h
        split at h
        · rename_i h48; rw [beq_iff_eq] at h48; subst h48; rfl
        · split at h
          · cases h
          · rename_i hp; exact (parseBigInt_some hp).1
      simpa using Body.number left (46 :: right) [] hl (.some right (allZeros_allDigits hz)) .none
    · unfold parseFrac at h
      split at h
      · cases h
      · rename_i hp
        have hl := (parseBigInt_some hp).1
        split at h
        · cases h
        · rename_i hpe
          obtain ⟨fs, ex, rfl, hf, hex⟩ := numExp_of_parseWithExp hpe
          simpa using Body.number left (46 :: fs) ex hl (.some fs hf) hex

/-- every string of the grammar is accepted -/
theorem parse_accepts (s : List Nat) (F : Sem) (h : Grammar s) : ∃ x, tryFromStr s F = .ok x := by
  obtain ⟨hne, sg, v, rfl, hsg, hb⟩ := h
  rw [tryFromStr_sign_body F hsg hne (fun _ => body_head_not_sign hb)]
  exact parseBody_accepts _ F hb

/-- every accepted string is in the grammar -/
theorem parse_ok_grammar (s : List Nat) (F : Sem) (x : Flt) (h : tryFromStr s F = .ok x) :
    Grammar s := by
  have hne : s ≠ [] := by rintro rfl; cases h
  obtain ⟨sg, v, rfl, hsg, hp, -⟩ := tryFromStr_decomp s F hne
  rw [hp] at h
  exact ⟨hne, sg, v, rfl, hsg, parseBody_ok_body h⟩

/-- every string outside the grammar is rejected -/
theorem parse_rejects (s : List Nat) (F : Sem) (h : ¬ Grammar s) : ∃ e, tryFromStr s F = .error e := by
  cases hr : tryFromStr s F with
  | error e => exact ⟨e, rfl⟩
  | ok x => exact absurd (parse_ok_grammar s F x hr) h

/-- the accepted language is exactly the grammar (and does not depend on the format) -/
theorem parse_ok_iff (s : List Nat) (F : Sem) : (∃ x, tryFromStr s F = .ok x) ↔ Grammar s :=
  ⟨fun ⟨x, h⟩ => parse_ok_grammar s F x h, parse_accepts s F⟩

instance (s : List Nat) : Decidable (Grammar s) :=
  decidable_of_iff ((tryFromStr s FP16).toBool = true) (by
    rw [← parse_ok_iff s FP16]
    cases tryFromStr s FP16 with
    | error e => simp [Except.toBool]
    | ok x => simp [Except.toBool])

instance (v : List Nat) : Decidable (Body v) :=
  decidable_of_iff ((parseBody v false FP16).toBool = true) (by
    constructor
    · intro h
      cases hr : parseBody v false FP16 with
      | error e => rw [hr] at h; simp [Except.toBool] at h
      | ok x => exact parseBody_ok_body hr
    · intro h
      obtain ⟨x, hx⟩ := parseBody_accepts false FP16 h
      rw [hx]; rfl)

/-- the bytes of a string of the grammar -/
theorem grammar_bytes {s : List Nat} (h : Grammar s) : ∀ b ∈ s,
    isDigit b = true ∨ b = 46 ∨ b = 43 ∨ b = 45 ∨ b = 101 ∨ b = 69 ∨ isLetterOfInfNan b = true := by
  obtain ⟨-, sg, v, rfl, hsg, hb⟩ := h
  intro b hmem
  rcases List.mem_append.mp hmem with hm | hm
  · rcases hsg with rfl | rfl | rfl <;> simp_all
  · cases hb with
    | nan a' b' c ha hb hc =>
      simp only [List.mem_cons, List.not_mem_nil, or_false] at hm
      right; right; right; right; right; right
      simp only [isLetterOfInfNan, Bool.or_eq_true, beq_iff_eq]; omega
    | inf a' b' c ha hb hc =>
      simp only [List.mem_cons, List.not_mem_nil, or_false] at hm
      right; right; right; right; right; right
      simp only [isLetterOfInfNan, Bool.or_eq_true, beq_iff_eq]; omega
    | number ds fr ex hd hfr hex =>
      rcases List.mem_append.mp hm with hm | hm
      · rcases List.mem_append.mp hm with hm | hm
        · exact Or.inl (allDigits_mem hd hm)
        · cases hfr with
          | none => cases hm
          | some fs hf =>
            rcases List.mem_cons.mp hm with rfl | hm
            · exact Or.inr (Or.inl rfl)
            · exact Or.inl (allDigits_mem hf hm)
      · cases hex with
        | none => cases hm
        | some m ex' hmk hg =>
          rcases List.mem_cons.mp hm with rfl | hm
          · rcases (isExpMark_iff b).mp hmk with h | h <;> simp [h]
          · rcases parseI64_bytes hg b hm with h | h | h
            · exact Or.inl h
            · exact Or.inr (Or.inr (Or.inl h))
            · exact Or.inr (Or.inr (Or.inr (Or.inl h)))

/-- a string containing any character other than `0-9 . + - e E` and the letters of
    "inf"/"nan" is rejected -/
theorem parse_rejects_foreign (s : List Nat) (F : Sem) (b : Nat) (hb : b ∈ s)
    (hbad : ¬ (isDigit b = true ∨ b = 46 ∨ b = 43 ∨ b = 45 ∨ b = 101 ∨ b = 69 ∨
      isLetterOfInfNan b = true)) :
    ∃ e, tryFromStr s F = .error e :=
  parse_rejects s F (fun hg => hbad (grammar_bytes hg b hb))

example : tryFromStr (strBytes "1e5.3") FP64 = .error .number := by decide
example : tryFromStr (strBytes "1e5.0") FP64 = .error .number := by decide
example : ¬ Grammar (strBytes "1e5.3") := by decide
example : tryFromStr (strBytes "1,5") FP64 = .error .number := by decide
example : tryFromStr (strBytes "0x10") FP64 = .error .number := by decide
example : tryFromStr (strBytes " 1") FP64 = .error .number := by decide
example : tryFromStr (strBytes "1 ") FP64 = .error .number := by decide
example : tryFromStr (strBytes "--1") FP64 = .error .number := by decide
example : tryFromStr (strBytes "1.2.3") FP64 = .error .number := by decide
example : tryFromStr (strBytes "1e2e3") FP64 = .error .exponent := by decide
example : tryFromStr (strBytes "in") FP64 = .error .number := by decide
/-- quirks of the code that the grammar records: no digit is required anywhere -/
example : Grammar (strBytes "+") ∧ Grammar (strBytes ".") ∧ Grammar (strBytes "1.") ∧
    Grammar (strBytes "-.e+3") ∧ Grammar (strBytes "e0") := by decide
example : tryFromStr (strBytes "+") FP16 = .ok (Flt.zero FP16 false) := by decide
example : tryFromStr (strBytes "-") FP16 = .ok (Flt.zero FP16 true) := by decide
example : tryFromStr (strBytes ".") FP16 = .ok (Flt.zero FP16 false) := by decide
example : tryFromStr (strBytes "e1") FP16 = .ok (Flt.zero FP16 false) := by decide

/-! ## 1c. a malformed exponent is an error -/

theorem parseWhole_bad {l : List Nat} (sg : Bool) (F : Sem) (h : allDigits l = false) :
    parseWhole l sg F = .error .number := by
  unfold parseWhole
  split
  · rename_i h48; rw [beq_iff_eq] at h48; subst h48; cases h
  · rw [parseBigInt_none h]

theorem parseFrac_bad_left {l : List Nat} (r : List Nat) (sg : Bool) (F : Sem)
    (h : allDigits l = false) : parseFrac l r sg F = .error .number := by
  unfold parseFrac
  rw [parseBigInt_none h]

theorem parseWithExp_bad {a ex : List Nat} {m : Nat} (ha : ∀ b ∈ a, isExpMark b = false)
    (hm : isExpMark m = true) (hbad : ¬ GoodExp ex) : ∃ e, parseWithExp (a ++ m :: ex) = .error e := by
  have hn : parseI64 ex = none := by
    unfold GoodExp at hbad
    cases h : parseI64 ex with
    | none => rfl
    | some e => rw [h] at hbad; exact absurd rfl hbad
  rw [parseWithExp_eq, splitOnce_append ex ha hm]
  simp only
  cases parseBigInt a with
  | none => exact ⟨_, rfl⟩
  | some n => simp only [hn]; exact ⟨_, rfl⟩

theorem expMark_not_digit {m : Nat} (hm : isExpMark m = true) : isDigit m = false := by
  cases h : isDigit m
  · rfl
  · rw [digit_not_expMark h] at hm; cases hm

theorem allDigits_false_of_mem {l : List Nat} {m : Nat} (hm : m ∈ l) (h : isDigit m = false) :
    allDigits l = false := by
  cases hd : allDigits l
  · rfl
  · rw [allDigits_mem hd hm] at h; cases h

/-- body level: `m` is the first `e`/`E` of the part in which the code looks for it (the whole
    body when there is no period before it, otherwise the text after the first period) -/
theorem parseBody_bad_exponent (pre ex : List Nat) (m : Nat) (sgn : Bool) (F : Sem)
    (hm : isExpMark m = true)
    (hpre : (∀ b ∈ pre, b ≠ 46 ∧ isExpMark b = false) ∨
      (∃ l a, pre = l ++ 46 :: a ∧ (∀ b ∈ l, b ≠ 46) ∧ ∀ b ∈ a, isExpMark b = false))
    (hbad : ¬ GoodExp ex) : ∃ e, parseBody (pre ++ m :: ex) sgn F = .error e := by
  have hm46 : m ≠ 46 := by rcases (isExpMark_iff m).mp hm with h | h <;> omega
  rcases hpre with hA | ⟨l, a, rfl, hl, ha⟩
  · rw [parseBody_not_special sgn F (not_special_of_mem (b := m) (by simp) (expMark_not_letter hm))]
    cases hs : splitOnce (· == 46) (pre ++ m :: ex) with
    | none =>
      simp only
      unfold parseNoDot
      obtain ⟨e, he⟩ := parseWithExp_bad (fun b hb => (hA b hb).2) hm hbad
      rw [he]; exact ⟨e, rfl⟩
    | some lr =>
      obtain ⟨left, right⟩ := lr
      simp only
      obtain ⟨c, hv, hc, hleft⟩ := splitOnce_some_spec hs
      rw [beq_iff_eq] at hc; subst hc
      have hml : m ∈ left := by
        rcases List.append_eq_append_iff.mp hv with ⟨a', h1, h2⟩ | ⟨c', h1, h2⟩
        · cases a' with
          | nil => simp at h2; omega
          | cons x a'' => simp at h2; rw [h1, h2.1]; simp
        · cases c' with
          | nil => simp at h2; omega
          | cons x c'' =>
            simp at h2
            have := (hA 46 (by rw [h1, ← h2.1]; simp)).1
            exact absurd rfl this
      have hbadl := allDigits_false_of_mem hml (expMark_not_digit hm)
      split
      · exact ⟨_, parseWhole_bad sgn F hbadl⟩
      · exact ⟨_, parseFrac_bad_left right sgn F hbadl⟩
  · rw [List.append_assoc, List.cons_append,
      parseBody_dot sgn F (fun b hb => by simpa using hl b hb)]
    have hz : (a ++ m :: ex).all (· == 48) = false := by
      rw [Bool.eq_false_iff]
      intro h
      simp only [List.all_eq_true, beq_iff_eq] at h
      have := h m (by simp)
      rcases (isExpMark_iff m).mp hm with h | h <;> omega
    rw [hz]
    simp only [Bool.false_eq_true, if_false]
    unfold parseFrac
    cases parseBigInt l with
    | none => exact ⟨_, rfl⟩
    | some n =>
      simp only
      obtain ⟨e, he⟩ := parseWithExp_bad ha hm hbad
      rw [he]; exact ⟨e, rfl⟩

/-- If the text after the first `e`/`E` — searched in the whole body when no period precedes it,
    and in the text after the first period otherwise — is not a `GoodExp`, the string is rejected. -/
theorem parse_bad_exponent (F : Sem) (sg pre ex : List Nat) (m : Nat) (hsg : OptSign sg)
    (hm : isExpMark m = true)
    (hpre : (∀ b ∈ pre, b ≠ 46 ∧ isExpMark b = false) ∨
      (∃ l a, pre = l ++ 46 :: a ∧ (∀ b ∈ l, b ≠ 46) ∧ ∀ b ∈ a, isExpMark b = false))
    (hbad : ¬ GoodExp ex) : ∃ e, tryFromStr (sg ++ (pre ++ m :: ex)) F = .error e := by
  have hmsign : isSign m = false := by
    simp only [isSign, Bool.or_eq_false_iff, beq_eq_false_iff_ne]
    rcases (isExpMark_iff m).mp hm with h | h <;> omega
  by_cases hhead : sg = [] ∧ ∃ c pre', pre = c :: pre' ∧ isSign c = true
  · -- the first byte of `pre` is itself taken as the sign
    obtain ⟨rfl, c, pre', rfl, hc⟩ := hhead
    have hc' : OptSign [c] := by
      rcases (isSign_iff c).mp hc with rfl | rfl
      · exact Or.inr (Or.inl rfl)
      · exact Or.inr (Or.inr rfl)
    have hc46 : c ≠ 46 := by rcases (isSign_iff c).mp hc with h | h <;> omega
    have : ([] : List Nat) ++ (c :: pre' ++ m :: ex) = [c] ++ (pre' ++ m :: ex) := rfl
    rw [this, tryFromStr_sign_body F hc' (by simp) (fun h => by cases h)]
    apply parseBody_bad_exponent pre' ex m _ F hm _ hbad
    rcases hpre with hA | ⟨l, a, hp, hl, ha⟩
    · exact Or.inl (fun b hb => hA b (by simp [hb]))
    · cases l with
      | nil => simp at hp; exact absurd hp.1 hc46
      | cons x l' =>
        simp at hp
        exact Or.inr ⟨l', a, hp.2, fun b hb => hl b (by simp [hb]), ha⟩
  · rw [tryFromStr_sign_body F hsg (by simp)]
    · exact parseBody_bad_exponent pre ex m _ F hm hpre hbad
    · intro hsg0 a t hv
      cases pre with
      | nil => simp at hv; rw [← hv.1]; exact hmsign
      | cons c pre' =>
        simp at hv
        cases hcs : isSign a
        · rfl
        · exact absurd ⟨hsg0, c, pre', rfl, by rw [hv.1]; exact hcs⟩ hhead

example : tryFromStr (strBytes "1e") FP64 = .error .exponent := by decide
example : tryFromStr (strBytes "1e+") FP64 = .error .exponent := by decide
example : tryFromStr (strBytes "1.5e1.0") FP64 = .error .exponent := by decide
example : tryFromStr (strBytes "2E9223372036854775808") FP16 = .error .exponent := by decide
example : tryFromStr (strBytes "1e--2") FP64 = .error .exponent := by decide

/-! ## 6. no panic: the debug assertions on the parsing pipeline

The model is a total function, and `try_from_str` itself contains no `unwrap`/indexing that can
fail (`l_r.unwrap()` is guarded by `is_none`, the slices start after an ASCII byte).  What can
fire inside the operations it calls are the `debug_assert_eq!(self.sem, rhs.sem)` of the binary
operators and the "losing information" assertion of `normalize`.  The facts below show that every
binary operation invoked by the parser receives two operands of the *same* semantics `F`
(no well-formedness of `F` is needed), and that the loads satisfy `normalize`'s assertion. -/

theorem mulWithRm_sem_eq (a b : Flt) (rm : RM) : (mulWithRm a b rm).sem = a.sem := by
  cases hca : a.cat <;> cases hcb : b.cat <;> simp only [mulWithRm, hca, hcb]
  all_goals first
    | rfl
    | (obtain ⟨e, m, h⟩ := mulNormals_fst a b (a.sign ^^ b.sign)
       rw [h]; exact new_normalize_sem _ _ _ _ _ _)

theorem divWithRm_sem_eq (a b : Flt) (rm : RM) : (divWithRm a b rm).sem = a.sem := by
  cases hca : a.cat <;> cases hcb : b.cat <;> simp only [divWithRm, hca, hcb]
  all_goals first
    | rfl
    | (obtain ⟨sg, e, m, h⟩ := divNormals_fst a b
       rw [h]; exact new_normalize_sem _ _ _ _ _ _)

theorem addWithRm_sem_eq (a b : Flt) (rm : RM) : (addWithRm a b rm).sem = a.sem := by
  have hns : ((addOrSubNormals a b false).1.normalize rm (addOrSubNormals a b false).2).sem = a.sem := by
    obtain ⟨sg, e, m, h⟩ := addOrSubNormals_fst a b false
    rw [h]; exact new_normalize_sem _ _ _ _ _ _
  unfold addWithRm
  cases hca : a.cat <;> cases hcb : b.cat <;> simp only [addSub, hca, hcb]
  all_goals first
    | rfl
    | exact Flt.new_sem _ _ _ _
    | (split <;> first | rfl | exact hns)

theorem applyExp_sem (F : Sem) (num : Flt) (oe : Option Int) (h : num.sem = F) :
    (applyExp F num oe).sem = F := by
  cases oe with
  | none => exact h
  | some e =>
    unfold applyExp
    simp only
    split
    · exact (mulWithRm_sem_eq _ _ _).trans h
    · exact (divWithRm_sem_eq _ _ _).trans h

/-- the loads never trip `normalize`'s "losing information" assertion (the incoming loss is zero) -/
theorem fromBigint_dbgOk (F : Sem) (n : Nat) :
    (Flt.new F false ((F.p - 1 : Nat) : Int) n).normalizeDbgOk .zero = true := by
  unfold Flt.normalizeDbgOk
  simp only
  split_ifs <;> rfl

/-- Operand semantics along the pipeline `integral + fraction/10^d` then `· or / 10^|e|`:
    every binary operation gets two operands of semantics `F`. -/
theorem parse_no_panic (F : Sem) (l r d k : Nat) :
    let I := fromBigint F l
    let N := fromBigint F r
    let D := fromBigint F d
    let Q := N.div D
    let S := I.add Q
    let P := fromBigint F k
    (N.sem = F ∧ D.sem = F) ∧            -- fraction: `N / D`
    (I.sem = F ∧ Q.sem = F) ∧            -- `integral + fraction`
    (S.sem = F ∧ P.sem = F) ∧            -- `ret *= P`, `ret /= P`
    (S.mul P).sem = F ∧ (S.div P).sem = F ∧
    (I.mul P).sem = F ∧ (I.div P).sem = F := by
  intro I N D Q S P
  have hI : I.sem = F := C08.fromBigint_sem F l
  have hN : N.sem = F := C08.fromBigint_sem F r
  have hD : D.sem = F := C08.fromBigint_sem F d
  have hP : P.sem = F := C08.fromBigint_sem F k
  have hQ : Q.sem = F := (divWithRm_sem_eq _ _ _).trans hN
  have hS : S.sem = F := (addWithRm_sem_eq _ _ _).trans hI
  exact ⟨⟨hN, hD⟩, ⟨hI, hQ⟩, ⟨hS, hP⟩, (mulWithRm_sem_eq _ _ _).trans hS,
    (divWithRm_sem_eq _ _ _).trans hS, (mulWithRm_sem_eq _ _ _).trans hI,
    (divWithRm_sem_eq _ _ _).trans hI⟩

/-- the semantics of the value handed to `applyExp`, and of its result, is `F` on both paths -/
theorem parse_no_panic_applyExp (F : Sem) (l r d : Nat) (oe : Option Int) :
    (applyExp F (fromBigint F l) oe).sem = F ∧
    (applyExp F ((fromBigint F l).add ((fromBigint F r).div (fromBigint F d))) oe).sem = F :=
  ⟨applyExp_sem F _ oe (C08.fromBigint_sem F l),
   applyExp_sem F _ oe ((addWithRm_sem_eq _ _ _).trans (C08.fromBigint_sem F l))⟩

/-! ## 7. accuracy: the result as an explicit composition of correctly rounded operations

The property's claim, in full:

  for `s = [sign] ds [. fs] [(e|E) ex]` with `parseI64 ex = some e`, if the three loads
  `fromBigint F (decVal ds)`, `fromBigint F (10^|fs|)`, `fromBigint F (10^|e|)` are finite
  (category normal or zero), and `tryFromStr s F = .ok x`, then `x` is finite or the exact value
  overflows, `x.sign = (sign = '-')`, and
  `| |x.val| − (decVal ds + decVal fs / 10^|fs|) · 10^e | ≤ 6 · ulp`.

It is NOT proved here.  What is proved (`parse_accuracy_partial`) is the explicit formula:
the result is obtained from the three integers by at most six operations each of which is
the exact operation followed by ONE `Spec.round` in the mode of `F`
(three loads, one division, one addition, one multiplication or division), then `set_sign`. -/

theorem div_toRes (a b : Flt) (F : Sem) (hF : F.WF) (ha : a.Canonical ∧ a.sem = F)
    (hb : b.Canonical ∧ b.sem = F) : (a.div b).toRes = Spec.div F F.rm a b := by
  have := C01.div_correct a b a.sem.rm (by rw [ha.2]; exact hF) (by rw [ha.2, hb.2]) ha.1 hb.1
  rw [C01.operator_div]
  rw [ha.2] at this ⊢; exact this

theorem mul_toRes (a b : Flt) (F : Sem) (hF : F.WF) (ha : a.Canonical ∧ a.sem = F)
    (hb : b.Canonical ∧ b.sem = F) : (a.mul b).toRes = Spec.mul F F.rm a b := by
  have := C01.mul_correct a b a.sem.rm (by rw [ha.2]; exact hF) (by rw [ha.2, hb.2]) ha.1 hb.1
  rw [C01.operator_mul]
  rw [ha.2] at this ⊢; exact this

theorem add_toRes (a b : Flt) (F : Sem) (hF : F.WF) (ha : a.Canonical ∧ a.sem = F)
    (hb : b.Canonical ∧ b.sem = F) : (a.add b).toRes = Spec.add F F.rm a b := by
  have := C01.add_correct a b a.sem.rm (by rw [ha.2]; exact hF) (by rw [ha.2, hb.2]) ha.1 hb.1
  rw [C01.operator_add]
  rw [ha.2] at this ⊢; exact this

/-- `applyExp` is one correctly rounded multiplication or division by the loaded power of ten -/
theorem applyExp_toRes (F : Sem) (hF : F.WF) (S : Flt) (e : Int) (hS : S.Canonical ∧ S.sem = F) :
    (applyExp F S (some e)).toRes =
      if 0 ≤ e then Spec.mul F F.rm S (fromBigint F (10 ^ e.natAbs))
      else Spec.div F F.rm S (fromBigint F (10 ^ e.natAbs)) := by
  unfold applyExp
  simp only [ge_iff_le]
  split
  · rename_i h
    rw [show e.toNat = e.natAbs by omega]
    exact mul_toRes _ _ F hF hS (fromBigint_canonical F _ hF)
  · rename_i h
    rw [show (-e).toNat = e.natAbs by omega]
    exact div_toRes _ _ F hF hS (fromBigint_canonical F _ hF)

/-- General form `[sign] ds . fs (e|E) ex` (with a non-zero fraction digit): six roundings. -/
theorem parse_accuracy_partial (F : Sem) (hF : F.WF) (sg ds fs ex : List Nat) (m : Nat) (e : Int)
    (hsg : OptSign sg) (hd : allDigits ds = true) (hf : allDigits fs = true)
    (hm : isExpMark m = true) (he : parseI64 ex = some e) :
    let I := fromBigint F (decVal ds)
    let N := fromBigint F (decVal fs)
    let D := fromBigint F (10 ^ fs.length)
    let Q := N.div D
    let S := I.add Q
    let P := fromBigint F (10 ^ e.natAbs)
    let R := applyExp F S (some e)
    tryFromStr (sg ++ (ds ++ 46 :: (fs ++ m :: ex))) F = .ok (R.setSign (signNeg sg)) ∧
    I.toRes = Spec.fromNat F F.rm (decVal ds) ∧
    N.toRes = Spec.fromNat F F.rm (decVal fs) ∧
    D.toRes = Spec.fromNat F F.rm (10 ^ fs.length) ∧
    P.toRes = Spec.fromNat F F.rm (10 ^ e.natAbs) ∧
    Q.toRes = Spec.div F F.rm N D ∧
    S.toRes = Spec.add F F.rm I Q ∧
    R.toRes = (if 0 ≤ e then Spec.mul F F.rm S P else Spec.div F F.rm S P) ∧
    (R.setSign (signNeg sg)).toRes = R.toRes.setSign (signNeg sg) := by
  intro I N D Q S P R
  have hI := fromBigint_canonical F (decVal ds) hF
  have hN := fromBigint_canonical F (decVal fs) hF
  have hD := fromBigint_canonical F (10 ^ fs.length) hF
  have hQ : Q.Canonical ∧ Q.sem = F := by
    have := div_canonical N D (by rw [hN.2]; exact hF)
    exact ⟨this.1, this.2.trans hN.2⟩
  refine ⟨?_, C08.fromBigint_correct F _ hF, C08.fromBigint_correct F _ hF,
    C08.fromBigint_correct F _ hF, C08.fromBigint_correct F _ hF,
    div_toRes N D F hF hN hD, add_toRes I Q F hF hI hQ,
    applyExp_toRes F hF S e (fracSum_canon F hF _ _ _), toRes_setSign _ _⟩
  rw [tryFromStr_sign_body F hsg (by simp)]
  · exact parseBody_fracExp _ F hd hf hm he
  · intro _ a t hv
    cases ds with
    | nil =>
      injection hv with h1 _
      simp only [isSign, Bool.or_eq_false_iff, beq_eq_false_iff_ne]; omega
    | cons d ds' =>
      injection hv with h1 _; subst h1
      exact digits_head_not_sign hd _ _ rfl

/-- `[sign] ds . fs` with a non-zero fraction digit: four roundings -/
theorem parse_accuracy_frac (F : Sem) (hF : F.WF) (sg ds fs : List Nat)
    (hsg : OptSign sg) (hd : allDigits ds = true) (hf : allDigits fs = true)
    (hz : fs.all (· == 48) = false) :
    let I := fromBigint F (decVal ds)
    let N := fromBigint F (decVal fs)
    let D := fromBigint F (10 ^ fs.length)
    let Q := N.div D
    let S := I.add Q
    tryFromStr (sg ++ (ds ++ 46 :: fs)) F = .ok (S.setSign (signNeg sg)) ∧
    I.toRes = Spec.fromNat F F.rm (decVal ds) ∧
    N.toRes = Spec.fromNat F F.rm (decVal fs) ∧
    D.toRes = Spec.fromNat F F.rm (10 ^ fs.length) ∧
    Q.toRes = Spec.div F F.rm N D ∧
    S.toRes = Spec.add F F.rm I Q := by
  intro I N D Q S
  have hI := fromBigint_canonical F (decVal ds) hF
  have hN := fromBigint_canonical F (decVal fs) hF
  have hD := fromBigint_canonical F (10 ^ fs.length) hF
  have hQ : Q.Canonical ∧ Q.sem = F := by
    have := div_canonical N D (by rw [hN.2]; exact hF)
    exact ⟨this.1, this.2.trans hN.2⟩
  refine ⟨?_, C08.fromBigint_correct F _ hF, C08.fromBigint_correct F _ hF,
    C08.fromBigint_correct F _ hF, div_toRes N D F hF hN hD, add_toRes I Q F hF hI hQ⟩
  rw [tryFromStr_sign_body F hsg (by simp)]
  · exact parseBody_frac _ F hd hf hz
  · intro _ a t hv
    cases ds with
    | nil =>
      injection hv with h1 _
      simp only [isSign, Bool.or_eq_false_iff, beq_eq_false_iff_ne]; omega
    | cons d ds' =>
      injection hv with h1 _; subst h1
      exact digits_head_not_sign hd _ _ rfl

/-- `[sign] ds (e|E) ex`: three roundings -/
theorem parse_accuracy_intExp (F : Sem) (hF : F.WF) (sg ds ex : List Nat) (m : Nat) (e : Int)
    (hsg : OptSign sg) (hd : allDigits ds = true) (hm : isExpMark m = true)
    (he : parseI64 ex = some e) :
    let I := fromBigint F (decVal ds)
    let P := fromBigint F (10 ^ e.natAbs)
    let R := applyExp F I (some e)
    tryFromStr (sg ++ (ds ++ m :: ex)) F = .ok (R.setSign (signNeg sg)) ∧
    I.toRes = Spec.fromNat F F.rm (decVal ds) ∧
    P.toRes = Spec.fromNat F F.rm (10 ^ e.natAbs) ∧
    R.toRes = (if 0 ≤ e then Spec.mul F F.rm I P else Spec.div F F.rm I P) := by
  intro I P R
  refine ⟨?_, C08.fromBigint_correct F _ hF, C08.fromBigint_correct F _ hF,
    applyExp_toRes F hF I e (fromBigint_canonical F _ hF)⟩
  rw [tryFromStr_sign_body F hsg (by simp)]
  · exact parseBody_intExp _ F hd hm he
  · intro _ a t hv
    cases ds with
    | nil =>
      injection hv with h1 _
      have := (isExpMark_iff m).mp hm
      simp only [isSign, Bool.or_eq_false_iff, beq_eq_false_iff_ne]; omega
    | cons d ds' =>
      injection hv with h1 _; subst h1
      exact digits_head_not_sign hd _ _ rfl

/-- "1.5" in FP16 through the formula: 1 + round(5/10) = 1.5 exactly -/
example : tryFromStr (strBytes "1.5") FP16 = .ok ⟨FP16, false, 0, 1536, .normal⟩ := by decide
example : tryFromStr (strBytes "15e-1") FP16 = .ok ⟨FP16, false, 0, 1536, .normal⟩ := by decide
example : tryFromStr (strBytes "-.15E1") FP16 = .ok ⟨FP16, true, 0, 1536, .normal⟩ := by decide

/-- Boundary behaviour found by search (not a 6-ulp result): in the upward mode the decimal
    `6.547e4 = 65470`, which is below the largest finite FP16 value 65504, parses to `+inf`,
    because `6.547` is first rounded up to `6.55078125` and `65507.8…` then rounds up past 65504. -/
example : tryFromStr (strBytes "6.547e4") ⟨5, 11, .pos⟩ = .ok (Flt.inf ⟨5, 11, .pos⟩ false) := by decide
/-- the same string in nearest-even mode gives the finite value 65472 = 2046 · 2^5 -/
example : tryFromStr (strBytes "6.547e4") FP16 = .ok ⟨FP16, false, 15, 2046, .normal⟩ := by decide

/-
-- NOT PROVED

1. The 6-ulp bound itself (statement in the comment of section 7):
     theorem parse_accuracy (F) (hF : F.WF) … (hfinI : (fromBigint F (decVal ds)).cat ≠ .inf)
       (hfinD : (fromBigint F (10 ^ fs.length)).cat ≠ .inf) (hfinP : (fromBigint F (10 ^ e.natAbs)).cat ≠ .inf)
       (h : tryFromStr s F = .ok x) (hx : x.cat = .normal ∨ x.cat = .zero) :
       |x.mag − (decVal ds + decVal fs / 10 ^ fs.length) · 10 ^ e| ≤ 6 · Spec.ulpOf F (exponent of the exact value)
   Only the composition formula (`parse_accuracy_partial`, `_frac`, `_intExp`) is proved.  An
   exhaustive evaluation of the model on the strings `d.fffe±k` (FP16 with modes nte/zero/pos/neg,
   0 ≤ d < 12, three fraction digits, k ≤ 4; smaller runs on the formats (e,p) = (4,6), (3,8))
   found a worst finite error of 3 ulps, and one class of
   non-finite results for finite exact values (upward mode, value within 2 ulps of the largest
   finite value; example above).

2. `normalize`'s "losing information" debug assertion (`Flt.normalizeDbgOk`) for the products,
   quotients and sums formed by the parser: it is proved for the loads (`fromBigint_dbgOk`); for
   `mul`/`div`/`add` it is a property of those operations on canonical operands and is not
   specific to parsing.

3. Out of the model: `(-exp) as u64` overflows (debug panic) for the exponent text
   "-9223372036854775808", and `BigInt::powi` needs memory proportional to `|exp|`; both are
   outside the property's bound `|exp| ≤ 5000`.
-/

end Arp.C14
