import Arp.Lemmas.Trans
import Mathlib.Algebra.Order.Floor.Semiring
import Mathlib.Tactic.FieldSimp
import Mathlib.Tactic.Ring
import Mathlib.Tactic.Linarith
import Mathlib.RingTheory.Coprime.Lemmas
/-!
# C20 — `as_fraction`: special operands and the continued-fraction recurrence
-/
namespace Arp.C20
open Arp

/-! ### special operands -/

theorem asFraction_zero (x : Flt) (n : Nat) (h : x.cat = .zero) : x.asFraction n = (0, 1) := by
  simp [Flt.asFraction, Flt.isZero, h]

theorem asFraction_special (x : Flt) (n : Nat) (h : x.cat = .inf ∨ x.cat = .nan) :
    x.asFraction n = (0, 0) := by
  rcases h with h | h <;> simp [Flt.asFraction, Flt.isZero, Flt.isInf, Flt.isNan, h]

/-- `n = 0` behaves as `n = 1` -/
theorem asFraction_n0 (x : Flt) : x.asFraction 0 = x.asFraction 1 := by
  unfold Flt.asFraction
  rw [show Nat.max 0 2 = 2 from rfl, show Nat.max 1 2 = 2 from rfl]
  simp

/-! ### the loop collecting the partial quotients -/

/-- the iteration `real ↦ 1/(real − trunc real)` of frac.rs -/
def fracReal (one : Flt) : Nat → Flt → Flt
  | 0, r => r
  | i + 1, r => fracReal one i (one.div (r.sub r.trunc))

/-- the `i`-th partial quotient: the truncation of the `i`-th iterate, as an integer -/
def fracQuot (one : Flt) (rm : RM) (x : Flt) (i : Nat) : Nat :=
  ((fracReal one i x).trunc).convertNormalToInteger rm

/-- the loop returns, in order, the quotients of the iteration `real ↦ 1/(real − trunc real)` -/
theorem fracLoop_eq (one : Flt) (rm : RM) (k : Nat) (x : Flt) (acc : List Nat) :
    fracLoop one rm k x acc = acc.reverse ++ (List.range k).map (fracQuot one rm x) := by
  induction k generalizing x acc with
  | zero => simp [fracLoop]
  | succ k ih =>
    rw [fracLoop, ih, List.range_succ_eq_map, List.map_cons, List.map_map, List.reverse_cons,
      List.append_assoc]
    rfl

theorem fracLoop_length (one : Flt) (rm : RM) (k : Nat) (x : Flt) (acc : List Nat) :
    (fracLoop one rm k x acc).length = acc.length + k := by
  rw [fracLoop_eq]; simp

/-! ### the textbook convergents -/

/-- one step of `h(i) = a(i)·h(i−1) + h(i−2)`, `k(i) = a(i)·k(i−1) + k(i−2)` on the state
    `((h(i−1), h(i−2)), (k(i−1), k(i−2)))` -/
def stdStep (st : (Nat × Nat) × (Nat × Nat)) (a : Nat) : (Nat × Nat) × (Nat × Nat) :=
  ((a * st.1.1 + st.1.2, st.1.1), (a * st.2.1 + st.2.2, st.2.1))

/-- `h(−1) = 1, h(−2) = 0, k(−1) = 0, k(−2) = 1` -/
def stdInit : (Nat × Nat) × (Nat × Nat) := ((1, 0), (0, 1))

/-- the convergent `h(k−1)/k(k−1)` of the partial quotients `[a0, …, a(k−1)]` -/
def stdConv (l : List Nat) : Nat × Nat :=
  ((l.foldl stdStep stdInit).1.1, (l.foldl stdStep stdInit).2.1)

theorem convergents_eq (l : List Nat) (p q : Nat × Nat) :
    convergents l p q = ((l.foldl stdStep (p, q)).1.1, (l.foldl stdStep (p, q)).2.1) := by
  induction l generalizing p q with
  | nil => rfl
  | cons e rest ih =>
    rw [convergents, ih, List.foldl_cons]
    simp only [stdStep, Nat.add_comm]

/-- the working format of `as_fraction`: `log2(p) + 2` more exponent bits, same precision and
    mode (the operand is cast into it exactly, so no iterate of the loop can overflow) -/
def wideSem (s : Sem) : Sem := s.increaseExponent (s.logPrecision + 1)

theorem wideSem_p (s : Sem) : (wideSem s).p = s.p := rfl
theorem wideSem_rm (s : Sem) : (wideSem s).rm = s.rm := rfl
theorem wideSem_e (s : Sem) : (wideSem s).e = s.e + (s.logPrecision + 1) := rfl

/-- **the result of `as_fraction(n)` is the textbook convergent of the first `n` computed
    partial quotients** (normal `x`, `n ≥ 1`; for `n = 1` that is `(a0, 1)`). -/
theorem asFraction_convergent (x : Flt) (n : Nat) (hx : x.cat = .normal) (hn : 1 ≤ n) :
    x.asFraction n
      = stdConv ((fracLoop (Flt.one (wideSem x.sem) false) x.sem.rm (max n 2)
          (x.cast (wideSem x.sem)) []).take n) := by
  unfold Flt.asFraction
  simp only [Flt.isZero, Flt.isInf, Flt.isNan, hx, show (Cat.normal == Cat.zero) = false from rfl,
    show (Cat.normal == Cat.inf) = false from rfl, show (Cat.normal == Cat.nan) = false from rfl,
    Bool.or_self, Bool.false_eq_true, if_false]
  show (match fracLoop (Flt.one (wideSem x.sem) false) x.sem.rm (max n 2) (x.cast (wideSem x.sem)) [] with
    | a0 :: a1 :: rest => _
    | _ => _) = _
  have hlen := fracLoop_length (Flt.one (wideSem x.sem) false) x.sem.rm (max n 2)
    (x.cast (wideSem x.sem)) []
  generalize fracLoop (Flt.one (wideSem x.sem) false) x.sem.rm (max n 2)
    (x.cast (wideSem x.sem)) [] = l at hlen ⊢
  match l, hlen with
  | [], h => simp at h; omega
  | [_], h => simp at h; omega
  | a0 :: a1 :: rest, h =>
    simp only
    by_cases h2 : n < 2
    · have : n = 1 := by omega
      subst this
      simp [stdConv, stdStep, stdInit]
    · rw [if_neg h2]
      have hm : max n 2 = n := by omega
      rw [hm] at h
      simp only [List.length_cons, List.length_nil] at h
      rw [List.take_of_length_le (by simp only [List.length_cons]; omega), convergents_eq]
      simp only [stdConv, stdInit, List.foldl_cons, stdStep, Nat.mul_one, Nat.add_zero, Nat.mul_zero,
        Nat.zero_add]
      rw [show a1 * a0 + 1 = 1 + a0 * a1 by ring]

/-! ### exact continued fractions of a rational -/

/-- the first `n` terms of the regular continued fraction of `q ≥ 0` (Euclid's algorithm);
    the list is shorter than `n` iff the expansion terminates earlier -/
def cfTerms (q : ℚ) : Nat → List Nat
  | 0 => []
  | n + 1 => if q - (⌊q⌋₊ : ℚ) = 0 then [⌊q⌋₊] else ⌊q⌋₊ :: cfTerms (1 / (q - (⌊q⌋₊ : ℚ))) n

/-- value of the finite continued fraction `[a0; a1, …]` -/
def cfEval : List Nat → ℚ
  | [] => 0
  | [a] => a
  | a :: b :: l => a + 1 / cfEval (b :: l)

theorem cfEval_pos : ∀ (l : List Nat), l ≠ [] → (∀ a ∈ l, 1 ≤ a) → 1 ≤ cfEval l
  | [], h, _ => absurd rfl h
  | [a], _, h => by
      have := h a (by simp)
      simp only [cfEval]; exact_mod_cast this
  | a :: b :: l, _, h => by
      have ha := h a (by simp)
      have ih := cfEval_pos (b :: l) (by simp) (fun c hc => h c (by simp [hc]))
      simp only [cfEval]
      have : (1:ℚ) ≤ a := by exact_mod_cast ha
      have : (0:ℚ) < 1 / cfEval (b :: l) := by positivity
      linarith

/-- Möbius form of the recurrence: folding the quotients `l` from the state `st` yields
    `(t·h + h')/(t·k + k')` at `t = [l]`. -/
theorem foldl_eval (l : List Nat) (hl : l ≠ []) (hpos : ∀ a ∈ l.tail, 1 ≤ a)
    (st : (Nat × Nat) × (Nat × Nat)) :
    (((l.foldl stdStep st).1.1 : ℚ)) / ((l.foldl stdStep st).2.1 : ℚ)
      = (cfEval l * st.1.1 + st.1.2) / (cfEval l * st.2.1 + st.2.2) := by
  induction l generalizing st with
  | nil => exact absurd rfl hl
  | cons a l ih =>
    cases l with
    | nil => simp [stdStep, cfEval]
    | cons b l =>
      rw [List.foldl_cons, ih (by simp) (fun c hc => hpos c (by simp [List.mem_of_mem_tail hc]))]
      have ht : 1 ≤ cfEval (b :: l) := cfEval_pos _ (by simp) (fun c hc => hpos c (by simpa using hc))
      have ht0 : cfEval (b :: l) ≠ 0 := by linarith
      simp only [stdStep, cfEval]
      push_cast
      set t := cfEval (b :: l) with htdef
      have e1 : t * ((a:ℚ) * st.1.1 + st.1.2) + st.1.1 = t * (((a:ℚ) + 1 / t) * st.1.1 + st.1.2) := by
        field_simp; ring
      have e2 : t * ((a:ℚ) * st.2.1 + st.2.2) + st.2.1 = t * (((a:ℚ) + 1 / t) * st.2.1 + st.2.2) := by
        field_simp; ring
      rw [e1, e2, mul_div_mul_left _ _ ht0]

/-- **the textbook convergent evaluates to the finite continued fraction** -/
theorem stdConv_eval (l : List Nat) (hl : l ≠ []) (hpos : ∀ a ∈ l.tail, 1 ≤ a) :
    ((stdConv l).1 : ℚ) / ((stdConv l).2 : ℚ) = cfEval l := by
  have := foldl_eval l hl hpos stdInit
  simp only [stdConv]
  rw [this]; simp [stdInit]

/-- `h(i)·k(i−1) − h(i−1)·k(i) = (−1)^(i+1)`: consecutive convergents are unimodular -/
theorem foldl_det (l : List Nat) (st : (Nat × Nat) × (Nat × Nat)) :
    (((l.foldl stdStep st).1.1 : Int)) * (l.foldl stdStep st).2.2 - ((l.foldl stdStep st).1.2 : Int) * (l.foldl stdStep st).2.1
      = (-1) ^ l.length * ((st.1.1 : Int) * st.2.2 - (st.1.2 : Int) * st.2.1) := by
  induction l generalizing st with
  | nil => simp
  | cons a l ih =>
    rw [List.foldl_cons, ih, List.length_cons, pow_succ]
    simp only [stdStep]
    push_cast
    ring

/-- the convergent is in lowest terms -/
theorem stdConv_coprime (l : List Nat) : Nat.Coprime (stdConv l).1 (stdConv l).2 := by
  have h := foldl_det l stdInit
  simp only [stdInit, Nat.cast_one, Nat.cast_zero, mul_one, mul_zero, sub_zero] at h
  rw [← Nat.isCoprime_iff_coprime]
  simp only [stdConv]
  rcases Nat.even_or_odd l.length with he | ho
  · rw [he.neg_one_pow] at h
    exact ⟨((List.foldl stdStep ((1, 0), (0, 1)) l).2.2 : Int), -((List.foldl stdStep ((1, 0), (0, 1)) l).1.2 : Int), by
      simp only [stdInit]; linarith⟩
  · rw [ho.neg_one_pow] at h
    exact ⟨-((List.foldl stdStep ((1, 0), (0, 1)) l).2.2 : Int), ((List.foldl stdStep ((1, 0), (0, 1)) l).1.2 : Int), by
      simp only [stdInit]; linarith⟩

/-! ### the Euclidean expansion -/

theorem cfTerms_ne_nil (q : ℚ) (n : Nat) : cfTerms q (n + 1) ≠ [] := by
  rw [cfTerms]; split <;> simp

theorem cfTerms_tail_pos (q : ℚ) (hq : 0 ≤ q) (n : Nat) : ∀ a ∈ (cfTerms q n).tail, 1 ≤ a := by
  induction n generalizing q with
  | zero => simp [cfTerms]
  | succ n ih =>
    rw [cfTerms]
    split
    · simp
    · rename_i hf
      intro a ha
      simp only [List.tail_cons] at ha
      have hfl : (⌊q⌋₊ : ℚ) ≤ q := Nat.floor_le hq
      have hlt : q < ⌊q⌋₊ + 1 := Nat.lt_floor_add_one q
      have hf0 : 0 < q - (⌊q⌋₊ : ℚ) := lt_of_le_of_ne (by linarith) (Ne.symm hf)
      have hf1 : q - (⌊q⌋₊ : ℚ) < 1 := by linarith
      have hbig : 1 < 1 / (q - (⌊q⌋₊ : ℚ)) := by rw [lt_div_iff₀ hf0]; linarith
      cases n with
      | zero => simp [cfTerms] at ha
      | succ n =>
        rw [cfTerms] at ha
        have hfirst : 1 ≤ ⌊1 / (q - (⌊q⌋₊ : ℚ))⌋₊ := Nat.floor_pos.mpr (le_of_lt hbig)
        split at ha
        · simp only [List.mem_singleton] at ha; omega
        · rcases List.mem_cons.mp ha with h | h
          · omega
          · have := ih (1 / (q - (⌊q⌋₊ : ℚ))) (by positivity) a
            rw [cfTerms, if_neg (by assumption)] at this
            exact this (by simpa using h)

/-- a terminating expansion evaluates to `q` itself -/
theorem cfEval_cfTerms_of_short (q : ℚ) (hq : 0 ≤ q) (n : Nat) (h : (cfTerms q n).length < n) :
    cfEval (cfTerms q n) = q := by
  induction n generalizing q with
  | zero => simp at h
  | succ n ih =>
    rw [cfTerms] at h ⊢
    split
    · rename_i hf
      simp only [cfEval]; linarith
    · rename_i hf
      rw [if_neg hf] at h
      simp only [List.length_cons] at h
      have hfl : (⌊q⌋₊ : ℚ) ≤ q := Nat.floor_le hq
      have hf0 : 0 < q - (⌊q⌋₊ : ℚ) := lt_of_le_of_ne (by linarith) (Ne.symm hf)
      have hrec := ih (1 / (q - (⌊q⌋₊ : ℚ))) (by positivity) (by omega)
      obtain ⟨m, rfl⟩ : ∃ m, n = m + 1 := ⟨n - 1, by omega⟩
      obtain ⟨b, l, hbl⟩ : ∃ b l, cfTerms (1 / (q - (⌊q⌋₊ : ℚ))) (m + 1) = b :: l := by
        cases hc : cfTerms (1 / (q - (⌊q⌋₊ : ℚ))) (m + 1) with
        | nil => exact absurd hc (cfTerms_ne_nil _ _)
        | cons b l => exact ⟨b, l, rfl⟩
      rw [hbl] at hrec ⊢
      simp only [cfEval]
      rw [hrec]
      field_simp
      ring

/-- **IF the computed partial quotients are the exact ones, the result is the exact convergent**
    `[a0; a1, …, a(n−1)]` of `|x|`: numerator and denominator are those of the textbook
    recurrence on the exact continued-fraction terms, the fraction is in lowest terms and its
    value is the finite continued fraction. -/
theorem asFraction_exact_of_quotients (x : Flt) (n : Nat) (hx : x.cat = .normal) (hn : 1 ≤ n)
    (h : (fracLoop (Flt.one (wideSem x.sem) false) x.sem.rm (max n 2) (x.cast (wideSem x.sem)) []).take n
      = cfTerms |x.val| n) :
    x.asFraction n = stdConv (cfTerms |x.val| n) ∧
    Nat.Coprime (x.asFraction n).1 (x.asFraction n).2 ∧
    ((x.asFraction n).1 : ℚ) / ((x.asFraction n).2 : ℚ) = cfEval (cfTerms |x.val| n) := by
  have h1 : x.asFraction n = stdConv (cfTerms |x.val| n) := by
    rw [asFraction_convergent x n hx hn, h]
  obtain ⟨m, rfl⟩ : ∃ m, n = m + 1 := ⟨n - 1, by omega⟩
  refine ⟨h1, ?_, ?_⟩
  · rw [h1]; exact stdConv_coprime _
  · rw [h1]
    exact stdConv_eval _ (cfTerms_ne_nil _ _) (cfTerms_tail_pos _ (abs_nonneg _) _)

/-- … and if moreover the expansion of `|x|` terminates within `n` terms, the fraction IS `|x|`. -/
theorem asFraction_exact_value (x : Flt) (n : Nat) (hx : x.cat = .normal) (hn : 1 ≤ n)
    (h : (fracLoop (Flt.one (wideSem x.sem) false) x.sem.rm (max n 2) (x.cast (wideSem x.sem)) []).take n
      = cfTerms |x.val| n)
    (hterm : cfTerms |x.val| (n + 1) = cfTerms |x.val| n) :
    ((x.asFraction n).1 : ℚ) / ((x.asFraction n).2 : ℚ) = |x.val| := by
  rw [(asFraction_exact_of_quotients x n hx hn h).2.2, ← hterm]
  apply cfEval_cfTerms_of_short _ (abs_nonneg _)
  rw [hterm]
  have : (cfTerms |x.val| n).length ≤ n := by
    rw [← h]; simp
  omega

/-! ### Concrete FP16 instances -/

/-- 0.75 = [0; 1, 3]: the convergents are 0/1, 1/1, 3/4 -/
example : (⟨FP16, false, -1, 1536, .normal⟩ : Flt).asFraction 1 = (0, 1) := by decide
example : (⟨FP16, false, -1, 1536, .normal⟩ : Flt).asFraction 2 = (1, 1) := by decide
example : (⟨FP16, false, -1, 1536, .normal⟩ : Flt).asFraction 3 = (3, 4) := by decide
example : stdConv [0, 1, 3] = (3, 4) := by decide
/-- FP16 `π = 1608·2^-9 = 3.140625`: quotients `[3, 7, 9, …]`, convergents `22/7`, `201/64` (exact) -/
example : (⟨FP16, false, 1, 1608, .normal⟩ : Flt).asFraction 2 = (22, 7) := by decide
example : (⟨FP16, false, 1, 1608, .normal⟩ : Flt).asFraction 3 = (201, 64) := by decide
example : fracLoop (Flt.one FP16 false) .nte 3 ⟨FP16, false, 1, 1608, .normal⟩ [] = [3, 7, 9] := by decide
example : stdConv [3, 7, 9] = (201, 64) := by decide
example : (Flt.zero FP16 true).asFraction 5 = (0, 1) := by decide
example : (Flt.inf FP16 false).asFraction 5 = (0, 0) := by decide

end Arp.C20
