import Arp.Props.C13
import Arp.Props.C13Limbs
import Arp.Props.C13LimbsWide
/-! umbrella module of property C13 -/
