import Arp.Props.C13
import Arp.Props.C13Limbs
/-! umbrella module of property C13 -/
