import Arp.Lemmas.SpecRound
/-!
# Declarative characterisation of the executable rounding specification `Spec.round`
(properties C01 / C02: the specification itself need not be trusted)

Throughout: `F.WF` (at least two exponent and two significand bits), `q > 0` the exact
magnitude, `neg` the sign.  `Res.mag F r` is the magnitude `|Res.val F r|`
(`Res.abs_val`), `F.ulp e = 2^(e-(p-1))` (`Sem.ulp_def`).
-/
namespace Arp.SpecRound

variable {F : Sem} {q : ℚ}

/-! ## 1. shape of the result -/

/-- never NaN; zero, infinity or finite number, always with the sign `neg` -/
theorem round_cases (hF : F.WF) (hq : 0 < q) (rm : RM) (neg : Bool) :
    Spec.round F rm neg q = .zero neg ∨ Spec.round F rm neg q = .inf neg ∨
      ∃ e m, Spec.round F rm neg q = .fin neg e m := by
  obtain ⟨e, m, f, d⟩ := exists_decomp (F := F) (by have := hF.2; omega) hq
  by_cases h : Ovf F e m (Spec.up rm neg m f)
  · rw [d.round_ovf hF hq rm neg h, overflow_table]
    split
    · exact Or.inr (Or.inl rfl)
    · exact Or.inr (Or.inr ⟨_, _, rfl⟩)
  · rcases d.round_not_ovf hF hq rm neg h _ rfl with ⟨_, hr⟩ | ⟨e'', m'', hr, _⟩
    · exact Or.inl hr
    · exact Or.inr (Or.inr ⟨_, _, hr⟩)

theorem round_ne_nan (hF : F.WF) (hq : 0 < q) (rm : RM) (neg : Bool) :
    Spec.round F rm neg q ≠ .nan := by
  rcases round_cases hF hq rm neg with h | h | ⟨e, m, h⟩ <;> rw [h] <;> simp

/-! ## 2. finite results are canonical -/

theorem round_mem (hF : F.WF) (hq : 0 < q) (rm : RM) (neg : Bool) {s : Bool} {e : Int} {m : Nat}
    (h : Spec.round F rm neg q = .fin s e m) :
    s = neg ∧ F.emin ≤ e ∧ e ≤ F.emax ∧ 0 < m ∧ m < 2 ^ F.p ∧ (2 ^ (F.p - 1) ≤ m ∨ e = F.emin) := by
  obtain ⟨e0, m0, f, d⟩ := exists_decomp (F := F) (by have := hF.2; omega) hq
  by_cases ho : Ovf F e0 m0 (Spec.up rm neg m0 f)
  · rw [d.round_ovf hF hq rm neg ho, overflow_table] at h
    split at h
    · exact absurd h (by simp)
    · injection h with h1 h2 h3
      subst h1 h2 h3
      have h2p := two_pow_pred_sr (show 1 ≤ F.p by have := hF.2; omega)
      have hpp : 1 ≤ 2 ^ (F.p - 1) := Nat.one_le_two_pow
      exact ⟨rfl, Sem.emin_le_emax hF, le_refl _, by omega, by omega, Or.inl (by omega)⟩
  · rcases d.round_not_ovf hF hq rm neg ho _ rfl with ⟨_, hr⟩ | ⟨e'', m'', hr, h1, h2, h3, h4, h5, _⟩
    · rw [hr] at h; exact absurd h (by simp)
    · rw [hr] at h
      injection h with h1' h2' h3'
      subst h1' h2' h3'
      exact ⟨rfl, h1, h2, h3, h4, h5⟩

/-- the magnitude of every result is representable (zero for zeros and infinities) -/
theorem round_isRep (hF : F.WF) (hq : 0 < q) (rm : RM) (neg : Bool) :
    IsRep F ((Spec.round F rm neg q).mag F) := by
  rcases round_cases hF hq rm neg with h | h | ⟨e, m, h⟩
  · rw [h]; exact IsRep.zero hF
  · rw [h]; exact IsRep.zero hF
  · obtain ⟨_, h1, h2, _, h4, h5⟩ := round_mem hF hq rm neg h
    rw [h]; exact ⟨e, m, h1, h2, h4, h5, rfl⟩

/-- the same with `Res.val` -/
theorem round_isRep_val (hF : F.WF) (hq : 0 < q) (rm : RM) (neg : Bool) :
    IsRep F |Res.val F (Spec.round F rm neg q)| := by
  rw [Res.abs_val]; exact round_isRep hF hq rm neg

/-! ## 3. representable magnitudes are returned unchanged, in every mode -/

theorem round_exact (hF : F.WF) (hq : 0 < q) (hr : IsRep F q) (rm : RM) (neg : Bool) :
    ∃ e m, Spec.round F rm neg q = .fin neg e m ∧ (m:ℚ) * (2:ℚ) ^ (e - ((F.p:Int) - 1)) = q := by
  obtain ⟨e, m, he, d⟩ := hr.decomp
  have hup : Spec.up rm neg m 0 = false := up_zero rm neg m
  have ho : ¬ Ovf F e m (Spec.up rm neg m 0) := by
    rw [hup]; rintro (h | ⟨_, _, h⟩)
    · omega
    · exact absurd h (by decide)
  have hqm : q = (m:ℚ) * F.ulp e := by have := d.hq; rw [add_zero] at this; exact this
  rcases d.round_not_ovf hF hq rm neg ho m (by rw [hup]; rfl) with ⟨h0, _⟩ | ⟨e'', m'', hr, _, _, _, _, _, hv, _⟩
  · rw [hqm, h0] at hq; simp at hq
  · exact ⟨e'', m'', hr, by rw [hqm, ← hv]; rfl⟩

/-! ## 7. overflow (C02) -/

/-- the overflow table: infinity for `none`/`nte`/`nta` and for the directed mode that
    rounds this sign away from zero; otherwise the largest finite number -/
theorem overflow_table (rm : RM) (neg : Bool) :
    Spec.overflow F rm neg =
      if rm = .none ∨ rm = .nte ∨ rm = .nta ∨ rm.awayFor neg then Res.inf neg
      else Res.fin neg F.emax (2 ^ F.p - 1) :=
  Arp.overflow_table F rm neg

/-- the finite entry of the table is the largest finite magnitude -/
theorem overflow_fin_mag (neg : Bool) : (Res.fin neg F.emax (2 ^ F.p - 1)).mag F = maxFinite F := rfl

/-- `Spec.round` returns an infinity exactly at/above the threshold of the mode class;
    of the truncating modes only `none` ever does -/
theorem round_eq_inf_iff (hF : F.WF) (hq : 0 < q) (rm : RM) (neg s : Bool) :
    Spec.round F rm neg q = .inf s ↔
      (s = neg ∧ ((rm = .none ∧ (2:ℚ) ^ (F.emax + 1) ≤ q) ∨ (rm.awayFor neg ∧ maxFinite F < q) ∨
        ((rm = .nte ∨ rm = .nta) ∧ nearThreshold F ≤ q))) := by
  obtain ⟨e, m, f, d⟩ := exists_decomp (F := F) (by have := hF.2; omega) hq
  rw [d.round_eq_inf_iff hF hq, d.ovf_iff hF]
  have h1 : rm = .none → rm.truncFor neg := fun h => Or.inr (Or.inl h)
  have h2 := RM.truncFor_not_away (rm := rm) (neg := neg)
  have h3 := RM.truncFor_not_nearest (rm := rm) (neg := neg)
  have h4 : rm.truncFor neg → rm = .none ∨ rm = .nte ∨ rm = .nta ∨ rm.awayFor neg → rm = .none := by
    intro ht h; rcases h with h | h | h | h
    · exact h
    · exact absurd (Or.inl h) (h3 ht)
    · exact absurd (Or.inr h) (h3 ht)
    · exact absurd h (h2 ht)
  tauto

/-- no spurious infinity -/
theorem no_spurious_inf (hF : F.WF) (hq : 0 < q) (rm : RM) (neg s : Bool)
    (h : Spec.round F rm neg q = .inf s) :
    s = neg ∧ (rm.truncFor neg → (2:ℚ) ^ (F.emax + 1) ≤ q) ∧ (rm.awayFor neg → maxFinite F < q) ∧
      (rm = .nte ∨ rm = .nta → nearThreshold F ≤ q) := by
  obtain ⟨hs, h⟩ := (round_eq_inf_iff hF hq rm neg s).mp h
  have h1 : rm = .none → rm.truncFor neg := fun h => Or.inr (Or.inl h)
  have h2 := RM.truncFor_not_away (rm := rm) (neg := neg)
  have h3 := RM.truncFor_not_nearest (rm := rm) (neg := neg)
  have h4 := RM.awayFor_not_nearest (rm := rm) (neg := neg)
  tauto

/-- in the modes whose table entry is an infinity, "result = table entry" is the threshold -/
theorem round_overflow_iff_of_inf (hF : F.WF) (hq : 0 < q) (rm : RM) (neg : Bool)
    (hinf : rm = .none ∨ rm = .nte ∨ rm = .nta ∨ rm.awayFor neg) :
    Spec.round F rm neg q = Spec.overflow F rm neg ↔
      ((rm = .none ∧ (2:ℚ) ^ (F.emax + 1) ≤ q) ∨ (rm.awayFor neg ∧ maxFinite F < q) ∨
        ((rm = .nte ∨ rm = .nta) ∧ nearThreshold F ≤ q)) := by
  rw [overflow_table, if_pos hinf, round_eq_inf_iff hF hq]; tauto

theorem round_overflow_iff_none (hF : F.WF) (hq : 0 < q) (neg : Bool) :
    Spec.round F .none neg q = Spec.overflow F .none neg ↔ (2:ℚ) ^ (F.emax + 1) ≤ q := by
  rw [round_overflow_iff_of_inf hF hq _ _ (Or.inl rfl)]; simp [RM.awayFor]

theorem round_overflow_iff_away (hF : F.WF) (hq : 0 < q) {rm : RM} {neg : Bool}
    (h : rm.awayFor neg) :
    Spec.round F rm neg q = Spec.overflow F rm neg ↔ maxFinite F < q := by
  rw [round_overflow_iff_of_inf hF hq _ _ (Or.inr (Or.inr (Or.inr h)))]
  have := RM.awayFor_not_nearest h
  have : rm ≠ .none := by rintro rfl; simp [RM.awayFor] at h
  tauto

theorem round_overflow_iff_nta (hF : F.WF) (hq : 0 < q) (neg : Bool) :
    Spec.round F .nta neg q = Spec.overflow F .nta neg ↔
      maxFinite F + (2:ℚ) ^ (F.emax - (F.p:Int)) ≤ q := by
  rw [round_overflow_iff_of_inf hF hq _ _ (Or.inr (Or.inr (Or.inl rfl)))]; simp [RM.awayFor, nearThreshold]

theorem round_overflow_iff_nte (hF : F.WF) (hq : 0 < q) (neg : Bool) :
    Spec.round F .nte neg q = Spec.overflow F .nte neg ↔
      maxFinite F + (2:ℚ) ^ (F.emax - (F.p:Int)) ≤ q := by
  rw [round_overflow_iff_of_inf hF hq _ _ (Or.inr (Or.inl rfl))]; simp [RM.awayFor, nearThreshold]

/-- the nearest-mode threshold in closed form -/
theorem nearThreshold_closed :
    maxFinite F + (2:ℚ) ^ (F.emax - (F.p:Int)) = (2 - (2:ℚ) ^ (-(F.p:Int))) * (2:ℚ) ^ F.emax :=
  nearThreshold_eq' F

/-- truncating modes: beyond the exponent range the result is the table entry … -/
theorem round_overflow_of_trunc (hF : F.WF) (hq : 0 < q) {rm : RM} {neg : Bool}
    (h : rm.truncFor neg) (hge : (2:ℚ) ^ (F.emax + 1) ≤ q) :
    Spec.round F rm neg q = Spec.overflow F rm neg := by
  obtain ⟨e, m, f, d⟩ := exists_decomp (F := F) (by have := hF.2; omega) hq
  exact d.round_ovf hF hq rm neg ((d.ovf_trunc hF h).mpr hge)

/-- … but for the saturating ones (`zero`, and `pos`/`neg` on the truncating side) the table
    entry is the largest finite number, which is also the correct result for
    `maxFinite ≤ q < 2^(emax+1)`: "result = table entry" is `maxFinite ≤ q`, not
    `2^(emax+1) ≤ q` (the statement `round_overflow_iff` for `truncFor` is false as given,
    e.g. `F = ⟨5,11,_⟩`, `rm = zero`, `q = 65504`). -/
theorem round_overflow_iff_trunc_partial (hF : F.WF) (hq : 0 < q) {rm : RM} {neg : Bool}
    (h : rm.truncFor neg) (hnone : rm ≠ .none) :
    Spec.round F rm neg q = Spec.overflow F rm neg ↔ maxFinite F ≤ q := by
  obtain ⟨e, m, f, d⟩ := exists_decomp (F := F) (by have := hF.2; omega) hq
  have hup := up_trunc h m f
  have hnot : ¬ (rm = .none ∨ rm = .nte ∨ rm = .nta ∨ rm.awayFor neg) := by
    have := RM.truncFor_not_away h; have := RM.truncFor_not_nearest h; tauto
  have hm := d.hm
  by_cases ho : Ovf F e m (Spec.up rm neg m f)
  · have h1 := (d.ovf_trunc hF h).mp ho
    have h2 := maxFinite_lt_sr F
    exact ⟨fun _ => by linarith, fun _ => d.round_ovf hF hq rm neg ho⟩
  · rw [d.maxFinite_le_iff hF, overflow_table, if_neg hnot]
    have hle : ¬ F.emax < e := fun h' => ho (Or.inl h')
    rcases d.round_not_ovf hF hq rm neg ho m (by rw [hup]; rfl) with
      ⟨h0, hr⟩ | ⟨e'', m'', hr, _, _, _, _, _, _, _, _, hsame⟩
    · rw [hr]
      constructor
      · intro h'; exact absurd h' (by simp)
      · rintro (h' | ⟨_, h'⟩)
        · exact absurd h' hle
        · exfalso
          have h2p := two_pow_pred_sr (show 1 ≤ F.p by have := hF.2; omega)
          have hpp : 1 ≤ 2 ^ (F.p - 1) := Nat.one_le_two_pow
          omega
    · obtain ⟨rfl, rfl⟩ := hsame (by omega)
      rw [hr]
      constructor
      · intro h'
        injection h' with _ h2 h3
        have : 1 ≤ 2 ^ F.p := Nat.one_le_two_pow
        exact Or.inr ⟨h2, by omega⟩
      · rintro (h' | ⟨h1, h2⟩)
        · exact absurd h' hle
        · rw [h1, show 2 ^ F.p - 1 = m'' by omega]

/-- all mode classes at once (true variant of `round_overflow_iff`) -/
theorem round_overflow_iff_partial (hF : F.WF) (hq : 0 < q) (rm : RM) (neg : Bool) :
    Spec.round F rm neg q = Spec.overflow F rm neg ↔
      ((rm = .none ∧ (2:ℚ) ^ (F.emax + 1) ≤ q) ∨
       (rm.truncFor neg ∧ rm ≠ .none ∧ maxFinite F ≤ q) ∨
       (rm.awayFor neg ∧ maxFinite F < q) ∨
       ((rm = .nte ∨ rm = .nta) ∧ nearThreshold F ≤ q)) := by
  have h1 : rm = .none → rm.truncFor neg := fun h => Or.inr (Or.inl h)
  have h2 := RM.truncFor_not_away (rm := rm) (neg := neg)
  have h3 := RM.truncFor_not_nearest (rm := rm) (neg := neg)
  by_cases hinf : rm = .none ∨ rm = .nte ∨ rm = .nta ∨ rm.awayFor neg
  · rw [round_overflow_iff_of_inf hF hq rm neg hinf]
    constructor
    · rintro (h | h | h)
      · exact Or.inl h
      · exact Or.inr (Or.inr (Or.inl h))
      · exact Or.inr (Or.inr (Or.inr h))
    · rintro (h | ⟨ht, hne, _⟩ | h | h)
      · exact Or.inl h
      · exfalso
        rcases hinf with h | h | h | h
        · exact hne h
        · exact h3 ht (Or.inl h)
        · exact h3 ht (Or.inr h)
        · exact h2 ht h
      · exact Or.inr (Or.inl h)
      · exact Or.inr (Or.inr h)
  · have ht : rm.truncFor neg := by
      rcases mode_cases rm neg with h | h | h | h
      · exact h
      · exact absurd (Or.inr (Or.inr (Or.inr h))) hinf
      · exact absurd (Or.inr (Or.inl h)) hinf
      · exact absurd (Or.inr (Or.inr (Or.inl h))) hinf
    have hne : rm ≠ .none := fun h => hinf (Or.inl h)
    rw [round_overflow_iff_trunc_partial hF hq ht hne]
    constructor
    · intro h; exact Or.inr (Or.inl ⟨ht, hne, h⟩)
    · rintro (⟨h, _⟩ | ⟨_, _, h⟩ | ⟨h, _⟩ | ⟨h, _⟩)
      · exact absurd h hne
      · exact h
      · exact absurd h (h2 ht)
      · exact absurd h (h3 ht)

/-! ## 4. truncating modes: the largest representable magnitude not above `q` -/

/-- a result that is not an infinity is a zero or a finite number of sign `neg` -/
theorem round_finite_cases (hF : F.WF) (hq : 0 < q) (rm : RM) (neg : Bool)
    (h : (Spec.round F rm neg q).IsFinite) :
    Spec.round F rm neg q = .zero neg ∨ ∃ e m, Spec.round F rm neg q = .fin neg e m := by
  rcases round_cases hF hq rm neg with h' | h' | h'
  · exact Or.inl h'
  · rw [h'] at h; exact absurd h id
  · exact Or.inr h'

theorem round_trunc_spec (hF : F.WF) (hq : 0 < q) {rm : RM} {neg : Bool} (h : rm.truncFor neg)
    (hlt : q < (2:ℚ) ^ (F.emax + 1)) :
    (Spec.round F rm neg q = .zero neg ∨ ∃ e m, Spec.round F rm neg q = .fin neg e m) ∧
    (Spec.round F rm neg q).mag F ≤ q ∧ IsRep F ((Spec.round F rm neg q).mag F) ∧
    ∀ y, IsRep F y → y ≤ q → y ≤ (Spec.round F rm neg q).mag F := by
  have hp : 1 ≤ F.p := by have := hF.2; omega
  obtain ⟨e, m, f, d⟩ := exists_decomp (F := F) hp hq
  have ho : ¬ Ovf F e m (Spec.up rm neg m f) := by rw [d.ovf_trunc hF h]; exact not_le.mpr hlt
  obtain ⟨hfin, hmag, _⟩ := d.round_not_ovf_mag hF hq rm neg ho m (by rw [up_trunc h]; rfl)
  refine ⟨round_finite_cases hF hq rm neg hfin, ?_, round_isRep hF hq rm neg, ?_⟩
  · rw [hmag]; exact d.lo
  · intro y hy hyq
    rw [hmag]
    rcases hy.gap hp d.hn with h' | h'
    · exact h'
    · have := d.hi; linarith

/-! ## 5. directed modes away from zero: the smallest representable magnitude not below `q` -/

theorem round_away_spec (hF : F.WF) (hq : 0 < q) {rm : RM} {neg : Bool} (h : rm.awayFor neg)
    (hle : q ≤ maxFinite F) :
    (∃ e m, Spec.round F rm neg q = .fin neg e m) ∧
    q ≤ (Spec.round F rm neg q).mag F ∧ IsRep F ((Spec.round F rm neg q).mag F) ∧
    ∀ y, IsRep F y → q ≤ y → (Spec.round F rm neg q).mag F ≤ y := by
  have hp : 1 ≤ F.p := by have := hF.2; omega
  obtain ⟨e, m, f, d⟩ := exists_decomp (F := F) hp hq
  have ho : ¬ Ovf F e m (Spec.up rm neg m f) := by rw [d.ovf_away hF h]; exact not_lt.mpr hle
  obtain ⟨hfin, hmag, _⟩ := d.round_not_ovf_mag hF hq rm neg ho _ rfl
  have hu := F.ulp_pos e
  have herr := d.err (Spec.up rm neg m f) _ rfl
  rw [← hmag] at herr
  have hf0 := d.hf0
  have hf1 := d.hf1
  have hge : q ≤ (Spec.round F rm neg q).mag F := by
    cases hup : Spec.up rm neg m f
    · have : f = 0 := by
        by_contra hne; rw [(up_away h m f).mpr hne] at hup; exact absurd hup (by decide)
      rw [hup, this] at herr; simp at herr; linarith
    · rw [hup] at herr; simp only [if_true] at herr; nlinarith
  refine ⟨?_, hge, round_isRep hF hq rm neg, ?_⟩
  · rcases round_finite_cases hF hq rm neg hfin with h' | h'
    · rw [h'] at hge; simp [Res.mag] at hge; linarith
    · exact h'
  · intro y hy hqy
    cases hup : Spec.up rm neg m f
    · have : f = 0 := by
        by_contra hne; rw [(up_away h m f).mpr hne] at hup; exact absurd hup (by decide)
      rw [hup, this] at herr; simp at herr; linarith
    · rw [hup] at herr; simp only [if_true] at herr
      have hfpos : 0 < f := lt_of_le_of_ne hf0 (Ne.symm (up_true_ne_zero hup))
      rcases hy.gap hp d.hn with h' | h'
      · have := d.hq; nlinarith
      · have := d.hq; nlinarith

theorem round_away_overflow (hF : F.WF) (hq : 0 < q) {rm : RM} {neg : Bool} (h : rm.awayFor neg)
    (hgt : maxFinite F < q) : Spec.round F rm neg q = .inf neg := by
  rw [round_eq_inf_iff hF hq]; exact ⟨rfl, Or.inr (Or.inl ⟨h, hgt⟩)⟩

/-! ## 10. error bound -/

/-- Less than one ulp (of the result's exponent), whenever the result is not the saturated
    overflow value.  Without `hsat` the statement is false: `F = ⟨5,11,_⟩`, `rm = zero`,
    `q = 2^20` gives `fin 15 2047 = 65504`, error `983072 > 2^5`. -/
theorem within_ulp_partial (hF : F.WF) (hq : 0 < q) (rm : RM) (neg : Bool)
    (hsat : rm.truncFor neg → q < (2:ℚ) ^ (F.emax + 1)) {s : Bool} {e : Int} {m : Nat}
    (h : Spec.round F rm neg q = .fin s e m) :
    |(m:ℚ) * (2:ℚ) ^ (e - ((F.p:Int) - 1)) - q| < (2:ℚ) ^ (e - ((F.p:Int) - 1)) := by
  have hp : 1 ≤ F.p := by have := hF.2; omega
  obtain ⟨e0, m0, f, d⟩ := exists_decomp (F := F) hp hq
  have ho : ¬ Ovf F e0 m0 (Spec.up rm neg m0 f) := by
    intro ho
    rcases (d.ovf_iff hF rm neg).mp ho with ⟨ht, hge⟩ | h' | h'
    · exact absurd hge (not_le.mpr (hsat ht))
    · have := (round_eq_inf_iff hF hq rm neg neg).mpr ⟨rfl, Or.inr (Or.inl h')⟩
      rw [this] at h; exact absurd h (by simp)
    · have := (round_eq_inf_iff hF hq rm neg neg).mpr ⟨rfl, Or.inr (Or.inr h')⟩
      rw [this] at h; exact absurd h (by simp)
  rcases d.round_not_ovf hF hq rm neg ho _ rfl with ⟨_, hr⟩ | ⟨e'', m'', hr, _, _, _, _, _, hv, hee, _⟩
  · rw [hr] at h; exact absurd h (by simp)
  · rw [hr] at h; injection h with h1 h2 h3; subst h1 h2 h3
    have herr := d.err (Spec.up rm neg m0 f) _ rfl
    rw [← hv] at herr
    have hu := F.ulp_pos e0
    have hmono := F.ulp_mono hee
    have hf0 := d.hf0
    have hf1 := d.hf1
    rw [← Sem.ulp_def, herr, abs_lt]
    cases hup : Spec.up rm neg m0 f
    · simp only [Bool.false_eq_true, if_false]
      constructor <;> nlinarith
    · simp only [if_true]
      have hfpos : 0 < f := lt_of_le_of_ne hf0 (Ne.symm (up_true_ne_zero hup))
      constructor <;> nlinarith

/-- at most half an ulp in the two nearest modes -/
theorem within_half_ulp (hF : F.WF) (hq : 0 < q) {rm : RM} (hrm : rm = .nte ∨ rm = .nta)
    (neg : Bool) {s : Bool} {e : Int} {m : Nat} (h : Spec.round F rm neg q = .fin s e m) :
    |(m:ℚ) * (2:ℚ) ^ (e - ((F.p:Int) - 1)) - q| ≤ (2:ℚ) ^ (e - ((F.p:Int) - 1)) / 2 := by
  have hp : 1 ≤ F.p := by have := hF.2; omega
  obtain ⟨e0, m0, f, d⟩ := exists_decomp (F := F) hp hq
  have ho : ¬ Ovf F e0 m0 (Spec.up rm neg m0 f) := by
    intro ho
    have := d.round_ovf hF hq rm neg ho
    rw [overflow_table, if_pos (by tauto)] at this
    rw [this] at h; exact absurd h (by simp)
  rcases d.round_not_ovf hF hq rm neg ho _ rfl with ⟨_, hr⟩ | ⟨e'', m'', hr, _, _, _, _, _, hv, hee, _⟩
  · rw [hr] at h; exact absurd h (by simp)
  · rw [hr] at h; injection h with h1 h2 h3; subst h1 h2 h3
    have herr := d.err (Spec.up rm neg m0 f) _ rfl
    rw [← hv] at herr
    have hu := F.ulp_pos e0
    have hmono := F.ulp_mono hee
    have hf0 := d.hf0
    have hf1 := d.hf1
    rw [← Sem.ulp_def, herr, abs_le]
    cases hup : Spec.up rm neg m0 f
    · simp only [Bool.false_eq_true, if_false]
      have := up_nearest_false hrm hup
      constructor <;> nlinarith
    · simp only [if_true]
      have := up_nearest_true hrm hup
      constructor <;> nlinarith

/-! ## 6. nearest modes -/

/-- a finite result of a nearest mode is a representable magnitude nearest to `q` -/
theorem round_nearest_spec (hF : F.WF) (hq : 0 < q) {rm : RM} (hrm : rm = .nte ∨ rm = .nta)
    (neg : Bool) (hfin : (Spec.round F rm neg q).IsFinite) :
    ∀ y, IsRep F y → |(Spec.round F rm neg q).mag F - q| ≤ |y - q| := by
  have hp : 1 ≤ F.p := by have := hF.2; omega
  obtain ⟨e, m, f, d⟩ := exists_decomp (F := F) hp hq
  have ho : ¬ Ovf F e m (Spec.up rm neg m f) := by
    intro ho
    have := d.round_ovf hF hq rm neg ho
    rw [overflow_table, if_pos (by tauto)] at this
    rw [this] at hfin; exact hfin
  obtain ⟨_, hmag, _⟩ := d.round_not_ovf_mag hF hq rm neg ho _ rfl
  have herr := d.err (Spec.up rm neg m f) _ rfl
  rw [← hmag] at herr
  have hu := F.ulp_pos e
  have hf0 := d.hf0
  have hf1 := d.hf1
  have hqe := d.hq
  intro y hy
  rw [herr]
  cases hup : Spec.up rm neg m f
  · simp only [Bool.false_eq_true, if_false]
    have hhalf := up_nearest_false hrm hup
    rw [abs_of_nonpos (by nlinarith)]
    rcases hy.gap hp d.hn with h' | h'
    · calc -(-f * F.ulp e) ≤ -(y - q) := by nlinarith
        _ ≤ |y - q| := neg_le_abs _
    · calc -(-f * F.ulp e) ≤ y - q := by nlinarith
        _ ≤ |y - q| := le_abs_self _
  · simp only [if_true]
    have hhalf := up_nearest_true hrm hup
    rw [abs_of_nonneg (by nlinarith)]
    rcases hy.gap hp d.hn with h' | h'
    · calc (1 - f) * F.ulp e ≤ -(y - q) := by nlinarith
        _ ≤ |y - q| := neg_le_abs _
    · calc (1 - f) * F.ulp e ≤ y - q := by nlinarith
        _ ≤ |y - q| := le_abs_self _

/-- anatomy of a tie: if another representable `y` is as near to `q` as the result, then `q`
    is the midpoint `(m + 1/2)·ulp e` and `y` is the neighbour that was not chosen -/
theorem tie_core (hF : F.WF) (hq : 0 < q) {rm : RM} (hrm : rm = .nte ∨ rm = .nta)
    (neg : Bool) {e : Int} {m : Nat} {f : ℚ} (d : Decomp F q e m f)
    (ho : ¬ Ovf F e m (Spec.up rm neg m f)) {y : ℚ} (hy : IsRep F y)
    (hne : y ≠ (Spec.round F rm neg q).mag F)
    (htie : |y - q| = |(Spec.round F rm neg q).mag F - q|) :
    f = 1/2 ∧
    ((Spec.up rm neg m f = false ∧ (Spec.round F rm neg q).mag F = (m:ℚ) * F.ulp e ∧
        y = ((m:ℚ) + 1) * F.ulp e) ∨
     (Spec.up rm neg m f = true ∧ (Spec.round F rm neg q).mag F = ((m:ℚ) + 1) * F.ulp e ∧
        y = (m:ℚ) * F.ulp e)) := by
  have hp : 1 ≤ F.p := by have := hF.2; omega
  obtain ⟨_, hmag, _⟩ := d.round_not_ovf_mag hF hq rm neg ho _ rfl
  have herr := d.err (Spec.up rm neg m f) _ rfl
  rw [← hmag] at herr
  have hu := F.ulp_pos e
  have hf0 := d.hf0
  have hf1 := d.hf1
  have hqe := d.hq
  rw [herr] at htie
  have hfu : 0 ≤ f * F.ulp e := mul_nonneg hf0 (le_of_lt hu)
  have hfu1 : 0 < (1 - f) * F.ulp e := mul_pos (by linarith) hu
  have hqe' : q = (m:ℚ) * F.ulp e + f * F.ulp e := by rw [hqe]; ring
  have hm1 : ((m:ℚ) + 1) * F.ulp e = (m:ℚ) * F.ulp e + F.ulp e := by ring
  have h1f : (1 - f) * F.ulp e = F.ulp e - f * F.ulp e := by ring
  cases hup : Spec.up rm neg m f
  · rw [hup] at herr htie
    simp only [Bool.false_eq_true, if_false] at herr htie
    have hhalf := up_nearest_false hrm hup
    have hv : (Spec.round F rm neg q).mag F = (m:ℚ) * F.ulp e := by linarith
    have habs : |-f * F.ulp e| = f * F.ulp e := by
      rw [neg_mul, abs_neg]; exact abs_of_nonneg hfu
    rw [habs] at htie
    rcases hy.gap hp d.hn with h' | h'
    · rw [abs_of_nonpos (a := y - q) (by linarith)] at htie
      exact absurd (by linarith) hne
    · rw [abs_of_nonneg (a := y - q) (by linarith)] at htie
      have hfe : f = 1/2 := by
        have : (1 - f) * F.ulp e ≤ f * F.ulp e := by linarith
        have : 1 - f ≤ f := le_of_mul_le_mul_right this hu
        linarith
      refine ⟨hfe, Or.inl ⟨rfl, hv, ?_⟩⟩
      rw [hfe] at htie hqe'; linarith
  · rw [hup] at herr htie
    simp only [if_true] at herr htie
    have hhalf := up_nearest_true hrm hup
    have hv : (Spec.round F rm neg q).mag F = ((m:ℚ) + 1) * F.ulp e := by linarith
    rw [abs_of_nonneg (a := (1 - f) * F.ulp e) (le_of_lt hfu1)] at htie
    rcases hy.gap hp d.hn with h' | h'
    · rw [abs_of_nonpos (a := y - q) (by linarith)] at htie
      have hfe : f = 1/2 := by
        have : f * F.ulp e ≤ (1 - f) * F.ulp e := by linarith
        have : f ≤ 1 - f := le_of_mul_le_mul_right this hu
        linarith
      refine ⟨hfe, Or.inr ⟨rfl, hv, ?_⟩⟩
      rw [hfe] at htie hqe'; linarith
    · rw [abs_of_nonneg (a := y - q) (by linarith)] at htie
      exact absurd (by linarith) hne

/-- in a nearest mode a finite result excludes the overflow branch -/
theorem nearest_not_ovf (hF : F.WF) (hq : 0 < q) {rm : RM} (hrm : rm = .nte ∨ rm = .nta)
    (neg : Bool) (hfin : (Spec.round F rm neg q).IsFinite) {e : Int} {m : Nat} {f : ℚ}
    (d : Decomp F q e m f) : ¬ Ovf F e m (Spec.up rm neg m f) := by
  intro ho
  have := d.round_ovf hF hq rm neg ho
  rw [overflow_table, if_pos (by tauto)] at this
  rw [this] at hfin; exact hfin

/-- ties-away: when another representable is equally near, the result is the larger one -/
theorem round_nta_tie (hF : F.WF) (hq : 0 < q) (neg : Bool)
    (hfin : (Spec.round F .nta neg q).IsFinite) {y : ℚ} (hy : IsRep F y)
    (hne : y ≠ (Spec.round F .nta neg q).mag F)
    (htie : |y - q| = |(Spec.round F .nta neg q).mag F - q|) :
    y < (Spec.round F .nta neg q).mag F := by
  obtain ⟨e, m, f, d⟩ := exists_decomp (F := F) (by have := hF.2; omega) hq
  have ho := nearest_not_ovf hF hq (Or.inr rfl) neg hfin d
  obtain ⟨hf, ⟨hup, _, _⟩ | ⟨_, hv, hyv⟩⟩ := tie_core hF hq (Or.inr rfl) neg d ho hy hne htie
  · have : Spec.up .nta neg m f = true := (up_nta neg m).mpr (le_of_eq hf.symm)
    rw [hup] at this; exact absurd this (by decide)
  · rw [hv, hyv]; have := F.ulp_pos e; nlinarith

/-- ties-even: when another representable is equally near, the result has an even
    significand (zero counts as even) … -/
theorem round_nte_tie (hF : F.WF) (hq : 0 < q) (neg : Bool)
    (hfin : (Spec.round F .nte neg q).IsFinite) {y : ℚ} (hy : IsRep F y)
    (hne : y ≠ (Spec.round F .nte neg q).mag F)
    (htie : |y - q| = |(Spec.round F .nte neg q).mag F - q|) :
    (Spec.round F .nte neg q).mant % 2 = 0 := by
  obtain ⟨e, m, f, d⟩ := exists_decomp (F := F) (by have := hF.2; omega) hq
  have ho := nearest_not_ovf hF hq (Or.inl rfl) neg hfin d
  obtain ⟨_, _, hpar⟩ := d.round_not_ovf_mag hF hq .nte neg ho _ rfl
  rw [hpar]
  obtain ⟨hf, ⟨hup, _, _⟩ | ⟨hup, _, _⟩⟩ := tie_core hF hq (Or.inl rfl) neg d ho hy hne htie
  · rw [hup]; simp only [Bool.false_eq_true, if_false]
    have : ¬ (1/2 < f ∨ (f = 1/2 ∧ m % 2 = 1)) := by
      rw [← up_nte neg m, hup]; decide
    have : ¬ (m % 2 = 1) := fun h => this (Or.inr ⟨hf, h⟩)
    omega
  · rw [hup]; simp only [if_true]
    rcases (up_nte neg m).mp hup with h | ⟨_, h⟩
    · rw [hf] at h; exact absurd h (lt_irrefl _)
    · omega

/-- … and the competitor's (canonical) significand is odd -/
theorem round_nte_tie_other (hF : F.WF) (hq : 0 < q) (neg : Bool)
    (hfin : (Spec.round F .nte neg q).IsFinite) {ey : Int} {my : Nat}
    (hey : F.emin ≤ ey) (hey' : ey ≤ F.emax) (hmy : my < 2 ^ F.p)
    (hny : 2 ^ (F.p - 1) ≤ my ∨ ey = F.emin)
    (hne : (my:ℚ) * (2:ℚ) ^ (ey - ((F.p:Int) - 1)) ≠ (Spec.round F .nte neg q).mag F)
    (htie : |(my:ℚ) * (2:ℚ) ^ (ey - ((F.p:Int) - 1)) - q| = |(Spec.round F .nte neg q).mag F - q|) :
    my % 2 = 1 := by
  have hp : 1 ≤ F.p := by have := hF.2; omega
  have h2p := two_pow_pred_sr hp
  obtain ⟨e, m, f, d⟩ := exists_decomp (F := F) hp hq
  have ho := nearest_not_ovf hF hq (Or.inl rfl) neg hfin d
  have hy : IsRep F ((my:ℚ) * (2:ℚ) ^ (ey - ((F.p:Int) - 1))) := ⟨ey, my, hey, hey', hmy, hny, rfl⟩
  have dy : Decomp F ((my:ℚ) * (2:ℚ) ^ (ey - ((F.p:Int) - 1))) ey my 0 :=
    ⟨hey, le_refl _, by norm_num, by rw [add_zero]; rfl, hmy, hny⟩
  have hu := F.ulp_pos e
  have hm := d.hm
  obtain ⟨hf, ⟨hup, _, hyv⟩ | ⟨hup, _, hyv⟩⟩ := tie_core hF hq (Or.inl rfl) neg d ho hy hne htie
  · -- result `m` even, competitor `(m+1)·ulp e`
    have hev : m % 2 = 0 := by
      have : ¬ (1/2 < f ∨ (f = 1/2 ∧ m % 2 = 1)) := by
        rw [← up_nte neg m, hup]; decide
      have : ¬ (m % 2 = 1) := fun h => this (Or.inr ⟨hf, h⟩)
      omega
    have d' : Decomp F ((my:ℚ) * (2:ℚ) ^ (ey - ((F.p:Int) - 1))) e (m + 1) 0 := by
      refine ⟨d.he, le_refl _, by norm_num, by rw [hyv]; push_cast; ring, by omega, ?_⟩
      rcases d.hn with h | h
      · left; omega
      · right; exact h
    have hpos : 0 < (my:ℚ) * (2:ℚ) ^ (ey - ((F.p:Int) - 1)) := by
      rw [hyv]; positivity
    obtain ⟨_, hmm, _⟩ := dy.unique d' hp hpos
    omega
  · -- result `m+1` even, competitor `m·ulp e`
    have hodd : m % 2 = 1 := by
      rcases (up_nte neg m).mp hup with h | ⟨_, h⟩
      · rw [hf] at h; exact absurd h (lt_irrefl _)
      · exact h
    have d' : Decomp F ((my:ℚ) * (2:ℚ) ^ (ey - ((F.p:Int) - 1))) e m 0 :=
      ⟨d.he, le_refl _, by norm_num, by rw [hyv]; ring, d.hm, d.hn⟩
    have hpos : 0 < (my:ℚ) * (2:ℚ) ^ (ey - ((F.p:Int) - 1)) := by
      rw [hyv]
      have : 0 < m := by omega
      have : (0:ℚ) < m := by exact_mod_cast this
      positivity
    obtain ⟨_, hmm, _⟩ := dy.unique d' hp hpos
    omega

/-! ## 9. sign symmetry -/

/-- negating the operand mirrors the result; the two directed modes exchange roles -/
theorem round_swap (rm : RM) (neg : Bool) :
    Spec.round F rm.swap (!neg) q = (Spec.round F rm neg q).flip := by
  unfold Spec.round
  simp only [up_swap, finish_swap]

theorem round_sign_symm {rm : RM} (hrm : rm = .nte ∨ rm = .nta ∨ rm = .zero ∨ rm = .none) :
    Spec.round F rm true q = (Spec.round F rm false q).flip := by
  have : rm.swap = rm := by rcases hrm with h | h | h | h <;> subst h <;> rfl
  have h := round_swap (F := F) (q := q) rm false
  rw [this] at h; exact h

theorem round_sign_symm_pos : Spec.round F .pos true q = (Spec.round F .neg false q).flip :=
  round_swap (F := F) (q := q) .neg false

theorem round_sign_symm_neg : Spec.round F .neg true q = (Spec.round F .pos false q).flip :=
  round_swap (F := F) (q := q) .pos false

/-! ## 8. monotonicity -/

/-- if `|a - x| ≤ |b - x|` and `b < a` then `x` is at or beyond the midpoint -/
theorem midpoint_le {a b x : ℚ} (hba : b < a) (h : |a - x| ≤ |b - x|) : a + b ≤ 2 * x := by
  rcases abs_cases (a - x) with ⟨h1, _⟩ | ⟨h1, _⟩ <;> rcases abs_cases (b - x) with ⟨h2, _⟩ | ⟨h2, _⟩ <;>
    rw [h1, h2] at h <;> linarith

theorem le_midpoint {a b x : ℚ} (hba : b < a) (h : |b - x| ≤ |a - x|) : 2 * x ≤ a + b := by
  rcases abs_cases (a - x) with ⟨h1, _⟩ | ⟨h1, _⟩ <;> rcases abs_cases (b - x) with ⟨h2, _⟩ | ⟨h2, _⟩ <;>
    rw [h1, h2] at h <;> linarith

/-- `Spec.round` is monotone in the magnitude (order key: magnitude, `⊤` for infinity) -/
theorem round_mono (hF : F.WF) {q1 q2 : ℚ} (hq1 : 0 < q1) (hle : q1 ≤ q2) (rm : RM) (neg : Bool) :
    (Spec.round F rm neg q1).key F ≤ (Spec.round F rm neg q2).key F := by
  have hq2 : 0 < q2 := lt_of_lt_of_le hq1 hle
  by_cases hfin2 : (Spec.round F rm neg q2).IsFinite
  swap
  · rcases round_cases hF hq2 rm neg with h2 | h2 | ⟨e2, m2, h2⟩
    · rw [h2] at hfin2; exact absurd trivial hfin2
    · rw [h2]; exact le_top
    · rw [h2] at hfin2; exact absurd trivial hfin2
  have hfin1 : (Spec.round F rm neg q1).IsFinite := by
    rcases round_cases hF hq1 rm neg with h1 | h1 | ⟨e1, m1, h1⟩
    · rw [h1]; trivial
    · exfalso
      obtain ⟨_, h⟩ := (round_eq_inf_iff hF hq1 rm neg neg).mp h1
      have : Spec.round F rm neg q2 = .inf neg := by
        rw [round_eq_inf_iff hF hq2]
        refine ⟨rfl, ?_⟩
        rcases h with ⟨h, h'⟩ | ⟨h, h'⟩ | ⟨h, h'⟩
        · exact Or.inl ⟨h, le_trans h' hle⟩
        · exact Or.inr (Or.inl ⟨h, lt_of_lt_of_le h' hle⟩)
        · exact Or.inr (Or.inr ⟨h, le_trans h' hle⟩)
      rw [this] at hfin2; exact hfin2
    · rw [h1]; trivial
  rw [hfin1.key_eq, hfin2.key_eq, WithTop.coe_le_coe]
  rcases mode_cases rm neg with ht | ha | hn | hn
  · -- truncating
    by_cases hlt : q2 < (2:ℚ) ^ (F.emax + 1)
    · obtain ⟨_, hv1, hr1, _⟩ := round_trunc_spec hF hq1 ht (lt_of_le_of_lt hle hlt)
      obtain ⟨_, _, _, hmax⟩ := round_trunc_spec hF hq2 ht hlt
      exact hmax _ hr1 (le_trans hv1 hle)
    · have h2 := round_overflow_of_trunc hF hq2 ht (not_lt.mp hlt)
      rw [overflow_table] at h2
      split at h2
      · rw [h2] at hfin2; exact absurd hfin2 id
      · rw [h2, overflow_fin_mag]; exact (round_isRep hF hq1 rm neg).le_maxFinite
  · -- away from zero
    have hle2 : q2 ≤ maxFinite F := by
      by_contra hc
      rw [round_away_overflow hF hq2 ha (not_le.mp hc)] at hfin2; exact hfin2
    obtain ⟨_, _, _, hmin⟩ := round_away_spec hF hq1 ha (le_trans hle hle2)
    obtain ⟨_, hv2, hr2, _⟩ := round_away_spec hF hq2 ha hle2
    exact hmin _ hr2 (le_trans hle hv2)
  all_goals
    -- nearest
    have hrm : rm = .nte ∨ rm = .nta := by tauto
    by_contra hc
    have hc := not_le.mp hc
    have n1 := round_nearest_spec hF hq1 hrm neg hfin1 _ (round_isRep hF hq2 rm neg)
    have n2 := round_nearest_spec hF hq2 hrm neg hfin2 _ (round_isRep hF hq1 rm neg)
    have m1 := midpoint_le hc n1
    have m2 := le_midpoint hc n2
    have : q1 = q2 := by linarith
    rw [this] at hc
    exact lt_irrefl _ hc

/-! ## Examples: the hypotheses are satisfiable (binary16, `emin = -14`, `emax = 15`, `p = 11`)

`Spec.round` does not reduce by `decide` (it divides rationals); concrete values are
obtained from an explicit decomposition through `Decomp.round_eq`. -/
section Examples

def F16 : Sem := ⟨5, 11, .nte⟩

theorem F16_wf : F16.WF := ⟨by decide, by decide⟩
example : F16.emin = -14 ∧ F16.emax = 15 := by decide
example : maxFinite F16 = 65504 := by norm_num [maxFinite, F16, Sem.emax, Sem.bias]
example : nearThreshold F16 = 65520 := by
  norm_num [nearThreshold, maxFinite, F16, Sem.emax, Sem.bias]
theorem third_lt : (1/3 : ℚ) < (2:ℚ) ^ (F16.emax + 1) := by norm_num [F16, Sem.emax, Sem.bias]
theorem third_le : (1/3 : ℚ) ≤ maxFinite F16 := by norm_num [maxFinite, F16, Sem.emax, Sem.bias]

/-- evaluation of the specification from a decomposition -/
theorem eval_round {F : Sem} {q : ℚ} {e : Int} {m : Nat} {f : ℚ} (d : Decomp F q e m f)
    (hp : 1 ≤ F.p) (hq : 0 < q) (rm : RM) (neg : Bool) (b : Bool)
    (hup : Spec.up rm neg m f = b) (r : Res) (hfin : Spec.finish F rm neg e m b = r) :
    Spec.round F rm neg q = r := by
  rw [d.round_eq hp hq, hup, hfin]

/-- `1/3 = (1365 + 1/3)·2^(-12)` -/
theorem dec_third : Decomp F16 (1/3) (-2) 1365 (1/3) := by
  refine ⟨by decide, by norm_num, by norm_num, ?_, by decide, Or.inl (by decide)⟩
  norm_num [Sem.ulp, F16]

theorem rep_quarter : IsRep F16 (1/4) :=
  ⟨-2, 1024, by decide, by decide, by decide, Or.inl (by decide), by norm_num [F16]⟩

/-- the value computed by the specification for `1/3`, nearest-even: `1365·2^(-12)` -/
theorem round_third_nte : Spec.round F16 .nte false (1/3) = .fin false (-2) 1365 :=
  eval_round dec_third (by decide) (by norm_num) .nte false false
    (by rw [Bool.eq_false_iff, Ne, up_nte]; norm_num) _ (by decide)

/-- toward `+∞`: `1366·2^(-12)` -/
theorem round_third_pos : Spec.round F16 .pos false (1/3) = .fin false (-2) 1366 :=
  eval_round dec_third (by decide) (by norm_num) .pos false true
    (by rw [up_away (Or.inl ⟨rfl, rfl⟩)]; norm_num) _ (by decide)

-- items 1-6, 10 instantiated
example := round_cases F16_wf (q := 1/3) (by norm_num) .nte false
example := round_mem F16_wf (q := 1/3) (by norm_num) .nte false round_third_nte
example := round_exact F16_wf (q := 1/4) (by norm_num) rep_quarter .nta true
example := round_trunc_spec F16_wf (q := 1/3) (by norm_num) (rm := .zero) (neg := false)
  (Or.inl rfl) third_lt
example := round_trunc_spec F16_wf (q := 1/3) (by norm_num) (rm := .pos) (neg := true)
  (Or.inr (Or.inr (Or.inl ⟨rfl, rfl⟩))) third_lt
example := round_away_spec F16_wf (q := 1/3) (by norm_num) (rm := .pos) (neg := false)
  (Or.inl ⟨rfl, rfl⟩) third_le
example := round_nearest_spec F16_wf (q := 1/3) (by norm_num) (Or.inl rfl) false
  (by rw [round_third_nte]; trivial)
example := within_ulp_partial F16_wf (q := 1/3) (by norm_num) .pos false
  (fun h => absurd h (by simp [RM.truncFor])) round_third_pos
example := within_half_ulp F16_wf (q := 1/3) (by norm_num) (Or.inl rfl) false round_third_nte

/-- a tie: `2049/2048 = (1024 + 1/2)·2^(-10)` lies midway between `1` and `1025/1024` -/
theorem dec_tie : Decomp F16 (2049/2048) 0 1024 (1/2) := by
  refine ⟨by decide, by norm_num, by norm_num, ?_, by decide, Or.inl (by decide)⟩
  norm_num [Sem.ulp, F16]

theorem round_tie_nte : Spec.round F16 .nte false (2049/2048) = .fin false 0 1024 :=
  eval_round dec_tie (by decide) (by norm_num) .nte false false
    (by rw [Bool.eq_false_iff, Ne, up_nte]; norm_num) _ (by decide)

theorem round_tie_nta : Spec.round F16 .nta false (2049/2048) = .fin false 0 1025 :=
  eval_round dec_tie (by decide) (by norm_num) .nta false true
    (by rw [up_nta]) _ (by decide)

theorem rep_1025 : IsRep F16 (1025/1024) :=
  ⟨0, 1025, by decide, by decide, by decide, Or.inl (by decide), by norm_num [F16]⟩

theorem rep_one : IsRep F16 1 :=
  ⟨0, 1024, by decide, by decide, by decide, Or.inl (by decide), by norm_num [F16]⟩

/-- hypotheses of `round_nte_tie` hold for `y = 1025/1024`: the even significand 1024 wins -/
example : (Spec.round F16 .nte false (2049/2048)).mant % 2 = 0 :=
  round_nte_tie F16_wf (by norm_num) false (by rw [round_tie_nte]; trivial) rep_1025
    (by rw [round_tie_nte]; norm_num [Res.mag, F16])
    (by rw [round_tie_nte]; norm_num [Res.mag, F16, abs_of_nonneg, abs_of_nonpos])

/-- hypotheses of `round_nta_tie` hold for `y = 1`: the larger magnitude wins -/
example : (1:ℚ) < (Spec.round F16 .nta false (2049/2048)).mag F16 :=
  round_nta_tie F16_wf (by norm_num) false (by rw [round_tie_nta]; trivial) rep_one
    (by rw [round_tie_nta]; norm_num [Res.mag, F16])
    (by rw [round_tie_nta]; norm_num [Res.mag, F16, abs_of_nonneg, abs_of_nonpos])

/-- the nearest-mode overflow threshold `65520` itself overflows (tie → even `2^p` → ∞) -/
example : Spec.round F16 .nte false 65520 = .inf false := by
  have h := (round_overflow_iff_nte F16_wf (q := 65520) (by norm_num) false).mpr
    (by norm_num [maxFinite, F16, Sem.emax, Sem.bias])
  rw [h]; rfl

/-- monotonicity instance -/
example := round_mono F16_wf (q1 := 1/3) (q2 := 1/2) (by norm_num) (by norm_num) .nte true

/-! ### Counter-examples to the statements that are false as given -/

theorem dec_max : Decomp F16 65504 15 2047 0 := by
  refine ⟨by decide, by norm_num, by norm_num, ?_, by decide, Or.inl (by decide)⟩
  norm_num [Sem.ulp, F16]

/-- `round_overflow_iff` for `truncFor` with threshold `2^(emax+1)` fails: toward zero,
    `q = maxFinite = 65504` already returns the table entry although `q < 2^16` -/
example : Spec.round F16 .zero false 65504 = Spec.overflow F16 .zero false ∧
    ¬ ((2:ℚ) ^ (F16.emax + 1) ≤ 65504) := by
  constructor
  · rw [eval_round dec_max (by decide) (by norm_num) .zero false false (up_zero _ _ _) _ rfl]
    decide
  · norm_num [F16, Sem.emax, Sem.bias]

theorem dec_big : Decomp F16 1048576 20 1024 0 := by
  refine ⟨by decide, by norm_num, by norm_num, ?_, by decide, Or.inl (by decide)⟩
  norm_num [Sem.ulp, F16]

/-- `within_ulp` without the saturation hypothesis fails: toward zero, `q = 2^20` returns
    `65504 = 2047·2^5`, error `983072 ≥ 2^5` -/
example : Spec.round F16 .zero false 1048576 = .fin false 15 2047 ∧
    ¬ (|(2047:ℚ) * (2:ℚ) ^ ((15:Int) - ((F16.p:Int) - 1)) - 1048576| <
        (2:ℚ) ^ ((15:Int) - ((F16.p:Int) - 1))) := by
  constructor
  · exact eval_round dec_big (by decide) (by norm_num) .zero false false (up_zero _ _ _) _ (by decide)
  · norm_num [F16, abs_of_nonpos]

end Examples

/-
-- NOT PROVED (false as stated; counter-examples are kernel-checked in the `Examples` section)

* `round_overflow_iff`, `truncFor` clause "result = `Spec.overflow F rm neg` ↔ `2^(emax+1) ≤ q`":
  false for the saturating modes (`zero`; `pos` on negatives; `neg` on positives), whose table
  entry is the largest finite number, which is also the correct in-range result for
  `maxFinite ≤ q < 2^(emax+1)`.  Counter-example `F = ⟨5,11,_⟩`, `rm = zero`, `q = 65504`.
  Proved instead: `round_overflow_iff_none` (the clause as stated, for `rm = none`),
  `round_overflow_of_trunc` (the direction `←` for all of `truncFor`),
  `round_overflow_iff_trunc_partial` (`↔ maxFinite ≤ q` for the saturating modes),
  `round_overflow_iff_partial` (all classes), and — for the intended reading "the overflow
  *branch* is taken iff …" — `Arp.Decomp.ovf_iff`.
  The clauses for `awayFor`, `nta`, `nte` are proved as stated.

* `within_ulp` ("`|v - q| < ulp` always"): false when a saturating mode returns the largest
  finite number for `q ≥ 2^(emax+1)`.  Counter-example `F = ⟨5,11,_⟩`, `rm = zero`, `q = 2^20`:
  result `65504`, error `983072`.  Proved instead: `within_ulp_partial` with the hypothesis
  `rm.truncFor neg → q < 2^(emax+1)`; `within_half_ulp` (nearest modes) holds as stated.
-/

end Arp.SpecRound
