import Arp.Lemmas.TrigErr
import Arp.Props.C17
import Mathlib.Data.Int.Log
/-!
# C17 — accuracy of `sin` for `|x| < 1` (the branch without `π`)

For a format `F` with `8 ≤ p ≤ 2^(e-1) − 2` and a nearest rounding mode, and a canonical normal
operand with a negative exponent field (`|x| < 1`):

* `sin_small_accuracy_binade` : `sinFuel` terminates (for every fuel), the result is a zero or a
  normal number of `F` with the sign of `x`, `|result| ≤ 1`, and for the binade
  `2^E ≤ |sin x| < 2^(E+1)` of the EXACT value the error is at most `17/32` of one ulp of that
  binade (`2^(max E emin − (p−1))`: relative accuracy down to the subnormal results);
* `sin_small_accuracy` : the same with the ulp function `ulpR F y = 2^(max ⌊log₂ y⌋ emin − (p−1))`,
  in the form of the property text (`≤ ulpR (max |sin x| |result|)`).

The intermediate stages are in `Arp/Lemmas/TrigSin.lean` (`sinTaylor_acc`, `sin_level`,
`sinStep4_acc`) and `Arp/Lemmas/TrigErr.lean` (`cast_near`, `sin_budget`, `sin_small_core`).
-/
namespace Arp.C17
open Arp Arp.TrigErr Arp.RelErr Arp.SpecRound

/-- one ulp of the format `F` in the binade of the real `y > 0`, clamped at the subnormal spacing -/
noncomputable def ulpR (F : Sem) (y : ℝ) : ℝ :=
  (2:ℝ) ^ (max (Int.log 2 y) F.emin - ((F.p:ℤ) - 1))

theorem ulpR_pos (F : Sem) (y : ℝ) : 0 < ulpR F y := by unfold ulpR; positivity

theorem ulpR_mono (F : Sem) {y z : ℝ} (hy : 0 < y) (hyz : y ≤ z) : ulpR F y ≤ ulpR F z := by
  unfold ulpR
  apply zpow_le_zpow_right₀ (by norm_num)
  have := Int.log_mono_right (b := 2) hy hyz
  have h1 : max (Int.log 2 y) F.emin ≤ max (Int.log 2 z) F.emin := max_le_max this (le_refl _)
  omega

/-- value of a float and of its sine in terms of sign and magnitude -/
theorem sin_val_eq (x : Flt) (hn : x.cat = .normal) :
    Real.sin ((x.val : ℚ) : ℝ) = (if x.sign then -1 else 1) * Real.sin ((x.mag : ℚ) : ℝ) := by
  rw [Flt.val_normal hn]
  cases x.sign
  · simp
  · simp [Real.sin_neg]

/-- **`sin` for `|x| < 1`, error in ulps of the binade of the exact value.** -/
theorem sin_small_accuracy_binade (x : Flt) (hF : x.sem.WF) (hp : 8 ≤ x.sem.p)
    (hdom : x.sem.p ≤ 2 ^ (x.sem.e - 1) - 2) (hrm : x.sem.rm = .nte ∨ x.sem.rm = .nta)
    (hc : x.Canonical) (hn : x.cat = .normal) (hsmall : x.exp < 0) (fuel : Nat) :
    ∃ r, x.sinFuel fuel = some r ∧ (r.cat = .normal ∨ r.cat = .zero) ∧ r.sign = x.sign ∧
      r.Canonical ∧ r.sem = x.sem ∧ |r.val| ≤ 1 ∧
      ∀ E : ℤ, (2:ℝ) ^ E ≤ |Real.sin ((x.val : ℚ) : ℝ)| →
        |Real.sin ((x.val : ℚ) : ℝ)| < (2:ℝ) ^ (E + 1) →
        |((r.val : ℚ) : ℝ) - Real.sin ((x.val : ℚ) : ℝ)| ≤
          17/32 * (2:ℝ) ^ (max E x.sem.emin - ((x.sem.p:ℤ) - 1)) := by
  obtain ⟨r, q, hfuel, hcat, hsign, hcan, hsem, hval, hq0, hq1, hX0, hX1, herr⟩ :=
    sin_small_core x hF hp hdom hrm hc hn hsmall fuel
  have hp1 : 1 ≤ x.sem.p := by omega
  have hone : IsRep x.sem 1 := by
    have := Ln2.isRep_pow2 hF 0 (by have := Sem.emin_le_zero hF; omega)
      (by have := Sem.emax_pos hF; omega)
    simpa using this
  have hmaxF : (1:ℚ) ≤ maxFinite x.sem := hone.le_maxFinite
  have hrq1 : rq x.sem x.sem.rm q ≤ 1 := rq_le_of_rep hF hone (le_of_lt hq0) hq1 _
  have hrq0 : 0 ≤ rq x.sem x.sem.rm q := rq_nonneg hF (le_of_lt hq0) _
  have habs : |r.val| = rq x.sem x.sem.rm q := by
    rw [hval]
    cases x.sign
    · simp [abs_of_nonneg hrq0]
    · simp [abs_of_nonneg hrq0]
  refine ⟨r, hfuel, hcat, hsign, hcan, hsem, by rw [habs]; exact hrq1, ?_⟩
  intro E hE1 hE2
  -- reduce to magnitudes
  have hXr0 : (0:ℝ) < ((x.mag : ℚ) : ℝ) := by exact_mod_cast hX0
  have hXr1 : ((x.mag : ℚ) : ℝ) ≤ 1 := by exact_mod_cast le_of_lt hX1
  have hS0 : 0 < Real.sin ((x.mag : ℚ) : ℝ) := Real.sin_pos_of_pos_of_le_one hXr0 hXr1
  have hsv := sin_val_eq x hn
  have habsS : |Real.sin ((x.val : ℚ) : ℝ)| = Real.sin ((x.mag : ℚ) : ℝ) := by
    rw [hsv]
    cases x.sign
    · simp [abs_of_pos hS0]
    · simp [abs_of_pos hS0]
  rw [habsS] at hE1 hE2
  have hdiff : |((r.val : ℚ) : ℝ) - Real.sin ((x.val : ℚ) : ℝ)| =
      |((rq x.sem x.sem.rm q : ℚ) : ℝ) - Real.sin ((x.mag : ℚ) : ℝ)| := by
    rw [hsv, hval]
    cases x.sign
    · simp
    · simp only [if_true]
      push_cast
      rw [show (-1 : ℝ) * ((rq x.sem x.sem.rm q : ℚ) : ℝ) - -1 * Real.sin ((x.mag : ℚ) : ℝ)
        = -(((rq x.sem x.sem.rm q : ℚ) : ℝ) - Real.sin ((x.mag : ℚ) : ℝ)) by ring, abs_neg]
  rw [hdiff]
  -- the exponent `E` is in the range of the format
  have hSle := sin_le_unit (le_of_lt hXr0) hXr1
  have hElt : E < 0 := by
    have : (2:ℝ) ^ E < (2:ℝ) ^ (0:ℤ) := by rw [zpow_zero]; linarith
    exact (zpow_lt_zpow_iff_right₀ (by norm_num : (1:ℝ) < 2)).mp this
  have hEmax : E + 1 ≤ x.sem.emax := by have := Sem.emax_pos hF; omega
  have hEmin : x.sem.emin - ((x.sem.p:ℤ) - 1) ≤ E + 1 := by
    have h1 := (C10.mag_bounds x hn hc).1
    have h1r : ((((2:ℚ) ^ (x.sem.emin - ((x.sem.p:ℤ) - 1)) : ℚ)) : ℝ) ≤ ((x.mag : ℚ) : ℝ) := by
      exact_mod_cast h1
    push_cast at h1r
    have h2 := sin_lower (le_of_lt hXr0) hXr1
    have h3 : (2:ℝ) ^ (x.sem.emin - ((x.sem.p:ℤ) - 1) - 1) < (2:ℝ) ^ (E + 1) := by
      have e : (2:ℝ) ^ (x.sem.emin - ((x.sem.p:ℤ) - 1) - 1) =
          (2:ℝ) ^ (x.sem.emin - ((x.sem.p:ℤ) - 1)) / 2 := by
        rw [zpow_sub_one₀ (by norm_num : (2:ℝ) ≠ 0)]; ring
      rw [e]
      have hpos : (0:ℝ) < (2:ℝ) ^ (x.sem.emin - ((x.sem.p:ℤ) - 1)) := by positivity
      linarith
    have := (zpow_lt_zpow_iff_right₀ (by norm_num : (1:ℝ) < 2)).mp h3
    omega
  have hcn := cast_near hF hrm hq0 (le_trans hq1 hmaxF) E hE2 hEmin hEmax herr
  -- `2η ≤ ulp/32`
  have hη : 2 * ((((2:ℚ) ^ (-(x.sem.p:ℤ) - 6) : ℚ) : ℝ) * Real.sin ((x.mag : ℚ) : ℝ)) ≤
      ((x.sem.ulp (max E x.sem.emin) : ℚ) : ℝ) / 32 := by
    have hpow : (0:ℝ) < (2:ℝ) ^ (-(x.sem.p:ℤ) - 6) := by positivity
    have h1 : ((((2:ℚ) ^ (-(x.sem.p:ℤ) - 6) : ℚ)) : ℝ) * Real.sin ((x.mag : ℚ) : ℝ) ≤
        (2:ℝ) ^ (-(x.sem.p:ℤ) - 6) * (2:ℝ) ^ (E + 1) := by
      push_cast
      exact mul_le_mul_of_nonneg_left (le_of_lt hE2) (le_of_lt hpow)
    have h2 : (2:ℝ) ^ (-(x.sem.p:ℤ) - 6) * (2:ℝ) ^ (E + 1) =
        (2:ℝ) ^ (E - ((x.sem.p:ℤ) - 1)) / 64 := by
      rw [← zpow_add₀ (by norm_num : (2:ℝ) ≠ 0),
        show -(x.sem.p:ℤ) - 6 + (E + 1) = (E - ((x.sem.p:ℤ) - 1)) + (-6) by ring,
        zpow_add₀ (by norm_num : (2:ℝ) ≠ 0)]
      norm_num; ring
    have h3 : (2:ℝ) ^ (E - ((x.sem.p:ℤ) - 1)) ≤ ((x.sem.ulp (max E x.sem.emin) : ℚ) : ℝ) := by
      unfold Sem.ulp
      push_cast
      exact zpow_le_zpow_right₀ (by norm_num) (by have := le_max_left E x.sem.emin; omega)
    linarith
  have hulp : ((x.sem.ulp (max E x.sem.emin) : ℚ) : ℝ) =
      (2:ℝ) ^ (max E x.sem.emin - ((x.sem.p:ℤ) - 1)) := by
    unfold Sem.ulp; push_cast; rfl
  rw [← hulp]
  linarith

/-- **`sin` for `|x| < 1`** (C17, the branch without `π`): at most `17/32` ulp of the exact value's
    binade — in particular at most one ulp of the larger of `|sin x|` and `|result|` — with full
    relative accuracy down to subnormal results, `|result| ≤ 1`, sign of the operand. -/
theorem sin_small_accuracy (x : Flt) (hF : x.sem.WF) (hp : 8 ≤ x.sem.p)
    (hdom : x.sem.p ≤ 2 ^ (x.sem.e - 1) - 2) (hrm : x.sem.rm = .nte ∨ x.sem.rm = .nta)
    (hc : x.Canonical) (hn : x.cat = .normal) (hsmall : x.exp < 0) (fuel : Nat) :
    ∃ r, x.sinFuel fuel = some r ∧ (r.cat = .normal ∨ r.cat = .zero) ∧ r.sign = x.sign ∧
      r.Canonical ∧ r.sem = x.sem ∧ |r.val| ≤ 1 ∧
      |((r.val : ℚ) : ℝ) - Real.sin ((x.val : ℚ) : ℝ)| ≤
        17/32 * ulpR x.sem |Real.sin ((x.val : ℚ) : ℝ)| ∧
      |((r.val : ℚ) : ℝ) - Real.sin ((x.val : ℚ) : ℝ)| ≤
        ulpR x.sem (max |Real.sin ((x.val : ℚ) : ℝ)| |((r.val : ℚ) : ℝ)|) := by
  obtain ⟨r, h1, h2, h3, h4, h5, h6, h7⟩ :=
    sin_small_accuracy_binade x hF hp hdom hrm hc hn hsmall fuel
  -- `sin x ≠ 0`
  have hX0 : 0 < x.mag := Flt.mag_pos x hn hc
  have hX1 : x.mag < 1 := mag_lt_one hn hc hsmall
  have hXr0 : (0:ℝ) < ((x.mag : ℚ) : ℝ) := by exact_mod_cast hX0
  have hXr1 : ((x.mag : ℚ) : ℝ) ≤ 1 := by exact_mod_cast le_of_lt hX1
  have hS0 : 0 < Real.sin ((x.mag : ℚ) : ℝ) := Real.sin_pos_of_pos_of_le_one hXr0 hXr1
  have hpos : 0 < |Real.sin ((x.val : ℚ) : ℝ)| := by
    rw [sin_val_eq x hn]
    cases x.sign
    · simp [abs_of_pos hS0, hS0]
    · simp [abs_of_pos hS0, hS0]
  have hb := h7 (Int.log 2 |Real.sin ((x.val : ℚ) : ℝ)|)
    (by have := Int.zpow_log_le_self (b := 2) (by norm_num) hpos; simpa using this)
    (by have := Int.lt_zpow_succ_log_self (b := 2) (by norm_num) |Real.sin ((x.val : ℚ) : ℝ)|
        simpa using this)
  refine ⟨r, h1, h2, h3, h4, h5, h6, hb, ?_⟩
  have hm := ulpR_mono x.sem hpos (le_max_left _ |((r.val : ℚ) : ℝ)|)
  have hu := ulpR_pos x.sem |Real.sin ((x.val : ℚ) : ℝ)|
  calc |((r.val : ℚ) : ℝ) - Real.sin ((x.val : ℚ) : ℝ)|
      ≤ 17/32 * ulpR x.sem |Real.sin ((x.val : ℚ) : ℝ)| := hb
    _ ≤ ulpR x.sem |Real.sin ((x.val : ℚ) : ℝ)| := by linarith
    _ ≤ _ := hm

/-! ## `cos` -/

theorem cos_val_eq (x : Flt) (hn : x.cat = .normal) :
    Real.cos ((x.val : ℚ) : ℝ) = Real.cos ((x.mag : ℚ) : ℝ) := by
  rw [Flt.val_normal hn]
  cases x.sign
  · simp
  · simp [Real.cos_neg]

/-- **`cos` for `|x| < 1`, every precision** (`8 ≤ p ≤ 2^(e-1) − 2`, nearest modes): `cosFuel`
    terminates for every fuel, the result is a positive normal number, and its distance to
    `cos x ∈ [1/2, 1)` is at most half an ulp of `[1/2, 1)` plus twice the computable bound
    `cosErrW F = (4 + 1/256)^k·(Js + 6)·2^(1-p_W)` of the working-format error
    (`k` double-angle steps, `Js` Taylor iterations, `p_W = p + 14 + bitlen p`). -/
theorem cos_small_error (x : Flt) (hF : x.sem.WF) (hp : 8 ≤ x.sem.p)
    (hdom : x.sem.p ≤ 2 ^ (x.sem.e - 1) - 2) (hrm : x.sem.rm = .nte ∨ x.sem.rm = .nta)
    (hc : x.Canonical) (hn : x.cat = .normal) (hsmall : x.exp < 0) (fuel : Nat) :
    ∃ r, x.cosFuel fuel = some r ∧ r.cat = .normal ∧ r.sign = false ∧ r.Canonical ∧
      r.sem = x.sem ∧ 0 < r.val ∧ IsRep x.sem r.val ∧
      1/2 ≤ Real.cos ((x.val : ℚ) : ℝ) ∧ Real.cos ((x.val : ℚ) : ℝ) < 1 ∧
      |((r.val : ℚ) : ℝ) - Real.cos ((x.val : ℚ) : ℝ)| ≤
        (2:ℝ) ^ (-(x.sem.p:ℤ)) / 2 + 2 * ((cosErrW x.sem : ℚ) : ℝ) := by
  obtain ⟨r, q, hfuel, hcat, hsign, hcan, hsem, hval, hq1, hq2, hX0, hX1, herr⟩ :=
    cos_small_core x hF hp hdom hrm hc hn hsmall fuel
  have hp1 : 1 ≤ x.sem.p := by omega
  have hq0 : 0 < q := by linarith
  have hmaxF : (2:ℚ) ≤ maxFinite x.sem := by
    have h1 := pow_emax_le_maxFinite (F := x.sem) hp1
    have h2 : (2:ℚ) ^ (1:ℤ) ≤ (2:ℚ) ^ x.sem.emax :=
      zpow_le_zpow_right₀ (by norm_num) (Sem.emax_pos hF)
    rw [zpow_one] at h2; linarith
  rw [cos_val_eq x hn]
  -- the exact value
  have hXr0 : (0:ℝ) < ((x.mag : ℚ) : ℝ) := by exact_mod_cast hX0
  have hXr1 : ((x.mag : ℚ) : ℝ) ≤ 1 := by exact_mod_cast le_of_lt hX1
  have hcos1 : 1/2 ≤ Real.cos ((x.mag : ℚ) : ℝ) := by
    have h := cos_lower ((x.mag : ℚ) : ℝ)
    have : ((x.mag : ℚ) : ℝ) ^ 2 ≤ 1 := by nlinarith
    linarith
  have hcos2 : Real.cos ((x.mag : ℚ) : ℝ) < 1 := by
    have h := Real.cos_lt_cos_of_nonneg_of_le_pi_div_two (le_refl 0)
      (le_trans hXr1 Real.one_le_pi_div_two) hXr0
    rwa [Real.cos_zero] at h
  -- the final rounding, binade `E = -1`
  have hemin : x.sem.emin ≤ -1 := by
    have := Sem.emin_eq x.sem
    have h2 : 10 ≤ 2 ^ (x.sem.e - 1) := by omega
    have : (10:ℤ) ≤ ((2 ^ (x.sem.e - 1) : ℕ) : ℤ) := by exact_mod_cast h2
    omega
  have hcn := cast_near hF hrm hq0 (le_trans hq2 hmaxF) (-1) (by simpa using hcos2)
    (by omega) (by have := Sem.emax_pos hF; omega) herr
  have hmax : max (-1) x.sem.emin = -1 := max_eq_left hemin
  rw [hmax] at hcn
  have hulp : ((x.sem.ulp (-1) : ℚ) : ℝ) = (2:ℝ) ^ (-(x.sem.p:ℤ)) := by
    unfold Sem.ulp; push_cast; congr 1; ring
  rw [hulp, ← hval] at hcn
  -- `0 < r`: the rounding of `q ≥ 1/4` is at least `1/4`
  have hquarter : IsRep x.sem (1/4) := by
    have := Ln2.isRep_pow2 hF (-2) (by omega) (by have := Sem.emax_pos hF; omega)
    norm_num at this; exact this
  have hrq : (1/4 : ℚ) ≤ rq x.sem x.sem.rm q :=
    rq_ge_of_rep hF hquarter hq1 (le_trans hq2 hmaxF) _
  have hrpos : 0 < r.val := by rw [hval]; linarith
  have hrcat : r.cat = .normal := by
    rcases hcat with h | h
    · exact h
    · rw [Flt.val_zero h] at hrpos; exact absurd hrpos (lt_irrefl _)
  have hrep : IsRep x.sem r.val := by rw [hval]; exact rq_isRep hF (le_of_lt hq0) _
  exact ⟨r, hfuel, hrcat, hsign, hcan, hsem, hrpos, hrep, hcos1, hcos2, hcn⟩

/-- **`cos` for `|x| < 1`** (C17, the branch without `π`), formats with `8 ≤ p ≤ 488` and
    `p ≤ 2^(e-1) − 2`, nearest modes: `cosFuel` terminates for every fuel, the result is a positive
    normal number `≤ 1`, and it differs from `cos x ∈ [1/2, 1)` by at most `2^-p`, i.e. one ulp of
    the binade `[1/2, 1)` of the exact value (`2^-p = max(ulp, 2^-(p+6))` there).
    The budget behind the bound (`4^k` growth of the absolute error through the `k` double-angle
    steps against `14 + bitlen p` guard bits) is `cos_budget`; the check does not close at
    `p = 489` (`cosBudget_489`), and for `p ≈ 1.3·10^5` the statement is FALSE (see the end of the
    file). -/
theorem cos_small_accuracy (x : Flt) (hF : x.sem.WF) (hp : 8 ≤ x.sem.p) (hp488 : x.sem.p ≤ 488)
    (hdom : x.sem.p ≤ 2 ^ (x.sem.e - 1) - 2) (hrm : x.sem.rm = .nte ∨ x.sem.rm = .nta)
    (hc : x.Canonical) (hn : x.cat = .normal) (hsmall : x.exp < 0) (fuel : Nat) :
    ∃ r, x.cosFuel fuel = some r ∧ r.cat = .normal ∧ r.sign = false ∧ r.Canonical ∧
      r.sem = x.sem ∧ 0 < r.val ∧ r.val ≤ 1 ∧
      1/2 ≤ Real.cos ((x.val : ℚ) : ℝ) ∧ Real.cos ((x.val : ℚ) : ℝ) < 1 ∧
      |((r.val : ℚ) : ℝ) - Real.cos ((x.val : ℚ) : ℝ)| ≤ (2:ℝ) ^ (-(x.sem.p:ℤ)) := by
  obtain ⟨r, hfuel, hrcat, hsign, hcan, hsem, hrpos, hrep, hcos1, hcos2, herr⟩ :=
    cos_small_error x hF hp hdom hrm hc hn hsmall fuel
  have hp1 : 1 ≤ x.sem.p := by omega
  have hbud := cos_budget x.sem hp hp488
  have hη : (((2:ℚ) ^ (-(x.sem.p:ℤ) - 2) : ℚ) : ℝ) = (2:ℝ) ^ (-(x.sem.p:ℤ)) / 4 := by
    push_cast
    rw [show (-(x.sem.p:ℤ) - 2) = -(x.sem.p:ℤ) + (-2) by ring,
      zpow_add₀ (by norm_num : (2:ℝ) ≠ 0)]
    norm_num; ring
  have hbr : ((cosErrW x.sem : ℚ) : ℝ) ≤ (2:ℝ) ^ (-(x.sem.p:ℤ)) / 4 := by
    rw [← hη]; exact_mod_cast hbud
  have hfinal : |((r.val : ℚ) : ℝ) - Real.cos ((x.val : ℚ) : ℝ)| ≤ (2:ℝ) ^ (-(x.sem.p:ℤ)) := by
    linarith
  -- `r ≤ 1`: a representable number below `1 + 2^(1-p)` is at most one
  obtain ⟨f1, f2⟩ := abs_le.mp hfinal
  have hr1 : r.val ≤ 1 := by
    have hgap := hrep.gap hp1 (e := 0) (m := 2 ^ (x.sem.p - 1)) (Or.inl (le_refl _))
    have hone := x.sem.half_pow_mul_ulp hp1 0
    rw [zpow_zero] at hone
    push_cast at hgap
    rcases hgap with h | h
    · rw [hone] at h; exact h
    · exfalso
      have hu0 : x.sem.ulp 0 = (2:ℚ) ^ (1 - (x.sem.p:ℤ)) := by unfold Sem.ulp; congr 1; ring
      have h2 : (1:ℚ) + x.sem.ulp 0 ≤ r.val := by
        have : ((2:ℚ) ^ (x.sem.p - 1) + 1) * x.sem.ulp 0 = 1 + x.sem.ulp 0 := by
          rw [add_mul, hone, one_mul]
        rw [← this]; exact h
      have h3 : ((1 + x.sem.ulp 0 : ℚ) : ℝ) ≤ ((r.val : ℚ) : ℝ) := by exact_mod_cast h2
      rw [hu0] at h3
      push_cast at h3
      have h4 : (2:ℝ) ^ (1 - (x.sem.p:ℤ)) = 2 * (2:ℝ) ^ (-(x.sem.p:ℤ)) := by
        rw [show (1 - (x.sem.p:ℤ)) = -(x.sem.p:ℤ) + 1 by ring,
          zpow_add_one₀ (by norm_num : (2:ℝ) ≠ 0)]; ring
      have hpow : (0:ℝ) < (2:ℝ) ^ (-(x.sem.p:ℤ)) := by positivity
      linarith
  exact ⟨r, hfuel, hrcat, hsign, hcan, hsem, hrpos, hr1, hcos1, hcos2, hfinal⟩

/-- **`cos` for `|x| < 1`, `8 ≤ p ≤ 2022`**: at most two ulps of the binade `[1/2, 1)` of the exact
    value (the one-ulp clause is proved only up to `p = 488`). -/
theorem cos_small_two_ulps (x : Flt) (hF : x.sem.WF) (hp : 8 ≤ x.sem.p) (hp2022 : x.sem.p ≤ 2022)
    (hdom : x.sem.p ≤ 2 ^ (x.sem.e - 1) - 2) (hrm : x.sem.rm = .nte ∨ x.sem.rm = .nta)
    (hc : x.Canonical) (hn : x.cat = .normal) (hsmall : x.exp < 0) (fuel : Nat) :
    ∃ r, x.cosFuel fuel = some r ∧ r.cat = .normal ∧ r.sign = false ∧ r.Canonical ∧
      r.sem = x.sem ∧ 0 < r.val ∧
      |((r.val : ℚ) : ℝ) - Real.cos ((x.val : ℚ) : ℝ)| ≤ 2 * (2:ℝ) ^ (-(x.sem.p:ℤ)) := by
  obtain ⟨r, hfuel, hrcat, hsign, hcan, hsem, hrpos, _, _, _, herr⟩ :=
    cos_small_error x hF hp hdom hrm hc hn hsmall fuel
  have hbud := cos_budget2 x.sem hp hp2022
  have hbr : ((cosErrW x.sem : ℚ) : ℝ) ≤ 3/4 * (2:ℝ) ^ (-(x.sem.p:ℤ)) := by
    have := (Rat.cast_le (K := ℝ)).mpr hbud
    push_cast at this; exact this
  have hpow : (0:ℝ) < (2:ℝ) ^ (-(x.sem.p:ℤ)) := by positivity
  exact ⟨r, hfuel, hrcat, hsign, hcan, hsem, hrpos, by linarith⟩

/-! ## the hypotheses are satisfiable: preset formats -/

/-- FP32, `x = 0.75`: the theorem applies -/
example : ∃ r, (⟨FP32, false, -1, 0xC00000, .normal⟩ : Flt).sinFuel 0 = some r ∧ |r.val| ≤ 1 := by
  obtain ⟨r, h1, _, _, _, _, h6, _⟩ :=
    sin_small_accuracy ⟨FP32, false, -1, 0xC00000, .normal⟩ (by decide) (by decide) (by decide)
      (Or.inl rfl) (by decide) rfl (by decide) 0
  exact ⟨r, h1, h6⟩

/-- FP64, `x = −0.75` -/
example : ∃ r, (⟨FP64, true, -1, 0x18000000000000, .normal⟩ : Flt).sinFuel 0 = some r ∧
    r.sign = true := by
  obtain ⟨r, h1, _, h3, _⟩ :=
    sin_small_accuracy ⟨FP64, true, -1, 0x18000000000000, .normal⟩ (by decide) (by decide)
      (by decide) (Or.inl rfl) (by decide) rfl (by decide) 0
  exact ⟨r, h1, h3⟩

/-- FP256 (`p = 237 ≤ 488`), `x = 0.5`: `cos` is within one ulp -/
example : ∃ r, (⟨FP256, false, -1, 2 ^ 236, .normal⟩ : Flt).cosFuel 0 = some r ∧ r.val ≤ 1 := by
  obtain ⟨r, h1, _, _, _, _, _, h7, _⟩ :=
    cos_small_accuracy ⟨FP256, false, -1, 2 ^ 236, .normal⟩ (by decide) (by decide) (by decide)
      (by decide) (Or.inl rfl) (by decide) rfl (by decide) 0
  exact ⟨r, h1, h7⟩

/-!
## Findings and limits

* `sin` (`|x| < 1`): proved for EVERY precision `p ≥ 8` with `p ≤ 2^(e-1) − 2` (no upper bound on
  `p` is needed in the model): the `4·bitlen p` triple-angle steps do not amplify the RELATIVE
  error (`|d log(3s−4s³)/d log s| ≤ 1` for `s ≤ 1/3`), they only add `≈ 12u` each, and the Taylor
  loop adds at most `3·max(50, p_W)·u`; the total is `≤ 2^-(p+6)` against `12 + bitlen p` guard bits.
* `cos` (`|x| < 1`): the ABSOLUTE error grows by the factor `4` in each of the
  `k = ⌊0.8·bitlen(p_W)⌋` double-angle steps, against `14 + bitlen p` guard bits.
  `cos_small_error` bounds the error for every `p`; the one-ulp clause follows for `8 ≤ p ≤ 488`
  (`cos_small_accuracy`, all preset formats), two ulps for `p ≤ 2022` (`cos_small_two_ulps`).  For very large precisions the clause is FALSE:
  format `(e, p) = (19, 131072)`, nearest-even, `x = 0.25` (`N0:-2:8000…0`): the model returns a
  value `1.27` ulps away from `cos(1/4)`; `x = 0.5`: `1.12` ulps; `x = 0.9375`: `1.26` ulps;
  `(e, p) = (18, 131070)`, random operands: up to `2.65` ulps (reference: mpmath, 131272 bits).
  The gap `488 < p < ~10^5` is open (no violation was found by random testing up to
  `p = 98304`, where the largest observed error is `0.99` ulp).
* `tan` is not treated here.
-/

end Arp.C17
