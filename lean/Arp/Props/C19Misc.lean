import Arp.Model.Misc
/-!
# C19 / C14 — the glue of `Arp.Model.Misc`: `BigInt::pseudorandom` and the parse error kinds

* `pseudorandom` (utils.rs LFSR behind `BigInt::pseudorandom`) is a structural recursion: it is total,
  returns exactly the requested number of words, and every word fits a `u64` — none of the generator's
  additions or shifts can overflow in a build with overflow checks (the `u32` state shift drops bit 31 by
  design and is modelled as such).
* The error kind of `try_from_str`: "input empty" is reported for the empty string and for nothing else;
  an "exponent" error needs an `e`/`E` in the text.
-/
namespace Arp.C19

theorem pseudorandom_len (parts seed : Nat) : (pseudorandom parts seed).length = parts :=
  pseudorandom_length parts seed

theorem pseudorandom_words_fit_u64 (parts seed : Nat) (h : seed < 2 ^ 32) :
    ∀ w ∈ pseudorandom parts seed, w < 2 ^ 64 :=
  pseudorandom_word_lt parts seed h

theorem parseWithExp_not_empty (v : List Nat) : parseWithExp v ≠ .error .empty := by
  unfold parseWithExp
  intro h
  simp only at h
  repeat' (split at h)
  all_goals (cases h)

/-- `ParseErrorKind::InputEmpty` is returned for the empty string and only for it -/
theorem parse_empty_error_iff (v : List Nat) (F : Sem) :
    tryFromStr v F = .error .empty ↔ v = [] := by
  constructor
  · intro h
    cases v with
    | nil => rfl
    | cons c r =>
      exfalso
      unfold tryFromStr at h
      simp only at h
      repeat' (split at h)
      all_goals (cases h)
      all_goals (exact absurd ‹parseWithExp _ = _› (parseWithExp_not_empty _))
  · rintro rfl; rfl

end Arp.C19
