import Arp.Props.C17Std
import Arp.Props.C17StdCos
import Arp.Props.C17StdTan
import Arp.Props.C17PiWide
import Arp.Props.C17TanWide
/-!
# C17 — the remaining standard-format instances of `sin`, `cos`, `tan` (wide working formats)

`sin_accuracy_FP256`, `cos_accuracy_FP256` (working formats `⟨23, 257⟩`, `⟨23, 259⟩`) and
`tan_accuracy_FP128`, `tan_accuracy_F120` (working formats `⟨19, 246⟩`/`⟨23, 266⟩` and
`⟨14, 260⟩`/`⟨18, 281⟩`), in both nearest modes, for every fuel `≥ 8`: same statements as the
instances of `C17Std.lean`, `C17StdCos.lean`, `C17StdTan.lean`; the hypothesis on `π` is discharged
by kernel evaluation against the 165-decimal enclosure of `π` (`Arp/Props/C17PiWide.lean`).

`tan_accuracy_all_wide`: `tan_accuracy_all` with `e ≤ 17` relaxed to `e ≤ 50`, `p ≤ 249000`
(`Arp/Props/C17TanWide.lean`); `tan_accuracy_FP256` (`e = 19`; working formats `⟨23, 495⟩`/`⟨27, 516⟩`):
every fuel `≥ 9` — at `⟨23, 495, nte⟩` eight AGM iterations of `Float::pi` do not reach the exit test
(`piFuel 8` is `none`, see `piFuel8_tanW_FP256_nte`), so `PiOKAt` fails at fuel 8 there.
-/
namespace Arp.C17
open Arp Arp.TrigErr

/-- **`sin` at FP256**, both nearest modes, every canonical normal `|x| ≤ 128`, every fuel `≥ 8` -/
theorem sin_accuracy_FP256 (x : Flt) (rm : RM) (hrm : rm = .nte ∨ rm = .nta)
    (hsem : x.sem = { FP256 with rm := rm }) (hc : x.Canonical) (hn : x.cat = .normal)
    (h128 : |x.val| ≤ 128) (fuel : ℕ) (hfuel : 8 ≤ fuel) :
    ∃ r, x.sinFuel fuel = some r ∧ (r.cat = .normal ∨ r.cat = .zero) ∧ r.Canonical ∧
      r.sem = x.sem ∧ |r.val| ≤ 1 ∧
      |((r.val : ℚ) : ℝ) - Real.sin ((x.val : ℚ) : ℝ)| ≤
        max (ulpR x.sem |Real.sin ((x.val : ℚ) : ℝ)|) ((2:ℝ) ^ (-(x.sem.p:ℤ) - 6)) := by
  have hpi : PiOKAt ((x.sem.growLog 12).increaseExponent 4) 8 := by
    rw [hsem]
    rcases hrm with h | h <;> subst h
    · exact piOK_sin_FP256_nte
    · exact piOK_sin_FP256_nta
  apply sin_accuracy_all x _ _ _ _ _ hc hn h128 hpi fuel hfuel
  all_goals rw [hsem]
  · show 2 ≤ FP256.e ∧ 2 ≤ FP256.p; decide
  · show 8 ≤ FP256.p; decide
  · show FP256.p ≤ 1000000; decide
  · show FP256.p ≤ 2 ^ (FP256.e - 1) - 2; decide
  · rcases hrm with h | h <;> subst h
    · exact Or.inl rfl
    · exact Or.inr rfl

set_option exponentiation.threshold 4000 in
/-- **`cos` at FP256**, both nearest modes, every canonical normal `|x| ≤ 128`, every fuel `≥ 8`:
within `max(ulp, 2^-(p+1))` of `cos x` -/
theorem cos_accuracy_FP256 (x : Flt) (rm : RM) (hrm : rm = .nte ∨ rm = .nta)
    (hsem : x.sem = { FP256 with rm := rm }) (hc : x.Canonical) (hn : x.cat = .normal)
    (h128 : |x.val| ≤ 128) (fuel : ℕ) (hfuel : 8 ≤ fuel) :
    ∃ r, x.cosFuel fuel = some r ∧ (r.cat = .normal ∨ r.cat = .zero) ∧ r.Canonical ∧
      r.sem = x.sem ∧ |r.val| ≤ 1 ∧
      |((r.val : ℚ) : ℝ) - Real.cos ((x.val : ℚ) : ℝ)| ≤
        max (ulpR x.sem |Real.cos ((x.val : ℚ) : ℝ)|) ((2:ℝ) ^ (-(x.sem.p:ℤ) - 1)) := by
  have hpi : PiOKAt ((x.sem.growLog 14).increaseExponent 4) 8 := by
    rw [hsem]
    rcases hrm with h | h <;> subst h
    · exact piOK_cos_FP256_nte
    · exact piOK_cos_FP256_nta
  have ht : cosTolNat x.sem.p 1 = true := by
    rw [hsem]; show cosTolNat FP256.p 1 = true; decide
  have := cos_accuracy_all x ?_ ?_ ?_ ?_ ?_ hc hn h128 hpi fuel hfuel 1 ht
  · simpa using this
  all_goals rw [hsem]
  · show 2 ≤ FP256.e ∧ 2 ≤ FP256.p; decide
  · show 8 ≤ FP256.p; decide
  · show FP256.p ≤ 488; decide
  · show FP256.p ≤ 2 ^ (FP256.e - 1) - 2; decide
  · rcases hrm with h | h <;> subst h
    · exact Or.inl rfl
    · exact Or.inr rfl

/-- **`tan` at FP128**, both nearest modes, canonical normal `|x| ≤ 128` with `|tan x| ≤ 64`,
every fuel `≥ 8` -/
theorem tan_accuracy_FP128 (x : Flt) (rm : RM) (hrm : rm = .nte ∨ rm = .nta)
    (hsem : x.sem = { FP128 with rm := rm }) (hc : x.Canonical) (hn : x.cat = .normal)
    (h128 : |x.val| ≤ 128) (htan : |Real.tan ((x.val : ℚ) : ℝ)| ≤ 64) (fuel : ℕ)
    (hfuel : 8 ≤ fuel) :
    ∃ r, x.tanFuel fuel = some r ∧ (r.cat = .normal ∨ r.cat = .zero) ∧ r.Canonical ∧
      r.sem = x.sem ∧
      |((r.val : ℚ) : ℝ) - Real.tan ((x.val : ℚ) : ℝ)| ≤
        max (ulpR x.sem |Real.tan ((x.val : ℚ) : ℝ)|) ((2:ℝ) ^ (6 - 2 * (x.sem.p:ℤ))) := by
  have hpi1 : PiOKAt (((x.sem.increasePrecision x.sem.p).growLog 12).increaseExponent 4) 8 := by
    rw [hsem]
    rcases hrm with h | h <;> subst h
    · exact piOK_tan_FP128_nte
    · exact piOK_tan_FP128_nta
  have hpi2 : PiOKAt (((((x.sem.increasePrecision x.sem.p).growLog 12).increaseExponent 4).growLog
      12).increaseExponent 4) 8 := by
    rw [hsem]
    rcases hrm with h | h <;> subst h
    · exact piOK_tansin_FP128_nte
    · exact piOK_tansin_FP128_nta
  apply tan_accuracy_all x _ _ _ _ _ hc hn h128 htan hpi1 hpi2 fuel hfuel
  all_goals rw [hsem]
  · show 2 ≤ FP128.e ∧ 2 ≤ FP128.p; decide
  · show 8 ≤ FP128.p; decide
  · show FP128.p ≤ 2 ^ (FP128.e - 1) - 2; decide
  · show FP128.e ≤ 17; decide
  · rcases hrm with h | h <;> subst h
    · exact Or.inl rfl
    · exact Or.inr rfl

/-- **`tan` at the README format `⟨10, 120⟩`**, both nearest modes, canonical normal `|x| ≤ 128`
with `|tan x| ≤ 64`, every fuel `≥ 8` -/
theorem tan_accuracy_F120 (x : Flt) (rm : RM) (hrm : rm = .nte ∨ rm = .nta)
    (hsem : x.sem = { C15.F120 with rm := rm }) (hc : x.Canonical) (hn : x.cat = .normal)
    (h128 : |x.val| ≤ 128) (htan : |Real.tan ((x.val : ℚ) : ℝ)| ≤ 64) (fuel : ℕ)
    (hfuel : 8 ≤ fuel) :
    ∃ r, x.tanFuel fuel = some r ∧ (r.cat = .normal ∨ r.cat = .zero) ∧ r.Canonical ∧
      r.sem = x.sem ∧
      |((r.val : ℚ) : ℝ) - Real.tan ((x.val : ℚ) : ℝ)| ≤
        max (ulpR x.sem |Real.tan ((x.val : ℚ) : ℝ)|) ((2:ℝ) ^ (6 - 2 * (x.sem.p:ℤ))) := by
  have hpi1 : PiOKAt (((x.sem.increasePrecision x.sem.p).growLog 12).increaseExponent 4) 8 := by
    rw [hsem]
    rcases hrm with h | h <;> subst h
    · exact piOK_tan_F120_nte
    · exact piOK_tan_F120_nta
  have hpi2 : PiOKAt (((((x.sem.increasePrecision x.sem.p).growLog 12).increaseExponent 4).growLog
      12).increaseExponent 4) 8 := by
    rw [hsem]
    rcases hrm with h | h <;> subst h
    · exact piOK_tansin_F120_nte
    · exact piOK_tansin_F120_nta
  apply tan_accuracy_all x _ _ _ _ _ hc hn h128 htan hpi1 hpi2 fuel hfuel
  all_goals rw [hsem]
  · show 2 ≤ C15.F120.e ∧ 2 ≤ C15.F120.p; decide
  · show 8 ≤ C15.F120.p; decide
  · show C15.F120.p ≤ 2 ^ (C15.F120.e - 1) - 2; decide
  · show C15.F120.e ≤ 17; decide
  · rcases hrm with h | h <;> subst h
    · exact Or.inl rfl
    · exact Or.inr rfl

/-- **`tan` for every `|x| ≤ 128` with `|tan x| ≤ 64`**, given the accuracy of `π`; domain formats
`8 ≤ p ≤ 2^(e-1) − 2`, `e ≤ 50`, `p ≤ 249000` -/
theorem tan_accuracy_all_wide (x : Flt) (hF : x.sem.WF) (hp : 8 ≤ x.sem.p)
    (hdom : x.sem.p ≤ 2 ^ (x.sem.e - 1) - 2) (he50 : x.sem.e ≤ 50) (hp6 : x.sem.p ≤ 249000)
    (hrm : x.sem.rm = .nte ∨ x.sem.rm = .nta) (hc : x.Canonical) (hn : x.cat = .normal)
    (h128 : |x.val| ≤ 128) (htan : |Real.tan ((x.val : ℚ) : ℝ)| ≤ 64) {fuel0 : ℕ}
    (hpi1 : PiOKAt (((x.sem.increasePrecision x.sem.p).growLog 12).increaseExponent 4) fuel0)
    (hpi2 : PiOKAt (((((x.sem.increasePrecision x.sem.p).growLog 12).increaseExponent 4).growLog
      12).increaseExponent 4) fuel0) (fuel : ℕ) (hfuel : fuel0 ≤ fuel) :
    ∃ r, x.tanFuel fuel = some r ∧ (r.cat = .normal ∨ r.cat = .zero) ∧ r.Canonical ∧
      r.sem = x.sem ∧
      |((r.val : ℚ) : ℝ) - Real.tan ((x.val : ℚ) : ℝ)| ≤
        max (ulpR x.sem |Real.tan ((x.val : ℚ) : ℝ)|) ((2:ℝ) ^ (6 - 2 * (x.sem.p:ℤ))) := by
  by_cases hsmall : x.exp < 0
  · obtain ⟨r, h1, h2, _, h4, h5, h6⟩ :=
      tan_small_accuracy_wide x hF hp hdom he50 hp6 hrm hc hn hsmall fuel
    refine ⟨r, h1, h2, h4, h5, le_trans h6 (le_trans ?_ (le_max_left _ _))⟩
    have := ulpR_pos x.sem |Real.tan ((x.val : ℚ) : ℝ)|
    linarith
  · exact tan_accuracy_of_pi_wide' x hF hp hdom he50 hp6 hrm hc hn (by omega) h128 htan hpi1 hpi2
      fuel hfuel

/-- **`tan` at FP256**, both nearest modes, canonical normal `|x| ≤ 128` with `|tan x| ≤ 64`,
every fuel `≥ 9` -/
theorem tan_accuracy_FP256 (x : Flt) (rm : RM) (hrm : rm = .nte ∨ rm = .nta)
    (hsem : x.sem = { FP256 with rm := rm }) (hc : x.Canonical) (hn : x.cat = .normal)
    (h128 : |x.val| ≤ 128) (htan : |Real.tan ((x.val : ℚ) : ℝ)| ≤ 64) (fuel : ℕ)
    (hfuel : 9 ≤ fuel) :
    ∃ r, x.tanFuel fuel = some r ∧ (r.cat = .normal ∨ r.cat = .zero) ∧ r.Canonical ∧
      r.sem = x.sem ∧
      |((r.val : ℚ) : ℝ) - Real.tan ((x.val : ℚ) : ℝ)| ≤
        max (ulpR x.sem |Real.tan ((x.val : ℚ) : ℝ)|) ((2:ℝ) ^ (6 - 2 * (x.sem.p:ℤ))) := by
  have hpi1 : PiOKAt (((x.sem.increasePrecision x.sem.p).growLog 12).increaseExponent 4) 9 := by
    rw [hsem]
    rcases hrm with h | h <;> subst h
    · exact piOK_tan_FP256_nte
    · exact piOK_tan_FP256_nta
  have hpi2 : PiOKAt (((((x.sem.increasePrecision x.sem.p).growLog 12).increaseExponent 4).growLog
      12).increaseExponent 4) 9 := by
    rw [hsem]
    rcases hrm with h | h <;> subst h
    · exact piOK_tansin_FP256_nte
    · exact piOK_tansin_FP256_nta
  apply tan_accuracy_all_wide x _ _ _ _ _ _ hc hn h128 htan hpi1 hpi2 fuel hfuel
  all_goals rw [hsem]
  · show 2 ≤ FP256.e ∧ 2 ≤ FP256.p; decide
  · show 8 ≤ FP256.p; decide
  · show FP256.p ≤ 2 ^ (FP256.e - 1) - 2; decide
  · show FP256.e ≤ 50; decide
  · show FP256.p ≤ 249000; decide
  · rcases hrm with h | h <;> subst h
    · exact Or.inl rfl
    · exact Or.inr rfl

end Arp.C17
