import Arp.Props.C01
import Arp.Props.C01Dead
/-! umbrella of the C01 obligations (keeps `Arp.Props.C01`, which many modules import, untouched) -/
