import Arp.Lemmas.TrigBigSin
import Arp.Lemmas.TrigBigCosCore
import Arp.Props.C17Small
/-!
# C17 — accuracy of `sin` (and `cos`) for `1 ≤ |x| ≤ 128`, conditional on the computed `π`

For `|x| ≥ 1` (`x.exp ≥ 0`) the argument is first reduced with `Float::pi` of the working format
`W`; that constant has no universal accuracy theorem, so the clause is proved under the
hypothesis `PiOKAt W fuel0` (`piFuel fuel0 W` is a positive number within one ulp `2^(2-p_W)` of
`π`), which `Arp/Props/C17Pi.lean` discharges for the standard formats by kernel evaluation.

* `sin_accuracy_of_pi`: for a domain format (`8 ≤ p ≤ 2^(e-1) − 2`, `p ≤ 10^6`), a nearest mode,
  a canonical normal operand with `1 ≤ |x| ≤ 128`, and every fuel `≥ fuel0`: `sinFuel` returns a
  zero or a normal number of magnitude `≤ 1` within `max(ulp, 2^-(p+6))` of `sin x`, where `ulp`
  is the ulp of the binade of the EXACT value (clamped at the subnormal spacing).
* `cos_accuracy_of_pi` (`8 ≤ p ≤ 488`): the same for `cosFuel` with the absolute tolerance `2^-(p+t)`
  instead of `2^-(p+6)`, for every `t` accepted by the computable check `cosTolNat p t`
  (`cos_accuracy_of_pi'`: `t = 1` for all `8 ≤ p ≤ 488`).  The worst-case bound of the error of the
  working-format result (`cosErrBig`: `(4 + 1/256)^k·(Js + 6)` units `2^(1-p_W)`, plus the error
  `184·2^-p_W` of the reduced argument) does not reach `2^-(p+7)`, which the clause `2^-(p+6)` near
  the zeros of `cos` would need; numerically the clause holds (≤ 0.2·2^-(p+6) on the searched
  inputs).
-/
namespace Arp.C17
open Arp Arp.TrigErr Arp.RelErr Arp.SpecRound

theorem abs_val_eq_mag (x : Flt) (hn : x.cat = .normal) : |x.val| = x.mag := by
  rw [Flt.val_normal hn]
  have := x.mag_nonneg
  cases x.sign
  · simp [abs_of_nonneg this]
  · simp [abs_of_nonneg this]

theorem emin_le_neg8 {F : Sem} (hp : 8 ≤ F.p) (hdom : F.p ≤ 2 ^ (F.e - 1) - 2) : F.emin ≤ -8 := by
  have := Sem.emin_eq F
  have h2 : 10 ≤ 2 ^ (F.e - 1) := by omega
  have : (10:ℤ) ≤ ((2 ^ (F.e - 1) : ℕ) : ℤ) := by exact_mod_cast h2
  omega

/-- **`sin` for `1 ≤ |x| ≤ 128`, given the accuracy of `π`.** -/
theorem sin_accuracy_of_pi (x : Flt) (hF : x.sem.WF) (hp : 8 ≤ x.sem.p)
    (hpmax : x.sem.p ≤ 1000000) (hdom : x.sem.p ≤ 2 ^ (x.sem.e - 1) - 2)
    (hrm : x.sem.rm = .nte ∨ x.sem.rm = .nta) (hc : x.Canonical) (hn : x.cat = .normal)
    (hbig : 0 ≤ x.exp) (h128 : |x.val| ≤ 128) {fuel0 : ℕ}
    (hpi : PiOKAt ((x.sem.growLog 12).increaseExponent 4) fuel0) (fuel : ℕ) (hfuel : fuel0 ≤ fuel) :
    ∃ r, x.sinFuel fuel = some r ∧ (r.cat = .normal ∨ r.cat = .zero) ∧ r.Canonical ∧
      r.sem = x.sem ∧ |r.val| ≤ 1 ∧
      |((r.val : ℚ) : ℝ) - Real.sin ((x.val : ℚ) : ℝ)| ≤
        max (ulpR x.sem |Real.sin ((x.val : ℚ) : ℝ)|) ((2:ℝ) ^ (-(x.sem.p:ℤ) - 6)) := by
  rw [abs_val_eq_mag x hn] at h128
  obtain ⟨r, q, neg, S, a, hfuelEq, hcat, hcan, hsem, hval, hq0, hq1, hsin, hS1, ha0, ha, herr⟩ :=
    sin_big_core x hF hp hpmax hdom hrm hc hn hbig h128 hpi fuel hfuel
  have hemin8 := emin_le_neg8 hp hdom
  have hsmall : (2:ℚ) ^ (-(x.sem.p:ℤ) - 6) ≤ (2:ℚ) ^ (-(x.sem.p:ℤ) - 2) :=
    zpow_le_zpow_right₀ (by norm_num) (by omega)
  have hsmall1 : (2:ℚ) ^ (-(x.sem.p:ℤ) - 2) ≤ 1/4 := by
    calc (2:ℚ) ^ (-(x.sem.p:ℤ) - 2) ≤ (2:ℚ) ^ (-2:ℤ) := zpow_le_zpow_right₀ (by norm_num) (by omega)
      _ = 1/4 := by norm_num
  have hrq1 : rq x.sem x.sem.rm q ≤ 1 := rq_le_one hF hrm hq0 (by linarith)
  have hrq0 : 0 ≤ rq x.sem x.sem.rm q := rq_nonneg hF hq0 _
  refine ⟨r, hfuelEq, hcat, hcan, hsem, ?_, ?_⟩
  · rw [hval]
    cases neg
    · simp [abs_of_nonneg hrq0, hrq1]
    · simp [abs_of_nonneg hrq0, hrq1]
  · -- signs
    have hsv := sin_val_eq x hn
    rw [hsin] at hsv
    have hdiff : |((r.val : ℚ) : ℝ) - Real.sin ((x.val : ℚ) : ℝ)| =
        |((rq x.sem x.sem.rm q : ℚ) : ℝ) - S| := by
      rw [hsv, hval]
      cases neg <;> cases x.sign <;> simp
      · rw [← abs_neg]; congr 1; ring
      · rw [← abs_neg]; congr 1; ring
    have habsS : |Real.sin ((x.val : ℚ) : ℝ)| = |S| := by
      rw [hsv]
      cases neg <;> cases x.sign <;> simp
    rw [hdiff, habsS]
    have hlog := Int.lt_zpow_succ_log_self (b := 2) (by norm_num) |S|
    have := final_round hF hrm hp hemin8 hq0 (by linarith) hS1 (by positivity) (le_refl _) ha0 ha
      herr (Int.log 2 |S|) (by simpa using hlog)
    unfold ulpR
    exact this

/-- the same with the existential form of the hypothesis on `π` -/
theorem sin_accuracy_of_piOK (x : Flt) (hF : x.sem.WF) (hp : 8 ≤ x.sem.p)
    (hpmax : x.sem.p ≤ 1000000) (hdom : x.sem.p ≤ 2 ^ (x.sem.e - 1) - 2)
    (hrm : x.sem.rm = .nte ∨ x.sem.rm = .nta) (hc : x.Canonical) (hn : x.cat = .normal)
    (hbig : 0 ≤ x.exp) (h128 : |x.val| ≤ 128)
    (hpi : PiOK ((x.sem.growLog 12).increaseExponent 4)) :
    ∃ fuel0, ∀ fuel, fuel0 ≤ fuel →
      ∃ r, x.sinFuel fuel = some r ∧ (r.cat = .normal ∨ r.cat = .zero) ∧ r.Canonical ∧
        r.sem = x.sem ∧ |r.val| ≤ 1 ∧
        |((r.val : ℚ) : ℝ) - Real.sin ((x.val : ℚ) : ℝ)| ≤
          max (ulpR x.sem |Real.sin ((x.val : ℚ) : ℝ)|) ((2:ℝ) ^ (-(x.sem.p:ℤ) - 6)) := by
  obtain ⟨fuel0, r, h⟩ := hpi
  exact ⟨fuel0, fun fuel hf =>
    sin_accuracy_of_pi x hF hp hpmax hdom hrm hc hn hbig h128 ⟨r, h⟩ fuel hf⟩

/-- **`cos` for `1 ≤ |x| ≤ 128`, given the accuracy of `π`.**  The absolute tolerance near the
zeros of `cos` is `2^-(p+t)` for every `t` accepted by the computable check `cosTolNat p t`
(`t = 1` for all `8 ≤ p ≤ 488`, see `cos_accuracy_of_pi'`; `t = 2 … 5` for the standard formats):
the worst-case bound of the working-format error, `cosTolBig`, does not reach the `2^-(p+6)` of
`sin`. -/
theorem cos_accuracy_of_pi (x : Flt) (hF : x.sem.WF) (hp : 8 ≤ x.sem.p) (hp488 : x.sem.p ≤ 488)
    (hdom : x.sem.p ≤ 2 ^ (x.sem.e - 1) - 2)
    (hrm : x.sem.rm = .nte ∨ x.sem.rm = .nta) (hc : x.Canonical) (hn : x.cat = .normal)
    (hbig : 0 ≤ x.exp) (h128 : |x.val| ≤ 128) {fuel0 : ℕ}
    (hpi : PiOKAt ((x.sem.growLog 14).increaseExponent 4) fuel0) (fuel : ℕ) (hfuel : fuel0 ≤ fuel)
    (t : ℕ) (ht : cosTolNat x.sem.p t = true) :
    ∃ r, x.cosFuel fuel = some r ∧ (r.cat = .normal ∨ r.cat = .zero) ∧ r.Canonical ∧
      r.sem = x.sem ∧ |r.val| ≤ 1 ∧
      |((r.val : ℚ) : ℝ) - Real.cos ((x.val : ℚ) : ℝ)| ≤
        max (ulpR x.sem |Real.cos ((x.val : ℚ) : ℝ)|) ((2:ℝ) ^ (-(x.sem.p:ℤ) - (t:ℤ))) := by
  rw [abs_val_eq_mag x hn] at h128
  obtain ⟨r, ρ, flag, θq, θ, hfuelEq, hcat, hcan, hsem, hval, hρerr, hθerr, hcos⟩ :=
    cos_big_core x hF hp hp488 hdom hrm hc hn hbig h128 hpi fuel hfuel
  have hbud := cos_budget_big x.sem hp hp488
  have hq0 : (0:ℚ) ≤ |ρ| := abs_nonneg ρ
  -- `|ρ| ≤ 1 + 2^-(p+2)`
  have hbudR : ((cosErrBig x.sem : ℚ) : ℝ) ≤ (((2:ℚ) ^ (-(x.sem.p:ℤ) - 2) : ℚ) : ℝ) :=
    (Rat.cast_le (K := ℝ)).mpr hbud
  have hρ1 : |ρ| ≤ 1 + (2:ℚ) ^ (-(x.sem.p:ℤ) - 2) := by
    have h2 := Real.abs_cos_le_one ((θq : ℚ) : ℝ)
    have h3 : |((ρ : ℚ) : ℝ)| ≤ ((1 + (2:ℚ) ^ (-(x.sem.p:ℤ) - 2) : ℚ) : ℝ) := by
      have := abs_sub_abs_le_abs_sub ((ρ : ℚ) : ℝ) (Real.cos ((θq : ℚ) : ℝ))
      push_cast at hbudR ⊢
      linarith
    rw [← Rat.cast_abs] at h3
    exact (Rat.cast_le (K := ℝ)).mp h3
  have hsmall1 : (2:ℚ) ^ (-(x.sem.p:ℤ) - 2) ≤ 1/4 := by
    calc (2:ℚ) ^ (-(x.sem.p:ℤ) - 2) ≤ (2:ℚ) ^ (-2:ℤ) := zpow_le_zpow_right₀ (by norm_num) (by omega)
      _ = 1/4 := by norm_num
  have hrq1 : rq x.sem x.sem.rm |ρ| ≤ 1 := rq_le_one hF hrm hq0 hρ1
  have hrq0 : 0 ≤ rq x.sem x.sem.rm |ρ| := rq_nonneg hF hq0 _
  refine ⟨r, hfuelEq, hcat, hcan, hsem, ?_, ?_⟩
  · rw [hval]
    cases (xor flag (decide (ρ < 0)))
    · simp [abs_of_nonneg hrq0, hrq1]
    · simp [abs_of_nonneg hrq0, hrq1]
  · have hcv := cos_val_eq x hn
    rw [hcos] at hcv
    set S : ℝ := (if ρ < 0 then -1 else 1) * Real.cos θ with hS
    have hdiff : |((r.val : ℚ) : ℝ) - Real.cos ((x.val : ℚ) : ℝ)| =
        |((rq x.sem x.sem.rm |ρ| : ℚ) : ℝ) - S| := by
      rw [hcv, hval, hS]
      by_cases hneg : ρ < 0
      · cases flag <;> simp [hneg]
        all_goals (rw [← abs_neg]; congr 1; ring)
      · cases flag <;> simp [hneg]
        all_goals (rw [← abs_neg]; congr 1; ring)
    have habsS : |Real.cos ((x.val : ℚ) : ℝ)| = |S| := by
      rw [hcv, hS]
      by_cases hneg : ρ < 0
      · cases flag <;> simp [hneg]
      · cases flag <;> simp [hneg]
    have hS1 : |S| ≤ 1 := by
      rw [← habsS]; exact Real.abs_cos_le_one _
    have hqS : |((|ρ| : ℚ) : ℝ) - S| = |((ρ : ℚ) : ℝ) - Real.cos θ| := by
      rw [hS]
      by_cases hneg : ρ < 0
      · rw [abs_of_neg hneg]; simp only [hneg, if_true]
        rw [← abs_neg]; congr 1; push_cast; ring
      · rw [abs_of_nonneg (not_lt.mp hneg)]; simp only [hneg, if_false, one_mul]
    have hlip := Real.abs_cos_sub_cos_le ((θq : ℚ) : ℝ) θ
    set η : ℝ := ((cosErrBig x.sem : ℚ) : ℝ) + 184 * (2:ℝ) ^ (-((cosW x.sem).p:ℤ)) with hη
    have herr : |((|ρ| : ℚ) : ℝ) - S| ≤ η := by
      rw [hqS]
      have := abs_sub_le ((ρ : ℚ) : ℝ) (Real.cos ((θq : ℚ) : ℝ)) (Real.cos θ)
      linarith
    have htol := cos_tol_big x.sem hp t ht
    have htolR : 2 * η ≤ (2:ℝ) ^ (-(x.sem.p:ℤ) - (t:ℤ)) := by
      have := (Rat.cast_le (K := ℝ)).mpr htol
      unfold cosTolBig at this
      push_cast at this
      rw [hη]; linarith
    rw [hdiff, habsS]
    have hlog := Int.lt_zpow_succ_log_self (b := 2) (by norm_num) |S|
    have h := final_round_abs hF hrm hq0 (by linarith) hS1 herr (Int.log 2 |S|)
      (by simpa using hlog)
    unfold ulpR
    exact le_trans h (max_le_max (le_refl _) htolR)

/-- the generic form: `2^-(p+1)` for every domain format with `8 ≤ p ≤ 488` -/
theorem cos_accuracy_of_pi' (x : Flt) (hF : x.sem.WF) (hp : 8 ≤ x.sem.p) (hp488 : x.sem.p ≤ 488)
    (hdom : x.sem.p ≤ 2 ^ (x.sem.e - 1) - 2)
    (hrm : x.sem.rm = .nte ∨ x.sem.rm = .nta) (hc : x.Canonical) (hn : x.cat = .normal)
    (hbig : 0 ≤ x.exp) (h128 : |x.val| ≤ 128) {fuel0 : ℕ}
    (hpi : PiOKAt ((x.sem.growLog 14).increaseExponent 4) fuel0) (fuel : ℕ) (hfuel : fuel0 ≤ fuel) :
    ∃ r, x.cosFuel fuel = some r ∧ (r.cat = .normal ∨ r.cat = .zero) ∧ r.Canonical ∧
      r.sem = x.sem ∧ |r.val| ≤ 1 ∧
      |((r.val : ℚ) : ℝ) - Real.cos ((x.val : ℚ) : ℝ)| ≤
        max (ulpR x.sem |Real.cos ((x.val : ℚ) : ℝ)|) ((2:ℝ) ^ (-(x.sem.p:ℤ) - 1)) := by
  have := cos_accuracy_of_pi x hF hp hp488 hdom hrm hc hn hbig h128 hpi fuel hfuel 1
    (cosTol_all x.sem.p (by omega) hp)
  simpa using this

/-- `PiOKAt` is monotone in the fuel -/
theorem PiOKAt.mono {W : Sem} {f0 f1 : ℕ} (h : PiOKAt W f0) (hle : f0 ≤ f1) : PiOKAt W f1 := by
  obtain ⟨r, h1, h2, h3, h4⟩ := h
  exact ⟨r, C15.piFuel_stable W f0 f1 hle r h1, h2, h3, h4⟩

/-- `cos` with the existential form of the hypothesis on `π` -/
theorem cos_accuracy_of_piOK (x : Flt) (hF : x.sem.WF) (hp : 8 ≤ x.sem.p) (hp488 : x.sem.p ≤ 488)
    (hdom : x.sem.p ≤ 2 ^ (x.sem.e - 1) - 2)
    (hrm : x.sem.rm = .nte ∨ x.sem.rm = .nta) (hc : x.Canonical) (hn : x.cat = .normal)
    (hbig : 0 ≤ x.exp) (h128 : |x.val| ≤ 128)
    (hpi : PiOK ((x.sem.growLog 14).increaseExponent 4)) :
    ∃ fuel0, ∀ fuel, fuel0 ≤ fuel →
      ∃ r, x.cosFuel fuel = some r ∧ (r.cat = .normal ∨ r.cat = .zero) ∧ r.Canonical ∧
        r.sem = x.sem ∧ |r.val| ≤ 1 ∧
        |((r.val : ℚ) : ℝ) - Real.cos ((x.val : ℚ) : ℝ)| ≤
          max (ulpR x.sem |Real.cos ((x.val : ℚ) : ℝ)|) ((2:ℝ) ^ (-(x.sem.p:ℤ) - 1)) := by
  obtain ⟨fuel0, r, h⟩ := hpi
  exact ⟨fuel0, fun fuel hf =>
    cos_accuracy_of_pi' x hF hp hp488 hdom hrm hc hn hbig h128 ⟨r, h⟩ fuel hf⟩

end Arp.C17
