import Arp.Lemmas.ToInt
/-!
# C10 — `trunc` and `round`
-/
namespace Arp.C10

/-- the largest finite magnitude of a format (as written in `Spec.roundHalfAway`) -/
def maxFinite (s : Sem) : ℚ := ((2 ^ s.p - 1 : Nat) : ℚ) * pow2 (s.emax - (s.p - 1))

/-! ## `trunc` -/

/-- `trunc` of a normal canonical value is a finite canonical value of the same format and
    sign whose value is `±⌊|x|⌋`. -/
theorem trunc_form (x : Flt) (hF : x.sem.WF) (hx : x.cat = .normal) (hc : x.Canonical) :
    ∃ y : Flt, x.trunc = y ∧ y.sem = x.sem ∧ y.sign = x.sign ∧ y.Canonical ∧
      (y.cat = .normal ∨ y.cat = .zero) ∧
      y.val = (if x.sign then -1 else 1) * ((x.mag.floor : Int) : ℚ) := by
  obtain ⟨he1, he2, hm0, hm1, hn⟩ := (Flt.canonical_normal hx).mp hc
  have hp := hF.2
  unfold Flt.trunc Flt.isNormal
  rw [hx]
  simp only [show (Cat.normal == Cat.normal) = true from rfl, Bool.not_true, Bool.false_eq_true, if_false]
  by_cases h1 : x.exp > ((x.sem.p - 1 : Nat) : Int)
  · -- already an integer
    rw [if_pos h1]
    obtain ⟨k, hk⟩ : ∃ k : Nat, x.exp - ((x.sem.p - 1 : Nat) : Int) = (k : Int) :=
      ⟨(x.exp - ((x.sem.p - 1 : Nat) : Int)).toNat, by omega⟩
    have hfl : ((x.mag.floor : Int) : ℚ) = x.mag := by
      rw [mag_shiftLeft x hF k hk, show (((x.mant <<< k : Nat) : ℚ)).floor = ⌊((x.mant <<< k : Nat) : ℚ)⌋ from rfl,
        Int.floor_natCast]; push_cast; rfl
    exact ⟨x, rfl, rfl, rfl, hc, Or.inl hx, by rw [hfl, ← val_eq_sign_mul x hx]⟩
  · rw [if_neg h1]
    obtain ⟨k, hk⟩ : ∃ k : Nat, x.exp - ((x.sem.p - 1 : Nat) : Int) = -(k : Int) :=
      ⟨(-(x.exp - ((x.sem.p - 1 : Nat) : Int))).toNat, by omega⟩
    have hfl := mag_floor_int x hF k hk
    rw [hfl]
    have hzero : x.mant >>> k = 0 →
        (Flt.zero x.sem x.sign).val = (if x.sign then -1 else 1) * (((x.mant >>> k : Nat) : Int) : ℚ) := by
      intro hz; rw [hz]; simp [Flt.val, Flt.zero]
    by_cases h2 : x.exp < -1
    · -- magnitude below one half
      rw [if_pos h2]
      have hz : x.mant >>> k = 0 := by
        rw [Nat.shiftRight_eq_div_pow]; apply Nat.div_eq_of_lt
        have : 2 ^ x.sem.p ≤ 2 ^ k := Nat.pow_le_pow_right (by norm_num) (by omega)
        omega
      exact ⟨_, rfl, rfl, rfl, zero_canonical _ _, Or.inr rfl, hzero hz⟩
    · rw [if_neg h2]
      have htrim : (((x.sem.p - 1 : Nat) : Int) - x.exp).toNat = k := by omega
      rw [htrim]
      by_cases hz : x.mant >>> k = 0
      · refine ⟨Flt.zero x.sem x.sign, ?_, rfl, rfl, zero_canonical _ _, Or.inr rfl, hzero hz⟩
        rw [hz]; simp [Flt.new]
      · have hne : (x.mant >>> k) <<< k ≠ 0 := by
          rw [Nat.shiftLeft_eq]; exact Nat.mul_ne_zero hz (by positivity)
        unfold Flt.new; rw [if_neg hne]
        refine ⟨_, rfl, rfl, rfl, truncMant_canonical x hx hc k hz, Or.inl rfl, ?_⟩
        rw [val_eq_sign_mul _ rfl, mag_of_shiftLeft _ _ _ _ _ _ hF hk]; push_cast; rfl

/-- **C10** `trunc`: the fraction is discarded, the sign is kept; NaN, infinities and zeros
    are returned unchanged. -/
theorem trunc_spec (x : Flt) (hF : x.sem.WF) (hc : x.Canonical) : x.trunc.toRes = Spec.trunc x := by
  cases hx : x.cat
  · simp [Flt.trunc, Flt.isNormal, Spec.trunc, Flt.toRes, hx]
  · simp [Flt.trunc, Flt.isNormal, Spec.trunc, Flt.toRes, hx]
  · obtain ⟨y, hy, hs, hsg, hyc, hfin, hv⟩ := trunc_form x hF hx hc
    unfold Spec.trunc; rw [hx]; simp only
    rw [hy, ← hv, ← hs, ← hsg]
    exact (toRes_of_val y .zero (hs ▸ hF) hyc hfin).symm
  · simp [Flt.trunc, Flt.isNormal, Spec.trunc, Flt.toRes, hx]

/-- 2.5 ↦ 2 and -0.75 ↦ -0 in the FP16 layout -/
example : (Flt.mk FP16 false 1 0b10100000000 .normal).trunc.toRes = .fin false 1 0b10000000000 := by decide
example : (Flt.mk FP16 true (-1) 0b11000000000 .normal).trunc.toRes = .zero true := by decide
example : Spec.trunc (Flt.mk FP16 false 1 0b10100000000 .normal) = .fin false 1 0b10000000000 := by
  decide +kernel
example : (Flt.mk FP16 true (-1) 0b11000000000 .normal).Canonical ∧ FP16.WF := by
  unfold Flt.Canonical Sem.WF; decide

/-- the value of the result is `sign · ⌊|x|⌋` (every category; specials denote 0) -/
theorem trunc_value (x : Flt) (hF : x.sem.WF) (hc : x.Canonical) :
    Res.val x.sem x.trunc.toRes = (if x.sign then -1 else 1) * ((x.mag.floor : Int) : ℚ) := by
  by_cases hx : x.cat = .normal
  · obtain ⟨y, hy, hs, _, _, _, hv⟩ := trunc_form x hF hx hc
    rw [hy, ← hs, Res.val_toRes, hv]
  · have hm := ((Flt.canonical_special hx).mp hc).2
    have ht : x.trunc = x := by
      unfold Flt.trunc Flt.isNormal; cases h : x.cat <;> simp_all
    have hmag : x.mag = 0 := by unfold Flt.mag; rw [hm]; simp
    rw [ht, Res.val_toRes, hmag]
    have hv : x.val = 0 := by
      unfold Flt.val; cases h : x.cat <;> simp_all
    rw [hv, show (0:ℚ).floor = ⌊(0:ℚ)⌋ from rfl, Int.floor_zero]; simp

/-- the sign bit is kept, whatever the category -/
theorem trunc_keeps_sign (x : Flt) : x.trunc.sign = x.sign := by
  unfold Flt.trunc
  simp only
  split
  · rfl
  · split
    · rfl
    · split
      · rfl
      · unfold Flt.new; split <;> rfl

/-- a finite value that is already an integer is returned unchanged -/
theorem trunc_of_integer (x : Flt) (hF : x.sem.WF) (hc : x.Canonical)
    (hfin : x.cat = .normal ∨ x.cat = .zero) (k : Int) (hk : x.val = (k : ℚ)) :
    x.trunc.toRes = x.toRes := by
  rw [trunc_spec x hF hc]
  rcases hfin with hx | hx
  · unfold Spec.trunc; rw [hx]; simp only
    have hmag : x.mag = (((if x.sign then -k else k : Int)) : ℚ) := by
      rw [val_eq_sign_mul x hx] at hk
      cases hs : x.sign <;> rw [hs] at hk <;> simp at hk ⊢ <;> linarith
    have hfl : ((x.mag.floor : Int) : ℚ) = x.mag := by
      rw [hmag, show ((((if x.sign then -k else k : Int)) : ℚ)).floor
        = ⌊(((if x.sign then -k else k : Int)) : ℚ)⌋ from rfl, Int.floor_intCast]
    rw [hfl, ← val_eq_sign_mul x hx]
    exact toRes_of_val x .zero hF hc (Or.inl hx)
  · unfold Spec.trunc Flt.toRes; rw [hx]

/-! ## `round` -/

/-- `round` of a normal canonical value whose nearest integer (ties away) is finite in the
    format: the result denotes a finite canonical value of the same format and sign whose
    value is `±⌊|x| + 1/2⌋`. -/
theorem round_form (x : Flt) (hF : x.sem.WF) (hx : x.cat = .normal) (hc : x.Canonical)
    (hfit : ¬ ((((x.mag + 1/2).floor : Int) : ℚ) > maxFinite x.sem)) :
    ∃ y : Flt, x.round.toRes = y.toRes ∧ y.sem = x.sem ∧ y.sign = x.sign ∧ y.Canonical ∧
      (y.cat = .normal ∨ y.cat = .zero) ∧
      y.val = (if x.sign then -1 else 1) * (((x.mag + 1/2).floor : Int) : ℚ) := by
  obtain ⟨he1, he2, hm0, hm1, hn⟩ := (Flt.canonical_normal hx).mp hc
  have hp := hF.2
  have hemin1 := Sem.emin_ne_neg_one hF
  unfold Flt.round Flt.isNormal
  rw [hx]
  simp only [show (Cat.normal == Cat.normal) = true from rfl, Bool.not_true, Bool.false_eq_true, if_false]
  by_cases h1 : x.exp > ((x.sem.p - 1 : Nat) : Int)
  · -- already an integer
    rw [if_pos h1]
    obtain ⟨k, hk⟩ : ∃ k : Nat, x.exp - ((x.sem.p - 1 : Nat) : Int) = (k : Int) :=
      ⟨(x.exp - ((x.sem.p - 1 : Nat) : Int)).toNat, by omega⟩
    have hfl : (((x.mag + 1/2).floor : Int) : ℚ) = x.mag := by
      rw [mag_shiftLeft x hF k hk, floor_half_nat]; push_cast; rfl
    exact ⟨x, rfl, rfl, rfl, hc, Or.inl hx, by rw [hfl, ← val_eq_sign_mul x hx]⟩
  · rw [if_neg h1]
    obtain ⟨k, hk⟩ : ∃ k : Nat, x.exp - ((x.sem.p - 1 : Nat) : Int) = -(k : Int) :=
      ⟨(-(x.exp - ((x.sem.p - 1 : Nat) : Int))).toNat, by omega⟩
    have hfl := mag_round_shiftRight x hF k hk
    rw [hfl] at hfit ⊢
    obtain ⟨hf0, hf1⟩ := frac_bounds x.mant k
    have hpk : (0:ℚ) < 2 ^ k := by positivity
    -- the result `±1`
    have hone : x.mant >>> k = 0 → ¬ (((x.mant % 2 ^ k : Nat) : ℚ) / 2 ^ k < 1/2) →
        (Flt.one x.sem x.sign).val = (if x.sign then -1 else 1) *
          (((if ((x.mant % 2 ^ k : Nat) : ℚ) / 2 ^ k < 1/2 then ((x.mant >>> k : Nat) : Int)
            else ((x.mant >>> k : Nat) : Int) + 1 : Int)) : ℚ) := by
      intro hz hge
      rw [if_neg hge, hz, one_val _ _ hF]; push_cast; ring
    -- the result `±0`
    have hzero : x.mant >>> k = 0 → (((x.mant % 2 ^ k : Nat) : ℚ) / 2 ^ k < 1/2) →
        (Flt.zero x.sem x.sign).val = (if x.sign then -1 else 1) *
          (((if ((x.mant % 2 ^ k : Nat) : ℚ) / 2 ^ k < 1/2 then ((x.mant >>> k : Nat) : Int)
            else ((x.mant >>> k : Nat) : Int) + 1 : Int)) : ℚ) := by
      intro hz hlt
      rw [if_pos hlt, hz]; simp [Flt.val, Flt.zero]
    by_cases h2 : x.exp = -1
    · -- [1/2, 1) ↦ 1
      rw [if_pos h2]
      have hkp : k = x.sem.p := by omega
      have hnorm : 2 ^ (x.sem.p - 1) ≤ x.mant := by
        rcases hn with h | h
        · exact h
        · omega
      have hz : x.mant >>> k = 0 := by
        rw [Nat.shiftRight_eq_div_pow, hkp]; exact Nat.div_eq_of_lt hm1
      have hge : ¬ (((x.mant % 2 ^ k : Nat) : ℚ) / 2 ^ k < 1/2) := by
        rw [hkp, Nat.mod_eq_of_lt hm1, not_lt, div_le_div_iff₀ (by norm_num) (by positivity)]
        have h2p : 2 ^ x.sem.p = 2 * 2 ^ (x.sem.p - 1) := by
          rw [← Nat.pow_succ']; congr 1; omega
        have : 2 ^ x.sem.p ≤ x.mant * 2 := by omega
        have := (Nat.cast_le (α := ℚ)).mpr this
        push_cast at this; linarith
      exact ⟨Flt.one x.sem x.sign, rfl, rfl, rfl, one_canonical _ _ hF, Or.inl rfl, hone hz hge⟩
    · rw [if_neg h2]
      by_cases h3 : x.exp < -2
      · -- below 1/4 ↦ 0
        rw [if_pos h3]
        have hkp : x.sem.p + 2 ≤ k := by omega
        have h4 : 4 * 2 ^ x.sem.p ≤ 2 ^ k := by
          calc 4 * 2 ^ x.sem.p = 2 ^ (x.sem.p + 2) := by rw [Nat.pow_add]; ring
            _ ≤ 2 ^ k := Nat.pow_le_pow_right (by norm_num) hkp
        have hlt2 : x.mant < 2 ^ k := by omega
        have hz : x.mant >>> k = 0 := by
          rw [Nat.shiftRight_eq_div_pow]; exact Nat.div_eq_of_lt hlt2
        have hlt : ((x.mant % 2 ^ k : Nat) : ℚ) / 2 ^ k < 1/2 := by
          rw [Nat.mod_eq_of_lt hlt2, div_lt_div_iff₀ (by positivity) (by norm_num)]
          have : x.mant * 2 < 2 ^ k := by omega
          have := (Nat.cast_lt (α := ℚ)).mpr this
          push_cast at this; linarith
        exact ⟨_, rfl, rfl, rfl, zero_canonical _ _, Or.inr rfl, hzero hz hlt⟩
      · rw [if_neg h3]
        have htrim : (((x.sem.p - 1 : Nat) : Int) - x.exp).toNat = k := by omega
        rw [htrim, lossOfBits_cls]
        by_cases hlt : ((x.mant % 2 ^ k : Nat) : ℚ) / 2 ^ k < 1/2
        · -- fraction below one half: the truncated value
          rw [if_pos ((isLtHalf_cls _ hf0).mpr hlt)]
          by_cases hz : x.mant >>> k = 0
          · refine ⟨Flt.zero x.sem x.sign, ?_, rfl, rfl, zero_canonical _ _, Or.inr rfl, hzero hz hlt⟩
            rw [hz]; simp [Flt.new]
          · have hne : (x.mant >>> k) <<< k ≠ 0 := by
              rw [Nat.shiftLeft_eq]; exact Nat.mul_ne_zero hz (by positivity)
            unfold Flt.new; rw [if_neg hne, if_pos hlt]
            refine ⟨_, rfl, rfl, rfl, truncMant_canonical x hx hc k hz, Or.inl rfl, ?_⟩
            rw [val_eq_sign_mul _ rfl, mag_of_shiftLeft _ _ _ _ _ _ hF hk]; push_cast; rfl
        · -- at least one half: truncated value plus/minus one
          have hnlt : ¬ ((cls (((x.mant % 2 ^ k : Nat) : ℚ) / 2 ^ k)).isLtHalf = true) :=
            fun h => hlt ((isLtHalf_cls _ hf0).mp h)
          rw [if_neg hnlt]
          have hsub : ∀ t b : Flt, ∀ rm, (if x.sign = true then subWithRm t b rm else addWithRm t b rm)
              = addSub t b x.sign rm := by
            intro t b rm; cases x.sign <;> rfl
          rw [hsub]
          -- the exponent is non-negative here
          have he0 : 0 ≤ x.exp := by
            by_contra hcon
            have hk2 : k = x.sem.p + 1 := by omega
            apply hlt
            have h2p : 2 ^ k = 2 * 2 ^ x.sem.p := by rw [hk2, Nat.pow_succ]; ring
            have hlt2 : x.mant < 2 ^ k := by omega
            rw [Nat.mod_eq_of_lt hlt2, div_lt_div_iff₀ (by positivity) (by norm_num)]
            have : x.mant * 2 < 2 ^ k := by omega
            have := (Nat.cast_lt (α := ℚ)).mpr this
            push_cast at this; linarith
          by_cases hz : x.mant >>> k = 0
          · refine ⟨Flt.one x.sem x.sign, ?_, rfl, rfl, one_canonical _ _ hF, Or.inl rfl, hone hz hlt⟩
            rw [hz]
            cases x.sign <;> simp [Flt.new, Flt.zero, Flt.one, addSub, Flt.toRes]
          · have hne : (x.mant >>> k) <<< k ≠ 0 := by
              rw [Nat.shiftLeft_eq]; exact Nat.mul_ne_zero hz (by positivity)
            unfold Flt.new; rw [if_neg hne]
            rw [if_neg hlt] at hfit ⊢
            have hN : x.mant >>> k + 1 ≤ 2 ^ x.sem.p := by
              have hsh : x.mant >>> k ≤ x.mant := by
                rw [Nat.shiftRight_eq_div_pow]; exact Nat.div_le_self _ _
              generalize x.mant >>> k = m0 at hsh ⊢
              omega
            have hfitN : ((x.mant >>> k + 1 : Nat) : ℚ) ≤
                ((2 ^ x.sem.p - 1 : Nat) : ℚ) * pow2 (x.sem.emax - (x.sem.p - 1)) := by
              have := not_lt.mp hfit
              unfold maxFinite at this
              push_cast at this ⊢; exact this
            obtain ⟨y, hys, hysg, hycat, hyc, hym⟩ :=
              nat_representable x.sem x.sign (x.mant >>> k + 1) hF (Nat.succ_pos _) hN hfitN
            have hexact := round_canonical_exact_ti y x.sem.rm (hys ▸ hF) hycat hyc
            rw [hys, hysg, hym] at hexact
            have hyres : y.toRes = .fin y.sign y.exp y.mant := by
              unfold Flt.toRes; rw [hycat]
            rw [hyres] at hexact
            push_cast at hexact
            refine ⟨y, ?_, hys, hysg, hyc, Or.inl hycat, ?_⟩
            · rw [hyres]
              exact addSub_one_toRes x.sem x.sign x.exp (x.mant >>> k) k x.sem.rm hF hk he0 _ _ _ hexact
            · rw [val_eq_sign_mul y hycat, hym, hysg]; push_cast; rfl

/-- **C10** `round`: nearest integer, ties away from zero, sign kept, whenever that integer
    is finite in the format; NaN, infinities and zeros are returned unchanged. -/
theorem round_spec (x : Flt) (hF : x.sem.WF) (hc : x.Canonical) (r : Res)
    (h : Spec.roundHalfAway x = some r) : x.round.toRes = r := by
  unfold Spec.roundHalfAway at h
  cases hx : x.cat
  · rw [hx] at h; simp only [Option.some.injEq] at h
    rw [← h]; simp [Flt.round, Flt.isNormal, Flt.toRes, hx]
  · rw [hx] at h; simp only [Option.some.injEq] at h
    rw [← h]; simp [Flt.round, Flt.isNormal, Flt.toRes, hx]
  · rw [hx] at h; simp only at h
    by_cases hfit : (((x.mag + 1/2).floor : Int) : ℚ) > maxFinite x.sem
    · unfold maxFinite at hfit; rw [if_pos hfit] at h; exact absurd h (by simp)
    · have hfit' := hfit
      unfold maxFinite at hfit'; rw [if_neg hfit'] at h
      simp only [Option.some.injEq] at h
      obtain ⟨y, hy, hs, hsg, hyc, hfin, hv⟩ := round_form x hF hx hc hfit
      rw [hy, ← h, ← hv, ← hs, ← hsg]
      exact (toRes_of_val y .zero (hs ▸ hF) hyc hfin).symm
  · rw [hx] at h; simp only [Option.some.injEq] at h
    rw [← h]; simp [Flt.round, Flt.isNormal, Flt.toRes, hx]

/-- the version that takes the correctness of addition/subtraction as hypotheses
    (not needed: `round_spec` is unconditional; kept for the merge plan) -/
theorem round_spec_of_add
    (_hadd : ∀ (a b : Flt) (rm : RM), a.sem.WF → b.sem = a.sem → a.Canonical → b.Canonical →
      (addWithRm a b rm).toRes = Spec.add a.sem rm a b)
    (_hsub : ∀ (a b : Flt) (rm : RM), a.sem.WF → b.sem = a.sem → a.Canonical → b.Canonical →
      (subWithRm a b rm).toRes = Spec.sub a.sem rm a b)
    (x : Flt) (hF : x.sem.WF) (hc : x.Canonical) (r : Res)
    (h : Spec.roundHalfAway x = some r) : x.round.toRes = r :=
  round_spec x hF hc r h

/-- 2.5 ↦ 3, -2.5 ↦ -3, 0.75 ↦ 1, 0.25 ↦ 0 in the FP16 layout (nearest-even format mode) -/
example : Spec.roundHalfAway (Flt.mk FP16 false 1 0b10100000000 .normal) = some (.fin false 1 0b11000000000) := by
  decide +kernel
example : (Flt.mk FP16 false 1 0b10100000000 .normal).round.toRes = .fin false 1 0b11000000000 := by decide
example : (Flt.mk FP16 true 1 0b10100000000 .normal).round.toRes = .fin true 1 0b11000000000 := by decide
example : (Flt.mk FP16 false (-1) 0b11000000000 .normal).round.toRes = .fin false 0 0b10000000000 := by decide
example : (Flt.mk FP16 true (-2) 0b10000000000 .normal).round.toRes = .zero true := by decide
example : (Flt.mk FP16 true 1 0b10100000000 .normal).Canonical ∧ FP16.WF := by
  unfold Flt.Canonical Sem.WF; decide

end Arp.C10
