import Arp.Model.Trans
import Arp.Model.Str
namespace Arp.C19
theorem smoke : (1:Nat) + 1 = 2 := rfl
end Arp.C19
