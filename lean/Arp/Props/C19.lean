import Arp.Props.C19Trans
import Arp.Props.C19Dbg
import Arp.Props.C19Ovf
import Arp.Props.C19Misc
import Arp.Props.C19Misc2
import Arp.Props.C11
import Arp.Props.C12
import Arp.Props.C14
import Arp.Props.C09
import Arp.Props.C08
import Arp.Props.C15
import Batteries.Tactic.Alias
/-!
# C19 — every operation is total: no panic, abort, stack exhaustion or hang

What a theorem can say here is about the *logic* of termination and of the debug-only
checks; real stack depth, memory and wall-clock time are runtime behaviour that the model
cannot exhibit and that the supervised harness observes (see DESIGN.md).

* Structural totality: every model function is a total Lean function; loops with a
  syntactic bound are structural recursions, open-ended loops take fuel.
* Fuel is never exhausted (the loops terminate), with explicit bounds in the format's
  parameters: `rem` (`C11.rem_fuel`: exponent gap + p + 1 iterations), `sqrt`
  (`C12.sqrt_terminates`: 3·2^(e-1) + 2p + 16), `exp`'s range reduction
  (`exp_reduce_fuel`, `exp_terminates`: ⌈(emax+1)/3⌉ + 1 loop iterations — a loop, not a
  recursion, so stack depth does not grow with the argument), `powi` (64 iterations),
  `pi` (`C15.pi_terminates`), parsing (`C14.parse_no_panic`), BigInt products
  (`C09.mulSlice_val`: the final `assert!(carry == 0)` never fires).
-/
namespace Arp.C19

alias rem_terminates := Arp.C11.rem_fuel
alias rem_terminates_any_larger_fuel := Arp.C11.rem_fuel_ge
alias sqrt_terminates := Arp.C12.sqrt_terminates
alias mul_assert_never_fires := Arp.C09.mulSlice_val
alias parse_semantics_agree := Arp.C14.parse_no_panic
alias to_i64_in_range := Arp.C08.toI64_range

end Arp.C19
