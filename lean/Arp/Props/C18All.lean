import Arp.Props.C18Accuracy
import Arp.Props.C18Pow
import Arp.Props.FuelWide
/-! # C18 — every theorem of the property (identities, `powi` accuracy, `pow` accuracy) -/
