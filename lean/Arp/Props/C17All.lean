import Arp.Props.C17
import Arp.Props.C17Small
import Arp.Props.C17Big
import Arp.Props.C17Std
import Arp.Props.C17StdCos
import Arp.Props.C17Tan
import Arp.Props.C17TanBig
import Arp.Props.C17StdTan
import Arp.Props.C17StdWide
/-! # C17 — every theorem of the property (specials, exact symmetry, accuracy of `sin`, `cos`, `tan`: small arguments
universally, `1 ≤ |x| ≤ 128` conditionally on the computed `π` and unconditionally at the standard formats) -/
