import Arp.Props.C17
import Arp.Props.C17Small
/-! # C17 — every theorem of the property (specials, exact symmetry, accuracy of `sin` and `cos` for `|x| < 1`) -/
