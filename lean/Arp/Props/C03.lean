import Arp.Props.C01
import Batteries.Tactic.Alias
/-!
# C03 — zeros, infinities and NaN follow the IEEE-754 rules in the four basic operations

`Arp.C01.add_correct … div_correct` already cover operands of every category (the
right-hand sides `Spec.add/sub/mul/div` ARE the IEEE table, written from the property
text).  This file restates the table clause by clause, in the property's own words.
All clauses hold for every format and every rounding mode; the table clauses need no
canonicity hypothesis at all.
-/
namespace Arp.C03
open Arp.C01

/-- any operation with a NaN operand returns NaN -/
theorem nan_operand (a b : Flt) (rm : RM) (h : a.cat = .nan ∨ b.cat = .nan) :
    (addWithRm a b rm).toRes = .nan ∧ (subWithRm a b rm).toRes = .nan ∧
    (mulWithRm a b rm).toRes = .nan ∧ (divWithRm a b rm).toRes = .nan :=
  ⟨(add_nan a b rm h).1, (add_nan a b rm h).2, mul_nan a b rm h, div_nan a b rm h⟩

/-- inf − inf and inf + (−inf) are NaN -/
theorem inf_minus_inf (a b : Flt) (rm : RM) (ha : a.cat = .inf) (hb : b.cat = .inf) :
    (a.sign = b.sign → (subWithRm a b rm).toRes = .nan) ∧
    (a.sign ≠ b.sign → (addWithRm a b rm).toRes = .nan) := inf_sub_inf_nan a b rm ha hb

/-- 0 · inf is NaN -/
theorem zero_times_inf (a b : Flt) (rm : RM)
    (h : (a.cat = .zero ∧ b.cat = .inf) ∨ (a.cat = .inf ∧ b.cat = .zero)) :
    (mulWithRm a b rm).toRes = .nan := zero_mul_inf_nan a b rm h

/-- 0/0 and inf/inf are NaN -/
theorem zero_div_zero (a b : Flt) (rm : RM) (ha : a.cat = .zero) (hb : b.cat = .zero) :
    (divWithRm a b rm).toRes = .nan := div_zero_zero_nan a b rm ha hb
theorem inf_div_inf (a b : Flt) (rm : RM) (ha : a.cat = .inf) (hb : b.cat = .inf) :
    (divWithRm a b rm).toRes = .nan := div_inf_inf_nan a b rm ha hb

/-- finite / 0 is the infinity whose sign is the exclusive-or -/
theorem finite_div_zero (a b : Flt) (rm : RM) (ha : a.cat = .normal) (hb : b.cat = .zero) :
    (divWithRm a b rm).toRes = .inf (a.sign ^^ b.sign) := finite_div_zero_inf a b rm ha hb

/-- finite / inf is the zero whose sign is the exclusive-or -/
theorem finite_div_inf (a b : Flt) (rm : RM) (ha : a.cat = .zero ∨ a.cat = .normal)
    (hb : b.cat = .inf) : (divWithRm a b rm).toRes = .zero (a.sign ^^ b.sign) :=
  finite_div_inf_zero a b rm ha hb

/-- products involving a zero (and no infinity/NaN) are the zero with the xor sign -/
alias product_with_zero := mul_zero_sign
/-- products involving an infinity (and no zero/NaN) are the infinity with the xor sign -/
alias product_with_inf := mul_inf_sign
/-- 0 / finite is the zero with the xor sign; inf / finite the infinity with the xor sign -/
alias zero_div_finite := zero_div_finite_zero
alias inf_div_finite := inf_div_finite_inf

/-- inf combined with a finite value in a sum/difference gives the infinity's sign -/
alias sum_with_inf := add_inf_finite
/-- like-signed infinities add to that infinity -/
alias inf_plus_inf := inf_add_inf

/-- a sum that is exactly zero is +0 in every mode except Negative, where it is −0 -/
alias exact_zero_sum := exact_zero_sum_sign
alias exact_zero_difference := exact_zero_diff_sign
/-- sums of like-signed zeros keep their sign -/
alias like_signed_zero_sum := like_signed_zeros

/-- non-vacuity: FP16 `1.0 - 1.0` under `Negative` is `-0`, under nearest-even `+0` -/
example : (subWithRm ⟨FP16, false, 0, 1024, .normal⟩ ⟨FP16, false, 0, 1024, .normal⟩ .neg).toRes = .zero true := by decide
example : (subWithRm ⟨FP16, false, 0, 1024, .normal⟩ ⟨FP16, false, 0, 1024, .normal⟩ .nte).toRes = .zero false := by decide

end Arp.C03
