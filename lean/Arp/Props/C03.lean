import Arp.Model.Arith
import Arp.Spec.Ops
namespace Arp.C03
theorem smoke : (1:Nat) + 1 = 2 := rfl
end Arp.C03
