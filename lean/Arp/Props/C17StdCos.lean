import Arp.Props.C17Big
import Arp.Props.C17Pi
/-!
# C17 — `cos` at the standard formats, unconditionally, for every `|x| ≤ 128`

`cos_accuracy_all`: the clause for a domain format (`8 ≤ p ≤ 488`) given `PiOKAt` of its working
format, for every canonical normal operand with `|x| ≤ 128` (both branches).  The absolute
tolerance near the zeros of `cos` is `2^-(p+t)` with `t` accepted by `cosTolNat p t`.
`cos_accuracy_<F>`: the instances at FP16, bf16, FP32, FP64, x87, FP128 and `⟨10,120⟩` in both
nearest modes (`π` by kernel evaluation, `Arp/Props/C17Pi.lean`); any fuel `≥ 8` suffices.
-/
namespace Arp.C17
open Arp Arp.TrigErr

theorem ulpR_half (F : Sem) (hemin : F.emin ≤ -1) {y : ℝ} (h1 : 1/2 ≤ y) (h2 : y < 1) :
    ulpR F y = (2:ℝ) ^ (-(F.p:ℤ)) := by
  have hy0 : 0 < y := by linarith
  have hl1 : (-1:ℤ) ≤ Int.log 2 y := by
    apply (Int.zpow_le_iff_le_log (b := 2) (by norm_num) hy0).mp
    norm_num; linarith
  have hl2 : Int.log 2 y < 0 := by
    apply (Int.lt_zpow_iff_log_lt (b := 2) (by norm_num) hy0).mp
    norm_num; exact h2
  unfold ulpR
  congr 1
  rw [max_eq_left (by omega)]
  omega

/-- **`cos` for every `|x| ≤ 128`**, given the accuracy of `π` in the working format -/
theorem cos_accuracy_all (x : Flt) (hF : x.sem.WF) (hp : 8 ≤ x.sem.p) (hp488 : x.sem.p ≤ 488)
    (hdom : x.sem.p ≤ 2 ^ (x.sem.e - 1) - 2) (hrm : x.sem.rm = .nte ∨ x.sem.rm = .nta)
    (hc : x.Canonical) (hn : x.cat = .normal) (h128 : |x.val| ≤ 128) {fuel0 : ℕ}
    (hpi : PiOKAt ((x.sem.growLog 14).increaseExponent 4) fuel0) (fuel : ℕ) (hfuel : fuel0 ≤ fuel)
    (t : ℕ) (ht : cosTolNat x.sem.p t = true) :
    ∃ r, x.cosFuel fuel = some r ∧ (r.cat = .normal ∨ r.cat = .zero) ∧ r.Canonical ∧
      r.sem = x.sem ∧ |r.val| ≤ 1 ∧
      |((r.val : ℚ) : ℝ) - Real.cos ((x.val : ℚ) : ℝ)| ≤
        max (ulpR x.sem |Real.cos ((x.val : ℚ) : ℝ)|) ((2:ℝ) ^ (-(x.sem.p:ℤ) - (t:ℤ))) := by
  by_cases hsmall : x.exp < 0
  · obtain ⟨r, h1, h2, _, h4, h5, h6, h7, h8, h9, h10⟩ :=
      cos_small_accuracy x hF hp hp488 hdom hrm hc hn hsmall fuel
    refine ⟨r, h1, Or.inl h2, h4, h5, ?_, le_trans h10 (le_trans (le_of_eq ?_) (le_max_left _ _))⟩
    · rw [abs_of_pos h6]; exact h7
    · have hemin := emin_le_neg8 hp hdom
      rw [abs_of_nonneg (by linarith), ulpR_half x.sem (by omega) h8 h9]
  · exact cos_accuracy_of_pi x hF hp hp488 hdom hrm hc hn (by omega) h128 hpi fuel hfuel t ht

/-- **`cos` at FP16**, both nearest modes, every canonical normal `|x| ≤ 128`, every fuel `≥ 8`:
within `max(ulp, 2^-(p+4))` of `cos x` -/
theorem cos_accuracy_FP16 (x : Flt) (rm : RM) (hrm : rm = .nte ∨ rm = .nta)
    (hsem : x.sem = { FP16 with rm := rm }) (hc : x.Canonical) (hn : x.cat = .normal)
    (h128 : |x.val| ≤ 128) (fuel : ℕ) (hfuel : 8 ≤ fuel) :
    ∃ r, x.cosFuel fuel = some r ∧ (r.cat = .normal ∨ r.cat = .zero) ∧ r.Canonical ∧
      r.sem = x.sem ∧ |r.val| ≤ 1 ∧
      |((r.val : ℚ) : ℝ) - Real.cos ((x.val : ℚ) : ℝ)| ≤
        max (ulpR x.sem |Real.cos ((x.val : ℚ) : ℝ)|) ((2:ℝ) ^ (-(x.sem.p:ℤ) - 4)) := by
  have hpi : PiOKAt ((x.sem.growLog 14).increaseExponent 4) 8 := by
    rw [hsem]
    rcases hrm with h | h <;> subst h
    · exact piOK_cos_FP16_nte
    · exact piOK_cos_FP16_nta
  have ht : cosTolNat x.sem.p 4 = true := by
    rw [hsem]; show cosTolNat FP16.p 4 = true; decide
  have := cos_accuracy_all x ?_ ?_ ?_ ?_ ?_ hc hn h128 hpi fuel hfuel 4 ht
  · simpa using this
  all_goals rw [hsem]
  · show 2 ≤ FP16.e ∧ 2 ≤ FP16.p; decide
  · show 8 ≤ FP16.p; decide
  · show FP16.p ≤ 488; decide
  · show FP16.p ≤ 2 ^ (FP16.e - 1) - 2; decide
  · rcases hrm with h | h <;> subst h
    · exact Or.inl rfl
    · exact Or.inr rfl

/-- **`cos` at BF16**, both nearest modes, every canonical normal `|x| ≤ 128`, every fuel `≥ 8`:
within `max(ulp, 2^-(p+4))` of `cos x` -/
theorem cos_accuracy_BF16 (x : Flt) (rm : RM) (hrm : rm = .nte ∨ rm = .nta)
    (hsem : x.sem = { C15.BF16 with rm := rm }) (hc : x.Canonical) (hn : x.cat = .normal)
    (h128 : |x.val| ≤ 128) (fuel : ℕ) (hfuel : 8 ≤ fuel) :
    ∃ r, x.cosFuel fuel = some r ∧ (r.cat = .normal ∨ r.cat = .zero) ∧ r.Canonical ∧
      r.sem = x.sem ∧ |r.val| ≤ 1 ∧
      |((r.val : ℚ) : ℝ) - Real.cos ((x.val : ℚ) : ℝ)| ≤
        max (ulpR x.sem |Real.cos ((x.val : ℚ) : ℝ)|) ((2:ℝ) ^ (-(x.sem.p:ℤ) - 4)) := by
  have hpi : PiOKAt ((x.sem.growLog 14).increaseExponent 4) 8 := by
    rw [hsem]
    rcases hrm with h | h <;> subst h
    · exact piOK_cos_BF16_nte
    · exact piOK_cos_BF16_nta
  have ht : cosTolNat x.sem.p 4 = true := by
    rw [hsem]; show cosTolNat C15.BF16.p 4 = true; decide
  have := cos_accuracy_all x ?_ ?_ ?_ ?_ ?_ hc hn h128 hpi fuel hfuel 4 ht
  · simpa using this
  all_goals rw [hsem]
  · show 2 ≤ C15.BF16.e ∧ 2 ≤ C15.BF16.p; decide
  · show 8 ≤ C15.BF16.p; decide
  · show C15.BF16.p ≤ 488; decide
  · show C15.BF16.p ≤ 2 ^ (C15.BF16.e - 1) - 2; decide
  · rcases hrm with h | h <;> subst h
    · exact Or.inl rfl
    · exact Or.inr rfl

/-- **`cos` at FP32**, both nearest modes, every canonical normal `|x| ≤ 128`, every fuel `≥ 8`:
within `max(ulp, 2^-(p+5))` of `cos x` -/
theorem cos_accuracy_FP32 (x : Flt) (rm : RM) (hrm : rm = .nte ∨ rm = .nta)
    (hsem : x.sem = { FP32 with rm := rm }) (hc : x.Canonical) (hn : x.cat = .normal)
    (h128 : |x.val| ≤ 128) (fuel : ℕ) (hfuel : 8 ≤ fuel) :
    ∃ r, x.cosFuel fuel = some r ∧ (r.cat = .normal ∨ r.cat = .zero) ∧ r.Canonical ∧
      r.sem = x.sem ∧ |r.val| ≤ 1 ∧
      |((r.val : ℚ) : ℝ) - Real.cos ((x.val : ℚ) : ℝ)| ≤
        max (ulpR x.sem |Real.cos ((x.val : ℚ) : ℝ)|) ((2:ℝ) ^ (-(x.sem.p:ℤ) - 5)) := by
  have hpi : PiOKAt ((x.sem.growLog 14).increaseExponent 4) 8 := by
    rw [hsem]
    rcases hrm with h | h <;> subst h
    · exact piOK_cos_FP32_nte
    · exact piOK_cos_FP32_nta
  have ht : cosTolNat x.sem.p 5 = true := by
    rw [hsem]; show cosTolNat FP32.p 5 = true; decide
  have := cos_accuracy_all x ?_ ?_ ?_ ?_ ?_ hc hn h128 hpi fuel hfuel 5 ht
  · simpa using this
  all_goals rw [hsem]
  · show 2 ≤ FP32.e ∧ 2 ≤ FP32.p; decide
  · show 8 ≤ FP32.p; decide
  · show FP32.p ≤ 488; decide
  · show FP32.p ≤ 2 ^ (FP32.e - 1) - 2; decide
  · rcases hrm with h | h <;> subst h
    · exact Or.inl rfl
    · exact Or.inr rfl

/-- **`cos` at FP64**, both nearest modes, every canonical normal `|x| ≤ 128`, every fuel `≥ 8`:
within `max(ulp, 2^-(p+3))` of `cos x` -/
theorem cos_accuracy_FP64 (x : Flt) (rm : RM) (hrm : rm = .nte ∨ rm = .nta)
    (hsem : x.sem = { FP64 with rm := rm }) (hc : x.Canonical) (hn : x.cat = .normal)
    (h128 : |x.val| ≤ 128) (fuel : ℕ) (hfuel : 8 ≤ fuel) :
    ∃ r, x.cosFuel fuel = some r ∧ (r.cat = .normal ∨ r.cat = .zero) ∧ r.Canonical ∧
      r.sem = x.sem ∧ |r.val| ≤ 1 ∧
      |((r.val : ℚ) : ℝ) - Real.cos ((x.val : ℚ) : ℝ)| ≤
        max (ulpR x.sem |Real.cos ((x.val : ℚ) : ℝ)|) ((2:ℝ) ^ (-(x.sem.p:ℤ) - 3)) := by
  have hpi : PiOKAt ((x.sem.growLog 14).increaseExponent 4) 8 := by
    rw [hsem]
    rcases hrm with h | h <;> subst h
    · exact piOK_cos_FP64_nte
    · exact piOK_cos_FP64_nta
  have ht : cosTolNat x.sem.p 3 = true := by
    rw [hsem]; show cosTolNat FP64.p 3 = true; decide
  have := cos_accuracy_all x ?_ ?_ ?_ ?_ ?_ hc hn h128 hpi fuel hfuel 3 ht
  · simpa using this
  all_goals rw [hsem]
  · show 2 ≤ FP64.e ∧ 2 ≤ FP64.p; decide
  · show 8 ≤ FP64.p; decide
  · show FP64.p ≤ 488; decide
  · show FP64.p ≤ 2 ^ (FP64.e - 1) - 2; decide
  · rcases hrm with h | h <;> subst h
    · exact Or.inl rfl
    · exact Or.inr rfl

/-- **`cos` at X87**, both nearest modes, every canonical normal `|x| ≤ 128`, every fuel `≥ 8`:
within `max(ulp, 2^-(p+4))` of `cos x` -/
theorem cos_accuracy_X87 (x : Flt) (rm : RM) (hrm : rm = .nte ∨ rm = .nta)
    (hsem : x.sem = { C15.X87 with rm := rm }) (hc : x.Canonical) (hn : x.cat = .normal)
    (h128 : |x.val| ≤ 128) (fuel : ℕ) (hfuel : 8 ≤ fuel) :
    ∃ r, x.cosFuel fuel = some r ∧ (r.cat = .normal ∨ r.cat = .zero) ∧ r.Canonical ∧
      r.sem = x.sem ∧ |r.val| ≤ 1 ∧
      |((r.val : ℚ) : ℝ) - Real.cos ((x.val : ℚ) : ℝ)| ≤
        max (ulpR x.sem |Real.cos ((x.val : ℚ) : ℝ)|) ((2:ℝ) ^ (-(x.sem.p:ℤ) - 4)) := by
  have hpi : PiOKAt ((x.sem.growLog 14).increaseExponent 4) 8 := by
    rw [hsem]
    rcases hrm with h | h <;> subst h
    · exact piOK_cos_X87_nte
    · exact piOK_cos_X87_nta
  have ht : cosTolNat x.sem.p 4 = true := by
    rw [hsem]; show cosTolNat C15.X87.p 4 = true; decide
  have := cos_accuracy_all x ?_ ?_ ?_ ?_ ?_ hc hn h128 hpi fuel hfuel 4 ht
  · simpa using this
  all_goals rw [hsem]
  · show 2 ≤ C15.X87.e ∧ 2 ≤ C15.X87.p; decide
  · show 8 ≤ C15.X87.p; decide
  · show C15.X87.p ≤ 488; decide
  · show C15.X87.p ≤ 2 ^ (C15.X87.e - 1) - 2; decide
  · rcases hrm with h | h <;> subst h
    · exact Or.inl rfl
    · exact Or.inr rfl

/-- **`cos` at FP128**, both nearest modes, every canonical normal `|x| ≤ 128`, every fuel `≥ 8`:
within `max(ulp, 2^-(p+2))` of `cos x` -/
theorem cos_accuracy_FP128 (x : Flt) (rm : RM) (hrm : rm = .nte ∨ rm = .nta)
    (hsem : x.sem = { FP128 with rm := rm }) (hc : x.Canonical) (hn : x.cat = .normal)
    (h128 : |x.val| ≤ 128) (fuel : ℕ) (hfuel : 8 ≤ fuel) :
    ∃ r, x.cosFuel fuel = some r ∧ (r.cat = .normal ∨ r.cat = .zero) ∧ r.Canonical ∧
      r.sem = x.sem ∧ |r.val| ≤ 1 ∧
      |((r.val : ℚ) : ℝ) - Real.cos ((x.val : ℚ) : ℝ)| ≤
        max (ulpR x.sem |Real.cos ((x.val : ℚ) : ℝ)|) ((2:ℝ) ^ (-(x.sem.p:ℤ) - 2)) := by
  have hpi : PiOKAt ((x.sem.growLog 14).increaseExponent 4) 8 := by
    rw [hsem]
    rcases hrm with h | h <;> subst h
    · exact piOK_cos_FP128_nte
    · exact piOK_cos_FP128_nta
  have ht : cosTolNat x.sem.p 2 = true := by
    rw [hsem]; show cosTolNat FP128.p 2 = true; decide
  have := cos_accuracy_all x ?_ ?_ ?_ ?_ ?_ hc hn h128 hpi fuel hfuel 2 ht
  · simpa using this
  all_goals rw [hsem]
  · show 2 ≤ FP128.e ∧ 2 ≤ FP128.p; decide
  · show 8 ≤ FP128.p; decide
  · show FP128.p ≤ 488; decide
  · show FP128.p ≤ 2 ^ (FP128.e - 1) - 2; decide
  · rcases hrm with h | h <;> subst h
    · exact Or.inl rfl
    · exact Or.inr rfl

/-- **`cos` at F120**, both nearest modes, every canonical normal `|x| ≤ 128`, every fuel `≥ 8`:
within `max(ulp, 2^-(p+2))` of `cos x` -/
theorem cos_accuracy_F120 (x : Flt) (rm : RM) (hrm : rm = .nte ∨ rm = .nta)
    (hsem : x.sem = { C15.F120 with rm := rm }) (hc : x.Canonical) (hn : x.cat = .normal)
    (h128 : |x.val| ≤ 128) (fuel : ℕ) (hfuel : 8 ≤ fuel) :
    ∃ r, x.cosFuel fuel = some r ∧ (r.cat = .normal ∨ r.cat = .zero) ∧ r.Canonical ∧
      r.sem = x.sem ∧ |r.val| ≤ 1 ∧
      |((r.val : ℚ) : ℝ) - Real.cos ((x.val : ℚ) : ℝ)| ≤
        max (ulpR x.sem |Real.cos ((x.val : ℚ) : ℝ)|) ((2:ℝ) ^ (-(x.sem.p:ℤ) - 2)) := by
  have hpi : PiOKAt ((x.sem.growLog 14).increaseExponent 4) 8 := by
    rw [hsem]
    rcases hrm with h | h <;> subst h
    · exact piOK_cos_F120_nte
    · exact piOK_cos_F120_nta
  have ht : cosTolNat x.sem.p 2 = true := by
    rw [hsem]; show cosTolNat C15.F120.p 2 = true; decide
  have := cos_accuracy_all x ?_ ?_ ?_ ?_ ?_ hc hn h128 hpi fuel hfuel 2 ht
  · simpa using this
  all_goals rw [hsem]
  · show 2 ≤ C15.F120.e ∧ 2 ≤ C15.F120.p; decide
  · show 8 ≤ C15.F120.p; decide
  · show C15.F120.p ≤ 488; decide
  · show C15.F120.p ≤ 2 ^ (C15.F120.e - 1) - 2; decide
  · rcases hrm with h | h <;> subst h
    · exact Or.inl rfl
    · exact Or.inr rfl

end Arp.C17
