import Arp.Props.C15Ln2
import Arp.Props.C15Concrete
import Arp.Props.C15E
/-! # C15 — every theorem of the property (structure, termination, `ln2` accuracy, `pi`/`e` at the standard formats) -/
