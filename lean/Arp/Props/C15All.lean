import Arp.Props.C15Ln2
import Arp.Props.C15Concrete
import Arp.Props.C15E
import Arp.Props.FuelWide
/-! # C15 — every theorem of the property (structure, termination, `ln2` accuracy, `pi`/`e` at the standard formats) -/
