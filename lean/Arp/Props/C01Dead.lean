import Arp.Lemmas.MulDiv
import Mathlib.Data.Nat.Prime.Basic
/-!
# C01 — the `ExactlyHalf` arm of the division's remainder comparison is dead code

arithmetic.rs:570-585 compares `2·r` with the aligned divisor and has an arm for equality. With the dividend
shifted left by `p - 1` (or `p`) bits and a divisor below `2^p`, `2·r = b` would force `2^p ∣ b`: the arm can never be
taken. (The coverage measurement of the correspondence streams shows the line unexecuted; this is why.)
-/
namespace Arp.C01

theorem two_pow_dvd_of_mul_odd (p b k n : Nat) (h : n * 2 ^ p = (2 * k + 1) * b) : 2 ^ p ∣ b := by
  have hc : Nat.Coprime (2 ^ p) (2 * k + 1) :=
    Nat.Coprime.pow_left p (Nat.coprime_two_left.mpr ⟨k, rfl⟩)
  have hd : 2 ^ p ∣ (2 * k + 1) * b := ⟨n, by rw [← h, Nat.mul_comm]⟩
  exact hc.dvd_of_dvd_mul_left hd

/-- the remainder of the division step is never exactly half the divisor -/
theorem div_remainder_ne_half (am1 bm p : Nat) (hp : 0 < p) (hb0 : 0 < bm) (hb : bm < 2 ^ p) :
    ((am1 <<< (p - 1)) % bm) <<< 1 ≠ bm := by
  intro h
  rw [Nat.shiftLeft_eq, Nat.shiftLeft_eq, Nat.pow_one] at h
  -- am1·2^(p-1) = q·bm + r with 2r = bm  ⇒  am1·2^p = (2q+1)·bm
  have hdiv := Nat.div_add_mod (am1 * 2 ^ (p - 1)) bm
  set q := am1 * 2 ^ (p - 1) / bm
  set r := am1 * 2 ^ (p - 1) % bm
  have hpow : 2 ^ p = 2 ^ (p - 1) * 2 := by
    rw [← Nat.pow_succ]; congr 1; omega
  have key : am1 * 2 ^ p = (2 * q + 1) * bm := by
    rw [hpow, ← Nat.mul_assoc, ← hdiv]
    rw [Nat.add_mul, Nat.add_mul, Nat.one_mul]
    nth_rewrite 3 [← h]
    ring
  have := Nat.le_of_dvd hb0 (two_pow_dvd_of_mul_odd p bm q am1 key)
  omega

/-- `div_normals` never reports the loss `ExactlyHalf` (canonical operands: non-zero significands below `2^p`) -/
theorem divNormals_loss_ne_half (a b : Flt) (hs : b.sem = a.sem) (hp : 0 < a.sem.p)
    (hbm : b.mant ≠ 0) (hbl : b.mant < 2 ^ b.sem.p) :
    (divNormals a b).2 ≠ Loss.half := by
  obtain ⟨_, _, hlo, hhi, _⟩ := align_spec b hbm hbl
  have hb0 : 0 < b.alignMantissa.mant := by
    have := Nat.one_le_two_pow (n := b.sem.p - 1); omega
  rw [hs] at hhi
  unfold divNormals
  simp only
  intro h
  repeat' (split at h)
  all_goals first
    | (cases h; done)
    | (have heq := ‹compare _ _ = Ordering.eq›
       rw [Nat.compare_eq_eq] at heq
       exact div_remainder_ne_half _ _ _ hp hb0 hhi heq)

end Arp.C01
