import Arp.Lemmas.AddSub
/-!
# C01 / C03 — addition and subtraction are correctly rounded

`addWithRm a b rm` / `subWithRm a b rm` (model of `arithmetic.rs: add_sub`) agree with the
specification `Spec.add` / `Spec.sub` — exact rational sum, one rounding, IEEE special-value
table — for canonical operands of every category.
-/
namespace Arp.C01
open Arp

/-- the value of a canonical special (zero) operand -/
theorem val_of_not_normal {x : Flt} (h : x.cat ≠ .normal) : x.val = 0 := by
  unfold Flt.val; cases hc : x.cat <;> simp_all

/-- value of a normal operand, whatever its sign, through `Spec.roundQ` -/
theorem roundQ_normal (x : Flt) (rm : RM) (z : Bool) (hF : x.sem.WF) (hx : x.cat = .normal)
    (hc : x.Canonical) : Spec.roundQ x.sem rm x.val z = .fin x.sign x.exp x.mant := by
  obtain ⟨_, _, h3, _, _⟩ := (Flt.canonical_normal hx).mp hc
  have hmag : 0 < x.mag := by
    rw [Flt.mag_eq]
    have : (0:ℚ) < x.mant := by exact_mod_cast h3
    positivity
  have hr := round_canonical_exact x rm hF hx hc
  unfold Spec.roundQ Flt.val
  rw [hx]
  cases hs : x.sign
  · rw [hs] at hr
    simp only [Bool.false_eq_true, if_false]
    rw [if_neg (ne_of_gt hmag), if_pos hmag, hr]
  · rw [hs] at hr
    simp only [if_true]
    rw [if_neg (by linarith), if_neg (by linarith), neg_neg, hr]

theorem add_correct (a b : Flt) (rm : RM) (hF : a.sem.WF) (hs : b.sem = a.sem)
    (ha : a.Canonical) (hb : b.Canonical) :
    (addWithRm a b rm).toRes = Spec.add a.sem rm a b := by
  obtain ⟨F, sa, ea, A, ca⟩ := a
  obtain ⟨Fb, sb, eb, B, cb⟩ := b
  simp only at hF hs
  subst hs
  unfold addWithRm
  cases ca <;> cases cb
  case normal.normal =>
    have h := addNormals_good Fb rm sa sb ea eb A B hF ha hb
    unfold Good at h
    simpa [addSub, Spec.add, Spec.isNan, Spec.isInf, Spec.isZero] using h
  case zero.normal =>
    have h := roundQ_normal ⟨Fb, sb, eb, B, .normal⟩ rm (rm == .neg) hF rfl hb
    have hb3 := ((Flt.canonical_normal rfl).mp hb).2.2.1
    have hB : B ≠ 0 := by simp only at hb3; omega
    simp only at h
    simp [addSub, Spec.add, Spec.isNan, Spec.isInf, Spec.isZero, Flt.new, hB, Flt.toRes,
      val_of_not_normal (x := ⟨Fb, sa, ea, A, .zero⟩) (by simp), h]
  case normal.zero =>
    have h := roundQ_normal ⟨Fb, sa, ea, A, .normal⟩ rm (rm == .neg) hF rfl ha
    simp only at h
    simp [addSub, Spec.add, Spec.isNan, Spec.isInf, Spec.isZero, Flt.toRes,
      val_of_not_normal (x := ⟨Fb, sb, eb, B, .zero⟩) (by simp), h]
  all_goals
    cases sa <;> cases sb <;>
      simp [addSub, Spec.add, Spec.isNan, Spec.isInf, Spec.isZero, Flt.toRes, Flt.inf, Flt.nan,
        Flt.zero, Flt.val, Spec.roundQ]

/-- `add_or_sub_normals` uses the sign of `b` only to decide between adding and subtracting -/
theorem aos_sub_eq_add_neg (a b : Flt) :
    addOrSubNormals a b true = addOrSubNormals a { b with sign := !b.sign } false := by
  obtain ⟨F, sa, ea, A, ca⟩ := a
  obtain ⟨Fb, sb, eb, B, cb⟩ := b
  have hx : (true ^^ (sa ^^ sb)) = (false ^^ (sa ^^ !sb)) := by cases sa <;> cases sb <;> rfl
  simp only [addOrSubNormals, hx, Flt.shiftSigRight, Flt.shiftSigLeft]
  split_ifs <;> rfl

/-- subtraction is addition of the negated second operand (up to the sign of a NaN) -/
theorem sub_eq_add_neg (a b : Flt) (rm : RM) :
    (subWithRm a b rm).toRes = (addWithRm a { b with sign := !b.sign } rm).toRes := by
  unfold subWithRm addWithRm addSub
  rw [aos_sub_eq_add_neg]
  obtain ⟨F, sa, ea, A, ca⟩ := a
  obtain ⟨Fb, sb, eb, B, cb⟩ := b
  cases ca <;> cases cb <;> cases sa <;> cases sb <;>
    simp [Flt.toRes, Flt.nan, Flt.inf, Flt.zero, Flt.new]

theorem canonical_neg {b : Flt} (hb : b.Canonical) :
    Flt.Canonical { b with sign := !b.sign } := by
  unfold Flt.Canonical Flt.isCanonical at hb ⊢
  exact hb

theorem sub_correct (a b : Flt) (rm : RM) (hF : a.sem.WF) (hs : b.sem = a.sem)
    (ha : a.Canonical) (hb : b.Canonical) :
    (subWithRm a b rm).toRes = Spec.sub a.sem rm a b := by
  rw [sub_eq_add_neg]
  exact add_correct a { b with sign := !b.sign } rm hF hs ha (canonical_neg hb)

/-! ### The hypotheses are satisfiable: `1.0 + 2^-11·(1+2^-10)` in FP16, nearest-even.
The exact sum lies just above the midpoint of `1.0` and its successor, so it rounds up. -/

def exA : Flt := ⟨FP16, false, 0, 1024, .normal⟩
def exB : Flt := ⟨FP16, false, -11, 1025, .normal⟩

example : (addWithRm exA exB .nte).toRes = Spec.add FP16 .nte exA exB :=
  add_correct exA exB .nte ⟨by decide, by decide⟩ rfl
    (show exA.isCanonical = true by decide) (show exB.isCanonical = true by decide)

example : (addWithRm exA exB .nte).toRes = .fin false 0 1025 := by decide

/-! ### C03: the special-value rules for sums and differences -/

/-- a NaN operand gives NaN -/
theorem add_nan (a b : Flt) (rm : RM) (h : a.cat = .nan ∨ b.cat = .nan) :
    (addWithRm a b rm).toRes = .nan ∧ (subWithRm a b rm).toRes = .nan := by
  unfold addWithRm subWithRm addSub
  cases ha : a.cat <;> cases hb : b.cat <;> simp_all [Flt.toRes, Flt.nan]

/-- `inf - inf` and `inf + (-inf)` are NaN -/
theorem inf_sub_inf_nan (a b : Flt) (rm : RM) (ha : a.cat = .inf) (hb : b.cat = .inf) :
    (a.sign = b.sign → (subWithRm a b rm).toRes = .nan) ∧
    (a.sign ≠ b.sign → (addWithRm a b rm).toRes = .nan) := by
  unfold addWithRm subWithRm addSub
  rw [ha, hb]
  cases a.sign <;> cases b.sign <;> simp [Flt.toRes, Flt.nan]

/-- like-signed infinities add to that infinity; unlike-signed ones subtract to the first -/
theorem inf_add_inf (a b : Flt) (rm : RM) (ha : a.cat = .inf) (hb : b.cat = .inf) :
    (a.sign = b.sign → (addWithRm a b rm).toRes = .inf a.sign) ∧
    (a.sign ≠ b.sign → (subWithRm a b rm).toRes = .inf a.sign) := by
  unfold addWithRm subWithRm addSub
  rw [ha, hb]
  cases a.sign <;> cases b.sign <;> simp [Flt.toRes, Flt.inf]

/-- an infinity combined with a finite value is the infinity (negated when it is subtracted) -/
theorem add_inf_finite (a b : Flt) (rm : RM) :
    (a.cat = .inf → Spec.isFin b = true →
      (addWithRm a b rm).toRes = .inf a.sign ∧ (subWithRm a b rm).toRes = .inf a.sign) ∧
    (Spec.isFin a = true → b.cat = .inf →
      (addWithRm a b rm).toRes = .inf b.sign ∧ (subWithRm a b rm).toRes = .inf (!b.sign)) := by
  unfold addWithRm subWithRm addSub Spec.isFin
  cases ha : a.cat <;> cases hb : b.cat <;> simp [Flt.toRes, Flt.inf, ha]

/-- sums of like-signed zeros keep their sign (for a difference: `a` and `-b` like-signed) -/
theorem like_signed_zeros (a b : Flt) (rm : RM) (ha : a.cat = .zero) (hb : b.cat = .zero) :
    (a.sign = b.sign → (addWithRm a b rm).toRes = .zero a.sign) ∧
    (a.sign ≠ b.sign → (subWithRm a b rm).toRes = .zero a.sign) := by
  unfold addWithRm subWithRm addSub
  rw [ha, hb]
  cases a.sign <;> cases b.sign <;> simp [Flt.toRes, Flt.zero]

theorem val_neg (b : Flt) : Flt.val { b with sign := !b.sign } = - b.val := by
  unfold Flt.val Flt.mag
  cases b.cat <;> cases b.sign <;> simp

/-- an exactly cancelling sum of finite operands is `+0`, except `-0` under `Negative`
    (unless both operands are zeros of like sign, see `like_signed_zeros`) -/
theorem exact_zero_sum_sign (a b : Flt) (rm : RM) (hF : a.sem.WF) (hs : b.sem = a.sem)
    (ha : a.Canonical) (hb : b.Canonical) (hfa : Spec.isFin a = true) (hfb : Spec.isFin b = true)
    (hz : a.val + b.val = 0) (hl : ¬ (a.cat = .zero ∧ b.cat = .zero ∧ a.sign = b.sign)) :
    (addWithRm a b rm).toRes = .zero (rm == .neg) := by
  rw [add_correct a b rm hF hs ha hb]
  unfold Spec.isFin at hfa hfb
  unfold Spec.add Spec.isNan Spec.isInf Spec.isZero Spec.roundQ
  rw [hz]
  cases hca : a.cat <;> cases hcb : b.cat <;> simp_all

/-- the same for an exactly cancelling difference -/
theorem exact_zero_diff_sign (a b : Flt) (rm : RM) (hF : a.sem.WF) (hs : b.sem = a.sem)
    (ha : a.Canonical) (hb : b.Canonical) (hfa : Spec.isFin a = true) (hfb : Spec.isFin b = true)
    (hz : a.val - b.val = 0) (hl : ¬ (a.cat = .zero ∧ b.cat = .zero ∧ a.sign ≠ b.sign)) :
    (subWithRm a b rm).toRes = .zero (rm == .neg) := by
  rw [sub_eq_add_neg]
  refine exact_zero_sum_sign a { b with sign := !b.sign } rm hF hs ha (canonical_neg hb) hfa hfb
    (by rw [val_neg]; linarith) ?_
  intro h
  apply hl
  refine ⟨h.1, h.2.1, ?_⟩
  have := h.2.2
  simp only at this
  cases hb' : b.sign <;> simp_all

end Arp.C01
