import Arp.Props.C15
import Arp.Props.C16Log
import Arp.Props.C18Pow
/-!
# The model's inner fuel is not a restriction in practice

`innerFuel = 2^62` bounds the model's inner `sqrt`/`rem` loops (the Rust loops are unbounded).  The side
conditions `hinner`/`hin` of `log_accuracy`, `pow_accuracy` and `pi_terminates` say that this budget suffices;
here they are discharged for every format whose exponent field has at most 60 (`log`, `pi`) / 50 (`pow`) bits
and whose precision is below `2^32` (`2^31` for `pow`) — far beyond anything that can be evaluated.
-/
namespace Arp

theorem two_pow_le_of_le {a b : Nat} (h : a ≤ b) : 2 ^ a ≤ 2 ^ b := Nat.pow_le_pow_right (by norm_num) h

namespace C16
/-- `log_accuracy`'s side condition for every format with `e ≤ 60`, `p < 2^32` -/
theorem log_inner_ok (F : Sem) (he : F.e ≤ 60) (hp : F.p < 2 ^ 32) :
    2 ^ (F.e - 1) + 3 * F.p + 32 ≤ innerFuel := by
  have h : 2 ^ (F.e - 1) ≤ 2 ^ 59 := two_pow_le_of_le (by omega)
  unfold innerFuel
  generalize 2 ^ (F.e - 1) = t at *
  omega

/-- **`log` is within two ulps, every mode, every format of the domain with `8 ≤ p < 2^32`, `e ≤ 60`** -/
theorem log_accuracy_wide (x : Flt) (hF : x.sem.WF) (hp : 8 ≤ x.sem.p)
    (hdom : x.sem.p ≤ 2 ^ (x.sem.e - 1) - 2) (hp64 : x.sem.p < 2 ^ 32) (he : x.sem.e ≤ 60)
    (hc : x.Canonical) (hn : x.cat = .normal) (hs : x.sign = false) (hne : x.val ≠ 1)
    (fuel : Nat) (hfuel : x.sem.e + 13 ≤ fuel) :
    ∃ r, x.logFuel fuel = some r ∧ r.cat = .normal ∧ r.Canonical ∧ r.sem = x.sem ∧
      r.sign = decide (x.val < 1) ∧
      ∀ k : ℤ, |Real.log ((x.val : ℚ) : ℝ)| < (2:ℝ) ^ (k + 1) →
        |((r.val : ℚ) : ℝ) - Real.log ((x.val : ℚ) : ℝ)| ≤ 2 * ((LogErr.ulpAt x.sem k : ℚ) : ℝ) :=
  log_accuracy x hF hp hdom hp64 (log_inner_ok x.sem he hp64) hc hn hs hne fuel hfuel
end C16

namespace C18
/-- `pow_accuracy`'s side condition for every format with `e ≤ 50`, `p < 2^31` -/
theorem pow_inner_ok (F : Sem) (he : F.e ≤ 50) (hp : F.p < 2 ^ 31) :
    2 ^ (F.e + 9) + 3 * (F.p + 10 + F.logPrecision) + 32 ≤ innerFuel := by
  have h : 2 ^ (F.e + 9) ≤ 2 ^ 59 := two_pow_le_of_le (by omega)
  have hl : F.logPrecision ≤ 32 := by
    unfold Sem.logPrecision
    split
    · omega
    · have : Nat.log2 F.p < 32 := by
        rw [Nat.log2_lt (by omega)]; omega
      omega
  unfold innerFuel
  generalize 2 ^ (F.e + 9) = t at *
  omega

/-- **`pow` is within one ulp (11/16), nearest modes, every format of the domain with `8 ≤ p < 2^31`, `e ≤ 50`** -/
theorem pow_accuracy_wide (x y : Flt) (hF : x.sem.WF) (hy : y.sem = x.sem) (hp : 8 ≤ x.sem.p)
    (hdom : x.sem.p ≤ 2 ^ (x.sem.e - 1) - 2) (hp64 : x.sem.p < 2 ^ 31) (he : x.sem.e ≤ 50)
    (hrm : x.sem.rm = .nte ∨ x.sem.rm = .nta) (hxc : x.Canonical) (hyc : y.Canonical)
    (hxn : x.cat = .normal) (hxs : x.sign = false) (hyn : y.cat = .normal) (hx1 : x.val ≠ 1)
    (hdomain : |((y.val : ℚ) : ℝ) * Real.log ((x.val : ℚ) : ℝ)| ≤ 512)
    (fuel : ℕ) (hfuel : x.sem.e + 23 ≤ fuel) :
    ∃ r, x.powFuel fuel y = some r ∧ r.Canonical ∧ r.sem = x.sem ∧ r.sign = false ∧
      ((r.cat = .inf ∧ ((Arp.maxFinite x.sem : ℚ) : ℝ) * (1 - (2:ℝ) ^ (-(x.sem.p:ℤ))) <
          ((x.val : ℚ) : ℝ) ^ ((y.val : ℚ) : ℝ)) ∨
        (r.cat = .zero ∧
          ((x.val : ℚ) : ℝ) ^ ((y.val : ℚ) : ℝ) < (2:ℝ) ^ (x.sem.emin - ((x.sem.p:ℤ) - 1))) ∨
        (r.cat = .normal ∧ C16.WithinUlps r (((x.val : ℚ) : ℝ) ^ ((y.val : ℚ) : ℝ)) (11 / 16) ∧
          C16.WithinUlps r (((x.val : ℚ) : ℝ) ^ ((y.val : ℚ) : ℝ)) 1)) ∧
      ((2:ℝ) ^ (x.sem.emax + 1) ≤ ((x.val : ℚ) : ℝ) ^ ((y.val : ℚ) : ℝ) → r.cat = .inf) :=
  pow_accuracy x y hF hy hp hdom hp64 hrm hxc hyc hxn hxs hyn hx1 hdomain (pow_inner_ok x.sem he hp64) fuel hfuel
end C18

namespace C15
/-- `pi_terminates`' side condition for every format with `e ≤ 60`, `p < 2^32` -/
theorem pi_inner_ok (F : Sem) (hF : F.WF) (he : F.e ≤ 60) (hp : F.p < 2 ^ 32) :
    (2 * F.emax - F.emin).toNat + 2 * (F.growLog 4).p + 20 ≤ innerFuel := by
  have h1 : 1 ≤ F.e := by have := hF.1; omega
  rw [Sem.emax_eq h1, Sem.emin_eq]
  have hpow : 2 ^ (F.e - 1) ≤ 2 ^ 59 := two_pow_le_of_le (by omega)
  have hlog : Nat.log2 F.p < 32 := by
    have := hF.2
    rw [Nat.log2_lt (by omega)]; omega
  have hG : (F.growLog 4).p ≤ F.p + 4 + 32 := by
    simp only [Sem.growLog, Sem.logPrecision]
    split <;> omega
  unfold innerFuel
  generalize 2 ^ (F.e - 1) = P at *
  omega

/-- **`pi` terminates in every mode for every format with `e ≤ 60`, `p < 2^32`** -/
theorem pi_terminates_wide (F : Sem) (hF : F.WF) (he : F.e ≤ 60) (hp : F.p < 2 ^ 32) :
    ∃ fuel r, piFuel fuel F = some r :=
  pi_terminates F hF (pi_inner_ok F hF he hp)
end C15

end Arp
