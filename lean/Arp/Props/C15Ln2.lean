import Arp.Lemmas.Ln2
import Arp.Props.C15
/-!
# C15 — accuracy of `Float::ln2` against the real number `log 2`

Main results (all for `F.WF`, `8 ≤ p`, `p + 8 < 2^64`, `p ≤ 2^(e-1) - 2`, every mode):
* `ln2_core`: the loop leaves a `p+8`-bit value `v ∈ [1/2, log 2]` with
  `log 2 - v ≤ (p + 138)/256` ulps, and the result is `round_p(v)` under the format's mode;
* `ln2_accuracy_sharp`: error `< 1 + (p + 138)/256` ulps;
* `ln2_accuracy_nearest`: error `≤ 1/2 + (p + 138)/256` ulps for `nte`/`nta`;
* `ln2_accuracy`: positive, normal, error `≤ 2 + p/256` ulps (the statement of C15).

Error budget, in units of `η = 2^-(p+8)` (one ulp of the working format in `[1/2, 1)`):
truncation of the partial sums `≤ (p+7)·η` (at most `p + 7` additions change the sum: the loop
stops at iteration `k ≤ p + 8`), truncation of the terms `≤ 2η + η` (relative `2^-(p+7)` of a sum
`< 1`, plus the subnormal terms), neglected tail `≤ 128·η`: either the first unchanged sum came
from a term `< η` (tail `< 2η`), or `k·2^k` overflowed the exponent range (`+∞` divisor, term
`+0`), which under `p ≤ emax - 1` leaves a tail `≤ 2^-emax ≤ 2^-(p+1)`.  The final cast adds less
than one ulp `= 256·η`.
-/

namespace Arp.C15
open Arp Arp.SpecRound Arp.Ln2

/-- the accumulated error at the exit of the loop, against the real number `log 2` -/
theorem exit_bound {G : Sem} (hR : Rng G) {j : Nat} {v : ℚ} (h : LInv G j v) (hj : j + 1 ≤ G.p)
    (hq : q (j + 1) ≤ 64 * eta G) :
    ((v : ℚ) : ℝ) ≤ Real.log 2 ∧
      Real.log 2 - ((v : ℚ) : ℝ) ≤ ((G.p : ℝ) + 130) * ((eta G : ℚ) : ℝ) := by
  have heta := eta_pos G
  have hdel := delta_pos G
  have hS1 := S_lt_one j
  have hS0 : 0 ≤ S j := le_trans (by norm_num) (le_trans h.half h.le)
  -- rational part: `S j - v ≤ (p + 2)·η`
  have hrat : S j - v ≤ ((G.p : ℚ) + 2) * eta G := by
    have herr := h.err
    have hpd := p_mul_delta_le hR
    have hjp : (j : ℚ) + 1 ≤ (G.p : ℚ) := by exact_mod_cast hj
    have hj0 : (0:ℚ) ≤ (j:ℚ) := Nat.cast_nonneg j
    rw [u_eq_eta] at herr
    have h1 : (j:ℚ) * eta G ≤ ((G.p:ℚ) - 1) * eta G :=
      mul_le_mul_of_nonneg_right (by linarith) (le_of_lt heta)
    have h2 : (j:ℚ) * delta G ≤ (G.p:ℚ) * delta G :=
      mul_le_mul_of_nonneg_right (by linarith) (le_of_lt hdel)
    have h3 : 2 * eta G * S j ≤ 2 * eta G := by nlinarith
    nlinarith
  have hreal : ((S j : ℚ) : ℝ) - ((v : ℚ) : ℝ) ≤ ((G.p : ℝ) + 2) * ((eta G : ℚ) : ℝ) := by
    have : ((S j - v : ℚ) : ℝ) ≤ ((((G.p : ℚ) + 2) * eta G : ℚ) : ℝ) := by exact_mod_cast hrat
    push_cast at this; exact this
  have hle : ((v : ℚ) : ℝ) ≤ ((S j : ℚ) : ℝ) := by exact_mod_cast h.le
  have htail := log2_sub_S_le j
  have hq' : ((q (j + 1) : ℚ) : ℝ) ≤ 64 * ((eta G : ℚ) : ℝ) := by
    have : ((q (j + 1) : ℚ) : ℝ) ≤ ((64 * eta G : ℚ) : ℝ) := by exact_mod_cast hq
    push_cast at this; exact this
  constructor
  · exact le_trans hle (S_le_log2 j)
  · linarith

/-- `log 2 < 3/4`, from the series itself -/
theorem log2_lt_three_quarters : Real.log 2 < 3/4 := by
  have h := log2_sub_S_le 2
  have e1 : S 2 = 5/8 := by rw [S_succ, S_succ, S_zero]; norm_num [q]
  have e2 : q 3 = 1/24 := by norm_num [q]
  rw [e1, e2] at h
  push_cast at h
  linarith

/-- the working format of `ln2` satisfies the range conditions -/
theorem rng_of_dom (F : Sem) (hF : F.WF) (hp : 8 ≤ F.p) (hp64 : F.p + 8 < 2 ^ 64)
    (hdom : F.p ≤ 2 ^ (F.e - 1) - 2) : Rng (F.increasePrecision 8) := by
  have he : 1 ≤ F.e := by have := hF.1; omega
  have hmax : (F.increasePrecision 8).emax = F.emax := rfl
  have hmin : (F.increasePrecision 8).emin = F.emin := rfl
  refine ⟨Sem.increasePrecision_WF hF 8, ?_, hp64, ?_, ?_⟩
  · show 16 ≤ F.p + 8; omega
  · rw [hmax, Sem.emax_eq he]
    show ((F.p + 8 : Nat) : ℤ) ≤ _
    omega
  · rw [hmin, hmax, Sem.emax_eq he, Sem.emin_eq]; ring

/-- `3/4` is representable -/
theorem three_quarters_isRep {F : Sem} (hp : 2 ≤ F.p) (hmin : F.emin ≤ -1) (hmax : -1 ≤ F.emax) :
    IsRep F (3/4) := by
  obtain ⟨n, hn⟩ : ∃ n, F.p = n + 2 := ⟨F.p - 2, by omega⟩
  refine ⟨-1, 3 * 2 ^ n, hmin, hmax, ?_, Or.inl ?_, ?_⟩
  · have := Nat.one_le_two_pow (n := n); rw [hn, Nat.pow_add]; omega
  · have := Nat.one_le_two_pow (n := n); rw [hn, show n + 2 - 1 = n + 1 by omega, Nat.pow_succ]; omega
  · rw [hn]
    push_cast
    rw [show (-1:ℤ) - ((n:ℤ) + 2 - 1) = -((n:ℤ) + 2) by ring, zpow_neg, ← zpow_natCast]
    rw [zpow_add₀ (by norm_num : (2:ℚ) ≠ 0)]
    field_simp
    norm_num

/-- **Core of the accuracy proof.**  The loop of `ln2` leaves a `p+8`-bit value `v` with
    `1/2 ≤ v ≤ log 2` and `log 2 - v ≤ (p + 138)/256` ulps (`ulp = 2^-p`); the result is the
    rounding of `v` to `p` bits under the format's own mode, a positive normal number with
    exponent field `-1`. -/
theorem ln2_core (F : Sem) (hF : F.WF) (hp : 8 ≤ F.p) (hp64 : F.p + 8 < 2 ^ 64)
    (hdom : F.p ≤ 2 ^ (F.e - 1) - 2) :
    ∃ (v : ℚ) (m : Nat), 1/2 ≤ v ∧ ((v : ℚ) : ℝ) ≤ Real.log 2 ∧
      Real.log 2 - ((v : ℚ) : ℝ) ≤ ((F.p : ℝ) + 138) / 256 * (2:ℝ) ^ (-(F.p : ℤ)) ∧
      Spec.round F F.rm false v = .fin false (-1) m ∧
      (ln2Const F).cat = .normal ∧ (ln2Const F).sign = false ∧
      (ln2Const F).val = (m : ℚ) * (2:ℚ) ^ (-(F.p : ℤ)) := by
  set r := ln2Const F with hrdef
  set G := F.increasePrecision 8 with hGdef
  have hR : Rng G := rng_of_dom F hF hp hp64 hdom
  have hG := hR.wf
  have hGp : G.p = F.p + 8 := rfl
  -- the loop
  have hT1 : 500 ≤ Nat.max 500 (G.p + 8) := Nat.le_max_left _ _
  have hT2 : G.p + 8 ≤ Nat.max 500 (G.p + 8) := Nat.le_max_right _ _
  obtain ⟨n, hn⟩ : ∃ n, Nat.max 500 (G.p + 8) - 1 = n + 1 :=
    ⟨Nat.max 500 (G.p + 8) - 2, by omega⟩
  have hfuel : G.p ≤ n + 1 := by omega
  obtain ⟨hfirst, hhalf⟩ := loop_first hR n
  obtain ⟨v, j, hv, hinv, hj1, hjP, hq⟩ :=
    loop_spec hR n 1 _ _ (le_refl 1) (by have := hR.p16; omega) hfuel hhalf (inv_one hR)
  rw [← hfirst, ← hn] at hv
  set x := ln2Loop G (Flt.one G false) (Nat.max 500 (G.p + 8) - 1) 1 (Flt.zero G false)
    (Flt.inf G true) with hx
  have hr : r = x.castWithRm F F.rm := by
    show ln2Const F = _
    unfold ln2Const Flt.cast
    simp only [← hGdef, ← hx]
    rw [hv.sem]
    rfl
  obtain ⟨hvle, hverr⟩ := exit_bound hR hinv hjP hq
  have hvhalf := hinv.half
  have hvpos : 0 < v := by linarith
  have hxn := hv.normal_of_pos hvpos
  have hv34 : v ≤ 3/4 := by
    have := log2_lt_three_quarters
    have h' : ((v : ℚ) : ℝ) ≤ ((3/4 : ℚ) : ℝ) := by push_cast; linarith
    exact_mod_cast h'
  -- the final cast
  have hFp := hF.2
  have hemax : 9 ≤ F.emax := hR.emax_ge
  have hemin : F.emin ≤ -8 := hR.emin_le
  have hcor := C06.cast_correct x F F.rm (by rw [hv.sem]; exact hG) hF hv.can
  have hspec : Spec.cast F F.rm x = Spec.round F F.rm false v := by
    simp only [Spec.cast, hxn, hv.sign hxn, hv.mag hxn]
  rw [hspec, ← hr] at hcor
  have hnorm : (2:ℚ) ^ F.emin ≤ v := by
    have : (2:ℚ) ^ F.emin ≤ (2:ℚ) ^ (-1:ℤ) := zpow_le_zpow_right₀ (by norm_num) (by omega)
    have e : (2:ℚ) ^ (-1:ℤ) = 1/2 := by norm_num
    rw [e] at this
    linarith
  have hmaxf : v ≤ maxFinite F := by
    have h1 := pow_emax_le_maxFinite (F := F) (by omega)
    have : (2:ℚ) ^ (0:ℤ) ≤ (2:ℚ) ^ F.emax := zpow_le_zpow_right₀ (by norm_num) (by omega)
    rw [zpow_zero] at this; linarith
  obtain ⟨e, m, hfin⟩ := RelErr.round_fin_of_range hF F.rm false hnorm hmaxf
  obtain ⟨_, hm1, hm2, hm3, hm4, hm5⟩ := round_mem hF hvpos F.rm false hfin
  -- the result lies between the roundings of `1/2` and `3/4`, which are exact
  have hrep12 : IsRep F (1/2) := by
    have := isRep_pow2 hF (-1) (by omega) (by omega)
    norm_num at this; exact this
  have hrep34 : IsRep F (3/4) := three_quarters_isRep hFp (by omega) (by omega)
  obtain ⟨e1, m1, hr1, hv1⟩ := round_exact hF (by norm_num : (0:ℚ) < 1/2) hrep12 F.rm false
  obtain ⟨e2, m2, hr2, hv2⟩ := round_exact hF (by norm_num : (0:ℚ) < 3/4) hrep34 F.rm false
  have hlo := round_mono hF (by norm_num : (0:ℚ) < 1/2) hvhalf F.rm false
  have hhi := round_mono hF hvpos hv34 F.rm false
  rw [hfin, hr1] at hlo
  rw [hfin, hr2] at hhi
  simp only [Res.key, WithTop.coe_le_coe] at hlo hhi
  rw [hv1] at hlo
  rw [hv2] at hhi
  have hu := F.ulp_pos e
  rw [← Sem.ulp_def] at hlo hhi
  have he : e = -1 := by
    by_contra hne
    rcases lt_or_gt_of_ne hne with hlt | hgt
    · -- below `1/2`
      have hmq : (m:ℚ) < (2:ℚ) ^ F.p := by exact_mod_cast hm4
      have h1 : (m:ℚ) * F.ulp e < (2:ℚ) ^ (e + 1) := by
        rw [← F.pow_mul_ulp e]; exact mul_lt_mul_of_pos_right hmq hu
      have h2 : (2:ℚ) ^ (e + 1) ≤ (2:ℚ) ^ (-1:ℤ) := zpow_le_zpow_right₀ (by norm_num) (by omega)
      have e' : (2:ℚ) ^ (-1:ℤ) = 1/2 := by norm_num
      rw [e'] at h2
      linarith
    · -- at least `1`
      have hmn : 2 ^ (F.p - 1) ≤ m := by
        rcases hm5 with h | h
        · exact h
        · omega
      have hmq : (2:ℚ) ^ (F.p - 1) ≤ (m:ℚ) := by exact_mod_cast hmn
      have h1 : (2:ℚ) ^ e ≤ (m:ℚ) * F.ulp e := by
        rw [← F.half_pow_mul_ulp (by omega) e]; exact mul_le_mul_of_nonneg_right hmq (le_of_lt hu)
      have h2 : (2:ℚ) ^ (0:ℤ) ≤ (2:ℚ) ^ e := zpow_le_zpow_right₀ (by norm_num) (by omega)
      rw [zpow_zero] at h2
      linarith
  subst he
  have hcor' := hcor
  rw [hfin] at hcor'
  obtain ⟨hc, hsg, hex, hma⟩ := RelErr.toRes_fin hcor'
  have hrsem : r.sem = F := ln2Const_sem F
  have hpow : (2:ℚ) ^ ((-1:ℤ) - ((F.p:ℤ) - 1)) = (2:ℚ) ^ (-(F.p:ℤ)) := by congr 1; ring
  have hval : r.val = (m:ℚ) * (2:ℚ) ^ (-(F.p:ℤ)) := by
    rw [Flt.val_normal hc, hsg, Flt.mag_eq, hrsem, hex, hma, hpow]; simp
  refine ⟨v, m, hvhalf, hvle, ?_, hfin, hc, hsg, hval⟩
  have heta : ((eta G : ℚ) : ℝ) = (2:ℝ) ^ (-(F.p:ℤ)) / 256 := by
    unfold eta
    rw [hGp]
    push_cast
    rw [show -((F.p:ℤ) + 8) = -(F.p:ℤ) + (-8) by ring, zpow_add₀ (by norm_num : (2:ℝ) ≠ 0)]
    norm_num
    ring
  have hGpr : (G.p : ℝ) = (F.p : ℝ) + 8 := by rw [hGp]; push_cast; ring
  rw [heta, hGpr] at hverr
  linarith

/-- rounding error of the final cast, in ℝ -/
theorem cast_real {F : Sem} {m : Nat} {v b : ℚ}
    (h : |(m:ℚ) * (2:ℚ) ^ ((-1:ℤ) - ((F.p:ℤ) - 1)) - v| < b) :
    |(((m:ℚ) * (2:ℚ) ^ (-(F.p:ℤ)) : ℚ) : ℝ) - ((v:ℚ):ℝ)| < ((b:ℚ):ℝ) := by
  have hpow : (2:ℚ) ^ ((-1:ℤ) - ((F.p:ℤ) - 1)) = (2:ℚ) ^ (-(F.p:ℤ)) := by congr 1; ring
  rw [hpow] at h
  have : ((|(m:ℚ) * (2:ℚ) ^ (-(F.p:ℤ)) - v| : ℚ) : ℝ) < ((b:ℚ):ℝ) := by exact_mod_cast h
  rwa [Rat.cast_abs, Rat.cast_sub] at this

theorem ulp_cast (F : Sem) :
    (((2:ℚ) ^ ((-1:ℤ) - ((F.p:ℤ) - 1)) : ℚ) : ℝ) = (2:ℝ) ^ (-(F.p:ℤ)) := by
  have hpow : (2:ℚ) ^ ((-1:ℤ) - ((F.p:ℤ) - 1)) = (2:ℚ) ^ (-(F.p:ℤ)) := by congr 1; ring
  rw [hpow]; push_cast; rfl

/-- **C15, accuracy of `ln2`, sharp form**: strictly less than `1 + (p + 138)/256` ulps in every
    mode (`ulp = 2^-p`; the result lies in `[1/2, 1)`). -/
theorem ln2_accuracy_sharp (F : Sem) (hF : F.WF) (hp : 8 ≤ F.p) (hp64 : F.p + 8 < 2 ^ 64)
    (hdom : F.p ≤ 2 ^ (F.e - 1) - 2) :
    |(((ln2Const F).val : ℚ) : ℝ) - Real.log 2| <
      (1 + ((F.p : ℝ) + 138) / 256) * (2:ℝ) ^ (-(F.p : ℤ)) := by
  obtain ⟨v, m, hvhalf, hvle, hverr, hfin, _, _, hval⟩ := ln2_core F hF hp hp64 hdom
  have hvpos : 0 < v := by linarith
  have hlt : v < (2:ℚ) ^ (F.emax + 1) := by
    have : (1:ℚ) ≤ (2:ℚ) ^ (F.emax + 1) :=
      one_le_zpow₀ (by norm_num) (by have := Sem.emax_pos hF; omega)
    have h' : ((v : ℚ) : ℝ) < ((1 : ℚ) : ℝ) := by
      have := log2_lt_three_quarters; push_cast; linarith
    have : v < 1 := by exact_mod_cast h'
    linarith
  have hw := cast_real (within_ulp_partial hF hvpos F.rm false (fun _ => hlt) hfin)
  rw [ulp_cast] at hw
  rw [hval]
  rw [abs_lt] at hw ⊢
  constructor <;> linarith [hw.1, hw.2]

/-- **C15, accuracy of `ln2`, nearest modes**: at most `1/2 + (p + 138)/256` ulps. -/
theorem ln2_accuracy_nearest (F : Sem) (hF : F.WF) (hp : 8 ≤ F.p) (hp64 : F.p + 8 < 2 ^ 64)
    (hdom : F.p ≤ 2 ^ (F.e - 1) - 2) (hrm : F.rm = .nte ∨ F.rm = .nta) :
    |(((ln2Const F).val : ℚ) : ℝ) - Real.log 2| ≤
      (1/2 + ((F.p : ℝ) + 138) / 256) * (2:ℝ) ^ (-(F.p : ℤ)) := by
  obtain ⟨v, m, hvhalf, hvle, hverr, hfin, _, _, hval⟩ := ln2_core F hF hp hp64 hdom
  have hvpos : 0 < v := by linarith
  have hh := within_half_ulp hF hvpos hrm false hfin
  have hpow : (2:ℚ) ^ ((-1:ℤ) - ((F.p:ℤ) - 1)) = (2:ℚ) ^ (-(F.p:ℤ)) := by congr 1; ring
  rw [hpow] at hh
  have hw : |(((m:ℚ) * (2:ℚ) ^ (-(F.p:ℤ)) : ℚ) : ℝ) - ((v:ℚ):ℝ)| ≤ (2:ℝ) ^ (-(F.p:ℤ)) / 2 := by
    have : ((|(m:ℚ) * (2:ℚ) ^ (-(F.p:ℤ)) - v| : ℚ) : ℝ) ≤ (((2:ℚ) ^ (-(F.p:ℤ)) / 2 : ℚ) : ℝ) := by
      exact_mod_cast hh
    rw [Rat.cast_abs, Rat.cast_sub] at this
    push_cast at this ⊢
    exact this
  rw [hval]
  rw [abs_le] at hw ⊢
  constructor <;> linarith [hw.1, hw.2]

/-- **C15, accuracy of `ln2`** (the loop runs in `p + 8` bits, truncating; the result is cast to
    `p` bits under the format's own mode): for every format whose precision does not exceed its
    exponent range, in every rounding mode, the result is a positive normal number within
    `2 + p/256` ulps (`ulp = 2^-p`, the result lies in `[1/2, 1)`) of the real number `log 2`.

    `hp64` (`p + 8 < 2^64`) is the range in which the model's `fromU64 k` is the Rust
    `from_u64(k as u64)`; precisions are `usize` in the crate. -/
theorem ln2_accuracy (F : Sem) (hF : F.WF) (hp : 8 ≤ F.p) (hp64 : F.p + 8 < 2 ^ 64)
    (hdom : F.p ≤ 2 ^ (F.e - 1) - 2) :
    let r := ln2Const F
    r.cat = .normal ∧ r.sign = false ∧
    |((r.val : ℚ) : ℝ) - Real.log 2| ≤ (2 + (F.p : ℝ) / 256) * (2:ℝ) ^ (-(F.p : ℤ)) := by
  intro r
  obtain ⟨v, m, _, _, _, _, hc, hsg, _⟩ := ln2_core F hF hp hp64 hdom
  refine ⟨hc, hsg, ?_⟩
  have h := ln2_accuracy_sharp F hF hp hp64 hdom
  have hU : (0:ℝ) < (2:ℝ) ^ (-(F.p:ℤ)) := by positivity
  have : (1 + ((F.p : ℝ) + 138) / 256) * (2:ℝ) ^ (-(F.p : ℤ)) ≤
      (2 + (F.p : ℝ) / 256) * (2:ℝ) ^ (-(F.p : ℤ)) :=
    mul_le_mul_of_nonneg_right (by linarith) (le_of_lt hU)
  exact le_of_lt (lt_of_lt_of_le h this)

/-
-- NOT PROVED

* `ln2_accuracy` without the hypothesis `hp64 : F.p + 8 < 2 ^ 64`, i.e. exactly as posed:

    theorem ln2_accuracy' (F : Sem) (hF : F.WF) (hp : 8 ≤ F.p) (hdom : F.p ≤ 2 ^ (F.e - 1) - 2) :
        let r := ln2Const F
        r.cat = .normal ∧ r.sign = false ∧
        |((r.val : ℚ) : ℝ) - Real.log 2| ≤ (2 + (F.p : ℝ) / 256) * (2:ℝ) ^ (-(F.p : ℤ))

  The loop loads the counter with `fromU64 sem2 k`, which goes through binary128
  (`fromBigint FP128 k`) and is only characterised for `k < 2^64` (`C08.fromU64_correct`, the
  range of the Rust `u64` argument).  The loop reaches `k ≈ p + 8 - log₂ p`, so `p + 8 < 2^64`
  is what makes every load exact.  For `p + 8 ≥ 2^113` the model rounds `k` to 113 bits (to
  nearest), the terms are no longer one-sided truncations of `1/(k·2^k)` and the statement is
  most likely false there (relative perturbation `2^-113` of terms that are far above `2^-(p+8)`);
  no concrete counter-example is given because such formats cannot be evaluated.  Precisions
  are `usize` in the crate, so `hp64` holds for every format that can be constructed on a
  64-bit target (up to the 8 guard bits).
-/

/-! ### the hypotheses hold for the presets -/

example := ln2_accuracy FP16 (by decide) (by decide) (by decide) (by decide)
example := ln2_accuracy FP32 (by decide) (by decide) (by decide) (by decide)
example := ln2_accuracy FP64 (by decide) (by decide) (by decide) (by decide)
example := ln2_accuracy FP128 (by decide) (by decide) (by decide) (by decide)
example := ln2_accuracy FP256 (by decide) (by decide) (by decide) (by decide)
example := ln2_accuracy_nearest FP64 (by decide) (by decide) (by decide) (by decide) (Or.inl rfl)

end Arp.C15
