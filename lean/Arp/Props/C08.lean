import Arp.Props.C08Load
import Arp.Props.C08ToI64
/-! # C08 — integer conversions (loads in `C08Load.lean`, `to_i64` in `C08ToI64.lean`) -/
