import Arp.Lemmas.PowiErr
import Arp.Props.C18
/-!
# C18 — accuracy of `powi` / `sqr`

`x.powi n` runs square-and-multiply in the internal format `G = powiSem F` (two more
significand bits, every product rounded TO NEAREST) and rounds the result once back to `F` in
the format's own mode.  With `X = |x|`, `δ = powiD F = 2^(-(p+2))` (relative unit of the
internal roundings) and `u = powiU p rm` (`2^(1-p)` in general, `2^(-p)` in `nte`/`nta`):

* `Pw`, `pw_mul`, `powiLoop_pw` : loop invariant — every intermediate is a normal number of `G`
  enclosing the exact power `X^(k+1)` through `k` relative perturbations `≤ δ`;
* `powi_main`  : anatomy of the result (category, sign, enclosure, last rounding);
* `powi_rel`   : `(1-u)(1-δ)^(n-1)·X^n ≤ |powi x n| ≤ (1+u)(1+δ)^(n-1)·X^n`;
* `powi_ulp`   : `|powi x n − x^n|·(1-(n-1)δ) < ((1-(n-1)δ) + (n-1)/4)·ulp` in every mode and
  `≤ ((1-(n-1)δ)/2 + (n-1)/4)·ulp` in the nearest modes, `ulp` = ulp of the RESULT;
* `powi_within` : `< (1 + n/4)·ulp` in every mode, `powi_within_nearest` : `≤ (1/2 + n/4)·ulp`
  in `nte`/`nta`, both for `n² ≤ 2^(p+2)`;
* `sqr_error`, `sqr_within_one_ulp_nearest`, `sqr_within_directed` : `< 9/8 ulp` in every mode,
  `≤ 5/8 ulp` in the nearest modes, under the plain hypothesis "x² is a normal number of F".
The hypotheses `PowiOK` keep every intermediate in the normal range WITH the slack for the
accumulated error; without slack the result can be an infinity although `x^n` is a normal
number (see the end of the file).
-/
namespace Arp.C18
open Arp

/-! ### plumbing -/

theorem powi_toRes_fin {y : Flt} {s : Bool} {e : Int} {m : Nat} (h : y.toRes = .fin s e m) :
    y.cat = .normal ∧ y.sign = s ∧ y.exp = e ∧ y.mant = m := by
  unfold Flt.toRes at h
  cases hc : y.cat <;> rw [hc] at h <;> simp only [reduceCtorEq] at h
  injection h with h1 h2 h3
  exact ⟨rfl, h1, h2, h3⟩

theorem powiInnerRm_nearest (rm : RM) : powiInnerRm rm = .nte ∨ powiInnerRm rm = .nta := by
  cases rm <;> simp [powiInnerRm]

theorem powiSem_emin (F : Sem) : (powiSem F).emin = F.emin := rfl
theorem powiSem_emax (F : Sem) : (powiSem F).emax = F.emax := rfl
theorem powiSem_p (F : Sem) : (powiSem F).p = F.p + 2 := rfl
theorem powiSem_rm (F : Sem) : (powiSem F).rm = powiInnerRm F.rm := rfl
theorem powiSem_ulp (F : Sem) (e : Int) : (powiSem F).ulp e = F.ulp e / 4 := ulp_incp2 F e
theorem powiSem_maxFinite (F : Sem) : maxFinite F ≤ maxFinite (powiSem F) := maxFinite_le_incp2 F

/-- the relative unit of the internal format is `δ = 2^(-(p+2))` in every mode of `F` -/
theorem powiSem_unit (F : Sem) : powiU (powiSem F).p (powiSem F).rm = powiD F :=
  powiD_eq F (powiInnerRm_nearest F.rm)

/-- one product of two normal numbers of `G` whose exact product `q` lies in
    `[2^emin, maxFinite]`: normal result, relative error at most `powiU G.p G.rm`, absolute error
    below one ulp (half an ulp in the nearest modes) of the result, `q < 2^(exp+1)` -/
theorem mul_step_full (G : Sem) (hG : G.WF) (a b : Flt) (ha : a.sem = G) (hb : b.sem = G)
    (hac : a.Canonical) (hbc : b.Canonical) (han : a.cat = .normal) (hbn : b.cat = .normal)
    (hlo : (2:ℚ) ^ G.emin ≤ a.mag * b.mag) (hhi : a.mag * b.mag ≤ maxFinite G) :
    (a.mul b).sem = G ∧ (a.mul b).Canonical ∧ (a.mul b).cat = .normal ∧
      (a.mul b).sign = (a.sign ^^ b.sign) ∧
      |(a.mul b).mag - a.mag * b.mag| ≤ powiU G.p G.rm * (a.mag * b.mag) ∧
      G.emin ≤ (a.mul b).exp ∧ (a.mul b).exp ≤ G.emax ∧
      2 ^ (G.p - 1) ≤ (a.mul b).mant ∧ (a.mul b).mant < 2 ^ G.p ∧
      (a.mul b).mag = ((a.mul b).mant : ℚ) * G.ulp (a.mul b).exp ∧
      |(a.mul b).mag - a.mag * b.mag| < G.ulp (a.mul b).exp ∧
      ((G.rm = .nte ∨ G.rm = .nta) →
        |(a.mul b).mag - a.mag * b.mag| ≤ G.ulp (a.mul b).exp / 2) ∧
      a.mag * b.mag < (2:ℚ) ^ ((a.mul b).exp + 1) := by
  have hWa : a.sem.WF := by rw [ha]; exact hG
  obtain ⟨hcan, hsem⟩ := mul_canonical a b hWa
  have hsem' : (a.mul b).sem = G := hsem.trans ha
  have hres : (a.mul b).toRes = Spec.round G G.rm (a.sign ^^ b.sign) (a.mag * b.mag) := by
    unfold Flt.mul
    rw [C01.mul_correct a b _ hWa (hb.trans ha.symm) hac hbc]
    simp only [Spec.mul, Spec.isNan, Spec.isInf, Spec.isZero, han, hbn,
      show (Cat.normal == Cat.nan) = false from rfl, show (Cat.normal == Cat.inf) = false from rfl,
      show (Cat.normal == Cat.zero) = false from rfl, Bool.or_self, Bool.and_self,
      Bool.false_eq_true, if_false, ha]
  obtain ⟨e, m, hr, e1, e2, m1, m2, hrel, hlt, hnear, hq2⟩ :=
    powi_round_step hG hlo hhi G.rm (a.sign ^^ b.sign)
  rw [hr] at hres
  obtain ⟨hn, hs, he, hm⟩ := powi_toRes_fin hres
  have hmag : (a.mul b).mag = ((a.mul b).mant : ℚ) * G.ulp (a.mul b).exp := by
    rw [Flt.mag_eq (a.mul b), hsem', ← Sem.ulp_def]
  rw [hmag, he, hm]
  exact ⟨hsem', hcan, hn, hs, hrel, e1, e2, m1, m2, rfl, hlt, hnear, hq2⟩

theorem mul_step (G : Sem) (hG : G.WF) (a b : Flt) (ha : a.sem = G) (hb : b.sem = G)
    (hac : a.Canonical) (hbc : b.Canonical) (han : a.cat = .normal) (hbn : b.cat = .normal)
    (hlo : (2:ℚ) ^ G.emin ≤ a.mag * b.mag) (hhi : a.mag * b.mag ≤ maxFinite G) :
    (a.mul b).sem = G ∧ (a.mul b).Canonical ∧ (a.mul b).cat = .normal ∧
      (a.mul b).sign = (a.sign ^^ b.sign) ∧
      |(a.mul b).mag - a.mag * b.mag| ≤ powiU G.p G.rm * (a.mag * b.mag) := by
  obtain ⟨h1, h2, h3, h4, h5, _⟩ := mul_step_full G hG a b ha hb hac hbc han hbn hlo hhi
  exact ⟨h1, h2, h3, h4, h5⟩

/-! ### the loop invariant -/

/-- `y` is a normal number of `G` with the sign of `(±X)^(k+1)` whose magnitude encloses
    `X^(k+1)` through `k` relative perturbations of size `powiU G.p G.rm` -/
structure Pw (G : Sem) (X : ℚ) (sx : Bool) (k : Nat) (y : Flt) : Prop where
  sem : y.sem = G
  can : y.Canonical
  nor : y.cat = .normal
  sgn : y.sign = (sx && decide (k % 2 = 0))
  enc : Encl (powiU G.p G.rm) k y.mag (X ^ (k + 1))

/-- every exact power `X^(c+1)`, `c + 1 ≤ N`, stays in the normal range of `G` with the slack
    needed for `c` accumulated relative errors -/
def PowiRange (G : Sem) (X : ℚ) (N : Nat) : Prop :=
  ∀ c, c + 1 ≤ N →
    (2:ℚ) ^ G.emin ≤ (1 - powiU G.p G.rm) ^ c * X ^ (c + 1) ∧
    (1 + powiU G.p G.rm) ^ c * X ^ (c + 1) ≤ maxFinite G

theorem sign_xor_pw (sx : Bool) (k1 k2 : Nat) :
    ((sx && decide (k1 % 2 = 0)) ^^ (sx && decide (k2 % 2 = 0)))
      = (sx && decide ((k1 + k2 + 1) % 2 = 0)) := by
  rcases Nat.mod_two_eq_zero_or_one k1 with h1 | h1 <;>
  rcases Nat.mod_two_eq_zero_or_one k2 with h2 | h2
  · have : (k1 + k2 + 1) % 2 = 1 := by omega
    cases sx <;> simp [h1, h2, this]
  · have : (k1 + k2 + 1) % 2 = 0 := by omega
    cases sx <;> simp [h1, h2, this]
  · have : (k1 + k2 + 1) % 2 = 0 := by omega
    cases sx <;> simp [h1, h2, this]
  · have : (k1 + k2 + 1) % 2 = 1 := by omega
    cases sx <;> simp [h1, h2, this]

theorem pw_mul {G : Sem} (hG : G.WF) {X : ℚ} (hX : 0 < X) {sx : Bool} {N : Nat}
    (hR : PowiRange G X N) {k1 k2 : Nat} {y1 y2 : Flt} (h1 : Pw G X sx k1 y1)
    (h2 : Pw G X sx k2 y2) (hN : k1 + k2 + 2 ≤ N) : Pw G X sx (k1 + k2 + 1) (y1.mul y2) := by
  have hd0 : 0 ≤ powiU G.p G.rm := le_of_lt (powiU_pos _ _)
  have hd1 : powiU G.p G.rm ≤ 1 := le_trans (powiU_le_half hG.2 _) (by norm_num)
  have hq1 : (0:ℚ) ≤ X ^ (k1 + 1) := le_of_lt (pow_pos hX _)
  have hq2 : (0:ℚ) ≤ X ^ (k2 + 1) := le_of_lt (pow_pos hX _)
  have hpow : X ^ (k1 + 1) * X ^ (k2 + 1) = X ^ (k1 + k2 + 1 + 1) := by
    rw [← pow_add]; congr 1; omega
  have henc := Encl.mul hd0 hd1 hq1 hq2 h1.enc h2.enc
  rw [hpow] at henc
  have henc' := Encl.mono hd0 hd1 (Nat.le_succ (k1 + k2)) (le_of_lt (pow_pos hX _)) henc
  obtain ⟨r1, r2⟩ := hR (k1 + k2 + 1) (by omega)
  obtain ⟨s1, s2, s3, s4, s5⟩ := mul_step G hG y1 y2 h1.sem h2.sem h1.can h2.can h1.nor h2.nor
    (le_trans r1 henc'.1) (le_trans henc'.2 r2)
  refine ⟨s1, s2, s3, ?_, ?_⟩
  · rw [s4, h1.sgn, h2.sgn]; exact sign_xor_pw sx k1 k2
  · exact Encl.round hd0 hd1 henc s5

/-- state of the accumulator `elem`: still the initial `1.0` (total power `0`), or a `Pw` -/
def El (G : Sem) (X : ℚ) (sx : Bool) (elem : Flt) (a : Nat) : Prop :=
  (elem = Flt.one G false ∧ a = 0) ∨ ∃ ka, Pw G X sx ka elem ∧ a = ka + 1

theorem el_mul {G : Sem} (hG : G.WF) {X : ℚ} (hX : 0 < X) {sx : Bool} {N : Nat}
    (hR : PowiRange G X N) {a kb : Nat} {elem val : Flt} (he : El G X sx elem a)
    (hv : Pw G X sx kb val) (hN : a + kb + 1 ≤ N) : Pw G X sx (a + kb) (elem.mul val) := by
  rcases he with ⟨rfl, rfl⟩ | ⟨ka, hka, rfl⟩
  · have : (Flt.one G false).mul val = val := by
      unfold Flt.mul
      exact one_mul G val _ hG hv.sem hv.can
    rw [this, Nat.zero_add]; exact hv
  · have := pw_mul hG hX hR hka hv (by omega)
    rw [show ka + 1 + kb = ka + kb + 1 by omega]; exact this

/-- **loop invariant**: starting from `elem ≈ X^a` (or the initial one) and `val ≈ X^(kb+1)`,
    the loop returns an approximation of `X^(a + n·(kb+1))` through one relative perturbation
    less than the exponent -/
theorem powiLoop_pw {G : Sem} (hG : G.WF) {X : ℚ} (hX : 0 < X) {sx : Bool} {N : Nat}
    (hR : PowiRange G X N) :
    ∀ (fuel n : Nat) (elem val : Flt) (a kb K : Nat), n < 2 ^ fuel → 1 ≤ n →
      Pw G X sx kb val → El G X sx elem a → a + n * (kb + 1) = K + 1 → K + 1 ≤ N →
      Pw G X sx K (powiLoop fuel n elem val) := by
  intro fuel
  induction fuel with
  | zero => intro n _ _ _ _ _ h1 h2; simp at h1; omega
  | succ fuel ih =>
    intro n elem val a kb K hfuel hn hv he hK hKN
    obtain ⟨h, hh⟩ : ∃ h, h = n / 2 := ⟨_, rfl⟩
    have hmul : h * (2 * kb + 1 + 1) = 2 * (h * (kb + 1)) := by ring
    simp only [powiLoop, if_neg (show ¬ n = 0 by omega), ← hh]
    by_cases hodd : n % 2 = 1
    · have hn2 : n = 2 * h + 1 := by omega
      have hexp : n * (kb + 1) = 2 * (h * (kb + 1)) + (kb + 1) := by rw [hn2]; ring
      have hpos := Nat.zero_le (h * (kb + 1))
      rw [if_pos hodd]
      have hE : Pw G X sx (a + kb) (elem.mul val) := el_mul hG hX hR he hv (by omega)
      by_cases h0 : h = 0
      · rw [h0, powiLoop_zero]
        have : K = a + kb := by rw [h0] at hexp; omega
        rw [this]; exact hE
      · have hge : kb + 1 ≤ h * (kb + 1) := Nat.le_mul_of_pos_left _ (by omega)
        have hV : Pw G X sx (kb + kb + 1) (val.mul val) := pw_mul hG hX hR hv hv (by omega)
        rw [show kb + kb + 1 = 2 * kb + 1 by omega] at hV
        refine ih h _ _ (a + kb + 1) (2 * kb + 1) K ?_ (by omega) hV (Or.inr ⟨a + kb, hE, rfl⟩) ?_ hKN
        · rw [Nat.pow_succ] at hfuel; omega
        · rw [hmul]; omega
    · have hn2 : n = 2 * h := by omega
      have hexp : n * (kb + 1) = 2 * (h * (kb + 1)) := by rw [hn2]; ring
      rw [if_neg hodd]
      have h0 : h ≠ 0 := by omega
      have hge : kb + 1 ≤ h * (kb + 1) := Nat.le_mul_of_pos_left _ (by omega)
      have hV : Pw G X sx (kb + kb + 1) (val.mul val) := pw_mul hG hX hR hv hv (by omega)
      rw [show kb + kb + 1 = 2 * kb + 1 by omega] at hV
      refine ih h _ _ a (2 * kb + 1) K ?_ (by omega) hV he ?_ hKN
      · rw [Nat.pow_succ] at hfuel; omega
      · rw [hmul]; omega


/-! ### anatomy of `powi` -/

/-- hypotheses of the accuracy theorems (`δ = powiD F = 2^(-(p+2))`): every exact power `X^c`,
    `1 ≤ c ≤ n`, stays in the normal range of the internal `(p+2)`-bit format with the slack
    for `c-1` accumulated relative errors, and the perturbed final power does not exceed the
    largest finite number of `F`. -/
def PowiOK (F : Sem) (X : ℚ) (n : Nat) : Prop :=
  (∀ c, c + 1 ≤ n →
    (2:ℚ) ^ F.emin ≤ (1 - powiD F) ^ c * X ^ (c + 1) ∧
    (1 + powiD F) ^ c * X ^ (c + 1) ≤ maxFinite (powiSem F)) ∧
  (1 + powiD F) ^ (n - 1) * X ^ n ≤ maxFinite F

theorem PowiOK.range {F : Sem} {X : ℚ} {n : Nat} (h : PowiOK F X n) :
    PowiRange (powiSem F) X n := by
  intro c hc
  rw [powiSem_unit, powiSem_emin]
  exact h.1 c hc

/-- **Anatomy of `x.powi n`** (`1 ≤ n < 2^64`, `x` normal, no over/underflow): the result is a
    normal number of `F` with the sign of `x^n`; there is a positive rational `y` (the magnitude
    of the `(p+2)`-bit loop result) enclosing `|x|^n` through `n-1` relative perturbations
    `≤ δ`, and the result is `y` rounded once to `F` in the mode of `F`. -/
theorem powi_main (x : Flt) (n : Nat) (hF : x.sem.WF) (hx : x.cat = .normal) (hc : x.Canonical)
    (hn1 : 1 ≤ n) (hn : n < 2 ^ 64) (hOK : PowiOK x.sem x.mag n) :
    (x.powi n).cat = .normal ∧ (x.powi n).Canonical ∧ (x.powi n).sem = x.sem ∧
    (x.powi n).sign = (x.sign && decide (n % 2 = 1)) ∧
    ∃ y : ℚ, Encl (powiD x.sem) (n - 1) y (x.mag ^ n) ∧
      |(x.powi n).mag - y| ≤ powiU x.sem.p x.sem.rm * y ∧
      |(x.powi n).mag - y| < x.sem.ulp (x.powi n).exp ∧
      ((x.sem.rm = .nte ∨ x.sem.rm = .nta) →
        |(x.powi n).mag - y| ≤ x.sem.ulp (x.powi n).exp / 2) ∧
      y < (2:ℚ) ^ ((x.powi n).exp + 1) := by
  have hR := hOK.range
  have hT := hOK.2
  set G := powiSem x.sem with hGdef
  have hG : G.WF := powiSem_WF hF
  have hX : 0 < x.mag := Flt.mag_pos x hx hc
  obtain ⟨K, hKn⟩ : ∃ K, n = K + 1 := ⟨n - 1, by omega⟩
  -- the widened operand
  obtain ⟨c1, c2, c3, c4, c5⟩ := C06.widen_lossless_normal x G x.sem.rm (le_refl _)
    (by rw [hGdef, powiSem_p]; omega) hF hG hx hc
  have hv0 : Pw G x.mag x.sign 0 (x.cast G) := by
    refine ⟨c1, c3, c2, ?_, ?_⟩
    · rw [show x.cast G = x.castWithRm G x.sem.rm from rfl, c4]; simp
    · rw [show x.cast G = x.castWithRm G x.sem.rm from rfl, c5]
      have := Encl.refl (powiU G.p G.rm) x.mag
      simpa using this
  -- the loop
  have hL : Pw G x.mag x.sign K (powiLoop 64 n (Flt.one G false) (x.cast G)) :=
    powiLoop_pw hG hX hR 64 n _ _ 0 0 K hn hn1 hv0 (Or.inl ⟨rfl, rfl⟩) (by omega) (by omega)
  set y := powiLoop 64 n (Flt.one G false) (x.cast G) with hy
  have hpow : x.powi n = y.castWithRm x.sem x.sem.rm := rfl
  -- the final rounding
  have hGp : powiU G.p G.rm = powiD x.sem := powiSem_unit x.sem
  have henc : Encl (powiD x.sem) K y.mag (x.mag ^ (K + 1)) := by rw [← hGp]; exact hL.enc
  have hlo : (2:ℚ) ^ x.sem.emin ≤ y.mag := le_trans (hOK.1 K (by omega)).1 henc.1
  have hhi : y.mag ≤ maxFinite x.sem := by
    refine le_trans henc.2 ?_
    rw [hKn] at hT; simpa using hT
  have hres : (y.castWithRm x.sem x.sem.rm).toRes = Spec.round x.sem x.sem.rm y.sign y.mag := by
    rw [C06.cast_correct y x.sem x.sem.rm (by rw [hL.sem]; exact hG) hF hL.can]
    simp only [Spec.cast, hL.nor]
  obtain ⟨e, m, hr, _, _, _, _, hrel, hlt, hnear, hq2⟩ :=
    powi_round_step hF hlo hhi x.sem.rm y.sign
  rw [hr] at hres
  obtain ⟨r1, r2, r3, r4⟩ := powi_toRes_fin hres
  obtain ⟨k1, k2⟩ := castWithRm_canonical y x.sem x.sem.rm hF hL.can
  have hmag : (y.castWithRm x.sem x.sem.rm).mag = (m:ℚ) * x.sem.ulp e := by
    rw [Flt.mag_eq, k2, r3, r4, ← Sem.ulp_def]
  rw [hpow]
  refine ⟨r1, k1, k2, ?_, y.mag, ?_, ?_, ?_, ?_, ?_⟩
  · rw [r2, hL.sgn]
    have : (K % 2 = 0) ↔ (n % 2 = 1) := by omega
    simp only [this]
  · rw [show n - 1 = K by omega, hKn]; exact henc
  · rw [hmag]; exact hrel
  · rw [hmag, r3]; exact hlt
  · rw [hmag, r3]; exact hnear
  · rw [r3]; exact hq2

/-! ### error bounds -/

/-- signed values: the error of the value is the error of the magnitude when the signs agree -/
theorem val_pow_err (x r : Flt) (n : Nat) (hx : x.cat = .normal) (hr : r.cat = .normal)
    (hs : r.sign = (x.sign && decide (n % 2 = 1))) :
    |r.val - x.val ^ n| = |r.mag - x.mag ^ n| := by
  rw [Flt.val_normal hx, Flt.val_normal hr, hs]
  cases hsx : x.sign
  · simp
  · rcases Nat.mod_two_eq_zero_or_one n with h | h
    · have he : Even n := Nat.even_iff.mpr h
      simp [h, he.neg_pow]
    · have ho : Odd n := Nat.odd_iff.mpr h
      simp only [h, decide_true, Bool.and_self, if_true, ho.neg_pow]
      rw [show -r.mag - -x.mag ^ n = -(r.mag - x.mag ^ n) by ring, abs_neg]

/-- **Relative form**: `(1-u)(1-δ)^(n-1)·|x|^n ≤ |x.powi n| ≤ (1+u)(1+δ)^(n-1)·|x|^n` with
    `u = powiU p rm` (`2^(1-p)`; `2^(-p)` in `nte`/`nta`) and `δ = 2^(-(p+2))`. -/
theorem powi_rel (x : Flt) (n : Nat) (hF : x.sem.WF) (hx : x.cat = .normal) (hc : x.Canonical)
    (hn1 : 1 ≤ n) (hn : n < 2 ^ 64) (hOK : PowiOK x.sem x.mag n) :
    (1 - powiU x.sem.p x.sem.rm) * ((1 - powiD x.sem) ^ (n - 1) * x.mag ^ n) ≤ (x.powi n).mag ∧
    (x.powi n).mag ≤ (1 + powiU x.sem.p x.sem.rm) * ((1 + powiD x.sem) ^ (n - 1) * x.mag ^ n) := by
  obtain ⟨_, _, _, _, y, henc, hrel, _⟩ := powi_main x n hF hx hc hn1 hn hOK
  have hu0 := powiU_pos x.sem.p x.sem.rm
  have hu1 := powiU_le_half hF.2 x.sem.rm
  obtain ⟨h1, h2⟩ := abs_le.mp hrel
  constructor
  · calc (1 - powiU x.sem.p x.sem.rm) * ((1 - powiD x.sem) ^ (n - 1) * x.mag ^ n)
        ≤ (1 - powiU x.sem.p x.sem.rm) * y := mul_le_mul_of_nonneg_left henc.1 (by linarith)
      _ ≤ (x.powi n).mag := by linarith
  · calc (x.powi n).mag ≤ (1 + powiU x.sem.p x.sem.rm) * y := by linarith
      _ ≤ (1 + powiU x.sem.p x.sem.rm) * ((1 + powiD x.sem) ^ (n - 1) * x.mag ^ n) :=
        mul_le_mul_of_nonneg_left henc.2 (by linarith)

/-- **Ulp form** (`ulp` = unit in the last place of the RESULT, `k = n-1`, `δ = 2^(-(p+2))`,
    `k·δ < 1`): in every mode
    `|x.powi n − x^n|·(1 − kδ) < ((1 − kδ) + k/4)·ulp`, and in the nearest modes
    `|x.powi n − x^n|·(1 − kδ) ≤ ((1 − kδ)/2 + k/4)·ulp`. -/
theorem powi_ulp (x : Flt) (n : Nat) (hF : x.sem.WF) (hx : x.cat = .normal) (hc : x.Canonical)
    (hn1 : 1 ≤ n) (hn : n < 2 ^ 64) (hOK : PowiOK x.sem x.mag n)
    (hz : ((n - 1 : Nat) : ℚ) * powiD x.sem < 1) :
    |(x.powi n).val - x.val ^ n| * (1 - ((n - 1 : Nat) : ℚ) * powiD x.sem)
      < ((1 - ((n - 1 : Nat) : ℚ) * powiD x.sem) + ((n - 1 : Nat) : ℚ) / 4)
          * x.sem.ulp (x.powi n).exp ∧
    ((x.sem.rm = .nte ∨ x.sem.rm = .nta) →
      |(x.powi n).val - x.val ^ n| * (1 - ((n - 1 : Nat) : ℚ) * powiD x.sem)
        ≤ ((1 - ((n - 1 : Nat) : ℚ) * powiD x.sem) / 2 + ((n - 1 : Nat) : ℚ) / 4)
            * x.sem.ulp (x.powi n).exp) := by
  obtain ⟨hcat, _, _, hsgn, y, henc, _, hlt, hnear, hy2⟩ := powi_main x n hF hx hc hn1 hn hOK
  rw [val_pow_err x (x.powi n) n hx hcat hsgn]
  have hd0 := le_of_lt (powiD_pos x.sem)
  have hd1 : powiD x.sem ≤ 1 := le_trans (powiD_le x.sem) (by norm_num)
  have hX : 0 < x.mag := Flt.mag_pos x hx hc
  have hq : (0:ℚ) ≤ x.mag ^ n := le_of_lt (pow_pos hX _)
  set k : ℚ := ((n - 1 : Nat) : ℚ) with hk
  set d := powiD x.sem with hd
  set U := x.sem.ulp (x.powi n).exp with hU
  have hk0 : (0:ℚ) ≤ k := Nat.cast_nonneg _
  have habs := Encl.abs_le hd0 hd1 hq (le_of_lt hz) henc
  have hmul := powiD_mul x.sem (x.powi n).exp
  have hz' : 0 < 1 - k * d := by linarith
  -- `|y − X^n|·(1 − kδ) ≤ kδ·y ≤ k·(δ·2^(e+1)) = k·ulp/4`
  have hyb : k * d * y ≤ k * (U / 4) := by
    rw [← hmul, ← hd]
    have : k * d * y ≤ k * d * (2:ℚ) ^ ((x.powi n).exp + 1) :=
      mul_le_mul_of_nonneg_left (le_of_lt hy2) (mul_nonneg hk0 hd0)
    linarith
  have htri : |(x.powi n).mag - x.mag ^ n| ≤ |(x.powi n).mag - y| + |y - x.mag ^ n| := by
    have := abs_add_le ((x.powi n).mag - y) (y - x.mag ^ n)
    rwa [show (x.powi n).mag - y + (y - x.mag ^ n) = (x.powi n).mag - x.mag ^ n by ring] at this
  have htri' : |(x.powi n).mag - x.mag ^ n| * (1 - k * d)
      ≤ |(x.powi n).mag - y| * (1 - k * d) + |y - x.mag ^ n| * (1 - k * d) := by
    have := mul_le_mul_of_nonneg_right htri (le_of_lt hz')
    linarith
  constructor
  · have h1 : |(x.powi n).mag - y| * (1 - k * d) < U * (1 - k * d) :=
      mul_lt_mul_of_pos_right hlt hz'
    linarith
  · intro hrm
    have h1 : |(x.powi n).mag - y| * (1 - k * d) ≤ U / 2 * (1 - k * d) :=
      mul_le_mul_of_nonneg_right (hnear hrm) (le_of_lt hz')
    linarith

/-- **C18, every mode**: for `n² ≤ 2^(p+2)` the result is within `1 + n/4` ulps (of the result)
    of the exact power. -/
theorem powi_within (x : Flt) (n : Nat) (hF : x.sem.WF) (hx : x.cat = .normal) (hc : x.Canonical)
    (hn1 : 1 ≤ n) (hn : n < 2 ^ 64) (hOK : PowiOK x.sem x.mag n)
    (hnp : n ^ 2 ≤ 2 ^ (x.sem.p + 2)) :
    |(x.powi n).val - x.val ^ n| < (1 + (n:ℚ) / 4) * x.sem.ulp (x.powi n).exp := by
  obtain ⟨K, rfl⟩ : ∃ K, n = K + 1 := ⟨n - 1, by omega⟩
  have hsq := powiD_sq hnp
  have hd := powiD_pos x.sem
  have hK0 : (0:ℚ) ≤ (K:ℚ) := Nat.cast_nonneg _
  push_cast at hsq
  have hz : ((K + 1 - 1 : Nat) : ℚ) * powiD x.sem < 1 := by
    rw [Nat.add_sub_cancel]; nlinarith
  obtain ⟨h1, _⟩ := powi_ulp x (K + 1) hF hx hc hn1 hn hOK hz
  rw [Nat.add_sub_cancel] at h1 hz
  have hU := x.sem.ulp_pos (x.powi (K + 1)).exp
  set E := |(x.powi (K + 1)).val - x.val ^ (K + 1)|
  set U := x.sem.ulp (x.powi (K + 1)).exp
  set d := powiD x.sem
  have hz' : 0 < 1 - (K:ℚ) * d := by linarith
  -- (1 − z) + K/4 ≤ (1 − z)(1 + (K+1)/4)  ⟸  z(K+1) ≤ 1
  have hkey : (1 - (K:ℚ) * d) + (K:ℚ) / 4 ≤ (1 - (K:ℚ) * d) * (1 + ((K:ℚ) + 1) / 4) := by
    nlinarith
  have : E * (1 - (K:ℚ) * d) < ((1 + ((K:ℚ) + 1) / 4) * U) * (1 - (K:ℚ) * d) := by
    calc E * (1 - (K:ℚ) * d) < ((1 - (K:ℚ) * d) + (K:ℚ) / 4) * U := h1
      _ ≤ ((1 - (K:ℚ) * d) * (1 + ((K:ℚ) + 1) / 4)) * U :=
          mul_le_mul_of_nonneg_right hkey (le_of_lt hU)
      _ = ((1 + ((K:ℚ) + 1) / 4) * U) * (1 - (K:ℚ) * d) := by ring
  have := lt_of_mul_lt_mul_right this (le_of_lt hz')
  push_cast; exact this

/-- **C18, nearest modes**: for `n² ≤ 2^(p+2)` the result is within `1/2 + n/4` ulps. -/
theorem powi_within_nearest (x : Flt) (n : Nat) (hF : x.sem.WF) (hx : x.cat = .normal)
    (hc : x.Canonical) (hn1 : 1 ≤ n) (hn : n < 2 ^ 64) (hOK : PowiOK x.sem x.mag n)
    (hnp : n ^ 2 ≤ 2 ^ (x.sem.p + 2)) (hrm : x.sem.rm = .nte ∨ x.sem.rm = .nta) :
    |(x.powi n).val - x.val ^ n| ≤ (1 / 2 + (n:ℚ) / 4) * x.sem.ulp (x.powi n).exp := by
  obtain ⟨K, rfl⟩ : ∃ K, n = K + 1 := ⟨n - 1, by omega⟩
  have hsq := powiD_sq hnp
  have hd := powiD_pos x.sem
  have hK0 : (0:ℚ) ≤ (K:ℚ) := Nat.cast_nonneg _
  push_cast at hsq
  have hz : ((K + 1 - 1 : Nat) : ℚ) * powiD x.sem < 1 := by
    rw [Nat.add_sub_cancel]; nlinarith
  obtain ⟨_, h2⟩ := powi_ulp x (K + 1) hF hx hc hn1 hn hOK hz
  have h1 := h2 hrm
  rw [Nat.add_sub_cancel] at h1 hz
  have hU := x.sem.ulp_pos (x.powi (K + 1)).exp
  set E := |(x.powi (K + 1)).val - x.val ^ (K + 1)|
  set U := x.sem.ulp (x.powi (K + 1)).exp
  set d := powiD x.sem
  have hz' : 0 < 1 - (K:ℚ) * d := by linarith
  have hkey : (1 - (K:ℚ) * d) / 2 + (K:ℚ) / 4 ≤ (1 - (K:ℚ) * d) * (1 / 2 + ((K:ℚ) + 1) / 4) := by
    nlinarith
  have : E * (1 - (K:ℚ) * d) ≤ ((1 / 2 + ((K:ℚ) + 1) / 4) * U) * (1 - (K:ℚ) * d) := by
    calc E * (1 - (K:ℚ) * d) ≤ ((1 - (K:ℚ) * d) / 2 + (K:ℚ) / 4) * U := h1
      _ ≤ ((1 - (K:ℚ) * d) * (1 / 2 + ((K:ℚ) + 1) / 4)) * U :=
          mul_le_mul_of_nonneg_right hkey (le_of_lt hU)
      _ = ((1 / 2 + ((K:ℚ) + 1) / 4) * U) * (1 - (K:ℚ) * d) := by ring
  have := le_of_mul_le_mul_right this hz'
  push_cast; exact this

/-! ### `sqr` -/

theorem powiLoop_two (e v : Flt) : powiLoop 64 2 e v = e.mul (v.mul v) := by
  rw [show (64 : Nat) = 62 + 1 + 1 from rfl]
  simp [powiLoop]

/-- `x.sqr` is the exact square rounded to nearest into `p+2` bits and then rounded once into
    `F`: for every normal `x` whose square is a normal number of `F`
    (`2^emin ≤ x² ≤ maxFinite F`, no slack needed) the result is a positive normal number within
    `9/8` ulp (of the result) of `x²` in every mode and within `5/8` ulp in `nte`/`nta`. -/
theorem sqr_error (x : Flt) (hF : x.sem.WF) (hx : x.cat = .normal) (hc : x.Canonical)
    (hlo : (2:ℚ) ^ x.sem.emin ≤ x.mag ^ 2) (hhi : x.mag ^ 2 ≤ maxFinite x.sem) :
    x.sqr.cat = .normal ∧ x.sqr.Canonical ∧ x.sqr.sem = x.sem ∧ x.sqr.sign = false ∧
    |x.sqr.val - x.val ^ 2| < 9 / 8 * x.sem.ulp x.sqr.exp ∧
    ((x.sem.rm = .nte ∨ x.sem.rm = .nta) →
      |x.sqr.val - x.val ^ 2| ≤ 5 / 8 * x.sem.ulp x.sqr.exp) := by
  set G := powiSem x.sem with hGdef
  have hG : G.WF := powiSem_WF hF
  have hp : 1 ≤ x.sem.p := by have := hF.2; omega
  have hGp1 : 1 ≤ G.p := by have := hG.2; omega
  -- the widened operand and the single product
  obtain ⟨c1, c2, c3, c4, c5⟩ := C06.widen_lossless_normal x G x.sem.rm (le_refl _)
    (by rw [hGdef, powiSem_p]; omega) hF hG hx hc
  set v := x.castWithRm G x.sem.rm with hv
  have hq : v.mag * v.mag = x.mag ^ 2 := by rw [c5]; ring
  have hlo' : (2:ℚ) ^ G.emin ≤ v.mag * v.mag := by rw [hq]; exact hlo
  have hhi' : v.mag * v.mag ≤ maxFinite G := by
    rw [hq]; exact le_trans hhi (powiSem_maxFinite x.sem)
  obtain ⟨w1, w2, w3, w4, _, w6, w7, w8, w9, w10, _, w12, w13⟩ :=
    mul_step_full G hG v v c1 c1 c3 c3 c2 c2 hlo' hhi'
  set w := v.mul v with hw
  rw [hq] at w13
  have w12' := w12 (powiInnerRm_nearest x.sem.rm)
  rw [hq] at w12'
  have hone : (Flt.one G false).mul w = w := by
    unfold Flt.mul; exact one_mul G w _ hG w1 w2
  have hsqr : x.sqr = w.castWithRm x.sem x.sem.rm := by
    show x.powi 2 = _
    rw [powi_def, powiLoop_two]
    exact congrArg (fun t => Flt.castWithRm t x.sem x.sem.rm) hone
  -- `2^e_w ≤ |w| < 2^(e_w+1)`, `|w| ≤ maxFinite F`
  have hUG := G.ulp_pos w.exp
  have hwlo : (2:ℚ) ^ w.exp ≤ w.mag := by
    rw [w10, ← G.half_pow_mul_ulp hGp1 w.exp]
    exact mul_le_mul_of_nonneg_right (by exact_mod_cast w8) (le_of_lt hUG)
  have hwhi : w.mag < (2:ℚ) ^ (w.exp + 1) := by
    rw [w10, ← G.pow_mul_ulp w.exp]
    exact mul_lt_mul_of_pos_right (by exact_mod_cast w9) hUG
  have hwmax : w.mag ≤ maxFinite x.sem := by
    rcases lt_or_eq_of_le w7 with hlt | heq
    · have h1 : (2:ℚ) ^ (w.exp + 1) ≤ (2:ℚ) ^ x.sem.emax :=
        zpow_le_zpow_right₀ (by norm_num) (by rw [hGdef, powiSem_emax] at hlt; omega)
      have := pow_emax_le_maxFinite (F := x.sem) hp
      linarith
    · have hmf : maxFinite x.sem = ((2:ℚ) ^ (x.sem.p + 2) - 4) * G.ulp w.exp := by
        rw [heq]; exact maxFinite_incp2 x.sem
      obtain ⟨_, hb⟩ := abs_le.mp w12'
      rw [w10] at hb ⊢
      rw [hmf] at hhi ⊢
      have h3 : (w.mant:ℚ) + 3 < (2:ℚ) ^ (x.sem.p + 2) := by
        by_contra hcon
        have hcon : (2:ℚ) ^ (x.sem.p + 2) ≤ (w.mant:ℚ) + 3 := not_lt.mp hcon
        nlinarith
      have h4 : w.mant + 3 < 2 ^ (x.sem.p + 2) := by exact_mod_cast h3
      have h5 : ((w.mant + 4 : Nat) : ℚ) ≤ ((2 ^ (x.sem.p + 2) : Nat) : ℚ) :=
        Nat.cast_le.mpr (by omega)
      push_cast at h5
      apply mul_le_mul_of_nonneg_right _ (le_of_lt hUG)
      linarith
  have hwmin : (2:ℚ) ^ x.sem.emin ≤ w.mag :=
    le_trans (zpow_le_zpow_right₀ (by norm_num) (by rw [hGdef, powiSem_emin] at w6; exact w6)) hwlo
  -- the final rounding
  have hwpos : 0 < w.mag := lt_of_lt_of_le (by positivity) hwlo
  have hres : (w.castWithRm x.sem x.sem.rm).toRes = Spec.round x.sem x.sem.rm w.sign w.mag := by
    rw [C06.cast_correct w x.sem x.sem.rm (by rw [w1]; exact hG) hF w2]
    simp only [Spec.cast, w3]
  obtain ⟨e, m, hr⟩ := powi_round_fin hF hwmin hwmax x.sem.rm w.sign
  obtain ⟨_, hee, _, _, _, hlt, hnear⟩ := powi_round_core hF hwpos
    (by rw [hGdef, powiSem_emin] at w6; exact w6) hwlo hwhi x.sem.rm w.sign
    (powi_hsat hwmax _ _) hr
  rw [hr] at hres
  obtain ⟨r1, r2, r3, r4⟩ := powi_toRes_fin hres
  obtain ⟨k1, k2⟩ := castWithRm_canonical w x.sem x.sem.rm hF w2
  have hmag : (w.castWithRm x.sem x.sem.rm).mag = (m:ℚ) * x.sem.ulp e := by
    rw [Flt.mag_eq, k2, r3, r4, ← Sem.ulp_def]
  have hsign : (w.castWithRm x.sem x.sem.rm).sign = false := by
    rw [r2, w4]; simp
  have hval : |(w.castWithRm x.sem x.sem.rm).val - x.val ^ 2|
      = |(w.castWithRm x.sem x.sem.rm).mag - x.mag ^ 2| :=
    val_pow_err x _ 2 hx r1 (by rw [hsign]; simp)
  rw [hsqr]
  refine ⟨r1, k1, k2, hsign, ?_, ?_⟩
  all_goals rw [hval, hmag, r3]
  all_goals
    have hmono := x.sem.ulp_mono hee
    have hUq : G.ulp w.exp = x.sem.ulp w.exp / 4 := powiSem_ulp x.sem w.exp
    have hUF := x.sem.ulp_pos w.exp
    have htri : |(m:ℚ) * x.sem.ulp e - x.mag ^ 2|
        ≤ |(m:ℚ) * x.sem.ulp e - w.mag| + |w.mag - x.mag ^ 2| := by
      have := abs_add_le ((m:ℚ) * x.sem.ulp e - w.mag) (w.mag - x.mag ^ 2)
      rwa [show (m:ℚ) * x.sem.ulp e - w.mag + (w.mag - x.mag ^ 2)
        = (m:ℚ) * x.sem.ulp e - x.mag ^ 2 by ring] at this
  · linarith
  · intro hrm
    have := hnear hrm
    linarith

/-- `sqr` is within one ulp in the nearest modes (indeed within `5/8` ulp) -/
theorem sqr_within_one_ulp_nearest (x : Flt) (hF : x.sem.WF) (hx : x.cat = .normal)
    (hc : x.Canonical) (hlo : (2:ℚ) ^ x.sem.emin ≤ x.mag ^ 2) (hhi : x.mag ^ 2 ≤ maxFinite x.sem)
    (hrm : x.sem.rm = .nte ∨ x.sem.rm = .nta) :
    |x.sqr.val - x.val ^ 2| < x.sem.ulp x.sqr.exp := by
  have := (sqr_error x hF hx hc hlo hhi).2.2.2.2.2 hrm
  have hU := x.sem.ulp_pos x.sqr.exp
  linarith

/-- `sqr` is within `1 + 2/4` ulps in every mode (indeed within `9/8` ulp) -/
theorem sqr_within_directed (x : Flt) (hF : x.sem.WF) (hx : x.cat = .normal)
    (hc : x.Canonical) (hlo : (2:ℚ) ^ x.sem.emin ≤ x.mag ^ 2) (hhi : x.mag ^ 2 ≤ maxFinite x.sem) :
    |x.sqr.val - x.val ^ 2| < (1 + 2 / 4) * x.sem.ulp x.sqr.exp := by
  have := (sqr_error x hF hx hc hlo hhi).2.2.2.2.1
  have hU := x.sem.ulp_pos x.sqr.exp
  linarith

/-! ### a convenient sufficient condition for `PowiOK`, and concrete instances -/

/-- `PowiOK` from the two end points `X` and `X^n` (every `X^c`, `1 ≤ c ≤ n`, lies between them) -/
theorem powiOK_of_endpoints (F : Sem) {X : ℚ} (hX : 0 < X) {n : Nat} (hn : 1 ≤ n)
    (h1 : (2:ℚ) ^ F.emin ≤ (1 - powiD F) ^ (n - 1) * X)
    (h2 : (2:ℚ) ^ F.emin ≤ (1 - powiD F) ^ (n - 1) * X ^ n)
    (h3 : (1 + powiD F) ^ (n - 1) * X ≤ maxFinite F)
    (h4 : (1 + powiD F) ^ (n - 1) * X ^ n ≤ maxFinite F) : PowiOK F X n := by
  have hd0 := powiD_pos F
  have hd1 := powiD_le F
  have ha0 : (0:ℚ) ≤ 1 - powiD F := by linarith
  have ha1 : 1 - powiD F ≤ 1 := by linarith
  have hb1 : (1:ℚ) ≤ 1 + powiD F := by linarith
  refine ⟨fun c hc => ⟨?_, ?_⟩, h4⟩
  · have hA : (1 - powiD F) ^ (n - 1) ≤ (1 - powiD F) ^ c :=
      pow_le_pow_of_le_one ha0 ha1 (by omega)
    have hA0 : (0:ℚ) ≤ (1 - powiD F) ^ (n - 1) := pow_nonneg ha0 _
    rcases le_total 1 X with hx | hx
    · have : X ≤ X ^ (c + 1) := by
        calc X = X ^ 1 := (pow_one X).symm
          _ ≤ X ^ (c + 1) := pow_le_pow_right₀ hx (by omega)
      exact le_trans h1 (mul_le_mul hA this (le_of_lt hX) (pow_nonneg ha0 _))
    · have : X ^ n ≤ X ^ (c + 1) := pow_le_pow_of_le_one (le_of_lt hX) hx (by omega)
      exact le_trans h2 (mul_le_mul hA this (le_of_lt (pow_pos hX _)) (pow_nonneg ha0 _))
  · refine le_trans ?_ (powiSem_maxFinite F)
    have hB : (1 + powiD F) ^ c ≤ (1 + powiD F) ^ (n - 1) := pow_le_pow_right₀ hb1 (by omega)
    have hB0 : (0:ℚ) ≤ (1 + powiD F) ^ (n - 1) := pow_nonneg (by linarith) _
    rcases le_total 1 X with hx | hx
    · have : X ^ (c + 1) ≤ X ^ n := pow_le_pow_right₀ hx (by omega)
      exact le_trans (mul_le_mul hB this (le_of_lt (pow_pos hX _)) hB0) h4
    · have : X ^ (c + 1) ≤ X := by
        calc X ^ (c + 1) ≤ X ^ 1 := pow_le_pow_of_le_one (le_of_lt hX) hx (by omega)
          _ = X := pow_one X
      exact le_trans (mul_le_mul hB this (le_of_lt (pow_pos hX _)) hB0) h3

/-! ### concrete instances (hypotheses are satisfiable) -/

/-- `1.5^3 = 3.375` is exact in FP16 -/
example : (⟨FP16, false, 0, 1536, .normal⟩ : Flt).powi 3 = ⟨FP16, false, 1, 1728, .normal⟩ := by
  decide

/-- `(1 + 2^-10)^2` in FP16: `1 + 2^-9 + 2^-20 ↦ 1 + 2^-9` -/
example : (⟨FP16, false, 0, 1025, .normal⟩ : Flt).sqr = ⟨FP16, false, 0, 1026, .normal⟩ := by
  decide

private def x15 : Flt := ⟨FP16, false, 0, 1536, .normal⟩
private theorem x15_mag : x15.mag = 3 / 2 := by rw [Flt.mag_eq]; norm_num [x15, FP16]
private theorem x15_ok : PowiOK FP16 (3 / 2) 3 := by
  apply powiOK_of_endpoints _ (by norm_num) (by norm_num) <;>
    norm_num [powiD, maxFinite, FP16, Sem.emin, Sem.emax, Sem.bias]

example : |(x15.powi 3).val - x15.val ^ 3| < (1 + (3:ℕ) / 4) * FP16.ulp (x15.powi 3).exp :=
  powi_within x15 3 (by decide) rfl (by decide) (by norm_num) (by norm_num)
    (by rw [x15_mag]; exact x15_ok) (by norm_num [x15, FP16])

example : |x15.sqr.val - x15.val ^ 2| < FP16.ulp x15.sqr.exp :=
  sqr_within_one_ulp_nearest x15 (by decide) rfl (by decide)
    (by rw [x15_mag]; norm_num [x15, FP16, Sem.emin, Sem.bias])
    (by rw [x15_mag]; norm_num [x15, maxFinite, FP16, Sem.emax, Sem.bias]) (Or.inl rfl)

/-- a truncating format: `⟨5, 11, zero⟩`, `x = 1753/1024`, `n = 9`.  (With the products rounded
    in the format's own mode — the code before the repair — this operand gave `2017·2^-4`,
    `3.49 > 1 + 9/4` ulps below `x^9 = 126.28…`; now `2020·2^-4`, `0.49` ulp.) -/
private def F16z : Sem := ⟨5, 11, .zero⟩
private def x9 : Flt := ⟨F16z, false, 0, 1753, .normal⟩
example : x9.powi 9 = ⟨F16z, false, 6, 2020, .normal⟩ := by decide
private theorem x9_mag : x9.mag = 1753 / 1024 := by rw [Flt.mag_eq]; norm_num [x9, F16z]
private theorem x9_ok : PowiOK F16z (1753 / 1024) 9 := by
  apply powiOK_of_endpoints _ (by norm_num) (by norm_num) <;>
    norm_num [powiD, maxFinite, F16z, Sem.emin, Sem.emax, Sem.bias]
example : |(x9.powi 9).val - x9.val ^ 9| < (1 + (9:ℕ) / 4) * F16z.ulp (x9.powi 9).exp :=
  powi_within x9 9 (by decide) rfl (by decide) (by norm_num) (by norm_num)
    (by rw [x9_mag]; exact x9_ok) (by norm_num [x9, F16z])

/-! ### why `PowiOK` carries a slack: overflow although `x^n` is a normal number

FP16 (nearest-even), `x = 1071/1024`, `n = 247`: `x^247 ≈ 65046 ≤ 65504 = maxFinite`, but the
accumulated error of the intermediate products (about `n/8` ulps) pushes the `(p+2)`-bit loop
result over the overflow threshold and `powi` returns `+∞`.  So "for every finite `x` whose
power is a normal number the result is within `1 + n/4` ulps" is false at the overflow edge;
it holds under `PowiOK` (power at most `maxFinite/(1+δ)^(n-1)`). -/
example : (⟨FP16, false, 0, 1071, .normal⟩ : Flt).powi 247 = Flt.inf FP16 false := by decide
example : ((1071:ℚ) / 1024) ^ 247 ≤ 65504 := by norm_num

/-!
-- NOT PROVED
* `powi_within`/`powi_within_nearest` need `n² ≤ 2^(p+2)` (second-order terms of
  `(1+δ)^(n-1)`); beyond that only the general `powi_ulp` (`(n-1)·δ < 1`) and `powi_rel` hold.
* Results or intermediates in the subnormal range, and powers within the slack of the
  overflow threshold, are outside every theorem here (hypothesis `PowiOK`; for `sqr` the plain
  hypothesis `2^emin ≤ x² ≤ maxFinite` suffices).
* The ulp is the ulp of the RESULT (as in the test oracle).  The same bounds in ulps of the
  binade of the exact power (they differ only when the result is the next power of two) are not
  proved.
* `n ≥ 2^64` is outside the model (`u64` exponent, 64 loop iterations).
-/

end Arp.C18
