import Arp.Lemmas.LimbsDigits
/-!
# C09 — BigInt arithmetic is exact integer arithmetic at every size

Statements about the limb-level model `Arp/Model/Limbs.lean` (a function-by-function transcription
of `bigint.rs`).  All theorems hold for well-formed limb lists (`WF`: every limb `< 2^64`) of ANY
length, with or without leading zero words.  `val` is the integer denoted by a limb list.

The only side conditions are length bounds of the form `len < 2^59..2^62` for the multiplication
family: `inplace_mul_slice` counts deferred carries in `u64` cells (`carries[k] ≤ 2·self.len()`),
so exactness at literally every length needs `2·len + 1 < 2^64` — vacuous on a real machine.
-/
namespace Arp.C09
open Arp.Limbs

/-! ## 1. representation -/

theorem val_lt {l : List Nat} (h : WF l) : val l < B ^ l.length := Limbs.val_lt h
theorem val_append (a b : List Nat) : val (a ++ b) = val a + B ^ a.length * val b :=
  Limbs.val_append a b
theorem val_grow (l : List Nat) (n : Nat) : val (grow l n) = val l := Limbs.val_grow l n
theorem val_shrink (l : List Nat) : val (shrink l) = val l := Limbs.val_shrink l
theorem shrink_WF {l : List Nat} (h : WF l) : WF (shrink l) := Limbs.shrink_WF h
theorem isZero_iff (l : List Nat) : isZero l = true ↔ val l = 0 := Limbs.isZero_iff l
/-- `shrink` is the `while len > 2 && top == 0 { pop }` loop: one iteration … -/
theorem shrink_step {l : List Nat} (h : 2 ≤ l.length) : shrink (l ++ [0]) = shrink l :=
  Limbs.shrink_append_zero h
/-- … and its exit condition. -/
theorem shrink_exit (l : List Nat) (h : l.length ≤ 2 ∨ ∃ l' x, l = l' ++ [x] ∧ x ≠ 0) :
    shrink l = l := Limbs.shrink_stop l h

example : val [2^64-1, 2^64-1, 0] = 2^128 - 1 ∧ shrink [5, 0, 0, 0] = [5, 0]
    ∧ shrink [5, 0, 7, 0] = [5, 0, 7] ∧ shrink [0] = [0] := by decide

/-! ## 2. addition -/

theorem addSlice_val {a b : List Nat} (ha : WF a) (hb : WF b) :
    val (addSlice a b) = val a + val b ∧ WF (addSlice a b) := Limbs.addSlice_val ha hb

example : WF [2^64-1, 2^64-1, 0] ∧ WF [1] ∧ addSlice [2^64-1, 2^64-1, 0] [1] = [0, 0, 1]
    ∧ addSlice [2^64-1, 2^64-1] [1] = [0, 0, 1] ∧ addSlice [1] [2^64-1, 2^64-1, 0, 0] = [0, 0, 1] := by
  decide

/-! ## 3. subtraction -/

theorem subSlice_val {a b : List Nat} (ha : WF a) (hb : WF b) :
    let (r, borrow) := subSlice a b 0
    WF r ∧ borrow = decide (val a < val b) ∧ (¬ borrow → val r = val a - val b)
    ∧ (borrow → val r + val b = val a + B ^ (max a.length b.length)) := by
  have h := Limbs.subSlice_val_z ha hb 0 (by simp)
  refine ⟨h.1, h.2.1, fun hb => h.2.2.1 ((Bool.not_eq_true _).mp hb), fun hb => h.2.2.2 hb⟩

/-- with `bottom_zeros = z`, provided the lowest `z` limbs of `b` are zero
(the way `inplace_div` calls it) -/
theorem subSlice_val_z {a b : List Nat} (ha : WF a) (hb : WF b) (z : Nat)
    (hz : ∀ w ∈ b.take z, w = 0) :
    let (r, borrow) := subSlice a b z
    WF r ∧ borrow = decide (val a < val b) ∧ (¬ borrow → val r = val a - val b)
    ∧ (borrow → val r + val b = val a + B ^ (max a.length b.length)) := by
  have h := Limbs.subSlice_val_z ha hb z (val_eq_zero_iff.mpr hz)
  refine ⟨h.1, h.2.1, fun hb => h.2.2.1 ((Bool.not_eq_true _).mp hb), fun hb => h.2.2.2 hb⟩

example : subSlice [0, 1, 0] [1] 0 = ([2^64-1, 0], false)
    ∧ subSlice [1] [0, 0, 1] 0 = ([1, 0, 2^64-1], true)
    ∧ subSlice [5, 7, 9] [0, 0, 9, 0] 2 = ([5, 7], false) := by decide

/-! ## 4. comparison -/

theorem cmp_val {a b : List Nat} (ha : WF a) (hb : WF b) : Limbs.cmp a b = compare (val a) (val b) :=
  Limbs.cmp_val ha hb

example : Limbs.cmp [1, 2, 0, 0] [1, 2] = .eq ∧ Limbs.cmp [1, 2] [0, 0, 1] = .lt
    ∧ Limbs.cmp [0, 3] [2^64-1, 2] = .gt := by
  decide

/-! ## 5. shifts, mask, msb, trailing zeros, loss kind, bit constructors -/

theorem shiftLeft_val {a : List Nat} (ha : WF a) (n : Nat) :
    val (shiftLeft a n) = val a * 2 ^ n ∧ WF (shiftLeft a n) := Limbs.shiftLeft_val ha n
theorem shiftRight_val {a : List Nat} (ha : WF a) (n : Nat) :
    val (shiftRight a n) = val a / 2 ^ n ∧ WF (shiftRight a n) := Limbs.shiftRight_val ha n
theorem mask_val {a : List Nat} (ha : WF a) (n : Nat) :
    val (mask a n) = val a % 2 ^ n ∧ WF (mask a n) := Limbs.mask_val ha n
theorem msbIndex_val {a : List Nat} (ha : WF a) : msbIndex a = Arp.msb (val a) :=
  Limbs.msbIndex_val ha
theorem trailingZeros_val {a : List Nat} (ha : WF a) (hv : val a ≠ 0) :
    2 ^ trailingZeros a ∣ val a ∧ ¬ 2 ^ (trailingZeros a + 1) ∣ val a :=
  Limbs.trailingZeros_val ha hv
theorem getLossKindForBit_val {a : List Nat} (ha : WF a) (n : Nat) :
    getLossKindForBit a n = Arp.lossOfBits (val a) n := Limbs.getLossKindForBit_val ha n
theorem flipBit_val {a : List Nat} (ha : WF a) (n : Nat) :
    val (flipBit a n) = (if val a / 2 ^ n % 2 = 1 then val a - 2 ^ n else val a + 2 ^ n)
    ∧ WF (flipBit a n) := Limbs.flipBit_val ha n
theorem oneHot_val (n : Nat) : val (oneHot n) = 2 ^ n ∧ WF (oneHot n) := Limbs.oneHot_val n
theorem all1s_val (n : Nat) : val (all1s n) = 2 ^ n - 1 ∧ WF (all1s n) := Limbs.all1s_val n

example : shiftLeft [2^64-1, 1] 65 = [0, 2^64-2, 3, 0]
    ∧ shiftRight [0, 2^64-2, 3, 0] 65 = [2^64-1, 1]
    ∧ mask [31, 10922, 7] 69 = [31, 10, 0]
    ∧ msbIndex [0, 1, 0] = 65 ∧ trailingZeros [0, 8, 1] = 67
    ∧ getLossKindForBit [0, 1, 0] 65 = .half ∧ getLossKindForBit [1, 1, 0] 65 = .gt
    ∧ flipBit [0] 95 = [0, 2^31] ∧ oneHot 64 = [0, 1] ∧ all1s 65 = [2^64-1, 1] := by decide

/-! ## 6. division -/

theorem divRem_val {a d : List Nat} (ha : WF a) (hd : WF d) (hnz : val d ≠ 0) :
    let (q, r) := divRem a d
    val q = val a / val d ∧ val r = val a % val d ∧ WF q ∧ WF r := Limbs.divRem_val ha hd hnz

example : divRem [703] [7] = ([100], [3])
    ∧ divRem [5, 0, 1] [0, 1] = ([0, 1], [5, 0])
    ∧ divRem [3, 0] [0, 1, 0] = ([0], [3, 0]) := by decide

/-! ## 7. schoolbook multiplication -/

/-- `inplace_mul_slice` is exact, its `assert!(carry == 0)` holds and no `u64` carry counter
overflows (`mulSliceOk`).  Needs `2·self.len() + 1 < 2^64`. -/
theorem mulSlice_val {a b : List Nat} (ha : WF a) (hb : WF b) (hlen : a.length < 2 ^ 62) :
    val (mulSlice a b) = val a * val b ∧ WF (mulSlice a b) ∧ mulSliceOk a b = true :=
  Limbs.mulSlice_val ha hb hlen

example : mulSlice [2^64-1] [2^64-1] = [1, 2^64-2]
    ∧ mulSlice [2^64-1, 2^64-1, 0] [2^64-1, 2^64-1] = [1, 0, 2^64-2, 2^64-1]
    ∧ mulSliceOk [2^64-1, 2^64-1, 0] [2^64-1, 2^64-1] = true := by decide

/-! ## 8./9. Karatsuba, `inplace_mul`, `powi` -/

theorem mulKaratsuba_val {a b : List Nat} (ha : WF a) (hb : WF b)
    (hlen : a.length + b.length < 2 ^ 61) :
    val (mulKaratsuba a b) = val a * val b ∧ WF (mulKaratsuba a b) :=
  let h := Limbs.mulKaratsuba_val ha hb hlen; ⟨h.1, h.2.1⟩

theorem mul_val {a b : List Nat} (ha : WF a) (hb : WF b) (hlen : a.length + b.length < 2 ^ 61) :
    val (mul a b) = val a * val b ∧ WF (mul a b) :=
  let h := Limbs.mul_val ha hb hlen; ⟨h.1, h.2.1⟩

/-- `powi`; the bound says that the result has fewer than `2^59` words -/
theorem powi_val {a : List Nat} (ha : WF a) (exp : Nat) (hlen : (a.length + 2) * exp < 2 ^ 59) :
    val (powi a exp) = val a ^ exp ∧ WF (powi a exp) := Limbs.powi_val ha exp hlen

example : powi [15] 16 = [6568408355712890625, 0] ∧ powi [2^64-1, 1] 3 = [2^64-1, 5, 2^64-12, 7]
    ∧ mul [2^64-1, 2^64-1, 0] [2^64-1, 2^64-1] = [1, 0, 2^64-2, 2^64-1]
    ∧ mulKaratsuba [3] [5] = [15, 0] := by decide

/-! ## 10. digit extraction and printing -/

/-- `as_decimal` is `Nat`'s decimal printer -/
theorem asDecimal_val {a : List Nat} (ha : WF a) : asDecimal a = toString (val a) :=
  Limbs.asDecimal_val ha
theorem asDecimalChars_val {a : List Nat} (ha : WF a) :
    asDecimalChars a = Nat.toDigits 10 (val a) := Limbs.asDecimalChars_val ha

/-- `as_binary` prints the binary expansion -/
theorem asBinary_val {a : List Nat} (ha : WF a) :
    asBinary a = String.ofList (Nat.toDigits 2 (val a)) := Limbs.asBinary_val ha
theorem asBinaryChars_val {a : List Nat} (ha : WF a) :
    asBinaryChars a = Nat.toDigits 2 (val a) := Limbs.asBinaryChars_val ha

/-- `to_digits::<base>` (`2 ≤ base ≤ 256`): whenever the run neither underflows `num_digits - k`
(a panic with overflow checks, an endless loop without) nor exhausts its recursion
(`toDigitsOk`, an executable flag that the differential test compares with "Rust did not panic"),
the output is the base-`base` expansion of the value, most significant digit first, and empty
for zero — exactly Mathlib's `Nat.digits` reversed. -/
theorem toDigits_val {base : Nat} (hb : 2 ≤ base ∧ base ≤ 256) {a : List Nat} (ha : WF a)
    (hlen : a.length < 2 ^ 50) (hok : toDigitsOk base a = true) :
    toDigits base a = (Nat.digits base (val a)).reverse := Limbs.toDigits_val hb ha hlen hok

/-- up to 5 words (320 bits: every significand of FP16 … FP256) the flag is always true,
for every base -/
theorem toDigitsOk_small {base : Nat} (hb : 2 ≤ base ∧ base ≤ 256) {a : List Nat} (ha : WF a)
    (hlen : a.length ≤ 5) : toDigitsOk base a = true := Limbs.toDigitsOk_small hb ha hlen

theorem toDigits_val_small {base : Nat} (hb : 2 ≤ base ∧ base ≤ 256) {a : List Nat} (ha : WF a)
    (hlen : a.length ≤ 5) : toDigits base a = (Nat.digits base (val a)).reverse :=
  Limbs.toDigits_val_small hb ha hlen

/-- `to_digits::<10>` — the instance used by `Float`'s printer — neither panics nor diverges on
any number of at most 5000 words (320 000 bits, 96 000 decimal digits) … -/
theorem toDigitsOk_ten {a : List Nat} (ha : WF a) (hlen : a.length ≤ 5000) :
    toDigitsOk 10 a = true := Limbs.toDigitsOk_ten ha hlen

/-- … and is therefore unconditionally correct there. -/
theorem toDigits_ten_val {a : List Nat} (ha : WF a) (hlen : a.length ≤ 5000) :
    toDigits 10 a = (Nat.digits 10 (val a)).reverse := Limbs.toDigits_ten_val ha hlen

/-- FINDING (real defect of `to_digits_impl`, confirmed on the Rust code): for `DIGIT = 2` the
digit budget `len·64·59/196` is smaller than the `k = 32·(len/2-1)` digits that the recursive
split wants to peel off, so `num_digits - k` underflows for every 8-word number:
`BigInt::from_parts(&[0,0,0,0,0,0,0,1]).to_digits::<2>()` panics
("attempt to subtract with overflow"; without overflow checks it loops pushing zeros).
Hence `toDigitsOk` cannot be proved unconditionally. -/
theorem toDigits_base2_fails : toDigitsOk 2 [0, 0, 0, 0, 0, 0, 0, 1] = false := by decide +kernel

example : toDigits 10 [90210] = [9, 0, 2, 1, 0] ∧ toDigitsOk 10 [90210] = true
    ∧ toDigits 10 [0, 1] = [1, 8, 4, 4, 6, 7, 4, 4, 0, 7, 3, 7, 0, 9, 5, 5, 1, 6, 1, 6]
    ∧ toDigits 2 [5, 0, 0] = [1, 0, 1] ∧ toDigits 10 [0, 0, 0] = []
    ∧ asDecimalChars [1, 1] = "18446744073709551617".toList
    ∧ asBinaryChars [1, 1, 0] = "10000000000000000000000000000000000000000000000000000000000000001".toList := by
  decide +kernel

/-
-- NOT PROVED
* `toDigitsOk 10 a = true` for `a.length > 5000`: see `Arp/Props/C09Wide.lean`, which proves it
  up to 104 335 words (slack 65 instead of 48, `2^13301 < 10^4004` instead of `2^93 < 10^28`) and
  REFUTES it for the all-ones numbers of 117 676 and of 160 000 words (`toDigits_ten_fails_*`, the
  failure predicted by the length-level simulation) and for `234·10^2266014` (117 618 words,
  `C13.limbs_toDigits_fails_117618`).  Between 104 336 and 117 617 words nothing is proved; a
  sampled simulation finds no failure there.  Not confirmed on the Rust code (its bit-serial division would need ~10^12 word operations there).
* `toDigitsOk base a` for other bases and `a.length > 5`: false in general, see
  `toDigits_base2_fails`.
* The length bounds `a.length < 2^62` (`mulSlice_val`), `< 2^61` (`mul_val`, `mulKaratsuba_val`),
  `(a.length+2)*exp < 2^59` (`powi_val`), `< 2^50` (`toDigits_val`) cannot be dropped: the `u64`
  carry counters of `inplace_mul_slice` would overflow for `self.len() ≥ 2^63`.
-/

end Arp.C09
