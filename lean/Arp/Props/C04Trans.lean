import Arp.Props.C04
import Arp.Props.C15
import Arp.Lemmas.TransCanonical
/-!
# C04, transcendental part — results of `exp`, `log`, `sigmoid`, `pow`, `sin`, `cos`, `tan` and of
# the constants stay canonical

* per-operation statements (`exp_canon` … `tan_canon`, `pi_canon`, `e_canon`, `ln2_canon`):
  a canonical operand of a well-formed format gives, whenever the fuel suffices, a canonical result
  of the operand's format;
* `ExprT`: the history language of `Arp/Props/C04.lean` extended with the transcendental functions
  and the constants (ALL node kinds are constructors of the one inductive type, so that a
  transcendental result can be an operand of any other operation);
* `evalT_canonical`: every value produced by any finite history is canonical;
* `ExprT.ofExpr`, `evalT_ofExpr`: the old language embeds, with the same evaluation.
-/
namespace Arp.C04
open Arp

/-! ## Every transcendental operation -/

theorem exp_canon (fuel : Nat) (x r : Flt) (hx : x.Canonical) (hF : x.sem.WF)
    (h : x.expFuel fuel = some r) : r.Canonical ∧ r.sem = x.sem :=
  expFuel_canonical fuel x r hF hx h

theorem log_canon (fuel : Nat) (x r : Flt) (hx : x.Canonical) (hF : x.sem.WF)
    (h : x.logFuel fuel = some r) : r.Canonical ∧ r.sem = x.sem :=
  logFuel_canonical fuel x r hF hx h

theorem sigmoid_canon (fuel : Nat) (x r : Flt) (hx : x.Canonical) (hF : x.sem.WF)
    (h : x.sigmoidFuel fuel = some r) : r.Canonical ∧ r.sem = x.sem :=
  sigmoidFuel_canonical fuel x r hF hx h

/-- (`pow`: both operands canonical of the same format; only the hypotheses on the base are
    used, see `pow_canon'`) -/
theorem pow_canon (fuel : Nat) (x n r : Flt) (hx : x.Canonical) (_hn : n.Canonical)
    (_hs : n.sem = x.sem) (hF : x.sem.WF) (h : x.powFuel fuel n = some r) :
    r.Canonical ∧ r.sem = x.sem :=
  powFuel_canonical fuel x n r hF hx h

/-- (holds for ANY exponent operand: it is cast and multiplied, and `mul` re-normalises) -/
theorem pow_canon' (fuel : Nat) (x n r : Flt) (hx : x.Canonical) (hF : x.sem.WF)
    (h : x.powFuel fuel n = some r) : r.Canonical ∧ r.sem = x.sem :=
  powFuel_canonical fuel x n r hF hx h

theorem sin_canon (fuel : Nat) (x r : Flt) (hx : x.Canonical) (hF : x.sem.WF)
    (h : x.sinFuel fuel = some r) : r.Canonical ∧ r.sem = x.sem :=
  sinFuel_canonical fuel x r hF hx h

theorem cos_canon (fuel : Nat) (x r : Flt) (hx : x.Canonical) (hF : x.sem.WF)
    (h : x.cosFuel fuel = some r) : r.Canonical ∧ r.sem = x.sem :=
  cosFuel_canonical fuel x r hF hx h

theorem tan_canon (fuel : Nat) (x r : Flt) (hx : x.Canonical) (hF : x.sem.WF)
    (h : x.tanFuel fuel = some r) : r.Canonical ∧ r.sem = x.sem :=
  tanFuel_canonical fuel x r hF hx h

theorem pi_canon (fuel : Nat) (F : Sem) (hF : F.WF) (r : Flt) (h : piFuel fuel F = some r) :
    r.Canonical ∧ r.sem = F := piFuel_canonical fuel F hF r h

theorem e_canon (F : Sem) (hF : F.WF) : (eConst F).Canonical ∧ (eConst F).sem = F :=
  C15.eConst_canonical F hF

theorem ln2_canon (F : Sem) (hF : F.WF) : (ln2Const F).Canonical ∧ (ln2Const F).sem = F :=
  C15.ln2Const_canonical F hF

theorem sqr_canon (x : Flt) (hx : x.Canonical) (hF : x.sem.WF) :
    x.sqr.Canonical ∧ x.sqr.sem = x.sem := sqr_canonical x hF hx

/-! ## Histories with transcendental nodes -/

/-- A history of operations: every node kind of `Expr` plus the transcendental functions and the
    constants. -/
inductive ExprT
  | lit (x : Flt)
  | add (rm : RM) (a b : ExprT)
  | sub (rm : RM) (a b : ExprT)
  | mul (rm : RM) (a b : ExprT)
  | div (rm : RM) (a b : ExprT)
  | cast (tgt : Sem) (rm : RM) (e : ExprT)
  /-- `Float::cast`: the source format's own mode -/
  | castOwn (tgt : Sem) (e : ExprT)
  | scale (k : Int) (rm : RM) (e : ExprT)
  | trunc (e : ExprT)
  | round (e : ExprT)
  | abs (e : ExprT)
  | neg (e : ExprT)
  | min (a b : ExprT)
  | max (a b : ExprT)
  | powi (n : Nat) (e : ExprT)
  | fromU64 (sem : Sem) (v : Nat)
  | fromI64 (sem : Sem) (v : Int)
  | fromBigint (sem : Sem) (v : Nat)
  | rem (fuel : Nat) (a b : ExprT)
  | sqrt (fuel : Nat) (e : ExprT)
  -- the transcendental part of the API
  | exp (fuel : Nat) (e : ExprT)
  | log (fuel : Nat) (e : ExprT)
  | sigmoid (fuel : Nat) (e : ExprT)
  | pow (fuel : Nat) (a b : ExprT)
  | sin (fuel : Nat) (e : ExprT)
  | cos (fuel : Nat) (e : ExprT)
  | tan (fuel : Nat) (e : ExprT)
  | pi (fuel : Nat) (sem : Sem)
  | e (sem : Sem)
  | ln2 (sem : Sem)

/-- Evaluate a history with the implementation model; `none` when a binary node meets two
    formats or when a fuel-bounded loop runs out of fuel. -/
def evalT : ExprT → Option Flt
  | .lit x => some x
  | .add rm a b => bin (fun x y => some (addWithRm x y rm)) (evalT a) (evalT b)
  | .sub rm a b => bin (fun x y => some (subWithRm x y rm)) (evalT a) (evalT b)
  | .mul rm a b => bin (fun x y => some (mulWithRm x y rm)) (evalT a) (evalT b)
  | .div rm a b => bin (fun x y => some (divWithRm x y rm)) (evalT a) (evalT b)
  | .cast tgt rm e => (evalT e).bind (fun x => some (x.castWithRm tgt rm))
  | .castOwn tgt e => (evalT e).bind (fun x => some (x.cast tgt))
  | .scale k rm e => (evalT e).bind (fun x => some (x.scale k rm))
  | .trunc e => (evalT e).bind (fun x => some x.trunc)
  | .round e => (evalT e).bind (fun x => some x.round)
  | .abs e => (evalT e).bind (fun x => some x.abs)
  | .neg e => (evalT e).bind (fun x => some x.neg)
  | .min a b => bin (fun x y => some (x.min y)) (evalT a) (evalT b)
  | .max a b => bin (fun x y => some (x.max y)) (evalT a) (evalT b)
  | .powi n e => (evalT e).bind (fun x => some (x.powi n))
  | .fromU64 sem v => some (Arp.fromU64 sem v)
  | .fromI64 sem v => some (Arp.fromI64 sem v)
  | .fromBigint sem v => some (Arp.fromBigint sem v)
  | .rem fuel a b => bin (fun x y => x.remFuel fuel y) (evalT a) (evalT b)
  | .sqrt fuel e => (evalT e).bind (fun x => x.sqrtFuel fuel)
  | .exp fuel e => (evalT e).bind (fun x => x.expFuel fuel)
  | .log fuel e => (evalT e).bind (fun x => x.logFuel fuel)
  | .sigmoid fuel e => (evalT e).bind (fun x => x.sigmoidFuel fuel)
  | .pow fuel a b => bin (fun x y => x.powFuel fuel y) (evalT a) (evalT b)
  | .sin fuel e => (evalT e).bind (fun x => x.sinFuel fuel)
  | .cos fuel e => (evalT e).bind (fun x => x.cosFuel fuel)
  | .tan fuel e => (evalT e).bind (fun x => x.tanFuel fuel)
  | .pi fuel sem => piFuel fuel sem
  | .e sem => some (eConst sem)
  | .ln2 sem => some (ln2Const sem)

/-- Every literal is canonical in a well-formed format; every target format is well formed. -/
def ExprT.WFLeaves : ExprT → Prop
  | .lit x => x.Canonical ∧ x.sem.WF
  | .add _ a b | .sub _ a b | .mul _ a b | .div _ a b | .min a b | .max a b | .rem _ a b
  | .pow _ a b => a.WFLeaves ∧ b.WFLeaves
  | .cast tgt _ t | .castOwn tgt t => tgt.WF ∧ t.WFLeaves
  | .scale _ _ t | .trunc t | .round t | .abs t | .neg t | .powi _ t | .sqrt _ t
  | .exp _ t | .log _ t | .sigmoid _ t | .sin _ t | .cos _ t | .tan _ t => t.WFLeaves
  | .fromU64 sem _ | .fromI64 sem _ | .fromBigint sem _ | .pi _ sem | .e sem | .ln2 sem => sem.WF

/-- the old language embeds -/
def ExprT.ofExpr : Expr → ExprT
  | .lit x => .lit x
  | .add rm a b => .add rm (ofExpr a) (ofExpr b)
  | .sub rm a b => .sub rm (ofExpr a) (ofExpr b)
  | .mul rm a b => .mul rm (ofExpr a) (ofExpr b)
  | .div rm a b => .div rm (ofExpr a) (ofExpr b)
  | .cast tgt rm t => .cast tgt rm (ofExpr t)
  | .castOwn tgt t => .castOwn tgt (ofExpr t)
  | .scale k rm t => .scale k rm (ofExpr t)
  | .trunc t => .trunc (ofExpr t)
  | .round t => .round (ofExpr t)
  | .abs t => .abs (ofExpr t)
  | .neg t => .neg (ofExpr t)
  | .min a b => .min (ofExpr a) (ofExpr b)
  | .max a b => .max (ofExpr a) (ofExpr b)
  | .powi n t => .powi n (ofExpr t)
  | .fromU64 sem v => .fromU64 sem v
  | .fromI64 sem v => .fromI64 sem v
  | .fromBigint sem v => .fromBigint sem v
  | .rem fuel a b => .rem fuel (ofExpr a) (ofExpr b)
  | .sqrt fuel t => .sqrt fuel (ofExpr t)

theorem evalT_ofExpr (e : Expr) : evalT (ExprT.ofExpr e) = eval e := by
  induction e <;> simp only [ExprT.ofExpr, evalT, eval, *]

theorem WFLeaves_ofExpr (e : Expr) : (ExprT.ofExpr e).WFLeaves ↔ e.WFLeaves := by
  induction e <;> simp only [ExprT.ofExpr, ExprT.WFLeaves, Expr.WFLeaves, *]

/-- a binary node is fine when the operation is -/
theorem binT_ok (f : Flt → Flt → Option Flt)
    (hf : ∀ x y r, x.sem.WF → y.sem = x.sem → x.Canonical → y.Canonical → f x y = some r →
      r.Canonical ∧ r.sem = x.sem)
    (ea eb : Option Flt)
    (iha : ∀ r, ea = some r → r.Canonical ∧ r.sem.WF)
    (ihb : ∀ r, eb = some r → r.Canonical ∧ r.sem.WF)
    (r : Flt) (h : bin f ea eb = some r) : r.Canonical ∧ r.sem.WF := by
  unfold bin at h
  split at h
  · rename_i x y
    split at h
    · rename_i hs
      obtain ⟨hx, hxF⟩ := iha x rfl
      obtain ⟨hy, _⟩ := ihb y rfl
      obtain ⟨h1, h2⟩ := hf x y r hxF hs hx hy h
      exact ⟨h1, by rw [h2]; exact hxF⟩
    · cases h
  · cases h

/-- a unary node is fine when the operation is -/
theorem unT_ok (f : Flt → Option Flt)
    (hf : ∀ x r, x.sem.WF → x.Canonical → f x = some r → r.Canonical ∧ r.sem.WF)
    (ea : Option Flt) (iha : ∀ r, ea = some r → r.Canonical ∧ r.sem.WF)
    (r : Flt) (h : ea.bind f = some r) : r.Canonical ∧ r.sem.WF := by
  cases ea with
  | none => cases h
  | some x =>
    obtain ⟨hx, hxF⟩ := iha x rfl
    exact hf x r hxF hx h

/-- a unary node that keeps the format -/
theorem unT_same (f : Flt → Option Flt)
    (hf : ∀ x r, x.sem.WF → x.Canonical → f x = some r → r.Canonical ∧ r.sem = x.sem)
    (ea : Option Flt) (iha : ∀ r, ea = some r → r.Canonical ∧ r.sem.WF)
    (r : Flt) (h : ea.bind f = some r) : r.Canonical ∧ r.sem.WF :=
  unT_ok f (fun x r hF hx h' => by
    have := hf x r hF hx h'
    exact ⟨this.1, by rw [this.2]; exact hF⟩) ea iha r h

/-- **C04 for histories, transcendental functions included**: whatever finite tree of public
    operations is applied to canonical literals of well-formed formats, every value that results
    is canonical (and its format is well formed, so that the statement composes). -/
theorem evalT_canonical (e : ExprT) (h : e.WFLeaves) (r : Flt) (hr : evalT e = some r) :
    r.Canonical ∧ r.sem.WF := by
  induction e generalizing r with
  | lit x => cases hr; exact h
  | add rm a b iha ihb =>
    exact binT_ok _ (fun x y r hF hs hx hy h => by cases h; exact add_canon x y rm hF hs hx hy)
      _ _ (iha h.1) (ihb h.2) r hr
  | sub rm a b iha ihb =>
    exact binT_ok _ (fun x y r hF hs hx hy h => by cases h; exact sub_canon x y rm hF hs hx hy)
      _ _ (iha h.1) (ihb h.2) r hr
  | mul rm a b iha ihb =>
    exact binT_ok _ (fun x y r hF _ _ _ h => by cases h; exact mul_canon x y rm hF)
      _ _ (iha h.1) (ihb h.2) r hr
  | div rm a b iha ihb =>
    exact binT_ok _ (fun x y r hF _ _ _ h => by cases h; exact div_canon x y rm hF)
      _ _ (iha h.1) (ihb h.2) r hr
  | cast tgt rm e ih =>
    refine unT_ok _ (fun x r _ hx h' => ?_) _ (ih h.2) r hr
    cases h'
    have := castWithRm_canon x tgt rm h.1 hx
    exact ⟨this.1, by rw [this.2]; exact h.1⟩
  | castOwn tgt e ih =>
    refine unT_ok _ (fun x r _ hx h' => ?_) _ (ih h.2) r hr
    cases h'
    have := cast_canon x tgt h.1 hx
    exact ⟨this.1, by rw [this.2]; exact h.1⟩
  | scale k rm e ih =>
    exact unT_same _ (fun x r hF hx h' => by cases h'; exact scale_canon x k rm hF hx) _ (ih h) r hr
  | trunc e ih =>
    exact unT_same _ (fun x r _ hx h' => by cases h'; exact trunc_canon x hx) _ (ih h) r hr
  | round e ih =>
    exact unT_same _ (fun x r hF hx h' => by cases h'; exact round_canon x hF hx) _ (ih h) r hr
  | abs e ih =>
    exact unT_same _ (fun x r _ hx h' => by cases h'; exact abs_canon x hx) _ (ih h) r hr
  | neg e ih =>
    exact unT_same _ (fun x r _ hx h' => by cases h'; exact neg_canon x hx) _ (ih h) r hr
  | min a b iha ihb =>
    exact binT_ok _ (fun x y r _ hs hx hy h => by cases h; exact min_canon x y hs hx hy)
      _ _ (iha h.1) (ihb h.2) r hr
  | max a b iha ihb =>
    exact binT_ok _ (fun x y r _ hs hx hy h => by cases h; exact max_canon x y hs hx hy)
      _ _ (iha h.1) (ihb h.2) r hr
  | powi n e ih =>
    exact unT_same _ (fun x r hF hx h' => by cases h'; exact powi_canon x n hF hx) _ (ih h) r hr
  | fromU64 sem v =>
    cases hr
    have := fromU64_canon sem v h
    exact ⟨this.1, by rw [this.2]; exact h⟩
  | fromI64 sem v =>
    cases hr
    have := fromI64_canon sem v h
    exact ⟨this.1, by rw [this.2]; exact h⟩
  | fromBigint sem v =>
    cases hr
    have := fromBigint_canon sem v h
    exact ⟨this.1, by rw [this.2]; exact h⟩
  | rem fuel a b iha ihb =>
    exact binT_ok _ (fun x y r hF hs hx hy h => rem_canon fuel x y r hF hs hx hy h)
      _ _ (iha h.1) (ihb h.2) r hr
  | sqrt fuel e ih =>
    exact unT_same _ (fun x r hF hx h' => sqrt_canon fuel x r hF hx h') _ (ih h) r hr
  | exp fuel e ih =>
    exact unT_same _ (fun x r hF hx h' => exp_canon fuel x r hx hF h') _ (ih h) r hr
  | log fuel e ih =>
    exact unT_same _ (fun x r hF hx h' => log_canon fuel x r hx hF h') _ (ih h) r hr
  | sigmoid fuel e ih =>
    exact unT_same _ (fun x r hF hx h' => sigmoid_canon fuel x r hx hF h') _ (ih h) r hr
  | pow fuel a b iha ihb =>
    exact binT_ok _ (fun x y r hF hs hx hy h => pow_canon fuel x y r hx hy hs hF h)
      _ _ (iha h.1) (ihb h.2) r hr
  | sin fuel e ih =>
    exact unT_same _ (fun x r hF hx h' => sin_canon fuel x r hx hF h') _ (ih h) r hr
  | cos fuel e ih =>
    exact unT_same _ (fun x r hF hx h' => cos_canon fuel x r hx hF h') _ (ih h) r hr
  | tan fuel e ih =>
    exact unT_same _ (fun x r hF hx h' => tan_canon fuel x r hx hF h') _ (ih h) r hr
  | pi fuel sem =>
    have := pi_canon fuel sem h r hr
    exact ⟨this.1, by rw [this.2]; exact h⟩
  | e sem =>
    cases hr
    have := e_canon sem h
    exact ⟨this.1, by rw [this.2]; exact h⟩
  | ln2 sem =>
    cases hr
    have := ln2_canon sem h
    exact ⟨this.1, by rw [this.2]; exact h⟩

/-- the old theorem is the restriction of the new one -/
theorem eval_canonical_of_evalT (e : Expr) (h : e.WFLeaves) (r : Flt) (hr : eval e = some r) :
    r.Canonical ∧ r.sem.WF :=
  evalT_canonical (ExprT.ofExpr e) ((WFLeaves_ofExpr e).mpr h) r (by rw [evalT_ofExpr]; exact hr)

/-! ## The hypotheses are satisfiable: two non-trivial histories in FP16 -/

/-- `sin(π/2) + exp(1)` in FP16, nearest-even, fuel 5 for every loop -/
def exT1 : ExprT :=
  .add .nte (.sin 5 (.div .nte (.pi 5 FP16) (.fromU64 FP16 2))) (.exp 5 (.lit one16))

/-- `tan(cos 1) · 3^sigmoid(log e)` in FP16 -/
def exT2 : ExprT :=
  .mul .nte (.tan 5 (.cos 5 (.lit one16)))
    (.pow 40 (.lit three16) (.sigmoid 5 (.log 40 (.e FP16))))

theorem exT1_wf : exT1.WFLeaves := by
  simp only [exT1, ExprT.WFLeaves, Sem.WF, one16, FP16, Flt.Canonical]
  decide

theorem exT2_wf : exT2.WFLeaves := by
  simp only [exT2, ExprT.WFLeaves, Sem.WF, one16, three16, FP16, Flt.Canonical]
  decide

set_option maxRecDepth 100000 in
/-- it evaluates: `1.0 + 2.71875 = 3.71875 = 1904·2^-9` -/
theorem exT1_eval : evalT exT1 = some ⟨FP16, false, 1, 1904, .normal⟩ := by decide

set_option maxRecDepth 100000 in
/-- it evaluates: `≈ 0.599 · 2.232 ≈ 1.340 = 1372·2^-10` -/
theorem exT2_eval : evalT exT2 = some ⟨FP16, false, 0, 1372, .normal⟩ := by decide

example : ∃ r, evalT exT1 = some r ∧ r.Canonical ∧ r.sem.WF :=
  ⟨_, exT1_eval, evalT_canonical exT1 exT1_wf _ exT1_eval⟩

example : ∃ r, evalT exT2 = some r ∧ r.Canonical ∧ r.sem.WF :=
  ⟨_, exT2_eval, evalT_canonical exT2 exT2_wf _ exT2_eval⟩

end Arp.C04
