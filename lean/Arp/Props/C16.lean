import Arp.Lemmas.Trans
import Arp.Props.C01
import Arp.Props.C05
import Arp.Props.C06
import Arp.Props.C08
import Arp.Props.C10
import Arp.Props.SpecRound
/-!
# C16 — `exp`, `log`, `sigmoid`: special operands (structural clauses)

Every theorem holds for every format, every rounding mode and every fuel unless a
hypothesis says otherwise.  The ulp-accuracy of the functions is not part of this file.
-/
namespace Arp.C16
open Arp

/-! ### Helpers about `1.0` (shared with C17–C19) -/

/-- a representable scaled value is returned exactly -/
theorem scale_exact_eq (x y : Flt) (k : Int) (rm : RM) (hF : x.sem.WF) (hx : x.cat = .normal)
    (hc : x.Canonical) (hys : y.sem = x.sem) (hy : y.cat = .normal) (hyc : y.Canonical)
    (hs : y.sign = x.sign) (hm : y.mag = x.mag * (2:ℚ) ^ k) : x.scale k rm = y := by
  apply Flt.eq_of_toRes_eq ((scale_sem_tr x k rm).trans hys.symm) hy
  rw [C10.scale_correct x k rm hF hc]
  unfold Spec.scaleExact
  rw [hx]
  simp only
  rw [← hm, ← hs, ← hys, round_canonical_exact y rm (by rw [hys]; exact hF) hy hyc]
  simp [Flt.toRes, hy]

/-! ### `exp` -/

/-- `exp(±0) = 1` -/
theorem exp_zero (f : Nat) (x : Flt) (h : x.cat = .zero) :
    x.expFuel f = some (Flt.one x.sem false) := by
  simp [Flt.expFuel, Flt.isZero, h]

/-- `exp(+∞) = +∞` -/
theorem exp_pos_inf (f : Nat) (x : Flt) (h : x.cat = .inf) (hs : x.sign = false) :
    x.expFuel f = some (Flt.inf x.sem false) := by
  simp [Flt.expFuel, Flt.isZero, Flt.isInf, h, hs]

/-- `exp(−∞) = +0` -/
theorem exp_neg_inf (f : Nat) (x : Flt) (h : x.cat = .inf) (hs : x.sign = true) :
    x.expFuel f = some (Flt.zero x.sem false) := by
  simp [Flt.expFuel, Flt.isZero, Flt.isInf, h, hs]

/-- `exp(NaN) = NaN` (the sign of the operand is kept) -/
theorem exp_nan (f : Nat) (x : Flt) (h : x.cat = .nan) :
    x.expFuel f = some (Flt.nan x.sem x.sign) := by
  simp [Flt.expFuel, Flt.isZero, Flt.isInf, Flt.isNormal, h]

/-! ### `log` -/

/-- `log(±0) = −∞`: the model (as the Rust code) returns `−∞` for both zeros. -/
theorem log_zero (f : Nat) (x : Flt) (h : x.cat = .zero) :
    x.logFuel f = some (Flt.inf x.sem true) := by
  simp [Flt.logFuel, Flt.isZero, h]

/-- `log(+0) = −∞` -/
theorem log_pos_zero (f : Nat) (F : Sem) : (Flt.zero F false).logFuel f = some (Flt.inf F true) :=
  log_zero f _ rfl

/-- `log(+∞) = +∞` (the operand itself is returned) -/
theorem log_pos_inf (f : Nat) (x : Flt) (h : x.cat = .inf) (hs : x.sign = false) :
    x.logFuel f = some x := by
  simp [Flt.logFuel, Flt.isZero, Flt.isInf, h, hs]

/-- `log` of a negative normal number or of `−∞` is NaN -/
theorem log_negative (f : Nat) (x : Flt) (h : x.cat = .normal ∨ x.cat = .inf) (hs : x.sign = true) :
    x.logFuel f = some (Flt.nan x.sem true) := by
  rcases h with h | h <;> simp [Flt.logFuel, Flt.isZero, Flt.isInf, Flt.isNormal, h, hs]

/-- `log(NaN) = NaN` -/
theorem log_nan (f : Nat) (x : Flt) (h : x.cat = .nan) :
    x.logFuel f = some (Flt.nan x.sem x.sign) := by
  simp [Flt.logFuel, Flt.isZero, Flt.isInf, Flt.isNormal, h]

/-! ### `log(1) = +0` -/

theorem one_mag (F : Sem) (sg : Bool) (hp : 1 ≤ F.p) : (Flt.one F sg).mag = 1 := by
  rw [Flt.mag_eq]
  simp only [Flt.one, Nat.shiftLeft_eq, one_mul]
  push_cast
  rw [← zpow_natCast, ← zpow_add₀ (by norm_num : (2:ℚ) ≠ 0)]
  have : ((F.p - 1 : Nat) : Int) + (0 - ((F.p : Int) - 1)) = 0 := by omega
  rw [this, zpow_zero]

/-- `1.0` is cast to `1.0`, between any two well-formed formats, in every mode -/
theorem cast_one (F G : Sem) (sg : Bool) (rm : RM) (hF : F.WF) (hG : G.WF) :
    (Flt.one F sg).castWithRm G rm = Flt.one G sg :=
  C06.cast_exact_eq _ G rm hF hG rfl (Flt.one_canonical F sg hF) _ rfl rfl
    (Flt.one_canonical G sg hG) rfl
    (by rw [one_mag G sg (by have := hG.2; omega), one_mag F sg (by have := hF.2; omega)])

theorem fromU64_one (F : Sem) (hF : F.WF) : fromU64 F 1 = Flt.one F false :=
  C08.fromU64_exact F 1 hF (by norm_num) _ rfl rfl (Flt.one_canonical F false hF) rfl
    (by rw [one_mag F false (by have := hF.2; omega)]; norm_num)

/-- a positive value of magnitude at least one is not below `1.0` after a cast (any mode) -/
theorem one_not_gt_cast (x : Flt) (G : Sem) (rm : RM) (hF : x.sem.WF) (hG : G.WF)
    (hx : x.cat = .normal) (hc : x.Canonical) (hs : x.sign = false) (h1 : 1 ≤ x.mag) :
    (Flt.one G false).gt (x.castWithRm G rm) = false := by
  have hGp : 1 ≤ G.p := by have := hG.2; omega
  have huc := castWithRm_canonical x G rm hG hc
  have hres0 := cast_normal x G rm hF hG hx hc
  generalize x.castWithRm G rm = u at *
  have hres : u.toRes = Spec.round G rm false x.mag := by
    rw [hres0, hs]
  have hone : Spec.round G rm false 1 = .fin false 0 (2 ^ (G.p - 1)) := by
    have := round_canonical_exact (Flt.one G false) rm hG rfl (Flt.one_canonical G false hG)
    rw [one_mag _ _ hGp] at this
    simpa [Flt.one, Nat.shiftLeft_eq] using this
  have hmono := SpecRound.round_mono hG (by norm_num : (0:ℚ) < 1) h1 rm false
  rw [hone, ← hres] at hmono
  have hk1 : Res.key G (.fin false 0 (2 ^ (G.p - 1))) = ((1 : ℚ) : WithTop ℚ) := by
    have := one_mag G false hGp
    rw [Flt.mag_eq] at this
    simp only [Flt.one, Nat.shiftLeft_eq, one_mul] at this
    simp only [Res.key]
    rw [this]
  rw [hk1] at hmono
  have hpos : (0:ℚ) < x.mag := lt_of_lt_of_le (by norm_num) h1
  have hsign : u.cat = .normal ∨ u.cat = .inf → u.sign = false := by
    intro hcat
    rcases SpecRound.round_cases hG hpos rm false with h | h | ⟨e, m, h⟩ <;> rw [← hres] at h <;>
      rcases hcat with hcat | hcat <;> simp [Flt.toRes, hcat] at h
    · exact h
    · exact h.1
  have hW1 : (Flt.one G false).sem.WF := hG
  rw [C05.gt_iff _ _ hW1 huc.2 (Flt.one_canonical G false hG) huc.1, decide_eq_false_iff_not,
    Spec.cmp_gt_iff]
  rintro ⟨_, hnan, hlt⟩
  cases hcat : u.cat
  · -- inf
    have := hsign (Or.inr hcat)
    unfold Spec.key at hlt
    rw [Spec.ext_inf hcat, this, Spec.ext_fin (by simp [Flt.one])] at hlt
    simp [Prod.Lex.toLex_lt_toLex] at hlt
  · exact hnan hcat
  · have hsg := hsign (Or.inl hcat)
    have hkey : Res.key G u.toRes = ((u.mag : ℚ) : WithTop ℚ) := by
      simp only [Flt.toRes, hcat, Res.key]
      rw [Flt.mag_eq, huc.2]
    rw [hkey] at hmono
    have hle : (1:ℚ) ≤ u.mag := by exact_mod_cast hmono
    unfold Spec.key at hlt
    rw [Spec.ext_fin (by simp [hcat]), Spec.ext_fin (by simp [Flt.one])] at hlt
    rw [Prod.Lex.toLex_lt_toLex] at hlt
    simp only [lt_self_iff_false, true_and, false_or] at hlt
    rw [Flt.val_normal hcat, Flt.val_normal rfl, hsg] at hlt
    simp only [Flt.one, Bool.false_eq_true, if_false] at hlt
    have := one_mag G false hGp
    simp only [Flt.one] at this
    rw [this] at hlt
    linarith
  · -- zero
    have : Res.key G u.toRes = ((0 : ℚ) : WithTop ℚ) := by simp [Flt.toRes, hcat, Res.key]
    rw [this] at hmono
    have : (1:ℚ) ≤ 0 := by exact_mod_cast hmono
    linarith

/-- `1 - 1 = +0` under mode `None` -/
theorem one_sub_one (G : Sem) :
    subWithRm (Flt.one G false) (Flt.one G false) .none = Flt.zero G false := by
  simp [subWithRm, addSub, Flt.one, addOrSubNormals, Flt.new, Flt.normalize, Flt.isZero,
    Flt.setSign, Flt.zero, Loss.invert]

/-- `1 + 1` is a positive number or `+∞` (it is `2`; only the shape is needed here) -/
theorem one_add_one_shape (G : Sem) (rm : RM) (hG : G.WF) :
    ((addWithRm (Flt.one G false) (Flt.one G false) rm).cat = .normal ∨
      (addWithRm (Flt.one G false) (Flt.one G false) rm).cat = .inf) ∧
    (addWithRm (Flt.one G false) (Flt.one G false) rm).sign = false := by
  have hGp : 1 ≤ G.p := by have := hG.2; omega
  have h1c := Flt.one_canonical G false hG
  have h := C01.add_correct (Flt.one G false) (Flt.one G false) rm hG rfl h1c h1c
  have hv : (Flt.one G false).val = 1 := by
    rw [Flt.val_normal rfl]; simp only [Flt.one, Bool.false_eq_true, if_false]
    have := one_mag G false hGp; simpa [Flt.one] using this
  have hadd : Spec.add G rm (Flt.one G false) (Flt.one G false) = Spec.round G rm false 2 := by
    simp only [Spec.add, Spec.isNan, Spec.isInf, Spec.isZero, Flt.one, Spec.roundQ]
    have hv' : (Flt.val ⟨G, false, 0, 1 <<< (G.p - 1), .normal⟩ : ℚ) = 1 := hv
    simp [hv']
    norm_num
  rw [show (Flt.one G false).sem = G from rfl, hadd] at h
  have hne : ∀ s', Spec.round G rm false 2 ≠ .zero s' := fun s' =>
    round_ne_zero G rm false s' 2 hGp (by
      calc (2:ℚ) ^ (G.emin - ((G.p:Int) - 1)) ≤ (2:ℚ) ^ (1:Int) :=
            zpow_le_zpow_right₀ (by norm_num) (by have := Sem.emin_le_zero hG; omega)
        _ = 2 := by norm_num)
  generalize addWithRm (Flt.one G false) (Flt.one G false) rm = d at *
  rcases SpecRound.round_cases hG (by norm_num : (0:ℚ) < 2) rm false with h' | h' | ⟨e, m, h'⟩
  · exact absurd h' (hne _)
  · rw [h'] at h
    cases hc : d.cat <;> simp [Flt.toRes, hc] at h
    exact ⟨Or.inr rfl, h⟩
  · rw [h'] at h
    cases hc : d.cat <;> simp [Flt.toRes, hc] at h
    exact ⟨Or.inl rfl, h.1⟩

theorem zero_div_pos (G : Sem) (b : Flt) (rm : RM) (hb : b.cat = .normal ∨ b.cat = .inf)
    (hs : b.sign = false) : divWithRm (Flt.zero G false) b rm = Flt.zero G false := by
  rcases hb with hb | hb <;> simp [divWithRm, Flt.zero, hb, hs]

theorem zero_add_zero (G : Sem) (rm : RM) :
    addWithRm (Flt.zero G false) (Flt.zero G false) rm = Flt.zero G false := by
  simp [addWithRm, addSub, Flt.zero]

/-- `log_taylor(1) = +0`: `z = (1-1)/(1+1) = +0`, every term of the series is `+0`. -/
theorem logTaylor_one (G : Sem) (hG : G.WF) : logTaylor (Flt.one G false) = Flt.zero G false := by
  obtain ⟨hc, hs⟩ := one_add_one_shape G .none hG
  have hz : divWithRm (subWithRm (Flt.one G false) (Flt.one G false) .none)
      (addWithRm (Flt.one G false) (Flt.one G false) .none) .none = Flt.zero G false := by
    rw [one_sub_one, zero_div_pos G _ _ hc hs]
  unfold logTaylor
  simp only [show (Flt.one G false).sem = G from rfl]
  rw [hz]
  have hb1 : Flt.beq (Flt.one G true) (Flt.zero G false) = false := by
    simp [Flt.beq, Flt.one, Flt.zero]
  have hb2 : Flt.beq (Flt.zero G false) (Flt.zero G false) = true := by
    simp [Flt.beq, Flt.zero]
  have hd : divWithRm (Flt.zero G false) (fromU64 G (0 * 2 + 1)) .none = Flt.zero G false := by
    rw [show 0 * 2 + 1 = 1 from rfl, fromU64_one G hG]
    exact zero_div_pos G _ _ (Or.inl rfl) rfl
  obtain ⟨n, hn⟩ : ∃ n, Nat.max 50 G.p = n + 1 + 1 :=
    ⟨Nat.max 50 G.p - 2, by have : 50 ≤ Nat.max 50 G.p := Nat.le_max_left 50 G.p; omega⟩
  rw [hn]
  rw [logTaylorLoop]
  simp only [hb1, Bool.false_eq_true, if_false, hd, zero_add_zero]
  rw [logTaylorLoop]
  simp only [hb2, if_true]
  exact C10.scale_special _ _ _ (by simp [Flt.zero])

theorem c1001_eq : fromF64 f64_1_001 = ⟨FP64, false, 0, 4508103226997866, .normal⟩ := by decide

theorem logRangeReduce_one (G : Sem) (hG : G.WF) (f : Nat) :
    logRangeReduce (f + 1) (Flt.one G false) = some (Flt.zero G false) := by
  have hgt : (Flt.one G false).gt ((fromF64 f64_1_001).cast G) = false := by
    rw [c1001_eq]
    exact one_not_gt_cast _ G _ (by decide) hG rfl (by decide) rfl
      (by rw [Flt.mag_eq]; norm_num [FP64])
  have hlt : (Flt.one G false).lt (fromU64 G 1) = false := by
    rw [fromU64_one G hG]
    exact C05.lt_irrefl _ hG (Flt.one_canonical G false hG)
  rw [logRangeReduce]
  simp only [show (Flt.one G false).sem = G from rfl, hgt, hlt, Bool.false_eq_true, if_false]
  rw [logTaylor_one G hG]

/-- **`log(1) = +0`** in every well-formed format, every mode, for any fuel `≥ 1`. -/
theorem log_one (F : Sem) (hF : F.WF) (f : Nat) (hf : 1 ≤ f) :
    (Flt.one F false).logFuel f = some (Flt.zero F false) := by
  obtain ⟨f', rfl⟩ : ∃ f', f = f' + 1 := ⟨f - 1, by omega⟩
  have hG : ((F.growLog 10).increaseExponent 10).WF :=
    Sem.increaseExponent_WF (Sem.growLog_WF hF 10) 10
  unfold Flt.logFuel
  simp only [Flt.isZero, Flt.isInf, Flt.isNormal, Flt.one, show (Cat.normal == Cat.zero) = false from rfl,
    show (Cat.normal == Cat.inf) = false from rfl, Bool.false_and, Bool.false_eq_true, if_false,
    beq_self_eq_true, Bool.not_true, Bool.or_self]
  have := cast_one F ((F.growLog 10).increaseExponent 10) false .none hF hG
  simp only [Flt.one] at this
  rw [this]
  have h2 := logRangeReduce_one _ hG f'
  simp only [Flt.one] at h2
  rw [h2]
  simp [Flt.castWithRm, Flt.zero]

example : (Flt.one FP16 false).logFuel 1 = some (Flt.zero FP16 false) := log_one _ (by decide) _ (by decide)

/-! ### `sigmoid` -/

/-- `sigmoid(±0)` is `1.scale(-1)` -/
theorem sigmoid_zero (f : Nat) (x : Flt) (h : x.cat = .zero) :
    x.sigmoidFuel f = some ((Flt.one x.sem false).scale (-1) .zero) := by
  simp [Flt.sigmoidFuel, Flt.isZero, Flt.isInf, h]

/-- `sigmoid(0)`: the value of `1.scale(-1)` is exactly one half -/
theorem half_spec (F : Sem) (hF : F.WF) (rm : RM) :
    ((Flt.one F false).scale (-1) rm).Canonical ∧ ((Flt.one F false).scale (-1) rm).cat = .normal ∧
    ((Flt.one F false).scale (-1) rm).sem = F ∧ ((Flt.one F false).scale (-1) rm).val = 1 / 2 := by
  have hFp : 1 ≤ F.p := by have := hF.2; omega
  obtain ⟨y, hyF, hy, hyc, hys, hym⟩ := exists_canonical F hF false 1 (-1) (by norm_num)
    (Nat.one_lt_two_pow (by omega)) (by have := Sem.emin_le_zero hF; have := hF.2; omega)
    (by have := Sem.emax_pos hF; rw [show msb 1 = 1 by decide]; omega)
  have := scale_exact_eq (Flt.one F false) y (-1) rm hF rfl (Flt.one_canonical F false hF) hyF hy hyc
    hys (by rw [hym, one_mag F false hFp]; norm_num)
  rw [this]
  refine ⟨hyc, hy, hyF, ?_⟩
  rw [Flt.val_normal hy, hys, hym]; norm_num

/-- **`sigmoid(±0) = 1/2` exactly**, in every well-formed format and every mode -/
theorem sigmoid_zero_half (f : Nat) (x : Flt) (h : x.cat = .zero) (hF : x.sem.WF) :
    ∃ r, x.sigmoidFuel f = some r ∧ r.Canonical ∧ r.cat = .normal ∧ r.sem = x.sem ∧ r.val = 1 / 2 :=
  ⟨_, sigmoid_zero f x h, half_spec x.sem hF .zero⟩

/-- explicit representation of one half when `-1` is a normal exponent (`e ≥ 3`) -/
theorem half_repr (F : Sem) (hF : F.WF) (he : 3 ≤ F.e) (rm : RM) :
    (Flt.one F false).scale (-1) rm = ⟨F, false, -1, 2 ^ (F.p - 1), .normal⟩ := by
  have hFp : 1 ≤ F.p := by have := hF.2; omega
  have hmin : F.emin ≤ -1 := by
    rw [Sem.emin_eq]
    have : 2 ^ 2 ≤ 2 ^ (F.e - 1) := Nat.pow_le_pow_right (by norm_num) (by omega)
    omega
  have hmax := Sem.emax_pos hF
  apply scale_exact_eq (Flt.one F false) ⟨F, false, -1, 2 ^ (F.p - 1), .normal⟩ (-1) rm hF rfl
    (Flt.one_canonical F false hF) rfl rfl
  · rw [Flt.canonical_normal rfl]
    simp only
    exact ⟨hmin, by omega, by positivity, Nat.pow_lt_pow_right (by norm_num) (by omega), Or.inl (le_refl _)⟩
  · rfl
  · rw [Flt.mag_eq, Flt.mag_eq]
    simp only [Flt.one, Nat.shiftLeft_eq, one_mul]
    rw [mul_assoc, ← zpow_add₀ (by norm_num : (2:ℚ) ≠ 0)]
    congr 2; ring

/-- in the two-exponent-bit formats (`emin = 0`) one half is a subnormal -/
theorem half_repr_e2 (F : Sem) (hF : F.WF) (he : F.e = 2) (rm : RM) :
    (Flt.one F false).scale (-1) rm = ⟨F, false, 0, 2 ^ (F.p - 2), .normal⟩ := by
  have hFp : 2 ≤ F.p := hF.2
  have hmin : F.emin = 0 := by rw [Sem.emin_eq, he]; norm_num
  have hmax := Sem.emax_pos hF
  apply scale_exact_eq (Flt.one F false) ⟨F, false, 0, 2 ^ (F.p - 2), .normal⟩ (-1) rm hF rfl
    (Flt.one_canonical F false hF) rfl rfl
  · rw [Flt.canonical_normal rfl]
    simp only
    exact ⟨by omega, by omega, by positivity, Nat.pow_lt_pow_right (by norm_num) (by omega), Or.inr hmin.symm⟩
  · rfl
  · rw [Flt.mag_eq, Flt.mag_eq]
    simp only [Flt.one, Nat.shiftLeft_eq, one_mul]
    push_cast
    rw [mul_assoc, ← zpow_add₀ (by norm_num : (2:ℚ) ≠ 0), ← zpow_natCast, ← zpow_natCast,
      ← zpow_add₀ (by norm_num : (2:ℚ) ≠ 0), ← zpow_add₀ (by norm_num : (2:ℚ) ≠ 0)]
    congr 1
    omega

/-- `sigmoid(+∞) = 1` -/
theorem sigmoid_pos_inf (f : Nat) (x : Flt) (h : x.cat = .inf) (hs : x.sign = false) :
    x.sigmoidFuel f = some (Flt.one x.sem false) := by
  simp [Flt.sigmoidFuel, Flt.isInf, h, hs]

/-- `sigmoid(−∞) = +0` -/
theorem sigmoid_neg_inf (f : Nat) (x : Flt) (h : x.cat = .inf) (hs : x.sign = true) :
    x.sigmoidFuel f = some (Flt.zero x.sem false) := by
  simp [Flt.sigmoidFuel, Flt.isInf, h, hs]

/-- `sigmoid(NaN) = NaN` (the operand itself) -/
theorem sigmoid_nan (f : Nat) (x : Flt) (h : x.cat = .nan) : x.sigmoidFuel f = some x := by
  simp [Flt.sigmoidFuel, Flt.isInf, Flt.isZero, Flt.isNan, h]

/-! ### Concrete FP16 instances (evaluated by the kernel) -/

example : (Flt.zero FP16 true).expFuel 0 = some ⟨FP16, false, 0, 1024, .normal⟩ := by decide
example : (Flt.inf FP16 true).expFuel 0 = some ⟨FP16, false, 0, 0, .zero⟩ := by decide
example : (Flt.inf FP16 false).expFuel 0 = some ⟨FP16, false, 0, 0, .inf⟩ := by decide
example : (Flt.zero FP16 true).logFuel 0 = some ⟨FP16, true, 0, 0, .inf⟩ := by decide
example : (⟨FP16, true, 1, 1536, .normal⟩ : Flt).logFuel 0 = some ⟨FP16, true, 0, 0, .nan⟩ := by decide
example : (Flt.zero FP16 false).sigmoidFuel 0 = some ⟨FP16, false, -1, 1024, .normal⟩ := by decide
example : (Flt.zero ⟨2, 4, .nte⟩ false).sigmoidFuel 0 = some ⟨⟨2, 4, .nte⟩, false, 0, 4, .normal⟩ := by
  decide
example : (Flt.one FP16 false).scale (-1) .zero = ⟨FP16, false, -1, 1024, .normal⟩ :=
  half_repr FP16 (by decide) (by decide) _

end Arp.C16
