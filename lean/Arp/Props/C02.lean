import Arp.Props.SpecRound
import Arp.Props.C01
import Arp.Props.C06
import Arp.Props.C08
import Arp.Props.C10
import Arp.Lemmas.Canonical
/-!
# C02 — overflow saturates to infinity or the largest finite value as the mode dictates

Two layers:
* about the rounding specification alone (`Arp.SpecRound`, re-exported here): the overflow
  table, the exact threshold at which each mode class reaches it, "no spurious infinity",
  and that the saturated value is the canonical all-ones significand at `emax`;
* about the operations: every rounding operation of the model equals `Spec.round` of its
  exact result (C01, C06, C08, C10), so each inherits those facts; the corollaries below
  state "the result is an infinity **iff** the exact result is at/above the threshold of
  the mode" for multiplication, division, cast, scale and the integer loads, and the same
  for sums through `Spec.roundQ`.
-/
namespace Arp.C02
open Arp.SpecRound

/-- The overflow table of the property text. -/
theorem overflow_table (F : Sem) (rm : RM) (neg : Bool) :
    Spec.overflow F rm neg =
      if rm = .none ∨ rm = .nte ∨ rm = .nta ∨ rm.awayFor neg then Res.inf neg
      else Res.fin neg F.emax (2 ^ F.p - 1) := Arp.SpecRound.overflow_table rm neg

/-- The largest finite number is the all-ones significand at the maximum exponent, in
    canonical form (as a model value: what `overflow()` builds). -/
theorem largest_finite_canonical (x : Flt) (rm : RM) (hF : x.sem.WF) :
    (x.overflow rm).Canonical ∧
      ((x.overflow rm).toRes = .inf x.sign ∨ (x.overflow rm).toRes = .fin x.sign x.sem.emax (2 ^ x.sem.p - 1)) := by
  refine ⟨overflow_canonical x rm hF, ?_⟩
  rw [overflow_toRes x rm (by have := hF.2; omega), Arp.SpecRound.overflow_table]
  split
  · left; rfl
  · right; rfl

/-- `Spec.round` yields an infinity exactly at/above the threshold of the mode class. -/
theorem round_inf_iff {F : Sem} {q : ℚ} (hF : F.WF) (hq : 0 < q) (rm : RM) (neg s : Bool) :
    Spec.round F rm neg q = .inf s ↔
      (s = neg ∧ ((rm = .none ∧ (2:ℚ) ^ (F.emax + 1) ≤ q) ∨ (rm.awayFor neg ∧ maxFinite F < q) ∨
        ((rm = .nte ∨ rm = .nta) ∧ nearThreshold F ≤ q))) := round_eq_inf_iff hF hq rm neg s

/-- a result that rounds to a finite in-range value is never replaced by infinity -/
theorem no_spurious_infinity {F : Sem} {q : ℚ} (hF : F.WF) (hq : 0 < q) (rm : RM) (neg s : Bool)
    (h : Spec.round F rm neg q = .inf s) :
    s = neg ∧ (rm.truncFor neg → (2:ℚ) ^ (F.emax + 1) ≤ q) ∧ (rm.awayFor neg → maxFinite F < q) ∧
      (rm = .nte ∨ rm = .nta → nearThreshold F ≤ q) := no_spurious_inf hF hq rm neg s h

/-- the result is the table value iff the exact magnitude is at/above the mode's threshold -/
theorem round_overflow_iff {F : Sem} {q : ℚ} (hF : F.WF) (hq : 0 < q) (rm : RM) (neg : Bool) :
    Spec.round F rm neg q = Spec.overflow F rm neg ↔
      ((rm = .none ∧ (2:ℚ) ^ (F.emax + 1) ≤ q) ∨
       (rm.truncFor neg ∧ rm ≠ .none ∧ maxFinite F ≤ q) ∨
       (rm.awayFor neg ∧ maxFinite F < q) ∨
       ((rm = .nte ∨ rm = .nta) ∧ nearThreshold F ≤ q)) := round_overflow_iff_partial hF hq rm neg

/-! ### the operations inherit the table -/

private theorem mag_pos_of_canonical {x : Flt} (hx : x.cat = .normal) (hc : x.Canonical) : 0 < x.mag := by
  obtain ⟨_, _, h3, _, _⟩ := (Flt.canonical_normal hx).mp hc
  rw [Flt.mag_eq]
  have : (0:ℚ) < x.mant := by exact_mod_cast h3
  positivity

/-- multiplication of finite non-zero operands overflows to infinity iff the exact product
    is at/above the threshold of the mode -/
theorem mul_inf_iff (a b : Flt) (rm : RM) (s : Bool) (hF : a.sem.WF) (hs : b.sem = a.sem)
    (ha : a.Canonical) (hb : b.Canonical) (han : a.cat = .normal) (hbn : b.cat = .normal) :
    (mulWithRm a b rm).toRes = .inf s ↔
      (s = (a.sign ^^ b.sign) ∧
        ((rm = .none ∧ (2:ℚ) ^ (a.sem.emax + 1) ≤ a.mag * b.mag) ∨
         (rm.awayFor (a.sign ^^ b.sign) ∧ maxFinite a.sem < a.mag * b.mag) ∨
         ((rm = .nte ∨ rm = .nta) ∧ nearThreshold a.sem ≤ a.mag * b.mag))) := by
  rw [C01.mul_correct a b rm hF hs ha hb]
  have hq : 0 < a.mag * b.mag := mul_pos (mag_pos_of_canonical han ha) (mag_pos_of_canonical hbn hb)
  have : Spec.mul a.sem rm a b = Spec.round a.sem rm (a.sign ^^ b.sign) (a.mag * b.mag) := by
    simp [Spec.mul, Spec.isNan, Spec.isInf, Spec.isZero, han, hbn]
  rw [this]
  exact round_inf_iff hF hq rm _ s

/-- division of finite non-zero operands -/
theorem div_inf_iff (a b : Flt) (rm : RM) (s : Bool) (hF : a.sem.WF) (hs : b.sem = a.sem)
    (ha : a.Canonical) (hb : b.Canonical) (han : a.cat = .normal) (hbn : b.cat = .normal) :
    (divWithRm a b rm).toRes = .inf s ↔
      (s = (a.sign ^^ b.sign) ∧
        ((rm = .none ∧ (2:ℚ) ^ (a.sem.emax + 1) ≤ a.mag / b.mag) ∨
         (rm.awayFor (a.sign ^^ b.sign) ∧ maxFinite a.sem < a.mag / b.mag) ∨
         ((rm = .nte ∨ rm = .nta) ∧ nearThreshold a.sem ≤ a.mag / b.mag))) := by
  rw [C01.div_correct a b rm hF hs ha hb]
  have hq : 0 < a.mag / b.mag := div_pos (mag_pos_of_canonical han ha) (mag_pos_of_canonical hbn hb)
  have : Spec.div a.sem rm a b = Spec.round a.sem rm (a.sign ^^ b.sign) (a.mag / b.mag) := by
    simp [Spec.div, Spec.isNan, Spec.isInf, Spec.isZero, han, hbn]
  rw [this]
  exact round_inf_iff hF hq rm _ s

/-- cast of a finite non-zero value into `G` -/
theorem cast_inf_iff (x : Flt) (G : Sem) (rm : RM) (s : Bool) (hF : x.sem.WF) (hG : G.WF)
    (hc : x.Canonical) (hx : x.cat = .normal) :
    (x.castWithRm G rm).toRes = .inf s ↔
      (s = x.sign ∧
        ((rm = .none ∧ (2:ℚ) ^ (G.emax + 1) ≤ x.mag) ∨
         (rm.awayFor x.sign ∧ maxFinite G < x.mag) ∨
         ((rm = .nte ∨ rm = .nta) ∧ nearThreshold G ≤ x.mag))) := by
  rw [C06.cast_correct x G rm hF hG hc]
  have : Spec.cast G rm x = Spec.round G rm x.sign x.mag := by simp [Spec.cast, hx]
  rw [this]
  exact round_inf_iff hG (mag_pos_of_canonical hx hc) rm _ s

/-- `scale(k)` of a finite non-zero value -/
theorem scale_inf_iff (x : Flt) (k : Int) (rm : RM) (s : Bool) (hF : x.sem.WF)
    (hc : x.Canonical) (hx : x.cat = .normal) :
    (x.scale k rm).toRes = .inf s ↔
      (s = x.sign ∧
        ((rm = .none ∧ (2:ℚ) ^ (x.sem.emax + 1) ≤ x.mag * (2:ℚ) ^ k) ∨
         (rm.awayFor x.sign ∧ maxFinite x.sem < x.mag * (2:ℚ) ^ k) ∨
         ((rm = .nte ∨ rm = .nta) ∧ nearThreshold x.sem ≤ x.mag * (2:ℚ) ^ k))) := by
  rw [C10.scale_correct x k rm hF hc]
  have : Spec.scaleExact rm k x = Spec.round x.sem rm x.sign (x.mag * (2:ℚ) ^ k) := by
    simp [Spec.scaleExact, hx]
  rw [this]
  have hq : 0 < x.mag * (2:ℚ) ^ k := mul_pos (mag_pos_of_canonical hx hc) (by positivity)
  exact round_inf_iff hF hq rm _ s

/-- loading a non-zero big integer in the format's own mode -/
theorem fromBigint_inf_iff (F : Sem) (n : Nat) (s : Bool) (hF : F.WF) (hn : n ≠ 0) :
    (fromBigint F n).toRes = .inf s ↔
      (s = false ∧
        ((F.rm = .none ∧ (2:ℚ) ^ (F.emax + 1) ≤ (n:ℚ)) ∨
         (F.rm.awayFor false ∧ maxFinite F < (n:ℚ)) ∨
         ((F.rm = .nte ∨ F.rm = .nta) ∧ nearThreshold F ≤ (n:ℚ)))) := by
  rw [C08.fromBigint_correct F n hF, C08.fromNat_pos F F.rm n hn]
  have hq : (0:ℚ) < n := by exact_mod_cast Nat.pos_of_ne_zero hn
  exact round_inf_iff hF hq F.rm false s

/-- `from_u64` always rounds to nearest even: infinity iff `n` is at/above the nearest threshold -/
theorem fromU64_inf_iff (F : Sem) (n : Nat) (s : Bool) (hF : F.WF) (hn : n ≠ 0) (h64 : n < 2 ^ 64) :
    (fromU64 F n).toRes = .inf s ↔ (s = false ∧ nearThreshold F ≤ (n:ℚ)) := by
  rw [C08.fromU64_correct F n hF h64, C08.fromNat_pos F .nte n hn]
  have hq : (0:ℚ) < n := by exact_mod_cast Nat.pos_of_ne_zero hn
  rw [round_inf_iff hF hq .nte false s]
  constructor
  · rintro ⟨h1, h2⟩
    refine ⟨h1, ?_⟩
    rcases h2 with ⟨h, _⟩ | ⟨h, _⟩ | ⟨_, h⟩
    · exact absurd h (by decide)
    · exact absurd h (by unfold RM.awayFor; simp)
    · exact h
  · rintro ⟨h1, h2⟩
    exact ⟨h1, Or.inr (Or.inr ⟨Or.inl rfl, h2⟩)⟩

/-- a non-zero sum of finite operands: the result is `Spec.round` of `|a + b|` with the sign
    of the exact sum, hence inherits the table (stated for the positive case; the negative
    one is symmetric through `Spec.roundQ`). -/
theorem add_pos_inf_iff (a b : Flt) (rm : RM) (s : Bool) (hF : a.sem.WF) (hs : b.sem = a.sem)
    (ha : a.Canonical) (hb : b.Canonical) (hfa : Spec.isFin a = true) (hfb : Spec.isFin b = true)
    (hpos : 0 < a.val + b.val) :
    (addWithRm a b rm).toRes = .inf s ↔
      (s = false ∧
        ((rm = .none ∧ (2:ℚ) ^ (a.sem.emax + 1) ≤ a.val + b.val) ∨
         (rm.awayFor false ∧ maxFinite a.sem < a.val + b.val) ∨
         ((rm = .nte ∨ rm = .nta) ∧ nearThreshold a.sem ≤ a.val + b.val))) := by
  rw [C01.add_correct a b rm hF hs ha hb]
  have hne : a.val + b.val ≠ 0 := ne_of_gt hpos
  have hnz : ¬ (Spec.isZero a = true ∧ Spec.isZero b = true) := by
    rintro ⟨h1, h2⟩
    have e1 : a.val = 0 := by
      unfold Spec.isZero at h1; unfold Flt.val; cases hc : a.cat <;> simp_all
    have e2 : b.val = 0 := by
      unfold Spec.isZero at h2; unfold Flt.val; cases hc : b.cat <;> simp_all
    rw [e1, e2] at hne; simp at hne
  have hA : Spec.add a.sem rm a b = Spec.round a.sem rm false (a.val + b.val) := by
    unfold Spec.isFin at hfa hfb
    unfold Spec.add Spec.roundQ
    have n1 : Spec.isNan a = false := by unfold Spec.isNan; cases hc : a.cat <;> simp_all
    have n2 : Spec.isNan b = false := by unfold Spec.isNan; cases hc : b.cat <;> simp_all
    have i1 : Spec.isInf a = false := by unfold Spec.isInf; cases hc : a.cat <;> simp_all
    have i2 : Spec.isInf b = false := by unfold Spec.isInf; cases hc : b.cat <;> simp_all
    simp only [n1, n2, i1, i2, Bool.or_self, Bool.false_eq_true, if_false, Bool.and_self]
    have z : ¬ ((Spec.isZero a && Spec.isZero b && (a.sign == b.sign)) = true) := by
      intro h
      simp only [Bool.and_eq_true] at h
      exact hnz ⟨h.1.1, h.1.2⟩
    rw [if_neg z, if_neg hne, if_pos hpos]
  rw [hA]
  exact round_inf_iff hF hpos rm false s

/-- non-vacuity: FP16, mode Zero, `60000·60000` saturates to `65504 = 0x7ff·2^5`;
    under nearest-even it is `+inf`. -/
example : (mulWithRm ⟨FP16, false, 15, 0x753, .normal⟩ ⟨FP16, false, 15, 0x753, .normal⟩ .zero).toRes
    = .fin false 15 0x7ff := by decide
example : (mulWithRm ⟨FP16, false, 15, 0x753, .normal⟩ ⟨FP16, false, 15, 0x753, .normal⟩ .nte).toRes
    = .inf false := by decide

end Arp.C02
