import Arp.Lemmas.CastScale
/-!
# C06 — casting between formats is exact when possible and otherwise correctly rounded
-/
namespace Arp.C06
open Arp

/-- The cast of a canonical value is the source value rounded once into the destination
    format under the requested mode, for every pair of (well-formed) formats. -/
theorem cast_correct (x : Flt) (G : Sem) (rm : RM) (hF : x.sem.WF) (hG : G.WF)
    (hc : x.Canonical) : (x.castWithRm G rm).toRes = Spec.cast G rm x := by
  cases hx : x.cat
  · simp [Flt.castWithRm, Spec.cast, hx, Flt.toRes, Flt.inf]
  · simp [Flt.castWithRm, Spec.cast, hx, Flt.toRes, Flt.nan]
  · rw [cast_normal x G rm hF hG hx hc]; simp [Spec.cast, hx]
  · simp [Flt.castWithRm, Spec.cast, hx, Flt.toRes, Flt.zero]

/-- the smallest FP16 subnormal into a bfloat16-like format (8, 8), rounding up -/
example : ((⟨FP16, false, -14, 1, .normal⟩ : Flt).castWithRm ⟨8, 8, .nte⟩ .pos).toRes
    = Spec.cast ⟨8, 8, .nte⟩ .pos ⟨FP16, false, -14, 1, .normal⟩ :=
  cast_correct _ _ _ (by decide) (by decide) (by decide)

/-- `cast` uses the source format's mode. -/
theorem cast_default (x : Flt) (G : Sem) : x.cast G = x.castWithRm G x.sem.rm := rfl

/-- Zeros, infinities and NaN keep category and sign (and carry no exponent/significand). -/
theorem cast_special (x : Flt) (G : Sem) (rm : RM) (hx : x.cat ≠ .normal) :
    x.castWithRm G rm = ⟨G, x.sign, 0, 0, x.cat⟩ := by
  unfold Flt.castWithRm
  cases h : x.cat <;> simp_all [Flt.zero, Flt.inf, Flt.nan]

theorem cast_special_canonical (x : Flt) (G : Sem) (rm : RM) (hx : x.cat ≠ .normal) :
    (x.castWithRm G rm).Canonical ∧ (x.castWithRm G rm).cat = x.cat
      ∧ (x.castWithRm G rm).sign = x.sign ∧ (x.castWithRm G rm).sem = G := by
  rw [cast_special x G rm hx]
  refine ⟨?_, rfl, rfl, rfl⟩
  rw [Flt.canonical_special (by simpa using hx)]
  exact ⟨rfl, rfl⟩

example : (⟨FP16, true, 0, 0, .inf⟩ : Flt).castWithRm FP32 .nte = ⟨FP32, true, 0, 0, .inf⟩ :=
  cast_special _ _ _ (by decide)

/-- A representable value is cast exactly: if `y` is the canonical value of format `G` with
    the sign and magnitude of `x`, the cast returns `y` (as a structure, hence also `toRes`). -/
theorem cast_exact_eq (x : Flt) (G : Sem) (rm : RM) (hF : x.sem.WF) (hG : G.WF)
    (hx : x.cat = .normal) (hc : x.Canonical)
    (y : Flt) (hyG : y.sem = G) (hy : y.cat = .normal) (hyc : y.Canonical)
    (hs : y.sign = x.sign) (hm : y.mag = x.mag) : x.castWithRm G rm = y := by
  subst hyG
  exact cast_eq_of_canonical x y rm hF hG hx hc hy hyc hs hm

theorem cast_exact (x : Flt) (G : Sem) (rm : RM) (hF : x.sem.WF) (hG : G.WF)
    (hx : x.cat = .normal) (hc : x.Canonical)
    (y : Flt) (hyG : y.sem = G) (hy : y.cat = .normal) (hyc : y.Canonical)
    (hs : y.sign = x.sign) (hm : y.mag = x.mag) : (x.castWithRm G rm).toRes = y.toRes := by
  rw [cast_exact_eq x G rm hF hG hx hc y hyG hy hyc hs hm]

/-- FP32 `1.0` (exp 0, mant 2^23) narrows exactly to FP16 `1.0` (exp 0, mant 2^10). -/
example : (⟨FP32, false, 0, 8388608, .normal⟩ : Flt).castWithRm FP16 .zero
    = ⟨FP16, false, 0, 1024, .normal⟩ :=
  cast_exact_eq _ _ _ (by decide) (by decide) rfl (by decide) _ rfl rfl (by decide) rfl
    (by rw [Flt.mag_eq, Flt.mag_eq]; norm_num [FP16, FP32])

/-- Every canonical normal value of `F` is representable in a format `G` that is at least as
    wide in exponent range and in precision. -/
theorem widen_representable (x : Flt) (G : Sem) (hge : x.sem.e ≤ G.e) (hgp : x.sem.p ≤ G.p)
    (hF : x.sem.WF) (hG : G.WF) (hx : x.cat = .normal) (hc : x.Canonical) :
    ∃ y : Flt, y.sem = G ∧ y.cat = .normal ∧ y.Canonical ∧ y.sign = x.sign ∧ y.mag = x.mag := by
  obtain ⟨h1, h2, h3, h4, h5⟩ := (Flt.canonical_normal hx).mp hc
  have hFe := hF.1
  have hmsb : msb x.mant ≤ x.sem.p := msb_le_of_lt_cs h4
  have hemin := Sem.emin_anti hge
  have hemax := Sem.emax_mono (by omega) hge
  have := exists_canonical G hG x.sign x.mant (x.exp - ((x.sem.p : Int) - 1)) (ne_of_gt h3)
    (lt_of_lt_of_le h4 (Nat.pow_le_pow_right (by norm_num) hgp)) (by omega) (by omega)
  rw [← Flt.mag_eq] at this
  exact this

/-- Widening is lossless (structural form): the result is the canonical value of `G` with the
    same sign and magnitude. -/
theorem widen_lossless_normal (x : Flt) (G : Sem) (rm : RM) (hge : x.sem.e ≤ G.e)
    (hgp : x.sem.p ≤ G.p) (hF : x.sem.WF) (hG : G.WF) (hx : x.cat = .normal) (hc : x.Canonical) :
    (x.castWithRm G rm).sem = G ∧ (x.castWithRm G rm).cat = .normal
      ∧ (x.castWithRm G rm).Canonical ∧ (x.castWithRm G rm).sign = x.sign
      ∧ (x.castWithRm G rm).mag = x.mag := by
  obtain ⟨y, hyG, hy, hyc, hs, hm⟩ := widen_representable x G hge hgp hF hG hx hc
  rw [cast_exact_eq x G rm hF hG hx hc y hyG hy hyc hs hm]
  exact ⟨hyG, hy, hyc, hs, hm⟩

theorem res_val_toRes (y : Flt) : Res.val y.sem y.toRes = y.val := by
  obtain ⟨ys, ysg, ye, ym, yc⟩ := y
  cases yc <;> simp [Flt.toRes, Res.val, Flt.val, Flt.mag]

/-- Widening precision and exponent range is lossless: value, category and sign are kept,
    in every mode. -/
theorem widen_lossless (x : Flt) (G : Sem) (rm : RM) (hge : x.sem.e ≤ G.e) (hgp : x.sem.p ≤ G.p)
    (hF : x.sem.WF) (hG : G.WF) (hc : x.Canonical) :
    Res.val G ((x.castWithRm G rm).toRes) = x.val ∧ (x.castWithRm G rm).cat = x.cat
      ∧ (x.castWithRm G rm).sign = x.sign ∧ (x.castWithRm G rm).Canonical := by
  by_cases hx : x.cat = .normal
  · obtain ⟨a, b, c, d, e⟩ := widen_lossless_normal x G rm hge hgp hF hG hx hc
    refine ⟨?_, by rw [b, hx], d, c⟩
    have := res_val_toRes (x.castWithRm G rm)
    rw [a] at this
    rw [this]; unfold Flt.val; rw [b, hx, d, e]
  · obtain ⟨a, b, c, d⟩ := cast_special_canonical x G rm hx
    refine ⟨?_, b, c, a⟩
    have := res_val_toRes (x.castWithRm G rm)
    rw [d] at this
    rw [this]; unfold Flt.val
    rw [b]; cases h : x.cat <;> simp_all

/-- an FP16 subnormal widened to FP32 -/
example : Res.val FP32 (((⟨FP16, true, -14, 3, .normal⟩ : Flt).castWithRm FP32 .neg).toRes)
    = (⟨FP16, true, -14, 3, .normal⟩ : Flt).val :=
  (widen_lossless _ _ _ (by decide) (by decide) (by decide) (by decide) (by decide)).1

/-- Widening followed by narrowing (under any two modes) is the identity, as an equality of
    structures. -/
theorem widen_narrow_id (x : Flt) (G : Sem) (rm1 rm2 : RM) (hge : x.sem.e ≤ G.e)
    (hgp : x.sem.p ≤ G.p) (hF : x.sem.WF) (hG : G.WF) (hc : x.Canonical) :
    (x.castWithRm G rm1).castWithRm x.sem rm2 = x := by
  by_cases hx : x.cat = .normal
  · obtain ⟨a, b, c, d, e⟩ := widen_lossless_normal x G rm1 hge hgp hF hG hx hc
    exact cast_eq_of_canonical (x.castWithRm G rm1) x rm2 (by rw [a]; exact hG) hF b c hx hc
      d.symm e.symm
  · rw [cast_special x G rm1 hx, cast_special _ _ _ (by simpa using hx)]
    obtain ⟨he, hm⟩ := (Flt.canonical_special hx).mp hc
    obtain ⟨xs, xsg, xe, xm, xc⟩ := x
    simp only at he hm ⊢
    subst he hm; rfl

example : ((⟨FP16, true, -14, 3, .normal⟩ : Flt).castWithRm FP32 .neg).castWithRm FP16 .pos
    = ⟨FP16, true, -14, 3, .normal⟩ :=
  widen_narrow_id _ _ _ _ (by decide) (by decide) (by decide) (by decide) (by decide)

end Arp.C06
