import Arp.Lemmas.ECf
import Arp.Props.C15
/-!
# C15 — accuracy of `Float::e` against the real number `exp 1`

Main result, for `F.WF`, `8 ≤ p`, `p + 9 < 2^63`, `p ≤ 2^(e-1) - 2`, `2·E ≤ 2^63`, every mode:
* `e_accuracy`: `eConst F` is a positive normal number with
  `|eConst F - e| ≤ 2^(2-p)` (one ulp of `[2, 4)`) for `nte`/`nta` and `≤ 2·2^(2-p)` otherwise.

Error budget in units of `w` = `unit` of the working format (`2^-(p+1)` nearest, `2^-p` directed;
the claim is `8w`): final cast `≤ 4w`, `+ 2` `≤ 2w`, `1/term` `≤ w/2`, and the error of `term`
(`≤ (5/2 + 1/64)·w`: roundings of all levels damped by the contraction of the recurrence, plus
the truncation of the fraction `≤ 4/N! ≤ 4·2^-(p+9)`) costs `≤ 3w/2` after the reciprocal
(`term·t₁ ≥ 1.92`).  Termination is by construction (`eLoop` is a structural recursion on the
bound of the Rust `for` loop).

Supporting facts about the level count: `two_pow_levelBits_le` (`2^bits ≤ levels!`),
`eLevels_le` (`eLevels p ≤ p + 9`), `eLevels_fact` (`2^(p+8) ≤ (eLevels p)!`).
-/

namespace Arp.C15
open Arp Arp.SpecRound Arp.ECf

/-! ### the level count -/

/-- `levels! ≥ 2^bits`: the factorial of the level count dominates the collected bits -/
theorem two_pow_levelBits_le (n : Nat) : 2 ^ levelBits n ≤ n.factorial := by
  induction n with
  | zero => simp [levelBits]
  | succ n ih =>
    rcases Nat.eq_zero_or_pos n with h | h
    · subst h; simp [levelBits]
    · rw [levelBits_succ n h, Nat.pow_add, Nat.factorial_succ, Nat.mul_comm]
      exact Nat.mul_le_mul (Nat.log2_self_le (by omega)) ih

/-- every level beyond the first contributes at least one bit -/
theorem pred_le_levelBits (n : Nat) (hn : 1 ≤ n) : n - 1 ≤ levelBits n := by
  induction n with
  | zero => omega
  | succ n ih =>
    rcases Nat.eq_zero_or_pos n with h | h
    · subst h; simp
    · rw [levelBits_succ n h]
      have := one_le_log2 (n + 1) (by omega)
      have := ih h
      omega

theorem eLevels_le (p : Nat) : eLevels p ≤ p + 9 := by
  have h1 := eLevels_minimal p
  have h2 := eLevels_pos p
  rcases Nat.lt_or_ge (eLevels p) 2 with h | h
  · omega
  · have := pred_le_levelBits (eLevels p - 1) (by omega)
    unfold levelBits at this
    omega

theorem eLevels_fact (p : Nat) : 2 ^ (p + 8) ≤ (eLevels p).factorial :=
  le_trans (Nat.pow_le_pow_right (by norm_num) (eLevels_spec p)) (two_pow_levelBits_le _)

theorem e_add_lt_two_pow (p : Nat) (hp : 4 ≤ p) : p + 10 < 2 ^ (p + 1) := by
  induction p, hp using Nat.le_induction with
  | base => norm_num
  | succ n hn ih => rw [Nat.pow_succ]; omega

/-! ### the working format -/

theorem e_mul_le_two_pow (p : Nat) (hp : 8 ≤ p) : 4 * (p + 10) ≤ 2 ^ (p + 1) := by
  induction p, hp using Nat.le_induction with
  | base => norm_num
  | succ n hn ih => rw [Nat.pow_succ]; omega

theorem e_eight_mul_le (m : Nat) (hm : 7 ≤ m) : 8 * m ≤ 2 ^ (m - 1) := by
  induction m, hm using Nat.le_induction with
  | base => norm_num
  | succ n hn ih =>
    rw [show n + 1 - 1 = (n - 1) + 1 by omega, Nat.pow_succ]; omega

/-- the side conditions of the analysis hold for the working format `p + 1`, the level count
    `N = iterations` and the start level `K = min(N - 1, 2^(p+1) - 1)` of the fine analysis -/
theorem e_ctx (F : Sem) (hF : F.WF) (hp : 8 ≤ F.p) (hp64 : F.p + 9 < 2 ^ 63)
    (hdom : F.p ≤ 2 ^ (F.e - 1) - 2) (hE64 : F.e * 2 ≤ 2 ^ 63) :
    DCtx (F.increasePrecision 1)
      (Nat.max (eLevels (F.increasePrecision 1).p) ((F.increasePrecision 1).e * 2)) ∧
    ECtx (F.increasePrecision 1)
      (min (Nat.max (eLevels (F.increasePrecision 1).p) ((F.increasePrecision 1).e * 2) - 1)
        (2 ^ (F.p + 1) - 1)) ∧
    4 ≤ Nat.max (eLevels (F.increasePrecision 1).p) ((F.increasePrecision 1).e * 2) ∧
    2 ^ (F.p + 9) ≤
      (min (Nat.max (eLevels (F.increasePrecision 1).p) ((F.increasePrecision 1).e * 2) - 1)
        (2 ^ (F.p + 1) - 1) + 1).factorial := by
  have he : 2 ≤ F.e := hF.1
  have hGp : (F.increasePrecision 1).p = F.p + 1 := rfl
  have hGe : (F.increasePrecision 1).e = F.e := rfl
  have hmax : (F.increasePrecision 1).emax = F.emax := rfl
  have hmin : (F.increasePrecision 1).emin = F.emin := rfl
  rw [hGp, hGe]
  have hL := eLevels_le (F.p + 1)
  have hfact := eLevels_fact (F.p + 1)
  have hpow := e_add_lt_two_pow F.p (by omega)
  have hpow2 := e_mul_le_two_pow F.p hp
  have hN : Nat.max (eLevels (F.p + 1)) (F.e * 2) = max (eLevels (F.p + 1)) (F.e * 2) := rfl
  rw [hN]
  set N := max (eLevels (F.p + 1)) (F.e * 2) with hNdef
  have hN1 : eLevels (F.p + 1) ≤ N := le_max_left _ _
  have hN2 : F.e * 2 ≤ N := le_max_right _ _
  have hN3 : N ≤ eLevels (F.p + 1) ∨ N ≤ F.e * 2 := by
    rcases le_total (eLevels (F.p + 1)) (F.e * 2) with h | h
    · right; rw [hNdef, max_eq_right h]
    · left; rw [hNdef, max_eq_left h]
  set M := 2 ^ (F.e - 1) with hMdef
  have hM1 : F.e - 1 < M := Nat.lt_two_pow_self
  have hM2 := e_eight_mul_le M (by omega)
  have hMp : 2 ^ (F.p + 1) ≤ 2 ^ (M - 1) := Nat.pow_le_pow_right (by norm_num) (by omega)
  have hemaxN : F.emax = ((M - 1 : ℕ) : ℤ) := by rw [Sem.emax_eq (by omega)]; omega
  have h63 : (2:ℤ) ^ 63 = ((2 ^ 63 : ℕ) : ℤ) := by norm_num
  have hWF := Sem.increasePrecision_WF hF 1
  refine ⟨⟨hWF, by rw [hGp]; omega, ?_, ?_, ?_⟩, ⟨hWF, ?_, ?_, ?_, ?_⟩, by omega, ?_⟩
  · rw [hmin, Sem.emin_eq]; omega
  · rw [hmax, hemaxN, zpow_natCast]
    have : 4 * N ≤ 2 ^ (M - 1) := by omega
    exact_mod_cast this
  · rw [h63]; exact_mod_cast (by omega : N ≤ 2 ^ 63)
  · rw [hmin, Sem.emin_eq]; omega
  · rw [hmax, hemaxN, hGp]; omega
  · rw [hGp]
    have : 1 ≤ 2 ^ (F.p + 1) := Nat.one_le_two_pow
    omega
  · rw [h63]
    exact_mod_cast (by omega : min (N - 1) (2 ^ (F.p + 1) - 1) < 2 ^ 63)
  · refine le_trans hfact (Nat.factorial_le ?_)
    omega

/-! ### the main theorem -/

/-- `4·unit` in the form of the statement: one ulp of `[2, 4)` (`2^(2-p)`) in the nearest modes,
    two ulps otherwise -/
theorem e_four_unit (F : Sem) :
    4 * ((RelErr.unit F F.rm : ℚ) : ℝ) =
      (if F.rm = .nte ∨ F.rm = .nta then 1 else 2) * (2:ℝ) ^ (2 - (F.p : ℤ)) := by
  have e : (2:ℝ) ^ (2 - (F.p : ℤ)) = 2 * (2:ℝ) ^ (1 - (F.p : ℤ)) := by
    rw [show (2:ℤ) - (F.p:ℤ) = (1 - (F.p:ℤ)) + 1 by ring, zpow_add_one₀ (by norm_num)]; ring
  unfold RelErr.unit RelErr.u
  split
  · push_cast; rw [e]; ring
  · push_cast; rw [e]; ring

/-- **C15, accuracy of `e`** (Euler's continued fraction evaluated bottom-up in `p + 1` bits under
    the format's own mode, then cast to `p` bits): for every format whose precision does not exceed
    its exponent range, in every rounding mode, the result is a positive normal number within one
    ulp (`2^(2-p)`, the result lies in `[2, 4)`) of the real number `e` in the nearest modes and
    within two ulps in the other modes.

    `hp64`/`hE64` (`p + 9 < 2^63`, `2·E ≤ 2^63`) keep the level counter
    `iterations - 1 = max(levels, 2·E) - 1` in the range of the `i64` argument of `from_i64`
    (`C08.fromI64_correct`).  Level counters that are not representable in the working format
    (`2·E > 2^(p+1)`) are covered: they are rounded by `from_i64`, and the contraction of the
    recurrence removes their effect. -/
theorem e_accuracy (F : Sem) (hF : F.WF) (hp : 8 ≤ F.p) (hp64 : F.p + 9 < 2 ^ 63)
    (hdom : F.p ≤ 2 ^ (F.e - 1) - 2) (hE64 : F.e * 2 ≤ 2 ^ 63) :
    let r := eConst F
    r.cat = .normal ∧ r.sign = false ∧
    |((r.val : ℚ) : ℝ) - Real.exp 1| ≤
      (if F.rm = .nte ∨ F.rm = .nta then 1 else 2) * (2:ℝ) ^ (2 - (F.p : ℤ)) := by
  intro r
  obtain ⟨D, C, hN4, hfact⟩ := e_ctx F hF hp hp64 hdom hE64
  have he : 2 ≤ F.e := hF.1
  have hr : r = eConst F := rfl
  unfold eConst at hr
  simp only at hr
  set G := F.increasePrecision 1 with hGdef
  set N := Nat.max (eLevels G.p) (G.e * 2) with hNdef
  set K := min (N - 1) (2 ^ (F.p + 1) - 1) with hKdef
  have hpw : 1 ≤ 2 ^ (F.p + 1) := Nat.one_le_two_pow
  have hpw4 : 2 ^ 2 ≤ 2 ^ (F.p + 1) := Nat.pow_le_pow_right (by norm_num) (by omega)
  have hK1 : 1 ≤ K := by omega
  obtain ⟨j, hj⟩ : ∃ j, K = j + 1 := ⟨K - 1, by omega⟩
  obtain ⟨n, hn⟩ : ∃ n, N - 1 = j + n + 1 := ⟨N - 1 - K, by omega⟩
  rw [hn, eLoop] at hr
  -- the deep levels
  have h0 := deep_first D (j + n) (by omega)
  obtain ⟨y, hy, hdeep⟩ := eLoop_deep D j n _ (by omega) h0
  rw [hy] at hr
  -- the first level with an exact counter
  have hKrep : IsRep G ((j + 1 : ℕ) : ℚ) := nat_isRep C (j + 1) (by rw [← hj]; exact C.Klt)
  have hcnt : cnt G (j + 1) = ((j + 1 : ℕ) : ℚ) := cnt_exact D (j + 1) (by omega) hKrep
  have hlo := hdeep.lo
  have hhi := hdeep.hi
  rw [hcnt] at hlo hhi
  have htop : Lvl G K (j + 1) y := by
    have := lvl_top (G := G) (K := j + 1) (by omega) hdeep.pos hlo hhi
    rw [hj]; exact this
  have h1 := eLoop_lvl C j y (by omega) htop
  have hemin : F.emin ≤ 1 := by
    rw [Sem.emin_eq]
    have : 1 ≤ 2 ^ (F.e - 1) := Nat.one_le_two_pow
    omega
  have hemax : 2 ≤ F.emax := by
    rw [Sem.emax_eq (by omega)]
    have : 1 ≤ 2 ^ (F.e - 1) := Nat.one_le_two_pow
    omega
  have hcore := e_core hF hp hemin hemax C hK1 hfact h1
  rw [← hr, e_four_unit] at hcore
  exact hcore

/-
-- NOT PROVED / remarks

* `e_accuracy` without `hE64 : F.e * 2 ≤ 2 ^ 63`, i.e. exactly as posed.  The loop loads the level
  counter `i ≤ max(levels, 2·E) - 1` with `fromI64`, which is characterised only on the `i64` range
  (`C08.fromI64_correct`); `hp64` bounds `levels - 1 ≤ p + 9` and `hE64` bounds `2·E - 1`.
  Without any bound on `E` the statement is most likely false for the model (argued on paper,
  not machine-checked): for `E > 2^16383` the deepest counters are `≥ 2^16384`, overflow binary128
  inside `fromU64` (`fromBigint FP128 _ = +∞`), and two consecutive such levels give
  `∞/∞ = NaN`.  No such format can be evaluated (`2·E` iterations); in the crate
  `Semantics` with `E ≥ 64` cannot be used (the exponent is an `i64`), so `hE64` holds for every
  constructible format.
* Numerically (sweep of the compiled model over `E ∈ 5..11`, `p ∈ 8..140`, and `E` up to 1000 with
  small `p`, all six modes) the worst observed errors are 0.82 ulp (nearest) and 0.99 ulp
  (directed); no counter-example to the clause exists in the tested range.
-/

/-! ### the hypotheses hold for the presets -/

example := e_accuracy FP16 (by decide) (by decide) (by decide) (by decide) (by decide)
example := e_accuracy FP32 (by decide) (by decide) (by decide) (by decide) (by decide)
example := e_accuracy FP64 (by decide) (by decide) (by decide) (by decide) (by decide)
example := e_accuracy FP128 (by decide) (by decide) (by decide) (by decide) (by decide)
example := e_accuracy FP256 (by decide) (by decide) (by decide) (by decide) (by decide)

end Arp.C15
