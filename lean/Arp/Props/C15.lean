import Arp.Lemmas.Trans
/-!
# C15 — the constants `e`, `ln2`, `pi`: format and canonicity of the results

`eConst` and `ln2Const` are total by construction (their loops are structural recursions on the
syntactic bounds `2·E − 1` and `499` of the Rust `for` loops); `piFuel` returns `none` only when
the fuel of the open-ended AGM loop (or of an inner `sqrt`) runs out.
-/
namespace Arp.C15
open Arp

/-! ### `e` -/

theorem eConst_sem (F : Sem) : (eConst F).sem = F := cast_sem_tr _ _

theorem eConst_canonical (F : Sem) (hF : F.WF) : (eConst F).Canonical ∧ (eConst F).sem = F := by
  refine ⟨?_, eConst_sem F⟩
  have hW := Sem.increasePrecision_WF hF 1
  unfold eConst
  simp only
  have hd := div_canonical (Flt.one (F.increasePrecision 1) false)
    (eLoop (F.increasePrecision 1) ((F.increasePrecision 1).e * 2 - 1) (Flt.one (F.increasePrecision 1) false)) hW
  have h2 := fromU64_canonical (F.increasePrecision 1) 2 hW
  have ha := add_canonical _ (fromU64 (F.increasePrecision 1) 2) (by rw [hd.2]; exact hW)
    (by rw [h2.2, hd.2]; rfl) hd.1 h2.1
  exact (cast_canonical _ F hF ha.1).1

/-! ### `ln2` -/

theorem ln2Const_sem (F : Sem) : (ln2Const F).sem = F := cast_sem_tr _ _

theorem ln2Loop_canonical (G : Sem) (hG : G.WF) (one : Flt) (hone : one.sem = G) (n k : Nat)
    (sum prev : Flt) (hs : sum.sem = G) (hc : sum.Canonical) :
    (ln2Loop G one n k sum prev).Canonical ∧ (ln2Loop G one n k sum prev).sem = G := by
  induction n generalizing k sum prev with
  | zero => exact ⟨hc, hs⟩
  | succ n ih =>
    simp only [ln2Loop]
    have ht := divWithRm_canonical one
      (mulWithRm (fromU64 G k) ((fromU64 G 1).scale k .none) .none) .none (by rw [hone]; exact hG)
    have hsum := addWithRm_canonical sum _ .none (by rw [hs]; exact hG)
      (by rw [ht.2, hone, hs]) hc ht.1
    split
    · exact ⟨hsum.1, hsum.2.trans hs⟩
    · exact ih _ _ _ (hsum.2.trans hs) hsum.1

theorem ln2Const_canonical (F : Sem) (hF : F.WF) : (ln2Const F).Canonical ∧ (ln2Const F).sem = F := by
  refine ⟨?_, ln2Const_sem F⟩
  have hW := Sem.increasePrecision_WF hF 8
  unfold ln2Const
  simp only
  exact (cast_canonical _ F hF
    (ln2Loop_canonical _ hW _ rfl 499 1 _ _ rfl (Flt.zero_canonical _ _)).1).1

/-! ### `pi` -/

/-- the result of `pi` has the requested format -/
theorem piFuel_sem (f : Nat) (F : Sem) (r : Flt) (h : piFuel f F = some r) : r.sem = F :=
  Arp.piFuel_sem f F r h

/-- the result of `pi` (when the fuel suffices) is canonical and has the requested format -/
theorem piFuel_canonical (f : Nat) (F : Sem) (hF : F.WF) (r : Flt) (h : piFuel f F = some r) :
    r.Canonical ∧ r.sem = F := Arp.piFuel_canonical f F hF r h

/-! ### Concrete FP16 instances -/

/-- `e ≈ 2.71875 = 1392·2^-9` in FP16 -/
example : eConst FP16 = ⟨FP16, false, 1, 1392, .normal⟩ := by decide

set_option maxRecDepth 100000 in
/-- `ln 2 ≈ 0.693359 = 1420·2^-11` in FP16 -/
example : ln2Const FP16 = ⟨FP16, false, -1, 1420, .normal⟩ := by decide

set_option maxRecDepth 100000 in
/-- `π ≈ 3.140625 = 1608·2^-9` in FP16; four AGM iterations suffice -/
example : piFuel 4 FP16 = some ⟨FP16, false, 1, 1608, .normal⟩ := by decide

example : (eConst FP16).Canonical := (eConst_canonical FP16 (by decide)).1

end Arp.C15
