import Arp.Lemmas.Trans
import Arp.Props.C12
import Mathlib.Algebra.BigOperators.Intervals
/-!
# C15 — the constants `e`, `ln2`, `pi`: format, canonicity, termination

`eConst` and `ln2Const` are total by construction: their loops are structural recursions on
the bounds of the Rust `for` loops, `max(eLevels(p+1), 2·E) − 1` and `max(500, p+16) − 1`
(`eLevels_spec`: the level count of `e` collects at least `p + 8` bits).
`piFuel` returns `none` only when the fuel of the AGM loop (or of an inner `sqrt`) runs out;
`pi_terminates`: in every well-formed format and every rounding mode some fuel suffices,
because the gap `|a − b|` must shrink strictly for the loop to go on.
-/
namespace Arp.C15
open Arp

/-! ### `e` -/

theorem eConst_sem (F : Sem) : (eConst F).sem = F := cast_sem_tr _ _

theorem eConst_canonical (F : Sem) (hF : F.WF) : (eConst F).Canonical ∧ (eConst F).sem = F := by
  refine ⟨?_, eConst_sem F⟩
  have hW := Sem.increasePrecision_WF hF 1
  unfold eConst
  simp only
  have hd := div_canonical (Flt.one (F.increasePrecision 1) false)
    (eLoop (F.increasePrecision 1)
      (Nat.max (eLevels (F.increasePrecision 1).p) ((F.increasePrecision 1).e * 2) - 1)
      (Flt.one (F.increasePrecision 1) false)) hW
  have h2 := fromU64_canonical (F.increasePrecision 1) 2 hW
  have ha := add_canonical _ (fromU64 (F.increasePrecision 1) 2) (by rw [hd.2]; exact hW)
    (by rw [h2.2, hd.2]; rfl) hd.1 h2.1
  exact (cast_canonical _ F hF ha.1).1

/-! ### the level count of `e` -/

/-- `Σ_{k=2}^{n} ⌊log₂ k⌋`: the number of bits the loop of `e` has collected after `n` levels -/
def levelBits (n : Nat) : Nat := ∑ k ∈ Finset.Icc 2 n, Nat.log2 k

theorem levelBits_one : levelBits 1 = 0 := by decide

theorem levelBits_succ (n : Nat) (hn : 1 ≤ n) : levelBits (n + 1) = levelBits n + Nat.log2 (n + 1) := by
  unfold levelBits
  rw [Finset.sum_Icc_succ_top (by omega)]

theorem one_le_log2 (n : Nat) (hn : 2 ≤ n) : 1 ≤ Nat.log2 n := by
  rw [Nat.le_log2 (by omega)]; exact hn

/-- invariant of the loop: `bits = levelBits levels`; it leaves with enough bits when the
    fuel covers the deficit, and the level before the returned one did not have enough -/
theorem eLevelsLoop_spec (p : Nat) : ∀ (fuel levels : Nat), 1 ≤ levels →
    p + 8 ≤ levelBits levels + fuel →
    (levels = 1 ∨ levelBits (levels - 1) < p + 8) →
    p + 8 ≤ levelBits (eLevelsLoop p fuel levels (levelBits levels)) ∧
    (eLevelsLoop p fuel levels (levelBits levels) = 1 ∨
      levelBits (eLevelsLoop p fuel levels (levelBits levels) - 1) < p + 8) ∧
    levels ≤ eLevelsLoop p fuel levels (levelBits levels) := by
  intro fuel
  induction fuel with
  | zero => intro levels _ h hm; exact ⟨by simpa [eLevelsLoop] using h, by simpa [eLevelsLoop] using hm, by simp [eLevelsLoop]⟩
  | succ fuel ih =>
    intro levels hl h hm
    simp only [eLevelsLoop]
    split
    · rename_i hlt
      have hlog := one_le_log2 (levels + 1) (by omega)
      rw [← levelBits_succ levels hl]
      obtain ⟨i1, i2, i3⟩ := ih (levels + 1) (by omega)
        (by rw [levelBits_succ levels hl]; omega) (Or.inr (by simpa using hlt))
      exact ⟨i1, i2, by omega⟩
    · rename_i hge
      exact ⟨by omega, hm, le_refl _⟩

/-- **the level count of `e` is adequate**: the loop leaves with at least `p + 8` bits,
    `Σ_{k=2}^{eLevels p} ⌊log₂ k⌋ ≥ p + 8` (so `eLevels p ! ≥ 2^(p+8)`); the fuel `p + 9`
    suffices because every level contributes at least one bit -/
theorem eLevels_spec (p : Nat) : p + 8 ≤ ∑ k ∈ Finset.Icc 2 (eLevels p), Nat.log2 k := by
  have := (eLevelsLoop_spec p (p + 9) 1 (le_refl _) (by rw [levelBits_one]; omega) (Or.inl rfl)).1
  rw [levelBits_one] at this
  exact this

/-- … and it is the smallest such level count -/
theorem eLevels_minimal (p : Nat) : ∑ k ∈ Finset.Icc 2 (eLevels p - 1), Nat.log2 k < p + 8 := by
  have := (eLevelsLoop_spec p (p + 9) 1 (le_refl _) (by rw [levelBits_one]; omega) (Or.inl rfl)).2.1
  rw [levelBits_one] at this
  rcases this with h | h
  · unfold eLevels; rw [h]; simp
  · exact h

theorem eLevels_pos (p : Nat) : 1 ≤ eLevels p := by
  have := (eLevelsLoop_spec p (p + 9) 1 (le_refl _) (by rw [levelBits_one]; omega) (Or.inl rfl)).2.2
  rw [levelBits_one] at this
  exact this

example : eLevels 12 = 11 := by decide
example : eLevels 54 = 22 := by decide

/-! ### `ln2` -/

theorem ln2Const_sem (F : Sem) : (ln2Const F).sem = F := cast_sem_tr _ _

theorem ln2Loop_canonical (G : Sem) (hG : G.WF) (one : Flt) (hone : one.sem = G) (n k : Nat)
    (sum prev : Flt) (hs : sum.sem = G) (hc : sum.Canonical) :
    (ln2Loop G one n k sum prev).Canonical ∧ (ln2Loop G one n k sum prev).sem = G := by
  induction n generalizing k sum prev with
  | zero => exact ⟨hc, hs⟩
  | succ n ih =>
    simp only [ln2Loop]
    have ht := divWithRm_canonical one
      (mulWithRm (fromU64 G k) ((fromU64 G 1).scale k .none) .none) .none (by rw [hone]; exact hG)
    have hsum := addWithRm_canonical sum _ .none (by rw [hs]; exact hG)
      (by rw [ht.2, hone, hs]) hc ht.1
    split
    · exact ⟨hsum.1, hsum.2.trans hs⟩
    · exact ih _ _ _ (hsum.2.trans hs) hsum.1

theorem ln2Const_canonical (F : Sem) (hF : F.WF) : (ln2Const F).Canonical ∧ (ln2Const F).sem = F := by
  refine ⟨?_, ln2Const_sem F⟩
  have hW := Sem.increasePrecision_WF hF 8
  unfold ln2Const
  simp only
  exact (cast_canonical _ F hF
    (ln2Loop_canonical _ hW _ rfl _ 1 _ _ rfl (Flt.zero_canonical _ _)).1).1

/-! ### `pi` -/

/-- the result of `pi` has the requested format -/
theorem piFuel_sem (f : Nat) (F : Sem) (r : Flt) (h : piFuel f F = some r) : r.sem = F :=
  Arp.piFuel_sem f F r h

/-- the result of `pi` (when the fuel suffices) is canonical and has the requested format -/
theorem piFuel_canonical (f : Nat) (F : Sem) (hF : F.WF) (r : Flt) (h : piFuel f F = some r) :
    r.Canonical ∧ r.sem = F := Arp.piFuel_canonical f F hF r h


/-! ### `pi` terminates

The AGM loop goes on only while the gap `|a − b|` shrinks strictly.  Both means stay
`≥ 1/2` or `+∞` (monotonicity of rounding, and `sqrt` never returns less than a
representable lower bound of the root), so no NaN arises in `a`, `b`; an infinity makes
`a == b` two iterations later.  Gaps of finite means are non-NaN values of the format, and a
strictly decreasing chain of those is finite. -/

section piTermination
open Arp.Sqrt Arp.SpecRound

/-- a non-negative value that is at least `c`, possibly `+∞` -/
structure GeN (G : Sem) (c : ℚ) (y : Flt) : Prop where
  sem : y.sem = G
  can : y.Canonical
  sign : y.sign = false
  big : (y.cat = .normal ∧ c ≤ y.mag) ∨ y.cat = .inf

theorem GeN.posN {G : Sem} {c : ℚ} {y : Flt} (h : GeN G c y) (hc : y.cat = .normal) : PosN G y :=
  ⟨h.sem, h.can, hc, h.sign⟩

theorem GeN.le_mag {G : Sem} {c : ℚ} {y : Flt} (h : GeN G c y) (hc : y.cat = .normal) : c ≤ y.mag := by
  rcases h.big with h' | h'
  · exact h'.2
  · rw [hc] at h'; cases h'

theorem GeN.cases {G : Sem} {c : ℚ} {y : Flt} (h : GeN G c y) : y.cat = .normal ∨ y.cat = .inf := by
  rcases h.big with h' | h'
  · exact Or.inl h'.1
  · exact Or.inr h'

theorem geN_of_posN {G : Sem} {c : ℚ} {y : Flt} (h : PosN G y) (hc : c ≤ y.mag) : GeN G c y :=
  ⟨h.sem, h.can, h.sign, Or.inl ⟨h.cat, hc⟩⟩

/-- a value whose `toRes` is the rounding of a magnitude `≥ c` (`c` representable) -/
theorem geN_of_round {G : Sem} (hG : G.WF) {y : Flt} (hs : y.sem = G) (hcan : y.Canonical)
    {rm : RM} {q c : ℚ} (hc0 : 0 < c) (hc : IsRep G c) (hq : c ≤ q)
    (hy : y.toRes = Spec.round G rm false q) : GeN G c y := by
  have hq0 : 0 < q := lt_of_lt_of_le hc0 hq
  have k1 := round_mono hG hc0 hq rm false
  rw [isRep_pos_round hG hc hc0] at k1
  rcases round_cases hG hq0 rm false with h | h | ⟨e, m, h⟩
  · rw [h] at k1; simp only [Res.key] at k1
    have : c ≤ 0 := by exact_mod_cast k1
    linarith
  · rw [h] at hy
    have hh : y.cat = .inf ∧ y.sign = false := by
      cases hcat : y.cat <;> simp [Flt.toRes, hcat] at hy
      exact ⟨rfl, hy⟩
    exact ⟨hs, hcan, hh.2, Or.inr hh.1⟩
  · obtain ⟨p1, p2⟩ := posN_of_round hG hs hq0 h hy
    refine ⟨hs, hcan, p1.sign, Or.inl ⟨p1.cat, ?_⟩⟩
    rw [p2]; unfold rnd; rw [h, Res.mag_fin]
    rw [h, Res.key_fin] at k1; exact_mod_cast k1

theorem add_geN {G : Sem} (hG : G.WF) {a b : Flt} {c c2 : ℚ} (hc0 : 0 < c2) (hc2 : IsRep G c2)
    (h2 : c2 ≤ c + c) (ha : GeN G c a) (hb : GeN G c b) :
    GeN G c2 (a.add b) ∧ ((a.cat = .inf ∨ b.cat = .inf) → (a.add b).cat = .inf) := by
  have hFa : a.sem.WF := by rw [ha.sem]; exact hG
  have hs : b.sem = a.sem := hb.sem.trans ha.sem.symm
  have hcan := add_canonical a b hFa hs ha.can hb.can
  have hsem : (a.add b).sem = G := hcan.2.trans ha.sem
  have hsa := ha.sign
  have hsb := hb.sign
  rcases ha.cases with hca | hca <;> rcases hb.cases with hcb | hcb
  · refine ⟨?_, fun h => by rcases h with h | h <;> [rw [hca] at h; rw [hcb] at h] <;> cases h⟩
    have hc := C01.add_correct a b a.sem.rm hFa hs ha.can hb.can
    have hq : 0 < a.mag + b.mag := by
      have := (ha.posN hca).mag_pos; have := (hb.posN hcb).mag_pos; linarith
    apply geN_of_round hG hsem hcan.1 hc0 hc2 (q := a.mag + b.mag) (rm := a.sem.rm)
      (by have := ha.le_mag hca; have := hb.le_mag hcb; linarith)
    show (addWithRm a b a.sem.rm).toRes = _
    rw [hc, ha.sem]
    have hva : a.val = a.mag := by rw [Flt.val_normal hca, hsa]; rfl
    have hvb : b.val = b.mag := by rw [Flt.val_normal hcb, hsb]; rfl
    simp only [Spec.add, Spec.isNan, Spec.isInf, Spec.isZero, hca, hcb, hva, hvb]
    simp only [Spec.roundQ, if_neg (ne_of_gt hq), if_pos hq]
    simp
  all_goals
    have hh : (a.add b).cat = .inf ∧ (a.add b).sign = false := by
      simp [Flt.add, addWithRm, addSub, hca, hcb, hsa, hsb, Flt.inf]
    exact ⟨⟨hsem, hcan.1, hh.2, Or.inr hh.1⟩, fun _ => hh.1⟩

theorem half_geN {G : Sem} (hG : G.WF) {a : Flt} {c c2 : ℚ} (hc0 : 0 < c2) (hc2 : IsRep G c2)
    (h2 : c2 ≤ c / 2) (ha : GeN G c a) :
    GeN G c2 (a.scale (-1) .nte) ∧ (a.cat = .inf → (a.scale (-1) .nte) = a) := by
  have hFa : a.sem.WF := by rw [ha.sem]; exact hG
  have hcan := scale_canonical a (-1) .nte hFa ha.can
  have hsem : (a.scale (-1) .nte).sem = G := hcan.2.trans ha.sem
  rcases ha.cases with hca | hca
  · refine ⟨?_, fun h => by rw [hca] at h; cases h⟩
    have hc := C10.scale_correct a (-1) .nte hFa ha.can
    apply geN_of_round hG hsem hcan.1 hc0 hc2 (q := a.mag / 2) (rm := .nte)
      (by have := ha.le_mag hca; linarith)
    rw [hc]
    simp only [Spec.scaleExact, hca, ha.sign, ha.sem]
    congr 1
  · have he : a.scale (-1) .nte = a := by simp [Flt.scale, Flt.scaleCore, Flt.isNormal, hca]
    refine ⟨?_, fun _ => he⟩
    rw [he]; exact ⟨ha.sem, ha.can, ha.sign, Or.inr hca⟩

theorem mul_geN {G : Sem} (hG : G.WF) {a b : Flt} {c c2 : ℚ} (hc0 : 0 < c2) (hc2 : IsRep G c2)
    (hcc : 0 ≤ c) (h2 : c2 ≤ c * c) (ha : GeN G c a) (hb : GeN G c b) :
    GeN G c2 (a.mul b) ∧ ((a.cat = .inf ∨ b.cat = .inf) → (a.mul b).cat = .inf) := by
  have hFa : a.sem.WF := by rw [ha.sem]; exact hG
  have hs : b.sem = a.sem := hb.sem.trans ha.sem.symm
  have hcan := mul_canonical a b hFa
  have hsem : (a.mul b).sem = G := hcan.2.trans ha.sem
  have hsa := ha.sign
  have hsb := hb.sign
  rcases ha.cases with hca | hca <;> rcases hb.cases with hcb | hcb
  · refine ⟨?_, fun h => by rcases h with h | h <;> [rw [hca] at h; rw [hcb] at h] <;> cases h⟩
    have hc := C01.mul_correct a b a.sem.rm hFa hs ha.can hb.can
    apply geN_of_round hG hsem hcan.1 hc0 hc2 (q := a.mag * b.mag) (rm := a.sem.rm)
      (le_trans h2 (mul_le_mul (ha.le_mag hca) (hb.le_mag hcb) hcc
        (le_trans hcc (ha.le_mag hca))))
    show (mulWithRm a b a.sem.rm).toRes = _
    rw [hc, ha.sem]
    simp [Spec.mul, Spec.isNan, Spec.isInf, Spec.isZero, hca, hcb, hsa, hsb]
  all_goals
    have hh : (a.mul b).cat = .inf ∧ (a.mul b).sign = false := by
      simp [Flt.mul, mulWithRm, hca, hcb, hsa, hsb, Flt.inf]
    exact ⟨⟨hsem, hcan.1, hh.2, Or.inr hh.1⟩, fun _ => hh.1⟩

/-- `sqrt` never returns less than a representable `c2` with `c2² ≤ x` -/
theorem sqrt_geN {G : Sem} (hG : G.WF) {x : Flt} {c c2 : ℚ} (hc0 : 0 < c2) (hc2 : IsRep G c2)
    (h2 : c2 * c2 ≤ c) (hx : GeN G c x) {fuel : Nat} {r : Flt} (h : x.sqrtFuel fuel = some r) :
    GeN G c2 r ∧ (x.cat = .inf → r = x) := by
  have hF : x.sem.WF := by rw [hx.sem]; exact hG
  rcases hx.cases with hcx | hcx
  · refine ⟨?_, fun h => by rw [hcx] at h; cases h⟩
    have hxP : PosN x.sem x := ⟨rfl, hx.can, hcx, hx.sign⟩
    have C := ctx_of hF hxP
    obtain ⟨b, I, L, _, _, hr, hmag⟩ := sqrt_result hF hxP h
    have I' := step_inv C I
    have L' := low_step C I L
    have hc2' : IsRep x.sem c2 := by rw [hx.sem]; exact hc2
    have h1 := L' c2 (isRep_wide hF hc2') hc0 (le_trans h2 (hx.le_mag hcx))
    have h3 := rnd_ge hF x.sem.rm hc0 hc2' h1 C.max_rep_F I'.hi
    rw [← hmag] at h3
    rw [hx.sem] at hr
    exact geN_of_posN hr h3
  · have := (C12.sqrt_special x fuel).2.2 hcx hx.sign
    rw [this] at h; cases h
    exact ⟨⟨hx.sem, hx.can, hx.sign, Or.inr hcx⟩, fun _ => rfl⟩

/-- the gaps: canonical non-negative non-NaN values of the format -/
structure GapOK (G : Sem) (g : Flt) : Prop where
  sem : g.sem = G
  can : g.Canonical
  sign : g.sign = false
  nn : g.cat ≠ .nan

/-- the variant: position of a gap in the chain `0 < subnormals < normals < +∞` -/
def nu (G : Sem) (g : Flt) : Nat :=
  match g.cat with
  | .zero => 0
  | .normal => mu G g + 1
  | _ => ((G.emax - G.emin).toNat + 1) * 2 ^ G.p + 1

/-- `¬ (a >= b)` between non-NaN gaps makes the variant drop -/
theorem nu_lt {G : Sem} {a b : Flt} (ha : GapOK G a) (hb : GapOK G b)
    (h : a.ge b = false) : nu G a < nu G b := by
  obtain ⟨sa, ca, sga, na⟩ := ha
  obtain ⟨sb, cb, sgb, nb⟩ := hb
  unfold Flt.ge Flt.partialCmp at h
  unfold nu
  cases hca : a.cat <;> cases hcb : b.cat <;> simp only [hca, hcb] at h na nb ⊢
  -- inf, _
  · simp [sga, sgb] at h
  · exact absurd rfl nb
  · simp [boolToOrd, sga] at h
  · simp [boolToOrd, sga] at h
  -- nan, _
  · exact absurd rfl na
  · exact absurd rfl na
  · exact absurd rfl na
  · exact absurd rfl na
  -- normal, _
  · have := mu_bound (W := G) ⟨sa, ca, hca, sga⟩
    omega
  · exact absurd rfl nb
  · obtain ⟨a1, _, _, a4, _⟩ := (Flt.canonical_normal hca).mp ca
    obtain ⟨b1, _, _, b4, _⟩ := (Flt.canonical_normal hcb).mp cb
    rw [sa] at a1 a4
    rw [sb] at b1 b4
    simp only [sga, sgb, bne_self_eq_false, Bool.false_eq_true, if_false, boolToOrd,
      Bool.not_false, if_true] at h
    unfold mu
    by_cases h1 : a.exp < b.exp
    · have : (a.exp - G.emin).toNat + 1 ≤ (b.exp - G.emin).toNat := by omega
      have := Nat.mul_le_mul_right (2 ^ G.p) this
      rw [Nat.add_mul, Nat.one_mul] at this
      omega
    · rw [if_neg h1] at h
      by_cases h2 : a.exp > b.exp
      · rw [if_pos h2] at h; simp at h
      · rw [if_neg h2] at h
        have he : a.exp = b.exp := by omega
        rw [he]
        rcases Nat.lt_trichotomy a.mant b.mant with h3 | h3 | h3
        · omega
        · rw [h3, Nat.compare_eq_eq.mpr rfl] at h; simp at h
        · rw [Nat.compare_eq_gt.mpr h3] at h; simp at h
  · simp [boolToOrd, sga] at h
  -- zero, _
  · omega
  · exact absurd rfl nb
  · omega
  · simp at h

/-- `+∞ >= gap` for every non-NaN gap -/
theorem inf_ge_gap {G : Sem} {g gap : Flt} (hg : g.cat = .inf) (hs : g.sign = false)
    (hgap : GapOK G gap) : g.ge gap = true := by
  obtain ⟨_, _, sgb, nb⟩ := hgap
  unfold Flt.ge Flt.partialCmp
  cases hcb : gap.cat <;> simp [hg, hs, sgb, boolToOrd]
  exact nb hcb

/-- the gap of two finite positive means is a non-NaN value -/
theorem gap_ok {G : Sem} (hG : G.WF) {a b : Flt} (ha : PosN G a) (hb : PosN G b) :
    GapOK G (a.sub b).abs := by
  have hFa : a.sem.WF := by rw [ha.sem]; exact hG
  have hs : b.sem = a.sem := hb.sem.trans ha.sem.symm
  have hcan := sub_canonical a b hFa hs ha.can hb.can
  refine ⟨hcan.2.trans ha.sem, (abs_canonical _ hcan.1).1, rfl, ?_⟩
  show (a.sub b).cat ≠ .nan
  have hc := C01.sub_correct a b a.sem.rm hFa hs ha.can hb.can
  intro hn
  have hres : (subWithRm a b a.sem.rm).toRes = .nan := by
    show (a.sub b).toRes = .nan
    simp [Flt.toRes, hn]
  rw [hc] at hres
  simp only [Spec.sub, Spec.add, Spec.isNan, Spec.isInf, Spec.isZero, ha.cat, hb.cat] at hres
  simp only [Spec.roundQ] at hres
  revert hres
  simp only [show (Cat.normal == Cat.nan) = false from rfl, show (Cat.normal == Cat.inf) = false from rfl,
    show (Cat.normal == Cat.zero) = false from rfl, Bool.or_self, Bool.and_self, Bool.false_and,
    Bool.false_eq_true, if_false]
  split
  · simp
  · split
    · rename_i _ hpos
      exact round_ne_nan hFa hpos _ _
    · rename_i hne hnp
      exact round_ne_nan hFa (neg_pos.mpr (lt_of_le_of_ne (not_lt.mp hnp) hne)) _ _

/-- both means are `+∞`: the loop leaves at once -/
theorem piLoop_inf_inf (fuel : Nat) (a b t x gap : Flt) (ha : a.cat = .inf) (hb : b.cat = .inf)
    (hca : a.Canonical) (hcb : b.Canonical) (hs : a.sign = b.sign) :
    piLoop (fuel + 1) a b t x gap = some (a, t) := by
  obtain ⟨a1, a2⟩ := (Flt.canonical_special (by rw [ha]; decide)).mp hca
  obtain ⟨b1, b2⟩ := (Flt.canonical_special (by rw [hb]; decide)).mp hcb
  have : a.beq b = true := by simp [Flt.beq, ha, hb, hs, a1, a2, b1, b2]
  simp [piLoop, this]

variable {G : Sem}

/-- the fuel of the inner `sqrt` suffices for the format `G` -/
def SqrtFuelOK (G : Sem) : Prop := (2 * G.emax - G.emin).toNat + 2 * G.p + 20 ≤ innerFuel

theorem sqrtM_some (hG : G.WF) (hin : SqrtFuelOK G) (x : Flt) (hs : x.sem = G) (hc : x.Canonical) :
    ∃ r, x.sqrtM = some r :=
  C12.sqrt_terminates x (by rw [hs]; exact hG) hc innerFuel (by
    unfold C12.sqrtFuelBound; rw [hs]; exact hin)

/-- one mean is `+∞`: both are after this iteration, and the loop leaves at the next -/
theorem piLoop_one_inf (hG : G.WF) (h2r : IsRep G (1/2)) (h1r : IsRep G 1)
    (h4r : IsRep G (1/4)) (fuel : Nat) (a b t x gap : Flt)
    (ha : GeN G (1/2) a) (hb : GeN G (1/2) b) (hinf : a.cat = .inf ∨ b.cat = .inf) :
    ∃ r, piLoop (fuel + 1 + 1) a b t x gap = some r := by
  obtain ⟨s1, s2⟩ := add_geN hG (by norm_num) h1r (by norm_num) ha hb
  obtain ⟨m1, m2⟩ := mul_geN hG (by norm_num) h4r (by norm_num) (by norm_num) hb ha
  have s3 := s2 hinf
  have m3 := m2 hinf.symm
  obtain ⟨g1, g2⟩ := half_geN hG (by norm_num) h2r (by norm_num) s1
  have g3 := g2 s3
  have hsq : (b.mul a).sqrtM = some (b.mul a) := (C12.sqrt_special _ _).2.2 m3 m1.sign
  rw [piLoop]
  by_cases hbeq : a.beq b = true
  · exact ⟨_, by rw [if_pos hbeq]⟩
  · rw [if_neg hbeq]
    simp only [hsq]
    split
    · exact ⟨_, rfl⟩
    · exact ⟨_, piLoop_inf_inf fuel _ _ _ _ _ (by rw [g3]; exact s3) m3 g1.can m1.can
        (by rw [g1.sign, m1.sign])⟩

/-- **the AGM loop terminates**: `nu gap + 2` iterations suffice -/
theorem piLoop_terminates (hG : G.WF) (hin : SqrtFuelOK G) (h2r : IsRep G (1/2)) (h1r : IsRep G 1)
    (h4r : IsRep G (1/4)) : ∀ (n : Nat) (a b t x gap : Flt),
    GeN G (1/2) a → GeN G (1/2) b → GapOK G gap → nu G gap < n →
    ∃ r, piLoop (n + 1 + 1) a b t x gap = some r := by
  intro n
  induction n with
  | zero => intro a b t x gap _ _ _ h; omega
  | succ n ih =>
    intro a b t x gap ha hb hgap hnu
    by_cases hinf : a.cat = .inf ∨ b.cat = .inf
    · exact piLoop_one_inf hG h2r h1r h4r _ a b t x gap ha hb hinf
    · obtain ⟨s1, _⟩ := add_geN hG (by norm_num) h1r (by norm_num) ha hb
      obtain ⟨m1, _⟩ := mul_geN hG (by norm_num) h4r (by norm_num) (by norm_num) hb ha
      obtain ⟨g1, _⟩ := half_geN hG (by norm_num) h2r (by norm_num) s1
      obtain ⟨b', hsq⟩ := sqrtM_some hG hin (b.mul a) m1.sem m1.can
      obtain ⟨q1, _⟩ := sqrt_geN hG (by norm_num) h2r (by norm_num) m1 hsq
      rw [piLoop]
      by_cases hbeq : a.beq b = true
      · exact ⟨_, by rw [if_pos hbeq]⟩
      · rw [if_neg hbeq]
        simp only [hsq]
        split
        · exact ⟨_, rfl⟩
        · rename_i hge
          by_cases hinf' : ((a.add b).scale (-1) .nte).cat = .inf ∨ b'.cat = .inf
          · exact piLoop_one_inf hG h2r h1r h4r n _ _ _ _ _ g1 q1 hinf'
          · have hn1 : ((a.add b).scale (-1) .nte).cat = .normal := by
              rcases g1.cases with h | h
              · exact h
              · exact absurd (Or.inl h) hinf'
            have hn2 : b'.cat = .normal := by
              rcases q1.cases with h | h
              · exact h
              · exact absurd (Or.inr h) hinf'
            have hg' := gap_ok hG (g1.posN hn1) (q1.posN hn2)
            have hlt := nu_lt hg' hgap (by simpa using hge)
            exact ih _ _ _ _ _ g1 q1 hg' (by omega)

/-- more fuel never changes a result of the AGM loop -/
theorem piLoop_mono : ∀ (fuel : Nat) (a b t x gap : Flt) (r : Flt × Flt),
    piLoop fuel a b t x gap = some r → piLoop (fuel + 1) a b t x gap = some r := by
  intro fuel
  induction fuel with
  | zero => intro a b t x gap r h; simp [piLoop] at h
  | succ fuel ih =>
    intro a b t x gap r h
    rw [piLoop] at h ⊢
    split at h
    · rename_i hc; rw [if_pos hc]; exact h
    · rename_i hc; rw [if_neg hc]
      cases hsq : (b.mul a).sqrtM with
      | none => simp only [hsq] at h; cases h
      | some b' =>
        simp only [hsq] at h ⊢
        split at h
        · rename_i hg; rw [if_pos hg]; exact h
        · rename_i hg; rw [if_neg hg]; exact ih _ _ _ _ _ _ h

theorem piLoop_mono_le (f1 f2 : Nat) (hle : f1 ≤ f2) (a b t x gap : Flt) (r : Flt × Flt)
    (h : piLoop f1 a b t x gap = some r) : piLoop f2 a b t x gap = some r := by
  induction hle with
  | refl => exact h
  | step _ ih => exact piLoop_mono _ _ _ _ _ _ _ ih

/-- **more fuel never changes the result of `pi`** -/
theorem piFuel_stable (F : Sem) (f1 f2 : Nat) (hle : f1 ≤ f2) (r : Flt)
    (h : piFuel f1 F = some r) : piFuel f2 F = some r := by
  unfold piFuel at h ⊢
  simp only at h ⊢
  split at h
  · cases h
  · rename_i s2 hs2
    split at h
    · cases h
    · rename_i a t hl
      rw [piLoop_mono_le f1 f2 hle _ _ _ _ _ _ hl]
      exact h

theorem one_spec_pi {W : Sem} (hW : W.WF) : PosN W (fromU64 W 1) ∧ (fromU64 W 1).mag = 1 := by
  have hc := C08.fromU64_correct W 1 hW (by norm_num)
  rw [C08.fromNat_pos _ _ _ (by norm_num)] at hc
  have r1 : IsRep W ((1:ℕ):ℚ) := by
    have := isRep_pow hW 0 (by have := Sem.emin_le_zero hW; have := hW.2; omega)
      (by have := Sem.emax_pos hW; omega)
    rw [zpow_zero] at this; exact_mod_cast this
  obtain ⟨e, m, hr, -, -, -⟩ := round_between hW .nte (by norm_num) r1 r1 (le_refl _) (le_refl _)
  obtain ⟨p1, p2⟩ := posN_of_round hW (fromU64_canonical W 1 hW).2 (by norm_num) hr hc
  refine ⟨p1, ?_⟩
  rw [p2, rnd_rep hW .nte r1 (by norm_num)]; norm_num

/-- `1 ≤ √2 ≤ 2` for the value the model computes, in every format and mode -/
theorem sqrt_two_bounds (hG : G.WF) {r : Flt} (h : (fromU64 G 2).sqrtM = some r) :
    PosN G r ∧ 1 ≤ r.mag ∧ r.mag ≤ 2 := by
  obtain ⟨w1, w2⟩ := two_spec hG
  have hsem : (fromU64 G 2).sem = G := w1.sem
  have hF : (fromU64 G 2).sem.WF := by rw [hsem]; exact hG
  have hxP : PosN (fromU64 G 2).sem (fromU64 G 2) := by rw [hsem]; exact w1
  have C := ctx_of hF hxP
  obtain ⟨b, I, L, _, _, hr, hmag⟩ := sqrt_result hF hxP h
  have I' := step_inv C I
  have L' := low_step C I L
  rw [w2] at I' L' hmag C
  rw [hsem] at I' L' hmag hr C
  have r1 : IsRep G 1 := by
    have := isRep_pow hG 0 (by have := Sem.emin_le_zero hG; have := hG.2; omega)
      (by have := Sem.emax_pos hG; omega)
    rwa [zpow_zero] at this
  have r2 : IsRep G 2 := by
    have := isRep_pow hG 1 (by have := Sem.emin_le_zero hG; have := hG.2; omega)
      (Sem.emax_pos hG)
    rwa [zpow_one] at this
  have hhi : stepQ G 2 b ≤ 2 := by simpa using I'.hi
  have h1 := L' 1 (isRep_wide hG r1) (by norm_num) (by norm_num)
  have hpos : 0 < stepQ G 2 b := by linarith
  refine ⟨hr, ?_, ?_⟩
  · rw [hmag]; exact rnd_ge hG G.rm (by norm_num) r1 h1 r2 hhi
  · rw [hmag]; exact rnd_le hG G.rm hpos r2 hhi

/-- a fuel that suffices for the AGM loop of `pi` in the format `F`: the number of finite
    non-negative values of the working format, plus 4 (crude: in practice the loop needs
    about `log₂ p` iterations) -/
def piFuelBound (F : Sem) : Nat :=
  ((F.emax - F.emin).toNat + 1) * 2 ^ (F.growLog 4).p + 4

/-- the loop as `piFuel` starts it (working format `G`): `√2` is available, and the loop
    returns within the fuel bound -/
theorem piLoop_start (hG : G.WF) (hp : 6 ≤ G.p) (hin : SqrtFuelOK G) (fuel : Nat)
    (hfuel : ((G.emax - G.emin).toNat + 1) * 2 ^ G.p + 4 ≤ fuel) :
    ∃ s2 a t, (fromI64 G 2).sqrtM = some s2 ∧
      piLoop fuel (fromI64 G 1) ((fromI64 G 1).div s2) ((fromI64 G 1).div (fromI64 G 4))
        (fromI64 G 1) (Flt.inf G false) = some (a, t) := by
  have hmin := Sem.emin_le_zero hG
  have hmax := Sem.emax_pos hG
  have r1 : IsRep G 1 := by
    have := isRep_pow hG 0 (by omega) (by omega)
    rwa [zpow_zero] at this
  have r2 : IsRep G (1/2) := by
    have := isRep_pow hG (-1) (by omega) (by omega)
    rwa [show (2:ℚ) ^ (-1:Int) = 1/2 by norm_num] at this
  have r4 : IsRep G (1/4) := by
    have := isRep_pow hG (-2) (by omega) (by omega)
    rwa [show (2:ℚ) ^ (-2:Int) = 1/4 by norm_num] at this
  have hI1 : fromI64 G 1 = fromU64 G 1 := by simp [fromI64]
  have hI2 : fromI64 G 2 = fromU64 G 2 := by simp [fromI64]
  rw [hI1, hI2]
  obtain ⟨o1, o2⟩ := one_spec_pi hG
  obtain ⟨w1, _⟩ := two_spec hG
  obtain ⟨s2, hs2⟩ := sqrtM_some hG hin (fromU64 G 2) w1.sem w1.can
  obtain ⟨q1, q2, q3⟩ := sqrt_two_bounds hG hs2
  have hq0 := q1.mag_pos
  have hquo1 : (1:ℚ)/2 ≤ (fromU64 G 1).mag / s2.mag := by
    rw [o2, div_le_div_iff₀ (by norm_num) hq0]; linarith
  have hquo2 : (fromU64 G 1).mag / s2.mag ≤ 1 := by
    rw [o2, div_le_one hq0]; exact q2
  obtain ⟨d1, d2⟩ := div_posN hG o1 q1 (by norm_num) r2 r1 hquo1 hquo2
  have hb : GeN G (1/2) ((fromU64 G 1).div s2) :=
    geN_of_posN d1 (by rw [d2]; exact rnd_ge hG G.rm (by norm_num) r2 hquo1 r1 hquo2)
  have ha : GeN G (1/2) (fromU64 G 1) := geN_of_posN o1 (by rw [o2]; norm_num)
  have hgap : GapOK G (Flt.inf G false) :=
    ⟨rfl, Flt.inf_canonical G false, rfl, by simp [Flt.inf]⟩
  obtain ⟨⟨a', t'⟩, hr⟩ := piLoop_terminates hG hin r2 r1 r4 (nu G (Flt.inf G false) + 1)
    (fromU64 G 1) ((fromU64 G 1).div s2) ((fromU64 G 1).div (fromI64 G 4)) (fromU64 G 1)
    (Flt.inf G false) ha hb hgap (Nat.lt_succ_self _)
  have hr' := piLoop_mono_le _ fuel (by
    have : nu G (Flt.inf G false) = ((G.emax - G.emin).toNat + 1) * 2 ^ G.p + 1 := rfl
    rw [this]; omega) _ _ _ _ _ _ hr
  exact ⟨s2, a', t', hs2, hr'⟩

/-- **`pi` terminates in every well-formed format and every rounding mode**, provided the
    fixed fuel `innerFuel = 200000` of the inner `sqrt` covers the bound of
    `C12.sqrt_terminates` for the working format (`pi_terminates_small`: it does whenever
    `e ≤ 16` and `p ≤ 50000`). -/
theorem pi_terminates_fuel (F : Sem) (hF : F.WF)
    (hin : (2 * F.emax - F.emin).toNat + 2 * (F.growLog 4).p + 20 ≤ innerFuel)
    (fuel : Nat) (hfuel : piFuelBound F ≤ fuel) : ∃ r, piFuel fuel F = some r := by
  have hG : (F.growLog 4).WF := Sem.growLog_WF hF 4
  have hp : 6 ≤ (F.growLog 4).p := by
    have := hF.2
    simp only [Sem.growLog, Sem.logPrecision]
    split <;> omega
  obtain ⟨s2, a, t, h1, h2⟩ := piLoop_start hG hp hin fuel hfuel
  unfold piFuel
  simp only [h1, h2]
  exact ⟨_, rfl⟩

/-- C15/C19: **`pi` terminates** (existential form of `pi_terminates_fuel`) -/
theorem pi_terminates (F : Sem) (hF : F.WF)
    (hin : (2 * F.emax - F.emin).toNat + 2 * (F.growLog 4).p + 20 ≤ innerFuel) :
    ∃ fuel r, piFuel fuel F = some r :=
  ⟨_, pi_terminates_fuel F hF hin _ (le_refl _)⟩

/-- the side condition in closed form: `3·2^(e-1) + 2·p' + 16 ≤ innerFuel`, `p'` the working
    precision -/
theorem inner_fuel_eq (F : Sem) (hF : F.WF) :
    (2 * F.emax - F.emin).toNat + 2 * (F.growLog 4).p + 20
      = 3 * 2 ^ (F.e - 1) + 2 * (F.growLog 4).p + 16 := by
  have h1 : 1 ≤ F.e := by have := hF.1; omega
  rw [Sem.emax_eq h1, Sem.emin_eq]
  have hpow : 2 ^ 1 ≤ 2 ^ (F.e - 1) := Nat.pow_le_pow_right (by norm_num) (by have := hF.1; omega)
  generalize 2 ^ (F.e - 1) = P at *
  omega

/-- the side condition on the inner fuel holds for every format with at most 16 exponent
    bits and at most 50000 significand bits (all presets: FP16 … FP256) -/
theorem inner_fuel_small (F : Sem) (hF : F.WF) (he : F.e ≤ 16) (hp : F.p ≤ 50000) :
    (2 * F.emax - F.emin).toNat + 2 * (F.growLog 4).p + 20 ≤ innerFuel := by
  have h1 : 1 ≤ F.e := by have := hF.1; omega
  rw [Sem.emax_eq h1, Sem.emin_eq]
  have hpow : 2 ^ (F.e - 1) ≤ 2 ^ 15 := Nat.pow_le_pow_right (by norm_num) (by omega)
  have hlog : Nat.log2 F.p < 16 := by
    have := hF.2
    rw [Nat.log2_lt (by omega)]; omega
  have hG : (F.growLog 4).p ≤ F.p + 4 + 16 := by
    simp only [Sem.growLog, Sem.logPrecision]
    split <;> omega
  unfold innerFuel
  generalize 2 ^ (F.e - 1) = P at *
  omega

theorem pi_terminates_small (F : Sem) (hF : F.WF) (he : F.e ≤ 16) (hp : F.p ≤ 50000) :
    ∃ fuel r, piFuel fuel F = some r :=
  pi_terminates F hF (inner_fuel_small F hF he hp)

/-- … and then the result is a canonical value of the requested format -/
theorem pi_total (F : Sem) (hF : F.WF)
    (hin : (2 * F.emax - F.emin).toNat + 2 * (F.growLog 4).p + 20 ≤ innerFuel) :
    ∃ r, (∀ fuel, piFuelBound F ≤ fuel → piFuel fuel F = some r) ∧ r.Canonical ∧ r.sem = F := by
  obtain ⟨r, hr⟩ := pi_terminates_fuel F hF hin _ (le_refl _)
  exact ⟨r, fun fuel h => piFuel_stable F _ _ h r hr, Arp.piFuel_canonical _ F hF r hr⟩

end piTermination

/-! ### Concrete FP16 instances -/

/-- `e ≈ 2.71875 = 1392·2^-9` in FP16 -/
example : eConst FP16 = ⟨FP16, false, 1, 1392, .normal⟩ := by decide

set_option maxRecDepth 100000 in
/-- `ln 2 ≈ 0.693359 = 1420·2^-11` in FP16 -/
example : ln2Const FP16 = ⟨FP16, false, -1, 1420, .normal⟩ := by decide

set_option maxRecDepth 100000 in
/-- `π ≈ 3.140625 = 1608·2^-9` in FP16; four AGM iterations suffice -/
example : piFuel 4 FP16 = some ⟨FP16, false, 1, 1608, .normal⟩ := by decide

example : (eConst FP16).Canonical := (eConst_canonical FP16 (by decide)).1

/-- the presets FP16 … FP128 terminate in each rounding mode (FP256 has 19 exponent bits: the
    worst-case bound `3·2^18` of `C12.sqrt_terminates` exceeds the model's `innerFuel`) -/
example (rm : RM) : ∃ fuel r, piFuel fuel { FP64 with rm := rm } = some r :=
  pi_terminates_small _ (by simp [Sem.WF, FP64]) (by simp [FP64]) (by simp [FP64])
example (rm : RM) : ∃ fuel r, piFuel fuel { FP128 with rm := rm } = some r :=
  pi_terminates_small _ (by simp [Sem.WF, FP128]) (by simp [FP128]) (by simp [FP128])

set_option maxRecDepth 1000000 in
/-- FP256 by evaluation: eight iterations suffice in every mode, hence every fuel `≥ 8` -/
theorem pi_terminates_FP256 (rm : RM) (fuel : Nat) (h : 8 ≤ fuel) :
    ∃ r, piFuel fuel { FP256 with rm := rm } = some r := by
  have h8 : ∃ r, piFuel 8 { FP256 with rm := rm } = some r := by
    cases rm <;> exact Option.isSome_iff_exists.mp (by decide)
  obtain ⟨r, hr⟩ := h8
  exact ⟨r, piFuel_stable _ 8 fuel h r hr⟩

set_option maxRecDepth 100000 in
/-- termination is all that holds in the formats with two exponent bits: the constant `4`
    of the algorithm is not representable there (`max < 4`), `t = 1/4` becomes `1/∞ = 0`
    and the quotient `a²/t` is not a number although `π < 4` is in range -/
example : piFuel 5 ⟨2, 4, .zero⟩ = some (Flt.nan ⟨2, 4, .zero⟩ false) := by decide

-- NOT PROVED
-- * `pi_terminates` without the hypothesis `hin` on `innerFuel`.  The hypothesis is only used
--   for "the inner `sqrt` returns" (`C12.sqrt_terminates`, worst case over all arguments:
--   `3·2^(e-1) + 2p + 16` iterations).  The arguments that occur here are close to 1 and need
--   a handful of iterations (FP256, `e = 19`: `pi_terminates_FP256` by evaluation), but a proof
--   needs an upper bound on the two means, i.e. the error analysis of the AGM iteration; the
--   argument above only uses the lower bound `1/2`, which survives every rounding.
-- * accuracy of the three constants (not part of this package).

end Arp.C15
