import Arp.Lemmas.Canonical
/-!
# C04 — results stay canonical

* per-operation statements: canonical operands of a well-formed format give a canonical
  result of the expected format (one-line corollaries of `Arp/Lemmas/Canonical.lean`);
* `eval_canonical`: the same for every finite history of operations (`Expr`);
* `beq_iff`, `nan_ne`: `==` on canonical values is equality of the denoted extended reals.
-/
namespace Arp.C04
open Arp

/-! ## The central lemma and the constructors -/

/-- `normalize` yields a canonical value from ANY normal-category input: any exponent, any
    significand (any length, even 0), any incoming loss, any rounding mode. -/
theorem normalize_canonical (x : Flt) (rm : RM) (loss : Loss) (hF : x.sem.WF) (hx : x.cat = .normal) :
    (x.normalize rm loss).Canonical ∧ (x.normalize rm loss).sem = x.sem
      ∧ (x.normalize rm loss).sign = x.sign :=
  ⟨Arp.normalize_canonical x rm loss hF hx, normalize_sem x rm loss, normalize_sign x rm loss⟩

theorem overflow_canonical (x : Flt) (rm : RM) (hF : x.sem.WF) : (x.overflow rm).Canonical :=
  Arp.overflow_canonical x rm hF

theorem new_canonical (s : Sem) (sg : Bool) (e : Int) (m : Nat)
    (he1 : s.emin ≤ e) (he2 : e ≤ s.emax) (hm : m < 2 ^ s.p)
    (hn : m ≠ 0 → 2 ^ (s.p - 1) ≤ m ∨ e = s.emin) : (Flt.new s sg e m).Canonical :=
  Flt.new_canonical s sg e m he1 he2 hm hn

theorem zero_canonical (s : Sem) (sg : Bool) : (Flt.zero s sg).Canonical := Flt.zero_canonical s sg
theorem inf_canonical (s : Sem) (sg : Bool) : (Flt.inf s sg).Canonical := Flt.inf_canonical s sg
theorem nan_canonical (s : Sem) (sg : Bool) : (Flt.nan s sg).Canonical := Flt.nan_canonical s sg
theorem one_canonical (s : Sem) (sg : Bool) (hF : s.WF) : (Flt.one s sg).Canonical :=
  Flt.one_canonical s sg hF

/-! ## Every operation -/

theorem add_canon (a b : Flt) (rm : RM) (hF : a.sem.WF) (hs : b.sem = a.sem) (ha : a.Canonical)
    (hb : b.Canonical) : (addWithRm a b rm).Canonical ∧ (addWithRm a b rm).sem = a.sem :=
  addWithRm_canonical a b rm hF hs ha hb

theorem sub_canon (a b : Flt) (rm : RM) (hF : a.sem.WF) (hs : b.sem = a.sem) (ha : a.Canonical)
    (hb : b.Canonical) : (subWithRm a b rm).Canonical ∧ (subWithRm a b rm).sem = a.sem :=
  subWithRm_canonical a b rm hF hs ha hb

/-- (holds even for non-canonical operands: the product is always re-normalised) -/
theorem mul_canon (a b : Flt) (rm : RM) (hF : a.sem.WF) :
    (mulWithRm a b rm).Canonical ∧ (mulWithRm a b rm).sem = a.sem :=
  mulWithRm_canonical a b rm hF

/-- (holds even for non-canonical operands) -/
theorem div_canon (a b : Flt) (rm : RM) (hF : a.sem.WF) :
    (divWithRm a b rm).Canonical ∧ (divWithRm a b rm).sem = a.sem :=
  divWithRm_canonical a b rm hF

/-- (the source format need not be well formed) -/
theorem castWithRm_canon (x : Flt) (tgt : Sem) (rm : RM) (hT : tgt.WF) (hx : x.Canonical) :
    (x.castWithRm tgt rm).Canonical ∧ (x.castWithRm tgt rm).sem = tgt :=
  castWithRm_canonical x tgt rm hT hx

theorem cast_canon (x : Flt) (tgt : Sem) (hT : tgt.WF) (hx : x.Canonical) :
    (x.cast tgt).Canonical ∧ (x.cast tgt).sem = tgt :=
  cast_canonical x tgt hT hx

theorem scale_canon (x : Flt) (k : Int) (rm : RM) (hF : x.sem.WF) (hx : x.Canonical) :
    (x.scale k rm).Canonical ∧ (x.scale k rm).sem = x.sem :=
  scale_canonical x k rm hF hx

theorem fromBigint_canon (sem : Sem) (v : Nat) (hF : sem.WF) :
    (Arp.fromBigint sem v).Canonical ∧ (Arp.fromBigint sem v).sem = sem :=
  fromBigint_canonical sem v hF

theorem fromU64_canon (sem : Sem) (v : Nat) (hF : sem.WF) :
    (Arp.fromU64 sem v).Canonical ∧ (Arp.fromU64 sem v).sem = sem :=
  fromU64_canonical sem v hF

theorem fromI64_canon (sem : Sem) (v : Int) (hF : sem.WF) :
    (Arp.fromI64 sem v).Canonical ∧ (Arp.fromI64 sem v).sem = sem :=
  fromI64_canonical sem v hF

theorem trunc_canon (x : Flt) (hx : x.Canonical) : x.trunc.Canonical ∧ x.trunc.sem = x.sem :=
  trunc_canonical x hx

theorem round_canon (x : Flt) (hF : x.sem.WF) (hx : x.Canonical) : x.round.Canonical ∧ x.round.sem = x.sem :=
  round_canonical x hF hx

theorem abs_canon (x : Flt) (hx : x.Canonical) : x.abs.Canonical ∧ x.abs.sem = x.sem := abs_canonical x hx
theorem neg_canon (x : Flt) (hx : x.Canonical) : x.neg.Canonical ∧ x.neg.sem = x.sem := neg_canonical x hx

theorem min_canon (a b : Flt) (hs : b.sem = a.sem) (ha : a.Canonical) (hb : b.Canonical) :
    (a.min b).Canonical ∧ (a.min b).sem = a.sem := min_canonical a b hs ha hb

theorem max_canon (a b : Flt) (hs : b.sem = a.sem) (ha : a.Canonical) (hb : b.Canonical) :
    (a.max b).Canonical ∧ (a.max b).sem = a.sem := max_canonical a b hs ha hb

theorem powi_canon (x : Flt) (n : Nat) (hF : x.sem.WF) (hx : x.Canonical) :
    (x.powi n).Canonical ∧ (x.powi n).sem = x.sem := powi_canonical x n hF hx

theorem rem_canon (fuel : Nat) (x y r : Flt) (hF : x.sem.WF) (hs : y.sem = x.sem) (hx : x.Canonical)
    (hy : y.Canonical) (h : x.remFuel fuel y = some r) : r.Canonical ∧ r.sem = x.sem :=
  remFuel_canonical fuel x y r hF hs hx hy h

theorem sqrt_canon (fuel : Nat) (x r : Flt) (hF : x.sem.WF) (hx : x.Canonical)
    (h : x.sqrtFuel fuel = some r) : r.Canonical ∧ r.sem = x.sem :=
  sqrtFuel_canonical fuel x r hF hx h

/-! ## Histories: any finite sequence (tree) of operations -/

/-- A history of operations.  Leaves are literal values (and the integer loaders). -/
inductive Expr
  | lit (x : Flt)
  | add (rm : RM) (a b : Expr)
  | sub (rm : RM) (a b : Expr)
  | mul (rm : RM) (a b : Expr)
  | div (rm : RM) (a b : Expr)
  | cast (tgt : Sem) (rm : RM) (e : Expr)
  /-- `Float::cast`: the source format's own mode -/
  | castOwn (tgt : Sem) (e : Expr)
  | scale (k : Int) (rm : RM) (e : Expr)
  | trunc (e : Expr)
  | round (e : Expr)
  | abs (e : Expr)
  | neg (e : Expr)
  | min (a b : Expr)
  | max (a b : Expr)
  | powi (n : Nat) (e : Expr)
  | fromU64 (sem : Sem) (v : Nat)
  | fromI64 (sem : Sem) (v : Int)
  | fromBigint (sem : Sem) (v : Nat)
  | rem (fuel : Nat) (a b : Expr)
  | sqrt (fuel : Nat) (e : Expr)

/-- A binary node: defined only when both operands are, and have the same `Semantics`
    (the Rust code debug-asserts this). -/
def bin (f : Flt → Flt → Option Flt) (a b : Option Flt) : Option Flt :=
  match a, b with
  | some x, some y => if y.sem = x.sem then f x y else none
  | _, _ => none

/-- Evaluate a history with the implementation model; `none` when a binary node meets two
    formats or when a fuel-bounded loop runs out of fuel. -/
def eval : Expr → Option Flt
  | .lit x => some x
  | .add rm a b => bin (fun x y => some (addWithRm x y rm)) (eval a) (eval b)
  | .sub rm a b => bin (fun x y => some (subWithRm x y rm)) (eval a) (eval b)
  | .mul rm a b => bin (fun x y => some (mulWithRm x y rm)) (eval a) (eval b)
  | .div rm a b => bin (fun x y => some (divWithRm x y rm)) (eval a) (eval b)
  | .cast tgt rm e => (eval e).bind (fun x => some (x.castWithRm tgt rm))
  | .castOwn tgt e => (eval e).bind (fun x => some (x.cast tgt))
  | .scale k rm e => (eval e).bind (fun x => some (x.scale k rm))
  | .trunc e => (eval e).bind (fun x => some x.trunc)
  | .round e => (eval e).bind (fun x => some x.round)
  | .abs e => (eval e).bind (fun x => some x.abs)
  | .neg e => (eval e).bind (fun x => some x.neg)
  | .min a b => bin (fun x y => some (x.min y)) (eval a) (eval b)
  | .max a b => bin (fun x y => some (x.max y)) (eval a) (eval b)
  | .powi n e => (eval e).bind (fun x => some (x.powi n))
  | .fromU64 sem v => some (Arp.fromU64 sem v)
  | .fromI64 sem v => some (Arp.fromI64 sem v)
  | .fromBigint sem v => some (Arp.fromBigint sem v)
  | .rem fuel a b => bin (fun x y => x.remFuel fuel y) (eval a) (eval b)
  | .sqrt fuel e => (eval e).bind (fun x => x.sqrtFuel fuel)

/-- Every literal is canonical in a well-formed format; every target format is well formed. -/
def Expr.WFLeaves : Expr → Prop
  | .lit x => x.Canonical ∧ x.sem.WF
  | .add _ a b | .sub _ a b | .mul _ a b | .div _ a b | .min a b | .max a b | .rem _ a b =>
      a.WFLeaves ∧ b.WFLeaves
  | .cast tgt _ e | .castOwn tgt e => tgt.WF ∧ e.WFLeaves
  | .scale _ _ e | .trunc e | .round e | .abs e | .neg e | .powi _ e | .sqrt _ e => e.WFLeaves
  | .fromU64 sem _ | .fromI64 sem _ | .fromBigint sem _ => sem.WF

private theorem bin_ok (f : Flt → Flt → Option Flt)
    (hf : ∀ x y r, x.sem.WF → y.sem = x.sem → x.Canonical → y.Canonical → f x y = some r →
      r.Canonical ∧ r.sem = x.sem)
    (ea eb : Option Flt)
    (iha : ∀ r, ea = some r → r.Canonical ∧ r.sem.WF) (ihb : ∀ r, eb = some r → r.Canonical ∧ r.sem.WF)
    (r : Flt) (h : bin f ea eb = some r) : r.Canonical ∧ r.sem.WF := by
  unfold bin at h
  split at h
  · rename_i x y
    split at h
    · rename_i hs
      obtain ⟨hx, hxF⟩ := iha x rfl
      obtain ⟨hy, _⟩ := ihb y rfl
      obtain ⟨h1, h2⟩ := hf x y r hxF hs hx hy h
      exact ⟨h1, by rw [h2]; exact hxF⟩
    · cases h
  · cases h

private theorem un_ok (f : Flt → Option Flt)
    (hf : ∀ x r, x.sem.WF → x.Canonical → f x = some r → r.Canonical ∧ r.sem.WF)
    (ea : Option Flt) (iha : ∀ r, ea = some r → r.Canonical ∧ r.sem.WF)
    (r : Flt) (h : ea.bind f = some r) : r.Canonical ∧ r.sem.WF := by
  cases ea with
  | none => cases h
  | some x =>
    obtain ⟨hx, hxF⟩ := iha x rfl
    exact hf x r hxF hx h

/-- **C04 for histories**: whatever finite tree of operations is applied to canonical
    literals of well-formed formats, every value that results is canonical (and its format
    is well formed, so that the statement composes). -/
theorem eval_canonical (e : Expr) (h : e.WFLeaves) (r : Flt) (hr : eval e = some r) :
    r.Canonical ∧ r.sem.WF := by
  induction e generalizing r with
  | lit x => cases hr; exact h
  | add rm a b iha ihb =>
    exact bin_ok _ (fun x y r hF hs hx hy h => by cases h; exact addWithRm_canonical x y rm hF hs hx hy)
      _ _ (iha h.1) (ihb h.2) r hr
  | sub rm a b iha ihb =>
    exact bin_ok _ (fun x y r hF hs hx hy h => by cases h; exact subWithRm_canonical x y rm hF hs hx hy)
      _ _ (iha h.1) (ihb h.2) r hr
  | mul rm a b iha ihb =>
    exact bin_ok _ (fun x y r hF _ _ _ h => by cases h; exact mulWithRm_canonical x y rm hF)
      _ _ (iha h.1) (ihb h.2) r hr
  | div rm a b iha ihb =>
    exact bin_ok _ (fun x y r hF _ _ _ h => by cases h; exact divWithRm_canonical x y rm hF)
      _ _ (iha h.1) (ihb h.2) r hr
  | cast tgt rm e ih =>
    refine un_ok _ (fun x r _ hx h' => ?_) _ (ih h.2) r hr
    cases h'
    have := castWithRm_canonical x tgt rm h.1 hx
    exact ⟨this.1, by rw [this.2]; exact h.1⟩
  | castOwn tgt e ih =>
    refine un_ok _ (fun x r _ hx h' => ?_) _ (ih h.2) r hr
    cases h'
    have := cast_canonical x tgt h.1 hx
    exact ⟨this.1, by rw [this.2]; exact h.1⟩
  | scale k rm e ih =>
    refine un_ok _ (fun x r hF hx h' => ?_) _ (ih h) r hr
    cases h'
    have := scale_canonical x k rm hF hx
    exact ⟨this.1, by rw [this.2]; exact hF⟩
  | trunc e ih =>
    refine un_ok _ (fun x r hF hx h' => ?_) _ (ih h) r hr
    cases h'
    have := trunc_canonical x hx
    exact ⟨this.1, by rw [this.2]; exact hF⟩
  | round e ih =>
    refine un_ok _ (fun x r hF hx h' => ?_) _ (ih h) r hr
    cases h'
    have := round_canonical x hF hx
    exact ⟨this.1, by rw [this.2]; exact hF⟩
  | abs e ih =>
    refine un_ok _ (fun x r hF hx h' => ?_) _ (ih h) r hr
    cases h'; exact ⟨hx, hF⟩
  | neg e ih =>
    refine un_ok _ (fun x r hF hx h' => ?_) _ (ih h) r hr
    cases h'; exact ⟨hx, hF⟩
  | min a b iha ihb =>
    exact bin_ok _ (fun x y r _ hs hx hy h => by cases h; exact min_canonical x y hs hx hy)
      _ _ (iha h.1) (ihb h.2) r hr
  | max a b iha ihb =>
    exact bin_ok _ (fun x y r _ hs hx hy h => by cases h; exact max_canonical x y hs hx hy)
      _ _ (iha h.1) (ihb h.2) r hr
  | powi n e ih =>
    refine un_ok _ (fun x r hF hx h' => ?_) _ (ih h) r hr
    cases h'
    have := powi_canonical x n hF hx
    exact ⟨this.1, by rw [this.2]; exact hF⟩
  | fromU64 sem v =>
    cases hr
    have := fromU64_canonical sem v h
    exact ⟨this.1, by rw [this.2]; exact h⟩
  | fromI64 sem v =>
    cases hr
    have := fromI64_canonical sem v h
    exact ⟨this.1, by rw [this.2]; exact h⟩
  | fromBigint sem v =>
    cases hr
    have := fromBigint_canonical sem v h
    exact ⟨this.1, by rw [this.2]; exact h⟩
  | rem fuel a b iha ihb =>
    exact bin_ok _ (fun x y r hF hs hx hy h => remFuel_canonical fuel x y r hF hs hx hy h)
      _ _ (iha h.1) (ihb h.2) r hr
  | sqrt fuel e ih =>
    refine un_ok _ (fun x r hF hx h' => ?_) _ (ih h) r hr
    have := sqrtFuel_canonical fuel x r hF hx h'
    exact ⟨this.1, by rw [this.2]; exact hF⟩

/-- the FP16 literals 1.0 and 3.0 -/
def one16 : Flt := ⟨FP16, false, 0, 1024, .normal⟩
def three16 : Flt := ⟨FP16, false, 1, 1536, .normal⟩

/-- The hypotheses of `eval_canonical` are satisfiable by a non-trivial history:
    `sqrt(1.0 / 3.0)` in FP16 (fuel 50) has well-formed leaves and evaluates. -/
example : (Expr.sqrt 50 (.div .nte (.lit one16) (.lit three16))).WFLeaves := by
  simp only [Expr.WFLeaves, Sem.WF, one16, three16, FP16, Flt.Canonical]
  decide

example : ∃ r, eval (Expr.sqrt 50 (.div .nte (.lit one16) (.lit three16))) = some r := by
  refine ⟨⟨FP16, false, -1, 1182, .normal⟩, ?_⟩
  decide

/-! ## Equality (`PartialEq`) -/

/-- A NaN on either side makes `==` false (no further hypothesis is needed). -/
theorem nan_ne (a b : Flt) (h : a.cat = .nan ∨ b.cat = .nan) : a.beq b = false := by
  rcases h with h | h
  · simp [Flt.beq, h]
  · cases ha : a.cat <;> simp [Flt.beq, ha, h]

/-- On canonical non-NaN values of one format, `==` is equality of the denoted extended
    reals (so `+0 == -0`, and otherwise equal values have identical fields). -/
theorem beq_iff (a b : Flt) (hs : b.sem = a.sem) (ha : a.Canonical) (hb : b.Canonical)
    (hna : a.cat ≠ .nan) (hnb : b.cat ≠ .nan) : a.beq b = true ↔ (Spec.ext a = Spec.ext b) := by
  cases hca : a.cat <;> cases hcb : b.cat <;>
    first | exact absurd hca hna | exact absurd hcb hnb | skip
  · -- inf, inf
    obtain ⟨ae, am⟩ := (Flt.canonical_special (by rw [hca]; decide)).mp ha
    obtain ⟨be, bm⟩ := (Flt.canonical_special (by rw [hcb]; decide)).mp hb
    simp only [Flt.beq, Spec.ext, hca, hcb, ae, am, be, bm]
    cases a.sign <;> cases b.sign <;> simp
  · -- inf, normal
    simp only [Flt.beq, Spec.ext, hca, hcb]
    cases a.sign <;> simp
  · -- inf, zero
    simp only [Flt.beq, Spec.ext, hca, hcb]
    cases a.sign <;> simp
  · -- normal, inf
    simp only [Flt.beq, Spec.ext, hca, hcb]
    cases b.sign <;> simp
  · -- normal, normal
    simp only [Flt.beq, Spec.ext, hca, hcb]
    constructor
    · intro h
      simp only [Bool.and_eq_true, beq_iff_eq] at h
      obtain ⟨⟨⟨h1, h2⟩, h3⟩, _⟩ := h
      have : a.val = b.val := by
        unfold Flt.val Flt.mag
        rw [hca, hcb, h1, h2, h3, hs]
      rw [this]
    · intro h
      have hv : a.val = b.val := (Prod.mk.injEq _ _ _ _ ▸ h).2
      obtain ⟨h1, h2, h3⟩ := val_inj a b hs ha hb hca hcb hv
      simp [h1, h2, h3]
  · -- normal, zero
    have := Flt.val_ne_zero a hca ha
    have hb0 : b.val = 0 := by unfold Flt.val; rw [hcb]
    simp only [Flt.beq, Spec.ext, hca, hcb, hb0]
    simp [this]
  · -- zero, inf
    simp only [Flt.beq, Spec.ext, hca, hcb]
    cases b.sign <;> simp [Flt.val, hca]
  · -- zero, normal
    have := Flt.val_ne_zero b hcb hb
    have ha0 : a.val = 0 := by unfold Flt.val; rw [hca]
    simp only [Flt.beq, Spec.ext, hca, hcb, ha0]
    simp [Ne.symm this]
  · -- zero, zero
    have ha0 : a.val = 0 := by unfold Flt.val; rw [hca]
    have hb0 : b.val = 0 := by unfold Flt.val; rw [hcb]
    simp [Flt.beq, Spec.ext, hca, hcb, ha0, hb0]

end Arp.C04
