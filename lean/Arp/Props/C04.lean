import Arp.Model.Arith
import Arp.Spec.Ops
namespace Arp.C04
theorem smoke : (1:Nat) + 1 = 2 := rfl
end Arp.C04
