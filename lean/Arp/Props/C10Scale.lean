import Arp.Lemmas.CastScale
/-!
# C10 (scale, abs, neg) — `scale` is `x · 2^k` rounded once; `abs`/`neg` change only the sign
-/
namespace Arp
/-- `Spec.scale` without the clamp of `k`: `x · 2^k` rounded once, for every integer `k`. -/
def Spec.scaleExact (rm : RM) (k : Int) (x : Flt) : Res :=
  match x.cat with
  | .nan => .nan
  | .inf => .inf x.sign
  | .zero => .zero x.sign
  | .normal => Spec.round x.sem rm x.sign (x.mag * (2 : ℚ) ^ k)
end Arp

namespace Arp.C10
open Arp

/-- the unclamped core of `scale`: the value times `2^k` rounded once under `rm`, for every `k : Int`. -/
theorem scaleCore_correct (x : Flt) (k : Int) (rm : RM) (hF : x.sem.WF) (hc : x.Canonical) :
    (x.scaleCore k rm).toRes = Spec.scaleExact rm k x := by
  unfold Flt.scaleCore Spec.scaleExact Flt.isNormal
  cases hx : x.cat
  · simp [Flt.toRes, hx]
  · simp [Flt.toRes, hx]
  · obtain ⟨h1, h2, h3, h4, h5⟩ := (Flt.canonical_normal hx).mp hc
    have hm : x.mant ≠ 0 := ne_of_gt h3
    simp only [beq_self_eq_true, Bool.not_true, Bool.false_eq_true, if_false, Flt.new, hm]
    exact normalize_exact ⟨x.sem, x.sign, x.exp + k, x.mant, .normal⟩ rm _ hF rfl hm
      (by rw [Flt.mag_eq, mul_assoc, ← zpow_add₀ (by norm_num : (2 : ℚ) ≠ 0)]; simp only
          congr 2; ring)
  · simp [Flt.toRes, hx]

/-- the largest FP16 value scaled far below the subnormal range -/
example : ((⟨FP16, false, 15, 2047, .normal⟩ : Flt).scaleCore (-40) .pos).toRes
    = Spec.scaleExact .pos (-40) ⟨FP16, false, 15, 2047, .normal⟩ :=
  scaleCore_correct _ _ _ (by decide) (by decide)

/-- Non-normal operands are returned unchanged. -/
theorem scale_special (x : Flt) (k : Int) (rm : RM) (hx : x.cat ≠ .normal) : x.scale k rm = x := by
  unfold Flt.scale Flt.scaleCore Flt.isNormal
  cases h : x.cat <;> simp_all

example : (⟨FP16, true, 0, 0, .zero⟩ : Flt).scale 5 .nte = ⟨FP16, true, 0, 0, .zero⟩ :=
  scale_special _ _ _ (by decide)

/-- magnitude bounds of a canonical normal value -/
theorem mag_bounds (x : Flt) (hx : x.cat = .normal) (hc : x.Canonical) :
    (2 : ℚ) ^ (x.sem.emin - ((x.sem.p : Int) - 1)) ≤ x.mag ∧ x.mag < (2 : ℚ) ^ (x.sem.emax + 1) := by
  obtain ⟨h1, h2, h3, h4, h5⟩ := (Flt.canonical_normal hx).mp hc
  have hm1 : (1 : ℚ) ≤ x.mant := by exact_mod_cast h3
  have hm2 : (x.mant : ℚ) < 2 ^ x.sem.p := by exact_mod_cast h4
  rw [Flt.mag_eq]
  constructor
  · calc (2 : ℚ) ^ (x.sem.emin - ((x.sem.p : Int) - 1))
        ≤ (2 : ℚ) ^ (x.exp - ((x.sem.p : Int) - 1)) := zpow_le_zpow_right₀ (by norm_num) (by omega)
      _ = 1 * (2 : ℚ) ^ (x.exp - ((x.sem.p : Int) - 1)) := (one_mul _).symm
      _ ≤ x.mant * (2 : ℚ) ^ (x.exp - ((x.sem.p : Int) - 1)) :=
          mul_le_mul_of_nonneg_right hm1 (by positivity)
  · calc (x.mant : ℚ) * (2 : ℚ) ^ (x.exp - ((x.sem.p : Int) - 1))
        < 2 ^ x.sem.p * (2 : ℚ) ^ (x.exp - ((x.sem.p : Int) - 1)) :=
          mul_lt_mul_of_pos_right hm2 (by positivity)
      _ = (2 : ℚ) ^ (x.exp + 1) := by
          rw [← zpow_natCast, ← zpow_add₀ (by norm_num : (2 : ℚ) ≠ 0)]; congr 1; ring
      _ ≤ (2 : ℚ) ^ (x.sem.emax + 1) := zpow_le_zpow_right₀ (by norm_num) (by omega)

/-- Clamping `k` to `±B` for any `B ≥ emax - emin + p + 1` does not change `x · 2^k` rounded once:
    beyond that amount both sides are the same deep overflow / deep underflow. -/
theorem scaleExact_clamp (x : Flt) (k B : Int) (rm : RM) (hF : x.sem.WF) (hc : x.Canonical)
    (hB : x.sem.scaleSpan ≤ B) :
    Spec.scaleExact rm (max (-B) (min B k)) x = Spec.scaleExact rm k x := by
  unfold Spec.scaleExact
  cases hx : x.cat <;> simp only
  obtain ⟨hlo, hhi⟩ := mag_bounds x hx hc
  have hmpos : 0 < x.mag := lt_of_lt_of_le (by positivity) hlo
  unfold Sem.scaleSpan at hB
  have hp1 : 1 ≤ (x.sem.p : Int) := by have := hF.2; omega
  have huge : ∀ j : Int, B ≤ j → (2 : ℚ) ^ (x.sem.emax + 1) ≤ x.mag * (2 : ℚ) ^ j := by
    intro j hj
    calc (2 : ℚ) ^ (x.sem.emax + 1)
        ≤ (2 : ℚ) ^ (x.sem.emin - ((x.sem.p : Int) - 1) + j) :=
          zpow_le_zpow_right₀ (by norm_num) (by omega)
      _ = (2 : ℚ) ^ (x.sem.emin - ((x.sem.p : Int) - 1)) * (2 : ℚ) ^ j :=
          zpow_add₀ (by norm_num) _ _
      _ ≤ x.mag * (2 : ℚ) ^ j := mul_le_mul_of_nonneg_right hlo (by positivity)
  have tiny : ∀ j : Int, j ≤ -B →
      x.mag * (2 : ℚ) ^ j < (2 : ℚ) ^ (x.sem.emin - (x.sem.p : Int)) := by
    intro j hj
    calc x.mag * (2 : ℚ) ^ j < (2 : ℚ) ^ (x.sem.emax + 1) * (2 : ℚ) ^ j :=
          mul_lt_mul_of_pos_right hhi (by positivity)
      _ = (2 : ℚ) ^ (x.sem.emax + 1 + j) := (zpow_add₀ (by norm_num) _ _).symm
      _ ≤ (2 : ℚ) ^ (x.sem.emin - (x.sem.p : Int)) :=
          zpow_le_zpow_right₀ (by norm_num) (by omega)
  have hmm := Sem.emin_le_emax hF
  rcases le_or_gt B k with hk | hk
  · rw [show max (-B) (min B k) = B by omega,
      round_huge _ _ _ _ (huge B (le_refl _)), round_huge _ _ _ _ (huge k hk)]
  · rcases le_or_gt k (-B) with hk' | hk'
    · rw [show max (-B) (min B k) = -B by omega,
        round_tiny _ hF _ _ _ (by positivity) (tiny (-B) (le_refl _)),
        round_tiny _ hF _ _ _ (by positivity) (tiny k hk')]
    · rw [show max (-B) (min B k) = k by omega]

/-- **`scale(k, rm)` returns the value times `2^k` rounded once under `rm`, for every `k : Int`**
    (the code clamps `k` to `±(emax - emin + p + 1)` so that `exp + k` stays inside `i64`; the clamp
    does not change the result). -/
theorem scale_correct (x : Flt) (k : Int) (rm : RM) (hF : x.sem.WF) (hc : x.Canonical) :
    (x.scale k rm).toRes = Spec.scaleExact rm k x := by
  unfold Flt.scale
  rw [scaleCore_correct x _ rm hF hc, scaleExact_clamp x k _ rm hF hc (le_refl _)]

/-- the largest FP16 value scaled by the extreme `i64` amounts -/
example : ((⟨FP16, false, 15, 2047, .normal⟩ : Flt).scale (-(2 ^ 63)) .pos).toRes
    = Spec.scaleExact .pos (-(2 ^ 63)) ⟨FP16, false, 15, 2047, .normal⟩ :=
  scale_correct _ _ _ (by decide) (by decide)

/-- C19 (integer-overflow checks): for exponent widths up to 61 bits the sum `exp + clamp(k)` formed by
    `scale` lies strictly inside the `i64` range for every canonical operand and every `k`, and so does
    the clamp bound itself — the addition that used to wrap (`scale(i64::MAX)`) cannot overflow. -/
theorem scale_exp_in_i64 (x : Flt) (k : Int) (hF : x.sem.WF) (he : x.sem.e ≤ 61)
    (hp : (x.sem.p : Int) < 2 ^ 61) (hx : x.cat = .normal) (hc : x.Canonical) :
    let span := x.sem.scaleSpan
    let k' := max (-span) (min span k)
    (-(2 ^ 63 : Int) < -span ∧ span < 2 ^ 63 ∧ -(2 ^ 63 : Int) < x.exp + k' ∧ x.exp + k' < 2 ^ 63) := by
  intro span k'
  obtain ⟨h1, h2, _, _, _⟩ := (Flt.canonical_normal hx).mp hc
  have hr := Sem.range_eq (s := x.sem) (by have := hF.1; omega)
  have hemax := Sem.emax_eq (s := x.sem) (by have := hF.1; omega)
  have hemin := Sem.emin_eq x.sem
  have hpow : ((2 ^ x.sem.e : Nat) : Int) ≤ 2 ^ 61 := by
    have : 2 ^ x.sem.e ≤ 2 ^ 61 := Nat.pow_le_pow_right (by norm_num) he
    exact_mod_cast this
  have hpow1 : ((2 ^ (x.sem.e - 1) : Nat) : Int) ≤ 2 ^ 60 := by
    have : 2 ^ (x.sem.e - 1) ≤ 2 ^ 60 := Nat.pow_le_pow_right (by norm_num) (by omega)
    exact_mod_cast this
  have hpos1 : (0 : Int) < ((2 ^ (x.sem.e - 1) : Nat) : Int) := by positivity
  have hspan : span = ((2 ^ x.sem.e : Nat) : Int) - 3 + (x.sem.p : Int) + 1 := by
    show x.sem.emax - x.sem.emin + (x.sem.p : Int) + 1 = _
    rw [hr]
  have hp0 : (0 : Int) ≤ (x.sem.p : Int) := Int.natCast_nonneg _
  have hpos : (0 : Int) < ((2 ^ x.sem.e : Nat) : Int) := by positivity
  refine ⟨by omega, by omega, ?_, ?_⟩
  · have : -span ≤ k' := le_max_left _ _
    omega
  · have : k' ≤ span := max_le (by omega) (min_le_left _ _)
    omega

/-- The executable specification's clamp of `k` to `±scaleBound` does not change the result:
    beyond it both sides are the same deep overflow / deep underflow. -/
theorem scale_clamp (x : Flt) (k : Int) (rm : RM) (hF : x.sem.WF) (hc : x.Canonical) :
    Spec.scale rm k x = Spec.scaleExact rm k x := by
  unfold Spec.scale Spec.scaleExact
  cases hx : x.cat <;> simp only
  obtain ⟨hlo, hhi⟩ := mag_bounds x hx hc
  have hrange := Sem.range_eq (s := x.sem) (by have := hF.1; omega)
  have hmpos : 0 < x.mag := lt_of_lt_of_le (by positivity) hlo
  rw [pow2_eq]
  set B := Spec.scaleBound x.sem with hB
  have hBdef : B = 2 * ((2 ^ x.sem.e : Nat) : Int) + 2 * (x.sem.p : Int) + 8 := rfl
  have h2e : (0 : Int) < ((2 ^ x.sem.e : Nat) : Int) := by positivity
  -- anything scaled up by at least `B` overflows
  have huge : ∀ j : Int, B ≤ j → (2 : ℚ) ^ (x.sem.emax + 1) ≤ x.mag * (2 : ℚ) ^ j := by
    intro j hj
    calc (2 : ℚ) ^ (x.sem.emax + 1)
        ≤ (2 : ℚ) ^ (x.sem.emin - ((x.sem.p : Int) - 1) + j) :=
          zpow_le_zpow_right₀ (by norm_num) (by omega)
      _ = (2 : ℚ) ^ (x.sem.emin - ((x.sem.p : Int) - 1)) * (2 : ℚ) ^ j :=
          zpow_add₀ (by norm_num) _ _
      _ ≤ x.mag * (2 : ℚ) ^ j := mul_le_mul_of_nonneg_right hlo (by positivity)
  -- anything scaled down by at least `B` is below half of the smallest subnormal
  have tiny : ∀ j : Int, j ≤ -B →
      x.mag * (2 : ℚ) ^ j < (2 : ℚ) ^ (x.sem.emin - (x.sem.p : Int)) := by
    intro j hj
    calc x.mag * (2 : ℚ) ^ j < (2 : ℚ) ^ (x.sem.emax + 1) * (2 : ℚ) ^ j :=
          mul_lt_mul_of_pos_right hhi (by positivity)
      _ = (2 : ℚ) ^ (x.sem.emax + 1 + j) := (zpow_add₀ (by norm_num) _ _).symm
      _ ≤ (2 : ℚ) ^ (x.sem.emin - (x.sem.p : Int)) :=
          zpow_le_zpow_right₀ (by norm_num) (by omega)
  unfold Spec.clampK
  rw [← hB]
  rcases le_or_gt B k with hk | hk
  · rw [show max (-B) (min B k) = B by omega,
      round_huge _ _ _ _ (huge B (le_refl _)), round_huge _ _ _ _ (huge k hk)]
  · rcases le_or_gt k (-B) with hk' | hk'
    · rw [show max (-B) (min B k) = -B by omega,
        round_tiny _ hF _ _ _ (by positivity) (tiny (-B) (le_refl _)),
        round_tiny _ hF _ _ _ (by positivity) (tiny k hk')]
    · rw [show max (-B) (min B k) = k by omega]

example : Spec.scale .nte (2 ^ 40) ⟨FP16, true, -14, 1, .normal⟩
    = Spec.scaleExact .nte (2 ^ 40) ⟨FP16, true, -14, 1, .normal⟩ :=
  scale_clamp _ _ _ (by decide) (by decide)

/-- far beyond the range the result is the overflow table (C02) … -/
example : Spec.round FP16 .zero true ((2 : ℚ) ^ (16 : Int)) = Spec.overflow FP16 .zero true :=
  round_huge _ _ _ _ (by rw [show FP16.emax = 15 by decide]; norm_num)

/-- … or the mode-and-sign-only deep-underflow result -/
example : Spec.round FP16 .neg true ((2 : ℚ) ^ (-26 : Int)) = .fin true (-14) 1 :=
  round_tiny FP16 (by decide) _ _ _ (by positivity)
    (by rw [show FP16.emin = -14 by decide]; norm_num [FP16])

/-- `scale` against the executable (clamped) specification. -/
theorem scale_correct_clamped (x : Flt) (k : Int) (rm : RM) (hF : x.sem.WF) (hc : x.Canonical) :
    (x.scale k rm).toRes = Spec.scale rm k x := by
  rw [scale_correct x k rm hF hc, scale_clamp x k rm hF hc]

/-- `abs` and `neg` change only the sign (definitional). -/
theorem abs_neg_only_sign (x : Flt) :
    x.abs = { x with sign := false } ∧ x.neg = { x with sign := !x.sign }
      ∧ x.abs.mag = x.mag ∧ x.neg.mag = x.mag
      ∧ x.abs.toRes = x.toRes.setSign false ∧ x.neg.toRes = x.toRes.setSign (!x.sign)
      ∧ (x.abs.Canonical ↔ x.Canonical) ∧ (x.neg.Canonical ↔ x.Canonical) := by
  refine ⟨rfl, rfl, rfl, rfl, ?_, ?_, Iff.rfl, Iff.rfl⟩
  · exact toRes_setSign x false
  · exact toRes_setSign x (!x.sign)

theorem neg_val (x : Flt) : x.neg.val = -x.val := by
  obtain ⟨xs, xsg, xe, xm, xc⟩ := x
  cases xc <;> cases xsg <;> simp [Flt.neg, Flt.val, Flt.mag]

theorem abs_val (x : Flt) : x.abs.val = |x.val| := by
  obtain ⟨xs, xsg, xe, xm, xc⟩ := x
  have hm : 0 ≤ (⟨xs, xsg, xe, xm, xc⟩ : Flt).mag := by
    unfold Flt.mag; exact mul_nonneg (Nat.cast_nonneg _) (le_of_lt (pow2_pos _))
  have hm' : (⟨xs, false, xe, xm, xc⟩ : Flt).mag = (⟨xs, xsg, xe, xm, xc⟩ : Flt).mag := rfl
  cases xc <;> cases xsg <;> simp [Flt.abs, Flt.val, hm']
  all_goals (rw [abs_of_nonneg hm])

end Arp.C10
