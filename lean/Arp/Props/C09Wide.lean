import Arp.Props.C09
import Arp.Lemmas.LimbsDigitsWide
/-!
# C09 (wide) — `to_digits::<10>` is total and exact up to 104 335 words, and fails at 117 676

`C09.toDigitsOk_ten` stops at 5000 words.  `Display` prints integers up to `2^(2^(E-1))`, i.e.
8193 words for 20 exponent bits and 16 385 words for 21; the theorems below cover every number of
at most 104 335 words (6.68 Mbit, 2.01 million decimal digits), which includes formats with up to
23 exponent bits (`2^(2^22)`: 65 537 words).

Why it stops there.  `to_digits` budgets `n = ⌊len·64·59/196⌋` digits; `59/196 < log10 2`, so the
true digit count exceeds the budget by `d ≈ 0.000614·len + 1`.  Along the chain of high halves
the recursion keeps `val num < 10^(num_digits + d)` exactly (the slack neither grows nor shrinks),
and the split of a 6-word quotient (`≥ 2^320 > 10^96`, peeling `k = 32` digits) is safe iff
`d ≤ 65`.  `budget_bound_wide` proves `d ≤ 65` for `len ≤ 104335` through `2^13301 < 10^4004`, and
`budget_bound_wide_sharp` shows `d = 66` for the all-ones number of 104 336 words.  Beyond that the
run may or may not hit a short quotient with an exhausted budget, depending on the number;
`toDigits_ten_fails_117676` and `toDigits_ten_fails_160000` are concrete failures (all-ones
numbers), and `C13.limbs_toDigits_fails_117618` (`Arp/Props/C13LimbsWide.lean`) is the smallest
failure known: `234·10^2266014`, 117 618 words.  Between 104 336 and 117 617 words nothing is
proved; a sampled value-level simulation (400 mantissas per length) finds no failure there, so
the alignment of the chain of word counts probably protects that range, but no uniform slack
argument can show it.
-/
namespace Arp.C09
open Arp.Limbs

/-- `to_digits::<10>` — the instance used by `Float`'s printer — neither panics on
`num_digits - k` nor diverges on any number of at most 104 335 words … -/
theorem toDigitsOk_ten_wide {a : List Nat} (ha : WF a) (hlen : a.length ≤ 104335) :
    toDigitsOk 10 a = true := Limbs.toDigitsOk_ten_wide ha hlen

/-- … and is therefore unconditionally correct there: the output is Mathlib's `Nat.digits 10`,
most significant digit first. -/
theorem toDigits_ten_val_wide {a : List Nat} (ha : WF a) (hlen : a.length ≤ 104335) :
    toDigits 10 a = (Nat.digits 10 (val a)).reverse := Limbs.toDigits_ten_val_wide ha hlen

/-- the instances named in the work package (20000 words; 16384 words = 21 exponent bits) -/
theorem toDigitsOk_ten_20000 {a : List Nat} (ha : WF a) (hlen : a.length ≤ 20000) :
    toDigitsOk 10 a = true := Limbs.toDigitsOk_ten_wide ha (by omega)
theorem toDigits_ten_val_20000 {a : List Nat} (ha : WF a) (hlen : a.length ≤ 20000) :
    toDigits 10 a = (Nat.digits 10 (val a)).reverse := Limbs.toDigits_ten_val_wide ha (by omega)

/-- the digit budget is at most 65 digits short of the true length for `len ≤ 104335` … -/
theorem budget_bound_wide {len : Nat} (h : len ≤ 104335) :
    B ^ len ≤ 10 ^ (len * 64 * 59 / 196 + 65) := Limbs.budget_bound_wide h
/-- … and 66 digits short at 104 336 words -/
theorem budget_bound_wide_sharp :
    ¬ (B ^ 104336 ≤ 10 ^ (104336 * 64 * 59 / 196 + 65)) := Limbs.budget_bound_wide_sharp

/-- FINDING (model level; the Rust run would need ~10^12 word operations): on the all-ones number
of 117 676 words `to_digits::<10>` underflows `num_digits - k` (a panic with overflow checks, an
endless loop pushing zeros without).  Hence `toDigitsOk_ten_wide` cannot be extended to 117 676
words. -/
theorem toDigits_ten_fails_117676 :
    toDigitsOk 10 (List.replicate 117676 (B - 1)) = false := Limbs.toDigitsOk_ten_allOnes_117676

/-- the failure predicted by the length-level simulation quoted in `C09.lean` -/
theorem toDigits_ten_fails_160000 :
    toDigitsOk 10 (List.replicate 160000 (B - 1)) = false := Limbs.toDigitsOk_ten_allOnes_160000

/-- the general criterion behind the two failures: a value-level certificate
(`Limbs.underflowCert`: the word counts along the chain of high halves, checked by
`B^(len-1) ≤ v < B^len`, ending in a split with `num_digits < k`) forces the flag to `false` -/
theorem toDigitsOk_ten_false {a : List Nat} (ha : WF a) (hlen : a.length < 2 ^ 50)
    (len : Nat) (ls : List Nat)
    (h : underflowCert (val a) 0 (len * 64 * 59 / 196) (len :: ls) = true) :
    toDigitsOk 10 a = false := Limbs.toDigitsOk_ten_false ha hlen len ls h

end Arp.C09
