import Arp.Lemmas.Display
/-!
# C13 — `Display` prints a truncated exact decimal expansion

Formatting a finite non-zero value yields an optional `'-'`, decimal digits and exactly one `'.'`,
with no exponent; read as an exact decimal number `S` it satisfies `S ≤ |x|` and
`|x| − S < |x|·2^(2−p)`, and `S = |x|` whenever `x` is an integer.  Zeros print as `0.0`/`-0.0`,
infinities as `Inf`/`-Inf`, NaN as `NaN`/`-NaN`.

The reading of a byte string as a decimal number (`digitsVal`, `decimalValue`, `IsPlainDecimal`)
is defined in `Arp/Lemmas/Display.lean`, independently of the model; the definitions are restated
here as `rfl`-checked examples.  Bytes: `'-'` = 45, `'.'` = 46, `'0'..'9'` = 48..57.
-/
namespace Arp.C13

example (ds : List Nat) : digitsVal ds = ds.foldl (fun a d => a * 10 + (d - 48)) 0 := rfl
example (i f : List Nat) :
    decimalValue i f = (digitsVal i : ℚ) + (digitsVal f : ℚ) / 10 ^ f.length := rfl
example (s : List Nat) (neg : Bool) (i f : List Nat) :
    IsPlainDecimal s neg i f ↔
      (s = (if neg then [45] else []) ++ i ++ [46] ++ f ∧
        (∀ b ∈ i, 48 ≤ b ∧ b ≤ 57) ∧ (∀ b ∈ f, 48 ≤ b ∧ b ≤ 57)) := Iff.rfl

/-! ## concrete data for the examples -/

def fp16 : Sem := ⟨5, 11, .nte⟩
def fp64 : Sem := ⟨11, 53, .nte⟩
/-- FP16 nearest to 0.3: `1229/4096 = 0.300048828125` -/
def x03 : Flt := ⟨fp16, false, -2, 1229, .normal⟩
/-- its FP16 predecessor `1228/4096 = 0.2998046875` -/
def x02998 : Flt := ⟨fp16, false, -2, 1228, .normal⟩
/-- FP16 256 -/
def x256 : Flt := ⟨fp16, false, 8, 1024, .normal⟩
/-- FP64 `-2^51` -/
def x251 : Flt := ⟨fp64, true, 51, 2 ^ 52, .normal⟩

theorem x03_display : x03.display = strBytes ".3" := by
  unfold Flt.display Flt.convertNormalToString; rw [strip0_eq]; decide
theorem x02998_display : x02998.display = strBytes ".2998" := by
  unfold Flt.display Flt.convertNormalToString; rw [strip0_eq]; decide
theorem x256_display : x256.display = strBytes "256." := by
  unfold Flt.display Flt.convertNormalToString; rw [strip0_eq]; decide
theorem x251_display : x251.display = strBytes "-2251799813685248." := by
  unfold Flt.display Flt.convertNormalToString; rw [strip0_eq]; decide

/-! ## 1. special values -/

/-- zeros, infinities and NaN print as fixed words, with `'-'` when the sign bit is set -/
theorem display_special (x : Flt) (_hF : x.sem.WF) (_hc : x.Canonical) :
    (x.cat = .zero → x.display = if x.sign then strBytes "-0.0" else strBytes "0.0") ∧
    (x.cat = .inf → x.display = if x.sign then strBytes "-Inf" else strBytes "Inf") ∧
    (x.cat = .nan → x.display = if x.sign then strBytes "-NaN" else strBytes "NaN") := by
  refine ⟨fun h => ?_, fun h => ?_, fun h => ?_⟩ <;>
  · unfold Flt.display
    rw [h]
    cases x.sign <;> rfl

/-- the same, as explicit byte lists -/
theorem display_special_bytes (x : Flt) (_hF : x.sem.WF) (_hc : x.Canonical) :
    (x.cat = .zero → x.display = if x.sign then [45, 48, 46, 48] else [48, 46, 48]) ∧
    (x.cat = .inf → x.display = if x.sign then [45, 73, 110, 102] else [73, 110, 102]) ∧
    (x.cat = .nan → x.display = if x.sign then [45, 78, 97, 78] else [78, 97, 78]) := by
  refine ⟨fun h => ?_, fun h => ?_, fun h => ?_⟩ <;>
  · unfold Flt.display
    rw [h]
    cases x.sign <;> rfl

example : (Flt.mk fp16 true 0 0 .zero).display = strBytes "-0.0" := by decide
example : (Flt.mk fp16 false 0 0 .inf).display = strBytes "Inf" := by decide
example : (Flt.mk fp64 true 0 0 .nan).display = strBytes "-NaN" := by decide

/-! ## 2. shape -/

/-- a normal value prints as `['-'] digits '.' digits`: exactly one point, no exponent marker -/
theorem display_shape (x : Flt) (_hF : x.sem.WF) (_hc : x.Canonical) (hx : x.cat = .normal) :
    ∃ i f, IsPlainDecimal x.display x.sign i f := by
  obtain ⟨i, f, h, _⟩ := display_normal x hx
  exact ⟨i, f, h⟩

/-- consequently: only `'-'`, `'.'` and digits occur (no exponent marker) and there is exactly
    one `'.'` -/
theorem display_one_point (x : Flt) (hF : x.sem.WF) (hc : x.Canonical) (hx : x.cat = .normal) :
    (∀ b ∈ x.display, b = 45 ∨ b = 46 ∨ (48 ≤ b ∧ b ≤ 57)) ∧ x.display.count 46 = 1 := by
  obtain ⟨i, f, h, hi, hf⟩ := display_shape x hF hc hx
  have ci : i.count 46 = 0 := List.count_eq_zero.mpr (fun hm => by have := hi 46 hm; omega)
  have cf : f.count 46 = 0 := List.count_eq_zero.mpr (fun hm => by have := hf 46 hm; omega)
  rw [h]
  constructor
  · intro b hb
    simp only [List.mem_append, List.mem_singleton] at hb
    rcases hb with ((hb | hb) | hb) | hb
    · cases x.sign <;> simp_all
    · exact Or.inr (Or.inr (hi b hb))
    · exact Or.inr (Or.inl hb)
    · exact Or.inr (Or.inr (hf b hb))
  · simp only [List.count_append, ci, cf]
    cases x.sign <;> simp

example : IsPlainDecimal x03.display x03.sign [] [51] := by
  rw [x03_display]; exact ⟨by decide, by decide, by decide⟩
example : IsPlainDecimal x251.display x251.sign
    [50, 50, 53, 49, 55, 57, 57, 56, 49, 51, 54, 56, 53, 50, 52, 56] [] := by
  rw [x251_display]; exact ⟨by decide, by decide, by decide⟩

/-! ## 3. value -/

/-- the printed decimal is a truncation of `|x|` that loses less than `|x|·2^(2-p)` -/
theorem display_value (x : Flt) (hF : x.sem.WF) (hc : x.Canonical) (hx : x.cat = .normal) :
    ∃ i f, IsPlainDecimal x.display x.sign i f ∧ decimalValue i f ≤ x.mag ∧
      x.mag - decimalValue i f < x.mag * (2 : ℚ) ^ (2 - (x.sem.p : Int)) := by
  obtain ⟨i, f, N, k, d, h1, h2, h3, hN, _, h5, _⟩ := display_core x hF hc hx
  have hk : (0 : ℚ) < 10 ^ k := by positivity
  have hNq : (0 : ℚ) < (N : ℚ) := by exact_mod_cast Nat.pos_of_ne_zero hN
  have hmag : 0 < x.mag := by rw [h3]; positivity
  have hr0 : (0 : ℚ) ≤ ((N % 10 ^ d : Nat) : ℚ) / 10 ^ k := by positivity
  refine ⟨i, f, h1, by rw [h2]; linarith, ?_⟩
  rw [h2, sub_sub_cancel]
  have h2p : (0 : ℚ) < (2 : ℚ) ^ (2 - (x.sem.p : Int)) := by positivity
  rcases h5 with h5 | h5
  · subst h5
    rw [pow_zero, Nat.mod_one, Nat.cast_zero, zero_div]
    positivity
  · have hlt : ((N % 10 ^ d : Nat) : ℚ) < (10 : ℚ) ^ d := by
      exact_mod_cast Nat.mod_lt N (by positivity)
    calc ((N % 10 ^ d : Nat) : ℚ) / 10 ^ k < (10 : ℚ) ^ d / 10 ^ k :=
          div_lt_div_of_pos_right hlt hk
      _ ≤ ((N : ℚ) * (2 : ℚ) ^ (2 - (x.sem.p : Int))) / 10 ^ k :=
          div_le_div_of_nonneg_right h5 hk.le
      _ = x.mag * (2 : ℚ) ^ (2 - (x.sem.p : Int)) := by rw [h3]; ring

/-- FP16 0.3 = 1229/4096 prints ".3": `3/10 ≤ 1229/4096` and the loss is below `|x|·2^-9` -/
example : decimalValue [] [51] ≤ x03.mag ∧
    x03.mag - decimalValue [] [51] < x03.mag * (2 : ℚ) ^ (2 - (x03.sem.p : Int)) := by
  have h1 : x03.mag = 1229 / 4096 := by rw [Flt.mag_eq]; norm_num [x03, fp16]
  have h2 : decimalValue [] [51] = 3 / 10 := by norm_num [decimalValue, digitsVal]
  rw [h1, h2]; norm_num [x03, fp16]

/-- 1228/4096 = 0.2998046875 prints ".2998" -/
example : decimalValue [] [50, 57, 57, 56] ≤ x02998.mag ∧
    x02998.mag - decimalValue [] [50, 57, 57, 56]
      < x02998.mag * (2 : ℚ) ^ (2 - (x02998.sem.p : Int)) := by
  have h1 : x02998.mag = 1228 / 4096 := by rw [Flt.mag_eq]; norm_num [x02998, fp16]
  have h2 : decimalValue [] [50, 57, 57, 56] = 2998 / 10000 := by
    norm_num [decimalValue, digitsVal]
  rw [h1, h2]; norm_num [x02998, fp16]

/-! ## 4. integers print exactly -/

/-- an integer value is printed without dropping any non-zero digit -/
theorem display_integer_exact (x : Flt) (hF : x.sem.WF) (hc : x.Canonical) (hx : x.cat = .normal)
    (hint : ∃ n : Nat, x.mag = n) :
    ∃ i f, IsPlainDecimal x.display x.sign i f ∧ decimalValue i f = x.mag := by
  obtain ⟨i, f, N, k, d, h1, h2, _, _, h4, _, h6⟩ := display_core x hF hc hx
  refine ⟨i, f, h1, ?_⟩
  rw [h2]
  suffices hz : N % 10 ^ d = 0 by rw [hz, Nat.cast_zero, zero_div, sub_zero]
  obtain ⟨n, hn⟩ := hint
  rcases h6 with ⟨e1, e2⟩ | e1
  · -- `mant = n·2^k`, hence `N = n·10^k`
    rw [hn] at e2
    have e3 : x.mant = n * 2 ^ k := by exact_mod_cast e2
    have e4 : N = n * 10 ^ (k - d) * 10 ^ d := by
      rw [e1, e3, mul_assoc, ← mul_pow, mul_assoc, ← pow_add, Nat.sub_add_cancel h4,
        show 2 * 5 = 10 from rfl]
    rw [e4]
    exact Nat.mul_mod_left _ _
  · have : d = 0 := by omega
    rw [this, pow_zero, Nat.mod_one]

/-- FP16 256 prints "256." and FP64 2^51 prints "2251799813685248.": both read back exactly -/
example : IsPlainDecimal x256.display x256.sign [50, 53, 54] [] ∧
    decimalValue [50, 53, 54] [] = x256.mag := by
  rw [x256_display, Flt.mag_eq]
  exact ⟨⟨by decide, by decide, by decide⟩, by norm_num [decimalValue, digitsVal, x256, fp16]⟩
example : decimalValue [50, 50, 53, 49, 55, 57, 57, 56, 49, 51, 54, 56, 53, 50, 52, 56] []
    = x251.mag := by
  rw [Flt.mag_eq]; norm_num [decimalValue, digitsVal, x251, fp64]

end Arp.C13
