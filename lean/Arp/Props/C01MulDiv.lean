import Arp.Lemmas.MulDiv
/-!
# C01 (multiplication, division correctly rounded) and the C03 corollaries
-/
namespace Arp.C01

/-! ### special operands (C03 table): no canonicity needed -/

theorem mul_special (a b : Flt) (rm : RM) (h : a.cat ≠ .normal ∨ b.cat ≠ .normal) :
    (mulWithRm a b rm).toRes = Spec.mul a.sem rm a b := by
  cases hca : a.cat <;> cases hcb : b.cat <;>
    simp_all [mulWithRm, Spec.mul, Spec.isNan, Spec.isInf, Spec.isZero,
      Flt.toRes, Flt.nan, Flt.inf, Flt.zero]

theorem div_special (a b : Flt) (rm : RM) (h : a.cat ≠ .normal ∨ b.cat ≠ .normal) :
    (divWithRm a b rm).toRes = Spec.div a.sem rm a b := by
  cases hca : a.cat <;> cases hcb : b.cat <;>
    simp_all [divWithRm, Spec.div, Spec.isNan, Spec.isInf, Spec.isZero,
      Flt.toRes, Flt.nan, Flt.inf, Flt.zero]

/-! ### C01 -/

/-- C01: `mul_with_rm` is the exact product rounded once (all operand categories). -/
theorem mul_correct (a b : Flt) (rm : RM) (hF : a.sem.WF) (hs : b.sem = a.sem)
    (ha : a.Canonical) (hb : b.Canonical) :
    (mulWithRm a b rm).toRes = Spec.mul a.sem rm a b := by
  by_cases hca : a.cat = .normal
  · by_cases hcb : b.cat = .normal
    · have hma := ((Flt.canonical_normal hca).mp ha).2.2.1
      have hmb := ((Flt.canonical_normal hcb).mp hb).2.2.1
      have h := mulNormals_correct a b rm (a.sign ^^ b.sign) hF hs (by omega) (by omega)
      simp only [mulWithRm, Spec.mul, Spec.isNan, Spec.isInf, Spec.isZero, hca, hcb]
      simpa using h
    · exact mul_special a b rm (Or.inr hcb)
  · exact mul_special a b rm (Or.inl hca)

/-- the hypotheses are satisfiable: `3 × (1 + 2^-10)` in FP16 (a tie, rounded to even) -/
example : (mulWithRm ⟨FP16, false, 1, 1536, .normal⟩ ⟨FP16, false, 0, 1025, .normal⟩ .nte).toRes
    = Spec.mul FP16 .nte ⟨FP16, false, 1, 1536, .normal⟩ ⟨FP16, false, 0, 1025, .normal⟩ :=
  mul_correct ⟨FP16, false, 1, 1536, .normal⟩ ⟨FP16, false, 0, 1025, .normal⟩ .nte
    ⟨by decide, by decide⟩ rfl (by unfold Flt.Canonical; decide) (by unfold Flt.Canonical; decide)

/-- and the model computes the expected value `3075/1024 ↦ 1538 · 2^(1-10)` -/
example : (mulWithRm ⟨FP16, false, 1, 1536, .normal⟩ ⟨FP16, false, 0, 1025, .normal⟩ .nte).toRes
    = .fin false 1 1538 := by decide

/-- C01: `div_with_rm` is the exact quotient rounded once (all operand categories). -/
theorem div_correct (a b : Flt) (rm : RM) (hF : a.sem.WF) (hs : b.sem = a.sem)
    (ha : a.Canonical) (hb : b.Canonical) :
    (divWithRm a b rm).toRes = Spec.div a.sem rm a b := by
  by_cases hca : a.cat = .normal
  · by_cases hcb : b.cat = .normal
    · obtain ⟨-, -, hma, hla, -⟩ := (Flt.canonical_normal hca).mp ha
      obtain ⟨-, -, hmb, hlb, -⟩ := (Flt.canonical_normal hcb).mp hb
      have h := divNormals_correct a b rm hF hs (by omega) hla (by omega) hlb
      simp only [divWithRm, Spec.div, Spec.isNan, Spec.isInf, Spec.isZero, hca, hcb]
      simpa using h
    · exact div_special a b rm (Or.inr hcb)
  · exact div_special a b rm (Or.inl hca)

/-- the hypotheses are satisfiable: `1 / 3` in FP16 -/
example : (divWithRm ⟨FP16, false, 0, 1024, .normal⟩ ⟨FP16, false, 1, 1536, .normal⟩ .nte).toRes
    = Spec.div FP16 .nte ⟨FP16, false, 0, 1024, .normal⟩ ⟨FP16, false, 1, 1536, .normal⟩ :=
  div_correct ⟨FP16, false, 0, 1024, .normal⟩ ⟨FP16, false, 1, 1536, .normal⟩ .nte
    ⟨by decide, by decide⟩ rfl (by unfold Flt.Canonical; decide) (by unfold Flt.Canonical; decide)

/-- and the model computes the expected value `1365 · 2^(-2-10)` -/
example : (divWithRm ⟨FP16, false, 0, 1024, .normal⟩ ⟨FP16, false, 1, 1536, .normal⟩ .nte).toRes
    = .fin false (-2) 1365 := by decide

/-! ### C03 corollaries for `mul` and `div` (any format, any mode, no side conditions) -/

theorem mul_nan (a b : Flt) (rm : RM) (h : a.cat = .nan ∨ b.cat = .nan) :
    (mulWithRm a b rm).toRes = .nan := by
  rw [mul_special a b rm (by rcases h with h | h <;> simp [h])]
  rcases h with h | h <;> simp [Spec.mul, Spec.isNan, h]

theorem div_nan (a b : Flt) (rm : RM) (h : a.cat = .nan ∨ b.cat = .nan) :
    (divWithRm a b rm).toRes = .nan := by
  rw [div_special a b rm (by rcases h with h | h <;> simp [h])]
  rcases h with h | h <;> simp [Spec.div, Spec.isNan, h]

theorem zero_mul_inf_nan (a b : Flt) (rm : RM)
    (h : (a.cat = .zero ∧ b.cat = .inf) ∨ (a.cat = .inf ∧ b.cat = .zero)) :
    (mulWithRm a b rm).toRes = .nan := by
  rw [mul_special a b rm (by rcases h with ⟨h, -⟩ | ⟨h, -⟩ <;> simp [h])]
  rcases h with ⟨h1, h2⟩ | ⟨h1, h2⟩ <;> simp [Spec.mul, Spec.isNan, Spec.isInf, Spec.isZero, h1, h2]

theorem div_zero_zero_nan (a b : Flt) (rm : RM) (ha : a.cat = .zero) (hb : b.cat = .zero) :
    (divWithRm a b rm).toRes = .nan := by
  rw [div_special a b rm (by simp [ha])]
  simp [Spec.div, Spec.isNan, Spec.isInf, Spec.isZero, ha, hb]

theorem div_inf_inf_nan (a b : Flt) (rm : RM) (ha : a.cat = .inf) (hb : b.cat = .inf) :
    (divWithRm a b rm).toRes = .nan := by
  rw [div_special a b rm (by simp [ha])]
  simp [Spec.div, Spec.isNan, Spec.isInf, Spec.isZero, ha, hb]

/-- finite non-zero / zero = infinity with the xor sign -/
theorem finite_div_zero_inf (a b : Flt) (rm : RM) (ha : a.cat = .normal) (hb : b.cat = .zero) :
    (divWithRm a b rm).toRes = .inf (a.sign ^^ b.sign) := by
  rw [div_special a b rm (by simp [hb])]
  simp [Spec.div, Spec.isNan, Spec.isInf, Spec.isZero, ha, hb]

/-- infinity / finite = infinity with the xor sign -/
theorem inf_div_finite_inf (a b : Flt) (rm : RM) (ha : a.cat = .inf)
    (hb : b.cat = .zero ∨ b.cat = .normal) :
    (divWithRm a b rm).toRes = .inf (a.sign ^^ b.sign) := by
  rw [div_special a b rm (by simp [ha])]
  rcases hb with hb | hb <;> simp [Spec.div, Spec.isNan, Spec.isInf, Spec.isZero, ha, hb]

/-- finite / infinity = zero with the xor sign -/
theorem finite_div_inf_zero (a b : Flt) (rm : RM) (ha : a.cat = .zero ∨ a.cat = .normal)
    (hb : b.cat = .inf) :
    (divWithRm a b rm).toRes = .zero (a.sign ^^ b.sign) := by
  rw [div_special a b rm (by simp [hb])]
  rcases ha with ha | ha <;> simp [Spec.div, Spec.isNan, Spec.isInf, Spec.isZero, ha, hb]

/-- zero / finite non-zero = zero with the xor sign -/
theorem zero_div_finite_zero (a b : Flt) (rm : RM) (ha : a.cat = .zero) (hb : b.cat = .normal) :
    (divWithRm a b rm).toRes = .zero (a.sign ^^ b.sign) := by
  rw [div_special a b rm (by simp [ha])]
  simp [Spec.div, Spec.isNan, Spec.isInf, Spec.isZero, ha, hb]

/-- a product of finite operands one of which is a zero is the zero with the xor sign -/
theorem mul_zero_sign (a b : Flt) (rm : RM)
    (h : (a.cat = .zero ∧ (b.cat = .zero ∨ b.cat = .normal)) ∨
         ((a.cat = .zero ∨ a.cat = .normal) ∧ b.cat = .zero)) :
    (mulWithRm a b rm).toRes = .zero (a.sign ^^ b.sign) := by
  rw [mul_special a b rm (by rcases h with ⟨h, -⟩ | ⟨-, h⟩ <;> simp [h])]
  rcases h with ⟨h1, h2 | h2⟩ | ⟨h1 | h1, h2⟩ <;>
    simp [Spec.mul, Spec.isNan, Spec.isInf, Spec.isZero, h1, h2]

/-- infinity times a non-zero, non-NaN operand is the infinity with the xor sign -/
theorem mul_inf_sign (a b : Flt) (rm : RM)
    (h : (a.cat = .inf ∧ (b.cat = .inf ∨ b.cat = .normal)) ∨
         ((a.cat = .inf ∨ a.cat = .normal) ∧ b.cat = .inf)) :
    (mulWithRm a b rm).toRes = .inf (a.sign ^^ b.sign) := by
  rw [mul_special a b rm (by rcases h with ⟨h, -⟩ | ⟨-, h⟩ <;> simp [h])]
  rcases h with ⟨h1, h2 | h2⟩ | ⟨h1 | h1, h2⟩ <;>
    simp [Spec.mul, Spec.isNan, Spec.isInf, Spec.isZero, h1, h2]

end Arp.C01
