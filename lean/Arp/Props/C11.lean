import Arp.Lemmas.Rem
/-!
# C11 (and the `rem` part of C19) — `rem` is the exact truncated remainder (`fmod`)

For finite `x` and finite non-zero `y`, `x.rem(y)` is exactly `x − n·y` where `n` is `x/y`
truncated toward zero: it is computed without any rounding error (in every rounding mode of the
format), has the sign of `x` (including a zero result) and magnitude below `|y|`.  The result is
NaN when `x` is infinite, `y` is zero or either is NaN, and `x` itself when `y` is infinite or `x`
is zero.  The loop terminates within `fuelBound x y` = (exponent gap) + precision + 1 iterations.
-/
namespace Arp.C11
open Arp

/-! ### 1. Special operands -/

/-- The special-operand table, for ANY fuel: NaN (with the sign of `x`) when `x` is infinite,
    `y` is zero or either is NaN; otherwise `x` itself when `y` is infinite or `x` is zero. -/
theorem rem_special (x y : Flt) (fuel : Nat) :
    ((x.cat = .nan ∨ y.cat = .nan ∨ x.cat = .inf ∨ y.cat = .zero) →
        x.remFuel fuel y = some (Flt.nan x.sem x.sign) ∧ Spec.rem x y = .nan) ∧
    (¬ (x.cat = .nan ∨ y.cat = .nan ∨ x.cat = .inf ∨ y.cat = .zero) →
      (x.cat = .zero ∨ y.cat = .inf) →
        x.remFuel fuel y = some x ∧ Spec.rem x y = x.toRes) := by
  cases hx : x.cat <;> cases hy : y.cat <;>
    simp [Flt.remFuel, Spec.rem, Flt.isNan, Flt.isInf, Flt.isZero, Spec.isNan, Spec.isInf,
      Spec.isZero, Flt.toRes, hx, hy]

/-- outside the special cases `rem` runs the loop on `|x|` and `|y|` and restores the sign of `x` -/
theorem remFuel_normal (x y : Flt) (fuel : Nat) (hx : x.cat = .normal) (hy : y.cat = .normal) :
    x.remFuel fuel y =
      (remLoop fuel x.abs (if y.sign then y.neg else y)).map (·.setSign x.sign) := by
  simp [Flt.remFuel, Flt.isNan, Flt.isInf, Flt.isZero, hx, hy]

/-- for finite non-zero operands the specification is the rounding toward zero of `remVal` -/
theorem spec_rem_normal (x y : Flt) (hx : x.cat = .normal) (hy : y.cat = .normal) :
    Spec.rem x y = Spec.roundQ x.sem .zero (Spec.remVal x y) x.sign := by
  unfold Spec.rem Spec.remVal Spec.isNan Spec.isInf Spec.isZero
  rw [hx, hy]
  rfl

/-! ### Rational arithmetic of the truncated quotient -/

theorem floor_of_rem {a b : ℚ} (hb : 0 < b) (j : ℕ) (h0 : 0 ≤ a - (j : ℚ) * b)
    (h1 : a - (j : ℚ) * b < b) : (a / b).floor = (j : Int) := by
  rw [show (a / b).floor = ⌊a / b⌋ from rfl, Int.floor_eq_iff]
  constructor
  · rw [le_div_iff₀ hb]; push_cast; linarith
  · rw [div_lt_iff₀ hb]; push_cast; linarith

/-- `x − trunc(x/y)·y` is `±(|x| − j·|y|)` with the sign of `x`, once `0 ≤ |x| − j·|y| < |y|` -/
theorem remVal_eq (xv yv a b : ℚ) (j : ℕ) (sx sy : Bool) (hx : xv = if sx then -a else a)
    (hy : yv = if sy then -b else b) (ha : 0 < a) (hb : 0 < b) (h0 : 0 ≤ a - (j : ℚ) * b)
    (h1 : a - (j : ℚ) * b < b) :
    xv - (((if xv / yv < 0 then -((-(xv / yv)).floor) else (xv / yv).floor : Int)) : ℚ) * yv
      = (if sx then -1 else 1) * (a - (j : ℚ) * b) := by
  have hfl := floor_of_rem hb j h0 h1
  have hq : 0 < a / b := div_pos ha hb
  cases sx <;> cases sy <;> simp only [Bool.false_eq_true, if_false, if_true] at hx hy ⊢ <;>
    rw [hx, hy]
  · rw [if_neg (not_lt.2 hq.le), hfl]; push_cast; ring
  · have e : a / -b = -(a / b) := by rw [div_neg]
    rw [e, if_pos (by linarith), neg_neg, hfl]; push_cast; ring
  · have e : -a / b = -(a / b) := by rw [neg_div]
    rw [e, if_pos (by linarith), neg_neg, hfl]; push_cast; ring
  · have e : -a / -b = a / b := by rw [neg_div_neg_eq]
    rw [e, if_neg (not_lt.2 hq.le), hfl]; push_cast; ring

theorem remVal_normal (x y : Flt) (hx : x.cat = .normal) (hy : y.cat = .normal) (j : ℕ)
    (hxm : 0 < x.mag) (hym : 0 < y.mag) (h0 : 0 ≤ x.mag - (j : ℚ) * y.mag)
    (h1 : x.mag - (j : ℚ) * y.mag < y.mag) :
    Spec.remVal x y = (if x.sign then -1 else 1) * (x.mag - (j : ℚ) * y.mag) := by
  unfold Spec.remVal
  exact remVal_eq x.val y.val x.mag y.mag j x.sign y.sign (Flt.val_normal hx) (Flt.val_normal hy)
    hxm hym h0 h1

/-! ### `|y|` and the sign bookkeeping -/

theorem absY (F : Sem) (y : Flt) (hs : y.sem = F) (hy : y.Canonical) (hc : y.cat = .normal) :
    RemPos F (if y.sign then y.neg else y) ∧ (if y.sign then y.neg else y).mag = y.mag ∧
      (if y.sign then y.neg else y).exp = y.exp := by
  cases h : y.sign
  · rw [if_neg (by decide)]
    exact ⟨⟨hs, hy, hc, h⟩, rfl, rfl⟩
  · rw [if_pos rfl]
    exact ⟨⟨hs, hy, hc, by simp [Flt.neg, h]⟩, rfl, rfl⟩

theorem absX (F : Sem) (x : Flt) (hs : x.sem = F) (hx : x.Canonical) (hc : x.cat = .normal) :
    RemPos F x.abs ∧ x.abs.mag = x.mag ∧ x.abs.exp = x.exp ∧ x.abs.mant = x.mant :=
  ⟨⟨hs, hx, hc, rfl⟩, rfl, rfl, rfl⟩

theorem setSign_val {F : Sem} {r0 : Flt} (h : RemSt F r0) (s : Bool) :
    (r0.setSign s).val = (if s then -1 else 1) * r0.val := by
  rcases h.cat with hz | ⟨hn, hsg⟩
  · have : (r0.setSign s).cat = .zero := hz
    rw [Flt.val_zero this, Flt.val_zero hz, mul_zero]
  · have : (r0.setSign s).cat = .normal := hn
    rw [Flt.val_normal this, Flt.val_normal hn, hsg]
    have hm : (r0.setSign s).mag = r0.mag := rfl
    have hs' : (r0.setSign s).sign = s := rfl
    rw [hm, hs']
    cases s <;> simp

/-! ### 2. Whenever the loop returns, the result is the exact remainder -/

/-- the finite, non-zero case -/
theorem rem_spec_normal (x y : Flt) (fuel : Nat) (hF : x.sem.WF) (hs : y.sem = x.sem)
    (hx : x.Canonical) (hy : y.Canonical) (hxc : x.cat = .normal) (hyc : y.cat = .normal)
    (r : Flt) (h : x.remFuel fuel y = some r) :
    r.toRes = Spec.rem x y ∧ r.val = Spec.remVal x y ∧ |r.val| < |y.val| ∧ r.sign = x.sign := by
  rw [remFuel_normal x y fuel hxc hyc, Option.map_eq_some_iff] at h
  obtain ⟨r0, h0, rfl⟩ := h
  obtain ⟨hrp, hrmag, _⟩ := absY x.sem y hs hy hyc
  obtain ⟨hxp, hxmag, _, _⟩ := absX x.sem x rfl hx hxc
  obtain ⟨hst, hlt, j, hj⟩ := remLoop_partial x.sem hF _ hrp fuel x.abs r0 hxp.toSt h0
  rw [hrmag] at hlt hj
  rw [hxp.val_eq, hxmag] at hj
  have h0' := hst.val_nonneg
  have hxm : 0 < x.mag := Flt.mag_pos x hxc hx
  have hym : 0 < y.mag := Flt.mag_pos y hyc hy
  have hrv : Spec.remVal x y = (if x.sign then -1 else 1) * r0.val := by
    rw [remVal_normal x y hxc hyc j hxm hym (by rw [← hj]; exact h0') (by rw [← hj]; exact hlt), hj]
  have hval : (r0.setSign x.sign).val = Spec.remVal x y := by
    rw [setSign_val hst, hrv]
  have hyabs : |y.val| = y.mag := by
    rw [Flt.val_normal hyc]
    cases y.sign <;> simp [abs_of_pos hym]
  have habs : |(r0.setSign x.sign).val| = r0.val := by
    rw [setSign_val hst]
    cases x.sign <;> simp [abs_of_nonneg h0']
  refine ⟨?_, hval, by rw [habs, hyabs]; exact hlt, rfl⟩
  rw [spec_rem_normal x y hxc hyc, ← hval]
  rcases hst.cat with hz | ⟨hn, _⟩
  · have hz' : (r0.setSign x.sign).cat = .zero := hz
    rw [Flt.val_zero hz']
    unfold Spec.roundQ Flt.toRes
    rw [hz', if_pos rfl]
    rfl
  · have hn' : (r0.setSign x.sign).cat = .normal := hn
    have hsem : (r0.setSign x.sign).sem = x.sem := hst.sem
    have hc' : (r0.setSign x.sign).Canonical := hst.can
    have := C01.roundQ_normal (r0.setSign x.sign) .zero x.sign (by rw [hsem]; exact hF) hn' hc'
    rw [hsem] at this
    rw [this]
    simp [Flt.toRes, hn']

/-- **C11.** Whenever the loop returns, the result is the specified one for every category of
    operands; for finite `x` and finite non-zero `y` it is the EXACT remainder `x − trunc(x/y)·y`
    (no rounding error in any rounding mode), below `|y|` in magnitude, with the sign of `x`. -/
theorem rem_spec (x y : Flt) (fuel : Nat) (hF : x.sem.WF) (hs : y.sem = x.sem)
    (hx : x.Canonical) (hy : y.Canonical) (r : Flt) (h : x.remFuel fuel y = some r) :
    r.toRes = Spec.rem x y ∧
      (Spec.isFin x → Spec.isFin y → ¬ Spec.isZero y →
        r.val = Spec.remVal x y ∧ |r.val| < |y.val| ∧ r.sign = x.sign) := by
  by_cases hnan : x.cat = .nan ∨ y.cat = .nan ∨ x.cat = .inf ∨ y.cat = .zero
  · obtain ⟨h1, h2⟩ := (rem_special x y fuel).1 hnan
    rw [h1] at h; cases h
    refine ⟨by rw [h2]; rfl, ?_⟩
    intro hfx hfy hzy
    exfalso
    revert hfx hfy hzy
    unfold Spec.isFin Spec.isZero
    rcases hnan with h | h | h | h <;> simp [h]
  · by_cases hself : x.cat = .zero ∨ y.cat = .inf
    · obtain ⟨h1, h2⟩ := (rem_special x y fuel).2 hnan hself
      rw [h1] at h; cases h
      refine ⟨h2.symm, ?_⟩
      intro hfx hfy hzy
      -- `y` finite: then `x` is a zero and `y` is normal
      have hyn : y.cat = .normal := by
        revert hfy hzy; unfold Spec.isFin Spec.isZero
        cases y.cat <;> simp
      have hxz : x.cat = .zero := by
        rcases hself with h | h
        · exact h
        · rw [hyn] at h; cases h
      have hyv : y.val ≠ 0 := Flt.val_ne_zero y hyn hy
      refine ⟨?_, by rw [Flt.val_zero hxz]; simpa using hyv, rfl⟩
      unfold Spec.remVal
      rw [Flt.val_zero hxz]
      simp [show (0 : ℚ).floor = 0 from rfl]
    · -- both normal
      have hxc : x.cat = .normal := by
        revert hnan hself; cases x.cat <;> simp
      have hyc : y.cat = .normal := by
        revert hnan hself; cases y.cat <;> simp
      obtain ⟨h1, h2⟩ := rem_spec_normal x y fuel hF hs hx hy hxc hyc r h
      exact ⟨h1, fun _ _ _ => h2⟩

/-! ### 3. Termination: the C19 bound for `rem` -/

/-- Fuel that always suffices: the gap of the exponent fields, plus the precision, plus one. -/
def fuelBound (x y : Flt) : Nat := (x.exp - y.exp).toNat + x.sem.p + 1

/-- any fuel from `fuelBound x y` on makes `rem` return -/
theorem rem_fuel_ge (x y : Flt) (hF : x.sem.WF) (hs : y.sem = x.sem) (hx : x.Canonical)
    (hy : y.Canonical) (fuel : Nat) (hf : fuelBound x y ≤ fuel) :
    ∃ r, x.remFuel fuel y = some r := by
  by_cases hnan : x.cat = .nan ∨ y.cat = .nan ∨ x.cat = .inf ∨ y.cat = .zero
  · exact ⟨_, ((rem_special x y fuel).1 hnan).1⟩
  by_cases hself : x.cat = .zero ∨ y.cat = .inf
  · exact ⟨_, ((rem_special x y fuel).2 hnan hself).1⟩
  have hxc : x.cat = .normal := by
    revert hnan hself; cases x.cat <;> simp
  have hyc : y.cat = .normal := by
    revert hnan hself; cases y.cat <;> simp
  obtain ⟨hrp, _, hrexp⟩ := absY x.sem y hs hy hyc
  obtain ⟨hxp, _, hxexp, _⟩ := absX x.sem x rfl hx hxc
  have h1 := hxp.remTop_le
  have h2 := hrp.lt_remTop
  unfold fuelBound at hf
  obtain ⟨r0, hr0⟩ := remLoop_terminates x.sem hF _ hrp fuel x.abs hxp.toSt (by omega)
    (fun _ _ => by omega)
  exact ⟨r0.setSign x.sign, by rw [remFuel_normal x y fuel hxc hyc, hr0]; rfl⟩

/-- **C19 for `rem`.** The loop needs at most `fuelBound x y` iterations. -/
theorem rem_fuel (x y : Flt) (hF : x.sem.WF) (hs : y.sem = x.sem) (hx : x.Canonical)
    (hy : y.Canonical) : ∃ r, x.remFuel (fuelBound x y) y = some r :=
  rem_fuel_ge x y hF hs hx hy _ (le_refl _)

/-- the looser bound quoted in the work order -/
theorem rem_fuel_loose (x y : Flt) (hF : x.sem.WF) (hs : y.sem = x.sem) (hx : x.Canonical)
    (hy : y.Canonical) :
    ∃ r, x.remFuel ((|x.exp - y.exp|).toNat + 2 * x.sem.p + 4) y = some r := by
  apply rem_fuel_ge x y hF hs hx hy
  unfold fuelBound
  have := le_abs_self (x.exp - y.exp)
  omega

/-! ### 4. Total correctness -/

/-- **C11 + C19.** For canonical finite operands of a well-formed format with `y ≠ 0`, `rem`
    returns within `fuelBound x y` iterations, and the value returned is the exact remainder. -/
theorem rem_total (x y : Flt) (hF : x.sem.WF) (hs : y.sem = x.sem) (hx : x.Canonical)
    (hy : y.Canonical) (hfx : Spec.isFin x) (hfy : Spec.isFin y) (hzy : ¬ Spec.isZero y) :
    ∃ r, x.remFuel (fuelBound x y) y = some r ∧ r.toRes = Spec.rem x y ∧
      r.val = Spec.remVal x y ∧ |r.val| < |y.val| ∧ r.sign = x.sign := by
  obtain ⟨r, hr⟩ := rem_fuel x y hF hs hx hy
  obtain ⟨h1, h2⟩ := rem_spec x y _ hF hs hx hy r hr
  exact ⟨r, hr, h1, h2 hfx hfy hzy⟩

/-! ### Concrete FP16 data -/

/-- `7.5 rem 2 = 1.5` -/
example : (⟨FP16, false, 2, 1920, .normal⟩ : Flt).remFuel 12 ⟨FP16, false, 1, 1024, .normal⟩
    = some ⟨FP16, false, 0, 1536, .normal⟩ := by decide

/-- `-7.5 rem 2 = -1.5` (sign of `x`), `7.5 rem -2 = 1.5` -/
example : (⟨FP16, true, 2, 1920, .normal⟩ : Flt).remFuel 12 ⟨FP16, false, 1, 1024, .normal⟩
    = some ⟨FP16, true, 0, 1536, .normal⟩ := by decide
example : (⟨FP16, false, 2, 1920, .normal⟩ : Flt).remFuel 12 ⟨FP16, true, 1, 1024, .normal⟩
    = some ⟨FP16, false, 0, 1536, .normal⟩ := by decide

/-- `-6 rem 2 = -0`: a zero result keeps the sign of `x` -/
example : (⟨FP16, true, 2, 1536, .normal⟩ : Flt).remFuel 12 ⟨FP16, false, 1, 1024, .normal⟩
    = some ⟨FP16, true, 0, 0, .zero⟩ := by decide

/-- a subnormal divisor: `1.0 rem (3·2^-24) = 2^-24`  (`2^24 = 3·5592405 + 1`) -/
example : (⟨FP16, false, 0, 1024, .normal⟩ : Flt).remFuel 26 ⟨FP16, false, -14, 3, .normal⟩
    = some ⟨FP16, false, -14, 1, .normal⟩ := by decide

/-- the fuel bound of that example -/
example : fuelBound ⟨FP16, false, 0, 1024, .normal⟩ ⟨FP16, false, -14, 3, .normal⟩ = 26 := by
  decide

/-- `rem_total` instantiated on the subnormal divisor -/
example : ∃ r, (⟨FP16, false, 0, 1024, .normal⟩ : Flt).remFuel 26 ⟨FP16, false, -14, 3, .normal⟩
      = some r ∧ r.val = Spec.remVal ⟨FP16, false, 0, 1024, .normal⟩ ⟨FP16, false, -14, 3, .normal⟩ := by
  obtain ⟨r, h1, _, h2, _⟩ := rem_total ⟨FP16, false, 0, 1024, .normal⟩ ⟨FP16, false, -14, 3, .normal⟩
    (by decide) rfl (by decide) (by decide) (by decide) (by decide) (by decide)
  exact ⟨r, h1, h2⟩

/-- special operands -/
example : (Flt.inf FP16 true).remFuel 0 ⟨FP16, false, 1, 1024, .normal⟩ = some (Flt.nan FP16 true) :=
  by decide
example : (⟨FP16, false, 1, 1024, .normal⟩ : Flt).remFuel 0 (Flt.inf FP16 true)
    = some ⟨FP16, false, 1, 1024, .normal⟩ := by decide

end Arp.C11
