import Arp.Lemmas.LogFinal
import Arp.Props.C16
/-!
# C16 — accuracy of `Float::log`

`Flt.logFuel fuel x` models `Float::log` (operations/exp.rs).  For every format whose precision
does not exceed its exponent range (`8 ≤ p ≤ 2^(e-1) − 2`), every rounding mode, every finite
`x > 0` (subnormals included), `x ≠ 1`:

* `log_accuracy`: with `fuel ≥ e + 13` the model returns a finite non-zero canonical value `r` with
  the sign of `log x`, and `|r − log x| ≤ 2·ulp`, where `ulp` is the unit in the last place of any
  binade `[2^k, 2^(k+1))` that contains (or lies above) the TRUE value `|log x|` (`ulpAt`: the
  subnormal spacing below `2^emin`).
* `log_accuracy_binade`: the same with the binade `2^k ≤ |log x| < 2^(k+1)` named explicitly;
  `log_accuracy_max`: the weaker reading "ulp of the true value's binade or of the result's,
  whichever is larger".

`log(1) = +0` is `Arp.C16.log_one` (Arp/Props/C16.lean).

The hypothesis `hinner` says that the model's fixed budget `innerFuel` for the Newton iteration
of the inner `sqrt` suffices (the Rust loop is not bounded); it holds for `e ≤ 22`.

The proof is in `Arp/Lemmas/Log*.lean`: `logTaylor_accuracy` (stage 1: the series, relative error
`tau = 1.01·(max(50,p_W)+7)·2^(1-p_W)` in the working format `W`), `reduce_ge_one` (stage 2: the
chain of square roots, invariant `|R − log Y| ≤ tauP·log Y − cc·dd`), `reduce_spec` (stage 3: the
reciprocal, and the assembly of `log_range_reduce`), `tauP_le` (the budget: `tauP(W) ≤ u_F/2`),
`final_ulp` (stage 4: the truncating cast), and the fuel bound `e + 13` (stage 5).
-/
namespace Arp.C16
open Arp Arp.SpecRound Arp.Ln2 Arp.LogErr

/-- **Accuracy of `log`, on magnitudes.** -/
theorem log_accuracy_mag (x : Flt) (hF : x.sem.WF) (hp : 8 ≤ x.sem.p)
    (hdom : x.sem.p ≤ 2 ^ (x.sem.e - 1) - 2) (hp64 : x.sem.p < 2 ^ 32)
    (hinner : 2 ^ (x.sem.e - 1) + 3 * x.sem.p + 32 ≤ innerFuel)
    (hc : x.Canonical) (hn : x.cat = .normal) (hs : x.sign = false) (hne : x.mag ≠ 1)
    (fuel : Nat) (hfuel : x.sem.e + 13 ≤ fuel) :
    ∃ (r : Flt) (v : ℚ), x.logFuel fuel = some r ∧ SV x.sem (decide (x.mag < 1)) r v ∧ 0 < v ∧
      ∀ k : ℤ, |Real.log (x.mag : ℝ)| < (2:ℝ) ^ (k + 1) →
        |(v:ℝ) - abs (Real.log (x.mag : ℝ))| ≤ 2 * ((ulpAt x.sem k : ℚ) : ℝ) := by
  have hX : SV x.sem false x x.mag := SV.of_canonical rfl hn hc hs rfl
  have hX0 : 0 < x.mag := Flt.mag_pos x hn hc
  have hW := logW_WF hF
  have C := logW_ctx hF hp hdom hp64
  obtain ⟨l1, l2, l3, l4⟩ := logPrecision_facts hp
  -- the exponent width
  have hpow10 : 10 ≤ 2 ^ (x.sem.e - 1) := by omega
  have he5 : 5 ≤ x.sem.e := by
    by_contra hcon
    have : 2 ^ (x.sem.e - 1) ≤ 2 ^ 3 := Nat.pow_le_pow_right (by norm_num) (by omega)
    omega
  have hemax : x.sem.emax = ((2 ^ (x.sem.e - 1) : ℕ) : ℤ) - 1 := Sem.emax_eq (by omega)
  have hemin : x.sem.emin = 2 - ((2 ^ (x.sem.e - 1) : ℕ) : ℤ) := Sem.emin_eq _
  have hWemax : (logW x.sem).emax = ((2 ^ (x.sem.e + 9) : ℕ) : ℤ) - 1 := by
    rw [Sem.emax_eq (by rw [logW_e]; omega), logW_e]; rfl
  have hpowW : 2 ^ (x.sem.e + 9) = 1024 * 2 ^ (x.sem.e - 1) := by
    rw [show x.sem.e + 9 = (x.sem.e - 1) + 10 by omega, Nat.pow_add]; norm_num; ring
  have hpowE : 2 ^ x.sem.e = 2 * 2 ^ (x.sem.e - 1) := by
    rw [show x.sem.e = (x.sem.e - 1) + 1 by omega, Nat.pow_succ]; simp; ring
  -- unfolding of `log`
  have e0 : x.logFuel fuel = (logRangeReduce fuel (x.castWithRm (logW x.sem) .none)).map
      (·.castWithRm x.sem .none) := by
    simp [Flt.logFuel, Flt.isZero, Flt.isInf, Flt.isNormal, hn, hs, logW]
  obtain ⟨a1, a2, a3, a4, a5⟩ := C06.widen_lossless_normal x (logW x.sem) .none
    (by rw [logW_e]; omega) (by rw [logW_p]; omega) hF hW hn hc
  have hy : SV (logW x.sem) false (x.castWithRm (logW x.sem) .none) x.mag :=
    SV.of_canonical a1 a2 a3 (a4.trans hs) a5
  -- the range of the argument
  obtain ⟨M, hMdef⟩ : ∃ M : ℕ, M = 2 ^ (x.sem.e - 1) + x.sem.p := ⟨_, rfl⟩
  obtain ⟨b1, b2⟩ := C10.mag_bounds x hn hc
  have hXhi : x.mag < (2:ℚ) ^ M := by
    have : (2:ℚ) ^ (x.sem.emax + 1) ≤ (2:ℚ) ^ (M:ℤ) :=
      zpow_le_zpow_right₀ (by norm_num) (by rw [hemax, hMdef]; omega)
    rw [zpow_natCast] at this; linarith
  have hXlo : (2:ℚ) ^ (-(M:ℤ)) < x.mag := by
    have : (2:ℚ) ^ (-(M:ℤ)) < (2:ℚ) ^ (x.sem.emin - ((x.sem.p:ℤ) - 1)) :=
      zpow_lt_zpow_right₀ (by norm_num) (by rw [hemin, hMdef]; omega)
    linarith
  have hM : M + (logW x.sem).p + 22 ≤ innerFuel := by rw [logW_p, hMdef]; omega
  have hMltE : M < 2 ^ x.sem.e := by rw [hMdef, hpowE]; omega
  have hEW : x.sem.e + 9 < 2 ^ (x.sem.e + 9) := Nat.lt_two_pow_self
  have hMe : 2 * (M:ℚ) ≤ (2:ℚ) ^ (logW x.sem).emax := by
    have h1 : ((2 * M : ℕ) : ℚ) ≤ ((2 ^ (x.sem.e + 1) : ℕ) : ℚ) :=
      Nat.cast_le.mpr (by rw [Nat.pow_succ]; omega)
    push_cast at h1
    have h2 : (2:ℚ) ^ ((x.sem.e + 1 : ℕ) : ℤ) ≤ (2:ℚ) ^ (logW x.sem).emax :=
      zpow_le_zpow_right₀ (by norm_num) (by rw [hWemax]; omega)
    rw [zpow_natCast] at h2
    linarith
  have hMx : (M:ℤ) ≤ (logW x.sem).emax := by rw [hWemax, hpowW]; omega
  -- depth of the recursion
  obtain ⟨hd0, hd1, htP, _, hmu⟩ := C.consts
  have hlogM := log_abs_le hXlo hXhi
  have hdep : |Real.log (x.mag : ℝ)| ≤ 2 ^ (x.sem.e + 11) * mu (logW x.sem) + 2 * dd (logW x.sem) := by
    have h1 : (M:ℝ) ≤ (2:ℝ) ^ x.sem.e := by
      have : ((M:ℕ):ℝ) ≤ ((2 ^ x.sem.e : ℕ) : ℝ) := Nat.cast_le.mpr (le_of_lt hMltE)
      push_cast at this; exact this
    have h2 : (2:ℝ) ^ (x.sem.e + 11) = 2048 * (2:ℝ) ^ x.sem.e := by rw [pow_add]; norm_num; ring
    have h3 : (0:ℝ) < (2:ℝ) ^ x.sem.e := by positivity
    rw [h2]
    have h4 : 2048 * (2:ℝ) ^ x.sem.e * (1 / 1100) ≤ 2048 * (2:ℝ) ^ x.sem.e * mu (logW x.sem) :=
      mul_le_mul_of_nonneg_left hmu (by positivity)
    linarith
  obtain ⟨rW, R, e1, e2, e3, e4⟩ := reduce_spec C hM hMe hMx hy hne hXlo hXhi hdep
    (show x.sem.e + 11 + 2 ≤ fuel by omega)
  rw [e0, e1]
  simp only [Option.map_some]
  -- size of the intermediate result
  set t := |Real.log (x.mag : ℝ)| with ht
  have hFemin : x.sem.emin ≤ -1 := by rw [hemin]; omega
  have htlo := log_lower hF hFemin hX hX0 hne
  rw [← ht] at htlo
  have ht0 : 0 < t := lt_of_lt_of_le (by positivity) htlo
  obtain ⟨c1, c2⟩ := abs_le.mp e4
  have htPt : tauP (logW x.sem) * t ≤ 1 / 100 * t := mul_le_mul_of_nonneg_right htP (le_of_lt ht0)
  have hRge : (99 / 100 : ℝ) * t ≤ (R:ℝ) := by linarith
  have hRle : (R:ℝ) ≤ 101 / 100 * t := by linarith
  have hR0 : 0 < R := by
    have : (0:ℝ) < (R:ℝ) := by linarith
    exact_mod_cast this
  have hRlt : R < (2:ℚ) ^ (x.sem.emax + 1) := by
    have h1 : (R:ℝ) < ((2 * (M:ℚ) : ℚ) : ℝ) := by
      push_cast
      have : (0:ℝ) ≤ (M:ℝ) := Nat.cast_nonneg M
      linarith
    have h2 : R < 2 * (M:ℚ) := (Rat.cast_lt (K := ℝ)).mp h1
    have h3 : ((2 * M : ℕ) : ℚ) ≤ ((2 ^ (x.sem.e + 1) : ℕ) : ℚ) :=
      Nat.cast_le.mpr (by rw [Nat.pow_succ]; omega)
    push_cast at h3
    have h5 := two_mul_lt_two_pow (x.sem.e - 1) (by omega)
    have h4 : (2:ℚ) ^ ((x.sem.e + 1 : ℕ) : ℤ) ≤ (2:ℚ) ^ (x.sem.emax + 1) :=
      zpow_le_zpow_right₀ (by norm_num) (by rw [hemax]; omega)
    rw [zpow_natCast] at h4
    linarith
  have hres := SV.cast_trunc hW hF e2 hR0 hRlt
  -- the result is not zero
  have hδrep : IsRep x.sem ((2:ℚ) ^ (x.sem.emin - ((x.sem.p:ℤ) - 1))) :=
    isRep_pow2 hF _ (le_refl _) (by have := Sem.emin_le_emax hF; have := hF.2; omega)
  have hδle : (2:ℚ) ^ (x.sem.emin - ((x.sem.p:ℤ) - 1)) ≤ R := by
    have h1 : (2:ℚ) ^ (x.sem.emin - ((x.sem.p:ℤ) - 1)) ≤ (2:ℚ) ^ (-(x.sem.p:ℤ) - 2) :=
      zpow_le_zpow_right₀ (by norm_num) (by rw [hemin]; omega)
    have h2 : (((2:ℚ) ^ (-(x.sem.p:ℤ) - 2) : ℚ) : ℝ) ≤ (R:ℝ) := by
      have e : (2:ℚ) ^ (-(x.sem.p:ℤ) - 1) = 2 * (2:ℚ) ^ (-(x.sem.p:ℤ) - 2) := by
        rw [show -(x.sem.p:ℤ) - 1 = (-(x.sem.p:ℤ) - 2) + 1 by ring,
          zpow_add₀ (by norm_num : (2:ℚ) ≠ 0)]
        norm_num; ring
      rw [e] at htlo
      push_cast at htlo ⊢
      have : (0:ℝ) < (2:ℝ) ^ (-(x.sem.p:ℤ) - 2) := by positivity
      linarith
    have h3 := (Rat.cast_le (K := ℝ)).mp h2
    linarith
  have hvpos : 0 < trq x.sem R :=
    lt_of_lt_of_le (by positivity) (trq_mono_rep hF hδrep hδle hRlt)
  refine ⟨_, trq x.sem R, rfl, hres, hvpos, ?_⟩
  intro k hk
  exact final_ulp hF hR0 hRlt ht0 (tauP_le hF hp hdom hp64) e4 k hk

end Arp.C16

namespace Arp.C16
open Arp Arp.SpecRound Arp.Ln2 Arp.LogErr

/-- **C16 — accuracy of `log`.**  For every well-formed format with `8 ≤ p ≤ 2^(e-1) − 2`
    (`p < 2^32`), every rounding mode, every canonical finite `x > 0` (normal or subnormal),
    `x ≠ 1`, and every `fuel ≥ e + 13` (recursion depth of `log_range_reduce`):
    `log x` is a finite, non-zero, canonical value `r` of the same format, with the sign of the
    logarithm, and `|r − ln x| ≤ 2·ulp`, `ulp = ulpAt F k` for every binade `k` with
    `|ln x| < 2^(k+1)` — in particular the binade of the TRUE value `ln x` itself.
    (`hinner`: the inner `sqrt` of the model has enough fuel; true for `e ≤ 22`.) -/
theorem log_accuracy (x : Flt) (hF : x.sem.WF) (hp : 8 ≤ x.sem.p)
    (hdom : x.sem.p ≤ 2 ^ (x.sem.e - 1) - 2) (hp64 : x.sem.p < 2 ^ 32)
    (hinner : 2 ^ (x.sem.e - 1) + 3 * x.sem.p + 32 ≤ innerFuel)
    (hc : x.Canonical) (hn : x.cat = .normal) (hs : x.sign = false) (hne : x.val ≠ 1)
    (fuel : Nat) (hfuel : x.sem.e + 13 ≤ fuel) :
    ∃ r, x.logFuel fuel = some r ∧ r.cat = .normal ∧ r.Canonical ∧ r.sem = x.sem ∧
      r.sign = decide (x.val < 1) ∧
      ∀ k : ℤ, |Real.log ((x.val : ℚ) : ℝ)| < (2:ℝ) ^ (k + 1) →
        |((r.val : ℚ) : ℝ) - Real.log ((x.val : ℚ) : ℝ)| ≤ 2 * ((ulpAt x.sem k : ℚ) : ℝ) := by
  have hxv : x.val = x.mag := by rw [Flt.val_normal hn, hs]; simp
  rw [hxv] at hne ⊢
  obtain ⟨r, v, h1, h2, h3, h4⟩ := log_accuracy_mag x hF hp hdom hp64 hinner hc hn hs hne fuel hfuel
  have hrn := h2.normal_of_pos h3
  have hX0 : 0 < x.mag := Flt.mag_pos x hn hc
  have hXr : (0:ℝ) < (x.mag : ℝ) := by exact_mod_cast hX0
  refine ⟨r, h1, hrn, h2.can, h2.sem, h2.sign hrn, ?_⟩
  intro k hk
  have := h4 k hk
  by_cases hlt : x.mag < 1
  · have hrv : r.val = -v := by rw [h2.val, decide_eq_true hlt]; simp
    have hlog : Real.log (x.mag : ℝ) < 0 := Real.log_neg hXr (by exact_mod_cast hlt)
    rw [hrv]
    rw [abs_of_neg hlog] at this
    have e2 : (((-v : ℚ)) : ℝ) - Real.log (x.mag : ℝ) = -((v:ℝ) - -Real.log (x.mag : ℝ)) := by
      push_cast; ring
    rw [e2, abs_neg]; exact this
  · have hrv : r.val = v := by rw [h2.val, decide_eq_false hlt]; simp
    have hgt : 1 < x.mag := lt_of_le_of_ne (not_lt.mp hlt) (Ne.symm hne)
    have hlog : 0 < Real.log (x.mag : ℝ) := Real.log_pos (by exact_mod_cast hgt)
    rw [hrv]
    rw [abs_of_pos hlog] at this
    exact this

/-- the binade of the true value named: if `2^k ≤ |ln x| < 2^(k+1)` with `k ≥ emin` (the normal
    range) then `|r − ln x| ≤ 2·2^(k-(p-1))`: **within two ulps of `ln x`** -/
theorem log_accuracy_binade (x : Flt) (hF : x.sem.WF) (hp : 8 ≤ x.sem.p)
    (hdom : x.sem.p ≤ 2 ^ (x.sem.e - 1) - 2) (hp64 : x.sem.p < 2 ^ 32)
    (hinner : 2 ^ (x.sem.e - 1) + 3 * x.sem.p + 32 ≤ innerFuel)
    (hc : x.Canonical) (hn : x.cat = .normal) (hs : x.sign = false) (hne : x.val ≠ 1)
    (fuel : Nat) (hfuel : x.sem.e + 13 ≤ fuel) :
    ∃ r, x.logFuel fuel = some r ∧ r.cat = .normal ∧
      ∀ k : ℤ, x.sem.emin ≤ k → (2:ℝ) ^ k ≤ |Real.log ((x.val : ℚ) : ℝ)| →
        |Real.log ((x.val : ℚ) : ℝ)| < (2:ℝ) ^ (k + 1) →
        |((r.val : ℚ) : ℝ) - Real.log ((x.val : ℚ) : ℝ)| ≤ 2 * (2:ℝ) ^ (k - ((x.sem.p:ℤ) - 1)) := by
  obtain ⟨r, h1, h2, _, _, _, h6⟩ := log_accuracy x hF hp hdom hp64 hinner hc hn hs hne fuel hfuel
  refine ⟨r, h1, h2, ?_⟩
  intro k hk _ hlt
  have := h6 k hlt
  rw [ulpAt_normal _ hk] at this
  push_cast at this
  exact this

/-- the weaker reading "ulp of the true value's binade or of the result's, whichever is larger" -/
theorem log_accuracy_max (x : Flt) (hF : x.sem.WF) (hp : 8 ≤ x.sem.p)
    (hdom : x.sem.p ≤ 2 ^ (x.sem.e - 1) - 2) (hp64 : x.sem.p < 2 ^ 32)
    (hinner : 2 ^ (x.sem.e - 1) + 3 * x.sem.p + 32 ≤ innerFuel)
    (hc : x.Canonical) (hn : x.cat = .normal) (hs : x.sign = false) (hne : x.val ≠ 1)
    (fuel : Nat) (hfuel : x.sem.e + 13 ≤ fuel) :
    ∃ r, x.logFuel fuel = some r ∧ r.cat = .normal ∧
      ∀ k : ℤ, max |Real.log ((x.val : ℚ) : ℝ)| |((r.val : ℚ) : ℝ)| < (2:ℝ) ^ (k + 1) →
        |((r.val : ℚ) : ℝ) - Real.log ((x.val : ℚ) : ℝ)| ≤ 2 * ((ulpAt x.sem k : ℚ) : ℝ) := by
  obtain ⟨r, h1, h2, _, _, _, h6⟩ := log_accuracy x hF hp hdom hp64 hinner hc hn hs hne fuel hfuel
  exact ⟨r, h1, h2, fun k hk => h6 k (lt_of_le_of_lt (le_max_left _ _) hk)⟩

/-- **the whole clause**: every finite `x > 0` (the case `x = 1`, where the result is `+0`, included):
    `log x` is returned with fuel `e + 13` and is within two ulps of `ln x` -/
theorem log_accuracy_all (x : Flt) (hF : x.sem.WF) (hp : 8 ≤ x.sem.p)
    (hdom : x.sem.p ≤ 2 ^ (x.sem.e - 1) - 2) (hp64 : x.sem.p < 2 ^ 32)
    (hinner : 2 ^ (x.sem.e - 1) + 3 * x.sem.p + 32 ≤ innerFuel)
    (hc : x.Canonical) (hn : x.cat = .normal) (hs : x.sign = false)
    (fuel : Nat) (hfuel : x.sem.e + 13 ≤ fuel) :
    ∃ r, x.logFuel fuel = some r ∧ r.Canonical ∧ r.sem = x.sem ∧
      (x.val = 1 → r = Flt.zero x.sem false) ∧ (x.val ≠ 1 → r.cat = .normal) ∧
      ∀ k : ℤ, |Real.log ((x.val : ℚ) : ℝ)| < (2:ℝ) ^ (k + 1) →
        |((r.val : ℚ) : ℝ) - Real.log ((x.val : ℚ) : ℝ)| ≤ 2 * ((ulpAt x.sem k : ℚ) : ℝ) := by
  by_cases h1 : x.val = 1
  · -- `x` is `1.0`
    have hone : x = Flt.one x.sem false := by
      have hv : x.val = (Flt.one x.sem false).val := by
        rw [h1, Flt.val_normal rfl]
        simp only [Flt.one, Bool.false_eq_true, if_false]
        have := one_mag x.sem false (by have := hF.2; omega)
        simp only [Flt.one] at this
        rw [this]
      obtain ⟨a, b, c⟩ := val_inj x (Flt.one x.sem false) rfl hc (Flt.one_canonical _ _ hF) hn rfl hv
      obtain ⟨s, sg, ex, m, ct⟩ := x
      simp only [Flt.one] at a b c hn ⊢
      subst a b c hn
      rfl
    refine ⟨Flt.zero x.sem false, ?_, Flt.zero_canonical _ _, rfl, fun _ => rfl,
      fun h => absurd h1 h, ?_⟩
    · rw [hone]; exact log_one x.sem hF fuel (by omega)
    · intro k _
      rw [h1, Flt.val_zero rfl]
      have : (0:ℝ) < ((ulpAt x.sem k : ℚ) : ℝ) := by
        have : (0:ℚ) < ulpAt x.sem k := by unfold ulpAt; exact Sem.ulp_pos _ _
        exact_mod_cast this
      simp only [Rat.cast_one, Real.log_one, Rat.cast_zero, sub_self, abs_zero]
      linarith
  · obtain ⟨r, e1, e2, e3, e4, _, e6⟩ := log_accuracy x hF hp hdom hp64 hinner hc hn hs h1 fuel hfuel
    exact ⟨r, e1, e3, e4, fun h => absurd h h1, fun _ => e2, e6⟩

/-- the side conditions hold for the five preset formats (`FP16` … `FP256`) in every rounding mode -/
theorem log_presets_ok (F : Sem)
    (h : (F.e, F.p) ∈ [(5, 11), (8, 24), (11, 53), (15, 113), (19, 237)]) :
    F.WF ∧ 8 ≤ F.p ∧ F.p ≤ 2 ^ (F.e - 1) - 2 ∧ F.p < 2 ^ 32 ∧
      2 ^ (F.e - 1) + 3 * F.p + 32 ≤ innerFuel := by
  simp only [List.mem_cons, List.mem_nil_iff, or_false, Prod.mk.injEq] at h
  unfold Sem.WF innerFuel
  rcases h with ⟨he, hp⟩ | ⟨he, hp⟩ | ⟨he, hp⟩ | ⟨he, hp⟩ | ⟨he, hp⟩ <;> rw [he, hp] <;> norm_num

/-! ### the hypotheses are satisfiable: concrete instances -/

/-- `log 2` in binary64 (any fuel `≥ 24`): within two ulps of `ln 2`, `ulp = 2^(-1-52)` -/
example : ∃ r, (⟨FP64, false, 1, 2 ^ 52, .normal⟩ : Flt).logFuel 24 = some r ∧ r.cat = .normal ∧
    ∀ k : ℤ, FP64.emin ≤ k → (2:ℝ) ^ k ≤ |Real.log (((⟨FP64, false, 1, 2 ^ 52, .normal⟩ : Flt).val : ℚ) : ℝ)| →
      |Real.log (((⟨FP64, false, 1, 2 ^ 52, .normal⟩ : Flt).val : ℚ) : ℝ)| < (2:ℝ) ^ (k + 1) →
      |((r.val : ℚ) : ℝ) - Real.log (((⟨FP64, false, 1, 2 ^ 52, .normal⟩ : Flt).val : ℚ) : ℝ)| ≤
        2 * (2:ℝ) ^ (k - ((FP64.p : ℤ) - 1)) :=
  log_accuracy_binade ⟨FP64, false, 1, 2 ^ 52, .normal⟩ (by decide) (by decide) (by decide) (by decide)
    (by decide) (by decide) rfl rfl
    (by rw [Flt.val_normal rfl]; norm_num [Flt.mag_eq, FP64]) 24 (by decide)

/-- the smallest binary16 subnormal, rounding toward `+∞` -/
example : ∃ r, (⟨⟨5, 11, .pos⟩, false, -14, 1, .normal⟩ : Flt).logFuel 18 = some r ∧ r.cat = .normal ∧
    r.Canonical ∧ r.sem = ⟨5, 11, .pos⟩ ∧ r.sign = true := by
  obtain ⟨r, h1, h2, h3, h4, h5, _⟩ := log_accuracy ⟨⟨5, 11, .pos⟩, false, -14, 1, .normal⟩
    (by decide) (by decide) (by decide) (by decide) (by decide) (by decide) rfl rfl
    (by rw [Flt.val_normal rfl]; norm_num [Flt.mag_eq]) 18 (by decide)
  refine ⟨r, h1, h2, h3, h4, ?_⟩
  rw [h5, decide_eq_true_iff, Flt.val_normal rfl]
  norm_num [Flt.mag_eq]

end Arp.C16
