import Arp.Lemmas.Trans
/-!
# C17 — `sin`, `cos`, `tan`: special operands and exact symmetry

`RM.Symm rm` is `rm ∈ {NearestTiesToEven, NearestTiesToAway, Zero, None}`: the modes whose
rounding decision does not look at the sign.  `sin` and `tan` are exactly odd in these four
modes; in the two directed modes (`Positive`, `Negative`) they are NOT (counter-examples
below); `cos` is exactly even in every mode.
-/
namespace Arp.C17
open Arp

/-! ### special operands -/

/-- `sin(±0) = ±0` (the operand itself) -/
theorem sin_zero (f : Nat) (x : Flt) (h : x.cat = .zero) : x.sinFuel f = some x := by
  simp [Flt.sinFuel, Flt.isZero, h]

/-- `cos(±0) = 1` -/
theorem cos_zero (f : Nat) (x : Flt) (h : x.cat = .zero) :
    x.cosFuel f = some (Flt.one x.sem false) := by
  simp [Flt.cosFuel, Flt.isZero, Flt.isNan, h]

/-- `tan(±0) = ±0` -/
theorem tan_zero (f : Nat) (x : Flt) (h : x.cat = .zero) : x.tanFuel f = some x := by
  simp [Flt.tanFuel, Flt.isZero, h]

theorem sin_inf (f : Nat) (x : Flt) (h : x.cat = .inf) :
    x.sinFuel f = some (Flt.nan x.sem x.sign) := by
  simp [Flt.sinFuel, Flt.isZero, Flt.isNan, Flt.isInf, h]

theorem cos_inf (f : Nat) (x : Flt) (h : x.cat = .inf) :
    x.cosFuel f = some (Flt.nan x.sem x.sign) := by
  simp [Flt.cosFuel, Flt.isZero, Flt.isNan, Flt.isInf, h]

theorem tan_inf (f : Nat) (x : Flt) (h : x.cat = .inf) :
    x.tanFuel f = some (Flt.nan x.sem x.sign) := by
  simp [Flt.tanFuel, Flt.isZero, Flt.isNan, Flt.isInf, h]

/-- a NaN operand is returned unchanged -/
theorem sin_nan (f : Nat) (x : Flt) (h : x.cat = .nan) : x.sinFuel f = some x := by
  simp [Flt.sinFuel, Flt.isNan, h]

theorem cos_nan (f : Nat) (x : Flt) (h : x.cat = .nan) : x.cosFuel f = some x := by
  simp [Flt.cosFuel, Flt.isNan, h]

theorem tan_nan (f : Nat) (x : Flt) (h : x.cat = .nan) : x.tanFuel f = some x := by
  simp [Flt.tanFuel, Flt.isNan, h]

/-! ### the key lemmas (re-exported from `Arp.Lemmas.Trans`) -/

/-- `normalize` commutes with negation in the sign-symmetric modes -/
theorem normalize_neg {rm : RM} (h : rm.Symm) (x : Flt) (l : Loss) :
    (x.neg).normalize rm l = (x.normalize rm l).neg := Arp.normalize_neg h x l

/-- `cast_with_rm` commutes with negation in the sign-symmetric modes -/
theorem cast_neg {rm : RM} (h : rm.Symm) (x : Flt) (G : Sem) :
    (x.neg).castWithRm G rm = (x.castWithRm G rm).neg := Arp.cast_neg h x G

/-- the final `cast` (mode of the operand's format) commutes with negation -/
theorem cast_neg_default (r : Flt) (G : Sem) (h : r.sem.rm.Symm) : (r.neg).cast G = (r.cast G).neg :=
  Arp.cast_neg' r G h

/-! ### exact symmetry -/

/-- **`sin` is exactly odd** — `sin(−x) = −sin(x)` as an equality of structures, for every operand
    (special ones included), every fuel, in the four sign-symmetric modes. -/
theorem sin_odd (f : Nat) (x : Flt) (hrm : x.sem.rm.Symm) :
    (x.neg).sinFuel f = (x.sinFuel f).map Flt.neg := by
  cases hx : x.cat
  · rw [sin_inf f x hx, sin_inf f x.neg hx]; rfl
  · rw [sin_nan f x hx, sin_nan f x.neg hx]; rfl
  · rw [sinFuel_normal f x.neg hx, sinFuel_normal f x hx]
    show sinTail f x.sem (decide (x.exp < 0)) ((x.neg).castWithRm _ .none) = _
    rw [Arp.cast_neg (Or.inr (Or.inr (Or.inr rfl)))]
    exact sinTail_neg f x.sem _ _ hrm (castWithRm_sem _ _ _)
  · rw [sin_zero f x hx, sin_zero f x.neg hx]; rfl

/-- **`tan` is exactly odd** in the four sign-symmetric modes. -/
theorem tan_odd (f : Nat) (x : Flt) (hrm : x.sem.rm.Symm) :
    (x.neg).tanFuel f = (x.tanFuel f).map Flt.neg := by
  cases hx : x.cat
  · rw [tan_inf f x hx, tan_inf f x.neg hx]; rfl
  · rw [tan_nan f x hx, tan_nan f x.neg hx]; rfl
  · rw [tanFuel_normal f x.neg hx, tanFuel_normal f x hx]
    show tanTail f x.sem (decide (x.exp < 0)) ((x.neg).castWithRm _ .none) = _
    rw [Arp.cast_neg (Or.inr (Or.inr (Or.inr rfl)))]
    exact tanTail_neg f x.sem _ _ hrm (castWithRm_sem _ _ _)
  · rw [tan_zero f x hx, tan_zero f x.neg hx]; rfl

/-- **`cos` is exactly even on numbers** — `cos(−x) = cos(x)` for every zero and every normal
    operand, every fuel, in EVERY rounding mode (the sign is discarded before anything else). -/
theorem cos_even (f : Nat) (x : Flt) (hx : x.cat = .normal ∨ x.cat = .zero) :
    (x.neg).cosFuel f = x.cosFuel f := by
  rcases hx with hx | hx
  · rw [cosFuel_normal f x.neg hx, cosFuel_normal f x hx]
    show cosTail f x.sem (decide (x.exp < 0)) (absOf ((x.neg).castWithRm _ .none)) = _
    rw [Arp.cast_neg (Or.inr (Or.inr (Or.inr rfl))), absOf_neg]
    rfl
  · rw [cos_zero f x hx, cos_zero f x.neg hx]; rfl

/-- for `±∞` and NaN `cos` returns a NaN carrying the operand's sign, so only the sign bit of the
    NaN differs -/
theorem cos_even_special (f : Nat) (x : Flt) (hx : x.cat = .inf ∨ x.cat = .nan) :
    (x.neg).cosFuel f = (x.cosFuel f).map Flt.neg := by
  rcases hx with hx | hx
  · rw [cos_inf f x hx, cos_inf f x.neg hx]; rfl
  · rw [cos_nan f x hx, cos_nan f x.neg hx]; rfl

/-! ### Concrete instances; the directed modes are NOT sign-symmetric -/

def P16 : Sem := ⟨5, 11, .pos⟩
def N16 : Sem := ⟨5, 11, .neg⟩

/-- FP16, nearest-even: `sin(±0.25) = ±2027·2^-13` -/
example : (⟨FP16, false, -2, 1024, .normal⟩ : Flt).sinFuel 0 = some ⟨FP16, false, -3, 2027, .normal⟩ := by
  decide
example : (⟨FP16, true, -2, 1024, .normal⟩ : Flt).sinFuel 0 = some ⟨FP16, true, -3, 2027, .normal⟩ := by
  decide

/-- **counter-example to oddness under `Positive`**: `sin(0.25) = 2027·2^-13` but
    `sin(−0.25) = −2026·2^-13` (both rounded toward `+∞`, as the mode demands). -/
theorem sin_not_odd_pos :
    (⟨P16, false, -2, 1024, .normal⟩ : Flt).sinFuel 0 = some ⟨P16, false, -3, 2027, .normal⟩ ∧
    (⟨P16, true, -2, 1024, .normal⟩ : Flt).sinFuel 0 = some ⟨P16, true, -3, 2026, .normal⟩ := by
  decide

/-- the same under `Negative` -/
theorem sin_not_odd_neg :
    (⟨N16, false, -2, 1024, .normal⟩ : Flt).sinFuel 0 = some ⟨N16, false, -3, 2026, .normal⟩ ∧
    (⟨N16, true, -2, 1024, .normal⟩ : Flt).sinFuel 0 = some ⟨N16, true, -3, 2027, .normal⟩ := by
  decide

set_option maxRecDepth 100000 in
/-- **counter-example to oddness of `tan` under `Positive`**: `tan(0.25) = 1046·2^-12`,
    `tan(−0.25) = −1045·2^-12` -/
theorem tan_not_odd_pos :
    (⟨P16, false, -2, 1024, .normal⟩ : Flt).tanFuel 0 = some ⟨P16, false, -2, 1046, .normal⟩ ∧
    (⟨P16, true, -2, 1024, .normal⟩ : Flt).tanFuel 0 = some ⟨P16, true, -2, 1045, .normal⟩ := by
  decide

-- `cos(±0.25)` under `Positive`: identical results
set_option maxRecDepth 100000 in
example : (⟨P16, true, -2, 1024, .normal⟩ : Flt).cosFuel 0 = (⟨P16, false, -2, 1024, .normal⟩ : Flt).cosFuel 0 := by
  decide

end Arp.C17
