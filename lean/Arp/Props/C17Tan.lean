import Arp.Lemmas.TrigTan
/-!
# C17 — accuracy of `tan` for `|x| < 1`

`tan_small_accuracy`: for a domain format (`8 ≤ p ≤ 2^(e-1) − 2`, `e ≤ 17` because of the fuel
constant `innerFuel` of the nested `sqrt`), a nearest mode and a canonical normal operand with
`|x| < 1` (`x.exp < 0`, the branch without `π`), for every fuel: `tanFuel` returns a finite result
of the sign of `x` within `17/32` ulp of `tan x` (ulp of the binade of the exact value, clamped at
the subnormal spacing).
-/
namespace Arp.C17
open Arp Arp.TrigErr Arp.RelErr Arp.SpecRound

theorem tan_val_eq (x : Flt) (hn : x.cat = .normal) :
    Real.tan ((x.val : ℚ) : ℝ) = (if x.sign then -1 else 1) * Real.tan ((x.mag : ℚ) : ℝ) := by
  rw [Flt.val_normal hn]
  cases x.sign
  · simp
  · simp [Real.tan_neg]

/-- **`tan` for `|x| < 1`** -/
theorem tan_small_accuracy (x : Flt) (hF : x.sem.WF) (hp : 8 ≤ x.sem.p)
    (hdom : x.sem.p ≤ 2 ^ (x.sem.e - 1) - 2) (he17 : x.sem.e ≤ 17)
    (hrm : x.sem.rm = .nte ∨ x.sem.rm = .nta)
    (hc : x.Canonical) (hn : x.cat = .normal) (hsmall : x.exp < 0) (fuel : Nat) :
    ∃ r, x.tanFuel fuel = some r ∧ (r.cat = .normal ∨ r.cat = .zero) ∧ r.sign = x.sign ∧
      r.Canonical ∧ r.sem = x.sem ∧
      |((r.val : ℚ) : ℝ) - Real.tan ((x.val : ℚ) : ℝ)| ≤
        17/32 * ulpR x.sem |Real.tan ((x.val : ℚ) : ℝ)| := by
  have hW : (tanW x.sem).WF := tanW_WF hF
  obtain ⟨hp1, hp2⟩ := tanW_p_bounds hp
  -- the widened operand
  obtain ⟨a1, a2, a3, a4, a5⟩ := C06.widen_lossless_normal x (tanW x.sem) .none
    (by rw [tanW_e]; omega) (by omega) hF hW hn hc
  set v0 := x.castWithRm (tanW x.sem) .none with hv0
  obtain ⟨hPos, hmag⟩ := absOf_posN a1 a2 a3
  rw [a5] at hmag
  have hX0 : 0 < x.mag := Flt.mag_pos x hn hc
  have hX1 : x.mag < 1 := mag_lt_one hn hc hsmall
  have hXlo := (C10.mag_bounds x hn hc).1
  have hemin8 : x.sem.emin ≤ -8 := by
    have := Sem.emin_eq x.sem
    have h2 : 10 ≤ 2 ^ (x.sem.e - 1) := by omega
    have : (10:ℤ) ≤ ((2 ^ (x.sem.e - 1) : ℕ) : ℤ) := by exact_mod_cast h2
    omega
  have hemax : 9 ≤ x.sem.emax := by have := Sqrt.emin_add_emax hF; omega
  obtain ⟨res, hcore, hresP, hres4, hreserr⟩ := tanCore_acc x.sem hF hp hdom hrm he17 hPos
    (by rw [hmag]; exact hX1)
    (by rw [hmag, show x.sem.emin - (x.sem.p:ℤ) + 1 = x.sem.emin - ((x.sem.p:ℤ) - 1) by ring]
        exact hXlo) fuel
  rw [hmag] at hreserr
  -- `tanFuel`
  have hfuelEq : x.tanFuel fuel =
      some ((if v0.sign then res.neg else res).cast x.sem) := by
    rw [tanFuel_normal fuel x hn]
    have hd : decide (x.exp < 0) = true := by simp [hsmall]
    rw [hd]
    unfold tanTail tanRed finishWith
    simp only [Bool.not_true, Bool.false_eq_true, if_false]
    have : tanCore fuel (((x.sem.increasePrecision x.sem.p).growLog 12).increaseExponent 4)
        (absOf (x.castWithRm (((x.sem.increasePrecision x.sem.p).growLog 12).increaseExponent 4)
          .none)) = some res := hcore
    rw [this]
    rfl
  -- the signed working-format result
  set y := (if v0.sign then res.neg else res) with hy
  have hy_sem : y.sem = tanW x.sem := by
    rw [hy]; split
    · exact hresP.sem
    · exact hresP.sem
  have hy_cat : y.cat = .normal := by
    rw [hy]; split
    · exact hresP.cat
    · exact hresP.cat
  have hy_can : y.Canonical := by
    rw [hy]; split
    · exact C01.canonical_neg hresP.can
    · exact hresP.can
  have hy_mag : y.mag = res.mag := by
    rw [hy]; split <;> rfl
  have hy_sign : y.sign = x.sign := by
    rw [hy, a4]
    cases x.sign
    · simp only [Bool.false_eq_true, if_false]; exact hresP.sign
    · simp only [if_true]
      show (!res.sign) = true
      rw [hresP.sign]; rfl
  have hmaxF : (4:ℚ) ≤ maxFinite x.sem := by
    have hpp : 1 ≤ x.sem.p := by omega
    have h1 := pow_emax_le_maxFinite (F := x.sem) hpp
    have h2 : (2:ℚ) ^ (2:ℤ) ≤ (2:ℚ) ^ x.sem.emax :=
      zpow_le_zpow_right₀ (by norm_num) (by omega)
    norm_num at h2; linarith
  obtain ⟨c1, c2, c3, c4, c5⟩ := cast_signed hF hrm (by rw [hy_sem]; exact hW) hy_can hy_cat
    (by rw [hy_mag]; linarith)
  rw [hy_sign, hy_mag] at c5
  rw [hy_sign] at c2
  have hycast : y.cast x.sem = y.castWithRm x.sem x.sem.rm := by
    unfold Flt.cast; rw [hy_sem, tanW_rm]
  rw [← hycast] at c1 c2 c3 c4 c5
  refine ⟨y.cast x.sem, hfuelEq, c1, c2, c3, c4, ?_⟩
  -- the error
  have hXr0 : (0:ℝ) < ((x.mag : ℚ) : ℝ) := by exact_mod_cast hX0
  have hXr1 : ((x.mag : ℚ) : ℝ) ≤ 1 := by exact_mod_cast le_of_lt hX1
  have hS0 : 0 < Real.sin ((x.mag : ℚ) : ℝ) := Real.sin_pos_of_pos_of_le_one hXr0 hXr1
  have hC1 : Real.cos ((x.mag : ℚ) : ℝ) ≤ 1 := Real.cos_le_one _
  have hChalf : 1/2 ≤ Real.cos ((x.mag : ℚ) : ℝ) := by
    have := cos_lower ((x.mag : ℚ) : ℝ)
    have : ((x.mag : ℚ) : ℝ) ^ 2 ≤ 1 := by nlinarith
    linarith
  have hC0 : 0 < Real.cos ((x.mag : ℚ) : ℝ) := by linarith
  set T := Real.tan ((x.mag : ℚ) : ℝ) with hT
  have hTdef : T = Real.sin ((x.mag : ℚ) : ℝ) / Real.cos ((x.mag : ℚ) : ℝ) :=
    Real.tan_eq_sin_div_cos _
  have hTge : Real.sin ((x.mag : ℚ) : ℝ) ≤ T := by
    rw [hTdef, le_div_iff₀ hC0]
    nlinarith
  have hT0 : 0 < T := by linarith
  have hT2 : T < 2 := by
    rw [hTdef, div_lt_iff₀ hC0]
    have := Real.sin_le_one ((x.mag : ℚ) : ℝ)
    have hpyth := Real.sin_sq_add_cos_sq ((x.mag : ℚ) : ℝ)
    nlinarith
  have htv := tan_val_eq x hn
  rw [← hT] at htv
  have habsT : |Real.tan ((x.val : ℚ) : ℝ)| = T := by
    rw [htv]
    cases x.sign
    · simp [abs_of_pos hT0]
    · simp [abs_of_pos hT0]
  have hdiff : |(((y.cast x.sem).val : ℚ) : ℝ) - Real.tan ((x.val : ℚ) : ℝ)| =
      |((rq x.sem x.sem.rm res.mag : ℚ) : ℝ) - T| := by
    rw [htv, c5]
    cases x.sign
    · simp
    · simp only [if_true]
      push_cast
      rw [show (-1 : ℝ) * ((rq x.sem x.sem.rm res.mag : ℚ) : ℝ) - -1 * T
        = -(((rq x.sem x.sem.rm res.mag : ℚ) : ℝ) - T) by ring, abs_neg]
  rw [hdiff, habsT]
  -- the relative error of the working-format value
  have hrel : |((res.mag : ℚ) : ℝ) - T| ≤ (2:ℝ) ^ (-(x.sem.p:ℤ) - 6) * T := by
    refine le_trans hreserr (mul_le_mul_of_nonneg_right ?_ (le_of_lt hT0))
    have hur : ((u (tanW x.sem) : ℚ) : ℝ) = (2:ℝ) ^ (1 - ((tanW x.sem).p:ℤ)) := by
      unfold RelErr.u; push_cast; rfl
    rw [hur]
    have h1 : (2:ℝ) ^ (1 - ((tanW x.sem).p:ℤ)) ≤ (2:ℝ) ^ (-(x.sem.p:ℤ) - 6 - 6) :=
      zpow_le_zpow_right₀ (by norm_num) (by omega)
    have h2 : (2:ℝ) ^ (-(x.sem.p:ℤ) - 6 - 6) = (2:ℝ) ^ (-(x.sem.p:ℤ) - 6) / 64 := by
      rw [show (-(x.sem.p:ℤ) - 6 - 6) = (-(x.sem.p:ℤ) - 6) + (-6) by ring,
        zpow_add₀ (by norm_num : (2:ℝ) ≠ 0)]
      norm_num; ring
    have hpos : (0:ℝ) < (2:ℝ) ^ (-(x.sem.p:ℤ) - 6) := by positivity
    rw [h2] at h1
    linarith
  -- the binade
  have hlog1 : (2:ℝ) ^ (Int.log 2 T) ≤ T := Int.zpow_log_le_self (by norm_num) hT0
  have hlog2 : T < (2:ℝ) ^ (Int.log 2 T + 1) := Int.lt_zpow_succ_log_self (by norm_num) T
  set E := Int.log 2 T with hE
  have hElt : E < 1 := by
    have : (2:ℝ) ^ E < (2:ℝ) ^ (1:ℤ) := by rw [zpow_one]; linarith
    exact (zpow_lt_zpow_iff_right₀ (by norm_num : (1:ℝ) < 2)).mp this
  have hEmin : x.sem.emin - ((x.sem.p:ℤ) - 1) ≤ E + 1 := by
    have h1r : ((((2:ℚ) ^ (x.sem.emin - ((x.sem.p:ℤ) - 1)) : ℚ)) : ℝ) ≤ ((x.mag : ℚ) : ℝ) := by
      exact_mod_cast hXlo
    push_cast at h1r
    have h2 := sin_lower (le_of_lt hXr0) hXr1
    have h3 : (2:ℝ) ^ (x.sem.emin - ((x.sem.p:ℤ) - 1) - 1) < (2:ℝ) ^ (E + 1) := by
      have e : (2:ℝ) ^ (x.sem.emin - ((x.sem.p:ℤ) - 1) - 1) =
          (2:ℝ) ^ (x.sem.emin - ((x.sem.p:ℤ) - 1)) / 2 := by
        rw [zpow_sub_one₀ (by norm_num : (2:ℝ) ≠ 0)]; ring
      rw [e]
      have hpos : (0:ℝ) < (2:ℝ) ^ (x.sem.emin - ((x.sem.p:ℤ) - 1)) := by positivity
      linarith
    have := (zpow_lt_zpow_iff_right₀ (by norm_num : (1:ℝ) < 2)).mp h3
    omega
  have := rel_round hF hrm hresP.mag_pos (by linarith) hT0 hrel E hlog2 hEmin (by omega)
  unfold ulpR
  exact this

end Arp.C17
