import Arp.Props.C10Scale
import Arp.Props.C10TruncRound
/-! # C10 — trunc, round, scale, abs, neg (scale/abs/neg in `C10Scale.lean`, trunc/round in `C10TruncRound.lean`) -/
