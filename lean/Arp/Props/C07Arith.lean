import Arp.Props.C07
import Arp.Props.C01
import Arp.Props.C05
import Arp.Props.C10
import Arp.Props.C11
import Arp.Lemmas.Canonical
/-!
# C07, arithmetic part — FP32/FP64 operations in nearest-even mode give the IEEE-754 results,
# bit for bit

The generic theorems of C01 (add/sub/mul/div), C05 (comparison), C10 (trunc/round) and C11 (rem)
are instantiated at the two native formats and stated on BIT PATTERNS: the operands are
`fromF64 a`, `fromF64 b` (resp. `fromF32`), for arbitrary words `a b` (no size hypothesis is
needed: `from_bits` ignores the bits above the sign bit), and the result is read back with
`asF64` (resp. `asF32`).

`encodeRes F r` is the IEEE 754-2019 §3.4 encoding of a `Res` (written from the standard, not
from the code); `asNativeFloat_eq_encode` says that `as_native_float` of a canonical non-NaN value
is that encoding, `asNativeFloat_nan_encode` that a NaN is stored as the quiet NaN with the sign
bit of the model value.
-/
namespace Arp.C07
open Arp

/-! ## 1. The IEEE-754 encoding of a result -/

/-- IEEE 754-2019 §3.4.  Fields `sign (1) | biased exponent (E) | fraction (P-1)`:
    * zero: exponent 0, fraction 0;
    * infinity: exponent all ones, fraction 0;
    * NaN: the canonical quiet NaN, exponent all ones, fraction `10…0`, sign bit 0;
    * finite `m · 2^(e-(P-1))` with `m < 2^(P-1)` (subnormal, only with `e = emin`): exponent 0,
      fraction `m`;
    * finite with `2^(P-1) ≤ m` (normal): exponent `e + bias`, fraction `m - 2^(P-1)`. -/
def encodeRes (F : Sem) : Res → Nat
  | .zero s => packBits F s 0 0
  | .inf s => packBits F s (2 ^ F.e - 1) 0
  | .nan => packBits F false (2 ^ F.e - 1) (2 ^ (F.p - 2))
  | .fin s e m =>
      if m < 2 ^ (F.p - 1) then packBits F s 0 m
      else packBits F s (e + F.bias).toNat (m - 2 ^ (F.p - 1))

/-- the weight of the sign bit -/
def signBit (F : Sem) : Nat := 2 ^ (F.e + (F.p - 1))

example : encodeRes FP32 (.fin true 0 (2 ^ 23)) = 0xbf800000 := by decide
example : encodeRes FP32 (.fin false (-126) 1) = 1 := by decide
example : encodeRes FP64 .nan = 0x7ff8000000000000 := by decide
example : encodeRes FP64 (.inf true) = 0xfff0000000000000 := by decide
example : signBit FP64 = 2 ^ 63 := by decide
example : signBit FP32 = 2 ^ 31 := by decide

/-- `as_native_float` of a canonical non-NaN value is the IEEE-754 encoding of its `Res`. -/
theorem asNativeFloat_eq_encode (x : Flt) (hc : x.Canonical) (hF : x.sem.WF) (hp : x.sem.p ≤ 64)
    (hnn : x.cat ≠ .nan) : x.asNativeFloat = encodeRes x.sem x.toRes := by
  obtain ⟨F, sg, ex, m, c⟩ := x
  simp only at hF hp hnn ⊢
  have hpos : 0 < 2 ^ (F.p - 1) := Nat.two_pow_pos _
  have hpp := two_pow_p F (by have := hF.2; omega)
  cases c
  · have h := (Flt.canonical_special (x := ⟨F, sg, ex, m, .inf⟩) (by simp)).mp hc
    simp only at h; obtain ⟨rfl, rfl⟩ := h
    change (Flt.inf F sg).asNativeFloat = _
    rw [asNative_inf]; rfl
  · exact absurd rfl hnn
  · obtain ⟨h1, h2, h3, h4, h5⟩ := (Flt.canonical_normal (x := ⟨F, sg, ex, m, .normal⟩) rfl).mp hc
    simp only at h1 h2 h3 h4 h5
    have he1 : 1 ≤ ex + F.bias := by unfold Sem.emin at h1; omega
    have he : (ex + F.bias).toNat < 2 ^ F.e - 1 := by
      unfold Sem.emax at h2
      generalize 2 ^ F.e = t at *
      omega
    rw [asNative_normal ⟨F, sg, ex, m, .normal⟩ rfl hp h4 (by simp only; omega)]
    change _ = (if m < 2 ^ (F.p - 1) then packBits F sg 0 m
      else packBits F sg (ex + F.bias).toNat (m - 2 ^ (F.p - 1)))
    simp only
    by_cases hm : m < 2 ^ (F.p - 1)
    · have hex : ex = F.emin := by
        rcases h5 with h5 | h5
        · omega
        · exact h5
      have e1 : (ex + F.bias).toNat = 1 := by rw [hex]; unfold Sem.emin; omega
      rw [if_pos hm, e1, Nat.div_eq_of_lt hm, Nat.mod_eq_of_lt hm, if_pos ⟨rfl, rfl⟩]
    · have e2 : m / 2 ^ (F.p - 1) = 1 := Nat.div_eq_of_lt_le (by omega) (by omega)
      have e3 : m % 2 ^ (F.p - 1) = m - 2 ^ (F.p - 1) := by
        have := Nat.div_add_mod m (2 ^ (F.p - 1)); rw [e2] at this; omega
      rw [if_neg hm, e2, if_neg (by omega), e3]
  · have h := (Flt.canonical_special (x := ⟨F, sg, ex, m, .zero⟩) (by simp)).mp hc
    simp only at h; obtain ⟨rfl, rfl⟩ := h
    change (Flt.zero F sg).asNativeFloat = _
    rw [asNative_zero]; rfl

/-- A NaN is stored as the quiet NaN; the sign bit of the word is the sign of the model value. -/
theorem asNativeFloat_nan_encode (x : Flt) (hc : x.Canonical) (hF : x.sem.WF)
    (hn : x.cat = .nan) :
    x.asNativeFloat = encodeRes x.sem .nan + (if x.sign then signBit x.sem else 0) := by
  obtain ⟨F, sg, ex, m, c⟩ := x
  simp only at hF hn ⊢
  subst hn
  have h := (Flt.canonical_special (x := ⟨F, sg, ex, m, .nan⟩) (by simp)).mp hc
  simp only at h; obtain ⟨rfl, rfl⟩ := h
  change (Flt.nan F sg).asNativeFloat = _
  rw [asNative_nan F sg hF.2]
  unfold encodeRes packBits signBit
  cases sg
  · simp
  · simp; ring

/-- the same with the `Res` given separately -/
theorem asNativeFloat_of_toRes (x : Flt) (r : Res) (hc : x.Canonical) (hF : x.sem.WF)
    (hp : x.sem.p ≤ 64) (hr : x.toRes = r) (hnn : r ≠ .nan) :
    x.asNativeFloat = encodeRes x.sem r := by
  subst hr
  refine asNativeFloat_eq_encode x hc hF hp ?_
  intro h; apply hnn; unfold Flt.toRes; rw [h]

theorem toRes_eq_nan_iff (x : Flt) : x.toRes = .nan ↔ x.cat = .nan := by
  unfold Flt.toRes; cases x.cat <;> simp

/-- the encoding of a non-NaN result of a well-formed format is a word of `E + P` bits whose
    decoding is that result -/
theorem fromBits_encodeRes (x : Flt) (hc : x.Canonical) (hF : x.sem.WF) (hp : x.sem.p ≤ 64)
    (hnn : x.cat ≠ .nan) :
    encodeRes x.sem x.toRes < 2 ^ (x.sem.e + x.sem.p)
      ∧ fromBits x.sem (encodeRes x.sem x.toRes) = x := by
  rw [← asNativeFloat_eq_encode x hc hF hp hnn]
  exact ⟨asNativeFloat_lt x hF hp hc, fromBits_asBits' x hF hp hc⟩

/-! ## 2. `as_f64` / `as_f32` of a value already in the native format -/

theorem asF64_of_res (z : Flt) (r : Res) (hs : z.sem = FP64) (hc : z.Canonical)
    (hr : z.toRes = r) (hnn : r ≠ .nan) : z.asF64 = encodeRes FP64 r := by
  have hcs := cast_same z hc
  rw [hs] at hcs
  unfold Flt.asF64
  rw [hcs]
  have := asNativeFloat_of_toRes z r hc (by rw [hs]; exact FP64_WF) (by rw [hs]; decide) hr hnn
  rwa [hs] at this

theorem asF64_of_nan (z : Flt) (hs : z.sem = FP64) (hc : z.Canonical) (hr : z.toRes = .nan) :
    z.asF64 = encodeRes FP64 .nan + (if z.sign then 2 ^ 63 else 0) := by
  have hcs := cast_same z hc
  rw [hs] at hcs
  unfold Flt.asF64
  rw [hcs]
  have := asNativeFloat_nan_encode z hc (by rw [hs]; exact FP64_WF) ((toRes_eq_nan_iff z).mp hr)
  rw [hs] at this
  exact this

theorem asF32_of_res (z : Flt) (r : Res) (hs : z.sem = FP32) (hc : z.Canonical)
    (hr : z.toRes = r) (hnn : r ≠ .nan) : z.asF32 = encodeRes FP32 r := by
  have hcs := cast_same z hc
  have hlt := asNativeFloat_lt z (by rw [hs]; exact FP32_WF) (by rw [hs]; decide) hc
  rw [hs] at hcs hlt
  have hlt' : z.asNativeFloat < 2 ^ 32 := hlt
  unfold Flt.asF32
  rw [hcs, Nat.mod_eq_of_lt hlt']
  have := asNativeFloat_of_toRes z r hc (by rw [hs]; exact FP32_WF) (by rw [hs]; decide) hr hnn
  rwa [hs] at this

theorem asF32_of_nan (z : Flt) (hs : z.sem = FP32) (hc : z.Canonical) (hr : z.toRes = .nan) :
    z.asF32 = encodeRes FP32 .nan + (if z.sign then 2 ^ 31 else 0) := by
  have hcs := cast_same z hc
  have hlt := asNativeFloat_lt z (by rw [hs]; exact FP32_WF) (by rw [hs]; decide) hc
  rw [hs] at hcs hlt
  have hlt' : z.asNativeFloat < 2 ^ 32 := hlt
  unfold Flt.asF32
  rw [hcs, Nat.mod_eq_of_lt hlt']
  have := asNativeFloat_nan_encode z hc (by rw [hs]; exact FP32_WF) ((toRes_eq_nan_iff z).mp hr)
  rw [hs] at this
  exact this

/-! ## 3. Loaded words -/

theorem fromF64_can (a : Nat) : (fromF64 a).Canonical := (fromBits_canonical FP64 a FP64_WF).1
theorem fromF64_sem (a : Nat) : (fromF64 a).sem = FP64 := fromBits_sem FP64 a
theorem fromF32_can (a : Nat) : (fromF32 a).Canonical := (fromBits_canonical FP32 a FP32_WF).1
theorem fromF32_sem (a : Nat) : (fromF32 a).sem = FP32 := fromBits_sem FP32 a

theorem fromF64_wf (a : Nat) : (fromF64 a).sem.WF := by rw [fromF64_sem]; exact FP64_WF
theorem fromF32_wf (a : Nat) : (fromF32 a).sem.WF := by rw [fromF32_sem]; exact FP32_WF

theorem fromF64_sems (a b : Nat) : (fromF64 b).sem = (fromF64 a).sem := by
  rw [fromF64_sem, fromF64_sem]
theorem fromF32_sems (a b : Nat) : (fromF32 b).sem = (fromF32 a).sem := by
  rw [fromF32_sem, fromF32_sem]

/-- the operators of a loaded `f64` run in nearest-even mode -/
theorem f64_operator_mode (a : Nat) : (fromF64 a).sem.rm = .nte := by rw [fromF64_sem]; rfl
theorem f32_operator_mode (a : Nat) : (fromF32 a).sem.rm = .nte := by rw [fromF32_sem]; rfl

/-! ## 4. FP64: values -/

section f64
variable (a b : Nat)

theorem f64_add : ((fromF64 a).add (fromF64 b)).toRes
    = Spec.add FP64 .nte (fromF64 a) (fromF64 b) := by
  have := C01.add_correct (fromF64 a) (fromF64 b) .nte (fromF64_wf a) (fromF64_sems a b)
    (fromF64_can a) (fromF64_can b)
  rw [fromF64_sem] at this
  rw [C01.operator_add, f64_operator_mode]; exact this

theorem f64_sub : ((fromF64 a).sub (fromF64 b)).toRes
    = Spec.sub FP64 .nte (fromF64 a) (fromF64 b) := by
  have := C01.sub_correct (fromF64 a) (fromF64 b) .nte (fromF64_wf a) (fromF64_sems a b)
    (fromF64_can a) (fromF64_can b)
  rw [fromF64_sem] at this
  rw [C01.operator_sub, f64_operator_mode]; exact this

theorem f64_mul : ((fromF64 a).mul (fromF64 b)).toRes
    = Spec.mul FP64 .nte (fromF64 a) (fromF64 b) := by
  have := C01.mul_correct (fromF64 a) (fromF64 b) .nte (fromF64_wf a) (fromF64_sems a b)
    (fromF64_can a) (fromF64_can b)
  rw [fromF64_sem] at this
  rw [C01.operator_mul, f64_operator_mode]; exact this

theorem f64_div : ((fromF64 a).div (fromF64 b)).toRes
    = Spec.div FP64 .nte (fromF64 a) (fromF64 b) := by
  have := C01.div_correct (fromF64 a) (fromF64 b) .nte (fromF64_wf a) (fromF64_sems a b)
    (fromF64_can a) (fromF64_can b)
  rw [fromF64_sem] at this
  rw [C01.operator_div, f64_operator_mode]; exact this

/-- comparison: the order of the denoted extended reals, `none` iff an operand is NaN -/
theorem f64_cmp : (fromF64 a).partialCmp (fromF64 b) = Spec.cmp (fromF64 a) (fromF64 b) :=
  C05.partialCmp_spec _ _ (fromF64_wf a) (fromF64_sems a b) (fromF64_can a) (fromF64_can b)

theorem f64_lt : (fromF64 a).lt (fromF64 b)
    = decide (Spec.cmp (fromF64 a) (fromF64 b) = some .lt) :=
  C05.lt_iff _ _ (fromF64_wf a) (fromF64_sems a b) (fromF64_can a) (fromF64_can b)
theorem f64_le : (fromF64 a).le (fromF64 b)
    = decide (Spec.cmp (fromF64 a) (fromF64 b) = some .lt
        ∨ Spec.cmp (fromF64 a) (fromF64 b) = some .eq) :=
  C05.le_iff _ _ (fromF64_wf a) (fromF64_sems a b) (fromF64_can a) (fromF64_can b)
theorem f64_gt : (fromF64 a).gt (fromF64 b)
    = decide (Spec.cmp (fromF64 a) (fromF64 b) = some .gt) :=
  C05.gt_iff _ _ (fromF64_wf a) (fromF64_sems a b) (fromF64_can a) (fromF64_can b)
theorem f64_ge : (fromF64 a).ge (fromF64 b)
    = decide (Spec.cmp (fromF64 a) (fromF64 b) = some .gt
        ∨ Spec.cmp (fromF64 a) (fromF64 b) = some .eq) :=
  C05.ge_iff _ _ (fromF64_wf a) (fromF64_sems a b) (fromF64_can a) (fromF64_can b)

theorem f64_trunc : (fromF64 a).trunc.toRes = Spec.trunc (fromF64 a) :=
  C10.trunc_spec _ (fromF64_wf a) (fromF64_can a)

theorem f64_round (r : Res) (h : Spec.roundHalfAway (fromF64 a) = some r) :
    (fromF64 a).round.toRes = r :=
  C10.round_spec _ (fromF64_wf a) (fromF64_can a) r h

theorem f64_rem (fuel : Nat) (r : Flt) (h : (fromF64 a).remFuel fuel (fromF64 b) = some r) :
    r.toRes = Spec.rem (fromF64 a) (fromF64 b) :=
  (C11.rem_spec _ _ fuel (fromF64_wf a) (fromF64_sems a b) (fromF64_can a) (fromF64_can b) r h).1

/-! ## 5. FP64: bit patterns of the results -/

theorem f64_add_can : ((fromF64 a).add (fromF64 b)).Canonical
    ∧ ((fromF64 a).add (fromF64 b)).sem = FP64 := by
  have := add_canonical (fromF64 a) (fromF64 b) (fromF64_wf a) (fromF64_sems a b)
    (fromF64_can a) (fromF64_can b)
  rwa [fromF64_sem] at this
theorem f64_sub_can : ((fromF64 a).sub (fromF64 b)).Canonical
    ∧ ((fromF64 a).sub (fromF64 b)).sem = FP64 := by
  have := sub_canonical (fromF64 a) (fromF64 b) (fromF64_wf a) (fromF64_sems a b)
    (fromF64_can a) (fromF64_can b)
  rwa [fromF64_sem] at this
theorem f64_mul_can : ((fromF64 a).mul (fromF64 b)).Canonical
    ∧ ((fromF64 a).mul (fromF64 b)).sem = FP64 := by
  have := mul_canonical (fromF64 a) (fromF64 b) (fromF64_wf a)
  rwa [fromF64_sem] at this
theorem f64_div_can : ((fromF64 a).div (fromF64 b)).Canonical
    ∧ ((fromF64 a).div (fromF64 b)).sem = FP64 := by
  have := div_canonical (fromF64 a) (fromF64 b) (fromF64_wf a)
  rwa [fromF64_sem] at this

/-- **f64 addition, bit for bit**: the word stored for `a + b` is the IEEE-754 encoding of the
    exact sum rounded once to nearest-even (specials by the IEEE table). -/
theorem f64_add_bits (hnn : Spec.add FP64 .nte (fromF64 a) (fromF64 b) ≠ .nan) :
    ((fromF64 a).add (fromF64 b)).asF64
      = encodeRes FP64 (Spec.add FP64 .nte (fromF64 a) (fromF64 b)) :=
  asF64_of_res _ _ (f64_add_can a b).2 (f64_add_can a b).1 (f64_add a b) hnn

theorem f64_sub_bits (hnn : Spec.sub FP64 .nte (fromF64 a) (fromF64 b) ≠ .nan) :
    ((fromF64 a).sub (fromF64 b)).asF64
      = encodeRes FP64 (Spec.sub FP64 .nte (fromF64 a) (fromF64 b)) :=
  asF64_of_res _ _ (f64_sub_can a b).2 (f64_sub_can a b).1 (f64_sub a b) hnn

theorem f64_mul_bits (hnn : Spec.mul FP64 .nte (fromF64 a) (fromF64 b) ≠ .nan) :
    ((fromF64 a).mul (fromF64 b)).asF64
      = encodeRes FP64 (Spec.mul FP64 .nte (fromF64 a) (fromF64 b)) :=
  asF64_of_res _ _ (f64_mul_can a b).2 (f64_mul_can a b).1 (f64_mul a b) hnn

theorem f64_div_bits (hnn : Spec.div FP64 .nte (fromF64 a) (fromF64 b) ≠ .nan) :
    ((fromF64 a).div (fromF64 b)).asF64
      = encodeRes FP64 (Spec.div FP64 .nte (fromF64 a) (fromF64 b)) :=
  asF64_of_res _ _ (f64_div_can a b).2 (f64_div_can a b).1 (f64_div a b) hnn

/-- when the specified result is NaN, the stored word is the quiet NaN (either sign bit) -/
theorem f64_add_bits_nan (hn : Spec.add FP64 .nte (fromF64 a) (fromF64 b) = .nan) :
    ((fromF64 a).add (fromF64 b)).asF64 = 0x7ff8000000000000
      ∨ ((fromF64 a).add (fromF64 b)).asF64 = 0xfff8000000000000 := by
  have := asF64_of_nan _ (f64_add_can a b).2 (f64_add_can a b).1 (by rw [f64_add]; exact hn)
  rw [this]; cases ((fromF64 a).add (fromF64 b)).sign
  · left; decide
  · right; decide
theorem f64_sub_bits_nan (hn : Spec.sub FP64 .nte (fromF64 a) (fromF64 b) = .nan) :
    ((fromF64 a).sub (fromF64 b)).asF64 = 0x7ff8000000000000
      ∨ ((fromF64 a).sub (fromF64 b)).asF64 = 0xfff8000000000000 := by
  have := asF64_of_nan _ (f64_sub_can a b).2 (f64_sub_can a b).1 (by rw [f64_sub]; exact hn)
  rw [this]; cases ((fromF64 a).sub (fromF64 b)).sign
  · left; decide
  · right; decide
theorem f64_mul_bits_nan (hn : Spec.mul FP64 .nte (fromF64 a) (fromF64 b) = .nan) :
    ((fromF64 a).mul (fromF64 b)).asF64 = 0x7ff8000000000000
      ∨ ((fromF64 a).mul (fromF64 b)).asF64 = 0xfff8000000000000 := by
  have := asF64_of_nan _ (f64_mul_can a b).2 (f64_mul_can a b).1 (by rw [f64_mul]; exact hn)
  rw [this]; cases ((fromF64 a).mul (fromF64 b)).sign
  · left; decide
  · right; decide
theorem f64_div_bits_nan (hn : Spec.div FP64 .nte (fromF64 a) (fromF64 b) = .nan) :
    ((fromF64 a).div (fromF64 b)).asF64 = 0x7ff8000000000000
      ∨ ((fromF64 a).div (fromF64 b)).asF64 = 0xfff8000000000000 := by
  have := asF64_of_nan _ (f64_div_can a b).2 (f64_div_can a b).1 (by rw [f64_div]; exact hn)
  rw [this]; cases ((fromF64 a).div (fromF64 b)).sign
  · left; decide
  · right; decide

theorem f64_trunc_bits (hnn : Spec.trunc (fromF64 a) ≠ .nan) :
    (fromF64 a).trunc.asF64 = encodeRes FP64 (Spec.trunc (fromF64 a)) := by
  have hc := trunc_canonical (fromF64 a) (fromF64_can a)
  rw [fromF64_sem] at hc
  exact asF64_of_res _ _ hc.2 hc.1 (f64_trunc a) hnn

theorem f64_round_bits (r : Res) (h : Spec.roundHalfAway (fromF64 a) = some r) (hnn : r ≠ .nan) :
    (fromF64 a).round.asF64 = encodeRes FP64 r := by
  have hc := round_canonical (fromF64 a) (fromF64_wf a) (fromF64_can a)
  rw [fromF64_sem] at hc
  exact asF64_of_res _ _ hc.2 hc.1 (f64_round a r h) hnn

theorem f64_rem_bits (fuel : Nat) (r : Flt) (h : (fromF64 a).remFuel fuel (fromF64 b) = some r)
    (hnn : Spec.rem (fromF64 a) (fromF64 b) ≠ .nan) :
    r.asF64 = encodeRes FP64 (Spec.rem (fromF64 a) (fromF64 b)) := by
  have hc := remFuel_canonical fuel _ _ r (fromF64_wf a) (fromF64_sems a b) (fromF64_can a)
    (fromF64_can b) h
  rw [fromF64_sem] at hc
  exact asF64_of_res _ _ hc.2 hc.1 (f64_rem a b fuel r h) hnn

end f64

/-! ## 6. FP32: values -/

section f32
variable (a b : Nat)

theorem f32_add : ((fromF32 a).add (fromF32 b)).toRes
    = Spec.add FP32 .nte (fromF32 a) (fromF32 b) := by
  have := C01.add_correct (fromF32 a) (fromF32 b) .nte (fromF32_wf a) (fromF32_sems a b)
    (fromF32_can a) (fromF32_can b)
  rw [fromF32_sem] at this
  rw [C01.operator_add, f32_operator_mode]; exact this

theorem f32_sub : ((fromF32 a).sub (fromF32 b)).toRes
    = Spec.sub FP32 .nte (fromF32 a) (fromF32 b) := by
  have := C01.sub_correct (fromF32 a) (fromF32 b) .nte (fromF32_wf a) (fromF32_sems a b)
    (fromF32_can a) (fromF32_can b)
  rw [fromF32_sem] at this
  rw [C01.operator_sub, f32_operator_mode]; exact this

theorem f32_mul : ((fromF32 a).mul (fromF32 b)).toRes
    = Spec.mul FP32 .nte (fromF32 a) (fromF32 b) := by
  have := C01.mul_correct (fromF32 a) (fromF32 b) .nte (fromF32_wf a) (fromF32_sems a b)
    (fromF32_can a) (fromF32_can b)
  rw [fromF32_sem] at this
  rw [C01.operator_mul, f32_operator_mode]; exact this

theorem f32_div : ((fromF32 a).div (fromF32 b)).toRes
    = Spec.div FP32 .nte (fromF32 a) (fromF32 b) := by
  have := C01.div_correct (fromF32 a) (fromF32 b) .nte (fromF32_wf a) (fromF32_sems a b)
    (fromF32_can a) (fromF32_can b)
  rw [fromF32_sem] at this
  rw [C01.operator_div, f32_operator_mode]; exact this

theorem f32_cmp : (fromF32 a).partialCmp (fromF32 b) = Spec.cmp (fromF32 a) (fromF32 b) :=
  C05.partialCmp_spec _ _ (fromF32_wf a) (fromF32_sems a b) (fromF32_can a) (fromF32_can b)

theorem f32_lt : (fromF32 a).lt (fromF32 b)
    = decide (Spec.cmp (fromF32 a) (fromF32 b) = some .lt) :=
  C05.lt_iff _ _ (fromF32_wf a) (fromF32_sems a b) (fromF32_can a) (fromF32_can b)
theorem f32_le : (fromF32 a).le (fromF32 b)
    = decide (Spec.cmp (fromF32 a) (fromF32 b) = some .lt
        ∨ Spec.cmp (fromF32 a) (fromF32 b) = some .eq) :=
  C05.le_iff _ _ (fromF32_wf a) (fromF32_sems a b) (fromF32_can a) (fromF32_can b)
theorem f32_gt : (fromF32 a).gt (fromF32 b)
    = decide (Spec.cmp (fromF32 a) (fromF32 b) = some .gt) :=
  C05.gt_iff _ _ (fromF32_wf a) (fromF32_sems a b) (fromF32_can a) (fromF32_can b)
theorem f32_ge : (fromF32 a).ge (fromF32 b)
    = decide (Spec.cmp (fromF32 a) (fromF32 b) = some .gt
        ∨ Spec.cmp (fromF32 a) (fromF32 b) = some .eq) :=
  C05.ge_iff _ _ (fromF32_wf a) (fromF32_sems a b) (fromF32_can a) (fromF32_can b)

theorem f32_trunc : (fromF32 a).trunc.toRes = Spec.trunc (fromF32 a) :=
  C10.trunc_spec _ (fromF32_wf a) (fromF32_can a)

theorem f32_round (r : Res) (h : Spec.roundHalfAway (fromF32 a) = some r) :
    (fromF32 a).round.toRes = r :=
  C10.round_spec _ (fromF32_wf a) (fromF32_can a) r h

theorem f32_rem (fuel : Nat) (r : Flt) (h : (fromF32 a).remFuel fuel (fromF32 b) = some r) :
    r.toRes = Spec.rem (fromF32 a) (fromF32 b) :=
  (C11.rem_spec _ _ fuel (fromF32_wf a) (fromF32_sems a b) (fromF32_can a) (fromF32_can b) r h).1

/-! ## 7. FP32: bit patterns of the results -/

theorem f32_add_can : ((fromF32 a).add (fromF32 b)).Canonical
    ∧ ((fromF32 a).add (fromF32 b)).sem = FP32 := by
  have := add_canonical (fromF32 a) (fromF32 b) (fromF32_wf a) (fromF32_sems a b)
    (fromF32_can a) (fromF32_can b)
  rwa [fromF32_sem] at this
theorem f32_sub_can : ((fromF32 a).sub (fromF32 b)).Canonical
    ∧ ((fromF32 a).sub (fromF32 b)).sem = FP32 := by
  have := sub_canonical (fromF32 a) (fromF32 b) (fromF32_wf a) (fromF32_sems a b)
    (fromF32_can a) (fromF32_can b)
  rwa [fromF32_sem] at this
theorem f32_mul_can : ((fromF32 a).mul (fromF32 b)).Canonical
    ∧ ((fromF32 a).mul (fromF32 b)).sem = FP32 := by
  have := mul_canonical (fromF32 a) (fromF32 b) (fromF32_wf a)
  rwa [fromF32_sem] at this
theorem f32_div_can : ((fromF32 a).div (fromF32 b)).Canonical
    ∧ ((fromF32 a).div (fromF32 b)).sem = FP32 := by
  have := div_canonical (fromF32 a) (fromF32 b) (fromF32_wf a)
  rwa [fromF32_sem] at this

theorem f32_add_bits (hnn : Spec.add FP32 .nte (fromF32 a) (fromF32 b) ≠ .nan) :
    ((fromF32 a).add (fromF32 b)).asF32
      = encodeRes FP32 (Spec.add FP32 .nte (fromF32 a) (fromF32 b)) :=
  asF32_of_res _ _ (f32_add_can a b).2 (f32_add_can a b).1 (f32_add a b) hnn

theorem f32_sub_bits (hnn : Spec.sub FP32 .nte (fromF32 a) (fromF32 b) ≠ .nan) :
    ((fromF32 a).sub (fromF32 b)).asF32
      = encodeRes FP32 (Spec.sub FP32 .nte (fromF32 a) (fromF32 b)) :=
  asF32_of_res _ _ (f32_sub_can a b).2 (f32_sub_can a b).1 (f32_sub a b) hnn

theorem f32_mul_bits (hnn : Spec.mul FP32 .nte (fromF32 a) (fromF32 b) ≠ .nan) :
    ((fromF32 a).mul (fromF32 b)).asF32
      = encodeRes FP32 (Spec.mul FP32 .nte (fromF32 a) (fromF32 b)) :=
  asF32_of_res _ _ (f32_mul_can a b).2 (f32_mul_can a b).1 (f32_mul a b) hnn

theorem f32_div_bits (hnn : Spec.div FP32 .nte (fromF32 a) (fromF32 b) ≠ .nan) :
    ((fromF32 a).div (fromF32 b)).asF32
      = encodeRes FP32 (Spec.div FP32 .nte (fromF32 a) (fromF32 b)) :=
  asF32_of_res _ _ (f32_div_can a b).2 (f32_div_can a b).1 (f32_div a b) hnn

theorem f32_add_bits_nan (hn : Spec.add FP32 .nte (fromF32 a) (fromF32 b) = .nan) :
    ((fromF32 a).add (fromF32 b)).asF32 = 0x7fc00000
      ∨ ((fromF32 a).add (fromF32 b)).asF32 = 0xffc00000 := by
  have := asF32_of_nan _ (f32_add_can a b).2 (f32_add_can a b).1 (by rw [f32_add]; exact hn)
  rw [this]; cases ((fromF32 a).add (fromF32 b)).sign
  · left; decide
  · right; decide
theorem f32_sub_bits_nan (hn : Spec.sub FP32 .nte (fromF32 a) (fromF32 b) = .nan) :
    ((fromF32 a).sub (fromF32 b)).asF32 = 0x7fc00000
      ∨ ((fromF32 a).sub (fromF32 b)).asF32 = 0xffc00000 := by
  have := asF32_of_nan _ (f32_sub_can a b).2 (f32_sub_can a b).1 (by rw [f32_sub]; exact hn)
  rw [this]; cases ((fromF32 a).sub (fromF32 b)).sign
  · left; decide
  · right; decide
theorem f32_mul_bits_nan (hn : Spec.mul FP32 .nte (fromF32 a) (fromF32 b) = .nan) :
    ((fromF32 a).mul (fromF32 b)).asF32 = 0x7fc00000
      ∨ ((fromF32 a).mul (fromF32 b)).asF32 = 0xffc00000 := by
  have := asF32_of_nan _ (f32_mul_can a b).2 (f32_mul_can a b).1 (by rw [f32_mul]; exact hn)
  rw [this]; cases ((fromF32 a).mul (fromF32 b)).sign
  · left; decide
  · right; decide
theorem f32_div_bits_nan (hn : Spec.div FP32 .nte (fromF32 a) (fromF32 b) = .nan) :
    ((fromF32 a).div (fromF32 b)).asF32 = 0x7fc00000
      ∨ ((fromF32 a).div (fromF32 b)).asF32 = 0xffc00000 := by
  have := asF32_of_nan _ (f32_div_can a b).2 (f32_div_can a b).1 (by rw [f32_div]; exact hn)
  rw [this]; cases ((fromF32 a).div (fromF32 b)).sign
  · left; decide
  · right; decide

theorem f32_trunc_bits (hnn : Spec.trunc (fromF32 a) ≠ .nan) :
    (fromF32 a).trunc.asF32 = encodeRes FP32 (Spec.trunc (fromF32 a)) := by
  have hc := trunc_canonical (fromF32 a) (fromF32_can a)
  rw [fromF32_sem] at hc
  exact asF32_of_res _ _ hc.2 hc.1 (f32_trunc a) hnn

theorem f32_round_bits (r : Res) (h : Spec.roundHalfAway (fromF32 a) = some r) (hnn : r ≠ .nan) :
    (fromF32 a).round.asF32 = encodeRes FP32 r := by
  have hc := round_canonical (fromF32 a) (fromF32_wf a) (fromF32_can a)
  rw [fromF32_sem] at hc
  exact asF32_of_res _ _ hc.2 hc.1 (f32_round a r h) hnn

theorem f32_rem_bits (fuel : Nat) (r : Flt) (h : (fromF32 a).remFuel fuel (fromF32 b) = some r)
    (hnn : Spec.rem (fromF32 a) (fromF32 b) ≠ .nan) :
    r.asF32 = encodeRes FP32 (Spec.rem (fromF32 a) (fromF32 b)) := by
  have hc := remFuel_canonical fuel _ _ r (fromF32_wf a) (fromF32_sems a b) (fromF32_can a)
    (fromF32_can b) h
  rw [fromF32_sem] at hc
  exact asF32_of_res _ _ hc.2 hc.1 (f32_rem a b fuel r h) hnn

end f32

/-! ## 8. Unconditional form (NaN results included): the stored word is a word of the native
size and DECODES to the specified result -/

theorem asF64_word (z : Flt) (hs : z.sem = FP64) (hc : z.Canonical) :
    z.asF64 < 2 ^ 64 ∧ fromF64 z.asF64 = z := by
  refine ⟨?_, asF64_roundtrip z hs hc⟩
  have hcs := cast_same z hc
  have hlt := asNativeFloat_lt z (by rw [hs]; exact FP64_WF) (by rw [hs]; decide) hc
  rw [hs] at hcs hlt
  unfold Flt.asF64
  rw [hcs]; exact hlt

theorem asF32_word (z : Flt) (hs : z.sem = FP32) (hc : z.Canonical) :
    z.asF32 < 2 ^ 32 ∧ fromF32 z.asF32 = z :=
  ⟨Nat.mod_lt _ (by norm_num), asF32_roundtrip z hs hc⟩

section words
variable (a b : Nat)

theorem f64_add_word : ((fromF64 a).add (fromF64 b)).asF64 < 2 ^ 64
    ∧ (fromF64 ((fromF64 a).add (fromF64 b)).asF64).toRes
        = Spec.add FP64 .nte (fromF64 a) (fromF64 b) := by
  obtain ⟨h1, h2⟩ := asF64_word _ (f64_add_can a b).2 (f64_add_can a b).1
  exact ⟨h1, by rw [h2]; exact f64_add a b⟩
theorem f64_sub_word : ((fromF64 a).sub (fromF64 b)).asF64 < 2 ^ 64
    ∧ (fromF64 ((fromF64 a).sub (fromF64 b)).asF64).toRes
        = Spec.sub FP64 .nte (fromF64 a) (fromF64 b) := by
  obtain ⟨h1, h2⟩ := asF64_word _ (f64_sub_can a b).2 (f64_sub_can a b).1
  exact ⟨h1, by rw [h2]; exact f64_sub a b⟩
theorem f64_mul_word : ((fromF64 a).mul (fromF64 b)).asF64 < 2 ^ 64
    ∧ (fromF64 ((fromF64 a).mul (fromF64 b)).asF64).toRes
        = Spec.mul FP64 .nte (fromF64 a) (fromF64 b) := by
  obtain ⟨h1, h2⟩ := asF64_word _ (f64_mul_can a b).2 (f64_mul_can a b).1
  exact ⟨h1, by rw [h2]; exact f64_mul a b⟩
theorem f64_div_word : ((fromF64 a).div (fromF64 b)).asF64 < 2 ^ 64
    ∧ (fromF64 ((fromF64 a).div (fromF64 b)).asF64).toRes
        = Spec.div FP64 .nte (fromF64 a) (fromF64 b) := by
  obtain ⟨h1, h2⟩ := asF64_word _ (f64_div_can a b).2 (f64_div_can a b).1
  exact ⟨h1, by rw [h2]; exact f64_div a b⟩

theorem f32_add_word : ((fromF32 a).add (fromF32 b)).asF32 < 2 ^ 32
    ∧ (fromF32 ((fromF32 a).add (fromF32 b)).asF32).toRes
        = Spec.add FP32 .nte (fromF32 a) (fromF32 b) := by
  obtain ⟨h1, h2⟩ := asF32_word _ (f32_add_can a b).2 (f32_add_can a b).1
  exact ⟨h1, by rw [h2]; exact f32_add a b⟩
theorem f32_sub_word : ((fromF32 a).sub (fromF32 b)).asF32 < 2 ^ 32
    ∧ (fromF32 ((fromF32 a).sub (fromF32 b)).asF32).toRes
        = Spec.sub FP32 .nte (fromF32 a) (fromF32 b) := by
  obtain ⟨h1, h2⟩ := asF32_word _ (f32_sub_can a b).2 (f32_sub_can a b).1
  exact ⟨h1, by rw [h2]; exact f32_sub a b⟩
theorem f32_mul_word : ((fromF32 a).mul (fromF32 b)).asF32 < 2 ^ 32
    ∧ (fromF32 ((fromF32 a).mul (fromF32 b)).asF32).toRes
        = Spec.mul FP32 .nte (fromF32 a) (fromF32 b) := by
  obtain ⟨h1, h2⟩ := asF32_word _ (f32_mul_can a b).2 (f32_mul_can a b).1
  exact ⟨h1, by rw [h2]; exact f32_mul a b⟩
theorem f32_div_word : ((fromF32 a).div (fromF32 b)).asF32 < 2 ^ 32
    ∧ (fromF32 ((fromF32 a).div (fromF32 b)).asF32).toRes
        = Spec.div FP32 .nte (fromF32 a) (fromF32 b) := by
  obtain ⟨h1, h2⟩ := asF32_word _ (f32_div_can a b).2 (f32_div_can a b).1
  exact ⟨h1, by rw [h2]; exact f32_div a b⟩

end words

/-! ## 9. Concrete instances -/

/-- `1.0 + 2^-53` is a tie in binary64: the even neighbour `1.0` is stored. -/
example : ((fromF64 0x3ff0000000000000).add (fromF64 0x3ca0000000000000)).asF64
    = 0x3ff0000000000000 := by decide
/-- `1.0f / 3.0f = 0x3eaaaaab` -/
example : ((fromF32 0x3f800000).div (fromF32 0x40400000)).asF32 = 0x3eaaaaab := by decide
/-- `inf - inf` is the quiet NaN -/
example : ((fromF32 0x7f800000).sub (fromF32 0x7f800000)).asF32 = 0x7fc00000 := by decide

end Arp.C07
